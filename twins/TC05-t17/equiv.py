#!/usr/bin/env python
"""Differential test for refactoring TC05-t17 (gradient helpers merged, query wrapper folded into the sweep, dummy node value built at import time).

Runs xrspatial.viewshed on 462 terrain/observer/height/cell-size combinations
(int and float dtypes, ties and plateaus, NaN / inf cells, 2-wide and 2-tall
rasters, square and non-square / descending coordinates, corner / edge /
interior observers, negative observer heights, target heights) plus error
paths (out-of-range / NaN observer coordinates, dask input, 1-row / 1-col
rasters, in-place float64 conversion of the input) and compares every result
BITWISE with values recorded from the unmodified tree (embedded below).

Run from inside the worktree:
    cd <worktree> && PYTHONPATH=<worktree> /venv/bin/python equiv.py
Exit status 0 = identical, 1 = some difference.
"""
import base64
import io
import os
import sys

import warnings
import numpy as np
import xarray as xr


def _terrains():
    rng = np.random.RandomState(20240705)
    out = []
    # (name, array)
    out.append(('doc', np.array([[0, 0, 1, 0, 0], [1, 3, 0, 0, 0],
                                 [10, 2, 5, 2, -1], [11, 1, 2, 9, 0]])))
    out.append(('flat_i32', np.zeros((5, 6), dtype=np.int32)))
    out.append(('plateau_f32', np.array([[1, 1, 1, 1, 1, 1, 1],
                                         [1, 2, 2, 2, 2, 2, 1],
                                         [1, 2, 3, 3, 3, 2, 1],
                                         [1, 2, 3, 3, 3, 2, 1],
                                         [1, 2, 2, 2, 2, 2, 1],
                                         [1, 1, 1, 1, 1, 1, 1]],
                                        dtype=np.float32)))
    out.append(('rand_f64', rng.uniform(-5, 25, size=(9, 11))))
    out.append(('rand_ties_i64',
                rng.randint(0, 4, size=(8, 7)).astype(np.int64)))
    out.append(('rand_u8', rng.randint(0, 255, size=(6, 9)).astype(np.uint8)))
    out.append(('rand_f32', rng.uniform(0, 3, size=(7, 5)).astype(np.float32)))
    out.append(('tall_2col', rng.uniform(0, 10, size=(10, 2))))
    out.append(('wide_2row', rng.randint(-3, 9, size=(2, 12)).astype(np.int16)))
    out.append(('ridge', np.where(np.arange(13)[None, :] == 6, 50.0,
                                  rng.uniform(0, 1, size=(12, 13)))))
    nan_t = rng.uniform(0, 10, size=(8, 9))
    nan_t[2, 3] = np.nan
    nan_t[5, 5] = np.nan
    nan_t[0, 0] = np.nan
    nan_t[7, 1:4] = np.nan
    out.append(('with_nan', nan_t))
    inf_t = rng.uniform(0, 10, size=(6, 6))
    inf_t[1, 4] = np.inf
    inf_t[4, 1] = -np.inf
    out.append(('with_inf', inf_t))
    out.append(('big_rand', rng.uniform(0, 100, size=(23, 19)).round(0)))
    return out


def _coord_sets(h, w):
    # (name, ys, xs)
    return [
        ('unit', np.arange(h, dtype=np.float64), np.arange(w, dtype=np.float64)),
        ('nonsq_desc', np.linspace(40.0, 40.0 - 2.5 * (h - 1), h),
         np.linspace(-3.0, -3.0 + 0.5 * (w - 1), w)),
    ]


def _observers(h, w):
    cand = [(0, 0), (0, w - 1), (h - 1, 0), (h - 1, w - 1), (h // 2, w // 2),
            (0, w // 2), (h // 2, 0), (h - 1, w // 3), (h // 3, w - 1),
            (1, 1)]
    seen = []
    for c in cand:
        if c not in seen:
            seen.append(c)
    return seen


_ELEVS = [(0, 0), (1.5, 0), (-2, 0), (3, 2), (0, 0.75), (10, -1), (-0.5, 4)]


def iter_cases():
    k = 0
    for tname, arr in _terrains():
        h, w = arr.shape
        for cname, ys, xs in _coord_sets(h, w):
            for (r, c) in _observers(h, w):
                oe, te = _ELEVS[k % len(_ELEVS)]
                k += 1
                yield ('%s|%s|r%dc%d|oe%s|te%s' % (tname, cname, r, c, oe, te),
                       arr, ys, xs, r, c, oe, te)
                if tname in ('doc', 'rand_ties_i64', 'with_nan') and \
                        cname == 'unit':
                    for oe2, te2 in _ELEVS:
                        yield ('%s|%s|r%dc%d|oe%s|te%s|all' %
                               (tname, cname, r, c, oe2, te2),
                               arr, ys, xs, r, c, oe2, te2)


def run_case(viewshed, arr, ys, xs, r, c, oe, te, off=(0.0, 0.0)):
    ra = xr.DataArray(arr.copy(), dims=['y', 'x'],
                      coords={'y': ys, 'x': xs}, attrs={'res': 1, 'k': 'v'})
    with warnings.catch_warnings():
        warnings.simplefilter('ignore')
        try:
            res = viewshed(ra, x=xs[c] + off[1], y=ys[r] + off[0],
                           observer_elev=oe, target_elev=te)
        except Exception as e:  # recorded as part of the behaviour
            return ('EXC', type(e).__name__, str(e))
    assert isinstance(res, xr.DataArray)
    assert isinstance(res.data, np.ndarray)
    meta = (str(res.dtype), tuple(res.dims), sorted(res.attrs.items()),
            str(ra.dtype), res.name,
            bool(np.array_equal(res['x'].values, xs)),
            bool(np.array_equal(res['y'].values, ys)))
    return ('OK', res.values, repr(meta))


def extra_cases(viewshed):
    """Error paths / odd inputs; returns list of (name, repr-able result)."""
    out = []
    arr = np.arange(20, dtype=np.float64).reshape(4, 5) % 7
    ys = np.arange(4, dtype=np.float64)
    xs = np.arange(5, dtype=np.float64)

    def call(name, f):
        with warnings.catch_warnings():
            warnings.simplefilter('ignore')
            try:
                v = f()
                if hasattr(v, 'values'):
                    v = ('OK', str(v.dtype), v.values.tobytes().hex())
                out.append((name, repr(v)))
            except Exception as e:
                out.append((name, repr(('EXC', type(e).__name__, str(e)))))

    def mk(a=arr, ys=ys, xs=xs):
        return xr.DataArray(a.copy(), dims=['y', 'x'],
                            coords={'y': ys, 'x': xs})

    call('x_low', lambda: viewshed(mk(), x=-0.01, y=1))
    call('x_high', lambda: viewshed(mk(), x=4.01, y=1))
    call('y_low', lambda: viewshed(mk(), x=1, y=-1))
    call('y_high', lambda: viewshed(mk(), x=1, y=3.5))
    call('x_nan', lambda: viewshed(mk(), x=np.nan, y=1))
    call('y_nan', lambda: viewshed(mk(), x=1, y=np.nan))
    call('nearest_snap', lambda: viewshed(mk(), x=2.4, y=1.6, observer_elev=1))
    call('nearest_snap2', lambda: viewshed(mk(), x=2.6, y=0.4, target_elev=1))
    call('defaults_positional', lambda: viewshed(mk(), 3, 2, 2, 1))
    call('int_xy', lambda: viewshed(mk(), x=4, y=3))
    call('target_nan', lambda: viewshed(mk(), x=2, y=2, target_elev=np.nan))
    call('obs_nan', lambda: viewshed(mk(), x=2, y=2, observer_elev=np.nan))
    call('single_row', lambda: viewshed(
        mk(arr[:1], ys[:1], xs), x=2, y=0))
    call('single_col', lambda: viewshed(
        mk(arr[:, :1], ys, xs[:1]), x=0, y=2))
    call('single_cell', lambda: viewshed(
        mk(arr[:1, :1], ys[:1], xs[:1]), x=0, y=0))
    call('list_data', lambda: viewshed(
        xr.DataArray(arr.copy()), x=0, y=0))
    try:
        import dask.array as da
        d = xr.DataArray(da.from_array(arr.copy(), chunks=(2, 3)),
                         dims=['y', 'x'], coords={'y': ys, 'x': xs})
        call('dask', lambda: viewshed(d, x=2, y=2))
    except ImportError:
        out.append(('dask', 'no dask'))
    # input raster is converted to float64 in place by the cpu path
    r = mk(arr.astype(np.int32))
    call('mutates_dtype', lambda: (viewshed(r, x=1, y=1) is None,
                                   str(r.dtype), r.values.tobytes().hex()))
    return out


_METAS = {
"doc|unit|r0c0|oe0|te0": [
"OK",
"a0",
"('float64', ('y', 'x'), [('k', 'v'), ('res', 1)], 'float64', None, True, True)"
],
"doc|unit|r0c0|oe0|te0|all": [
"OK",
"a1",
"('float64', ('y', 'x'), [('k', 'v'), ('res', 1)], 'float64', None, True, True)"
],
"doc|unit|r0c0|oe1.5|te0|all": [
"OK",
"a2",
"('float64', ('y', 'x'), [('k', 'v'), ('res', 1)], 'float64', None, True, True)"
],
"doc|unit|r0c0|oe-2|te0|all": [
"OK",
"a3",
"('float64', ('y', 'x'), [('k', 'v'), ('res', 1)], 'float64', None, True, True)"
],
"doc|unit|r0c0|oe3|te2|all": [
"OK",
"a4",
"('float64', ('y', 'x'), [('k', 'v'), ('res', 1)], 'float64', None, True, True)"
],
"doc|unit|r0c0|oe0|te0.75|all": [
"OK",
"a5",
"('float64', ('y', 'x'), [('k', 'v'), ('res', 1)], 'float64', None, True, True)"
],
"doc|unit|r0c0|oe10|te-1|all": [
"OK",
"a6",
"('float64', ('y', 'x'), [('k', 'v'), ('res', 1)], 'float64', None, True, True)"
],
"doc|unit|r0c0|oe-0.5|te4|all": [
"OK",
"a7",
"('float64', ('y', 'x'), [('k', 'v'), ('res', 1)], 'float64', None, True, True)"
],
"doc|unit|r0c4|oe1.5|te0": [
"OK",
"a8",
"('float64', ('y', 'x'), [('k', 'v'), ('res', 1)], 'float64', None, True, True)"
],
"doc|unit|r0c4|oe0|te0|all": [
"OK",
"a9",
"('float64', ('y', 'x'), [('k', 'v'), ('res', 1)], 'float64', None, True, True)"
],
"doc|unit|r0c4|oe1.5|te0|all": [
"OK",
"a10",
"('float64', ('y', 'x'), [('k', 'v'), ('res', 1)], 'float64', None, True, True)"
],
"doc|unit|r0c4|oe-2|te0|all": [
"OK",
"a11",
"('float64', ('y', 'x'), [('k', 'v'), ('res', 1)], 'float64', None, True, True)"
],
"doc|unit|r0c4|oe3|te2|all": [
"OK",
"a12",
"('float64', ('y', 'x'), [('k', 'v'), ('res', 1)], 'float64', None, True, True)"
],
"doc|unit|r0c4|oe0|te0.75|all": [
"OK",
"a13",
"('float64', ('y', 'x'), [('k', 'v'), ('res', 1)], 'float64', None, True, True)"
],
"doc|unit|r0c4|oe10|te-1|all": [
"OK",
"a14",
"('float64', ('y', 'x'), [('k', 'v'), ('res', 1)], 'float64', None, True, True)"
],
"doc|unit|r0c4|oe-0.5|te4|all": [
"OK",
"a15",
"('float64', ('y', 'x'), [('k', 'v'), ('res', 1)], 'float64', None, True, True)"
],
"doc|unit|r3c0|oe-2|te0": [
"OK",
"a16",
"('float64', ('y', 'x'), [('k', 'v'), ('res', 1)], 'float64', None, True, True)"
],
"doc|unit|r3c0|oe0|te0|all": [
"OK",
"a17",
"('float64', ('y', 'x'), [('k', 'v'), ('res', 1)], 'float64', None, True, True)"
],
"doc|unit|r3c0|oe1.5|te0|all": [
"OK",
"a18",
"('float64', ('y', 'x'), [('k', 'v'), ('res', 1)], 'float64', None, True, True)"
],
"doc|unit|r3c0|oe-2|te0|all": [
"OK",
"a19",
"('float64', ('y', 'x'), [('k', 'v'), ('res', 1)], 'float64', None, True, True)"
],
"doc|unit|r3c0|oe3|te2|all": [
"OK",
"a20",
"('float64', ('y', 'x'), [('k', 'v'), ('res', 1)], 'float64', None, True, True)"
],
"doc|unit|r3c0|oe0|te0.75|all": [
"OK",
"a21",
"('float64', ('y', 'x'), [('k', 'v'), ('res', 1)], 'float64', None, True, True)"
],
"doc|unit|r3c0|oe10|te-1|all": [
"OK",
"a22",
"('float64', ('y', 'x'), [('k', 'v'), ('res', 1)], 'float64', None, True, True)"
],
"doc|unit|r3c0|oe-0.5|te4|all": [
"OK",
"a23",
"('float64', ('y', 'x'), [('k', 'v'), ('res', 1)], 'float64', None, True, True)"
],
"doc|unit|r3c4|oe3|te2": [
"OK",
"a24",
"('float64', ('y', 'x'), [('k', 'v'), ('res', 1)], 'float64', None, True, True)"
],
"doc|unit|r3c4|oe0|te0|all": [
"OK",
"a25",
"('float64', ('y', 'x'), [('k', 'v'), ('res', 1)], 'float64', None, True, True)"
],
"doc|unit|r3c4|oe1.5|te0|all": [
"OK",
"a26",
"('float64', ('y', 'x'), [('k', 'v'), ('res', 1)], 'float64', None, True, True)"
],
"doc|unit|r3c4|oe-2|te0|all": [
"OK",
"a27",
"('float64', ('y', 'x'), [('k', 'v'), ('res', 1)], 'float64', None, True, True)"
],
"doc|unit|r3c4|oe3|te2|all": [
"OK",
"a28",
"('float64', ('y', 'x'), [('k', 'v'), ('res', 1)], 'float64', None, True, True)"
],
"doc|unit|r3c4|oe0|te0.75|all": [
"OK",
"a29",
"('float64', ('y', 'x'), [('k', 'v'), ('res', 1)], 'float64', None, True, True)"
],
"doc|unit|r3c4|oe10|te-1|all": [
"OK",
"a30",
"('float64', ('y', 'x'), [('k', 'v'), ('res', 1)], 'float64', None, True, True)"
],
"doc|unit|r3c4|oe-0.5|te4|all": [
"OK",
"a31",
"('float64', ('y', 'x'), [('k', 'v'), ('res', 1)], 'float64', None, True, True)"
],
"doc|unit|r2c2|oe0|te0.75": [
"OK",
"a32",
"('float64', ('y', 'x'), [('k', 'v'), ('res', 1)], 'float64', None, True, True)"
],
"doc|unit|r2c2|oe0|te0|all": [
"OK",
"a33",
"('float64', ('y', 'x'), [('k', 'v'), ('res', 1)], 'float64', None, True, True)"
],
"doc|unit|r2c2|oe1.5|te0|all": [
"OK",
"a34",
"('float64', ('y', 'x'), [('k', 'v'), ('res', 1)], 'float64', None, True, True)"
],
"doc|unit|r2c2|oe-2|te0|all": [
"OK",
"a35",
"('float64', ('y', 'x'), [('k', 'v'), ('res', 1)], 'float64', None, True, True)"
],
"doc|unit|r2c2|oe3|te2|all": [
"OK",
"a36",
"('float64', ('y', 'x'), [('k', 'v'), ('res', 1)], 'float64', None, True, True)"
],
"doc|unit|r2c2|oe0|te0.75|all": [
"OK",
"a37",
"('float64', ('y', 'x'), [('k', 'v'), ('res', 1)], 'float64', None, True, True)"
],
"doc|unit|r2c2|oe10|te-1|all": [
"OK",
"a38",
"('float64', ('y', 'x'), [('k', 'v'), ('res', 1)], 'float64', None, True, True)"
],
"doc|unit|r2c2|oe-0.5|te4|all": [
"OK",
"a39",
"('float64', ('y', 'x'), [('k', 'v'), ('res', 1)], 'float64', None, True, True)"
],
"doc|unit|r0c2|oe10|te-1": [
"OK",
"a40",
"('float64', ('y', 'x'), [('k', 'v'), ('res', 1)], 'float64', None, True, True)"
],
"doc|unit|r0c2|oe0|te0|all": [
"OK",
"a41",
"('float64', ('y', 'x'), [('k', 'v'), ('res', 1)], 'float64', None, True, True)"
],
"doc|unit|r0c2|oe1.5|te0|all": [
"OK",
"a42",
"('float64', ('y', 'x'), [('k', 'v'), ('res', 1)], 'float64', None, True, True)"
],
"doc|unit|r0c2|oe-2|te0|all": [
"OK",
"a43",
"('float64', ('y', 'x'), [('k', 'v'), ('res', 1)], 'float64', None, True, True)"
],
"doc|unit|r0c2|oe3|te2|all": [
"OK",
"a44",
"('float64', ('y', 'x'), [('k', 'v'), ('res', 1)], 'float64', None, True, True)"
],
"doc|unit|r0c2|oe0|te0.75|all": [
"OK",
"a45",
"('float64', ('y', 'x'), [('k', 'v'), ('res', 1)], 'float64', None, True, True)"
],
"doc|unit|r0c2|oe10|te-1|all": [
"OK",
"a46",
"('float64', ('y', 'x'), [('k', 'v'), ('res', 1)], 'float64', None, True, True)"
],
"doc|unit|r0c2|oe-0.5|te4|all": [
"OK",
"a47",
"('float64', ('y', 'x'), [('k', 'v'), ('res', 1)], 'float64', None, True, True)"
],
"doc|unit|r2c0|oe-0.5|te4": [
"OK",
"a48",
"('float64', ('y', 'x'), [('k', 'v'), ('res', 1)], 'float64', None, True, True)"
],
"doc|unit|r2c0|oe0|te0|all": [
"OK",
"a49",
"('float64', ('y', 'x'), [('k', 'v'), ('res', 1)], 'float64', None, True, True)"
],
"doc|unit|r2c0|oe1.5|te0|all": [
"OK",
"a50",
"('float64', ('y', 'x'), [('k', 'v'), ('res', 1)], 'float64', None, True, True)"
],
"doc|unit|r2c0|oe-2|te0|all": [
"OK",
"a51",
"('float64', ('y', 'x'), [('k', 'v'), ('res', 1)], 'float64', None, True, True)"
],
"doc|unit|r2c0|oe3|te2|all": [
"OK",
"a52",
"('float64', ('y', 'x'), [('k', 'v'), ('res', 1)], 'float64', None, True, True)"
],
"doc|unit|r2c0|oe0|te0.75|all": [
"OK",
"a53",
"('float64', ('y', 'x'), [('k', 'v'), ('res', 1)], 'float64', None, True, True)"
],
"doc|unit|r2c0|oe10|te-1|all": [
"OK",
"a54",
"('float64', ('y', 'x'), [('k', 'v'), ('res', 1)], 'float64', None, True, True)"
],
"doc|unit|r2c0|oe-0.5|te4|all": [
"OK",
"a55",
"('float64', ('y', 'x'), [('k', 'v'), ('res', 1)], 'float64', None, True, True)"
],
"doc|unit|r3c1|oe0|te0": [
"OK",
"a56",
"('float64', ('y', 'x'), [('k', 'v'), ('res', 1)], 'float64', None, True, True)"
],
"doc|unit|r3c1|oe0|te0|all": [
"OK",
"a57",
"('float64', ('y', 'x'), [('k', 'v'), ('res', 1)], 'float64', None, True, True)"
],
"doc|unit|r3c1|oe1.5|te0|all": [
"OK",
"a58",
"('float64', ('y', 'x'), [('k', 'v'), ('res', 1)], 'float64', None, True, True)"
],
"doc|unit|r3c1|oe-2|te0|all": [
"OK",
"a59",
"('float64', ('y', 'x'), [('k', 'v'), ('res', 1)], 'float64', None, True, True)"
],
"doc|unit|r3c1|oe3|te2|all": [
"OK",
"a60",
"('float64', ('y', 'x'), [('k', 'v'), ('res', 1)], 'float64', None, True, True)"
],
"doc|unit|r3c1|oe0|te0.75|all": [
"OK",
"a61",
"('float64', ('y', 'x'), [('k', 'v'), ('res', 1)], 'float64', None, True, True)"
],
"doc|unit|r3c1|oe10|te-1|all": [
"OK",
"a62",
"('float64', ('y', 'x'), [('k', 'v'), ('res', 1)], 'float64', None, True, True)"
],
"doc|unit|r3c1|oe-0.5|te4|all": [
"OK",
"a63",
"('float64', ('y', 'x'), [('k', 'v'), ('res', 1)], 'float64', None, True, True)"
],
"doc|unit|r1c4|oe1.5|te0": [
"OK",
"a64",
"('float64', ('y', 'x'), [('k', 'v'), ('res', 1)], 'float64', None, True, True)"
],
"doc|unit|r1c4|oe0|te0|all": [
"OK",
"a65",
"('float64', ('y', 'x'), [('k', 'v'), ('res', 1)], 'float64', None, True, True)"
],
"doc|unit|r1c4|oe1.5|te0|all": [
"OK",
"a66",
"('float64', ('y', 'x'), [('k', 'v'), ('res', 1)], 'float64', None, True, True)"
],
"doc|unit|r1c4|oe-2|te0|all": [
"OK",
"a67",
"('float64', ('y', 'x'), [('k', 'v'), ('res', 1)], 'float64', None, True, True)"
],
"doc|unit|r1c4|oe3|te2|all": [
"OK",
"a68",
"('float64', ('y', 'x'), [('k', 'v'), ('res', 1)], 'float64', None, True, True)"
],
"doc|unit|r1c4|oe0|te0.75|all": [
"OK",
"a69",
"('float64', ('y', 'x'), [('k', 'v'), ('res', 1)], 'float64', None, True, True)"
],
"doc|unit|r1c4|oe10|te-1|all": [
"OK",
"a70",
"('float64', ('y', 'x'), [('k', 'v'), ('res', 1)], 'float64', None, True, True)"
],
"doc|unit|r1c4|oe-0.5|te4|all": [
"OK",
"a71",
"('float64', ('y', 'x'), [('k', 'v'), ('res', 1)], 'float64', None, True, True)"
],
"doc|unit|r1c1|oe-2|te0": [
"OK",
"a72",
"('float64', ('y', 'x'), [('k', 'v'), ('res', 1)], 'float64', None, True, True)"
],
"doc|unit|r1c1|oe0|te0|all": [
"OK",
"a73",
"('float64', ('y', 'x'), [('k', 'v'), ('res', 1)], 'float64', None, True, True)"
],
"doc|unit|r1c1|oe1.5|te0|all": [
"OK",
"a74",
"('float64', ('y', 'x'), [('k', 'v'), ('res', 1)], 'float64', None, True, True)"
],
"doc|unit|r1c1|oe-2|te0|all": [
"OK",
"a75",
"('float64', ('y', 'x'), [('k', 'v'), ('res', 1)], 'float64', None, True, True)"
],
"doc|unit|r1c1|oe3|te2|all": [
"OK",
"a76",
"('float64', ('y', 'x'), [('k', 'v'), ('res', 1)], 'float64', None, True, True)"
],
"doc|unit|r1c1|oe0|te0.75|all": [
"OK",
"a77",
"('float64', ('y', 'x'), [('k', 'v'), ('res', 1)], 'float64', None, True, True)"
],
"doc|unit|r1c1|oe10|te-1|all": [
"OK",
"a78",
"('float64', ('y', 'x'), [('k', 'v'), ('res', 1)], 'float64', None, True, True)"
],
"doc|unit|r1c1|oe-0.5|te4|all": [
"OK",
"a79",
"('float64', ('y', 'x'), [('k', 'v'), ('res', 1)], 'float64', None, True, True)"
],
"doc|nonsq_desc|r0c0|oe3|te2": [
"OK",
"a80",
"('float64', ('y', 'x'), [('k', 'v'), ('res', 1)], 'float64', None, True, True)"
],
"doc|nonsq_desc|r0c4|oe0|te0.75": [
"OK",
"a81",
"('float64', ('y', 'x'), [('k', 'v'), ('res', 1)], 'float64', None, True, True)"
],
"doc|nonsq_desc|r3c0|oe10|te-1": [
"OK",
"a82",
"('float64', ('y', 'x'), [('k', 'v'), ('res', 1)], 'float64', None, True, True)"
],
"doc|nonsq_desc|r3c4|oe-0.5|te4": [
"OK",
"a83",
"('float64', ('y', 'x'), [('k', 'v'), ('res', 1)], 'float64', None, True, True)"
],
"doc|nonsq_desc|r2c2|oe0|te0": [
"OK",
"a84",
"('float64', ('y', 'x'), [('k', 'v'), ('res', 1)], 'float64', None, True, True)"
],
"doc|nonsq_desc|r0c2|oe1.5|te0": [
"OK",
"a85",
"('float64', ('y', 'x'), [('k', 'v'), ('res', 1)], 'float64', None, True, True)"
],
"doc|nonsq_desc|r2c0|oe-2|te0": [
"OK",
"a86",
"('float64', ('y', 'x'), [('k', 'v'), ('res', 1)], 'float64', None, True, True)"
],
"doc|nonsq_desc|r3c1|oe3|te2": [
"OK",
"a87",
"('float64', ('y', 'x'), [('k', 'v'), ('res', 1)], 'float64', None, True, True)"
],
"doc|nonsq_desc|r1c4|oe0|te0.75": [
"OK",
"a88",
"('float64', ('y', 'x'), [('k', 'v'), ('res', 1)], 'float64', None, True, True)"
],
"doc|nonsq_desc|r1c1|oe10|te-1": [
"OK",
"a89",
"('float64', ('y', 'x'), [('k', 'v'), ('res', 1)], 'float64', None, True, True)"
],
"flat_i32|unit|r0c0|oe-0.5|te4": [
"OK",
"a90",
"('float64', ('y', 'x'), [('k', 'v'), ('res', 1)], 'float64', None, True, True)"
],
"flat_i32|unit|r0c5|oe0|te0": [
"OK",
"a91",
"('float64', ('y', 'x'), [('k', 'v'), ('res', 1)], 'float64', None, True, True)"
],
"flat_i32|unit|r4c0|oe1.5|te0": [
"OK",
"a92",
"('float64', ('y', 'x'), [('k', 'v'), ('res', 1)], 'float64', None, True, True)"
],
"flat_i32|unit|r4c5|oe-2|te0": [
"OK",
"a93",
"('float64', ('y', 'x'), [('k', 'v'), ('res', 1)], 'float64', None, True, True)"
],
"flat_i32|unit|r2c3|oe3|te2": [
"OK",
"a94",
"('float64', ('y', 'x'), [('k', 'v'), ('res', 1)], 'float64', None, True, True)"
],
"flat_i32|unit|r0c3|oe0|te0.75": [
"OK",
"a95",
"('float64', ('y', 'x'), [('k', 'v'), ('res', 1)], 'float64', None, True, True)"
],
"flat_i32|unit|r2c0|oe10|te-1": [
"OK",
"a96",
"('float64', ('y', 'x'), [('k', 'v'), ('res', 1)], 'float64', None, True, True)"
],
"flat_i32|unit|r4c2|oe-0.5|te4": [
"OK",
"a97",
"('float64', ('y', 'x'), [('k', 'v'), ('res', 1)], 'float64', None, True, True)"
],
"flat_i32|unit|r1c5|oe0|te0": [
"OK",
"a98",
"('float64', ('y', 'x'), [('k', 'v'), ('res', 1)], 'float64', None, True, True)"
],
"flat_i32|unit|r1c1|oe1.5|te0": [
"OK",
"a99",
"('float64', ('y', 'x'), [('k', 'v'), ('res', 1)], 'float64', None, True, True)"
],
"flat_i32|nonsq_desc|r0c0|oe-2|te0": [
"OK",
"a100",
"('float64', ('y', 'x'), [('k', 'v'), ('res', 1)], 'float64', None, True, True)"
],
"flat_i32|nonsq_desc|r0c5|oe3|te2": [
"OK",
"a101",
"('float64', ('y', 'x'), [('k', 'v'), ('res', 1)], 'float64', None, True, True)"
],
"flat_i32|nonsq_desc|r4c0|oe0|te0.75": [
"OK",
"a102",
"('float64', ('y', 'x'), [('k', 'v'), ('res', 1)], 'float64', None, True, True)"
],
"flat_i32|nonsq_desc|r4c5|oe10|te-1": [
"OK",
"a103",
"('float64', ('y', 'x'), [('k', 'v'), ('res', 1)], 'float64', None, True, True)"
],
"flat_i32|nonsq_desc|r2c3|oe-0.5|te4": [
"OK",
"a104",
"('float64', ('y', 'x'), [('k', 'v'), ('res', 1)], 'float64', None, True, True)"
],
"flat_i32|nonsq_desc|r0c3|oe0|te0": [
"OK",
"a105",
"('float64', ('y', 'x'), [('k', 'v'), ('res', 1)], 'float64', None, True, True)"
],
"flat_i32|nonsq_desc|r2c0|oe1.5|te0": [
"OK",
"a106",
"('float64', ('y', 'x'), [('k', 'v'), ('res', 1)], 'float64', None, True, True)"
],
"flat_i32|nonsq_desc|r4c2|oe-2|te0": [
"OK",
"a107",
"('float64', ('y', 'x'), [('k', 'v'), ('res', 1)], 'float64', None, True, True)"
],
"flat_i32|nonsq_desc|r1c5|oe3|te2": [
"OK",
"a108",
"('float64', ('y', 'x'), [('k', 'v'), ('res', 1)], 'float64', None, True, True)"
],
"flat_i32|nonsq_desc|r1c1|oe0|te0.75": [
"OK",
"a109",
"('float64', ('y', 'x'), [('k', 'v'), ('res', 1)], 'float64', None, True, True)"
],
"plateau_f32|unit|r0c0|oe10|te-1": [
"OK",
"a110",
"('float64', ('y', 'x'), [('k', 'v'), ('res', 1)], 'float64', None, True, True)"
],
"plateau_f32|unit|r0c6|oe-0.5|te4": [
"OK",
"a111",
"('float64', ('y', 'x'), [('k', 'v'), ('res', 1)], 'float64', None, True, True)"
],
"plateau_f32|unit|r5c0|oe0|te0": [
"OK",
"a112",
"('float64', ('y', 'x'), [('k', 'v'), ('res', 1)], 'float64', None, True, True)"
],
"plateau_f32|unit|r5c6|oe1.5|te0": [
"OK",
"a113",
"('float64', ('y', 'x'), [('k', 'v'), ('res', 1)], 'float64', None, True, True)"
],
"plateau_f32|unit|r3c3|oe-2|te0": [
"OK",
"a114",
"('float64', ('y', 'x'), [('k', 'v'), ('res', 1)], 'float64', None, True, True)"
],
"plateau_f32|unit|r0c3|oe3|te2": [
"OK",
"a115",
"('float64', ('y', 'x'), [('k', 'v'), ('res', 1)], 'float64', None, True, True)"
],
"plateau_f32|unit|r3c0|oe0|te0.75": [
"OK",
"a116",
"('float64', ('y', 'x'), [('k', 'v'), ('res', 1)], 'float64', None, True, True)"
],
"plateau_f32|unit|r5c2|oe10|te-1": [
"OK",
"a117",
"('float64', ('y', 'x'), [('k', 'v'), ('res', 1)], 'float64', None, True, True)"
],
"plateau_f32|unit|r2c6|oe-0.5|te4": [
"OK",
"a118",
"('float64', ('y', 'x'), [('k', 'v'), ('res', 1)], 'float64', None, True, True)"
],
"plateau_f32|unit|r1c1|oe0|te0": [
"OK",
"a119",
"('float64', ('y', 'x'), [('k', 'v'), ('res', 1)], 'float64', None, True, True)"
],
"plateau_f32|nonsq_desc|r0c0|oe1.5|te0": [
"OK",
"a120",
"('float64', ('y', 'x'), [('k', 'v'), ('res', 1)], 'float64', None, True, True)"
],
"plateau_f32|nonsq_desc|r0c6|oe-2|te0": [
"OK",
"a121",
"('float64', ('y', 'x'), [('k', 'v'), ('res', 1)], 'float64', None, True, True)"
],
"plateau_f32|nonsq_desc|r5c0|oe3|te2": [
"OK",
"a122",
"('float64', ('y', 'x'), [('k', 'v'), ('res', 1)], 'float64', None, True, True)"
],
"plateau_f32|nonsq_desc|r5c6|oe0|te0.75": [
"OK",
"a123",
"('float64', ('y', 'x'), [('k', 'v'), ('res', 1)], 'float64', None, True, True)"
],
"plateau_f32|nonsq_desc|r3c3|oe10|te-1": [
"OK",
"a124",
"('float64', ('y', 'x'), [('k', 'v'), ('res', 1)], 'float64', None, True, True)"
],
"plateau_f32|nonsq_desc|r0c3|oe-0.5|te4": [
"OK",
"a125",
"('float64', ('y', 'x'), [('k', 'v'), ('res', 1)], 'float64', None, True, True)"
],
"plateau_f32|nonsq_desc|r3c0|oe0|te0": [
"OK",
"a126",
"('float64', ('y', 'x'), [('k', 'v'), ('res', 1)], 'float64', None, True, True)"
],
"plateau_f32|nonsq_desc|r5c2|oe1.5|te0": [
"OK",
"a127",
"('float64', ('y', 'x'), [('k', 'v'), ('res', 1)], 'float64', None, True, True)"
],
"plateau_f32|nonsq_desc|r2c6|oe-2|te0": [
"OK",
"a128",
"('float64', ('y', 'x'), [('k', 'v'), ('res', 1)], 'float64', None, True, True)"
],
"plateau_f32|nonsq_desc|r1c1|oe3|te2": [
"OK",
"a129",
"('float64', ('y', 'x'), [('k', 'v'), ('res', 1)], 'float64', None, True, True)"
],
"rand_f64|unit|r0c0|oe0|te0.75": [
"OK",
"a130",
"('float64', ('y', 'x'), [('k', 'v'), ('res', 1)], 'float64', None, True, True)"
],
"rand_f64|unit|r0c10|oe10|te-1": [
"OK",
"a131",
"('float64', ('y', 'x'), [('k', 'v'), ('res', 1)], 'float64', None, True, True)"
],
"rand_f64|unit|r8c0|oe-0.5|te4": [
"OK",
"a132",
"('float64', ('y', 'x'), [('k', 'v'), ('res', 1)], 'float64', None, True, True)"
],
"rand_f64|unit|r8c10|oe0|te0": [
"OK",
"a133",
"('float64', ('y', 'x'), [('k', 'v'), ('res', 1)], 'float64', None, True, True)"
],
"rand_f64|unit|r4c5|oe1.5|te0": [
"OK",
"a134",
"('float64', ('y', 'x'), [('k', 'v'), ('res', 1)], 'float64', None, True, True)"
],
"rand_f64|unit|r0c5|oe-2|te0": [
"OK",
"a135",
"('float64', ('y', 'x'), [('k', 'v'), ('res', 1)], 'float64', None, True, True)"
],
"rand_f64|unit|r4c0|oe3|te2": [
"OK",
"a136",
"('float64', ('y', 'x'), [('k', 'v'), ('res', 1)], 'float64', None, True, True)"
],
"rand_f64|unit|r8c3|oe0|te0.75": [
"OK",
"a137",
"('float64', ('y', 'x'), [('k', 'v'), ('res', 1)], 'float64', None, True, True)"
],
"rand_f64|unit|r3c10|oe10|te-1": [
"OK",
"a138",
"('float64', ('y', 'x'), [('k', 'v'), ('res', 1)], 'float64', None, True, True)"
],
"rand_f64|unit|r1c1|oe-0.5|te4": [
"OK",
"a139",
"('float64', ('y', 'x'), [('k', 'v'), ('res', 1)], 'float64', None, True, True)"
],
"rand_f64|nonsq_desc|r0c0|oe0|te0": [
"OK",
"a140",
"('float64', ('y', 'x'), [('k', 'v'), ('res', 1)], 'float64', None, True, True)"
],
"rand_f64|nonsq_desc|r0c10|oe1.5|te0": [
"OK",
"a141",
"('float64', ('y', 'x'), [('k', 'v'), ('res', 1)], 'float64', None, True, True)"
],
"rand_f64|nonsq_desc|r8c0|oe-2|te0": [
"OK",
"a142",
"('float64', ('y', 'x'), [('k', 'v'), ('res', 1)], 'float64', None, True, True)"
],
"rand_f64|nonsq_desc|r8c10|oe3|te2": [
"OK",
"a143",
"('float64', ('y', 'x'), [('k', 'v'), ('res', 1)], 'float64', None, True, True)"
],
"rand_f64|nonsq_desc|r4c5|oe0|te0.75": [
"OK",
"a144",
"('float64', ('y', 'x'), [('k', 'v'), ('res', 1)], 'float64', None, True, True)"
],
"rand_f64|nonsq_desc|r0c5|oe10|te-1": [
"OK",
"a145",
"('float64', ('y', 'x'), [('k', 'v'), ('res', 1)], 'float64', None, True, True)"
],
"rand_f64|nonsq_desc|r4c0|oe-0.5|te4": [
"OK",
"a146",
"('float64', ('y', 'x'), [('k', 'v'), ('res', 1)], 'float64', None, True, True)"
],
"rand_f64|nonsq_desc|r8c3|oe0|te0": [
"OK",
"a147",
"('float64', ('y', 'x'), [('k', 'v'), ('res', 1)], 'float64', None, True, True)"
],
"rand_f64|nonsq_desc|r3c10|oe1.5|te0": [
"OK",
"a148",
"('float64', ('y', 'x'), [('k', 'v'), ('res', 1)], 'float64', None, True, True)"
],
"rand_f64|nonsq_desc|r1c1|oe-2|te0": [
"OK",
"a149",
"('float64', ('y', 'x'), [('k', 'v'), ('res', 1)], 'float64', None, True, True)"
],
"rand_ties_i64|unit|r0c0|oe3|te2": [
"OK",
"a150",
"('float64', ('y', 'x'), [('k', 'v'), ('res', 1)], 'float64', None, True, True)"
],
"rand_ties_i64|unit|r0c0|oe0|te0|all": [
"OK",
"a151",
"('float64', ('y', 'x'), [('k', 'v'), ('res', 1)], 'float64', None, True, True)"
],
"rand_ties_i64|unit|r0c0|oe1.5|te0|all": [
"OK",
"a152",
"('float64', ('y', 'x'), [('k', 'v'), ('res', 1)], 'float64', None, True, True)"
],
"rand_ties_i64|unit|r0c0|oe-2|te0|all": [
"OK",
"a153",
"('float64', ('y', 'x'), [('k', 'v'), ('res', 1)], 'float64', None, True, True)"
],
"rand_ties_i64|unit|r0c0|oe3|te2|all": [
"OK",
"a154",
"('float64', ('y', 'x'), [('k', 'v'), ('res', 1)], 'float64', None, True, True)"
],
"rand_ties_i64|unit|r0c0|oe0|te0.75|all": [
"OK",
"a155",
"('float64', ('y', 'x'), [('k', 'v'), ('res', 1)], 'float64', None, True, True)"
],
"rand_ties_i64|unit|r0c0|oe10|te-1|all": [
"OK",
"a156",
"('float64', ('y', 'x'), [('k', 'v'), ('res', 1)], 'float64', None, True, True)"
],
"rand_ties_i64|unit|r0c0|oe-0.5|te4|all": [
"OK",
"a157",
"('float64', ('y', 'x'), [('k', 'v'), ('res', 1)], 'float64', None, True, True)"
],
"rand_ties_i64|unit|r0c6|oe0|te0.75": [
"OK",
"a158",
"('float64', ('y', 'x'), [('k', 'v'), ('res', 1)], 'float64', None, True, True)"
],
"rand_ties_i64|unit|r0c6|oe0|te0|all": [
"OK",
"a159",
"('float64', ('y', 'x'), [('k', 'v'), ('res', 1)], 'float64', None, True, True)"
],
"rand_ties_i64|unit|r0c6|oe1.5|te0|all": [
"OK",
"a160",
"('float64', ('y', 'x'), [('k', 'v'), ('res', 1)], 'float64', None, True, True)"
],
"rand_ties_i64|unit|r0c6|oe-2|te0|all": [
"OK",
"a161",
"('float64', ('y', 'x'), [('k', 'v'), ('res', 1)], 'float64', None, True, True)"
],
"rand_ties_i64|unit|r0c6|oe3|te2|all": [
"OK",
"a162",
"('float64', ('y', 'x'), [('k', 'v'), ('res', 1)], 'float64', None, True, True)"
],
"rand_ties_i64|unit|r0c6|oe0|te0.75|all": [
"OK",
"a163",
"('float64', ('y', 'x'), [('k', 'v'), ('res', 1)], 'float64', None, True, True)"
],
"rand_ties_i64|unit|r0c6|oe10|te-1|all": [
"OK",
"a164",
"('float64', ('y', 'x'), [('k', 'v'), ('res', 1)], 'float64', None, True, True)"
],
"rand_ties_i64|unit|r0c6|oe-0.5|te4|all": [
"OK",
"a165",
"('float64', ('y', 'x'), [('k', 'v'), ('res', 1)], 'float64', None, True, True)"
],
"rand_ties_i64|unit|r7c0|oe10|te-1": [
"OK",
"a166",
"('float64', ('y', 'x'), [('k', 'v'), ('res', 1)], 'float64', None, True, True)"
],
"rand_ties_i64|unit|r7c0|oe0|te0|all": [
"OK",
"a167",
"('float64', ('y', 'x'), [('k', 'v'), ('res', 1)], 'float64', None, True, True)"
],
"rand_ties_i64|unit|r7c0|oe1.5|te0|all": [
"OK",
"a168",
"('float64', ('y', 'x'), [('k', 'v'), ('res', 1)], 'float64', None, True, True)"
],
"rand_ties_i64|unit|r7c0|oe-2|te0|all": [
"OK",
"a169",
"('float64', ('y', 'x'), [('k', 'v'), ('res', 1)], 'float64', None, True, True)"
],
"rand_ties_i64|unit|r7c0|oe3|te2|all": [
"OK",
"a170",
"('float64', ('y', 'x'), [('k', 'v'), ('res', 1)], 'float64', None, True, True)"
],
"rand_ties_i64|unit|r7c0|oe0|te0.75|all": [
"OK",
"a171",
"('float64', ('y', 'x'), [('k', 'v'), ('res', 1)], 'float64', None, True, True)"
],
"rand_ties_i64|unit|r7c0|oe10|te-1|all": [
"OK",
"a172",
"('float64', ('y', 'x'), [('k', 'v'), ('res', 1)], 'float64', None, True, True)"
],
"rand_ties_i64|unit|r7c0|oe-0.5|te4|all": [
"OK",
"a173",
"('float64', ('y', 'x'), [('k', 'v'), ('res', 1)], 'float64', None, True, True)"
],
"rand_ties_i64|unit|r7c6|oe-0.5|te4": [
"OK",
"a174",
"('float64', ('y', 'x'), [('k', 'v'), ('res', 1)], 'float64', None, True, True)"
],
"rand_ties_i64|unit|r7c6|oe0|te0|all": [
"OK",
"a175",
"('float64', ('y', 'x'), [('k', 'v'), ('res', 1)], 'float64', None, True, True)"
],
"rand_ties_i64|unit|r7c6|oe1.5|te0|all": [
"OK",
"a176",
"('float64', ('y', 'x'), [('k', 'v'), ('res', 1)], 'float64', None, True, True)"
],
"rand_ties_i64|unit|r7c6|oe-2|te0|all": [
"OK",
"a177",
"('float64', ('y', 'x'), [('k', 'v'), ('res', 1)], 'float64', None, True, True)"
],
"rand_ties_i64|unit|r7c6|oe3|te2|all": [
"OK",
"a178",
"('float64', ('y', 'x'), [('k', 'v'), ('res', 1)], 'float64', None, True, True)"
],
"rand_ties_i64|unit|r7c6|oe0|te0.75|all": [
"OK",
"a179",
"('float64', ('y', 'x'), [('k', 'v'), ('res', 1)], 'float64', None, True, True)"
],
"rand_ties_i64|unit|r7c6|oe10|te-1|all": [
"OK",
"a180",
"('float64', ('y', 'x'), [('k', 'v'), ('res', 1)], 'float64', None, True, True)"
],
"rand_ties_i64|unit|r7c6|oe-0.5|te4|all": [
"OK",
"a181",
"('float64', ('y', 'x'), [('k', 'v'), ('res', 1)], 'float64', None, True, True)"
],
"rand_ties_i64|unit|r4c3|oe0|te0": [
"OK",
"a182",
"('float64', ('y', 'x'), [('k', 'v'), ('res', 1)], 'float64', None, True, True)"
],
"rand_ties_i64|unit|r4c3|oe0|te0|all": [
"OK",
"a183",
"('float64', ('y', 'x'), [('k', 'v'), ('res', 1)], 'float64', None, True, True)"
],
"rand_ties_i64|unit|r4c3|oe1.5|te0|all": [
"OK",
"a184",
"('float64', ('y', 'x'), [('k', 'v'), ('res', 1)], 'float64', None, True, True)"
],
"rand_ties_i64|unit|r4c3|oe-2|te0|all": [
"OK",
"a185",
"('float64', ('y', 'x'), [('k', 'v'), ('res', 1)], 'float64', None, True, True)"
],
"rand_ties_i64|unit|r4c3|oe3|te2|all": [
"OK",
"a186",
"('float64', ('y', 'x'), [('k', 'v'), ('res', 1)], 'float64', None, True, True)"
],
"rand_ties_i64|unit|r4c3|oe0|te0.75|all": [
"OK",
"a187",
"('float64', ('y', 'x'), [('k', 'v'), ('res', 1)], 'float64', None, True, True)"
],
"rand_ties_i64|unit|r4c3|oe10|te-1|all": [
"OK",
"a188",
"('float64', ('y', 'x'), [('k', 'v'), ('res', 1)], 'float64', None, True, True)"
],
"rand_ties_i64|unit|r4c3|oe-0.5|te4|all": [
"OK",
"a189",
"('float64', ('y', 'x'), [('k', 'v'), ('res', 1)], 'float64', None, True, True)"
],
"rand_ties_i64|unit|r0c3|oe1.5|te0": [
"OK",
"a190",
"('float64', ('y', 'x'), [('k', 'v'), ('res', 1)], 'float64', None, True, True)"
],
"rand_ties_i64|unit|r0c3|oe0|te0|all": [
"OK",
"a191",
"('float64', ('y', 'x'), [('k', 'v'), ('res', 1)], 'float64', None, True, True)"
],
"rand_ties_i64|unit|r0c3|oe1.5|te0|all": [
"OK",
"a192",
"('float64', ('y', 'x'), [('k', 'v'), ('res', 1)], 'float64', None, True, True)"
],
"rand_ties_i64|unit|r0c3|oe-2|te0|all": [
"OK",
"a193",
"('float64', ('y', 'x'), [('k', 'v'), ('res', 1)], 'float64', None, True, True)"
],
"rand_ties_i64|unit|r0c3|oe3|te2|all": [
"OK",
"a194",
"('float64', ('y', 'x'), [('k', 'v'), ('res', 1)], 'float64', None, True, True)"
],
"rand_ties_i64|unit|r0c3|oe0|te0.75|all": [
"OK",
"a195",
"('float64', ('y', 'x'), [('k', 'v'), ('res', 1)], 'float64', None, True, True)"
],
"rand_ties_i64|unit|r0c3|oe10|te-1|all": [
"OK",
"a196",
"('float64', ('y', 'x'), [('k', 'v'), ('res', 1)], 'float64', None, True, True)"
],
"rand_ties_i64|unit|r0c3|oe-0.5|te4|all": [
"OK",
"a197",
"('float64', ('y', 'x'), [('k', 'v'), ('res', 1)], 'float64', None, True, True)"
],
"rand_ties_i64|unit|r4c0|oe-2|te0": [
"OK",
"a198",
"('float64', ('y', 'x'), [('k', 'v'), ('res', 1)], 'float64', None, True, True)"
],
"rand_ties_i64|unit|r4c0|oe0|te0|all": [
"OK",
"a199",
"('float64', ('y', 'x'), [('k', 'v'), ('res', 1)], 'float64', None, True, True)"
],
"rand_ties_i64|unit|r4c0|oe1.5|te0|all": [
"OK",
"a200",
"('float64', ('y', 'x'), [('k', 'v'), ('res', 1)], 'float64', None, True, True)"
],
"rand_ties_i64|unit|r4c0|oe-2|te0|all": [
"OK",
"a201",
"('float64', ('y', 'x'), [('k', 'v'), ('res', 1)], 'float64', None, True, True)"
],
"rand_ties_i64|unit|r4c0|oe3|te2|all": [
"OK",
"a202",
"('float64', ('y', 'x'), [('k', 'v'), ('res', 1)], 'float64', None, True, True)"
],
"rand_ties_i64|unit|r4c0|oe0|te0.75|all": [
"OK",
"a203",
"('float64', ('y', 'x'), [('k', 'v'), ('res', 1)], 'float64', None, True, True)"
],
"rand_ties_i64|unit|r4c0|oe10|te-1|all": [
"OK",
"a204",
"('float64', ('y', 'x'), [('k', 'v'), ('res', 1)], 'float64', None, True, True)"
],
"rand_ties_i64|unit|r4c0|oe-0.5|te4|all": [
"OK",
"a205",
"('float64', ('y', 'x'), [('k', 'v'), ('res', 1)], 'float64', None, True, True)"
],
"rand_ties_i64|unit|r7c2|oe3|te2": [
"OK",
"a206",
"('float64', ('y', 'x'), [('k', 'v'), ('res', 1)], 'float64', None, True, True)"
],
"rand_ties_i64|unit|r7c2|oe0|te0|all": [
"OK",
"a207",
"('float64', ('y', 'x'), [('k', 'v'), ('res', 1)], 'float64', None, True, True)"
],
"rand_ties_i64|unit|r7c2|oe1.5|te0|all": [
"OK",
"a208",
"('float64', ('y', 'x'), [('k', 'v'), ('res', 1)], 'float64', None, True, True)"
],
"rand_ties_i64|unit|r7c2|oe-2|te0|all": [
"OK",
"a209",
"('float64', ('y', 'x'), [('k', 'v'), ('res', 1)], 'float64', None, True, True)"
],
"rand_ties_i64|unit|r7c2|oe3|te2|all": [
"OK",
"a210",
"('float64', ('y', 'x'), [('k', 'v'), ('res', 1)], 'float64', None, True, True)"
],
"rand_ties_i64|unit|r7c2|oe0|te0.75|all": [
"OK",
"a211",
"('float64', ('y', 'x'), [('k', 'v'), ('res', 1)], 'float64', None, True, True)"
],
"rand_ties_i64|unit|r7c2|oe10|te-1|all": [
"OK",
"a212",
"('float64', ('y', 'x'), [('k', 'v'), ('res', 1)], 'float64', None, True, True)"
],
"rand_ties_i64|unit|r7c2|oe-0.5|te4|all": [
"OK",
"a213",
"('float64', ('y', 'x'), [('k', 'v'), ('res', 1)], 'float64', None, True, True)"
],
"rand_ties_i64|unit|r2c6|oe0|te0.75": [
"OK",
"a214",
"('float64', ('y', 'x'), [('k', 'v'), ('res', 1)], 'float64', None, True, True)"
],
"rand_ties_i64|unit|r2c6|oe0|te0|all": [
"OK",
"a215",
"('float64', ('y', 'x'), [('k', 'v'), ('res', 1)], 'float64', None, True, True)"
],
"rand_ties_i64|unit|r2c6|oe1.5|te0|all": [
"OK",
"a216",
"('float64', ('y', 'x'), [('k', 'v'), ('res', 1)], 'float64', None, True, True)"
],
"rand_ties_i64|unit|r2c6|oe-2|te0|all": [
"OK",
"a217",
"('float64', ('y', 'x'), [('k', 'v'), ('res', 1)], 'float64', None, True, True)"
],
"rand_ties_i64|unit|r2c6|oe3|te2|all": [
"OK",
"a218",
"('float64', ('y', 'x'), [('k', 'v'), ('res', 1)], 'float64', None, True, True)"
],
"rand_ties_i64|unit|r2c6|oe0|te0.75|all": [
"OK",
"a219",
"('float64', ('y', 'x'), [('k', 'v'), ('res', 1)], 'float64', None, True, True)"
],
"rand_ties_i64|unit|r2c6|oe10|te-1|all": [
"OK",
"a220",
"('float64', ('y', 'x'), [('k', 'v'), ('res', 1)], 'float64', None, True, True)"
],
"rand_ties_i64|unit|r2c6|oe-0.5|te4|all": [
"OK",
"a221",
"('float64', ('y', 'x'), [('k', 'v'), ('res', 1)], 'float64', None, True, True)"
],
"rand_ties_i64|unit|r1c1|oe10|te-1": [
"OK",
"a222",
"('float64', ('y', 'x'), [('k', 'v'), ('res', 1)], 'float64', None, True, True)"
],
"rand_ties_i64|unit|r1c1|oe0|te0|all": [
"OK",
"a223",
"('float64', ('y', 'x'), [('k', 'v'), ('res', 1)], 'float64', None, True, True)"
],
"rand_ties_i64|unit|r1c1|oe1.5|te0|all": [
"OK",
"a224",
"('float64', ('y', 'x'), [('k', 'v'), ('res', 1)], 'float64', None, True, True)"
],
"rand_ties_i64|unit|r1c1|oe-2|te0|all": [
"OK",
"a225",
"('float64', ('y', 'x'), [('k', 'v'), ('res', 1)], 'float64', None, True, True)"
],
"rand_ties_i64|unit|r1c1|oe3|te2|all": [
"OK",
"a226",
"('float64', ('y', 'x'), [('k', 'v'), ('res', 1)], 'float64', None, True, True)"
],
"rand_ties_i64|unit|r1c1|oe0|te0.75|all": [
"OK",
"a227",
"('float64', ('y', 'x'), [('k', 'v'), ('res', 1)], 'float64', None, True, True)"
],
"rand_ties_i64|unit|r1c1|oe10|te-1|all": [
"OK",
"a228",
"('float64', ('y', 'x'), [('k', 'v'), ('res', 1)], 'float64', None, True, True)"
],
"rand_ties_i64|unit|r1c1|oe-0.5|te4|all": [
"OK",
"a229",
"('float64', ('y', 'x'), [('k', 'v'), ('res', 1)], 'float64', None, True, True)"
],
"rand_ties_i64|nonsq_desc|r0c0|oe-0.5|te4": [
"OK",
"a230",
"('float64', ('y', 'x'), [('k', 'v'), ('res', 1)], 'float64', None, True, True)"
],
"rand_ties_i64|nonsq_desc|r0c6|oe0|te0": [
"OK",
"a231",
"('float64', ('y', 'x'), [('k', 'v'), ('res', 1)], 'float64', None, True, True)"
],
"rand_ties_i64|nonsq_desc|r7c0|oe1.5|te0": [
"OK",
"a232",
"('float64', ('y', 'x'), [('k', 'v'), ('res', 1)], 'float64', None, True, True)"
],
"rand_ties_i64|nonsq_desc|r7c6|oe-2|te0": [
"OK",
"a233",
"('float64', ('y', 'x'), [('k', 'v'), ('res', 1)], 'float64', None, True, True)"
],
"rand_ties_i64|nonsq_desc|r4c3|oe3|te2": [
"OK",
"a234",
"('float64', ('y', 'x'), [('k', 'v'), ('res', 1)], 'float64', None, True, True)"
],
"rand_ties_i64|nonsq_desc|r0c3|oe0|te0.75": [
"OK",
"a235",
"('float64', ('y', 'x'), [('k', 'v'), ('res', 1)], 'float64', None, True, True)"
],
"rand_ties_i64|nonsq_desc|r4c0|oe10|te-1": [
"OK",
"a236",
"('float64', ('y', 'x'), [('k', 'v'), ('res', 1)], 'float64', None, True, True)"
],
"rand_ties_i64|nonsq_desc|r7c2|oe-0.5|te4": [
"OK",
"a237",
"('float64', ('y', 'x'), [('k', 'v'), ('res', 1)], 'float64', None, True, True)"
],
"rand_ties_i64|nonsq_desc|r2c6|oe0|te0": [
"OK",
"a238",
"('float64', ('y', 'x'), [('k', 'v'), ('res', 1)], 'float64', None, True, True)"
],
"rand_ties_i64|nonsq_desc|r1c1|oe1.5|te0": [
"OK",
"a239",
"('float64', ('y', 'x'), [('k', 'v'), ('res', 1)], 'float64', None, True, True)"
],
"rand_u8|unit|r0c0|oe-2|te0": [
"OK",
"a240",
"('float64', ('y', 'x'), [('k', 'v'), ('res', 1)], 'float64', None, True, True)"
],
"rand_u8|unit|r0c8|oe3|te2": [
"OK",
"a241",
"('float64', ('y', 'x'), [('k', 'v'), ('res', 1)], 'float64', None, True, True)"
],
"rand_u8|unit|r5c0|oe0|te0.75": [
"OK",
"a242",
"('float64', ('y', 'x'), [('k', 'v'), ('res', 1)], 'float64', None, True, True)"
],
"rand_u8|unit|r5c8|oe10|te-1": [
"OK",
"a243",
"('float64', ('y', 'x'), [('k', 'v'), ('res', 1)], 'float64', None, True, True)"
],
"rand_u8|unit|r3c4|oe-0.5|te4": [
"OK",
"a244",
"('float64', ('y', 'x'), [('k', 'v'), ('res', 1)], 'float64', None, True, True)"
],
"rand_u8|unit|r0c4|oe0|te0": [
"OK",
"a245",
"('float64', ('y', 'x'), [('k', 'v'), ('res', 1)], 'float64', None, True, True)"
],
"rand_u8|unit|r3c0|oe1.5|te0": [
"OK",
"a246",
"('float64', ('y', 'x'), [('k', 'v'), ('res', 1)], 'float64', None, True, True)"
],
"rand_u8|unit|r5c3|oe-2|te0": [
"OK",
"a247",
"('float64', ('y', 'x'), [('k', 'v'), ('res', 1)], 'float64', None, True, True)"
],
"rand_u8|unit|r2c8|oe3|te2": [
"OK",
"a248",
"('float64', ('y', 'x'), [('k', 'v'), ('res', 1)], 'float64', None, True, True)"
],
"rand_u8|unit|r1c1|oe0|te0.75": [
"OK",
"a249",
"('float64', ('y', 'x'), [('k', 'v'), ('res', 1)], 'float64', None, True, True)"
],
"rand_u8|nonsq_desc|r0c0|oe10|te-1": [
"OK",
"a250",
"('float64', ('y', 'x'), [('k', 'v'), ('res', 1)], 'float64', None, True, True)"
],
"rand_u8|nonsq_desc|r0c8|oe-0.5|te4": [
"OK",
"a251",
"('float64', ('y', 'x'), [('k', 'v'), ('res', 1)], 'float64', None, True, True)"
],
"rand_u8|nonsq_desc|r5c0|oe0|te0": [
"OK",
"a252",
"('float64', ('y', 'x'), [('k', 'v'), ('res', 1)], 'float64', None, True, True)"
],
"rand_u8|nonsq_desc|r5c8|oe1.5|te0": [
"OK",
"a253",
"('float64', ('y', 'x'), [('k', 'v'), ('res', 1)], 'float64', None, True, True)"
],
"rand_u8|nonsq_desc|r3c4|oe-2|te0": [
"OK",
"a254",
"('float64', ('y', 'x'), [('k', 'v'), ('res', 1)], 'float64', None, True, True)"
],
"rand_u8|nonsq_desc|r0c4|oe3|te2": [
"OK",
"a255",
"('float64', ('y', 'x'), [('k', 'v'), ('res', 1)], 'float64', None, True, True)"
],
"rand_u8|nonsq_desc|r3c0|oe0|te0.75": [
"OK",
"a256",
"('float64', ('y', 'x'), [('k', 'v'), ('res', 1)], 'float64', None, True, True)"
],
"rand_u8|nonsq_desc|r5c3|oe10|te-1": [
"OK",
"a257",
"('float64', ('y', 'x'), [('k', 'v'), ('res', 1)], 'float64', None, True, True)"
],
"rand_u8|nonsq_desc|r2c8|oe-0.5|te4": [
"OK",
"a258",
"('float64', ('y', 'x'), [('k', 'v'), ('res', 1)], 'float64', None, True, True)"
],
"rand_u8|nonsq_desc|r1c1|oe0|te0": [
"OK",
"a259",
"('float64', ('y', 'x'), [('k', 'v'), ('res', 1)], 'float64', None, True, True)"
],
"rand_f32|unit|r0c0|oe1.5|te0": [
"OK",
"a260",
"('float64', ('y', 'x'), [('k', 'v'), ('res', 1)], 'float64', None, True, True)"
],
"rand_f32|unit|r0c4|oe-2|te0": [
"OK",
"a261",
"('float64', ('y', 'x'), [('k', 'v'), ('res', 1)], 'float64', None, True, True)"
],
"rand_f32|unit|r6c0|oe3|te2": [
"OK",
"a262",
"('float64', ('y', 'x'), [('k', 'v'), ('res', 1)], 'float64', None, True, True)"
],
"rand_f32|unit|r6c4|oe0|te0.75": [
"OK",
"a263",
"('float64', ('y', 'x'), [('k', 'v'), ('res', 1)], 'float64', None, True, True)"
],
"rand_f32|unit|r3c2|oe10|te-1": [
"OK",
"a264",
"('float64', ('y', 'x'), [('k', 'v'), ('res', 1)], 'float64', None, True, True)"
],
"rand_f32|unit|r0c2|oe-0.5|te4": [
"OK",
"a265",
"('float64', ('y', 'x'), [('k', 'v'), ('res', 1)], 'float64', None, True, True)"
],
"rand_f32|unit|r3c0|oe0|te0": [
"OK",
"a266",
"('float64', ('y', 'x'), [('k', 'v'), ('res', 1)], 'float64', None, True, True)"
],
"rand_f32|unit|r6c1|oe1.5|te0": [
"OK",
"a267",
"('float64', ('y', 'x'), [('k', 'v'), ('res', 1)], 'float64', None, True, True)"
],
"rand_f32|unit|r2c4|oe-2|te0": [
"OK",
"a268",
"('float64', ('y', 'x'), [('k', 'v'), ('res', 1)], 'float64', None, True, True)"
],
"rand_f32|unit|r1c1|oe3|te2": [
"OK",
"a269",
"('float64', ('y', 'x'), [('k', 'v'), ('res', 1)], 'float64', None, True, True)"
],
"rand_f32|nonsq_desc|r0c0|oe0|te0.75": [
"OK",
"a270",
"('float64', ('y', 'x'), [('k', 'v'), ('res', 1)], 'float64', None, True, True)"
],
"rand_f32|nonsq_desc|r0c4|oe10|te-1": [
"OK",
"a271",
"('float64', ('y', 'x'), [('k', 'v'), ('res', 1)], 'float64', None, True, True)"
],
"rand_f32|nonsq_desc|r6c0|oe-0.5|te4": [
"OK",
"a272",
"('float64', ('y', 'x'), [('k', 'v'), ('res', 1)], 'float64', None, True, True)"
],
"rand_f32|nonsq_desc|r6c4|oe0|te0": [
"OK",
"a273",
"('float64', ('y', 'x'), [('k', 'v'), ('res', 1)], 'float64', None, True, True)"
],
"rand_f32|nonsq_desc|r3c2|oe1.5|te0": [
"OK",
"a274",
"('float64', ('y', 'x'), [('k', 'v'), ('res', 1)], 'float64', None, True, True)"
],
"rand_f32|nonsq_desc|r0c2|oe-2|te0": [
"OK",
"a275",
"('float64', ('y', 'x'), [('k', 'v'), ('res', 1)], 'float64', None, True, True)"
],
"rand_f32|nonsq_desc|r3c0|oe3|te2": [
"OK",
"a276",
"('float64', ('y', 'x'), [('k', 'v'), ('res', 1)], 'float64', None, True, True)"
],
"rand_f32|nonsq_desc|r6c1|oe0|te0.75": [
"OK",
"a277",
"('float64', ('y', 'x'), [('k', 'v'), ('res', 1)], 'float64', None, True, True)"
],
"rand_f32|nonsq_desc|r2c4|oe10|te-1": [
"OK",
"a278",
"('float64', ('y', 'x'), [('k', 'v'), ('res', 1)], 'float64', None, True, True)"
],
"rand_f32|nonsq_desc|r1c1|oe-0.5|te4": [
"OK",
"a279",
"('float64', ('y', 'x'), [('k', 'v'), ('res', 1)], 'float64', None, True, True)"
],
"tall_2col|unit|r0c0|oe0|te0": [
"OK",
"a280",
"('float64', ('y', 'x'), [('k', 'v'), ('res', 1)], 'float64', None, True, True)"
],
"tall_2col|unit|r0c1|oe1.5|te0": [
"OK",
"a281",
"('float64', ('y', 'x'), [('k', 'v'), ('res', 1)], 'float64', None, True, True)"
],
"tall_2col|unit|r9c0|oe-2|te0": [
"OK",
"a282",
"('float64', ('y', 'x'), [('k', 'v'), ('res', 1)], 'float64', None, True, True)"
],
"tall_2col|unit|r9c1|oe3|te2": [
"OK",
"a283",
"('float64', ('y', 'x'), [('k', 'v'), ('res', 1)], 'float64', None, True, True)"
],
"tall_2col|unit|r5c1|oe0|te0.75": [
"OK",
"a284",
"('float64', ('y', 'x'), [('k', 'v'), ('res', 1)], 'float64', None, True, True)"
],
"tall_2col|unit|r5c0|oe10|te-1": [
"OK",
"a285",
"('float64', ('y', 'x'), [('k', 'v'), ('res', 1)], 'float64', None, True, True)"
],
"tall_2col|unit|r3c1|oe-0.5|te4": [
"OK",
"a286",
"('float64', ('y', 'x'), [('k', 'v'), ('res', 1)], 'float64', None, True, True)"
],
"tall_2col|unit|r1c1|oe0|te0": [
"OK",
"a287",
"('float64', ('y', 'x'), [('k', 'v'), ('res', 1)], 'float64', None, True, True)"
],
"tall_2col|nonsq_desc|r0c0|oe1.5|te0": [
"OK",
"a288",
"('float64', ('y', 'x'), [('k', 'v'), ('res', 1)], 'float64', None, True, True)"
],
"tall_2col|nonsq_desc|r0c1|oe-2|te0": [
"OK",
"a289",
"('float64', ('y', 'x'), [('k', 'v'), ('res', 1)], 'float64', None, True, True)"
],
"tall_2col|nonsq_desc|r9c0|oe3|te2": [
"OK",
"a290",
"('float64', ('y', 'x'), [('k', 'v'), ('res', 1)], 'float64', None, True, True)"
],
"tall_2col|nonsq_desc|r9c1|oe0|te0.75": [
"OK",
"a291",
"('float64', ('y', 'x'), [('k', 'v'), ('res', 1)], 'float64', None, True, True)"
],
"tall_2col|nonsq_desc|r5c1|oe10|te-1": [
"OK",
"a292",
"('float64', ('y', 'x'), [('k', 'v'), ('res', 1)], 'float64', None, True, True)"
],
"tall_2col|nonsq_desc|r5c0|oe-0.5|te4": [
"OK",
"a293",
"('float64', ('y', 'x'), [('k', 'v'), ('res', 1)], 'float64', None, True, True)"
],
"tall_2col|nonsq_desc|r3c1|oe0|te0": [
"OK",
"a294",
"('float64', ('y', 'x'), [('k', 'v'), ('res', 1)], 'float64', None, True, True)"
],
"tall_2col|nonsq_desc|r1c1|oe1.5|te0": [
"OK",
"a295",
"('float64', ('y', 'x'), [('k', 'v'), ('res', 1)], 'float64', None, True, True)"
],
"wide_2row|unit|r0c0|oe-2|te0": [
"OK",
"a296",
"('float64', ('y', 'x'), [('k', 'v'), ('res', 1)], 'float64', None, True, True)"
],
"wide_2row|unit|r0c11|oe3|te2": [
"OK",
"a297",
"('float64', ('y', 'x'), [('k', 'v'), ('res', 1)], 'float64', None, True, True)"
],
"wide_2row|unit|r1c0|oe0|te0.75": [
"OK",
"a298",
"('float64', ('y', 'x'), [('k', 'v'), ('res', 1)], 'float64', None, True, True)"
],
"wide_2row|unit|r1c11|oe10|te-1": [
"OK",
"a299",
"('float64', ('y', 'x'), [('k', 'v'), ('res', 1)], 'float64', None, True, True)"
],
"wide_2row|unit|r1c6|oe-0.5|te4": [
"OK",
"a300",
"('float64', ('y', 'x'), [('k', 'v'), ('res', 1)], 'float64', None, True, True)"
],
"wide_2row|unit|r0c6|oe0|te0": [
"OK",
"a301",
"('float64', ('y', 'x'), [('k', 'v'), ('res', 1)], 'float64', None, True, True)"
],
"wide_2row|unit|r1c4|oe1.5|te0": [
"OK",
"a302",
"('float64', ('y', 'x'), [('k', 'v'), ('res', 1)], 'float64', None, True, True)"
],
"wide_2row|unit|r1c1|oe-2|te0": [
"OK",
"a303",
"('float64', ('y', 'x'), [('k', 'v'), ('res', 1)], 'float64', None, True, True)"
],
"wide_2row|nonsq_desc|r0c0|oe3|te2": [
"OK",
"a304",
"('float64', ('y', 'x'), [('k', 'v'), ('res', 1)], 'float64', None, True, True)"
],
"wide_2row|nonsq_desc|r0c11|oe0|te0.75": [
"OK",
"a305",
"('float64', ('y', 'x'), [('k', 'v'), ('res', 1)], 'float64', None, True, True)"
],
"wide_2row|nonsq_desc|r1c0|oe10|te-1": [
"OK",
"a306",
"('float64', ('y', 'x'), [('k', 'v'), ('res', 1)], 'float64', None, True, True)"
],
"wide_2row|nonsq_desc|r1c11|oe-0.5|te4": [
"OK",
"a307",
"('float64', ('y', 'x'), [('k', 'v'), ('res', 1)], 'float64', None, True, True)"
],
"wide_2row|nonsq_desc|r1c6|oe0|te0": [
"OK",
"a308",
"('float64', ('y', 'x'), [('k', 'v'), ('res', 1)], 'float64', None, True, True)"
],
"wide_2row|nonsq_desc|r0c6|oe1.5|te0": [
"OK",
"a309",
"('float64', ('y', 'x'), [('k', 'v'), ('res', 1)], 'float64', None, True, True)"
],
"wide_2row|nonsq_desc|r1c4|oe-2|te0": [
"OK",
"a310",
"('float64', ('y', 'x'), [('k', 'v'), ('res', 1)], 'float64', None, True, True)"
],
"wide_2row|nonsq_desc|r1c1|oe3|te2": [
"OK",
"a311",
"('float64', ('y', 'x'), [('k', 'v'), ('res', 1)], 'float64', None, True, True)"
],
"ridge|unit|r0c0|oe0|te0.75": [
"OK",
"a312",
"('float64', ('y', 'x'), [('k', 'v'), ('res', 1)], 'float64', None, True, True)"
],
"ridge|unit|r0c12|oe10|te-1": [
"OK",
"a313",
"('float64', ('y', 'x'), [('k', 'v'), ('res', 1)], 'float64', None, True, True)"
],
"ridge|unit|r11c0|oe-0.5|te4": [
"OK",
"a314",
"('float64', ('y', 'x'), [('k', 'v'), ('res', 1)], 'float64', None, True, True)"
],
"ridge|unit|r11c12|oe0|te0": [
"OK",
"a315",
"('float64', ('y', 'x'), [('k', 'v'), ('res', 1)], 'float64', None, True, True)"
],
"ridge|unit|r6c6|oe1.5|te0": [
"OK",
"a316",
"('float64', ('y', 'x'), [('k', 'v'), ('res', 1)], 'float64', None, True, True)"
],
"ridge|unit|r0c6|oe-2|te0": [
"OK",
"a317",
"('float64', ('y', 'x'), [('k', 'v'), ('res', 1)], 'float64', None, True, True)"
],
"ridge|unit|r6c0|oe3|te2": [
"OK",
"a318",
"('float64', ('y', 'x'), [('k', 'v'), ('res', 1)], 'float64', None, True, True)"
],
"ridge|unit|r11c4|oe0|te0.75": [
"OK",
"a319",
"('float64', ('y', 'x'), [('k', 'v'), ('res', 1)], 'float64', None, True, True)"
],
"ridge|unit|r4c12|oe10|te-1": [
"OK",
"a320",
"('float64', ('y', 'x'), [('k', 'v'), ('res', 1)], 'float64', None, True, True)"
],
"ridge|unit|r1c1|oe-0.5|te4": [
"OK",
"a321",
"('float64', ('y', 'x'), [('k', 'v'), ('res', 1)], 'float64', None, True, True)"
],
"ridge|nonsq_desc|r0c0|oe0|te0": [
"OK",
"a322",
"('float64', ('y', 'x'), [('k', 'v'), ('res', 1)], 'float64', None, True, True)"
],
"ridge|nonsq_desc|r0c12|oe1.5|te0": [
"OK",
"a323",
"('float64', ('y', 'x'), [('k', 'v'), ('res', 1)], 'float64', None, True, True)"
],
"ridge|nonsq_desc|r11c0|oe-2|te0": [
"OK",
"a324",
"('float64', ('y', 'x'), [('k', 'v'), ('res', 1)], 'float64', None, True, True)"
],
"ridge|nonsq_desc|r11c12|oe3|te2": [
"OK",
"a325",
"('float64', ('y', 'x'), [('k', 'v'), ('res', 1)], 'float64', None, True, True)"
],
"ridge|nonsq_desc|r6c6|oe0|te0.75": [
"OK",
"a326",
"('float64', ('y', 'x'), [('k', 'v'), ('res', 1)], 'float64', None, True, True)"
],
"ridge|nonsq_desc|r0c6|oe10|te-1": [
"OK",
"a327",
"('float64', ('y', 'x'), [('k', 'v'), ('res', 1)], 'float64', None, True, True)"
],
"ridge|nonsq_desc|r6c0|oe-0.5|te4": [
"OK",
"a328",
"('float64', ('y', 'x'), [('k', 'v'), ('res', 1)], 'float64', None, True, True)"
],
"ridge|nonsq_desc|r11c4|oe0|te0": [
"OK",
"a329",
"('float64', ('y', 'x'), [('k', 'v'), ('res', 1)], 'float64', None, True, True)"
],
"ridge|nonsq_desc|r4c12|oe1.5|te0": [
"OK",
"a330",
"('float64', ('y', 'x'), [('k', 'v'), ('res', 1)], 'float64', None, True, True)"
],
"ridge|nonsq_desc|r1c1|oe-2|te0": [
"OK",
"a331",
"('float64', ('y', 'x'), [('k', 'v'), ('res', 1)], 'float64', None, True, True)"
],
"with_nan|unit|r0c0|oe3|te2": [
"OK",
"a332",
"('float64', ('y', 'x'), [('k', 'v'), ('res', 1)], 'float64', None, True, True)"
],
"with_nan|unit|r0c0|oe0|te0|all": [
"OK",
"a333",
"('float64', ('y', 'x'), [('k', 'v'), ('res', 1)], 'float64', None, True, True)"
],
"with_nan|unit|r0c0|oe1.5|te0|all": [
"OK",
"a334",
"('float64', ('y', 'x'), [('k', 'v'), ('res', 1)], 'float64', None, True, True)"
],
"with_nan|unit|r0c0|oe-2|te0|all": [
"OK",
"a335",
"('float64', ('y', 'x'), [('k', 'v'), ('res', 1)], 'float64', None, True, True)"
],
"with_nan|unit|r0c0|oe3|te2|all": [
"OK",
"a336",
"('float64', ('y', 'x'), [('k', 'v'), ('res', 1)], 'float64', None, True, True)"
],
"with_nan|unit|r0c0|oe0|te0.75|all": [
"OK",
"a337",
"('float64', ('y', 'x'), [('k', 'v'), ('res', 1)], 'float64', None, True, True)"
],
"with_nan|unit|r0c0|oe10|te-1|all": [
"OK",
"a338",
"('float64', ('y', 'x'), [('k', 'v'), ('res', 1)], 'float64', None, True, True)"
],
"with_nan|unit|r0c0|oe-0.5|te4|all": [
"OK",
"a339",
"('float64', ('y', 'x'), [('k', 'v'), ('res', 1)], 'float64', None, True, True)"
],
"with_nan|unit|r0c8|oe0|te0.75": [
"OK",
"a340",
"('float64', ('y', 'x'), [('k', 'v'), ('res', 1)], 'float64', None, True, True)"
],
"with_nan|unit|r0c8|oe0|te0|all": [
"OK",
"a341",
"('float64', ('y', 'x'), [('k', 'v'), ('res', 1)], 'float64', None, True, True)"
],
"with_nan|unit|r0c8|oe1.5|te0|all": [
"OK",
"a342",
"('float64', ('y', 'x'), [('k', 'v'), ('res', 1)], 'float64', None, True, True)"
],
"with_nan|unit|r0c8|oe-2|te0|all": [
"OK",
"a343",
"('float64', ('y', 'x'), [('k', 'v'), ('res', 1)], 'float64', None, True, True)"
],
"with_nan|unit|r0c8|oe3|te2|all": [
"OK",
"a344",
"('float64', ('y', 'x'), [('k', 'v'), ('res', 1)], 'float64', None, True, True)"
],
"with_nan|unit|r0c8|oe0|te0.75|all": [
"OK",
"a345",
"('float64', ('y', 'x'), [('k', 'v'), ('res', 1)], 'float64', None, True, True)"
],
"with_nan|unit|r0c8|oe10|te-1|all": [
"OK",
"a346",
"('float64', ('y', 'x'), [('k', 'v'), ('res', 1)], 'float64', None, True, True)"
],
"with_nan|unit|r0c8|oe-0.5|te4|all": [
"OK",
"a347",
"('float64', ('y', 'x'), [('k', 'v'), ('res', 1)], 'float64', None, True, True)"
],
"with_nan|unit|r7c0|oe10|te-1": [
"EXC",
"ValueError",
"node not found"
],
"with_nan|unit|r7c0|oe0|te0|all": [
"EXC",
"ValueError",
"node not found"
],
"with_nan|unit|r7c0|oe1.5|te0|all": [
"EXC",
"ValueError",
"node not found"
],
"with_nan|unit|r7c0|oe-2|te0|all": [
"EXC",
"ValueError",
"node not found"
],
"with_nan|unit|r7c0|oe3|te2|all": [
"EXC",
"ValueError",
"node not found"
],
"with_nan|unit|r7c0|oe0|te0.75|all": [
"EXC",
"ValueError",
"node not found"
],
"with_nan|unit|r7c0|oe10|te-1|all": [
"EXC",
"ValueError",
"node not found"
],
"with_nan|unit|r7c0|oe-0.5|te4|all": [
"EXC",
"ValueError",
"node not found"
],
"with_nan|unit|r7c8|oe-0.5|te4": [
"OK",
"a356",
"('float64', ('y', 'x'), [('k', 'v'), ('res', 1)], 'float64', None, True, True)"
],
"with_nan|unit|r7c8|oe0|te0|all": [
"OK",
"a357",
"('float64', ('y', 'x'), [('k', 'v'), ('res', 1)], 'float64', None, True, True)"
],
"with_nan|unit|r7c8|oe1.5|te0|all": [
"OK",
"a358",
"('float64', ('y', 'x'), [('k', 'v'), ('res', 1)], 'float64', None, True, True)"
],
"with_nan|unit|r7c8|oe-2|te0|all": [
"OK",
"a359",
"('float64', ('y', 'x'), [('k', 'v'), ('res', 1)], 'float64', None, True, True)"
],
"with_nan|unit|r7c8|oe3|te2|all": [
"OK",
"a360",
"('float64', ('y', 'x'), [('k', 'v'), ('res', 1)], 'float64', None, True, True)"
],
"with_nan|unit|r7c8|oe0|te0.75|all": [
"OK",
"a361",
"('float64', ('y', 'x'), [('k', 'v'), ('res', 1)], 'float64', None, True, True)"
],
"with_nan|unit|r7c8|oe10|te-1|all": [
"OK",
"a362",
"('float64', ('y', 'x'), [('k', 'v'), ('res', 1)], 'float64', None, True, True)"
],
"with_nan|unit|r7c8|oe-0.5|te4|all": [
"OK",
"a363",
"('float64', ('y', 'x'), [('k', 'v'), ('res', 1)], 'float64', None, True, True)"
],
"with_nan|unit|r4c4|oe0|te0": [
"OK",
"a364",
"('float64', ('y', 'x'), [('k', 'v'), ('res', 1)], 'float64', None, True, True)"
],
"with_nan|unit|r4c4|oe0|te0|all": [
"OK",
"a365",
"('float64', ('y', 'x'), [('k', 'v'), ('res', 1)], 'float64', None, True, True)"
],
"with_nan|unit|r4c4|oe1.5|te0|all": [
"OK",
"a366",
"('float64', ('y', 'x'), [('k', 'v'), ('res', 1)], 'float64', None, True, True)"
],
"with_nan|unit|r4c4|oe-2|te0|all": [
"OK",
"a367",
"('float64', ('y', 'x'), [('k', 'v'), ('res', 1)], 'float64', None, True, True)"
],
"with_nan|unit|r4c4|oe3|te2|all": [
"OK",
"a368",
"('float64', ('y', 'x'), [('k', 'v'), ('res', 1)], 'float64', None, True, True)"
],
"with_nan|unit|r4c4|oe0|te0.75|all": [
"OK",
"a369",
"('float64', ('y', 'x'), [('k', 'v'), ('res', 1)], 'float64', None, True, True)"
],
"with_nan|unit|r4c4|oe10|te-1|all": [
"OK",
"a370",
"('float64', ('y', 'x'), [('k', 'v'), ('res', 1)], 'float64', None, True, True)"
],
"with_nan|unit|r4c4|oe-0.5|te4|all": [
"OK",
"a371",
"('float64', ('y', 'x'), [('k', 'v'), ('res', 1)], 'float64', None, True, True)"
],
"with_nan|unit|r0c4|oe1.5|te0": [
"OK",
"a372",
"('float64', ('y', 'x'), [('k', 'v'), ('res', 1)], 'float64', None, True, True)"
],
"with_nan|unit|r0c4|oe0|te0|all": [
"OK",
"a373",
"('float64', ('y', 'x'), [('k', 'v'), ('res', 1)], 'float64', None, True, True)"
],
"with_nan|unit|r0c4|oe1.5|te0|all": [
"OK",
"a374",
"('float64', ('y', 'x'), [('k', 'v'), ('res', 1)], 'float64', None, True, True)"
],
"with_nan|unit|r0c4|oe-2|te0|all": [
"OK",
"a375",
"('float64', ('y', 'x'), [('k', 'v'), ('res', 1)], 'float64', None, True, True)"
],
"with_nan|unit|r0c4|oe3|te2|all": [
"OK",
"a376",
"('float64', ('y', 'x'), [('k', 'v'), ('res', 1)], 'float64', None, True, True)"
],
"with_nan|unit|r0c4|oe0|te0.75|all": [
"OK",
"a377",
"('float64', ('y', 'x'), [('k', 'v'), ('res', 1)], 'float64', None, True, True)"
],
"with_nan|unit|r0c4|oe10|te-1|all": [
"OK",
"a378",
"('float64', ('y', 'x'), [('k', 'v'), ('res', 1)], 'float64', None, True, True)"
],
"with_nan|unit|r0c4|oe-0.5|te4|all": [
"OK",
"a379",
"('float64', ('y', 'x'), [('k', 'v'), ('res', 1)], 'float64', None, True, True)"
],
"with_nan|unit|r4c0|oe-2|te0": [
"OK",
"a380",
"('float64', ('y', 'x'), [('k', 'v'), ('res', 1)], 'float64', None, True, True)"
],
"with_nan|unit|r4c0|oe0|te0|all": [
"OK",
"a381",
"('float64', ('y', 'x'), [('k', 'v'), ('res', 1)], 'float64', None, True, True)"
],
"with_nan|unit|r4c0|oe1.5|te0|all": [
"OK",
"a382",
"('float64', ('y', 'x'), [('k', 'v'), ('res', 1)], 'float64', None, True, True)"
],
"with_nan|unit|r4c0|oe-2|te0|all": [
"OK",
"a383",
"('float64', ('y', 'x'), [('k', 'v'), ('res', 1)], 'float64', None, True, True)"
],
"with_nan|unit|r4c0|oe3|te2|all": [
"OK",
"a384",
"('float64', ('y', 'x'), [('k', 'v'), ('res', 1)], 'float64', None, True, True)"
],
"with_nan|unit|r4c0|oe0|te0.75|all": [
"OK",
"a385",
"('float64', ('y', 'x'), [('k', 'v'), ('res', 1)], 'float64', None, True, True)"
],
"with_nan|unit|r4c0|oe10|te-1|all": [
"OK",
"a386",
"('float64', ('y', 'x'), [('k', 'v'), ('res', 1)], 'float64', None, True, True)"
],
"with_nan|unit|r4c0|oe-0.5|te4|all": [
"OK",
"a387",
"('float64', ('y', 'x'), [('k', 'v'), ('res', 1)], 'float64', None, True, True)"
],
"with_nan|unit|r7c3|oe3|te2": [
"OK",
"a388",
"('float64', ('y', 'x'), [('k', 'v'), ('res', 1)], 'float64', None, True, True)"
],
"with_nan|unit|r7c3|oe0|te0|all": [
"OK",
"a389",
"('float64', ('y', 'x'), [('k', 'v'), ('res', 1)], 'float64', None, True, True)"
],
"with_nan|unit|r7c3|oe1.5|te0|all": [
"OK",
"a390",
"('float64', ('y', 'x'), [('k', 'v'), ('res', 1)], 'float64', None, True, True)"
],
"with_nan|unit|r7c3|oe-2|te0|all": [
"OK",
"a391",
"('float64', ('y', 'x'), [('k', 'v'), ('res', 1)], 'float64', None, True, True)"
],
"with_nan|unit|r7c3|oe3|te2|all": [
"OK",
"a392",
"('float64', ('y', 'x'), [('k', 'v'), ('res', 1)], 'float64', None, True, True)"
],
"with_nan|unit|r7c3|oe0|te0.75|all": [
"OK",
"a393",
"('float64', ('y', 'x'), [('k', 'v'), ('res', 1)], 'float64', None, True, True)"
],
"with_nan|unit|r7c3|oe10|te-1|all": [
"OK",
"a394",
"('float64', ('y', 'x'), [('k', 'v'), ('res', 1)], 'float64', None, True, True)"
],
"with_nan|unit|r7c3|oe-0.5|te4|all": [
"OK",
"a395",
"('float64', ('y', 'x'), [('k', 'v'), ('res', 1)], 'float64', None, True, True)"
],
"with_nan|unit|r2c8|oe0|te0.75": [
"OK",
"a396",
"('float64', ('y', 'x'), [('k', 'v'), ('res', 1)], 'float64', None, True, True)"
],
"with_nan|unit|r2c8|oe0|te0|all": [
"OK",
"a397",
"('float64', ('y', 'x'), [('k', 'v'), ('res', 1)], 'float64', None, True, True)"
],
"with_nan|unit|r2c8|oe1.5|te0|all": [
"OK",
"a398",
"('float64', ('y', 'x'), [('k', 'v'), ('res', 1)], 'float64', None, True, True)"
],
"with_nan|unit|r2c8|oe-2|te0|all": [
"OK",
"a399",
"('float64', ('y', 'x'), [('k', 'v'), ('res', 1)], 'float64', None, True, True)"
],
"with_nan|unit|r2c8|oe3|te2|all": [
"OK",
"a400",
"('float64', ('y', 'x'), [('k', 'v'), ('res', 1)], 'float64', None, True, True)"
],
"with_nan|unit|r2c8|oe0|te0.75|all": [
"OK",
"a401",
"('float64', ('y', 'x'), [('k', 'v'), ('res', 1)], 'float64', None, True, True)"
],
"with_nan|unit|r2c8|oe10|te-1|all": [
"OK",
"a402",
"('float64', ('y', 'x'), [('k', 'v'), ('res', 1)], 'float64', None, True, True)"
],
"with_nan|unit|r2c8|oe-0.5|te4|all": [
"OK",
"a403",
"('float64', ('y', 'x'), [('k', 'v'), ('res', 1)], 'float64', None, True, True)"
],
"with_nan|unit|r1c1|oe10|te-1": [
"OK",
"a404",
"('float64', ('y', 'x'), [('k', 'v'), ('res', 1)], 'float64', None, True, True)"
],
"with_nan|unit|r1c1|oe0|te0|all": [
"OK",
"a405",
"('float64', ('y', 'x'), [('k', 'v'), ('res', 1)], 'float64', None, True, True)"
],
"with_nan|unit|r1c1|oe1.5|te0|all": [
"OK",
"a406",
"('float64', ('y', 'x'), [('k', 'v'), ('res', 1)], 'float64', None, True, True)"
],
"with_nan|unit|r1c1|oe-2|te0|all": [
"OK",
"a407",
"('float64', ('y', 'x'), [('k', 'v'), ('res', 1)], 'float64', None, True, True)"
],
"with_nan|unit|r1c1|oe3|te2|all": [
"OK",
"a408",
"('float64', ('y', 'x'), [('k', 'v'), ('res', 1)], 'float64', None, True, True)"
],
"with_nan|unit|r1c1|oe0|te0.75|all": [
"OK",
"a409",
"('float64', ('y', 'x'), [('k', 'v'), ('res', 1)], 'float64', None, True, True)"
],
"with_nan|unit|r1c1|oe10|te-1|all": [
"OK",
"a410",
"('float64', ('y', 'x'), [('k', 'v'), ('res', 1)], 'float64', None, True, True)"
],
"with_nan|unit|r1c1|oe-0.5|te4|all": [
"OK",
"a411",
"('float64', ('y', 'x'), [('k', 'v'), ('res', 1)], 'float64', None, True, True)"
],
"with_nan|nonsq_desc|r0c0|oe-0.5|te4": [
"OK",
"a412",
"('float64', ('y', 'x'), [('k', 'v'), ('res', 1)], 'float64', None, True, True)"
],
"with_nan|nonsq_desc|r0c8|oe0|te0": [
"OK",
"a413",
"('float64', ('y', 'x'), [('k', 'v'), ('res', 1)], 'float64', None, True, True)"
],
"with_nan|nonsq_desc|r7c0|oe1.5|te0": [
"EXC",
"ValueError",
"node not found"
],
"with_nan|nonsq_desc|r7c8|oe-2|te0": [
"OK",
"a415",
"('float64', ('y', 'x'), [('k', 'v'), ('res', 1)], 'float64', None, True, True)"
],
"with_nan|nonsq_desc|r4c4|oe3|te2": [
"OK",
"a416",
"('float64', ('y', 'x'), [('k', 'v'), ('res', 1)], 'float64', None, True, True)"
],
"with_nan|nonsq_desc|r0c4|oe0|te0.75": [
"OK",
"a417",
"('float64', ('y', 'x'), [('k', 'v'), ('res', 1)], 'float64', None, True, True)"
],
"with_nan|nonsq_desc|r4c0|oe10|te-1": [
"OK",
"a418",
"('float64', ('y', 'x'), [('k', 'v'), ('res', 1)], 'float64', None, True, True)"
],
"with_nan|nonsq_desc|r7c3|oe-0.5|te4": [
"OK",
"a419",
"('float64', ('y', 'x'), [('k', 'v'), ('res', 1)], 'float64', None, True, True)"
],
"with_nan|nonsq_desc|r2c8|oe0|te0": [
"OK",
"a420",
"('float64', ('y', 'x'), [('k', 'v'), ('res', 1)], 'float64', None, True, True)"
],
"with_nan|nonsq_desc|r1c1|oe1.5|te0": [
"OK",
"a421",
"('float64', ('y', 'x'), [('k', 'v'), ('res', 1)], 'float64', None, True, True)"
],
"with_inf|unit|r0c0|oe-2|te0": [
"OK",
"a422",
"('float64', ('y', 'x'), [('k', 'v'), ('res', 1)], 'float64', None, True, True)"
],
"with_inf|unit|r0c5|oe3|te2": [
"OK",
"a423",
"('float64', ('y', 'x'), [('k', 'v'), ('res', 1)], 'float64', None, True, True)"
],
"with_inf|unit|r5c0|oe0|te0.75": [
"OK",
"a424",
"('float64', ('y', 'x'), [('k', 'v'), ('res', 1)], 'float64', None, True, True)"
],
"with_inf|unit|r5c5|oe10|te-1": [
"OK",
"a425",
"('float64', ('y', 'x'), [('k', 'v'), ('res', 1)], 'float64', None, True, True)"
],
"with_inf|unit|r3c3|oe-0.5|te4": [
"OK",
"a426",
"('float64', ('y', 'x'), [('k', 'v'), ('res', 1)], 'float64', None, True, True)"
],
"with_inf|unit|r0c3|oe0|te0": [
"OK",
"a427",
"('float64', ('y', 'x'), [('k', 'v'), ('res', 1)], 'float64', None, True, True)"
],
"with_inf|unit|r3c0|oe1.5|te0": [
"OK",
"a428",
"('float64', ('y', 'x'), [('k', 'v'), ('res', 1)], 'float64', None, True, True)"
],
"with_inf|unit|r5c2|oe-2|te0": [
"OK",
"a429",
"('float64', ('y', 'x'), [('k', 'v'), ('res', 1)], 'float64', None, True, True)"
],
"with_inf|unit|r2c5|oe3|te2": [
"OK",
"a430",
"('float64', ('y', 'x'), [('k', 'v'), ('res', 1)], 'float64', None, True, True)"
],
"with_inf|unit|r1c1|oe0|te0.75": [
"OK",
"a431",
"('float64', ('y', 'x'), [('k', 'v'), ('res', 1)], 'float64', None, True, True)"
],
"with_inf|nonsq_desc|r0c0|oe10|te-1": [
"OK",
"a432",
"('float64', ('y', 'x'), [('k', 'v'), ('res', 1)], 'float64', None, True, True)"
],
"with_inf|nonsq_desc|r0c5|oe-0.5|te4": [
"OK",
"a433",
"('float64', ('y', 'x'), [('k', 'v'), ('res', 1)], 'float64', None, True, True)"
],
"with_inf|nonsq_desc|r5c0|oe0|te0": [
"OK",
"a434",
"('float64', ('y', 'x'), [('k', 'v'), ('res', 1)], 'float64', None, True, True)"
],
"with_inf|nonsq_desc|r5c5|oe1.5|te0": [
"OK",
"a435",
"('float64', ('y', 'x'), [('k', 'v'), ('res', 1)], 'float64', None, True, True)"
],
"with_inf|nonsq_desc|r3c3|oe-2|te0": [
"OK",
"a436",
"('float64', ('y', 'x'), [('k', 'v'), ('res', 1)], 'float64', None, True, True)"
],
"with_inf|nonsq_desc|r0c3|oe3|te2": [
"OK",
"a437",
"('float64', ('y', 'x'), [('k', 'v'), ('res', 1)], 'float64', None, True, True)"
],
"with_inf|nonsq_desc|r3c0|oe0|te0.75": [
"OK",
"a438",
"('float64', ('y', 'x'), [('k', 'v'), ('res', 1)], 'float64', None, True, True)"
],
"with_inf|nonsq_desc|r5c2|oe10|te-1": [
"OK",
"a439",
"('float64', ('y', 'x'), [('k', 'v'), ('res', 1)], 'float64', None, True, True)"
],
"with_inf|nonsq_desc|r2c5|oe-0.5|te4": [
"OK",
"a440",
"('float64', ('y', 'x'), [('k', 'v'), ('res', 1)], 'float64', None, True, True)"
],
"with_inf|nonsq_desc|r1c1|oe0|te0": [
"OK",
"a441",
"('float64', ('y', 'x'), [('k', 'v'), ('res', 1)], 'float64', None, True, True)"
],
"big_rand|unit|r0c0|oe1.5|te0": [
"OK",
"a442",
"('float64', ('y', 'x'), [('k', 'v'), ('res', 1)], 'float64', None, True, True)"
],
"big_rand|unit|r0c18|oe-2|te0": [
"OK",
"a443",
"('float64', ('y', 'x'), [('k', 'v'), ('res', 1)], 'float64', None, True, True)"
],
"big_rand|unit|r22c0|oe3|te2": [
"OK",
"a444",
"('float64', ('y', 'x'), [('k', 'v'), ('res', 1)], 'float64', None, True, True)"
],
"big_rand|unit|r22c18|oe0|te0.75": [
"OK",
"a445",
"('float64', ('y', 'x'), [('k', 'v'), ('res', 1)], 'float64', None, True, True)"
],
"big_rand|unit|r11c9|oe10|te-1": [
"OK",
"a446",
"('float64', ('y', 'x'), [('k', 'v'), ('res', 1)], 'float64', None, True, True)"
],
"big_rand|unit|r0c9|oe-0.5|te4": [
"OK",
"a447",
"('float64', ('y', 'x'), [('k', 'v'), ('res', 1)], 'float64', None, True, True)"
],
"big_rand|unit|r11c0|oe0|te0": [
"OK",
"a448",
"('float64', ('y', 'x'), [('k', 'v'), ('res', 1)], 'float64', None, True, True)"
],
"big_rand|unit|r22c6|oe1.5|te0": [
"OK",
"a449",
"('float64', ('y', 'x'), [('k', 'v'), ('res', 1)], 'float64', None, True, True)"
],
"big_rand|unit|r7c18|oe-2|te0": [
"OK",
"a450",
"('float64', ('y', 'x'), [('k', 'v'), ('res', 1)], 'float64', None, True, True)"
],
"big_rand|unit|r1c1|oe3|te2": [
"OK",
"a451",
"('float64', ('y', 'x'), [('k', 'v'), ('res', 1)], 'float64', None, True, True)"
],
"big_rand|nonsq_desc|r0c0|oe0|te0.75": [
"OK",
"a452",
"('float64', ('y', 'x'), [('k', 'v'), ('res', 1)], 'float64', None, True, True)"
],
"big_rand|nonsq_desc|r0c18|oe10|te-1": [
"OK",
"a453",
"('float64', ('y', 'x'), [('k', 'v'), ('res', 1)], 'float64', None, True, True)"
],
"big_rand|nonsq_desc|r22c0|oe-0.5|te4": [
"OK",
"a454",
"('float64', ('y', 'x'), [('k', 'v'), ('res', 1)], 'float64', None, True, True)"
],
"big_rand|nonsq_desc|r22c18|oe0|te0": [
"OK",
"a455",
"('float64', ('y', 'x'), [('k', 'v'), ('res', 1)], 'float64', None, True, True)"
],
"big_rand|nonsq_desc|r11c9|oe1.5|te0": [
"OK",
"a456",
"('float64', ('y', 'x'), [('k', 'v'), ('res', 1)], 'float64', None, True, True)"
],
"big_rand|nonsq_desc|r0c9|oe-2|te0": [
"OK",
"a457",
"('float64', ('y', 'x'), [('k', 'v'), ('res', 1)], 'float64', None, True, True)"
],
"big_rand|nonsq_desc|r11c0|oe3|te2": [
"OK",
"a458",
"('float64', ('y', 'x'), [('k', 'v'), ('res', 1)], 'float64', None, True, True)"
],
"big_rand|nonsq_desc|r22c6|oe0|te0.75": [
"OK",
"a459",
"('float64', ('y', 'x'), [('k', 'v'), ('res', 1)], 'float64', None, True, True)"
],
"big_rand|nonsq_desc|r7c18|oe10|te-1": [
"OK",
"a460",
"('float64', ('y', 'x'), [('k', 'v'), ('res', 1)], 'float64', None, True, True)"
],
"big_rand|nonsq_desc|r1c1|oe-0.5|te4": [
"OK",
"a461",
"('float64', ('y', 'x'), [('k', 'v'), ('res', 1)], 'float64', None, True, True)"
]
}

_EXTRAS = [
[
"x_low",
"('EXC', 'ValueError', 'x argument outside of raster x_range')"
],
[
"x_high",
"('EXC', 'ValueError', 'x argument outside of raster x_range')"
],
[
"y_low",
"('EXC', 'ValueError', 'y argument outside of raster y_range')"
],
[
"y_high",
"('EXC', 'ValueError', 'y argument outside of raster y_range')"
],
[
"x_nan",
"('EXC', 'ValueError', 'x argument outside of raster x_range')"
],
[
"y_nan",
"('EXC', 'ValueError', 'y argument outside of raster y_range')"
],
[
"nearest_snap",
"('OK', 'float64', '000000000000f0bf000000000000f0bfc41da631a7903a4051521c3680594240a095977a285e4b40961a8119ee79504000000000008056407b5e177fb5ec224081fce4401a962f40000000000000f0bfb20ef82154d84040c41da631a7903a4000000000008066400000000000805640000000000000f0bfab95fb994718384081565eeaa17833403ce259ce586f3240606a6885d7a14140961a8119ee795040')"
],
[
"nearest_snap2",
"('OK', 'float64', '4ef107deab274c401ef12c67acb74f4000000000008056400000000000806640483ccb19eb2d6340b010c786baaf60404a87c60069d96240606a6885d7a1414000000000008046400000000000805640000000000000f0bf3035b4c2eb505f406ceb78f29fe96140483ccb19eb2d6340000000000000f0bf000000000000f0bf000000000000f0bf000000000000f0bf000000000000f0bfb010c786baaf6040')"
],
[
"defaults_positional",
"('OK', 'float64', '000000000000f0bf376b0e70493d3940ab95fb9947183840c41da631a7903a4051521c3680594240e3d2caad1fd84c40961a8119ee7950403d6c7818f0d726407b5e177fb5ec224081fce4401a962f403ce259ce586f4240b20ef82154d84040c41da631a7903a4000000000008066400f7798c69c4220408877b90193ca3b40ab95fb994718384081565eeaa17833403ce259ce586f3240606a6885d7a14140')"
],
[
"int_xy",
"('OK', 'float64', '000000000000f0bf000000000000f0bf000000000000f0bfe3d2caad1fd84c40718769cc29e451400000000000805640fee16f4616605a40000000000000f0bf000000000000f0bfb20ef82154d84040000000000000f0bf000000000000f0bf00000000008056403035b4c2eb505f4037c51f78af9e264000000000008046400000000000804640000000000080464000000000008046400000000000806640')"
],
[
"target_nan",
"('OK', 'float64', '000000000000f0bf000000000000f0bfb20ef82154d84040ab95fb9947184840606a6885d7a1514000000000008056403035b4c2eb505f4037c51f78af9e264081565eeaa1783340000000000000f0bf0000000000804640000000000080464000000000008066400000000000e06040000000000000f0bf000000000000f0bf376b0e70493d3940c41da631a7903a40a095977a285e4b400000000000805640')"
],
[
"obs_nan",
"('OK', 'float64', '000000000000f0bf000000000000f0bf000000000000f0bf000000000000f0bf000000000000f0bf000000000000f0bf000000000000f0bf000000000000f0bf000000000000f0bf000000000000f0bf000000000000f0bf000000000000f0bf0000000000806640000000000000f0bf000000000000f0bf000000000000f0bf000000000000f0bf000000000000f0bf000000000000f0bf000000000000f0bf')"
],
[
"single_row",
"('OK', 'float64', '000000000000f0bf000000000000f0bf0000000000806640000000000000f0bf000000000000f0bf')"
],
[
"single_col",
"('OK', 'float64', '000000000000f0bf000000000000f0bf0000000000806640000000000000f0bf')"
],
[
"single_cell",
"('OK', 'float64', '0000000000806640')"
],
[
"list_data",
"('EXC', 'AttributeError', \"'NoneType' object has no attribute 'values'\")"
],
[
"dask",
"('EXC', 'TypeError', \"Unsupported raster array type: <class 'dask.array.core.Array'>\")"
],
[
"mutates_dtype",
"(False, 'float64', '0000000000000000000000000000f03f000000000000004000000000000008400000000000001040000000000000144000000000000018400000000000000000000000000000f03f000000000000004000000000000008400000000000001040000000000000144000000000000018400000000000000000000000000000f03f0000000000000040000000000000084000000000000010400000000000001440')"
]
]

_BLOB = """
UEsDBC0AAAAIAAAAIQDbjofE//////////8GABQAYTAubnB5AQAQACABAAAAAAAAeQAAAAAAAACb7BfqGxDJyFDGUK2eklqcXKRu
paBuk2ahrqOgnpZfVFKUmBefX5SSChJ3S8wpTgWKF2ckFqQC+RomOgqmmjoKtQpkAy4GEGhIc4DQYQ6F7ZlnNFViIXyGD/tR6AcJ
DjON/l0Mi0jGLg+k1zDXcYiKpeKUJ0Sjmw8AUEsDBC0AAAAIAAAAIQDbjofE//////////8GABQAYTEubnB5AQAQACABAAAAAAAA
eQAAAAAAAACb7BfqGxDJyFDGUK2eklqcXKRupaBuk2ahrqOgnpZfVFKUmBefX5SSChJ3S8wpTgWKF2ckFqQC+RomOgqmmjoKtQpk
Ay4GEGhIc4DQYQ6F7ZlnNFViIXyGD/tR6AcJDjON/l0Mi0jGLg+k1zDXcYiKpeKUJ0Sjmw8AUEsDBC0AAAAIAAAAIQDktRvK////
//////8GABQAYTIubnB5AQAQACABAAAAAAAAnAAAAAAAAACb7BfqGxDJyFDGUK2eklqcXKRupaBuk2ahrqOgnpZfVFKUmBefX5SS
ChJ3S8wpTgWKF2ckFqQC+RomOgqmmjoKtQpkAy4GEGhIc9jE90Mx5IaDw+/FD/TX/Q1yAIszfNgPo+U+6qSv2e7vELPw4aMvoolw
eVld06AH6gFwfsNx3ZW+N1Lg/ISsjNbrCxMxzMNF/38ezS9/IQmuHgBQSwMELQAAAAgAAAAhABjx4U3//////////wYAFABhMy5u
cHkBABAAIAEAAAAAAAB4AAAAAAAAAJvsF+obEMnIUMZQrZ6SWpxcpG6loG6TZqGuo6Cell9UUpSYF59flJIKEndLzClOBYoXZyQW
pAL5GiY6CqaaOgq1CmQDLgYQaEhz8LA5LflaN9kBzGf4sB+d3nHY5JmIUYqDxYaP0fPaUnCqk+jiW2ESmIpTnlQaAFBLAwQtAAAA
CAAAACEAPK6Tx///////////BgAUAGE0Lm5weQEAEAAgAQAAAAAAALIAAAAAAAAAm+wX6hsQychQxlCtnpJanFykbqWgbpNmoa6j
oJ6WX1RSlJgXn1+UkgoSd0vMKU4FihdnJBakAvkaJjoKppo6CrUKZAMuBhBoSHOA0G5QOsyhsD3zjOaTQIffix/or/sbBBfPeLpU
rks8yWGaVKPku8oAhx8rZRifywQ5OEhFTqgRD3bwenWLUeR9ikP207pngm0xcPX/Hua7iSVEwfWBzWP4sB9Gw+TvuG9i/smYDJcH
AFBLAwQtAAAACAAAACEAvRJis///////////BgAUAGE1Lm5weQEAEAAgAQAAAAAAAIoAAAAAAAAAm+wX6hsQychQxlCtnpJanFyk
bqWgbpNmoa6joJ6WX1RSlJgXn1+UkgoSd0vMKU4FihdnJBakAvkaJjoKppo6CrUKZAMuBhBoSHOQ+6iTvmZ7vIOde6jk59QEB7A4
w4f9MDrt+KZ3mieSHDwunZl3+lUyhjyMNnlwmHG/XipOeUJ0yIvkZbX9CPMBUEsDBC0AAAAIAAAAIQCEn/Hv//////////8GABQA
YTYubnB5AQAQACABAAAAAAAAywAAAAAAAACb7BfqGxDJyFDGUK2eklqcXKRupaBuk2ahrqOgnpZfVFKUmBefX5SSChJ3S8wpTgWK
F2ckFqQC+RomOgqmmjoKtQpkAy4GEGhIczjgZblr6XUxh6jowEf7+TQd/F/3rGbcbOBwfiqfjuZZU4cS0zmW0TGSDrY5FRIfrqs5
vJetWlJoqumgGNH7O7nH0OHLY7FtGhlmDhDzwhxS4iwDSq31HbgOKLSy19s6TL34/dBhJwuIPMOH/f0V04yvSUfD+TD5Qzu+Bxjo
B8PFAVBLAwQtAAAACAAAACEA77WS+P//////////BgAUAGE3Lm5weQEAEAAgAQAAAAAAAM8AAAAAAAAAm+wX6hsQychQxlCtnpJa
nFykbqWgbpNmoa6joJ6WX1RSlJgXn1+UkgoSd0vMKU4FihdnJBakAvkaJjoKppo6CrUKZAMuBhBoSHPwenWLUeR9isOkfwYpXQwp
DiF/Gr+/8kxyKJ62jXuXd6KDlve8TXZmqQ4pG0/meGmlOlhLvBQsN0p2+LFShvG5TJIDq0vEeVGDRIeECN8VG1tSHXwm75JoVUhx
EJgTYV+Um+Lw0qZxavH9JAewfQwf9sNoi6ojJV6HEeLzlvpWbw9MgfMBUEsDBC0AAAAIAAAAIQC+mW/5//////////8GABQAYTgu
bnB5AQAQACABAAAAAAAAugAAAAAAAACb7BfqGxDJyFDGUK2eklqcXKRupaBuk2ahrqOgnpZfVFKUmBefX5SSChJ3S8wpTgWKF2ck
FqQC+RomOgqmmjoKtQpkAy4GMPiwH0b/XvxAf93fIIdNfD8UQ244OICFG9IcYPJPLp1aK38jxqH0jYnTfCEfh0lVlSU6K1zh6vkC
rf/+YU+Gq0/Iymi9vjDRYZ9zv8m6ZZEOQZVnZpSEODt47eDn3IWkDkafeMF2JHNJsoPcR530Ndv9HQBQSwMELQAAAAgAAAAhAFF4
iGr//////////wYAFABhOS5ucHkBABAAIAEAAAAAAACbAAAAAAAAAJvsF+obEMnIUMZQrZ6SWpxcpG6loG6TZqGuo6Cell9UUpSY
F59flJIKEndLzClOBYoXZyQWpAL5GiY6CqaaOgq1CmQDLgYw+LAfRhe2Z57RVIl1AHMbwqB0mgNMfoPA8bZd6xMcUPTB1YU5ePce
4PlekwyX//88ml/+QpLDVKlGyXeVCH0r1SLkTxcmo5oDpNn8xA/ViqTAzQMAUEsDBC0AAAAIAAAAIQC+mW/5//////////8HABQA
YTEwLm5weQEAEAAgAQAAAAAAALoAAAAAAAAAm+wX6hsQychQxlCtnpJanFykbqWgbpNmoa6joJ6WX1RSlJgXn1+UkgoSd0vMKU4F
ihdnJBakAvkaJjoKppo6CrUKZAMuBjD4sB9G/178QH/d3yCHTXw/FENuODiAhRvSHGDyTy6dWit/I8ah9I2J03whH4dJVZUlOitc
4er5Aq3//mFPhqtPyMpovb4w0WGfc7/JumWRDkGVZ2aUhDg7eO3g59yFpA5Gn3jBdiRzSbKD3Eed9DXb/R0AUEsDBC0AAAAIAAAA
IQB1qF7o//////////8HABQAYTExLm5weQEAEAAgAQAAAAAAAIQAAAAAAAAAm+wX6hsQychQxlCtnpJanFykbqWgbpNmoa6joJ6W
X1RSlJgXn1+UkgoSd0vMKU4FihdnJBakAvkaJjoKppo6CrUKZAMuBjD4sB+d9rA5LflaN9kBzG1Ic8ClLuPpUrku8SQHmPr2k64y
Hz8mw9Wzc2p9+7g/Gad+dNpvhXzPwboUuHoAUEsDBC0AAAAIAAAAIQBXMNqv//////////8HABQAYTEyLm5weQEAEAAgAQAAAAAA
ALYAAAAAAAAAm+wX6hsQychQxlCtnpJanFykbqWgbpNmoa6joJ6WX1RSlJgXn1+UkgoSd0vMKU4FihdnJBakAvkaJjoKppo6CrUK
ZAOu34sf6K/7G+RQ2J55RvNJoAMDCDSEQWk3KJ0GF++bJqX5YXKcwzSpRsl3lQEOC6ZOr9KI84art5Z4KVhulOzw72G+m1hClEPG
06VyXeJJDtlP654JtsXA1XnYnJZ8rZsM4TN82A+jX+83f3TxbDLcPQBQSwMELQAAAAgAAAAhAIgrZO3//////////wcAFABhMTMu
bnB5AQAQACABAAAAAAAAswAAAAAAAACb7BfqGxDJyFDGUK2eklqcXKRupaBuk2ahrqOgnpZfVFKUmBefX5SSChJ3S8wpTgWKF2ck
FqQC+RomOgqmmjoKtQpkAy4GMPiwH0bbuYdKfk5NcJD7qJO+Znu8A1i4Ic0BJu/97d/klupEh9CF4UfWK0U7eBbM/sFbEwtXL3Ba
cqP+2mS4+jLxXt9rlskOZ9sKpQPnJMLFz+jr7Yueh1AHoy982Xfsu0OKA1uM/IVApigHAFBLAwQtAAAACAAAACEAfMjt4v//////
////BwAUAGExNC5ucHkBABAAIAEAAAAAAADLAAAAAAAAAJvsF+obEMnIUMZQrZ6SWpxcpG6loG6TZqGuo6Cell9UUpSYF59flJIK
EndLzClOBYoXZyQWpAL5GiY6CqaaOgq1CmQDrvNT+XQ0z5o6+L/uWc242cAhKjrw0X4+TYcDXpa7ll4Xc2AAgYY0B8aimD0icy0c
3K48vLTO38LhvWzVkkJTTYejDi57giUV0NSHOUy9+P3QYScLB64DCq3s9bYOKXGWAaXW+g5ZvtLXROaoOCz/wfz+anAkRD3Dh/0w
+sdKGcbnMkFw9wAAUEsDBC0AAAAIAAAAIQA8Xwak//////////8HABQAYTE1Lm5weQEAEAAgAQAAAAAAAM8AAAAAAAAAm+wX6hsQ
ychQxlCtnpJanFykbqWgbpNmoa6joJ6WX1RSlJgXn1+UkgoSd0vMKU4FihdnJBakAvkaJjoKppo6CrUKZAOu4mnbuHd5JzqE/Gn8
/sozyWHSP4OULoYUB69XtxhF3qc4MIBAQ5qDQep394lPEh1OvGA7krkk2cFa4qVguVGyw7ylvtXbAxHql2e1K9VGpzi8tGmcWnw/
yUFgToR9UW6Kg8/kXRKtCikOacc3vdM8keSgYbF2+0NnqPkMH/bD1Psc3BGueCsF7h4AUEsDBC0AAAAIAAAAIQDUJxKi////////
//8HABQAYTE2Lm5weQEAEAAgAQAAAAAAAJgAAAAAAAAAm+wX6hsQychQxlCtnpJanFykbqWgbpNmoa6joJ6WX1RSlJgXn1+UkgoS
d0vMKU4FihdnJBakAvkaJjoKppo6CrUKZAMuBjD4sB+dNsvmK/C0tXToO3y44xevrQO6vMjlSaouRYYY4mDqQYKDbU6FxIfrag5b
j57+ud0EUz+YakhzaP6n7snSIOPwtKLiHdcTfYi6hjC4egBQSwMELQAAAAgAAAAhAMM4BRb//////////wcAFABhMTcubnB5AQAQ
ACABAAAAAAAAtQAAAAAAAACb7BfqGxDJyFDGUK2eklqcXKRupaBuk2ahrqOgnpZfVFKUmBefX5SSChJ3S8wpTgWKF2ckFqQC+Rom
OgqmmjoKtQpkAy4GMPiwH0ab2kWr7bhs7OBx/7Ftsripw85TdqzLCy0c0NX5ndymJXxdx0F1wdx5D1WNHHhE/p58Im8GUdfg5uC8
9neP9R1FhxObL8qWF5hg6IeoS3M44GW5a+l1MYeo6MBH+/k0Hfw+st9bre4DVw8AUEsDBC0AAAAIAAAAIQDI/fep//////////8H
ABQAYTE4Lm5weQEAEAAgAQAAAAAAALwAAAAAAAAAm+wX6hsQychQxlCtnpJanFykbqWgbpNmoa6joJ6WX1RSlJgXn1+UkgoSd0vM
KU4FihdnJBakAvkaJjoKppo6CrUKZAMuBjD4sB9Gl1+bczEsw9Bht+d8k/z9Rg7np/LpaJ41dYDJ37JhEcqs1XJIuujV9KZe0+Ht
5J/ezOIGDvMPcDP1rDeGq5/w0jfg/To5h33b+tT/zzRwQLcHTDWkOfwKWbyN+aGww3/G8tr+iaoO744JWn73cYGrBwBQSwMELQAA
AAgAAAAhANQnEqL//////////wcAFABhMTkubnB5AQAQACABAAAAAAAAmAAAAAAAAACb7BfqGxDJyFDGUK2eklqcXKRupaBuk2ah
rqOgnpZfVFKUmBefX5SSChJ3S8wpTgWKF2ckFqQC+RomOgqmmjoKtQpkAy4GMPiwH502y+Yr8LS1dOg7fLjjF6+tA7q8yOVJqi5F
hhjiYOpBgoNtToXEh+tqDluPnv653QRTP5hqSHNo/qfuydIg4/C0ouId1xN9iLqGMLh6AFBLAwQtAAAACAAAACEAgSS8nP//////
////BwAUAGEyMC5ucHkBABAAIAEAAAAAAADTAAAAAAAAAJvsF+obEMnIUMZQrZ6SWpxcpG6loG6TZqGuo6Cell9UUpSYF59flJIK
EndLzClOBYoXZyQWpAL5GiY6CqaaOgq1CmQDLt0Hvxr6hHQcjFl2Be5s03VQXTB33kNVI4eGsLhXCyuMHcyPylesn2fmwAAGH/Zz
iswUOPtc2+GtpVNFbZuWw+zZ3ySsdxo4nNh8Uba8wMThiOwyw+UTrByOOrjsCZZUcGCw5zXS3G7ooBjR+zu5x9BBw3Ob9I0ZhhDz
GtIcLlcoxEscF4HaowYVd4PbBwBQSwMELQAAAAgAAAAhAP+0LHT//////////wcAFABhMjEubnB5AQAQACABAAAAAAAAwAAAAAAA
AACb7BfqGxDJyFDGUK2eklqcXKRupaBuk2ahrqOgnpZfVFKUmBefX5SSChJ3S8wpTgWKF2ckFqQC+RomOgqmmjoKtQpkAy4GMPiw
H0ZL1a/SmOlt6vBTsWaXW42ZA//BL663Gawc0NU53N/On3RLz+GvnVSSQ6Kxw4mY/h+Zk8wdfi9+oL/ub5DDw3CjeNcSZYdrZhNz
3giaO5x68HHhvR8mqOY0pDkc+e2X6LROwkHwb3IFq6O2wya+H4ohNwLg6gBQSwMELQAAAAgAAAAhADlfAl3//////////wcAFABh
MjIubnB5AQAQACABAAAAAAAA5gAAAAAAAACb7BfqGxDJyFDGUK2eklqcXKRupaBuk2ahrqOgnpZfVFKUmBefX5SSChJ3S8wpTgWK
F2ckFqQC+RomOgqmmjoKtQpkAy7+8hnH5jgpOOwLE9JtU1B0MAqvNAoqUHGwyamQ+HBdzWGalUH51xNaDge8LHctvS7msPCY1X6f
YBmHCS99A96vk3M4VbppPm+NssOhhy1hXtwaDpcrFOIljos4BAV7hvxgE3QI23bKce8leYcPDs6dss+UHPasPbL/kpWqAwMINKQ5
OKYKbDN5xubwaeHk2xacEg66D3419AnpQOQZPuwHAFBLAwQtAAAACAAAACEArtA7LP//////////BwAUAGEyMy5ucHkBABAAIAEA
AAAAAADQAAAAAAAAAJvsF+obEMnIUMZQrZ6SWpxcpG6loG6TZqGuo6Cell9UUpSYF59flJIKEndLzClOBYoXZyQWpAL5GiY6Cqaa
Ogq1CmQDLgYw+LAfRpsmP30yb76DgygT7wL2iQ4OXl5L5h8/4eQAkxeye+ua5engkLj3wRmhFnOHHRLfgpNZbB027cuxWu/s6FBU
IRG4vzHFQeTyJFWXIkOH0jcmTvOFfBwUI3p/J/c4Omi8uvB++xkbiHkNaQ5ZvtLXROaoOLyclLM29Zu5g9UfNtvjlglw+wBQSwME
LQAAAAgAAAAhAJFFJYH//////////wcAFABhMjQubnB5AQAQACABAAAAAAAAvQAAAAAAAACb7BfqGxDJyFDGUK2eklqcXKRupaBu
k2ahrqOgnpZfVFKUmBefX5SSChJ3S8wpTgWKF2ckFqQC+RomOgqmmjoKtQpkAy4GMPiw/9CO7wEG+sEOYG5DmMOPlTKMz2WCHArb
M89oPgl0gKnTa/t7ReJgrENCVkbr9YWBDtOkGiXfVQY4yH3USV+z3d/hQGFJRmxOMly9V/sxhsybSQ4GplsOvQ6Idzgiu8xw+QQr
uDw6zXNg293/s1Oh7khzAABQSwMELQAAAAgAAAAhADFCBUT//////////wcAFABhMjUubnB5AQAQACABAAAAAAAAawAAAAAAAACb
7BfqGxDJyFDGUK2eklqcXKRupaBuk2ahrqOgnpZfVFKUmBefX5SSChJ3S8wpTgWKF2ckFqQC+RomOgqmmjoKtQpkAy4GMPiwHy/d
EOZAqbqMp0vlusSTIPINbjjVhcgZq8luTYWqS3MAAFBLAwQtAAAACAAAACEAUtou5f//////////BwAUAGEyNi5ucHkBABAAIAEA
AAAAAAB/AAAAAAAAAJvsF+obEMnIUMZQrZ6SWpxcpG6loG6TZqGuo6Cell9UUpSYF59flJIKEndLzClOBYoXZyQWpAL5GiY6Cqaa
Ogq1CmQDLgYw+LAfFy33USd9zXZ/B0LqjsguM1w+wQunugVTp1dpxEU7nJ/Kp6N51hSnul3JFet+9KRC5BvSHABQSwMELQAAAAgA
AAAhAPXsda7//////////wcAFABhMjcubnB5AQAQACABAAAAAAAAaQAAAAAAAACb7BfqGxDJyFDGUK2eklqcXKRupaBuk2ahrqOg
npZfVFKUmBefX5SSChJ3S8wpTgWKF2ckFqQC+RomOgqmmjoKtQpkAy4GMPiwnyr0gwQHXPIGplsOvRZIcSCkzuoPm+3xm6kQ+YY0
BwBQSwMELQAAAAgAAAAhAJFFJYH//////////wcAFABhMjgubnB5AQAQACABAAAAAAAAvQAAAAAAAACb7BfqGxDJyFDGUK2eklqc
XKRupaBuk2ahrqOgnpZfVFKUmBefX5SSChJ3S8wpTgWKF2ckFqQC+RomOgqmmjoKtQpkAy4GMPiw/9CO7wEG+sEOYG5DmMOPlTKM
z2WCHArbM89oPgl0gKnTa/t7ReJgrENCVkbr9YWBDtOkGiXfVQY4yH3USV+z3d/hQGFJRmxOMly9V/sxhsybSQ4GplsOvQ6Idzgi
u8xw+QQruDw6zXNg293/s1Oh7khzAABQSwMELQAAAAgAAAAhAE2VjeD//////////wcAFABhMjkubnB5AQAQACABAAAAAAAAiQAA
AAAAAACb7BfqGxDJyFDGUK2eklqcXKRupaBuk2ahrqOgnpZfVFKUmBefX5SSChJ3S8wpTgWKF2ckFqQC+RomOgqmmjoKtQpkAy4G
MPiwH51m+Xrd8+XVSAe2GPkLgUxRDrjUwegg3w120xZH41RXopkVJS+Z7PB78QP9dX+DcKq7siW1c/aRVIh8Q5oDAFBLAwQtAAAA
CAAAACEA+OlqvP//////////BwAUAGEzMC5ucHkBABAAIAEAAAAAAADFAAAAAAAAAJvsF+obEMnIUMZQrZ6SWpxcpG6loG6TZqGu
o6Cell9UUpSYF59flJIKEndLzClOBYoXZyQWpAL5GiY6CqaaOgq1CmQDriOyywyXT7ByeOqxKzvxr5nD8u6Y2K9XTB0UI3p/J/cY
Ovi/7lnNuNnAgQEMPux3F053b3Wwdmj888RBapq+w3vZqiWFppoO5kflK9bPU4OoawiDq1899fdMdwkLB9HLLaaneVQcLlcoxEsc
F3Fgi5G/EMgUBVeHQje4Qc1JcwAAUEsDBC0AAAAIAAAAIQCuYj92//////////8HABQAYTMxLm5weQEAEAAgAQAAAAAAAJgAAAAA
AAAAm+wX6hsQychQxlCtnpJanFykbqWgbpNmoa6joJ6WX1RSlJgXn1+UkgoSd0vMKU4FihdnJBakAvkaJjoKppo6CrUKZAMuBjD4
sB9GGy8/5iYRkeTwY6UM43OZJIeQP43fX3kmOaCrg9HWEi8Fy42SHRbnBnkZNybjVNeqJ+tj9j3FoahCInB/YwpOdYqLdUryf6RC
5BvSHABQSwMELQAAAAgAAAAhAMrLtO7//////////wcAFABhMzIubnB5AQAQACABAAAAAAAAugAAAAAAAACb7BfqGxDJyFDGUK2e
klqcXKRupaBuk2ahrqOgnpZfVFKUmBefX5SSChJ3S8wpTgWKF2ckFqQC+RomOgqmmjoKtQpkAy4GMPiwv69cVUzigLXDtkfpLq2z
7R1g/L9Ll94uu+TgAFN350fF4zJnDwf+DuVc1Woth6rJJ2/uTDeCq695+3WCq1SKw8tJOWtTv5lD9DWkwfkip8UP771l4uBlwh5W
a5rikLj3wRmhFnO4vMCcCPui3BS4fQBQSwMELQAAAAgAAAAhAGz8bJH//////////wcAFABhMzMubnB5AQAQACABAAAAAAAAswAA
AAAAAACb7BfqGxDJyFDGUK2eklqcXKRupaBuk2ahrqOgnpZfVFKUmBefX5SSChJ3S8wpTgWKF2ckFqQC+RomOgqmmjoKtQpkAy4G
MPiwH0YfkV1muHyClcPqqb9nuktYOHAdUGhlr7d1gMknZGW0Xl/o6GB+VL5i/Tw1h8Y/TxykpunD1bvp1t2KOpbsYPMo8lxEvhFE
X0ManA+j20+6ynz8mOzQGBb3amGFMVzcwHTLodcCKXD7AFBLAwQtAAAACAAAACEAFAUmYf//////////BwAUAGEzNC5ucHkBABAA
IAEAAAAAAAC5AAAAAAAAAJvsF+obEMnIUMZQrZ6SWpxcpG6loG6TZqGuo6Cell9UUpSYF59flJIKEndLzClOBYoXZyQWpAL5GiY6
CqaaOgq1CmQDrsS9D84ItZg7LErVtrr+28ihmLvi3prfxnA+TJ4BDD7sP7V9vV8Bg5mDSdyzXxx1ig5bxHXtZvdowNWnHd/0TvNE
kkNUdOCj/XyaEH0NaXC+hGDctkd3dB2sJV4KlhslO/id3KYlfF0HLv//eTS//IUkuH0AUEsDBC0AAAAIAAAAIQCfMvqe////////
//8HABQAYTM1Lm5weQEAEAAgAQAAAAAAAKEAAAAAAAAAm+wX6hsQychQxlCtnpJanFykbqWgbpNmoa6joJ6WX1RSlJgXn1+UkgoS
d0vMKU4FihdnJBakAvkaJjoKppo6CrUKZAMuBjD4sB+FbnBzCAySMWuIdHKYVFVZorPC1QFVPszB5lHkuYh8IwfzbL4CT1tLuPqi
ConA/Y0pDjBzIHQaKh9ojlTWn1UePSkOCVkZrdcXOsLlE+9Ua8y4ngJXBwBQSwMELQAAAAgAAAAhAJ94ihD//////////wcAFABh
MzYubnB5AQAQACABAAAAAAAAuQAAAAAAAACb7BfqGxDJyFDGUK2eklqcXKRupaBuk2ahrqOgnpZfVFKUmBefX5SSChJ3S8wpTgWK
F2ckFqQC+RomOgqmmjoKtQpkAy7zbL4CT1tLhxObL8qWF5g4nJ/Kp6N51hTOh8mvnvp7pruEBZxfHSdev/WNksNbS6eK2jYtuHoP
m9OSr3WTHXQf/GroE9JxYACBhjQ4/2lFxTuuJ/oO3r0HeL7XJDs0/nniIDVNHy4/0+jfxbCIZIg+hg/7AVBLAwQtAAAACAAAACEA
ysu07v//////////BwAUAGEzNy5ucHkBABAAIAEAAAAAAAC6AAAAAAAAAJvsF+obEMnIUMZQrZ6SWpxcpG6loG6TZqGuo6Cell9U
UpSYF59flJIKEndLzClOBYoXZyQWpAL5GiY6CqaaOgq1CmQDLgYw+LC/r1xVTOKAtcO2R+kurbPtHWD8v0uX3i675OAAU3fnR8Xj
MmcPB/4O5VzVai2Hqsknb+5MN4Krr3n7dYKrVIrDy0k5a1O/mUP0NaTB+SKnxQ/vvWXi4GXCHlZrmuKQuPfBGaEWc7i8wJwI+6Lc
FLh9AFBLAwQtAAAACAAAACEACgSZP///////////BwAUAGEzOC5ucHkBABAAIAEAAAAAAADCAAAAAAAAAJvsF+obEMnIUMZQrZ6S
WpxcpG6loG6TZqGuo6Cell9UUpSYF59flJIKEndLzClOBYoXZyQWpAL5GiY6CqaaOgq1CmQDrr0vU4wjo1UdPp/Z+1jyq4IDf/mM
Y3OcFOB8mHztYTZ5AzUlB9vtj5eseyTl0GawbpVlM5/D5m9zp9h2i8LVn5/Kp6N51tRh6olCc7cZgg4MINCQBuc3/1P3ZGmQcdh6
9PTP7Sa2DjeCDojNExKHy7+1dKqobdOC6GP4sB8AUEsDBC0AAAAIAAAAIQBc+QR///////////8HABQAYTM5Lm5weQEAEAAgAQAA
AAAAAL4AAAAAAAAAm+wX6hsQychQxlCtnpJanFykbqWgbpNmoa6joJ6WX1RSlJgXn1+UkgoSd0vMKU4FihdnJBakAvkaJjoKppo6
CrUKZAOuean+M9P+BTs47yk4HRgZ7MAWI38hkCkKzofJ73PuN1m3LNLh//NofvkLSQ5yH3XS12z3d0jIymi9vjAQrp7vPLPsBOZU
h5A/jd9feSY5MIBAQxqcf0R2meHyCV4OTzZOj/L+n+KwYOr0Ko24aLh8YhNP2Y7AVLh5AFBLAwQtAAAACAAAACEA7cr3Yv//////
////BwAUAGE0MC5ucHkBABAAIAEAAAAAAAC/AAAAAAAAAJvsF+obEMnIUMZQrZ6SWpxcpG6loG6TZqGuo6Cell9UUpSYF59flJIK
EndLzClOBYoXZyQWpAL5GiY6CqaaOgq1CmQDrixf6Wsic1QcLlcoxEscF3FgAIGGNDgfJv9etmpJoammg+jlFtPTPAj1lX49C+/4
yjpk8Nb2y/5Wc0jIymi9vjDQgVNkpsDZ59oONo8iz0XkG8H5by2dKmrbtKD2hDkoRvT+Tu4xhKt7fOnUWvkbPg6qC+bOe6hq5AAA
UEsDBC0AAAAIAAAAIQBttzdD//////////8HABQAYTQxLm5weQEAEAAgAQAAAAAAAKUAAAAAAAAAm+wX6hsQychQxlCtnpJanFyk
bqWgbpNmoa6joJ6WX1RSlJgXn1+UkgoSd0vMKU4FihdnJBakAvkaJjoKppo6CrUKZAMuuY866Wu2+zswgECDG5ROg/NR5Bk+7M94
ulSuSzwJLr9g6vQqjThvh2lSjZLvKgMc5i31rd4emAJX72FzWvK1brJD9tO6Z4JtMXD1VjNMfnewItTB6Nf7zR9dPJsMFwcAUEsD
BC0AAAAIAAAAIQDUpxpg//////////8HABQAYTQyLm5weQEAEAAgAQAAAAAAALMAAAAAAAAAm+wX6hsQychQxlCtnpJanFykbqWg
bpNmoa6joJ6WX1RSlJgXn1+UkgoSd0vMKU4FihdnJBakAvkaJjoKppo6CrUKZAOuoMozM0pCnB3OT+XT0Txr6sAAAg1pcD5MHizO
8GH/gqnTqzTiouHyXAcUWtnrbR3CsljSdjx3cfC4dGbe6VfJcPVrHp65+WhVooPznoLTgZHBDg1hca8WVjg7zDrb7FKyAKEORofM
WvXjoiNCHABQSwMELQAAAAgAAAAhAOGgEpT//////////wcAFABhNDMubnB5AQAQACABAAAAAAAAjAAAAAAAAACb7BfqGxDJyFDG
UK2eklqcXKRupaBuk2ahrqOgnpZfVFKUmBefX5SSChJ3S8wpTgWKF2ckFqQC+RomOgqmmjoKtQpkAy4GMPiwH0w9SHAA0w1pDih8
mDyQNjDdcui1QApcHswPiIery54ccrZvUwqcv+OwyTMRoxQMc3p0Hs65kYEp/iekr6HYDyEOAFBLAwQtAAAACAAAACEAlKqxNv//
////////BwAUAGE0NC5ucHkBABAAIAEAAAAAAAC7AAAAAAAAAJvsF+obEMnIUMZQrZ6SWpxcpG6loG6TZqGuo6Cell9UUpSYF59f
lJIKEndLzClOBYoXZyQWpAL5GiY6CqaaOgq1CmQDLgYQaHBzOCK7zHD5BCsHCD8Nje/mME2qUfJdZYCDgemWQ68D4uHyCVkZrdcX
Ojqsnvp7pruEB0ReIAWqL8wh5E/j91eeSXD+pKrKEp0Vrg49eSEhiUeTHX6slGF8LhMEkWf4sL/i6GJVrrJkh6WfWcLO1fo5AABQ
SwMELQAAAAgAAAAhAKzQbnz//////////wcAFABhNDUubnB5AQAQACABAAAAAAAAuAAAAAAAAACb7BfqGxDJyFDGUK2eklqcXKRu
paBuk2ahrqOgnpZfVFKUmBefX5SSChJ3S8wpTgWKF2ckFqQC+RomOgqmmjoKtQpkAy7xhtzd/7eHOPxe/EB/3d8gBwYQaEiD82Hy
oQvDj6xXinYo0cyKkpdMhsvPS/WfmfYv2CE0iyVtx/MQh1uclo0hVSkQcxg+7C8xrdwStDTZ4Ruz55FWxgSHiBtRDkJdAQ5tacFx
a/QQ6mD05/3pVzRYEOIAUEsDBC0AAAAIAAAAIQDtyvdi//////////8HABQAYTQ2Lm5weQEAEAAgAQAAAAAAAL8AAAAAAAAAm+wX
6hsQychQxlCtnpJanFykbqWgbpNmoa6joJ6WX1RSlJgXn1+UkgoSd0vMKU4FihdnJBakAvkaJjoKppo6CrUKZAOuLF/payJzVBwu
VyjESxwXcWAAgYY0OB8m/162akmhqaaD6OUW09M8CPWVfj0L7/jKOmTw1vbL/lZzSMjKaL2+MNCBU2SmwNnn2g42jyLPReQbwflv
LZ0qatu0oPaEOShG9P5O7jGEq3t86dRa+Rs+DqoL5s57qGrkAABQSwMELQAAAAgAAAAhABEdR/j//////////wcAFABhNDcubnB5
AQAQACABAAAAAAAAyQAAAAAAAACb7BfqGxDJyFDGUK2eklqcXKRupaBuk2ahrqOgnpZfVFKUmBefX5SSChJ3S8wpTgWKF2ckFqQC
+RomOgqmmjoKtQpkA66045veaZ5IciiqkAjc35jiwAACDWlwPkzeWuKlYLlRskOrnqyP2fcUuDw7p9a3j/uTHWo2tOQtzU1yeP6t
ZGo4a6pDXeyBNOY9yQ4Nx3VX+t5IgfNPHlR0V8pPcFDL1TmnfjDF4cdKGcbnMkkQexk+7P8RHTJ7084UB6cZUbpHjiQ4AABQSwME
LQAAAAgAAAAhAFcAeIr//////////wcAFABhNDgubnB5AQAQACABAAAAAAAA3wAAAAAAAACb7BfqGxDJyFDGUK2eklqcXKRupaBu
k2ahrqOgnpZfVFKUmBefX5SSChJ3S8wpTgWKF2ckFqQC+RomOgqmmjoKtQpkA65i7op7a34bO/CI/D35RN7MQSwj0SFY2MHBNPnp
k3nzHRzOPLGctLvP2SEqOvDRfj5NB64DCq3s9bZw9Y56dyLXPLV1sM9WerAr18mBAQQa0hyeVlS843qi7/B78QP9dX+DHN4dE7T8
7uPisO1RukvrbHsHLe95m+zMUh1ELk9SdSkydBCye+ua5engMD/y6po7NokQcxg+7AcAUEsDBC0AAAAIAAAAIQCfGz5M////////
//8HABQAYTQ5Lm5weQEAEAAgAQAAAAAAAMkAAAAAAAAAm+wX6hsQychQxlCtnpJanFykbqWgbpNmoa6joJ6WX1RSlJgXn1+UkgoS
d0vMKU4FihdnJBakAvkaJjoKppo6CrUKZAMu86PyFevnqTm8l61aUmiq6SByeZKqS5Ghg6ldtNqOy8YOq6f+nukuYeFQYjrHMjpG
0sE2p0Liw3WEesWI3t/JPYYOXx6LbdPIMHNgAIGGNIfmf+qeLA0yDuen8ulonjWFiDN82I9CP0hwcF77u8f6jqJDSpxlQKm1vsOP
lTKMz2WC4OoBUEsDBC0AAAAIAAAAIQDZo0nU//////////8HABQAYTUwLm5weQEAEAAgAQAAAAAAAN8AAAAAAAAAm+wX6hsQychQ
xlCtnpJanFykbqWgbpNmoa6joJ6WX1RSlJgXn1+UkgoSd0vMKU4FihdnJBakAvkaJjoKppo6CrUKZAOuVylGPN67lR227+f5voVR
zeHEtq77v9X0HMqvzbkYlmHoIC8RuZLDwdRB2jgp7dkhUYc3N83nVzxRgqu/+FOLRfaAnoO/mG9V7k5jBwYQaEhz+LRw8m0LTgmH
tjypIh8pQ4d5nxWWdbcZOnx+sPnMon2GDnIfddLXbPd3mPDSN+D9OjmHWzYsQpm1Wg7MX697vrzqCTGH4cN+AFBLAwQtAAAACAAA
ACEAkI/S+v//////////BwAUAGE1MS5ucHkBABAAIAEAAAAAAADPAAAAAAAAAJvsF+obEMnIUMZQrZ6SWpxcpG6loG6TZqGuo6Ce
ll9UUpSYF59flJIKEndLzClOBYoXZyQWpAL5GiY6CqaaOgq1CmQDLt0Hvxr6hHQcUuIsA0qt9R1ObV/vV8Bg5jD14vdDh50sHLYe
Pf1zu4mtA3/5jGNznBQcGv88cZCapu/AAAYf9q9mcHpXMNHUgUXPvFbaxRoi3pDmUB0nXr/1jZLDJr4fiiE3HODqYfSOwybPRIxS
HGxzKiQ+XFdzOLH5omx5gYkDR9jjfxKPo+DqAVBLAwQtAAAACAAAACEAQ9wL9v//////////BwAUAGE1Mi5ucHkBABAAIAEAAAAA
AADJAAAAAAAAAJvsF+obEMnIUMZQrZ6SWpxcpG6loG6TZqGuo6Cell9UUpSYF59flJIKEndLzClOBYoXZyQWpAL5GiY6CqaaOgq1
CmQDrixf6Wsic1QcMnhr+2V/qzk0/nniIDVN30F1wdx5D1WNHHhE/p58Im/mcMDLctfS62IOopdbTE/zINRP2Ms0/zOngUNWXCiz
Uo+JAwMINKQ5lJjOsYyOkXSweRR5LiLfCIOGqAtzOOrgsidYUsGBU2SmwNnn2g6PL51aK3/DByLP8GE/AFBLAwQtAAAACAAAACEA
V2iCu///////////BwAUAGE1My5ucHkBABAAIAEAAAAAAADYAAAAAAAAAJvsF+obEMnIUMZQrZ6SWpxcpG6loG6TZqGuo6Cell9U
UpSYF59flJIKEndLzClOBYoXZyQWpAL5GiY6CqaaOgq1CmQDLueP7tcWp2k4sOjGLf6lq+1w+eDRnVVvjByk6ldpzPQ2dfiZ7slS
etbS4ebBszsklko7JF30anpTrwlXf2aubfOO+0YOXz9/n+fKZuHAAAINaQ6fPod8O5Up79B95Pq1GmNLh2VKBWZ7qswg8gwf9qcd
3/RO80SSw8Nwo3jXEmWHE6uOvBZTMXQIPR48fUtcKFwdAFBLAwQtAAAACAAAACEA3xqaqP//////////BwAUAGE1NC5ucHkBABAA
IAEAAAAAAADeAAAAAAAAAJvsF+obEMnIUMZQrZ6SWpxcpG6loG6TZqGuo6Cell9UUpSYF59flJIKEndLzClOBYoXZyQWpAL5GiY6
CqaaOgq1CmQDrgNelruWXhdzWBO1c35li6SD21W5D9rvFRyMwiuNggpUHN7LVi0pNNV06JA7FGogxeEQ+Obt8n5WYbj6lkiOU44/
FB3cpys9lPRRd2AAgYY0h3kWsse8Cjgd9nR8NniVIOdQHSdev/WNksN/xvLa/omqDiWmcyyjYyQdgoI9Q36wCTosPGa13ydYxmHC
Xqb5nzkNIOYwfNgPAFBLAwQtAAAACAAAACEAVwB4iv//////////BwAUAGE1NS5ucHkBABAAIAEAAAAAAADfAAAAAAAAAJvsF+ob
EMnIUMZQrZ6SWpxcpG6loG6TZqGuo6Cell9UUpSYF59flJIKEndLzClOBYoXZyQWpAL5GiY6CqaaOgq1CmQDrmLuintrfhs78Ij8
PflE3sxBLCPRIVjYwcE0+emTefMdHM48sZy0u8/ZISo68NF+Pk0HrgMKrez1tnD1jnp3Itc8tXWwz1Z6sCvXyYEBBBrSHJ5WVLzj
eqLv8HvxA/11f4Mc3h0TtPzu4+Kw7VG6S+tsewct73mb7MxSHUQuT1J1KTJ0ELJ765rl6eAwP/Lqmjs2iRBzGD7sBwBQSwMELQAA
AAgAAAAhAF3D607//////////wcAFABhNTYubnB5AQAQACABAAAAAAAAewAAAAAAAACb7BfqGxDJyFDGUK2eklqcXKRupaBuk2ah
rqOgnpZfVFKUmBefX5SSChJ3S8wpTgWKF2ckFqQC+RomOgqmmjoKtQpkAy4GMPiwnyT6QYIDLnkdVwN3m6RUB5g6A9Mth14LpGCo
X2Wqd8npJFRdQxpc/b/AD+LX9yHUAwBQSwMELQAAAAgAAAAhAF3D607//////////wcAFABhNTcubnB5AQAQACABAAAAAAAAewAA
AAAAAACb7BfqGxDJyFDGUK2eklqcXKRupaBuk2ahrqOgnpZfVFKUmBefX5SSChJ3S8wpTgWKF2ckFqQC+RomOgqmmjoKtQpkAy4G
MPiwnyT6QYIDLnkdVwN3m6RUB5g6A9Mth14LpGCoX2Wqd8npJFRdQxpc/b/AD+LX9yHUAwBQSwMELQAAAAgAAAAhADIcqRn/////
/////wcAFABhNTgubnB5AQAQACABAAAAAAAAiAAAAAAAAACb7BfqGxDJyFDGUK2eklqcXKRupaBuk2ahrqOgnpZfVFKUmBefX5SS
ChJ3S8wpTgWKF2ckFqQC+RomOgqmmjoKtQpkAy4GMPiwn1iaLUb+QiBTlAMu+ZSNJ3O8tFId5D7qpK/Z7u/w/3k0v/yFJAz1f5YG
sniuTIWIN6TB1Rts2lO4LSYFrh4AUEsDBC0AAAAIAAAAIQDGXeaz//////////8HABQAYTU5Lm5weQEAEAAgAQAAAAAAAH8AAAAA
AAAAm+wX6hsQychQxlCtnpJanFykbqWgbpNmoa6joJ6WX1RSlJgXn1+UkgoSd0vMKU4FihdnJBakAvkaJjoKppo6CrUKZAMuBjD4
sJ9adM/cz1ITp6Y67Dhs8kzEKMUh8U61xozrKQ7o6pj4fe0nPE+FiDekwdWvYa7jEBVLhasHAFBLAwQtAAAACAAAACEAL1XiAv//
////////BwAUAGE2MC5ucHkBABAAIAEAAAAAAACMAAAAAAAAAJvsF+obEMnIUMZQrZ6SWpxcpG6loG6TZqGuo6Cell9UUpSYF59f
lJIKEndLzClOBYoXZyQWpAL5GiY6CqaaOgq1CmQDLgYw+LAfRv9YKcP4XCbIAV0cRhe2Z57RVInFKX9+03IfY/tUiHxDmMNMo38X
wyKSMdSHyBmryW6FqUuDqy+qkAjc35gCVw8AUEsDBC0AAAAIAAAAIQAyNgtW//////////8HABQAYTYxLm5weQEAEAAgAQAAAAAA
AIgAAAAAAAAAm+wX6hsQychQxlCtnpJanFykbqWgbpNmoa6joJ6WX1RSlJgXn1+UkgoSd0vMKU4FihdnJBakAvkaJjoKppo6CrUK
ZAMuBjD4sJ9YOuHYzYPy/xMdcMln/dzy41l5qkPa8U3vNE8kOQjMibAvyk3BUL/U/7Xt+6upEPGGNLj6ug27/vx/jFAPAFBLAwQt
AAAACAAAACEA1q8cI///////////BwAUAGE2Mi5ucHkBABAAIAEAAAAAAAC/AAAAAAAAAJvsF+obEMnIUMZQrZ6SWpxcpG6loG6T
ZqGuo6Cell9UUpSYF59flJIKEndLzClOBYoXZyQWpAL5GiY6CqaaOgq1CmQDrgl7meZ/5jRwCCjTeT2vSc9BMaL3d3KPoYPqgrnz
HqoaOXjcf2ybLG7qwAAGH/brPvjV0Cek45DBW9sv+1vNwe/kNi3h6zpw9QumTq/SiPN2KDGdYxkdI+nw1tKporZNy4FTZKbA2efa
cHPAVEMYhN+QBlcP4bvB1QEAUEsDBC0AAAAIAAAAIQCu/Nfj//////////8HABQAYTYzLm5weQEAEAAgAQAAAAAAAIcAAAAAAAAA
m+wX6hsQychQxlCtnpJanFykbqWgbpNmoa6joJ6WX1RSlJgXn1+UkgoSd0vMKU4FihdnJBakAvkaJjoKppo6CrUKZAMuBjD4sJ9Y
2mDTnsJtMSkOuORX/f+esfBAqoOW97xNdmapDolNPGU7AlMx1L8zOc9xkDENIt6QBlffpD+5WCYWoR4AUEsDBC0AAAAIAAAAIQD0
3Hi0//////////8HABQAYTY0Lm5weQEAEAAgAQAAAAAAAK4AAAAAAAAAm+wX6hsQychQxlCtnpJanFykbqWgbpNmoa6joJ6WX1RS
lJgXn1+UkgoSd0vMKU4FihdnJBakAvkaJjoKppo6CrUKZAMuBjD4sB9GO+8pOB0YGewwqaqyRGeFq8Mmvh+KITccHGDyhe2ZZzRV
Yh2OyC4zXD7BC1W+Ic1hQsN69U/OyXD1NRta8pbmJjksmDq9SiMu2uH8VD4dzbOmDk5gexDqYLSGJp/0gZwUuPkAUEsDBC0AAAAI
AAAAIQBMz5yi//////////8HABQAYTY1Lm5weQEAEAAgAQAAAAAAAJUAAAAAAAAAm+wX6hsQychQxlCtnpJanFykbqWgbpNmoa6j
oJ6WX1RSlJgXn1+UkgoSd0vMKU4FihdnJBakAvkaJjoKppo6CrUKZAMuBjD4sB9GZz+teybYFuMA5jaEodIwdQ8SsMs3pDk0Kdu+
/LUpGa7eu/cAz/eaZIeMp0vlusSToOrcHOpiD6Qx70lGNRdIH8j7ptd8MAVuLgBQSwMELQAAAAgAAAAhAPTceLT//////////wcA
FABhNjYubnB5AQAQACABAAAAAAAArgAAAAAAAACb7BfqGxDJyFDGUK2eklqcXKRupaBuk2ahrqOgnpZfVFKUmBefX5SSChJ3S8wp
TgWKF2ckFqQC+RomOgqmmjoKtQpkAy4GMPiwH0Y77yk4HRgZ7DCpqrJEZ4Wrwya+H4ohNxwcYPKF7ZlnNFViHY7ILjNcPsELVb4h
zWFCw3r1T87JcPU1G1ryluYmOSyYOr1KIy7a4fxUPh3Ns6YOTmB7EOpgtIYmn/SBnBS4+QBQSwMELQAAAAgAAAAhANnx1Zf/////
/////wcAFABhNjcubnB5AQAQACABAAAAAAAAjAAAAAAAAACb7BfqGxDJyFDGUK2eklqcXKRupaBuk2ahrqOgnpZfVFKUmBefX5SS
ChJ3S8wpTgWKF2ckFqQC+RomOgqmmjoKtQpkAy4GMPiwH53OeLpUrks8ycHD5rTka91kB1zqUOQb0hzqdrptMFFMgatXiNh3U8oz
xcHAdMuh1wJQ8QcJOM3T0udQ9xNIhasDAFBLAwQtAAAACAAAACEAdfROqv//////////BwAUAGE2OC5ucHkBABAAIAEAAAAAAAC/
AAAAAAAAAJvsF+obEMnIUMZQrZ6SWpxcpG6loG6TZqGuo6Cell9UUpSYF59flJIKEndLzClOBYoXZyQWpAL5GiY6CqaaOgq1CmQD
LgepyAk14sEOP1bKMD6XCXJgAIGGMIcFU6dXacR5Q/lucPFI9j8CWm/iHOQ+6qSv2e6PJp/mcKCwJCM2J9mBI+zxP4nHUQ5e7ccY
Mm8mORiYbjn0OiDe4YjsMsPlE6wcvHsP8HyvSYboY/iwH2JftINU1p9VHj0pcPMBUEsDBC0AAAAIAAAAIQA+705B//////////8H
ABQAYTY5Lm5weQEAEAAgAQAAAAAAALMAAAAAAAAAm+wX6hsQychQxlCtnpJanFykbqWgbpNmoa6joJ6WX1RSlJgXn1+UkgoSd0vM
KU4FihdnJBakAvkaJjoKppo6CrUKZAMuBjD4sB9Gf2P2PNLKmODgWTD7B29NrIPcR530NdvjHWDyax6eufloVaJDkO8Gu2mLo1Hl
G9Ic/pQnL216kAxX/+fOlVf/ric7lGhmRclLJjv8XvxAf93fIIcbzs27TZ8i1MForukXhVc+SoGbDwBQSwMELQAAAAgAAAAhAPaP
BCz//////////wcAFABhNzAubnB5AQAQACABAAAAAAAA0gAAAAAAAACb7BfqGxDJyFDGUK2eklqcXKRupaBuk2ahrqOgnpZfVFKU
mBefX5SSChJ3S8wpTgWKF2ckFqQC+RomOgqmmjoKtQpkA64vj8W2aWSYOShG9P5O7jF04BSZKXD2ubbDUQeXPcGSCg4HvCx3Lb0u
5vByUs7a1G/mDoZZHy9fMzJ3MD8qX7F+nhpcngEEGtKgdJjDagandwUTTR1WT/09013CwkH0covpaR4Vh8sVCvESx0Uc9jn3m6xb
FglRz/Bhf2NY3KuFFcYO06QaJd9VBsDNBwBQSwMELQAAAAgAAAAhANPd84v//////////wcAFABhNzEubnB5AQAQACABAAAAAAAA
1gAAAAAAAACb7BfqGxDJyFDGUK2eklqcXKRupaBuk2ahrqOgnpZfVFKUmBefX5SSChJ3S8wpTgWKF2ckFqQC+RomOgqmmjoKtQpk
Ay5Wl4jzogaJDj9WyjA+l0lyqIs9kMa8J9lh3lLf6u2BKQ5er24xirxPcUg4dvOg/P9EBzfdultRx5IdFucGeRk3JsPlGUCgIc3B
5O3kRXwtKQ4hs1b9uOiY7GC0536e5o0Uh1Y9WR+z7ykORRUSgfsbUxyeCdyc/KcGqo/hw/6QF8nLavuTHWwq/rDzBKfCzQcAUEsD
BC0AAAAIAAAAIQAWrywc//////////8HABQAYTcyLm5weQEAEAAgAQAAAAAAAJoAAAAAAAAAm+wX6hsQychQxlCtnpJanFykbqWg
bpNmoa6joJ6WX1RSlJgXn1+UkgoSd0vMKU4FihdnJBakAvkaJjoKppo6CrUKZAOuBVOnV2nEeTswgECDG5QOg9AMH/b/WCnD+Fwm
CFW8IQ2uXu6jTvqa7f4Ohe2ZZzSfBDrouBq42ySlQuQfJDgYmG459FogBW4ejFaK2/F0xRtMcXT1AFBLAwQtAAAACAAAACEAKaYV
uv//////////BwAUAGE3My5ucHkBABAAIAEAAAAAAAC0AAAAAAAAAJvsF+obEMnIUMZQrZ6SWpxcpG6loG6TZqGuo6Cell9UUpSY
F59flJIKEndLzClOBYoXZyQWpAL5GiY6CqaaOgq1CmQDLvNsvgJPW0sHm0eR5yLyjRwSsjJary90dAgMkjFriHRycNj7+Imoo7vD
EdllhssnWDkwgEBDGlz9Jr4fiiE3HKDibg42lRX/GoRS4fyMp0vlusSTIHyGD/thtFTWn1UePSlwdTDxmUb/LoZFJMP5AFBLAwQt
AAAACAAAACEAX28KD///////////BwAUAGE3NC5ucHkBABAAIAEAAAAAAADJAAAAAAAAAJvsF+obEMnIUMZQrZ6SWpxcpG6loG6T
ZqGuo6Cell9UUpSYF59flJIKEndLzClOBYoXZyQWpAL5GiY6CqaaOgq1CmQDLpHLk1RdigwdoqIDH+3n03Q4tX29XwGDmYOm3fYC
9xwrB8WI3t/JPY4OTysq3nE90XdgAIGGNLj6l5Ny1qZ+M3fYxPdDMeSGg0P25JCzfZtSHM5P5dPRPGvqsGDq9CqNuGiIPoYP+2G0
z+RdEq0KKQ43jmR2bdhnC5f/tfS5vnZ1EpwPAFBLAwQtAAAACAAAACEAFq8sHP//////////BwAUAGE3NS5ucHkBABAAIAEAAAAA
AACaAAAAAAAAAJvsF+obEMnIUMZQrZ6SWpxcpG6loG6TZqGuo6Cell9UUpSYF59flJIKEndLzClOBYoXZyQWpAL5GiY6CqaaOgq1
CmQDrgVTp1dpxHk7MIBAgxuUDoPQDB/2/1gpw/hcJghVvCENrl7uo076mu3+DoXtmWc0nwQ66LgauNskpULkHyQ4GJhuOfRaIAVu
HoxWitvxdMUbTHF09QBQSwMELQAAAAgAAAAhAPYGC17//////////wcAFABhNzYubnB5AQAQACABAAAAAAAAygAAAAAAAACb7Bfq
GxDJyFDGUK2eklqcXKRupaBuk2ahrqOgnpZfVFKUmBefX5SSChJ3S8wpTgWKF2ckFqQC+RomOgqmmjoKtQpkA67GsLhXCyuMHXQf
/GroE9JxMM/mK/C0tXTYevT0z+0mtg5/uTS2iWk5O9g8ijwXkW/kwAACDWlw9Udklxkun2AFlXdySLxTrTHjegpc3MB0y6HXAfEO
q6f+nuku4eEgq2sa9EDdwUEhYt9NKc8Uh018PxRDbjjA5f8/j+aXv5AEsYfhw34AUEsDBC0AAAAIAAAAIQCPuFez//////////8H
ABQAYTc3Lm5weQEAEAAgAQAAAAAAAM8AAAAAAAAAm+wX6hsQychQxlCtnpJanFykbqWgbpNmoa6joJ6WX1RSlJgXn1+UkgoSd0vM
KU4FihdnJBakAvkaJjoKppo6CrUKZAMusYxEh2BhB4eXk3LWpn4zd7jzo+JxmbOHQ7HVlwDLTDcHuSSR/pUe3g5BlWdmlIQ4OzCA
QEMaXL35MtWL4hddHI7ILjNcPsHLwW6mYZaQaarD78UP9Nf9DXIo0cyKkpdMdgjNYknb8TwEop/hw/6K+5893LamOOxalTDL/78P
XFwg7rde9YpkOB8AUEsDBC0AAAAIAAAAIQBvm/i+//////////8HABQAYTc4Lm5weQEAEAAgAQAAAAAAANcAAAAAAAAAm+wX6hsQ
ychQxlCtnpJanFykbqWgbpNmoa6joJ6WX1RSlJgXn1+UkgoSd0vMKU4FihdnJBakAvkaJjoKppo6CrUKZAMu9WdfdvRclXCYeqLQ
3G2GoIPt9sdL1j2ScrimZHr4c4uyw+L5n/q/hGs7XJaPE/vBK+zAAAINaXD1JnHPfnHUKTq8WdWUafdX08E8m6/A09bS4XKFQrzE
cREH0cstpqd5VBwyeGv7ZX+rOXSe8ltzrUTTYfXU3zPdJTwcquPE67e+UYLLJ2RltF5f6Aixh+HDfgBQSwMELQAAAAgAAAAhAK4E
D/X//////////wcAFABhNzkubnB5AQAQACABAAAAAAAA2AAAAAAAAACb7BfqGxDJyFDGUK2eklqcXKRupaBuk2ahrqOgnpZfVFKU
mBefX5SSChJ3S8wpTgWKF2ckFqQC+RomOgqmmjoKtQpkA66YhQ8ffRFNdAj50/j9lWeSw//n0fzyF5IcjnY+jdvwLc7hyaVTa+Vv
xDi46dbdijqW7MAAAg1pcPVyH3XS12yPdyhszzyjqRLrYJez+tny+akORRUSgfsbUxxa9WR9zL6nONRsaMlbmpvkYMDtaMmxP8Kh
W+7U3WLrVIc1D8/cfLQqES4/JYTdacLcFIg9DB/2AwBQSwMELQAAAAgAAAAhAN6qgAz//////////wcAFABhODAubnB5AQAQACAB
AAAAAAAAvgAAAAAAAACb7BfqGxDJyFDGUK2eklqcXKRupaBuk2ahrqOgnpZfVFKUmBefX5SSChJ3S8wpTgWKF2ckFqQC+RomOgqm
mjoKtQpkAy4GEGhIczgiu8xw+QQrBwg/zMHvI/u91eo+DnIfddLXbPeHi9+ZxCkxlznB4ZaV7H72jECHh4p+TLFHAh3e5nwVuKUZ
5NDX/nydw70kBylpjpuhAZFw9Uprmbx4zCLh+sDmMXzYD6Pffr+w8XpihMOPM4ujdDgT4fIAUEsDBC0AAAAIAAAAIQBaIUui////
//////8HABQAYTgxLm5weQEAEAAgAQAAAAAAALwAAAAAAAAAm+wX6hsQychQxlCtnpJanFykbqWgbpNmoa6joJ6WX1RSlJgXn1+U
kgoSd0vMKU4FihdnJBakAvkaJjoKppo6CrUKZAMuBjD4sB9Gpx3f9E7zRJJDyJ/G7688kxzAwg1pDjD5h4p+TLFHEh2qzl07pZoS
5XBAt0lcfmaUwxWrx1kH1kQ5ZF+codehkwxXv6xrxb+HvokOfhdVe4zWxMLFK9OFTi8KTHJAt3/2ksr/104nOqyZsji66m24AwBQ
SwMELQAAAAgAAAAhAD+/4Cb//////////wcAFABhODIubnB5AQAQACABAAAAAAAA5gAAAAAAAACb7BfqGxDJyFDGUK2eklqcXKRu
paBuk2ahrqOgnpZfVFKUmBefX5SSChJ3S8wpTgWKF2ckFqQC+RomOgqmmjoKtQpkAy7ftUXMicuNHU5OK87csNHYYUnrMvZfO0wc
xNl3H9RlNnHoFL4cJ+pp4qD74FdDn5COwxtLz8/8RvoOT853L9jhre0gcq88x/e1tkNU+rKmf4d1HO4l/D90YramQ2vcYfG/E+Uc
1v6ImPtWStkh8cefdxOLFB0a3zkz+/QrODCAQEOaw+Ys6w13X36z75A7FGogxeHQ/E/dk6VBBiLP8GE/AFBLAwQtAAAACAAAACEA
8Zx0Mf//////////BwAUAGE4My5ucHkBABAAIAEAAAAAAACQAAAAAAAAAJvsF+obEMnIUMZQrZ6SWpxcpG6loG6TZqGuo6Cell9U
UpSYF59flJIKEndLzClOBYoXZyQWpAL5GiY6CqaaOgq1CmQDLgYw+LAfnd7z9VyChFWcw6/FD/TX2cY54FL37y1zFl91gkPb9xV2
0+sTcKo7whXqvupSssOL0o/hp/mScKqbJ1r8S94mDSLfkOYAAFBLAwQtAAAACAAAACEA9gC4Tf//////////BwAUAGE4NC5ucHkB
ABAAIAEAAAAAAADCAAAAAAAAAJvsF+obEMnIUMZQrZ6SWpxcpG6loG6TZqGuo6Cell9UUpSYF59flJIKEndLzClOBYoXZyQWpAL5
GiY6CqaaOgq1CmQDLgYw+LAfRq9vM07vXu3pEL+8KcxukpuD5cUzu54fd3OAyU/acnN+90dPhyOyywyXT7By8Fj9Rj+JxdpBpbDc
aZ6vjcMa5joOUbFUh+o48fqtb5Qg+hrS4HwYbX9ogsjMqmSHfadua81ydHB49kH6i8xzZ4cAXs/SmflJcPsAUEsDBC0AAAAIAAAA
IQAIuq0g//////////8HABQAYTg1Lm5weQEAEAAgAQAAAAAAALcAAAAAAAAAm+wX6hsQychQxlCtnpJanFykbqWgbpNmoa6joJ6W
X1RSlJgXn1+UkgoSd0vMKU4FihdnJBakAvkaJjoKppo6CrUKZAOu81P5dDTPmjqYH5WvWD9PzYEBBBrS4HyYPFic4cP+p7/Elyi6
RULVuTlYXjyz6/lxNwemiWWz7ve7O/Qt4XznZJkEV1/YnnlGUyXW4daHzrdBIqEOk1SSe6OPeDuwJB+blOOVCFcHo6/p311gH50A
FwcAUEsDBC0AAAAIAAAAIQCttuG+//////////8HABQAYTg2Lm5weQEAEAAgAQAAAAAAANYAAAAAAAAAm+wX6hsQychQxlCtnpJa
nFykbqWgbpNmoa6joJ6WX1RSlJgXn1+UkgoSd0vMKU4FihdnJBakAvkaJjoKppo6CrUKZAMu19D5qRsYHByufPTmlBZ0cPBPqPjE
x+nkcKQnWoV9goMDlyeXkcJPBwfftUXMicuNHTxWv9FPYrF2WJHrsFdwlpFDDEO4DDObicN/v1iThedNHRhAoCHN4bJ8nNgPXmEH
m0eR5yLyjSDiDB/2w+jjzD8PWbQlOoix7z6oy2ziwPGuMtpc28JB/t7Gv4uso+HqAVBLAwQtAAAACAAAACEAtYPhvv//////////
BwAUAGE4Ny5ucHkBABAAIAEAAAAAAACNAAAAAAAAAJvsF+obEMnIUMZQrZ6SWpxcpG6loG6TZqGuo6Cell9UUpSYF59flJIKEndL
zClOBYoXZyQWpAL5GiY6CqaaOgq1CmQDLgYw+LAfRh8IdzrAODvEAV0cRi//wfz+anAkTnm/d/81o7xSIPINYQ5aoYfsm0oSMdTL
dT+/YieVBlWXBlc/oWKa8bXqVLh6AFBLAwQtAAAACAAAACEAxWZ6pv//////////BwAUAGE4OC5ucHkBABAAIAEAAAAAAADBAAAA
AAAAAJvsF+obEMnIUMZQrZ6SWpxcpG6loG6TZqGuo6Cell9UUpSYF59flJIKEndLzClOBYoXZyQWpAL5GiY6CqaaOgq1CmQDLgYw
+LAfRkcVMHtEH4xzOKDbJC4/M8rhitXjrANrohxg8m66dbeijiU7yH3USV+zPd4h5E/j91eeSRD5hjQHjrlMJt65KXD1KZdvM3PF
Jju0ia7qC1FNdAjNjlnSKhTq8DokWEgkJ9kB3f61PV1ODeLJDmkqQQI/FkY4AABQSwMELQAAAAgAAAAhAJ1rtVz//////////wcA
FABhODkubnB5AQAQACABAAAAAAAA5wAAAAAAAACb7BfqGxDJyFDGUK2eklqcXKRupaBuk2ahrqOgnpZfVFKUmBefX5SSChJ3S8wp
TgWKF2ckFqQC+RomOgqmmjoKtQpkAy7N6/sVeA3VHDi+h51NPqrqsKJ3PYfLX3WH7j/SrV7p6g4t0iKLn7prOty7+eRSphizAwMI
NKQ5xMv8OPF6HqPD1BOF5m4zBB3cPHf4vAyWcohc/Y3hu66Lw72E/4dOzNZ0mNrLsEFvraHDhA8zspybtB0unjRm+Nmm7nDgqLnb
X6FAB/Oj8hXr55k5nH4RzmvQa+EwacvN+d0fPSH2MHzYDwBQSwMELQAAAAgAAAAhAFHFujj//////////wcAFABhOTAubnB5AQAQ
AHABAAAAAAAA8gAAAAAAAACb7BfqGxDJyFDGUK2eklqcXKRupaBuk2ahrqOgnpZfVFKUmBefX5SSChJ3S8wpTgWKF2ckFqQC+Rqm
OgpmmjoKtQpkAy4GEGhIc/B6dYtR5H2Kw+LcIC/jxmSHkD+N3195JjkUT9vGvcs70aHt+wq76fUJcHXzlvpWbw9McbCWeClYbpTs
8GOlDONzmSQHVpeI86IGiQ4KYY8KducmwM2Dqfu19Lm+dnWSg5/odoamlYkOKR8Prd74NMEhbIJ9vpNNAtxemHkwdTELHz76Iopw
h1BrIqPOq3i4+2D2wsyDqWP72MoqKJDgwKJ+ZWmwW7wDAFBLAwQtAAAACAAAACEAwu5Rl///////////BwAUAGE5MS5ucHkBABAA
cAEAAAAAAABTAAAAAAAAAJvsF+obEMnIUMZQrZ6SWpxcpG6loG6TZqGuo6Cell9UUpSYF59flJIKEndLzClOBYoXZyQWpAL5GqY6
CmaaOgq1CmQDLgYQaAhzII5OI1Ld4KUBUEsDBC0AAAAIAAAAIQDI9Vfd//////////8HABQAYTkyLm5weQEAEABwAQAAAAAAAPMA
AAAAAAAAm+wX6hsQychQxlCtnpJanFykbqWgbpNmoa6joJ6WX1RSlJgXn1+UkgoSd0vMKU4FihdnJBakAvkapjoKZpo6CrUKZAOu
dZv8D2bGBDrUWj9w6WoIdFgTt8I64G6gg85Rman2wUEOhyI9DDtOBjnM3Wdxxsgk2EHuo076mu3+DrK6pkEP1AMcor0zEkNvBTgk
ZGW0Xl+I0Fc7NWHq1idBDkdklxkun+DlUPrGxGm+kI9DnvxJvifs/nB9MPvaDDVNb80OctjE90Mx5IaDw6SqyhKdFa5wfTD7YO60
v1T74kFakAMDCDSkwfXB7IO5E+Y/mLsAUEsDBC0AAAAIAAAAIQAyKkbY//////////8HABQAYTkzLm5weQEAEABwAQAAAAAAAGUA
AAAAAAAAm+wX6hsQychQxlCtnpJanFykbqWgbpNmoa6joJ6WX1RSlJgXn1+UkgoSd0vMKU4FihdnJBakAvkapjoKZpo6CrUKZAMu
BjD4sH+o0BlPl8p1iSc5eNiclnytm+xASD2KuoY0BwBQSwMELQAAAAgAAAAhAELj6uf//////////wcAFABhOTQubnB5AQAQAHAB
AAAAAAAAmwAAAAAAAACb7BfqGxDJyFDGUK2eklqcXKRupaBuk2ahrqOgnpZfVFKUmBefX5SSChJ3S8wpTgWKF2ckFqQC+RqmOgpm
mjoKtQpkAy4muQk7X84PckjIymi9vjDQYZpUo+S7ygAHuY866Wu2+8P5MPkfK2UYn8sEwcUXTJ1epRHn7cAAAg1ucD5MvrA984zm
k0C4eTB1EDoNzofJk2o+qe4HAFBLAwQtAAAACAAAACEAnSWx/P//////////BwAUAGE5NS5ucHkBABAAcAEAAAAAAADRAAAAAAAA
AJvsF+obEMnIUMZQrZ6SWpxcpG6loG6TZqGuo6Cell9UUpSYF59flJIKEndLzClOBYoXZyQWpAL5GqY6CmaaOgq1CmQDLrYY+QuB
TFEOQb4b7KYtjnaQ+6iTvmZ7vAMDCDSkwfkweZav1z1fXo10CF0YfmS9UrSDZ8HsH7w1sXB1MD5M/sqjTG7ugkgHu2Xbz5WbRcHF
YebB+DD55Fkb0mYyRsL1weyDuRPGh8mnqQQJ/FgY4eDK+OGv18MIh3+tIc3nhCMdQipm5a1Qj4TzYfIAUEsDBC0AAAAIAAAAIQB0
K15Q//////////8HABQAYTk2Lm5weQEAEABwAQAAAAAAAMkAAAAAAAAAm+wX6hsQychQxlCtnpJanFykbqWgbpNmoa6joJ6WX1RS
lJgXn1+UkgoSd0vMKU4FihdnJBakAvkapjoKZpo6CrUKZAMu86PyFevnqTm8l61aUmiq6dD454mD1DR9B1O7aLUdl40dVk/9PdNd
wsJBpbDcaZ6vjcMBL8tdS6+LORx1cNkTLKkA16cY0fs7ucfQ4ctjsW0aGWYOHqvf6CexWDswgEBDGlwfzD7/1z2rGTcbOJyfyqej
edbU4YjsMsPlE6xINp9U9wMAUEsDBC0AAAAIAAAAIQD/dI6l//////////8HABQAYTk3Lm5weQEAEABwAQAAAAAAANIAAAAAAAAA
m+wX6hsQychQxlCtnpJanFykbqWgbpNmoa6joJ6WX1RSlJgXn1+UkgoSd0vMKU4FihdnJBakAvkapjoKZpo6CrUKZAOulI+HVm98
muDA6hJxXtQg0aF42jbuXd6JcD5Mvu37Crvp9QkOfqLbGZpWJjr8WCnD+FwmySHkT+P3V55JcD5MPmbhw0dfRBMdfi19rq9dneRg
LfFSsNwo2WFxbpCXcWMynA+Th+mDic9b6lu9PTDFwevVLUaR9ylwPkweZh/MPJg6BhBoSIPzYfIwdwIAUEsDBC0AAAAIAAAAIQDs
y/hV//////////8HABQAYTk4Lm5weQEAEABwAQAAAAAAAFMAAAAAAAAAm+wX6hsQychQxlCtnpJanFykbqWgbpNmoa6joJ6WX1RS
lJgXn1+UkgoSd0vMKU4FihdnJBakAvkapjoKZpo6CrUKZAMuBhBoCHOgDZ1GI3PJpwFQSwMELQAAAAgAAAAhAJ8aEBj/////////
/wcAFABhOTkubnB5AQAQAHABAAAAAAAAygAAAAAAAACb7BfqGxDJyFDGUK2eklqcXKRupaBuk2ahrqOgnpZfVFKUmBefX5SSChJ3
S8wpTgWKF2ckFqQC+RqmOgpmmjoKtQpkA65JVZUlOitcHTbx/VAMueHgAOOXvjFxmi/k4yCraxr0QD3Aodb6gUtXQyBcHQMINKTB
+Udklxkun+DlIPdRJ33Ndn+HdZv8D2bGBDqQaj5MHGYejJ8nf5LvCbu/Q7R3RmLorQCHNXErrAPuBsL1w+yF8WHqErIyWq8vDHTQ
OSoz1T44yAEAUEsDBC0AAAAIAAAAIQBTGRlK//////////8IABQAYTEwMC5ucHkBABAAcAEAAAAAAABvAAAAAAAAAJvsF+obEMnI
UMZQrZ6SWpxcpG6loG6TZqGuo6Cell9UUpSYF59flJIKEndLzClOBYoXZyQWpAL5GqY6CmaaOgq1CmQDLgYQaEhz+Bf4Qfz6vhQH
MJ/hw35cdIicsZqsaILDnUmcEnOZEwiqH2w0AFBLAwQtAAAACAAAACEATfI71P//////////CAAUAGExMDEubnB5AQAQAHABAAAA
AAAAMQEAAAAAAACb7BfqGxDJyFDGUK2eklqcXKRupaBuk2ahrqOgnpZfVFKUmBefX5SSChJ3S8wpTgWKF2ckFqQC+RqmOgpmmjoK
tQpkA66eqD9btvIEOsh91Elfs93fwe8j+73V6j4ODCDQ4OZwRHaZ4fIJVlB+mkNBwuPtNr1BDm9zvgrc0gxyeKjoxxR7JNDhlpXs
fvaMQId20VV9IaqBDjBzxW2n7H7+LdjhX+O9lXvuBTvcC/q79fPJYAdp1hfR93YGOzx78l1t1fpgh0j2PwJaa4IdGC6sPzJ3U4iD
0+056jqrQhxk9q4Jclsc4iDMoe+nMS/E4UC40wHG2SEOJcc/xHycGeKgsCO7PVY21GHF/qinkyRDHa7JbebtEgt1uPWh822QSKiD
a5rq7J9CoQ6h2TFLWoE0AFBLAwQtAAAACAAAACEA3QYlqf//////////CAAUAGExMDIubnB5AQAQAHABAAAAAAAAMwEAAAAAAACb
7BfqGxDJyFDGUK2eklqcXKRupaBuk2ahrqOgnpZfVFKUmBefX5SSChJ3S8wpTgWKF2ckFqQC+RqmOgpmmjoKtQpkA66Vm7/VNE4K
dwjyU1TWAtI8LavY1CaGOyTdC79T1R/uMD/B8qhhb7jD4jLVE2Fd4Q5rpiyOrnob7mDi4F2/5k24w94qx59er8IdIhyWSuU+C3c4
vfEQv/lDoPrqvtRrt8Id0lSCBH4sjHBwCWrq9Zkf4WCTHruyZXqEw7VvTO+duiMclMR3++dXRziI/T93nCczwuGK1eOsA2uiHA7o
NonLz4xyqDp37ZRqSpRDc9b8LC/pKIdkx+PGZ09HOkwI/r2mqS7SgQEEGtIcQv40fn/lmeQg91Enfc32eIfC9swzmiqxDkG+G+ym
LY6GmwsAUEsDBC0AAAAIAAAAIQADbv6U//////////8IABQAYTEwMy5ucHkBABAAcAEAAAAAAAAxAQAAAAAAAJvsF+obEMnIUMZQ
rZ6SWpxcpG6loG6TZqGuo6Cell9UUpSYF59flJIKEndLzClOBYoXZyQWpAL5GqY6CmaaOgq1CmQDrqNtjdeV3rs5WF48s+v5cTeH
8Dkzak6vcHOIX94UZjfJzcFD4vPnyS1uDgwg0ODm8IdLY5uYlrMD7xGj6ZdeODmYNHS/mrDFySHgAt+atD4nh20vrs5TL3dysHkU
eS4i38lh69HTP7eb2DqoFJY7zfO1cThS7aexZYK1g8fqN/pJLNYOFxQ+vXi01srhiOwyw+UTrBwaw+JeLawwdjjor3Z72wFDh2Ur
Q7YyOBo4LNhRaHtRWc+Brb5mpvhsHQfdB78a+oQQtPlR+Yr189QcDJQnNh3gV3Q44GW5a+l1MQfHVIFtJs/YoO5PcwAAUEsDBC0A
AAAIAAAAIQAtT5BB//////////8IABQAYTEwNC5ucHkBABAAcAEAAAAAAACyAAAAAAAAAJvsF+obEMnIUMZQrZ6SWpxcpG6loG6T
ZqGuo6Cell9UUpSYF59flJIKEndLzClOBYoXZyQWpAL5GqY6CmaaOgq1CmQDrhS16YszIhIcFMIeFezOTXD495Y5i686waHt+wq7
6fUIPkx+jaF2/ffEJIece7UmSYuTHNQeHWF4eS7Joa/9+TqHewg+TH7HYZNnIkYpDl6vbjGKvE9xCJEzVpPdmurAAAINaXA+TJ5U
80l1PwBQSwMELQAAAAgAAAAhABQSDW///////////wgAFABhMTA1Lm5weQEAEABwAQAAAAAAAFMAAAAAAAAAm+wX6hsQychQxlCt
npJanFykbqWgbpNmoa6joJ6WX1RSlJgXn1+UkgoSd0vMKU4FihdnJBakAvkapjoKZpo6CrUKZAMuBhBoCHPATqfhEB+6NABQSwME
LQAAAAgAAAAhAIFmqp3//////////wgAFABhMTA2Lm5weQEAEABwAQAAAAAAANIAAAAAAAAAm+wX6hsQychQxlCtnpJanFykbqWg
bpNmoa6joJ6WX1RSlJgXn1+UkgoSd0vMKU4FihdnJBakAvkapjoKZpo6CrUKZAMunaMyU+2DgxzWus0NdYoIcrC/VPviQVqQA//y
5eVfa4Mc2gw1TW/NDnJg+5wou2VfkAPPDrsFi1t8HZIULjmdPuzroH5WprSgwM+ht1drvlyyv8P9uzemhlkGOBzPFVy6/ECAAwMI
NKQ52DyKPBeRb+Swie+HYsgNB6i4m8MR2WWGyyd4wc0l1XxS3Q8AUEsDBC0AAAAIAAAAIQCiNgHu//////////8IABQAYTEwNy5u
cHkBABAAcAEAAAAAAAByAAAAAAAAAJvsF+obEMnIUMZQrZ6SWpxcpG6loG6TZqGuo6Cell9UUpSYF59flJIKEndLzClOBYoXZyQW
pAL5GqY6CmaaOgq1CmQDLgYw+LB/sNF3JnFKzGVOcAiRM1aTFU1wgPFxqf8X+EH8+r4UiHxDmgMKH0kdAFBLAwQtAAAACAAAACEA
LEaE1v//////////CAAUAGExMDgubnB5AQAQAHABAAAAAAAAAQEAAAAAAACb7BfqGxDJyFDGUK2eklqcXKRupaBuk2ahrqOgnpZf
VFKUmBefX5SSChJ3S8wpTgWKF2ckFqQC+RqmOgpmmjoKtQpkA66ChMfbbXqDHN7mfBW4pRnk8FDRjyn2SKDDLSvZ/ewZgQ7toqv6
QlQDHXqi/mzZyoOg5T7qpK/Z7u/g95H93mp1HwcGEGhwczgiu8xw+QQrKD/NgVTzxW2n7H7+LdjhX+O9lXvuBTvcC/q79fPJYAdp
1hfR93YGOzx78l1t1fpgh0j2PwJaa4IdGC6sPzJ3U4iD0+056jqrQhxk9q4Jclsc4iDMoe+nMS/E4UC40wHG2SEOJcc/xHycGeIA
AFBLAwQtAAAACAAAACEAuGw1wv//////////CAAUAGExMDkubnB5AQAQAHABAAAAAAAA8AAAAAAAAACb7BfqGxDJyFDGUK2eklqc
XKRupaBuk2ahrqOgnpZfVFKUmBefX5SSChJ3S8wpTgWKF2ckFqQC+RqmOgpmmjoKtQpkA64Duk3i8jOjHK5YPc46sCbKAcavOnft
lGpKlENz1vwsL+koh2TH48ZnT0c6hPxp/P7KM8mBAQQa0uB8uY866Wu2xzsUtmee0VSJdQjy3WA3bXG0A6nmuwQ19frMj3BIUwkS
+LEwAs63SY9d2TI9wuHaN6b3Tt0RDkriu/3zqyMcTBy869e8CXdYM2VxdNXbcDh/b5XjT69X4Q4RDkulcp+FO5zeeIjf/GG4AwBQ
SwMELQAAAAgAAAAhAL1LFGf//////////wgAFABhMTEwLm5weQEAEADQAQAAAAAAAGUBAAAAAAAAm+wX6hsQychQxlCtnpJanFyk
bqWgbpNmoa6joJ6WX1RSlJgXn1+UkgoSd0vMKU4FihdnJBakAvkaZjoK5po6CrUKZAMuBhBoSHM44GW5a+l1MQfzo/IV6+epOfi/
7lnNuNnA4fxUPh3Ns6YOR2SXGS6fYOXwsr9p/45vdnD1zmt/91jfUXTgFJkpcPa5tsP5ftf3gjHGDoxFMXtE5lo4XHp34+f2DlsH
D48Vb5f728PNh6lvDIt7tbDC2GHqxe+HDjtZOGw9evrndhNbh6U8gjHvntg5yOqaBj1Qd0C4B2o+TL3ywdxH5h+sHVxD56duYHBw
CLIMZlaqcHDoEj69N+GtA9z9MPdo2m0vcM+xcug7fLjjF6+tg1hGokOwsIMDd/eBm0LbHR1sJ/4pvf3UEe5fj9Vv9JNYrB1UCsud
5vnaOHBze83hsrdz2DuxKftxgINDQlZG6/WFjg5PXkwUvvDPyQEAUEsDBC0AAAAIAAAAIQAle+J1//////////8IABQAYTExMS5u
cHkBABAA0AEAAAAAAAAsAQAAAAAAAJvsF+obEMnIUMZQrZ6SWpxcpG6loG6TZqGuo6Cell9UUpSYF59flJIKEndLzClOBYoXZyQW
pAL5GmY6CuaaOgq1CmQDLrmPOulrtsc7tH1fYTe9PsGheNo27l3eiQ4hfxq/v/JMclicG+Rl3Jjs4PXqFqPI+xQHBhBoSHMwclVv
nT0fqE90VV+IaqKDQep394lPEh0sqo6UeB1OcqiLPZDGvCfZIXtyyNm+TSlw/R/PlVqsjo53mDmLrz78c4JDyIUUQxH9JIeXNo1T
i+8nOYS8SF5W258M1w+zH2wvw4f9r67f2FW2KsEh762YxLmziQ7V+/+I74tG6IfZD3M/TB86vWFj7wdb80SHs22F0oFzEO6H+R+X
PhgdNsE+38kmwUEh7FHB7twEePgBAFBLAwQtAAAACAAAACEApPTVuP//////////CAAUAGExMTIubnB5AQAQANABAAAAAAAAowAA
AAAAAACb7BfqGxDJyFDGUK2eklqcXKRupaBuk2ahrqOgnpZfVFKUmBefX5SSChJ3S8wpTgWKF2ckFqQC+RpmOgrmmjoKtQpkAy4G
EGgIcwDTDB/2k0QD9R14uiy/+UUkafqB+jjCHv+TeBzloNf294rEwVji9AP1ZT+teybYFuNgYLrl0OuAeLh+mDgufTD1MHUw+2Hu
f/pLfImiG5o/GtIcUMKHCBoAUEsDBC0AAAAIAAAAIQAYmAca//////////8IABQAYTExMy5ucHkBABAA0AEAAAAAAADhAAAAAAAA
AJvsF+obEMnIUMZQrZ6SWpxcpG6loG6TZqGuo6Cell9UUpSYF59flJIKEndLzClOBYoXZyQWpAL5GmY6CuaaOgq1CmQDLgYw+LCf
WFrnqMxU++AgB2LVq/ZdfFd1NMRh3Sb/g5kxgQT15c+RYfKqjHC48GXfse8OIQ5yH3XS12z3x9C3eurvme4SEQ4w9cmzNqTNZIx0
cN5TcDowMtjhiOwyw+UTvOD6VuyPejpJMtQB5h6Y+TD1CVkZrdcXBjps4vuhGHLDweH34gf66/4GOcD8C3M/zD0w82HqwdY0pDkA
AFBLAwQtAAAACAAAACEAic1VeP//////////CAAUAGExMTQubnB5AQAQANABAAAAAAAAfgAAAAAAAACb7BfqGxDJyFDGUK2eklqc
XKRupaBuk2ahrqOgnpZfVFKUmBefX5SSChJ3S8wpTgWKF2ckFqQC+RpmOgrmmjoKtQpkAy4GMPiwf6DojKdL5brEkxw8bE5LvtZN
doDxCemDqQdzG9IcUPh49BmYbjn0OiAeou5BggMKnwr+AQBQSwMELQAAAAgAAAAhACuWrpT//////////wgAFABhMTE1Lm5weQEA
EADQAQAAAAAAANYAAAAAAAAAm+wX6hsQychQxlCtnpJanFykbqWgbpNmoa6joJ6WX1RSlJgXn1+UkgoSd0vMKU4FihdnJBakAvka
ZjoK5po6CrUKZAOuwvbMM5pPAh3kPuqkr9nu78AAAg1uUDoNzofJw9T/WCnD+FwmCCofRpCGqWeSm7Dz5XyEvuyndc8E22Ig5qrE
wvkweZj6Qzu+BxjoB8PFOcIe/5N4HOXQXzHN+Jp0NJwPk4epj2T/I6C1Jpig+2A0TP0E2/pGfcEQh3+N91buuRfsIM36IvreToR5
MD5MHqYeAFBLAwQtAAAACAAAACEAJ+Pviv//////////CAAUAGExMTYubnB5AQAQANABAAAAAAAAnQAAAAAAAACb7BfqGxDJyFDG
UK2eklqcXKRupaBuk2ahrqOgnpZfVFKUmBefX5SSChJ3S8wpTgWKF2ckFqQC+RpmOgrmmjoKtQpkAy62GPkLgUxRDgxg8GE/sXSQ
7wa7aYujHb4xex5pZUwgWr/cR530NdvjHRKyMlqvL0x0ONtWKB04J5E4/Q1pDmnHN73TPJHkkHDs5kH5/4T1odtHqv9IDRcAUEsD
BC0AAAAIAAAAIQAKi5DE//////////8IABQAYTExNy5ucHkBABAA0AEAAAAAAABbAQAAAAAAAJvsF+obEMnIUMZQrZ6SWpxcpG6l
oG6TZqGuo6Cell9UUpSYF59flJIKEndLzClOBYoXZyQWpAL5GmY6CuaaOgq1CmQDLpXCcqd5vjYOHqvf6CexWDsckV1muHyCFZwP
k+fm9prDZW/nsHdiU/bjAAeH1VN/z3SXsHBgLIrZIzLXwuHlpJy1qd/M4XxNu+0F7jlWDn2HD3f84rV14Dqg0Mpeb+tgahettuOy
scP5ftf3gjHGDu6mB39F9Jk4rGZwelcw0dRh6sXvhw47WTiYZfMVeNpawt3T+OeJg9Q0fQdOkZkCZ59rO+g++NXQJ6TjkBJnGVBq
re/QGBb3amGFscPy7pjYr1dM4e57L1u1pNBU08F57e8e6zuKDiWmcyyjYyThfJh5MPd8eSy2TSPDzMH8qHzF+nlqDge8LHctvS7m
wAACDWlwPkze/3XPasbNBg7np/LpaJ41dQAAUEsDBC0AAAAIAAAAIQBfH/IT//////////8IABQAYTExOC5ucHkBABAA0AEAAAAA
AAABAQAAAAAAAJvsF+obEMnIUMZQrZ6SWpxcpG6loG6TZqGuo6Cell9UUpSYF59flJIKEndLzClOBYoXZyQWpAL5GmY6CuaaOgq1
CmQDLgYw+LAfF/1r6XN97eokB2uJl4LlRskOi3ODvIwbkx1wqbeoOlLidTjJoS72QBrznmSH7MkhZ/s2pTh4vbrFKPI+BUPfSubi
8P6eJAfeR+k8RunJDgab9hRui0lx0PKet8nOLBWiviENQ5/U5mauacVJDiGzVv246Jjs4DN5l0SrQgpB+2C08fJjbhIRSQ4lmllR
8pLJcPcS8l/MwoePvogmOviJbmdoWpno8GOlDONzGaA7/jR+f+WZ5AAAUEsDBC0AAAAIAAAAIQD5DtgQ//////////8IABQAYTEx
OS5ucHkBABAA0AEAAAAAAACSAAAAAAAAAJvsF+obEMnIUMZQrZ6SWpxcpG6loG6TZqGuo6Cell9UUpSYF59flJIKEndLzClOBYoX
ZyQWpAL5GmY6CuaaOgq1CmQDrgVTp1dpxHk7MIBAg5sDCp/hw368NFA9hE6D0mH4aaA+VPvCHAxMtxx6HRDvkP207plgW4wDR9jj
fxKPo/DbD9QHU0+UO5H0kaSeDBoAUEsDBC0AAAAIAAAAIQCfTBmu//////////8IABQAYTEyMC5ucHkBABAA0AEAAAAAAAAOAQAA
AAAAAJvsF+obEMnIUMZQrZ6SWpxcpG6loG6TZqGuo6Cell9UUpSYF59flJIKEndLzClOBYoXZyQWpAL5GmY6CuaaOgq1CmQDLgYQ
aEhzsHkUeS4i38hhE98PxZAbDg4QcTeHI7LLDJdP8HLg2WG3YHGLr4PcR530Ndv94Xxp1hfR93YGO/xrvLdyz71ghwm29Y36giEO
HGazVV66hzi8KC/vuFoTAjGP4cN+naMyU+2Dgxxufeh8GyQS6hDhsFQq91m4g+eG8s8a98IdhPtMJOsuh8PVw+hI9j8CWmuCHe6d
kTcq6Al1qJXMs/5eiKkOnZ59e+179rgQh1u35hzhOBlKUD2M/rJZikHgVAjR6mE0AFBLAwQtAAAACAAAACEAi8Bcef//////////
CAAUAGExMjEubnB5AQAQANABAAAAAAAAcAAAAAAAAACb7BfqGxDJyFDGUK2eklqcXKRupaBuk2ahrqOgnpZfVFKUmBefX5SSChJ3
S8wpTgWKF2ckFqQC+RpmOgrmmjoKtQpkAy4GMPiwnxD9L/CD+PV9KQ5gbkOaA7H6tEIP2TeVJDqEyBmryYomEK1vqNIAUEsDBC0A
AAAIAAAAIQC+iNAS//////////8IABQAYTEyMi5ucHkBABAA0AEAAAAAAAAnAQAAAAAAAJvsF+obEMnIUMZQrZ6SWpxcpG6loG6T
ZqGuo6Cell9UUpSYF59flJIKEndLzClOBYoXZyQWpAL5GmY6CuaaOgq1CmQDrlP9h++7RIc6/DT4UN8ApEVEjrUZxYQ6aKw7kh8R
G+rwRmWRyru4UAeDRS9V3iWEOtxRCdwZmBzqEJods6RVKNSBAQQawgjS2/07eK4rhjqUHP8Q83FmCFz87fcLG68nRjg8dQpeuzMm
wmGvSvKNy6ERcHlvnbDX4XtCHCLZ/whorQmGiz/9Jb5E0S3SQWktkxePWaQDU51imLNiJFx+gm19o75giENP1J8tW3kCiXZnvIjK
sv0vgqD8NIcjsssMl0+wgvLdHPw+st9bre7jIPdRJ33Ndn+4+YXtmWc0nwQ6AABQSwMELQAAAAgAAAAhAGUxLRv//////////wgA
FABhMTIzLm5weQEAEADQAQAAAAAAAA0BAAAAAAAAm+wX6hsQychQxlCtnpJanFykbqWgbpNmoa6joJ6WX1RSlJgXn1+UkgoSd0vM
KU4FihdnJBakAvkaZjoK5po6CrUKZAMuBjD4sJ9Y+mjghJkHosMdiFV/5uGRnQ2/IhxWbv5W0ziJsL7T6lWPAuqiHXYr/Fp3/Fik
w5opi6Or3mLqy1ydd9jPOdahy5dT5HNhrMPjcs1F66fGOmyaq7/tkU+0Q5pKkMCPhRFwfR37RQJTRGMdFkXf/Bu8KtahVu+Rf7hd
nENUAbNH9ME4hx25fpaXZOMdrlg9zjqwJsqBLUb+QiBTFJwf5LvBbtriaIfC9swzmiqxDnIfddLXbI93CPnT+P2VZxLEnoY0BwBQ
SwMELQAAAAgAAAAhAOT25PT//////////wgAFABhMTI0Lm5weQEAEADQAQAAAAAAAA8BAAAAAAAAm+wX6hsQychQxlCtnpJanFyk
bqWgbpNmoa6joJ6WX1RSlJgXn1+UkgoSd0vMKU4FihdnJBakAvkaZjoK5po6CrUKZAOufadua81ydHCo8m73Pinr4DDpvJsbA4eD
g2vo/NQNDAg+TB6m/u+jmycqmswdbu09xr/1noXD6RfhvAa9Fg47T9mxLi9E8GHyMPWN8w1lDvtrO0z4MCPLuUnbga2+Zqb4bB0H
3Qe/GvqEdOB8mDxMffM/dU+WBhmHyxUK8RLHRRwcUwW2mTxjc2AAgYY0OB8mD1OPbt9bySP2ZpJaDvcS/h86MVsTzke3D+be5Zv5
jjaxmjtMD7rfvXiHmYP5UfmK9fPM4HyYPEw9AFBLAwQtAAAACAAAACEARalz2P//////////CAAUAGExMjUubnB5AQAQANABAAAA
AAAA0AAAAAAAAACb7BfqGxDJyFDGUK2eklqcXKRupaBuk2ahrqOgnpZfVFKUmBefX5SSChJ3S8wpTgWKF2ckFqQC+RpmOgrmmjoK
tQpkA64dh02eiRilOHi9usUo8j7FIUTOWE12a6oDAwg0pMH5MHmY+jWG2vXfE5McDt1szve2TXZw0WCP00xJdlipFiF/uhDBh8nD
1KeoTV+cEZHg0Ca6qi9ENdFhwt/kWyknEx3y3opJnDuL4MPkYerB7mH4sB9GX9O/u8A+OsFhjsPMBU6xCQ4wPro6etMAUEsDBC0A
AAAIAAAAIQAGyyxi//////////8IABQAYTEyNi5ucHkBABAA0AEAAAAAAABwAAAAAAAAAJvsF+obEMnIUMZQrZ6SWpxcpG6loG6T
ZqGuo6Cell9UUpSYF59flJIKEndLzClOBYoXZyQWpAL5GmY6CuaaOgq1CmQDLgYQaAhzANMMH/aTRFOgr+pVaOHqW9Gk6W9Ic/Cw
OS35WjcZTtPWPtL9BwBQSwMELQAAAAgAAAAhAEXIBZ3//////////wgAFABhMTI3Lm5weQEAEADQAQAAAAAAAMAAAAAAAAAAm+wX
6hsQychQxlCtnpJanFykbqWgbpNmoa6joJ6WX1RSlJgXn1+UkgoSd0vMKU4FihdnJBakAvkaZjoK5po6CrUKZAMuBjD4sH+o0Lc+
dL4NEgl1WDNlcXTV23AHVf4yobWvwx0iHJZK5T4Ld0BXr35WprSgwM9BmvVF9L2dwQ6R7H8EtNYEw/n/Gu+t3HMv2GGCbX2jvmAI
XP8mvh+KITccHGweRZ6LyDeCiDekwfkweYi4m8MR2WWGyyd4OQAAUEsDBC0AAAAIAAAAIQBZdvy9//////////8IABQAYTEyOC5u
cHkBABAA0AEAAAAAAAByAAAAAAAAAJvsF+obEMnIUMZQrZ6SWpxcpG6loG6TZqGuo6Cell9UUpSYF59flJIKEndLzClOBYoXZyQW
pAL5GmY6CuaaOgq1CmQDLgYw+LCfVrRW6CH7ppJEhxA5YzVZ0QQHYvVJdPGtMAlMhahvSCNaH7n2UYsGAFBLAwQtAAAACAAAACEA
tG/v0P//////////CAAUAGExMjkubnB5AQAQANABAAAAAAAARgEAAAAAAACb7BfqGxDJyFDGUK2eklqcXKRupaBuk2ahrqOgnpZf
VFKUmBefX5SSChJ3S8wpTgWKF2ckFqQC+RpmOgrmmjoKtQpkA65JW27O7/7o6bC+zTi9e7WnA4zPlH1GcPkmL4dzq6bOyTzm7eCy
PC7+NYOvw+/5+bY1Dn4Oug9+NfQJ6TgwgEBDmsMR2WWGyydYQfluDn4f2e+tVvdxkPuok75muz+G+T1Rf7Zs5QmEqg/DoN/mfBW4
pRkEt+/AUXO3v0KBDpHsfwS01gTj1Pev8d7KPfeCHW7w1/6XmRLowHfkX2zmsSCHkuMfYj7ODHE4EO50gHF2iIMwh76fxrwQB5m9
a4LcFoc4ON2eo66zKsTh/fYVZqmfgxz0Lr/w514bDLcPxn/25LvaqvXBDpdXPNX/sTnYQZr1RfS9ncEOjif7HewOBjsAAFBLAwQt
AAAACAAAACEAynXTQ///////////CAAUAGExMzAubnB5AQAQAJgDAAAAAAAAhwAAAAAAAACb7BfqGxDJyFDGUK2eklqcXKRupaBu
k2ahrqOgnpZfVFKUmBefX5SSChJ3S8wpTgWKF2ckFqQC+RqWOgqGhpo6CrUK5AIuBhBoSHPQuzw/uMY0zQHMZ/iwn1L63NaEaBXb
NAczYwHeT3dTqGYuOn2jYynDEa5Umpn/q+UHt0kR7cwfpQcnDQBQSwMELQAAAAgAAAAhANeZhez//////////wgAFABhMTMxLm5w
eQEAEACYAwAAAAAAAPIBAAAAAAAAm+wX6hsQychQxlCtnpJanFykbqWgbpNmoa6joJ6WX1RSlJgXn1+UkgoSd0vMKU4FihdnJBak
AvkaljoKhoaaOgq1CuQCLgYw+LA/s4T10441bg4wfu+tLSd8uZwdMuZNWd2h6+RQ8zR5w/4SXbj8Q93kJpujOg6uM2/OPMWm5KC/
L8XyvAgTRL4hzUG5cvtn6zxfuPqkXatyz5m5w/kwupV5353vK9wcOJY+/7Rwt5bDrqnTTh+2U3O4ci9CfwOnksM5K+WcS1USDgob
Z4tt0GRzWCKw/9B2owAMc2B0UW1M5slQTwfeaE3uj7804er664SdtZ4bOZwtz5weVazo0JcQeW2/t47DrASeqth5fBjmvf/clXfV
y8dBIvLLj/27fHDal+McPT9E1dihxNjh/frHGnB1Gn+0zKb9c8bQx5/4ganCycchzKKr+k+zq4PE5RX91wX8HMptHyw9sM0Urn7i
J0HLJWKmDp8Pfrg8r8QWp/2E6Of54jEX7d0c/nVde7DCGWF+05ZF5/WPeRM0dzp7zDGdnkCHTweX1Lnf8Hawb+uOWBCPO/wppX/G
sHUw91k4VB9dYCm7yBPDnnkZzofTLng5HJFeeXmCnAtOd7y3+vdxgrSXw+qE28LdvoEOjx5aqEnbEXa3id36HQorfRwAUEsDBC0A
AAAIAAAAIQD6J0zd//////////8IABQAYTEzMi5ucHkBABAAmAMAAAAAAABBAQAAAAAAAJvsF+obEMnIUMZQrZ6SWpxcpG6loG6T
ZqGuo6Cell9UUpSYF59flJIKEndLzClOBYoXZyQWpAL5GpY6CoaGmjoKtQrkAi4GMPiwP9r70el6m2QHGJ/adEHy950Nmyk3n0NM
4eD7shSH/MPvnn0MScAwb80iWVYNrhSS7Qn7sSdnK1+8g95DbZtLAYkOalvFW25PS3FYqLPiYHUz6ebB6PPnra9emxzgwDpt2iJB
z0SH7Zzz+xUepjj8rj6bfjyLfHNhNM+pBW6ufYkUmwOj3zgtSml+nehQUdlWnayU7JDQ07zgxKRUh286jhs5NFMdVsm7Jnawp5Js
H9v5+cs1oxIdlm7UVVg9y88hw3I2l15gsoNfe/WU7L0UhkNDmgPXE8Z+0dJUhxXiovbRBakOuxkWmU11THW4e2XmgTx90t0LAFBL
AwQtAAAACAAAACEAN1X8yv//////////CAAUAGExMzMubnB5AQAQAJgDAAAAAAAAbwEAAAAAAACb7BfqGxDJyFDGUK2eklqcXKRu
paBuk2ahrqOgnpZfVFKUmBefX5SSChJ3S8wpTgWKF2ckFqQC+RqWOgqGhpo6CrUK5AIuBjD4sJ9UOvPaz3oVay8Hy0uqfT3P3B0I
qddROjmxRiWYoDoYfcruyoHZvc4Y6l8d2v1f/kUYTnOu2tiKWGfhlofRwg0lk96Y+uJU1/WEacGx3aEOy+o9/Vi+EDYPRnsU9Jdp
L7Fw8Li3UWLtxSgMfctibJUS7UMdrgZ+/x+/IMDB5fgH/uaSCJzmt9qeebCXA+FO2wN+m0V4rIh2z8a+uaciFwRiqDdzi/z06V00
QXPy5/cca1WIdJg6qWHnMpsQh3VM/85oBEcSbT8hes2kXxzny1wxzPNz1S5azRzksID1rHFgoSJcfq+C2c01u0IdHu+vPHN/pSFB
d6wOWTabc3GkQ/JBN2fjiYhwvld1xdh3g53D/zt30iXbxR2kg5SLFUOZIPINaQ4AUEsDBC0AAAAIAAAAIQCIkcqs//////////8I
ABQAYTEzNC5ucHkBABAAmAMAAAAAAACTAQAAAAAAAJvsF+obEMnIUMZQrZ6SWpxcpG6loG6TZqGuo6Cell9UUpSYF59flJIKEndL
zClOBYoXZyQWpAL5GpY6CoaGmjoKtQrkAi4GMPiwn1Ra6qCJsPfmOAe9b1w7Oh5EO8DE71Qr3MxPiXcg1hy7BecbTAJTHCLuyvB5
J3g4KIQa9KZdDSBaP4yeLeTQeycu2WFdxZNray+nOHy6ZvSAa6umw/7umMrPh1QcAnjb8yyUkuDmygnmWHXtTSRoT8rGumMZD1Mc
Wk9vsd7uK+hgt1hx1+kMaYc+waeLDk+UdPCTvnr0kQCmOXEPvjb7pyQTNP/KS/P6BxdSIeoa0hzYy6Yoh+cLOfxPSuifJpPg0Odo
c4O7grA56PR/3uuirkKiDltYCzS0O1MdzP8I2Lu3OMHNWTFR/e6MyhSC5l5wSP8iZ5XiINbqb/xbJcVBTz6vewVbKoa+HEm5+g/u
cSS7Exe9h1fwY8M1TH9zZp5uif2b5PCIaenae+qE48+k/2BZ3CNMc3bONp/Rcj4BQ9z6zryMJ9ZJDgBQSwMELQAAAAgAAAAhAMv1
o6f//////////wgAFABhMTM1Lm5weQEAEACYAwAAAAAAALQAAAAAAAAAm+wX6hsQychQxlCtnpJanFykbqWgbpNmoa6joJ6WX1RS
lJgXn1+UkgoSd0vMKU4FihdnJBakAvkaljoKhoaaOgq1CuQCLgYw+LAfF31gSafopY+pDmBuQ5rDu5ma/+uZRByMJnOsmPknxYGQ
fly0x9Giwyy7Uh0u8expTudNc8hrqfhbcjfZQe20oqVmSTLZ5uKiQ94eFDWZi3BvEEfcu7if1LcHRl8V4+buNSA/fEbpgaUBUEsD
BC0AAAAIAAAAIQDB3d2Y//////////8IABQAYTEzNi5ucHkBABAAmAMAAAAAAAD8AAAAAAAAAJvsF+obEMnIUMZQrZ6SWpxcpG6l
oG6TZqGuo6Cell9UUpSYF59flJIKEndLzClOBYoXZyQWpAL5GpY6CoaGmjoKtQrkAi4GMPiwn9a07ZSIim2yqQ6UmmMyc7NswBXK
zUGnZY4lp6mfT3FwqV66Z/qPFIeoWv7L6TuoZE9DmoOJhe9hXv1UB5OfFiWPTlFubt4m5ckCR5Uc2P0ubA2KTqFaeNQfODU5dXeS
wxoeFYUfE5MdvPT9KlbOSnXwetm155JpqsMyKweX38LUD39iab+G8I2xRclw+ytWpyTJX090aPnDKKb6Lslhy67tV9/7pTisyNtW
l9pNfrgAAFBLAwQtAAAACAAAACEAH/YslP//////////CAAUAGExMzcubnB5AQAQAJgDAAAAAAAAQAEAAAAAAACb7BfqGxDJyFDG
UK2eklqcXKRupaBuk2ahrqOgnpZfVFKUmBefX5SSChJ3S8wpTgWKF2ckFqQC+RqWOgqGhpo6CrUK5AIuBjD4sJ9adM/Ciev/qIQ6
EKv+YV1VZuq8WJzqQ+3Tgr8nBBBtXkvO+8CK5jiC6udd4t30a3MYTnWKEowS9VcJm4OLPrfkjNzHbkz9vEodPh/XxsPF8972RaqX
JGKoq//L/Em/xNvhwBaHCSkPIsh2x52g0JoXsrEOopI2qovn2cLNMTVRT2PtSMAwt9d9M8e1iboO1nn+AV6LtRxerW4ovLMu2UHq
przz03eJDiw2h9kKepMd/rU/+HZ5nTLZ7lqi+UP95hppBwZ3S4fM17oOTQeuSWRZCsPN+1h9a7a8MKb7CNHp752SD+00guhrSHOY
UJTyNkA5lWRzAFBLAwQtAAAACAAAACEAKJg6ZP//////////CAAUAGExMzgubnB5AQAQAJgDAAAAAAAAPQIAAAAAAACb7BfqGxDJ
yFDGUK2eklqcXKRupaBuk2ahrqOgnpZfVFKUmBefX5SSChJ3S8wpTgWKF2ckFqQC+RqWOgqGhpo6CrUK5AIuBjD4sP/CK0mnv8fs
HWB8V75nTosSrBwsiubmMW63cPi7nH1V3wVNuLy3eB63QLSWg9QU07W5Japw8ZZt2yt0t6g49KtVP9Oa4wwX57hsuUw61A6h30yM
YdU2c4eKipJTbRqWDpVLnB46+Kk6rOWNT1pirOQQpXn71IV0eQfHO/6XXFmkHMqsb7XdfyzgcDVEbObW1y5wc2D0isOz2OsCLR1O
/LjKKLTS2qHAMVBrZ4EyXF31EdUNvxVVHTJOTL80Y4KIw1Lz9NVnFEUdOncsyha0+WmPbt6xhrgNMccdHM5+Mvvx/AIiXPKU594L
iEKYy6V3LdnXQ8lhjU7Qbz4xEYfu2CKeKhMWiHxDGoY7m7yWqDdPcYCLG7zZeH7SO1sHo4a8IoZORPhmzS59dLhNyWHjgRpPxZ2K
DlbuiuyzDjA7GNv0S3Ubs2OYi4v239q+hGGyqcPLOM4QX3k1uL6mNw1hM2z0Hb5OurbfQZjPYVev2qzsWxwY5mpvTrdRtnBxCGT5
tafztZ1Drdab3qoeBwx16PTsb/cPFFeLOXj9brz8RF+EaPfC6B9uaVf2bDTH0Pega9qZky3GDn5q4YyiJXoY8l8LPHcvM7B2uFjj
f7Mh1c6h5D3nnO0bnRyE0xeb9U1CuPt6vI0xY4Qxhv56Bid2gTRzBwBQSwMELQAAAAgAAAAhAAgMGuT//////////wgAFABhMTM5
Lm5weQEAEACYAwAAAAAAAKsAAAAAAAAAm+wX6hsQychQxlCtnpJanFykbqWgbpNmoa6joJ6WX1RSlJgXn1+UkgoSd0vMKU4Fihdn
JBakAvkaljoKhoaaOgq1CuQCroeyazhUp/g6zHC2SQw2SHM40bExxDYp1YEBDD7sJ5eOfnfWh8UyDWJOA5BefiMlzCSNYnM9rpWl
xyqkOWR9XiM150mqg4XU18hzqyh3LzrN80yExwRofhP/6darB6hv/ig9uGkAUEsDBC0AAAAIAAAAIQAjDzDI//////////8IABQA
YTE0MC5ucHkBABAAmAMAAAAAAACHAAAAAAAAAJvsF+obEMnIUMZQrZ6SWpxcpG6loG6TZqGuo6Cell9UUpSYF59flJIKEndLzClO
BYoXZyQWpAL5GpY6CoaGmjoKtQrkAi4GEGhIc9BYYKDeF5nmAOYzfNhPKa35UZZpypVUh5aJbekv/JOpZi467XFtGVfkBdqZb/f9
54pfU1JoZv4oPThpAFBLAwQtAAAACAAAACEAWK+fy///////////CAAUAGExNDEubnB5AQAQAJgDAAAAAAAAgQEAAAAAAACb7Bfq
GxDJyFDGUK2eklqcXKRupaBuk2ahrqOgnpZfVFKUmBefX5SSChJ3S8wpTgWKF2ckFqQC+RqWOgqGhpo6CrUK5AIuBjD4sB8X/baj
U8NCI8IBXfxP8pQ5isqWDkd63seej9Z2uGRblKZl/tseLN2Q5vDAdGXGirgYuD7dVA7lNf8wzTHrMVky+XQChrhaNwuP5y5Lh20P
G6RPtNs4KCdNXz/ZUh1DHTq9gJ17AcPLWAx1W9cd4WoxCISLZ/RMrPlUGOrgZeHj3eenhaF+2T7uh6Hq0Q5X2i749+fHYMjD6JuP
gs8+Zg7AkHcxkXgmfikOQzxAZ/GZ1vuRDp1q/4OvBIQ57A2c8tBWC9P8qtPOngLdAQ6qp2MfXA4OJ+hvXLQ6y6fEy18x9f9lXt33
cW80QXPdFs4vXvUgyuHvy91thl0RDuaKUR4626LIdg+x9BG2RYsyVDHTy7wdRm+nakYStN9v6cN3R9aFOfw4kbX429FIh7Lk86F/
4wjrg9EAUEsDBC0AAAAIAAAAIQDv1WVd//////////8IABQAYTE0Mi5ucHkBABAAmAMAAAAAAAD/AAAAAAAAAJvsF+obEMnIUMZQ
rZ6SWpxcpG6loG6TZqGuo6Cell9UUpSYF59flJIKEndLzClOBYoXZyQWpAL5GpY6CoaGmjoKtQrkAi4GMPiwX+2y+o7LFvEOMD61
6ZiO9D08MQkUm696REXTqSOR6u68qtEjIt4R7rC+vEhKRTPKYR/vl4P6f6lnz9zvfPvu1EU6KO85OmvyyiSqmVvwb2rrbMZIqpm3
5ZoYzzSucAcH+62P/NdHO3ivOSL6d0mKQ0xMtMMp/xSHNTKz9D+2pJBs37ZfavceHPBz8Cwpnn7mgxNcvw1T3zb5WtLNQ6Eb0hxO
PY3cdXBNqsM6HoV25xupFIcHAFBLAwQtAAAACAAAACEAazX0nv//////////CAAUAGExNDMubnB5AQAQAJgDAAAAAAAA8wEAAAAA
AACb7BfqGxDJyFDGUK2eklqcXKRupaBuk2ahrqOgnpZfVFKUmBefX5SSChJ3S8wpTgWKF2ckFqQC+RqWOgqGhpo6CrUK5AIuBjD4
sH9Z3aJnLdbBDjD+goO/O9N0gh0EuWxmd25AiMPoWUluLXGhgQ4i6kKPZh4OwJCXbrreNONXCFw8VM08MX4bwpzuqtSVnkXBDnmL
FORcDofCxaeVnXHZ8dDbwePlYtsVxn4O+zlVo+OD/OHyJxJM1/57EophX0sl496u1iAHJvGj22e1YMrPcswz8j4Q4DC17njBI3N3
h70SCyrK5IIw1MFoN9Ppe+zvhjg0FNVOWbQJ0zxcdOG6Zdb+X90cnnSv+bddKRzTnTbcb/jUQhza539den1vgMNFy0rLxTVhDkX3
LQ03pLhgqM9Od5vTERboYD+30UHXxsLhvW79vB3b3Yl2D6/r1/uiJoEOCW/cP+6RcoDru+19t2ZdcLhDVN6f89YHDXGa915SxmnK
unCH9ezqXw8sCHQ4cFXAfocqpr9KhVoWrLhpR7S7YHSwyK853yZYYeg7/dkruOSTl8PcI8nZBbvk4PJON5uloo4HOKz681fjlrw9
Qfv4Fbf42UtEOGRM/f1l/gdEejzitavs32VtB+mLixlW5rM5zDr+MzZ90Ud7sHRDmgMAUEsDBC0AAAAIAAAAIQC6N452////////
//8IABQAYTE0NC5ucHkBABAAmAMAAAAAAACCAQAAAAAAAJvsF+obEMnIUMZQrZ6SWpxcpG6loG6TZqGuo6Cell9UUpSYF59flJIK
EndLzClOBYoXZyQWpAL5GpY6CoaGmjoKtQrkAi4GMPiwn1TaTUr9S5RzrMN2zQ9R9zRjHMg1h/WE8II/BUkOU3p+zHFqDHXIUDtY
1f88nGTzArd9qWrpS3KoEvbXM52a7FASs/XqpANODmF2H2tnHrdyWP+tTrtgQSLc3IL8++tcbZMI2rNKrK7M/1WKg95EE6+X8xUd
+iQvnNZNNHOIdl7p+GCutkOG2GKmrm2Y5shr+ez+uzCFoPl2P6VXnzBPg6hrSHN45rma8WgPm8N+s8oH89anOCRMWX3C1C+V5PC4
L9Q7cwm3moPCrJnfC9elOKTfbozynhEBN0fjWty3lveE3cflbGF77lyywyWzjisbXJMdks6sY3l0MxlD3yOlmEmJX+JJdicu2njX
rLxERsxw7V9i9DLAI8nhjlB8Sr1GIoY8sfRseemds+/GYeiXWysUMz840QEAUEsDBC0AAAAIAAAAIQCyXQaJ//////////8IABQA
YTE0NS5ucHkBABAAmAMAAAAAAABAAQAAAAAAAJvsF+obEMnIUMZQrZ6SWpxcpG6loG6TZqGuo6Cell9UUpSYF59flJIKEndLzClO
BYoXZyQWpAL5GpY6CoaGmjoKtQrkAi4GMPiwHxftcXGBkP3hJAcwtyHNYYtBW/mcCZ/tfexWn35aa+Kwsf621MwNZg4w9TfWhCp7
qgc6VDHFcq2xSoCLB4UvjFHYHgPnXyg+LJ4hHOOQ8VswK606yUGO4/OyD8yGDon8jhZb7po4TEm12F/1ytbh2GaWDWKHneD6iiyW
+YUfjofz0ekAl3wVqxuY8pKOf3OLE4Pg4i3nOa46PwvDaY7H2uX/c8pjHH7ILdF9sjkWp7pj3BxSvEcDMORfPImemq2M252EaOPT
Xu5lKoEOtx5KCcnwRcDNqd08QyTiBqZ9pNLyxYvZ1lsj4mOo0Z+qLK2dpcNp5n4AUEsDBC0AAAAIAAAAIQAFbv+B//////////8I
ABQAYTE0Ni5ucHkBABAAmAMAAAAAAADqAAAAAAAAAJvsF+obEMnIUMZQrZ6SWpxcpG6loG6TZqGuo6Cell9UUpSYF59flJIKEndL
zClOBYoXZyQWpAL5GpY6CoaGmjoKtQrkAi4GMPiwf6jQ7HfP5R7VTXWgtrlt/s5fu9anOGxLu530nCHVwUzgMWfjISrZ05DmkH2m
jf2sdppD1M3tHEss0ig217nl1srI1GCHqq+usl93plAtPF6fmGWdejPJ4T5Xxx+LiGQHhXqX2StNUx1aPuVuZeBOdeBK3fXWW4H6
4U8uHRAS175aKdGh59CG4CsXEx1qkmMPpcsmO6Spxs2/PSmZbHcCAFBLAwQtAAAACAAAACEAWs4K6f//////////CAAUAGExNDcu
bnB5AQAQAJgDAAAAAAAAPwEAAAAAAACb7BfqGxDJyFDGUK2eklqcXKRupaBuk2ahrqOgnpZfVFKUmBefX5SSChJ3S8wpTgWKF2ck
FqQC+RqWOgqGhpo6CrUK5AIuBjD4sJ9atNTmbVdlnUMdqGVe4f/iIy6zg4g2r0dp2lf3xEiC6rd9Peqr9JJyd156EXlWQxnTfQu3
rxP7XBCNIf6n18vk8BGE+zIPNj6TEozBUKfOpHJF3jPAwW1ql+v0T2Fku/NneQqTX3mEA2tNx7e4ale4Oc43nYQu/IzFMFfsO7N5
+Utjh/dLjxhJPTR16DBeJHp6WoKDXfYPWfPL0Q7v1I8tYElMcJi+4V1KyFIDot2leID/u89WFbj6rpXqR6ZbqTvcbdv2y0vC1sHh
5gQGq2YFuPwuIcMzC0PiSPa3U/PJ9ZtOyEH0NaQ5GD/c4jZnUyrJ5gAAUEsDBC0AAAAIAAAAIQD/Q51M//////////8IABQAYTE0
OC5ucHkBABAAmAMAAAAAAADkAQAAAAAAAJvsF+obEMnIUMZQrZ6SWpxcpG6loG6TZqGuo6Cell9UUpSYF59flJIKEndLzClOBYoX
ZyQWpAL5GpY6CoaGmjoKtQrkAi4GMPiwvy1t3XwWLi8HGB9GS/ZKb1Fo93IIYX97X53ZEi7v6dXX62vn7LDD0y/t7g1HuLir+jHj
A9tcHfivym8Pc/GDi08/tkDSI88Dw/xz4bcVTrP5O3Q0pDxIzzZ26MzfP0GjwMTB+6vf96kM5g4ftD6obguxcNildChfTkbP4YIa
859cxgAMc2D09nv7Fv4+4IkhXzPh+dXL7MZw8Xlpe6UXTDRx6DrW65DWJYLTPI2roq+mHsQ0D0b/mrS48cAlBYfj57OajbkFHHhz
dZnKtBgg6hvSMPQdjbUqvpuLMG+GgX24o6C/A0t7n1luuA6G+vl5kVOn7bNw+LlL1/L6V3GHIKfzyftFNHG6B50+dWpxrcshdwz1
gn+9FXIkgxx454rNYHZVw2neRjeeF1e+BDts+5HzrLnR30GxfE7Gofhggva38zbvvrLE0CHNelKkR4YB0e4lRLv7Fs+eqBHkUMnS
WmUs44thbsxaTnm5Ti+HDb/u2DioBTjcnRI5O2pGiIO7X+7ElpcId1scXtogMtsHQ3+15P/fLILBDgBQSwMELQAAAAgAAAAhABW1
4n///////////wgAFABhMTQ5Lm5weQEAEACYAwAAAAAAAKgAAAAAAAAAm+wX6hsQychQxlCtnpJanFykbqWgbpNmoa6joJ6WX1RS
lJgXn1+UkgoSd0vMKU4FihdnJBakAvkaljoKhoaaOgq1CuQCrtmmyZZHVzg5iN3pbK9amOrgYtrRtPZSsgMDGHzYTy4t8nFG9YaI
NIg5DWkOVqXN6mdC0yg2d4FP0LMJh1IdzI4ueyQ4N8Whf+2rN5lLUig2FxedVLDT1pwjlWbmj9KDkwYAUEsDBC0AAAAIAAAAIQDh
602k//////////8IABQAYTE1MC5ucHkBABAAQAIAAAAAAAAvAQAAAAAAAJvsF+obEMnIUMZQrZ6SWpxcpG6loG6TZqGuo6Cell9U
UpSYF59flJIKEndLzClOBYoXZyQWpAL5GhY6CuaaOgq1CmQDLgYQaEhzANMPEhzkPuqkr9nu79BfMc34mnQ0RLwhDIP2sDkt+Vo3
2SHj6VK5LvEkh6lSjZLvKhMcfqyUYXwuE+Tw4N+CDdI/YuDqW+PkPBu1QiB8hg/7YeILpk6v0oiLdvj3MN9NLCHKYZ9zv8m6ZZEO
/xrvrdxzL9jBgNvRkmN/BNw9MPNh6nG5D51Gd0/JUmZvr89o/gO6K3+ODJNXZQRcvupVaOHqW9EOakcfOfyYHu0gf2/j30XW0XD1
kh0d5VrNEXBzYO4sWjDF8SYPQt2GtY9P1i+LwrAPPTxgdP4XBSnF8CiM8EKnAVBLAwQtAAAACAAAACEAzDPWov//////////CAAU
AGExNTEubnB5AQAQAEACAAAAAAAAcAAAAAAAAACb7BfqGxDJyFDGUK2eklqcXKRupaBuk2ahrqOgnpZfVFKUmBefX5SSChJ3S8wp
TgWKF2ckFqQC+RoWOgrmmjoKtQpkAy4GEGhIc/CwOS35WjfZAcxn+LCfEL3jsMkzEaMUh5lG/y6GRRCvb5SmLg0AUEsDBC0AAAAI
AAAAIQBBFyHp//////////8IABQAYTE1Mi5ucHkBABAAQAIAAAAAAAB5AAAAAAAAAJvsF+obEMnIUMZQrZ6SWpxcpG6loG6TZqGu
o6Cell9UUpSYF59flJIKEndLzClOBYoXZyQWpAL5GhY6CuaaOgq1CmQDLgYQaEhzKGzPPKOpEusA5jN82E+IDvnT+P2VZ5JDzMKH
j76IJjoc7Xwat+FbHNH6R2nq0ABQSwMELQAAAAgAAAAhACFYBAr//////////wgAFABhMTUzLm5weQEAEABAAgAAAAAAAHAAAAAA
AAAAm+wX6hsQychQxlCtnpJanFykbqWgbpNmoa6joJ6WX1RSlJgXn1+UkgoSd0vMKU4FihdnJBakAvkaFjoK5po6CrUKZAMuBhBo
SHP4F/hB/Pq+FAcwn+HDfkL0GuY6DlGxVAeLDR+j57URr2+Upi4NAFBLAwQtAAAACAAAACEA4etNpP//////////CAAUAGExNTQu
bnB5AQAQAEACAAAAAAAALwEAAAAAAACb7BfqGxDJyFDGUK2eklqcXKRupaBuk2ahrqOgnpZfVFKUmBefX5SSChJ3S8wpTgWKF2ck
FqQC+RoWOgrmmjoKtQpkAy4GEGhIcwDTDxIc5D7qpK/Z7u/QXzHN+Jp0NES8IQyD9rA5LflaN9kh4+lSuS7xJIepUo2S7yoTHH6s
lGF8LhPk8ODfgg3SP2Lg6lvj5DwbtUIgfIYP+2HiC6ZOr9KIi3b49zDfTSwhymGfc7/JumWRDv8a763ccy/YwYDb0ZJjfwTcPTDz
YepxuQ+dRndPyVJmb6/PaP4Duit/jgyTV2UEXL7qVWjh6lvRDmpHHzn8mB7tIH9v499F1tFw9ZIdHeVazRFwc2DuLFowxfEmD0Ld
hrWPT9Yvi8KwDz08YHT+FwUpxfAojPBCpwFQSwMELQAAAAgAAAAhAFjPLJT//////////wgAFABhMTU1Lm5weQEAEABAAgAAAAAA
AHEAAAAAAAAAm+wX6hsQychQxlCtnpJanFykbqWgbpNmoa6joJ6WX1RSlJgXn1+UkgoSd0vMKU4FihdnJBakAvkaFjoK5po6CrUK
ZAMuBhBoSHOY9M8gpYshxQHMZ/iwnxD9Tm7WFcNFKQ4el87MO/0qmWh9ozR1aQBQSwMELQAAAAgAAAAhAJAcWFf//////////wgA
FABhMTU2Lm5weQEAEABAAgAAAAAAAKUBAAAAAAAAm+wX6hsQychQxlCtnpJanFykbqWgbpNmoa6joJ6WX1RSlJgXn1+UkgoSd0vM
KU4FihdnJBakAvkaFjoK5po6CrUKZAMuBhBoSHNo/qfuydIg42B+VL5i/Tw1B3fTg78i+kwcXk7KWZv6zdyh7/Dhjl+8tg6b+H4o
htxwcOAvn3FsjpOCg21OhcSH62oODPa8RprbDR0UI3p/J/cYOpREJ05aU2/nADaf4cN+D48Vb5f728PN5xSZKXD2ubZDY1jcq4UV
xg5TL34/dNjJwmHr0dM/t5vYwvX95dLYJqblDHcPzHyYerNsvgJPW0u4+4Isg5mVKhwcAoNkzBoineDuh7lH0257gXuOlUOihtWC
S0ccHcQyEh2ChR0c9k5syn4c4ODwNcCx8zezK1zeP6HiEx+nk8ONIAVjlZNODvMYlT8sfuoMd58qe7tM5x4Xh+CtvLfOVbo4vDsm
aPndx8WhLEqDc2WdC0LdauZzLx+7OpxYpfz3e6Szw5MXE4Uv/HOCy6PTIdrnu67xuyPCTyvwf+hbFwcP61al8FuuDkVhbZ5xN9wc
AFBLAwQtAAAACAAAACEAmdj59///////////CAAUAGExNTcubnB5AQAQAEACAAAAAAAAeQAAAAAAAACb7BfqGxDJyFDGUK2eklqc
XKRupaBuk2ahrqOgnpZfVFKUmBefX5SSChJ3S8wpTgWKF2ckFqQC+RoWOgrmmjoKtQpkAy4GEGhIc5CdFVggn5HqAOYzfNhPiN6V
XLHuR0+qQ8rGkzleWqkOGpp80gdyUojWP0pThwYAUEsDBC0AAAAIAAAAIQBdp3Yx//////////8IABQAYTE1OC5ucHkBABAAQAIA
AAAAAAAwAQAAAAAAAJvsF+obEMnIUMZQrZ6SWpxcpG6loG6TZqGuo6Cell9UUpSYF59flJIKEndLzClOBYoXZyQWpAL5GhY6Cuaa
Ogq1CmQDLgYw+LB/fj6L3ISgaAcYf8rW7PJMgTiHIN8NdtMWRzvIfdRJX7M9HiLfkObwyei75/cpMQ6PyzUXrZ8a6/D0BZ/Uxzdx
cP1n2wqlA+ckOngWzP7BWxPr8HvxA/11f4Pg8rjoaRaxj3bnI8yxcw+V/JyaQFDflUeZ3NwFkQ4sX697vrwaiaH+jLR7UIt/DFx8
V3kB95PNsQ6ujB/+ej2MwGn+8doXpRIXoh1g+t/wtWz6cR5hjnG2Kn+ATTSG/j8qq6NzIhHipW9MnOYLxThwyl/deskAt30w+ufS
wssppgj9/c9XnS/4EY6hDwBQSwMELQAAAAgAAAAhAGgK4jD//////////wgAFABhMTU5Lm5weQEAEABAAgAAAAAAAMgAAAAAAAAA
m+wX6hsQychQxlCtnpJanFykbqWgbpNmoa6joJ6WX1RSlJgXn1+UkgoSd0vMKU4FihdnJBakAvkaFjoK5po6CrUKZAMuBjD4sB+d
7q+YZnxNOtoBzG0IQ6PTHIoWTHG8yRPtUPUqtHD1rWiHB/8WbJD+EeMA0z9VqlHyXWUCmj43uDwuesHU6VUacdFwdYXtmWc0VWIJ
6kOhYfbhUVeylNnb6zOa/4gwX/7exr+LrBHue/pLfImiWyRB/RvWPj5ZvyyKZPsI0QBQSwMELQAAAAgAAAAhALxSP5X/////////
/wgAFABhMTYwLm5weQEAEABAAgAAAAAAAD8BAAAAAAAAm+wX6hsQychQxlCtnpJanFykbqWgbpNmoa6joJ6WX1RSlJgXn1+UkgoS
d0vMKU4FihdnJBakAvkaFjoK5po6CrUKZAMuBjD4sD80O2ZJq1CoA4xvKCIbkKkU4nBEdpnh8gleDpv4fiiG3HCAyDekOZy6OyF+
35pwhwiHpVK5z8IdbhXqCbZaRcD173PuN1m3LNJhUlVlic4KV4fzU/l0NM+awuVx0fNS/Wem/QuGq/u9+IH+ur9BGPrQ3RvtnZEY
eivAQVbXNOiBegCG+jUHeOIOzQ2Hi6+Zsji66m24w5q4FdYBdwPh4uINubv/bw9xWMQdl5KXFe6wY+YCiztNQHVQ/XtY0qJW70SY
s2J/1NNJkqEY9sH0w/hRrbXfzk8Id/jDpbFNTCsYQz06rZwkHimfjNC/Y++384+nYeoDAFBLAwQtAAAACAAAACEApPZQDP//////
////CAAUAGExNjEubnB5AQAQAEACAAAAAAAAeAAAAAAAAACb7BfqGxDJyFDGUK2eklqcXKRupaBuk2ahrqOgnpZfVFKUmBefX5SS
ChJ3S8wpTgWKF2ckFqQC+RoWOgrmmjoKtQpkAy4GMPiwnxDtYXNa8rVusgOY25DmQKy+jKdL5brEkyDqHyQQrQ9Gh/xp/P7KM4lk
fSOFBgBQSwMELQAAAAgAAAAhAHY95xD//////////wgAFABhMTYyLm5weQEAEABAAgAAAAAAAJYBAAAAAAAAm+wX6hsQychQxlCt
npJanFykbqWgbpNmoa6joJ6WX1RSlJgXn1+UkgoSd0vMKU4FihdnJBakAvkaFjoK5po6CrUKZAOuwvbMM5pPAh0YQKAhzEHuo076
mu3+OPhuUDrNoXrhw211VyMcnv4SX6LoFulw4Omy/OYXkQ6PL51aK3/DxyH7ad0zwbYYhwVTp1dpxHk7HJFdZrh8gpXDj5UyjM9l
ghz+Nd5buedeMNwedHr11N8z3SU8MMQfKvoxxR5BuPfQju8BBvrBDkxyE3a+nB8ENx/mr0nJj/9ubQtx+HEy5bbYjgiHean+M9P+
BTss/8H8/mpwpIPznoLTgZHBDoqM8f5P2APg5q6TW6fzLSjCQbKjo1yrOQKuv/BQQ92FdxEOt6xk97NnINwRyf5HQGtNsEOJtd8r
Lb0IuH6wPMOH/fN2ltssnhfhcOHLvmPfHUIc+uOz96l9DoS7s17gVN2FzyEOTAV8/xZeD3E4+Hv2z2aXCIfyn4/YPS4FOXgGLnxQ
0B3i8KK8vONqTYiDPCheykMcAFBLAwQtAAAACAAAACEAXad2Mf//////////CAAUAGExNjMubnB5AQAQAEACAAAAAAAAMAEAAAAA
AACb7BfqGxDJyFDGUK2eklqcXKRupaBuk2ahrqOgnpZfVFKUmBefX5SSChJ3S8wpTgWKF2ckFqQC+RoWOgrmmjoKtQpkAy4GMPiw
f34+i9yEoGgHGH/K1uzyTIE4hyDfDXbTFkc7yH3USV+zPR4i35Dm8Mnou+f3KTEOj8s1F62fGuvw9AWf1Mc3cXD9Z9sKpQPnJDp4
Fsz+wVsT6/B78QP9dX+D4PK46GkWsY925yPMsXMPlfycmkBQ35VHmdzcBZEOLF+ve768Gomh/oy0e1CLfwxcfFd5AfeTzbEOrowf
/no9jMBp/vHaF6USF6IdYPrf8LVs+nEeYY5xtip/gE00hv4/KqujcyIR4qVvTJzmC8U4cMpf3XrJALd9MPrn0sLLKaYI/f3PV50v
+BGOoQ8AUEsDBC0AAAAIAAAAIQAnhzV5//////////8IABQAYTE2NC5ucHkBABAAQAIAAAAAAADIAQAAAAAAAJvsF+obEMnIUMZQ
rZ6SWpxcpG6loG6TZqGuo6Cell9UUpSYF59flJIKEndLzClOBYoXZyQWpAL5GhY6CuaaOgq1CmQDLgYw+LC/7/Dhjl+8tg7F3BX3
1vw2drB5FHkuIt/IwfyofMX6eWoOB7wsdy29LuYAVt6Q5qApePnNyvlODvtO3daa5ejgwKJnXivtYu0wYS/T/M+cBg4pcZYBpdb6
DkcdXPYESyo4XK5QiJc4LuIAs0+lsNxpnq+Ng6bd9gL3HCuH5d0xsV+vmDqIXJ6k6lJk6JDBW9sv+1vNISo68NF+Pk2HwCAZs4ZI
Jwd09z712JWd+NfMwdQuWm3HZWMHxYje38k9hg7+r3tWM242cLCd+Kf09lNHhyWMl6cZhzk7cB1QaGWvt3VwDZ2fuoHBwWH11N8z
3SUsHLLiQpmVekwcXk7KWZv6zdxB9oW6xR91NwdV9naZzj0uCP0LJy1S53Zy+GT4sHmJqJXDpXc3fm7vsHU4IrvMcPkEK4f81rbu
y+HucP0w9/Kus3Fp/+vsIKtrGvRA3QEuznRzjaj7HBs4H0ZfPrRPJHcOQr9tebEZN7uTQ0JWRuv1hY4Onx9PavlV5+gAAFBLAwQt
AAAACAAAACEAy9M3SP//////////CAAUAGExNjUubnB5AQAQAEACAAAAAAAA1wEAAAAAAACb7BfqGxDJyFDGUK2eklqcXKRupaBu
k2ahrqOgnpZfVFKUmBefX5SSChJ3S8wpTgWKF2ckFqQC+RoWOgrmmjoKtQpkA64pW7PLMwXiHDZs7P1ga57oYOceKvk5NcHhQYqX
bPmbJIfFuUFexo3JDl6vbjGKvE9xYACBhjSH2I0+DsdkEh1Uc789T9qT6CC1uZlrWnGSw/zIq2vu2CQ6+EzeJdGqkOIwb6lv9fbA
FIeiConA/Y1Q/Qwf9odNsM93sklwONtWKB04J9HBePkxN4mIJIcSzawoeclkh5oNLXlLc5McJv0zSOliQOiD0TD3xix8+OiLaKKD
n+h2hqaViQ4/VsowPpdJcgj50/j9lWcSXJ/17zUvDr9NcGD72MoqKJDgkPdWTOLc2USHlI+HVm98muBw0HZaZblXgkPCsZsH5f8n
Otgw/1WeYZHgwFObduzJpAQHmH7X9XNPJTonOkQVMHtEH4xzaBNd1ReimujQ9n2F3fT6BIcLUvumMt2Nh+uXzN0l//NHjENweud9
ycMJDh/PlVqsjo53KPDY4DD/VyzcfYatLmsFGWMdpnlMKQ5Pj3Vg6Rfq55VJcPD9ZR+1cnWMw23WSHv1vDiHB92MW23nxcH1AQBQ
SwMELQAAAAgAAAAhAKimxzf//////////wgAFABhMTY2Lm5weQEAEABAAgAAAAAAAMgBAAAAAAAAm+wX6hsQychQxlCtnpJanFyk
bqWgbpNmoa6joJ6WX1RSlJgXn1+UkgoSd0vMKU4FihdnJBakAvkaFjoK5po6CrUKZAMuBjD4sP8h66/yj8LODjB+0BJf8wI5Fzhf
SClGjCnKxYHNdN6JqDBXB5tHkeci8p0cNAUvv1k538nhL5fGNjEthP6vAY6dv5ldHZ68mCh84Z+TQ/3H9y+2XXJy2HnKjnV5oYWD
x+o3+kks1g5LeQRj3j2xcwiyDGZWqnBw4O4+cFNou6PDnp32wR9iHRyCt/LeOlfp4vByUs7a1G/mcPM17bYXuOdYORyRXWa4fIKV
A9cBhVb2eluHvRObsh8HODjYTvxTevupo4P/657VjJsNHFYzOL0rmGjqYGoXrbbjsrGD8sHcR+YfrOH6W7iaufPeWjsEBsmYNUQ6
Oeg++NXQJ6TjkBJnGVBqre/QGBb3amGFscPUi98PHXaygLsD5n5ZXdOgB+oODs3/1D1ZGmQcRC+3mJ7mUXHI4K3tl/2tBrf/y2Ox
bRoZZg639h7j33rPwuEEb/t+/o82EPMa0hwOeFnuWnpdDG5/QJnO63lNeg7np/LpaJ41hbv3ZX/T/h3f7BwAUEsDBC0AAAAIAAAA
IQBiJntJ//////////8IABQAYTE2Ny5ucHkBABAAQAIAAAAAAAB5AAAAAAAAAJvsF+obEMnIUMZQrZ6SWpxcpG6loG6TZqGuo6Ce
ll9UUpSYF59flJIKEndLzClOBYoXZyQWpAL5GhY6CuaaOgq1CmQDLgYw+LB/lKYO7WFzWvK1brJDxtOlcl3iSQ4w8b5pUpofJsc5
4NXfkAaRbwiD0A8S8KsH0gBQSwMELQAAAAgAAAAhACGVYHX//////////wgAFABhMTY4Lm5weQEAEABAAgAAAAAAAIkAAAAAAAAA
m+wX6hsQychQxlCtnpJanFykbqWgbpNmoa6joJ6WX1RSlJgXn1+UkgoSd0vMKU4FihdnJBakAvkaFjoK5po6CrUKZAMuBjD4sH+4
0wbcjpYc+yMcKDUnf44Mk1clbnMK2zPPaKrEOiyYOr1KIy4aro4o+xvSHDbx/VAMueHgwBYjfyGQKYqgewFQSwMELQAAAAgAAAAh
AHAS2wL//////////wgAFABhMTY5Lm5weQEAEABAAgAAAAAAAHAAAAAAAAAAm+wX6hsQychQxlCtnpJanFykbqWgbpNmoa6joJ6W
X1RSlJgXn1+UkgoSd0vMKU4FihdnJBakAvkaFjoK5po6CrUKZAMuBjD4sH+Upg79L/CD+PV9KQ4GplsOvRZIcSBJf0Oag4fNacnX
uslwmpA+AFBLAwQtAAAACAAAACEAqmoY4///////////CAAUAGExNzAubnB5AQAQAEACAAAAAAAAgwEAAAAAAACb7BfqGxDJyFDG
UK2eklqcXKRupaBuk2ahrqOgnpZfVFKUmBefX5SSChJ3S8wpTgWKF2ckFqQC+RoWOgrmmjoKtQpkAy4GMPiwH0w1hDmg8+1YUthq
doc4MBXw/Vt4PcShXuBU3YXPIQ7nXz9aP+1uhEP1wofb6q5GOBhwO1py7I9wCAySMWuIDHLInyPD5FUZ4RD8MPAy59oQh0M7vgcY
6Ac79ET92bKVJ9BBmvVF9L2dwQ4o9qLT6O7CIh7J/kdAa02ww7xU/5lp/4IdOMxmq7x0D3GYlPz479a2EIfC9swzmk8CHTjCHv+T
eBzlwCQ3YefL+UEOdu4c689fiITrf6joxxR7JBBuD1ifSqxD9tO6Z4JtMQ4Lpk6v0oiLdvj3MN9NLCHKYZpUo+S7ygC4+gtf9h37
7hAC4T9IcDAw3XLodUC8w+qpv2e6S3jA7XeQipxQIx7s0C66qi9ENdChPz57n9pnmL1pUNoNbj/Mv78XP9Bf9zcI7l5DEdmATKUQ
BwBQSwMELQAAAAgAAAAhANJGRR7//////////wgAFABhMTcxLm5weQEAEABAAgAAAAAAAIIAAAAAAAAAm+wX6hsQychQxlCtnpJa
nFykbqWgbpNmoa6joJ6WX1RSlJgXn1+UkgoSd0vMKU4FihdnJBakAvkaFjoK5po6CrUKZAMuBjD4sH+Upg496Z9BShdDikOJZlaU
vGSyA0x8P9+O41EJCQ549TekOch91Elfsz3eIeHYzYPy/xPxqwfSAFBLAwQtAAAACAAAACEAqKbHN///////////CAAUAGExNzIu
bnB5AQAQAEACAAAAAAAAyAEAAAAAAACb7BfqGxDJyFDGUK2eklqcXKRupaBuk2ahrqOgnpZfVFKUmBefX5SSChJ3S8wpTgWKF2ck
FqQC+RoWOgrmmjoKtQpkAy4GMPiw/yHrr/KPws4OMH7QEl/zAjkXOF9IKUaMKcrFgc103omoMFcHm0eR5yLynRw0BS+/WTnfyeEv
l8Y2MS2E/q8Bjp2/mV0dnryYKHzhn5ND/cf3L7ZdcnLYecqOdXmhhYPH6jf6SSzWDkt5BGPePbFzCLIMZlaqcHDg7j5wU2i7o8Oe
nfbBH2IdHIK38t46V+ni8HJSztrUb+Zw8zXtthe451g5HJFdZrh8gpUD1wGFVvZ6W4e9E5uyHwc4ONhO/FN6+6mjg//rntWMmw0c
VjM4vSuYaOpgahettuOysYPywdxH5h+s4fpbuJq5895aOwQGyZg1RDo56D741dAnpOOQEmcZUGqt79AYFvdqYYWxw9SL3w8ddrKA
uwPmflld06AH6g4Ozf/UPVkaZBxEL7eYnuZRccjgre2X/a0Gt//LY7FtGhlmDrf2HuPfes/C4QRv+37+jzYQ8xrSHA54We5ael0M
bn9Amc7reU16Duen8ulonjWFu/dlf9P+Hd/sHABQSwMELQAAAAgAAAAhAEarSTj//////////wgAFABhMTczLm5weQEAEABAAgAA
AAAAALYAAAAAAAAAm+wX6hsQychQxlCtnpJanFykbqWgbpNmoa6joJ6WX1RSlJgXn1+UkgoSd0vMKU4FihdnJBakAvkaFjoK5po6
CrUKZAMuBjD4sH+URqUNNu0p3BaT4uAzeZdEq0KKQ8iL5GW1/ckOL20apxbfT3KAqZs5i68+/HMCnC87K7BAPiPVoVVP1sfse4pD
zYaWvKW5SQ4hs1b9uOiY7MDqEnFe1CDRAau9DWkOXq9uMYq8T3GA2U/InQBQSwMELQAAAAgAAAAhANcZPV7//////////wgAFABh
MTc0Lm5weQEAEABAAgAAAAAAANkBAAAAAAAAm+wX6hsQychQxlCtnpJanFykbqWgbpNmoa6joJ6WX1RSlJgXn1+UkgoSd0vMKU4F
ihdnJBakAvkaFjoK5po6CrUKZAMuBjD4sH/2sbvrfiyNc4DxIyYWJrSWxjvcZo20V8+Lc3jQzbjVdl6cg1553Sfe9XEOF6T2TWW6
G+9gw/xXeYZFgoNtSMCjfw0JcP2BNd+2ifxMcDByVW+dPT/eYcrW7PJMAYT5MPPcE4IeqIcmOLy6fmNX2aoEh5mz+OrDPyc47Mj1
s7wkG++wYWPvB1vzRIcXLMfnBl+Nd1gUffNv8KpYh5yrmrMsjyU4tH1fYTe9PsEh5eOh1RufJjiwukScFzVIdCieto17l3eiw9HO
p3EbvsU5uK6feyrRORGuvnr/H/F90UkOfqLbGZpWJjrMj7y65o5NosODFC/Z8jdJDjD3e5SYFVV1JzqEXEgxFNFPcnhp0zi1+H6S
Q0JWRuv1hYkOdbEH0pj3JDsszg3yMm5Mdojd6ONwTCbRQTX32/OkPYkOB22nVZZ7JTiEzFr146JjsoO1xEvBcqNkB3ZOrW8f9yc7
FFVIBO5vTHGQ+6iTvmZ7PNx9K5mLw/t7khxc+3YbHspJhJvv9eoWo8j7FEg4NqQ5AABQSwMELQAAAAgAAAAhAHeRN/L/////////
/wgAFABhMTc1Lm5weQEAEABAAgAAAAAAAMoAAAAAAAAAm+wX6hsQychQxlCtnpJanFykbqWgbpNmoa6joJ6WX1RSlJgXn1+UkgoS
d0vMKU4FihdnJBakAvkaFjoK5po6CrUKZAMuBjD4sJ9S+t/DfDexhCgHGJ8j7PE/iccI/mCjz81ijgk6H4Phvv6KacbXpKMxxLOf
1j0TbItx0Gv7e0XiYKxDQlZG6/WFgQ4wcbCyhjCHogVTHG/yRDtUvQotXH0LYU7fNCnND5Pj4OoWTJ1epRHnDeW7YdhX2J55RlMl
FlUcqA+VTnMAAFBLAwQtAAAACAAAACEAH9P67///////////CAAUAGExNzYubnB5AQAQAEACAAAAAAAAUQEAAAAAAACb7BfqGxDJ
yFDGUK2eklqcXKRupaBuk2ahrqOgnpZfVFKUmBefX5SSChJ3S8wpTgWKF2ckFqQC+RoWOgrmmjoKtQpkAy4GMPiwH5026qrInNkf
6gDjF6xhCa5tDHZAV7eIOy4lLyvc4Wivfs3N2nC4/BqLNRneC8MdjHoZH+RyYuqD0SH2nxfaJoU6uP6euTTELdThbeHpZ406CHtD
s2OWtAqF4tSPTtdaP3DpagjEUL+HJS1q9U6E+0qs/V5p6UU4RHtnJIbeCoCLG4rIBmQqhcD5wn0mknWXwx1WT/09010iwiF/jgyT
V2WEw50fFY/LnD0cnPcUnA6MDHY4IrvMcPkEL4dTdyfE71sT7hDhsFQq9xnCPgNuR0uO/REOpW9MnOYL+ThwHVBoZa+3dTg/lU9H
86wphntf1E9yYfCIgIvDzN/E90Mx5IYDRLwhzQEAUEsDBC0AAAAIAAAAIQAT9RpT//////////8IABQAYTE3Ny5ucHkBABAAQAIA
AAAAAAB2AAAAAAAAAJvsF+obEMnIUMZQrZ6SWpxcpG6loG6TZqGuo6Cell9UUpSYF59flJIKEndLzClOBYoXZyQWpAL5GhY6Cuaa
Ogq1CmQDLgYw+LB/pNFL4uRkuVclOGCVf4BDnBBNgj4D0y2HXgfEO5Cqz8PmtORr3WSI+oY0BwBQSwMELQAAAAgAAAAhAKzb2HD/
/////////wgAFABhMTc4Lm5weQEAEABAAgAAAAAAAJEBAAAAAAAAm+wX6hsQychQxlCtnpJanFykbqWgbpNmoa6joJ6WX1RSlJgX
n1+UkgoSd0vMKU4FihdnJBakAvkaFjoK5po6CrUKZAMuBjD4sB9MNYQ5HDy8fk4ES7ADjO8ZuPBBQXeIw4vy8o6rNSEO8h910teU
hziUWPu90tKLcFgnt07nW1CEQ/4cGSavygiHwCAZs4bIIAcDbkdLjv0RDq1xcp6NWiEOhe2ZZzSfBDrEi6gs2/8iCG4ezB50ul10
VV+IaiB2eST3RrL/EdBaE+zgvKfgdGBksIODVOSEGvFgh9+LH+iv+xvkkOjWcTgmEWj/oYa6C+8i4Ort3DnWn78Q6cAkN2Hny/lB
Do8vnVorf8MHbg/M/Ux1imHOipEO+5z7TdYti3T49zDfTSwhymHB1OlVGnHecPVyoHDZ7u9QvfDhtrqrEQ5Pf4kvUXSLhLuXI+zx
P4nHUQ7TpBol31UGOCRkZbReX+jocER2meHyCVYOhiKyAZlKIXD3scXIXwhkinLw+8h+b7W6D9x8iH1uUDrNAQBQSwMELQAAAAgA
AAAhAEO1F5v//////////wgAFABhMTc5Lm5weQEAEABAAgAAAAAAABABAAAAAAAAm+wX6hsQychQxlCtnpJanFykbqWgbpNmoa6j
oJ6WX1RSlJgXn1+UkgoSd0vMKU4FihdnJBakAvkaFjoK5po6CrUKZAMuBjD4sJ9c+o/K6uicyGgHc+eVU39tj3aAiUtNiFrEkBDj
QEj/qa3bjnkHReFUNz+fRW5CUDRBc2D0v9aQ5nPCkQTVbxaddebqnjgMdVO2ZpdnCmCKq8lKMS9JjXN4wXJ8bvDVeIcu5/2vdtqE
Onxj9jzSypjgEOS7wW7a4miHT0bfPb9PiXF4XK65aP3UWLg5+/l2HI9KSHAIXRh+ZL1StMO8VP+Zaf+CHX4vfqC/7m8Qhn3GwQxL
uhXi4eIw8+U+6qSv2Q4Vb0hzAABQSwMELQAAAAgAAAAhAFw81Iz//////////wgAFABhMTgwLm5weQEAEABAAgAAAAAAALUBAAAA
AAAAm+wX6hsQychQxlCtnpJanFykbqWgbpNmoa6joJ6WX1RSlJgXn1+UkgoSd0vMKU4FihdnJBakAvkaFjoK5po6CrUKZAMuBjD4
sN/DulUp/JarA4wftMTXvEDOBc5PyMpovb7Q0eHz40ktv+ocHfJb27ovh7s7yL5Qt/ij7ubwNcCx8zczQv9fLo1tYlrODh4eK94u
97eHi0++7mosssHRAWYed/eBm0LbHR2CLIOZlSocHJbyCMa8e2LncGvvMf6t9ywc+g4f7vjFa+twYpXy3++RznBzxDISHYKFHRyO
yC4zXD7BymH11N8z3SUsHL48FtumkWHmcH4qn47mWVO4eq6FkxapczvB+coHcx+Zf7B2MLWLVttx2dhhwl6m+Z85DRxsHkWei8g3
coC5n8uTy0jhp4PD1qOnf243sXWYevH7ocNOFg5+J7dpCV/XceAUmSlw9rm2g/lR+Yr189QcNAUvv1k538lh36nbWrMcHeD2rWZw
elcw0dThvWzVkkJTTYdKv56Fd3xlHS5XKMRLHBdxeNnftH/HNzu4f2B0QJnO63lNenDzD3hZ7lp6XQxibkOaAwBQSwMELQAAAAgA
AAAhANcZPV7//////////wgAFABhMTgxLm5weQEAEABAAgAAAAAAANkBAAAAAAAAm+wX6hsQychQxlCtnpJanFykbqWgbpNmoa6j
oJ6WX1RSlJgXn1+UkgoSd0vMKU4FihdnJBakAvkaFjoK5po6CrUKZAMuBjD4sH/2sbvrfiyNc4DxIyYWJrSWxjvcZo20V8+Lc3jQ
zbjVdl6cg1553Sfe9XEOF6T2TWW6G+9gw/xXeYZFgoNtSMCjfw0JcP2BNd+2ifxMcDByVW+dPT/eYcrW7PJMAYT5MPPcE4IeqIcm
OLy6fmNX2aoEh5mz+OrDPyc47Mj1s7wkG++wYWPvB1vzRIcXLMfnBl+Nd1gUffNv8KpYh5yrmrMsjyU4tH1fYTe9PsEh5eOh1Ruf
JjiwukScFzVIdCieto17l3eiw9HOp3EbvsU5uK6feyrRORGuvnr/H/F90UkOfqLbGZpWJjrMj7y65o5NosODFC/Z8jdJDjD3e5SY
FVV1JzqEXEgxFNFPcnhp0zi1+H6SQ0JWRuv1hYkOdbEH0pj3JDsszg3yMm5Mdojd6ONwTCbRQTX32/OkPYkOB22nVZZ7JTiEzFr1
46JjsoO1xEvBcqNkB3ZOrW8f9yc7FFVIBO5vTHGQ+6iTvmZ7PNx9K5mLw/t7khxc+3YbHspJhJvv9eoWo8j7FEg4NqQ5AABQSwME
LQAAAAgAAAAhAH/KJKn//////////wgAFABhMTgyLm5weQEAEABAAgAAAAAAAAcBAAAAAAAAm+wX6hsQychQxlCtnpJanFykbqWg
bpNmoa6joJ6WX1RSlJgXn1+UkgoSd0vMKU4FihdnJBakAvkaFjoK5po6CrUKZAMuBjD4sB+d/r34gf66v0EO6OI9UX+2bOUJhIg3
hGGnYeqB/KWfWcLO1fo5LJg6vUojzhsuD+NPk2qUfFcZ4CD3USd9zXZ/OH9SVWWJzgpXBya5CTtfzg9y+LFShvG5TBCG/iOyywyX
T7BySMjKaL2+0NFh9dTfM90lPBweXzq1Vv6GD4Z7YOoh/DQ4fxPfD8WQGw4Ohe2ZZzSfEPAfkDbP5ivwtLWEuxfdHlzhAePD/Icr
/LHqB9Kw8DRK/bN4rUGAAwBQSwMELQAAAAgAAAAhAH/KJKn//////////wgAFABhMTgzLm5weQEAEABAAgAAAAAAAAcBAAAAAAAA
m+wX6hsQychQxlCtnpJanFykbqWgbpNmoa6joJ6WX1RSlJgXn1+UkgoSd0vMKU4FihdnJBakAvkaFjoK5po6CrUKZAMuBjD4sB+d
/r34gf66v0EO6OI9UX+2bOUJhIg3hGGnYeqB/KWfWcLO1fo5LJg6vUojzhsuD+NPk2qUfFcZ4CD3USd9zXZ/OH9SVWWJzgpXBya5
CTtfzg9y+LFShvG5TBCG/iOyywyXT7BySMjKaL2+0NFh9dTfM90lPBweXzq1Vv6GD4Z7YOoh/DQ4fxPfD8WQGw4Ohe2ZZzSfEPAf
kDbP5ivwtLWEuxfdHlzhAePD/Icr/LHqB9Kw8DRK/bN4rUGAAwBQSwMELQAAAAgAAAAhADF+Z+3//////////wgAFABhMTg0Lm5w
eQEAEABAAgAAAAAAAGYBAAAAAAAAm+wX6hsQychQxlCtnpJanFykbqWgbpNmoa6joJ6WX1RSlJgXn1+UkgoSd0vMKU4FihdnJBak
AvkaFjoK5po6CrUKZAMuBjD4sF9dVop5SaqfA4y/a1XCLP//PnC+5ofb71789HTgkcmtZm30dkjIymi9vjDQIdo7IzH0VoCDrK5p
0AP1ALh6GP/HvKle79+4OUyoqizRWeHqcGKV8t/vkc4ODWFxrxZWODuEZbGk7Xju4hBUeWZGSQiCL5aR6BAs7OBwsMD6966F3g7M
X697vrzqCTef64BCK3u9rcPTiop3XE/0HU5tX+9XwGDmIGT31jXL08GhdeYqn14eV7j6I7LLDJdP8IKrBws3pMH5LyflrE39Zu4g
zf+E+7GEJ9w/pW9MnOYL+ThMgrp/E98PxZAbDg4ilyepuhQZwt0Lsw8WHnnyJ/mesPtj2A9zH8x/sPCAqUMPPxgfZj4sPM2y+Qo8
bT0dAFBLAwQtAAAACAAAACEANtZy0P//////////CAAUAGExODUubnB5AQAQAEACAAAAAAAAswAAAAAAAACb7BfqGxDJyFDGUK2e
klqcXKRupaBuk2ahrqOgnpZfVFKUmBefX5SSChJ3S8wpTgWKF2ckFqQC+RoWOgrmmjoKtQpkAy4GMPiwn1K6b5qU5ofJcQ64+ITo
wvbMM5oqsQ7ZT+ueCbbFENRnYLrl0OuAeIi6hjBUGpe+Bwlo6tMw9PVXTDO+Jh2NYU7G06VyXeJJDh42pyVf6yY7LJg6vUojzpto
/6HTCVkZrdcXBpKtH+ZuAFBLAwQtAAAACAAAACEA2Hx3If//////////CAAUAGExODYubnB5AQAQAEACAAAAAAAAYwEAAAAAAACb
7BfqGxDJyFDGUK2eklqcXKRupaBuk2ahrqOgnpZfVFKUmBefX5SSChJ3S8wpTgWKF2ckFqQC+RoWOgrmmjoKtQpkA671bcbp3as9
HaZJNUq+qwxwONrWeF3pvZuD3Eed9DXb/R3aDi07+uSXl0PpGxOn+UI+Djw77BYsbvF1OLTje4CBfrADk9yEnS/nBzn8WCnD+Fwm
yMHmUeS5iHwnON86eMnEQjlPh/zWtu7L4e4OXwMcO38zuzpMqqos0Vnh6rB66u+Z7hIeDgwg0OAG5ydkZbReX+josPQzS9i5Wj+H
x5dOrZW/4eOw9ejpn9tNbOHyEPuMHMyz+Qo8bS0dAoNkzBoinRwc9j5+IuroDjcX5h+Yeoh4Gpx/RHaZ4fIJVg5+H9nvrVb3gbsf
Fi4Lpk6v0ojzhpvXGBb3amGFMdy9MPtg4QFxXyDcvTD7Ye6DuR8WHjDzYeGFHp4w82HyMPUAUEsDBC0AAAAIAAAAIQBmshIU////
//////8IABQAYTE4Ny5ucHkBABAAQAIAAAAAAABsAQAAAAAAAJvsF+obEMnIUMZQrZ6SWpxcpG6loG6TZqGuo6Cell9UUpSYF59f
lJIKEndLzClOBYoXZyQWpAL5GhY6CuaaOgq1CmQDLgYw+LD/1Ony3ZabQx1g/FtfcsJkZyP4Jld+hE6cEeTwe/ED/XV/gxySZ21I
m8kY6XDlUSY3d0GkA8vX654vr0bC1cP4v3WXXHfZEeiQJ3+S7wm7v8N2iW/BySy+DhE3ohyEugIcQrNY0nY8D3EQb8jd/X97CJz/
2vrFy937PR2siy40qzWFOoQeD56+JQ7hnnmp/jPT/gU7BFWemVES4uxw50fF4zJnDwd1WSnmJal+Dtfq848slg6Eqw/y3WA3bXE0
XD1YuCENzjdfpnpR/KKLA7PcrDoF/1C4f0IXhh9ZrxTt4Fkw+wdvTayD3Eed9DXb4x3EMhIdgoUd4O6F2QcLD7tl28+Vm0Vh2A9z
H8x/sPCAqUMPPxgfZj4sPG+treSKTA1yAABQSwMELQAAAAgAAAAhAGfCGFP//////////wgAFABhMTg4Lm5weQEAEABAAgAAAAAA
AI0BAAAAAAAAm+wX6hsQychQxlCtnpJanFykbqWgbpNmoa6joJ6WX1RSlJgXn1+UkgoSd0vMKU4FihdnJBakAvkaFjoK5po6CrUK
ZAMuBjD4sJ9H5O/JJ/JmDhqe26RvzDB0KOauuLfmt7GDhMmp2qhvRg4nNl+ULS8wcTA/Kl+xfp6Zw1OPXdmJf80cTO2i1XZcNnZQ
jOj9ndxj6PBmVVOm3V9NOH/27G8S1jsNHN50PqngFzZyeM9fb7yJQd/hraVTRW2blkMGb22/7G81hyxf6Wsic1Tg/C3iunazezQc
VBfMnfdQ1chhwl6m+Z85DRyuKZke/tyi7FDp17Pwjq+sw2X5OLEfvMIOttsfL1n3SMrhirLolSgZVQdjll2BO9t0HXQf/GroE9KB
ulsNrh7s7YY0ON8k7tkvjjpFh4AyndfzmvTg7n8vW7Wk0FTT4aiDy55gSQWHA16Wu5ZeF3NQf/ZlR89VCbh7YfbBwqPxzxMHqWn6
cPfC7Ie5D+Y/WHg0hMW9WlhhDA8v9PCEmQ+Th6kHAFBLAwQtAAAACAAAACEADcEfn///////////CAAUAGExODkubnB5AQAQAEAC
AAAAAAAAhwEAAAAAAACb7BfqGxDJyFDGUK2eklqcXKRupaBuk2ahrqOgnpZfVFKUmBefX5SSChJ3S8wpTgWKF2ckFqQC+RoWOgrm
mjoKtQpkA64rVo+zDqyJcvjG7HmklTHBofmI/O7S+mgHO/dQyc+pCQ5cFVPKdvrFOeR+LPqnezbWobA984ymSqxDzMKHj76IJjr4
iW5naFqZ6PBjpQzjc5kkuDyMv8A9qUlJP95hwdTpVRpx0Q5Ltkyft0o1xuHkQUV3pfwEh5oNLXlLc5Mc0o5veqd5IgnO9yyY/YO3
JtbBaUaU7pEjCQ7zI6+uuWOT6HC082nchm9xDuycWt8+7k92cNOtuxV1LNnh//NofvkLSQ7ZT+ueCbolOuxn6lrbypXgYPWHzfa4
ZYLD4twgL+NGhHoGEGhIg/PlPuqkr9ke7+Dat9vwUA7CP9YSLwXLjZId5i31rd4emOLg9eoWo8j7FLj/Ye6F2QcLj19Ln+trVyfB
3QuzH+Y+mP9g4ZEdZnpikkIcPLzQwxNmPkweph4AUEsDBC0AAAAIAAAAIQBYnj/L//////////8IABQAYTE5MC5ucHkBABAAQAIA
AAAAAAA9AQAAAAAAAJvsF+obEMnIUMZQrZ6SWpxcpG6loG6TZqGuo6Cell9UUpSYF59flJIKEndLzClOBYoXZyQWpAL5GhY6Cuaa
Ogq1CmQDLgYw+LD/iOwyw+UTvByeVlS843qi7wAWbkhzOD+VT0fzrKlDUOWZGSUhzg7S/E+4H0t4Olz4su/Yd4cQB+c9BacDI4Md
ErIyWq8vDITrh/Fh5uOiS9+YOM0X8nGA2Q/jw+SjvTMSQ28FYJgjq2sa9EAdUxwXHZrFkrbjeQhcvXhD7u7/20McXvNfF+pN8oWL
6xyVmWofHOTg+nvm0hC3UIe3haefNeqEOqzYH/V0kmSoQ2h2zJJWoVC4+jZDTdNbs4Pg/OVVTZwG+UB1x4Onb4lDqGOWm1Wn4B/q
4PGn5JbwK8Lu9kyLP65ci9APC8+SZxtbOQ8jwhUAUEsDBC0AAAAIAAAAIQC3YZlf//////////8IABQAYTE5MS5ucHkBABAAQAIA
AAAAAADOAAAAAAAAAJvsF+obEMnIUMZQrZ6SWpxcpG6loG6TZqGuo6Cell9UUpSYF59flJIKEndLzClOBYoXZyQWpAL5GhY6Cuaa
Ogq1CmQDLgYw+LAfTDWEORyRXWa4fIKVA4SfBqXdHOQ+6qSv2e7vUNieeUbzSaADR9jjfxKPoxyyn9Y9E2yLcTAw3XLodUA8XD+M
j2I+IRpoP63U73PuN1m3LBKuni1G/kIgUxRB/Ux1imHOipEOT3+JL1F0i8SuHos7DLgdLTn2R5DmHyRasqOjXKuZsH4AUEsDBC0A
AAAIAAAAIQBYnj/L//////////8IABQAYTE5Mi5ucHkBABAAQAIAAAAAAAA9AQAAAAAAAJvsF+obEMnIUMZQrZ6SWpxcpG6loG6T
ZqGuo6Cell9UUpSYF59flJIKEndLzClOBYoXZyQWpAL5GhY6CuaaOgq1CmQDLgYw+LD/iOwyw+UTvByeVlS843qi7wAWbkhzOD+V
T0fzrKlDUOWZGSUhzg7S/E+4H0t4Olz4su/Yd4cQB+c9BacDI4MdErIyWq8vDITrh/Fh5uOiS9+YOM0X8nGA2Q/jw+SjvTMSQ28F
YJgjq2sa9EAdUxwXHZrFkrbjeQhcvXhD7u7/20McXvNfF+pN8oWL6xyVmWofHOTg+nvm0hC3UIe3haefNeqEOqzYH/V0kmSoQ2h2
zJJWoVC4+jZDTdNbs4Pg/OVVTZwG+UB1x4Onb4lDqGOWm1Wn4B/q4PGn5JbwK8Lu9kyLP65ci9APC8+SZxtbOQ8jwhUAUEsDBC0A
AAAIAAAAIQBP0A4Q//////////8IABQAYTE5My5ucHkBABAAQAIAAAAAAAByAAAAAAAAAJvsF+obEMnIUMZQrZ6SWpxcpG6loG6T
ZqGuo6Cell9UUpSYF59flJIKEndLzClOBYoXZyQWpAL5GhY6CuaaOgq1CmQDLgYw+LAfTD1IcADTDWFQOs0BRRymDgs90+jfxbCI
ZLh+FD4efVjtJ1b9KL0fAFBLAwQtAAAACAAAACEA0nFT2///////////CAAUAGExOTQubnB5AQAQAEACAAAAAAAAWAEAAAAAAACb
7BfqGxDJyFDGUK2eklqcXKRupaBuk2ahrqOgnpZfVFKUmBefX5SSChJ3S8wpTgWKF2ckFqQC+RoWOgrmmjoKtQpkAy4GEGhwc5D7
qJO+Zru/g82jyHMR+UYOEPE0hyOyywyXT7BygKnz+8h+b7W6D5QfhkGj6g9zWD3190x3CQ8Hh72Pn4g6ujtYBy+ZWCjn6bBg6vQq
jThvh2lSjZLvKgPg9sP4k6oqS3RWuDowyU3Y+XJ+kMOhHd8DDPSD4fp/rJRhfC4TBHfP40un1srf8HFY+pkl7Fytn4NR6p/Faw0C
HHqi/mzZyhMId48iY7z/E/YADH7pGxOn+UI+DpHsfwS01gTj9B+MTlK45HT6sK/Dv8Z7K/fcC3Z4qOjHFHskELt6hg/7Yfz++Ox9
ap8DHWR1TYMeqAfA/Vv+8xG7x6Ugh0nc95/eWxGEob8g4fF2m16EPEw9AFBLAwQtAAAACAAAACEAVF4rCf//////////CAAUAGEx
OTUubnB5AQAQAEACAAAAAAAARwEAAAAAAACb7BfqGxDJyFDGUK2eklqcXKRupaBuk2ahrqOgnpZfVFKUmBefX5SSChJ3S8wpTgWK
F2ckFqQC+RoWOgrmmjoKtQpkAy4GMPiwP8h3g920xdEOQZVnZpSEODuAhRvSHH4vfqC/7m+Qg3hD7u7/20McmOVm1Sn4hzrM6Oj7
XLg31uEbs+eRVsYEh4SsjNbrCxPh+mF8mPnX6vOPLJYOhPNhdOjC8CPrlYD2Qu2H8dHVodMsX697vrwaCVcXejx4+pa4UJz6LE/0
Zu+7jjBXpqFjp3tGjIPcric17xZi6tO+Yv9ec22Ug+j6k+waDNEOxtmq/AE20Q7z81nkJgQhzFES3+2fXx0B5zudaLx0QD3Kge+6
4uN7sVFw8SOyywyXT4hy4J0U8SP+JW53wuipV573L/mJ8J+q/Nm+jH+hDsf5FNMVmMLg4gBQSwMELQAAAAgAAAAhANTSKXb/////
/////wgAFABhMTk2Lm5weQEAEABAAgAAAAAAAMUBAAAAAAAAm+wX6hsQychQxlCtnpJanFykbqWgbpNmoa6joJ6WX1RSlJgXn1+U
kgoSd0vMKU4FihdnJBakAvkaFjoK5po6CrUKZAMu3Qe/GvqEdBzMj8pXrJ+n5nBZPk7sB6+wAwMINKQ5XK5QiJc4LuKQ5St9TWSO
ikNAmc7reU16Duf7Xd8Lxhg7cIrMFDj7XNvBee3vHus7inD9MH4Gb22/7G81B2OWXYE723QdZs/+JmG908DB7+Q2LeHrOg7vZauW
FJpqwu2H8d9aOlXUtmk5mNpFq+24bOzw1GNXduJfM7h+xYje38k9hnD3TNjLNP8zp4GD6oK58x6qGjl43H9smyxu6rDzlB3r8kIL
B0277QXuOVYOWXGhzEo9Jg4vJ+WsTf1mDuef2HxRtrzAxOGI7DLD5ROsHIIsg5mVKhwclvIIxrx7Yudw6d2Nn9s7bB36Dh/u+MVr
67B8M9/RJlZzB5XCcqd5vjYOLVzN3HlvrR0Cg2TMGiKdoO5zhIQjw4f9m/h+KIbccHA4wdu+n/+jjUNH+U7GyaesHbYePf1zu4kt
XB2Mfsj6q/yjsDNcfM9O++APsQ4OnKbiwlv3Ozi0TlOcqx7p6AAAUEsDBC0AAAAIAAAAIQCeevzt//////////8IABQAYTE5Ny5u
cHkBABAAQAIAAAAAAACzAQAAAAAAAJvsF+obEMnIUMZQrZ6SWpxcpG6loG6TZqGuo6Cell9UUpSYF59flJIKEndLzClOBYoXZyQW
pAL5GhY6CuaaOgq1CmQDLqs/bLbHLRMcFucGeRk3Jju46dbdijqW7MAAAg1pDkUVEoH7G1Mc0o5veqd5IsnBtW+34aGcRAeLqiMl
XoeTHOpiD6Qx70l2yJ4ccrZvUwpcP4xfs6Elb2luksN+pq61rVwJDgvck5qU9OMdErIyWq8vTHSwlngpWG6UDLcfxgfbz/Bhv5/o
doamlYkOMQsfPvoimgjX/2OlDONzGYR75kdeXXPHJtHBaUaU7pEjCXD9MPpsW6F04JxEh4O20yrLvRIcEo7dPCj/H8HP/Vj0T/ds
rEPb9xV20+sTHF5dv7GrbFWCw8xZfPXhnxMc2kRX9YWoJjps2Nj7wdY80YHJ5O+6ieyxDmET7POdbBIcavUe+YfbxTloR+UrKmsn
OOzn23E8KiHBYQdzt+ob0RgHd2+ZqaETEhwKPDY4zP8V66DdMME65kk03J2+v+yjVq6OcTjzWifL+3WMQ90vzo9iP+Lh8h37RQJT
RGPh8jD1AFBLAwQtAAAACAAAACEA3gvdWf//////////CAAUAGExOTgubnB5AQAQAEACAAAAAAAAggAAAAAAAACb7BfqGxDJyFDG
UK2eklqcXKRupaBuk2ahrqOgnpZfVFKUmBefX5SSChJ3S8wpTgWKF2ckFqQC+RoWOgrmmjoKtQpkAy4GMPiwf6DomIUPH30RTXQg
pG7HYZNnIkYpDgamWw69DognqB6Fbkhz+Bf4Qfz6vhSi9cHUg+0TIF4fvWkAUEsDBC0AAAAIAAAAIQCOd1kS//////////8IABQA
YTE5OS5ucHkBABAAQAIAAAAAAAB9AAAAAAAAAJvsF+obEMnIUMZQrZ6SWpxcpG6loG6TZqGuo6Cell9UUpSYF59flJIKEndLzClO
BYoXZyQWpAL5GhY6CuaaOgq1CmQDLgYw+LB/oOgFU6dXacRFOxCl/kGCA0S9N3HqYXRDmoOHzWnJ17rJROuDqc94ulSuSzyJNPvo
SAMAUEsDBC0AAAAIAAAAIQDZiN3w//////////8IABQAYTIwMC5ucHkBABAAQAIAAAAAAADeAAAAAAAAAJvsF+obEMnIUMZQrZ6S
WpxcpG6loG6TZqGuo6Cell9UUpSYF59flJIKEndLzClOBYoXZyQWpAL5GhY6CuaaOgq1CmQDLgYw+LCfVPr860frp92NcDDgdrTk
2B/hkD9HhsmrMsIBJr9myuLoqrfhDrj0l74xcZov5OMwL9V/Ztq/YIdJyY//bm0LcQjNYknb8TwEri/0ePD0LXGhDnIfddLXbPd3
4Dqg0Mpeb+vgvKfgdGBkME7zUeiGNIfC9swzmiqxxKkH0jD1C6ZOr9KIi3bY59xvsm5ZJNH66UUDAFBLAwQtAAAACAAAACEA3gvd
Wf//////////CAAUAGEyMDEubnB5AQAQAEACAAAAAAAAggAAAAAAAACb7BfqGxDJyFDGUK2eklqcXKRupaBuk2ahrqOgnpZfVFKU
mBefX5SSChJ3S8wpTgWKF2ckFqQC+RoWOgrmmjoKtQpkAy4GMPiwf6DomIUPH30RTXQgpG7HYZNnIkYpDgamWw69DognqB6Fbkhz
+Bf4Qfz6vhSi9cHUg+0TIF4fvWkAUEsDBC0AAAAIAAAAIQBKVThX//////////8IABQAYTIwMi5ucHkBABAAQAIAAAAAAABSAQAA
AAAAAJvsF+obEMnIUMZQrZ6SWpxcpG6loG6TZqGuo6Cell9UUpSYF59flJIKEndLzClOBYoXZyQWpAL5GhY6CuaaOgq1CmQDLgYw
+LAfTDWEOaDz56X6z0z7F+zAYTZb5aV7iMOk5Md/t7aFOPRXTDO+Jh3twBH2+J/E4yiHfw/z3cQSohyMUv8sXmsQ4LD8B/P7q8GR
DhNs6xv1BUMcAoNkzBoigyDmN7g5TJNqlHxXGeCAYi8SfctKdj97RiCGeEJWRuv1hY5w/o+VMozPZYIcHKQiJ9SIBztIs76Ivrcz
2KE1Ts6zUSsEqi4NQj9IcJD7qJO+Zrs/3P2/Fz/QX/c3CMPfMPUGplsOvQ6Id8h+WvdMsC0G7l909TD7Ctszz2iqxMLVL5g6vUoj
zhsePs57Ck4HRgbD/QdzP1jfEwQfPTwj2f8IaK0JhodnolvH4ZjEEAcAUEsDBC0AAAAIAAAAIQDf+CuS//////////8IABQAYTIw
My5ucHkBABAAQAIAAAAAAACGAAAAAAAAAJvsF+obEMnIUMZQrZ6SWpxcpG6loG6TZqGuo6Cell9UUpSYF59flJIKEndLzClOBYoX
ZyQWpAL5GhY6CuaaOgq1CmQDLgYw+LB/oOhpFrGPdufHORBSl3Z80zvNE0kO81L9Z6b9CyaoHoVuSHOY9M8gpYshhWh9MPUlmllR
8pLJpNlHRxoAUEsDBC0AAAAIAAAAIQA8knHk//////////8IABQAYTIwNC5ucHkBABAAQAIAAAAAAACwAQAAAAAAAJvsF+obEMnI
UMZQrZ6SWpxcpG6loG6TZqGuo6Cell9UUpSYF59flJIKEndLzClOBYoXZyQWpAL5GhY6CuaaOgq1CmQDLgYw+LCfsShmj8hcCwcY
v+/w4Y5fvLYOXAcUWtnrbR32TmzKfhzg4GA78U/p7aeODu6mB39F9Jk4rGZwelcw0dRh6sXvhw47WTh43H9smyxu6uAaOj91A4OD
Aze31xwuezuHz2+0PkYm2Dtk+UpfE5mj4vBetmpJoammg8jlSaouRYYOy7tjYr9eMXXQtNte4J5j5fDJ8GHzElErB8WI3t/JPY4O
JaZzLKNjJB0q/XoW3vGVdeAUmSlw9rk2VN7Q4ctjsW0aGWYOHqvf6CexWDt4eKx4u9zfHuKfhjSH5n/qniwNMg7mR+Ur1s9Tg7v/
/FQ+Hc2zpg47T9mxLi+0cNjE90Mx5IYDXL3o5RbT0zwqDilxlgGl1vpw/8LC6dK7Gz+3d9jC7dN98KuhT0gHrt7v5DYt4es68PBZ
PfX3THcJC7j/HPXuRK55auvg/7pnNeNmA7h/0MPziOwyw+UTrODh2SV8em/CWwcHAFBLAwQtAAAACAAAACEAbkQvbv//////////
CAAUAGEyMDUubnB5AQAQAEACAAAAAAAA3QAAAAAAAACb7BfqGxDJyFDGUK2eklqcXKRupaBuk2ahrqOgnpZfVFKUmBefX5SSChJ3
S8wpTgWKF2ckFqQC+RoWOgrmmjoKtQpkAy4GMPiwHxfN9rGVVVAgwQFdnPdROo9RerJDyKxVPy46Jju8tGmcWnw/ycE49c/itQaY
6mF02vFN7zRPJDlYS7wULDdKdijRzIqSl0zGqR5Ga3nP22RnlurAzqn17eP+ZIe62ANpzHsI6wNTDWkOsrMCC+QzUolTD6Rh6lv1
ZH3Mvqc4+EzeJdGqkEJQv8GmPYXbYohXTykNAFBLAwQtAAAACAAAACEACtBKKf//////////CAAUAGEyMDYubnB5AQAQAEACAAAA
AAAAiQEAAAAAAACb7BfqGxDJyFDGUK2eklqcXKRupaBuk2ahrqOgnpZfVFKUmBefX5SSChJ3S8wpTgWKF2ckFqQC+RoWOgrmmjoK
tQpkAy4GMPiwvyDh8Xab3iAHdL4D34vytc8CHNoEm6/8kA90+Pl6i9Pu1ECHC1/2HfvuEOLQGifn2agV4mAoIhuQqRTisH/PVufX
oT5w+WlSjZLvKgMcln5mCTtX6+fAlH1GcPkmL4ckhUtOpw/7OvRE/dmylSfQoV10VV+IaqDDLSvZ/ewZgQ7nVk2dk3nM2+FtzleB
W5pBcHOOtjVeV3rv5iD3USd9zXZ/h7ZDy44++eXlUPrGxGm+kI8Dzw67BYtbfB3y5E/yPWH3d7AOXjKxUM7T4cdKGcbnMlD/NbjB
+TD5/Na27svh7nD3JGRltF5fGAi3F2YfjA+Rd4T7C2Y/TH7B1OlVGnHeDroPfjX0CenA+YFBMmYNkU4Of7k0tolpOcP9s4nvh2LI
DQcHm0eR5yLyjaDuTIPrh8nD3H9Edpnh8gleDgBQSwMELQAAAAgAAAAhAJy8oW7//////////wgAFABhMjA3Lm5weQEAEABAAgAA
AAAAAMYAAAAAAAAAm+wX6hsQychQxlCtnpJanFykbqWgbpNmoa6joJ6WX1RSlJgXn1+UkgoSd0vMKU4FihdnJBakAvkaFjoK5po6
CrUKZAMuBjD4sB+dflFe3nG1JsQBlzyYaghzwEqjy+PSj0RLs76IvrczmGj1ZNFEuC+S/Y+A1ppg7P7C4k8muQk7X84Pcpgm1Sj5
rjIAQ53No8hzEflG2MMHSLcdWnb0yS8vqLybwxHZZYbLJ1hB+Wlo+t0c/D6y31ut7uMg91Enfc12fwcAUEsDBC0AAAAIAAAAIQBG
TBoL//////////8IABQAYTIwOC5ucHkBABAAQAIAAAAAAABgAQAAAAAAAJvsF+obEMnIUMZQrZ6SWpxcpG6loG6TZqGuo6Cell9U
UpSYF59flJIKEndLzClOBYoXZyQWpAL5GhY6CuaaOgq1CmQDLgYw+LAfnU7Iymi9vjDQAV08o7G1SXFRgMMfLo1tYlrBDka9jA9y
OYMdfi9+oL/ubxBcPUy+8Y/uPD1LfwxzJqkk90Yf8XaQ+6iTvma7v8Of6ayL7nzwdxDa2nnTxi0Art5RaKEyj3agg7qsFPOSVD+4
+K5VCbP8//tgmMsjk1vN2ujtcLXP1bpDwRcuL6trGvRAPQAnH0bD3JMnf5LvCbu/Q+kbE6f5Qj4OR2SXGS6f4AXnw9QfLLD+vWuh
t4Pmh9vvXvz0hMtPqqos0Vnh6hAVHfhoP58mnC9k99Y1y9PBQTGi93dyj6PD2/fzDq2wd3W4cSSza8M+W4enFRXvuJ7oQ8xvSIPr
h8m/OyZo+d3HxYHj8apZxhkeDgBQSwMELQAAAAgAAAAhAIQ4TfX//////////wgAFABhMjA5Lm5weQEAEABAAgAAAAAAAHgAAAAA
AAAAm+wX6hsQychQxlCtnpJanFykbqWgbpNmoa6joJ6WX1RSlJgXn1+UkgoSd0vMKU4FihdnJBakAvkaFjoK5po6CrUKZAMuBjD4
sH+UJoJ+kOBASN1UqUbJd5UJDhlPl8p1iSdB1De4ofJx6W8Ic0Cl0+D6scuHOQAAUEsDBC0AAAAIAAAAIQAK0Eop//////////8I
ABQAYTIxMC5ucHkBABAAQAIAAAAAAACJAQAAAAAAAJvsF+obEMnIUMZQrZ6SWpxcpG6loG6TZqGuo6Cell9UUpSYF59flJIKEndL
zClOBYoXZyQWpAL5GhY6CuaaOgq1CmQDLgYw+LC/IOHxdpveIAd0vgPfi/K1zwIc2gSbr/yQD3T4+XqL0+7UQIcLX/Yd++4Q4tAa
J+fZqBXiYCgiG5CpFOKwf89W59ehPnD5aVKNku8qAxyWfmYJO1fr58CUfUZw+SYvhySFS06nD/s69ET92bKVJ9ChXXRVX4hqoMMt
K9n97BmBDudWTZ2Teczb4W3OV4FbmkFwc462NV5Xeu/mIPdRJ33Ndn+HtkPLjj755eVQ+sbEab6QjwPPDrsFi1t8HfLkT/I9Yfd3
sA5eMrFQztPhx0oZxucyUP81uMH5MPn81rbuy+HucPckZGW0Xl8YCLcXZh+MD5F3hPsLZj9MfsHU6VUacd4Oug9+NfQJ6cD5gUEy
Zg2RTg5/uTS2iWk5w/2zie+HYsgNBwebR5HnIvKNoO5Mg+uHycPcf0R2meHyCV4OAFBLAwQtAAAACAAAACEABVQVUP//////////
CAAUAGEyMTEubnB5AQAQAEACAAAAAAAALQEAAAAAAACb7BfqGxDJyFDGUK2eklqcXKRupaBuk2ahrqOgnpZfVFKUmBefX5SSChJ3
S8wpTgWKF2ckFqQC+RoWOgrmmjoKtQpkAy4GMPiwX1X+bF/Gv1AHXHx0mlP+6tZLBhEOLdxSH287Rji8qJ/kwuAR4YAuj0t/vrda
QglfMFz+taXjrOgzoQ7sUa8XPr6KsFcqS9L4+Qfc7iCWZvl63fPl1UgHXHwYfa3GP+rciVAHu2Xbz5WbRTmELgw/sl4p2iHId4Pd
tMXRcD5MvXXRhWa1plAHkys/QifOCILLexbM/sFbE+vwclLO2tRv5nC+uqwU85JUPwe5JJH+lR7eDvGKN+4VbvBz2LUqYZb/fx+H
oMozM0pCnCHmN6TB9cPkN/H9UAy5EeDwIJB3ZbhmkAMAUEsDBC0AAAAIAAAAIQATP+Mr//////////8IABQAYTIxMi5ucHkBABAA
QAIAAAAAAACaAQAAAAAAAJvsF+obEMnIUMZQrZ6SWpxcpG6loG6TZqGuo6Cell9UUpSYF59flJIKEndLzClOBYoXZyQWpAL5GhY6
CuaaOgq1CmQDLgYw+LB/z0774A+xDg64+Atzf3pFGjs4vD5zt2L2JwcHWV3ToAfqDg4eHiveLve3d3jZ37R/xzc7uHqY/Najp39u
N7F12CHxLTiZxdYh/mT78fgGM4flm/mONrGaO+w8Zce6vNDC4dbeY/xb71k4fDJ82LxE1Mrh/OaGJdkaFg537vHd1zKxc+AR+Xvy
ibyZg4bnNukbMwwdirkr7q35bewgYXKqNuqbkcOJzRdlywtMHMyPylesn2fmYJ7NV+Bpa+kwe/Y3CeudBg6KEb2/k3sMHXQf/Gro
E9KB82HybzqfVPALG8Hd0/jniYPUNH2H97JVSwpNNaHmqsH5W8R17Wb3aDioLpg776Eqwn6Y/FEHlz3BkgoOU08UmrvNEITzryiL
XomSUXVYPP9T/5dwbbh/quPE67e+UXK4LB8n9oNXGBKODWlw/TB5mPttHkWei8g3cgAAUEsDBC0AAAAIAAAAIQDW2Uqu////////
//8IABQAYTIxMy5ucHkBABAAQAIAAAAAAAC1AQAAAAAAAJvsF+obEMnIUMZQrZ6SWpxcpG6loG6TZqGuo6Cell9UUpSYF59flJIK
EndLzClOBYoXZyQWpAL5GhY6CuaaOgq1CmQDLg8nTgOZzEiHjv0igSmisQ4MYPBhP4zfI+lX9c0m2uGj9LzpYtzRDk2/s1Wnn4ty
+Hiu1GJ1dLyDkat66+z58Q5yH3XS12yPdzhX9E9+0rdIuPynnJLjsnOiHa48yuTmLoh0qDp37ZRqSpQDk8nfdRPZYx1+FXo61drH
O+zI9bO8JBvvEFXA7BF9MM6hOWt+lpd0lMOi6Jt/g1fFOnxj9jzSypjg0HxEfndpfbSDnXuo5OfUBAeuiillO/3iHHI/Fv3TPRvr
UNieeUZTJdZhhfrS/W9LYxwWuCc1KenHO/xYKcP4XCbJweoPm+1xywQ4Hya/YOr0Ko24aLh7fi19rq9dneRgLfFSsNwo2WFxbpCX
cWMynO9ZMPsHb02sg9OMKN0jRxLg9sPk5y31rd4emOIQ8qfx+yvPJDg/+2ndM0G3RIcnl06tlb8RA/fPmodnbj5alejgplt3K+pY
MiQeGtLg+mHyMPcvWnXeKKIhzgEAUEsDBC0AAAAIAAAAIQDg45u7//////////8IABQAYTIxNC5ucHkBABAAQAIAAAAAAABeAQAA
AAAAAJvsF+obEMnIUMZQrZ6SWpxcpG6loG6TZqGuo6Cell9UUpSYF59flJIKEndLzClOBYoXZyQWpAL5GhY6CuaaOgq1CmQDLgYw
+LAfnb7yKJObuyDSoct5/6udNqEOoVksaTuehziIN+Tu/r89xMHvUr6PVXOUg3G2Kn+ATbTDn9QWw0f2MQ4w/d+YPY+0MiY4zEv1
n5n2L9ghqPLMjJIQZwd0e0IqZuWtUI90YIuRvxDIFOUQ5LvBbtriaFT1DWkOLdxSH287RsD1/2sNaT4nHOkQejx4+pY4hPtg9v1e
/EB/3d8guHrR9SfZNRii4XzJ3F3yP3/EwP2nLivFvCTVD26/04nGSwfUoxy0r9i/11wb5TA/n0VuQlC0g0GxnPtEqRiH37pLrrvs
CHRg+Xrd8+XVSAx/ndq67Zh3UBRcHKb/1Ony3ZabQzHUE9LPHvV64eOroQ6vLR1nRZ9B6AcAUEsDBC0AAAAIAAAAIQDOaetQ////
//////8IABQAYTIxNS5ucHkBABAAQAIAAAAAAAD9AAAAAAAAAJvsF+obEMnIUMZQrZ6SWpxcpG6loG6TZqGuo6Cell9UUpSYF59f
lJIKEndLzClOBYoXZyQWpAL5GhY6CuaaOgq1CmQDLgYw+LAfF52QldF6fWGgwzSpRsl3lQEOch910tds93eoXvhwW93VCIenv8SX
KLpFOhx4uiy/+UWkA0xf9tO6Z4JtMQ4Lpk6v0ojzdjgiu8xw+QQrB6z2NIQ5oNMo6hvSUOXR9QH5MPfB7IPIu8HlmeoUw5wVEe77
9zDfTSwhygHmP3Rz5+0st1k8LwIuvvwH8/urwZEOdu4c689fiMRQTygcYfqd9xScDowMJqgeFy3N+iL63k6EfgBQSwMELQAAAAgA
AAAhAJcsf2T//////////wgAFABhMjE2Lm5weQEAEABAAgAAAAAAAGgBAAAAAAAAm+wX6hsQychQxlCtnpJanFykbqWgbpNmoa6j
oJ6WX1RSlJgXn1+UkgoSd0vMKU4FihdnJBakAvkaFjoK5po6CrUKZAMuBjD4sL/NUNP01uwgBxg/2jsjMfRWgMOdHxWPy5w9HMKy
WNJ2PHdxCKo8M6MkxNnBTCl/gWNwqMOK/VFPJ0mGOqj2XXxXdTQErt95T8HpwMhgB64DCq3s9bYOTysq3nE90YfLw+h1m/wPZsYE
Osh91Elfs93f4YjsMsPlE7xQ1TekORj1Mj7I5QyG66+1fuDS1RDowPz1uufLq55w98HsOz+VT0fzrClc/dvC088adULh/EnJj/9u
bQuB+0/I7q1rlqcD3P7lVU2cBvmhDq6/Zy4NcQt1CM2OWdIqFOrQc2Sj6NWLCH/K6poGPVAPgPOtiy40qzWFOoTYf15om4SwD6Zf
XVaKeUmqH0Y4oNPo+oW2dt60cQtw+DOdddGdD/7w8AIAUEsDBC0AAAAIAAAAIQC3jfCW//////////8IABQAYTIxNy5ucHkBABAA
QAIAAAAAAACJAAAAAAAAAJvsF+obEMnIUMZQrZ6SWpxcpG6loG6TZqGuo6Cell9UUpSYF59flJIKEndLzClOBYoXZyQWpAL5GhY6
CuaaOgq1CmQDLgYw+LCfWLqwPfOMpkqsAyF1Oa8rPs1/mehgYLrl0OuAeIj6hjCC+sDUgwRU9Q1pxOkD0ij2wcwhwX+E9KGYT6q5
NKABUEsDBC0AAAAIAAAAIQCDIWkb//////////8IABQAYTIxOC5ucHkBABAAQAIAAAAAAABiAQAAAAAAAJvsF+obEMnIUMZQrZ6S
WpxcpG6loG6TZqGuo6Cell9UUpSYF59flJIKEndLzClOBYoXZyQWpAL5GhY6CuaaOgq1CmQDLlld06AH6gEO/xrvrdxzL9ih9I2J
03whHwcmuQk7X84PclgwdXqVRpy3w+qpv2e6S3g4MIBAgxuUDsOgHfY+fiLq6A7nJ2RltF5f6Ohg8yjyXES+kYPcR530Ndv9HXqi
/mzZyhPo8HvxA/11f4McCtszz2g+CYTLw9RDzElzaI2T82zUCnFIUrjkdPqwr4ODVOSEGvFgh8eXTq2Vv+EDdx/MviOyywyXT7By
+LFShvG5TBDcPdOkGiXfVQbA+TD/BQbJmDVEOsHtx+U/GG0dvGRioZwn3Hy/j+z3Vqv7YFfP8GE/uv1th5YdffLLC+pOL4d4EZVl
+18EORQkPN5u04twb2+v1ny5ZH+HW1ay+9kzAh3aRVf1hagGwsMPAFBLAwQtAAAACAAAACEA4OObu///////////CAAUAGEyMTku
bnB5AQAQAEACAAAAAAAAXgEAAAAAAACb7BfqGxDJyFDGUK2eklqcXKRupaBuk2ahrqOgnpZfVFKUmBefX5SSChJ3S8wpTgWKF2ck
FqQC+RoWOgrmmjoKtQpkAy4GMPiwH52+8iiTm7sg0qHLef+rnTahDqFZLGk7noc4iDfk7v6/PcTB71K+j1VzlINxtip/gE20w5/U
FsNH9jEOMP3fmD2PtDImOMxL9Z+Z9i/YIajyzIySEGcHdHtCKmblrVCPdGCLkb8QyBTlEOS7wW7a4mhU9Q1pDi3cUh9vO0bA9f9r
DWk+JxzpEHo8ePqWOIT7YPb9XvxAf93fILh60fUn2TUYouF8ydxd8j9/xMD9py4rxbwk1Q9uv9OJxksH1KMctK/Yv9dcG+UwP59F
bkJQtINBsZz7RKkYh9+6S6677Ah0YPl63fPl1UgMf53auu2Yd1AUXBym/9Tp8t2Wm0Mx1BPSzx71euHjq6EOry0dZ0WfQegHAFBL
AwQtAAAACAAAACEANnd+4///////////CAAUAGEyMjAubnB5AQAQAEACAAAAAAAAyAEAAAAAAACb7BfqGxDJyFDGUK2eklqcXKRu
paBuk2ahrqOgnpZfVFKUmBefX5SSChJ3S8wpTgWKF2ckFqQC+RoWOgrmmjoKtQpkAy4GMPiwX6Ww3Gmer43Dic0XZcsLTBxM7aLV
dlw2dvA7uU1L+LqOQwZvbb/sbzWHLF/payJzVByOb/krdInN0eHSuxs/t3fYOjAWxewRmWvhYMyyK3Bnm64Dp8hMgbPPtR0q/XoW
3vGVdbgsHyf2g1fY4YjsMsPlE6wcdp6yY11eaOFwfiqfjuZZUwf/1z2rGTcbOJgfla9YP08Nrh7svIY0Bw+PFW+X+9s7LN/Md7SJ
1dzhy2OxbRoZZg4T9jLN/8xpAHcf3L4KhXiJ4yIOjnp3Itc8tXVYyiMY8+6JnQOPyN+TT+TNHJZ3x8R+vWIK998VZdErUTKqcPsD
g2TMGiKdHIIsg5mVKhwc+g4f7vjFa+tgls1X4Glr6TB79jcJ650GDooRvb+TewwdAsp0Xs9r0nM4sUr57/dIZwfu7gM3hbY7OphD
1cP0w+yXMDlVG/XNyMHmUeS5iHwjh8nXXY1FNjg67NlpH/wh1gGuHxY/nwwfNi8RtXK4tfcY/9Z7FvDwAwBQSwMELQAAAAgAAAAh
AJjDoTv//////////wgAFABhMjIxLm5weQEAEABAAgAAAAAAAM4BAAAAAAAAm+wX6hsQychQxlCtnpJanFykbqWgbpNmoa6joJ6W
X1RSlJgXn1+UkgoSd0vMKU4FihdnJBakAvkaFjoK5po6CrUKZAMu7YYJ1jFPoh3CJtjnO9kkODCAwYf9fqLbGZpWJjokZGW0Xl+Y
6FCzoSVvaW6SQ9rxTe80TyQ5PCkqWnOlOcGhTXRVX4hqooNB6nf3iU8SHfYzda1t5UpwqIs9kMa8J9mBnVPr28f9yQ5uunW3oo4l
O/h9ZL+3Wj3G4Vehp1OtfbxD8bRt3Lu8Ex1C/jR+f+WZ5LA4N8jLuBGhHuychjQHI1f11tnz4x2YTP6um8ge68DqEnFe1CDRYX7k
1TV3bBDug9lXVCERuL8xxWFGR9/nwr2xDjNn8dWHf05w+MbseaSVMcHBePkxN4mIJLj/sp/WPRN0S4Tbrx2Vr6isneDw6vqNXWWr
Ehw2bOz9YGue6LCA+Yhr0Gkg7Z7UpKQf7/BjpQzjc5kkB9e+3YaHchIdXrAcnxt8Nd7BPSHogXpogsMK9aX735bGwPXD7OeqmFK2
0y/OYdGq80YRDXEODZpnLt7tiHHo2C8SmCIaC9dvcUuj2cE3xiGqgNkj+mCcw45cP8tLsvHw8AMAUEsDBC0AAAAIAAAAIQCDesKz
//////////8IABQAYTIyMi5ucHkBABAAQAIAAAAAAACiAQAAAAAAAJvsF+obEMnIUMZQrZ6SWpxcpG6loG6TZqGuo6Cell9UUpSY
F59flJIKEndLzClOBYoXZyQWpAL5GhY6CuaaOgq1CmQDLvVnX3b0XJVwuFyhEC9xXMQBxs/gre2X/a3mYMyyK3Bnm66DhMmp2qhv
Rg7LN/MdbWI1dzjgZblr6XUxBwYQaEiD803inv3iqFN08H/ds5pxs4GDzaPIcxH5Rg7iuZODZnGaws2/LB8n9oNX2KHSr2fhHV9Z
uH0T9jLN/8xp4KDhuU36xgxDh1t7j/FvvWcBl4eZD+O/tXSqqG3Tcpg9+5uE9U4DhxObL8qWF5g4cLyrjDbXtoC7H+YeGN/ULlpt
x2Vjh4awuFcLK4zh7mvhaubOe2vt8OWx2DaNDDOH81P5dDTPmsL5q6f+nukuYQFXH7dlnQ6rubVDW69tZ7uojYPH6jf6SSzWDkdk
lxkun2AFCR+GD/tVCsud5vnaOAhP+NmT/crSwaBkr+ZnCyuHT8+mJzJ328DVwfR5eKx4u9zfHi6+9ejpn9tNbB3e89cbb2Kwdygp
0/5V0u7gAABQSwMELQAAAAgAAAAhAOBFeHX//////////wgAFABhMjIzLm5weQEAEABAAgAAAAAAAM8AAAAAAAAAm+wX6hsQychQ
xlCtnpJanFykbqWgbpNmoa6joJ6WX1RSlJgXn1+UkgoSd0vMKU4FihdnJBakAvkaFjoK5po6CrUKZAMu82y+Ak9bSwcGEGhwc4Dx
p0k1Sr6rDICIM3zYj5VuCIPqS3NA4aPLI+mDmX9Edpnh8glWDgumTq/SiPOG2/djpQzjc5kguD5p1hfR93YGw+U38f1QDLnhAOfD
9ON1Jy73APlGqX8WrzVA+HOCbX2jvmAIqn9w0UD181L9Z6b9C8bubyLCgyT3YqEBUEsDBC0AAAAIAAAAIQDSL8W5//////////8I
ABQAYTIyNC5ucHkBABAAQAIAAAAAAABgAQAAAAAAAJvsF+obEMnIUMZQrZ6SWpxcpG6loG6TZqGuo6Cell9UUpSYF59flJIKEndL
zClOBYoXZyQWpAL5GhY6CuaaOgq1CmQDLpHLk1Rdigwdzk/l09E8a+oA44dlsaTteO7i0DpzlU8vj6vDH47lkkrXPBwmqST3Rh/x
dtjE90Mx5IaDAwMINKSh8hk+7Jf7qJO+Zrs/nA+jYeY/rah4x/VE34HrgEIre70t3D7mr9c9X171hOv7M5110Z0P/nD5l5Ny1qZ+
M4fzG8LiXi2scHb4MW+q1/s3bg6aH26/e/HT08FH/me+Z60P3P0w98D40d4ZiaG3AhzMsvkKPG0R9p1UvV6zf1OAQ631A5euhkCH
dZv8D2bGBML5a+JWWAfcDYSrj7gR5SDUFeCw18OXJWK1n4P9pdoXD9KCHHSOyky1Dw6Cq2sz1DS9NTsIIzxw0Ua9jA9yOYNxqm+8
ZqynVB7gAABQSwMELQAAAAgAAAAhAJ41XqH//////////wgAFABhMjI1Lm5weQEAEABAAgAAAAAAAJMAAAAAAAAAm+wX6hsQychQ
xlCtnpJanFykbqWgbpNmoa6joJ6WX1RSlJgXn1+UkgoSd0vMKU4FihdnJBakAvkaFjoK5po6CrUKZAOuBVOnV2nEeTswgMCDBAcU
PsOH/bhoD5vTkq91kyHqGtIcUPh49KGY3xDmYGC65dDrgHiC+iilI9n/CGi9iSPangf/FmyQ/hHjgIs/WGgAUEsDBC0AAAAIAAAA
IQAuKP2w//////////8IABQAYTIyNi5ucHkBABAAQAIAAAAAAACaAQAAAAAAAJvsF+obEMnIUMZQrZ6SWpxcpG6loG6TZqGuo6Ce
ll9UUpSYF59flJIKEndLzClOBYoXZyQWpAL5GhY6CuaaOgq1CmQDrsawuFcLK4wdjsguM1w+wcoBxl899fdMdwkPB4e9j5+IOro7
tB1advTJLy+HJIVLTqcP+zowgECDG5ROg/Nh5hS2Z57RfBII5Xs5rG8zTu9e7Qk33+ZR5LmIfCOHhKyM1usLHeH2Pb50aq38DR+H
o22N15Xeuzm0i67qC1ENhMvDzIfxJ1VVluiscHWwDl4ysVDO06H0jYnTfCEfB/WzMqUFBX5w98PcA+MzyU3Y+XJ+kMOCqdOrNOK8
4e57qOjHFHsEqE4qckKNeLDD78UP9Nf9DYLznfcUnA6MDIarh7g/0OH+3RtTwywDHKRZX0Tf2xnsEMn+R0BrTTAkXBg+7P/XeG/l
nnvBDr29WvPlkv0dXJbHxb9m8HX4PT/ftsbBzyG5Q1Bn031/B7mPOulrtvs7tMbJeTZqhcDDY5pUo+S7ygCHaO+MxNBbAQ43/ls4
mNkHOgAAUEsDBC0AAAAIAAAAIQA/qIFp//////////8IABQAYTIyNy5ucHkBABAAQAIAAAAAAABhAQAAAAAAAJvsF+obEMnIUMZQ
rZ6SWpxcpG6loG6TZqGuo6Cell9UUpSYF59flJIKEndLzClOBYoXZyQWpAL5GhY6CuaaOgq1CmQDLrGMRIdgYQeH34sf6K/7G+QA
44dmsaTteB7icK0+/8hi6UCHJ3183jM8ghwYwODDfrmPOulrtsdD+A1pDih8oDxbjPyFQKYoOB9Gw8wPqjwzoyTE2WFeqv/MtH/B
cPtCjwdP3xIXCtf32tJxVvSZULi8+TLVi+IXXeD8iBtRDkJdAQ6/dZdcd9kR6GBy5UfoxBlBDkETUlOWWgfD3Q9zD4x/5VEmN3dB
pMOttZVckalBDmVPns3LKQxwkMir2/fgUajDv9aQ5nPCkQ4hFbPyVqhHwvmujB/+ej2MgLtv7fLXaTz3Qh3Kbv6X5N4b7GCTHruy
ZXqEQ5pKkMCPhQh1SuK7/fOrIzDCAxfdwi318bYjbvVHNcy38lmFOAAAUEsDBC0AAAAIAAAAIQCDesKz//////////8IABQAYTIy
OC5ucHkBABAAQAIAAAAAAACiAQAAAAAAAJvsF+obEMnIUMZQrZ6SWpxcpG6loG6TZqGuo6Cell9UUpSYF59flJIKEndLzClOBYoX
ZyQWpAL5GhY6CuaaOgq1CmQDLvVnX3b0XJVwuFyhEC9xXMQBxs/gre2X/a3mYMyyK3Bnm66DhMmp2qhvRg7LN/MdbWI1dzjgZblr
6XUxBwYQaEiD803inv3iqFN08H/ds5pxs4GDzaPIcxH5Rg7iuZODZnGaws2/LB8n9oNX2KHSr2fhHV9ZuH0T9jLN/8xp4KDhuU36
xgxDh1t7j/FvvWcBl4eZD+O/tXSqqG3Tcpg9+5uE9U4DhxObL8qWF5g4cLyrjDbXtoC7H+YeGN/ULlptx2Vjh4awuFcLK4zh7mvh
aubOe2vt8OWx2DaNDDOH81P5dDTPmsL5q6f+nukuYQFXH7dlnQ6rubVDW69tZ7uojYPH6jf6SSzWDkdklxkun2AFCR+GD/tVCsud
5vnaOAhP+NmT/crSwaBkr+ZnCyuHT8+mJzJ328DVwfR5eKx4u9zfHi6+9ejpn9tNbB3e89cbb2Kwdygp0/5V0u7gAABQSwMELQAA
AAgAAAAhALGAlwX//////////wgAFABhMjI5Lm5weQEAEABAAgAAAAAAAL8BAAAAAAAAm+wX6hsQychQxlCtnpJanFykbqWgbpNm
oa6joJ6WX1RSlJgXn1+UkgoSd0vMKU4FihdnJBakAvkaFjoK5po6CrUKZAOumIUPH30RTXQoqpAI3N+Y4gDj12xoyVuam+Swn6lr
bStXggNXxZSynX5xDkwmf9dNZI918Hp1i1HkfYoDAwg0pMH5ch910tdsj3cI+dP4/ZVnksOiVeeNIhriIOoYPuyHme+mW3cr6liy
Azun1reP+5Ph9s2PvLrmjk2iQ/MR+d2l9dEOO3L9LC/JxsPlYebD+CcPKror5Sc4LHBPalLSj3fI/Vj0T/dsrMM7rzK1wztj4O6H
uQfG9xPdztC0MtEhO8z0xCSFOIcrVo+zDqyJcqjVe+QfbhfnwOoScV7UINGheNo27l3eiXB+ysdDqzc+TYCrn2YR+2h3fpzDvrdx
dz5fiXZQCHtUsDs3waHt+wq76fUJDgd0m8TlZ0Y5hE2wz3eySXCwuKXR7OAb45DseNz47OlIhwnBv9c01UU67GDuVn0jGuPg95H9
3mr1GAcjV/XW2fPjHVi+Xvd8eTXS4VNOyXHZOdEObJeiNXa7RzuwTphu+v19lAMAUEsDBC0AAAAIAAAAIQDM1OW2//////////8I
ABQAYTIzMC5ucHkBABAAQAIAAAAAAAB5AAAAAAAAAJvsF+obEMnIUMZQrZ6SWpxcpG6loG6TZqGuo6Cell9UUpSYF59flJIKEndL
zClOBYoXZyQWpAL5GhY6CuaaOgq1CmQDLgYQaEhz2FPocs72c6oDmM/wYT8hesdhk2ciRikOMjYTbpmqpzjw2Kav5+JIIVr/KE0d
GgBQSwMELQAAAAgAAAAhAHq5K3D//////////wgAFABhMjMxLm5weQEAEABAAgAAAAAAANEAAAAAAAAAm+wX6hsQychQxlCtnpJa
nFykbqWgbpNmoa6joJ6WX1RSlJgXn1+UkgoSd0vMKU4FihdnJBakAvkaFjoK5po6CrUKZAMuBjD4sB+djmT/I6D1Js4BzG0IQ6PT
HOrPMXEucI91YDLweHjwfqxD/JqAgK56qHqg/vpTkuVrlsXD9fVE/dmylSfQAd0edPrpL/Elim6RcHXLfzC/vxocSVAfCg1zJx51
euFSF9h9Ih2IVQ+j38+ZuGfzwQi4evbz/A31S8IJ6ldZYeyyJjmCZPsI0QBQSwMELQAAAAgAAAAhALGUkVz//////////wgAFABh
MjMyLm5weQEAEABAAgAAAAAAAJEAAAAAAAAAm+wX6hsQychQxlCtnpJanFykbqWgbpNmoa6joJ6WX1RSlJgXn1+UkgoSd0vMKU4F
ihdnJBakAvkaFjoK5po6CrUKZAMuBjD4sH+400rGD872F4c7UGqO54byzxr3cJuz/Afz+6vBkQ5Pf4kvUXSLhKsrPNRQd+FdBH77
G9IcbB5FnovIN3IobM88o6kSS9C9AFBLAwQtAAAACAAAACEAMoLvZ///////////CAAUAGEyMzMubnB5AQAQAEACAAAAAAAAfAAA
AAAAAACb7BfqGxDJyFDGUK2eklqcXKRupaBuk2ahrqOgnpZfVFKUmBefX5SSChJ3S8wpTgWKF2ckFqQC+RoWOgrmmjoKtQpkAy4G
MPiwf6TR0nYmOz+mxTqgi5csZfb2+hyNIU6IJlVf1avQwtW3oh1I1fcv8IP49X0pEPUNaQ4AUEsDBC0AAAAIAAAAIQCKUq3S////
//////8IABQAYTIzNC5ucHkBABAAQAIAAAAAAACmAQAAAAAAAJvsF+obEMnIUMZQrZ6SWpxcpG6loG6TZqGuo6Cell9UUpSYF59f
lJIKEndLzClOBYoXZyQWpAL5GhY6CuaaOgq1CmQDrt4q9eodUoEOz558V1u1Pthh3/r0pZ58gQ6R7H8EtNYEO0xNzPjRGBLksNZt
bqhTRJDDCYPFq3Pighxk9q4Jclsc4iDMoe+nMS/E4UC40wHG2SEOL/ub9u/45gfnX7t1bu0F8UCH083Te2WM/B1ao0S93rh4OSQp
XHI6fdjX4cBRc7e/QoEOPVF/tmzlCYTzJ225Ob/7o6fDLc3l3hFOgQ7nVk2dk3nM24HLk8tI4acDXP7ZB+kvMs+dHSJXf2P4ruvi
oLJxjkLoFxcHsVvZCebibg5HZJcZLp9g5cAAAg1uDtVx4vVb3yhB+Wlwvu6DXw19QjoONo8iz0XkOzk8VPRjij0S6HDLSnY/e0ag
Q7voqr4QVYQ79526rTXL0cGBKfuM4PJNXnD77gX93fr5ZLCDNOuL6Hs7gx3q/0hGhO71hIen23vVTdun+MLdDwsPmPmw8EIPz/w1
M+438SPkYeoBUEsDBC0AAAAIAAAAIQBd93oS//////////8IABQAYTIzNS5ucHkBABAAQAIAAAAAAABOAQAAAAAAAJvsF+obEMnI
UMZQrZ6SWpxcpG6loG6TZqGuo6Cell9UUpSYF59flJIKEndLzClOBYoXZyQWpAL5GhY6CuaaOgq1CmQDLgYw+LBf7qNO+prt8Q7n
p/LpaJ41dQALN6Q5QMT9HX4vfqC/7m+Qg6GIbECmUohDrd4j/3C7OIeoAmaP6INxDjty/SwvycbD1cP4bwtPP2vUCXU4qXq9Zv+m
AAeYfTDaJaip12d+hEOaSpDAj4URDjA+TP7aN6b3Tt0RGPpMHLzr17wJh4uv/7JzjShbGIY6GC3A9yrP4AfCnK0nrGe7/45wiBRO
OVOqgltfZHTvpOKaCIe5rxikltdGOJjEHZTgq0OYY8GccZc3GuGO94F+10+qRzhUnM468UkDoY5t0jTJR5oRDhof9Ce8ccJtH4y+
WX+jMOQtwtxfGZJPF3uHOXDfNHDe4o3QDwBQSwMELQAAAAgAAAAhAO32AWj//////////wgAFABhMjM2Lm5weQEAEABAAgAAAAAA
ANsBAAAAAAAAm+wX6hsQychQxlCtnpJanFykbqWgbpNmoa6joJ6WX1RSlJgXn1+UkgoSd0vMKU4FihdnJBakAvkaFjoK5po6CrUK
ZAMuBjD4sL9axTDHgM3DAcY/+uD0fj0tDwfLi2d2PT/u5nC0rfG60ns3B4Vf3qVfZN0dAp/tbWyc7OrwzHLR8XmzXR3yudR7Dm52
dfi/btKMp+mODp92v1/nL+jm8IdLY5uYlrPD/y4zBm9VJ4edp+xYlxdaOFxQ+PTi0Vorh0vvbvzc3mHrEL/mfqmvrJ3DUh7BmHdP
7BwshOd1tX2wcgiyDGZWqnBwUBM86xbBo+/wVvKIvZmklsPe856XXi43cFi2MmQrg6OBw0F/tdvbDhg6NIbFvVpYYewgvqv62tkQ
U4h/GtIcLqQkGoXO4XE44GW5a+l1MYfFhy6XONuqOpgfla9YP0/N4V7C/0MnZms62DyKPBeRb+RQv+NU9MIoQ4epvQwb9NYaOqzI
ddgrOMvIIYYhXIaZzQQeTivm/1sWW2QKt881dH7qBgYHhysfvTmlBR0cbu09xr/1noXDkZ5oFfYJDg4qheVO83xt4P5r4Wrmzntr
DbXXyWHbi6vz1MudMMKT94jR9EsvnODhuU5wTpJ4ubMDAFBLAwQtAAAACAAAACEAk2ESl///////////CAAUAGEyMzcubnB5AQAQ
AEACAAAAAAAA2gEAAAAAAACb7BfqGxDJyFDGUK2eklqcXKRupaBuk2ahrqOgnpZfVFKUmBefX5SSChJ3S8wpTgWKF2ckFqQC+RoW
OgrmmjoKtQpkAy5HF/fFHDvDHXg3anj3BEc6MIDBh/0w/l7WG9217REOJh/W5ha3RTiopNd3MLZGOMgwcQi1rIpykNhi989gTZTD
FavHWQeAdNK9+4fd3obD5f8F9MgsvhXhsLfK8afXq3CHe78uB/WZRDh0yzWtcwWavyf70QSpzCiHgv6+M+EZUQ5yhlbqQmlRDqt2
Jz+7YRTh0HCBc5ZSbJTDprn62x75RDsYLrpt67MwwmF+PovchKBoh4Sj3GZ2jFEOfexzAzj/RToc1RJuPPIj0mHSlpvzuz9GOvC9
dlmsKxTtsOfruQQJqziH/oppxtekEXyY/NNf4ksU3SIdIr8vtY+cGOOgEPaoYHdugsO/t8xZfNUJDm3fV9hNr0fwD+g2icvPjHJY
MGvK20tf4xzeeZWpHd4Z45Bzr9YkaXGSg9qjIwwvzyU5/Fr8QH+dbRycfyA6SZJjToKD5c6sDQV+sQ5KSupZK4/FOLjp1t2KOpbs
sIa5jkNULBUSDw1pDjsOmzwTMUqByzOv43+hsTDJYc3DMzcfrUp0AABQSwMELQAAAAgAAAAhAO99cGL//////////wgAFABhMjM4
Lm5weQEAEABAAgAAAAAAABoBAAAAAAAAm+wX6hsQychQxlCtnpJanFykbqWgbpNmoa6joJ6WX1RSlJgXn1+UkgoSd0vMKU4Fihdn
JBakAvkaFjoK5po6CrUKZAMuBjD4sB8XLc36IvrezmCHZ0++q61aH+wQyf5HQGtNsMOi17cjHcSjHCbMl/E4XBTlIDKZ673qtSgH
mD61o48cfkyPdmgXXdUXohrosL7NOL17tacDVnsawhzQad0Hvxr6hHSg/DRUeXR9QP4tK9n97BmBcPt6ov5s2coTCJd/dSjbRYIz
Es5XWsvkxWMW6QDzH7q5Wy+vFFnhHOHAYBBgneQb4bBXJfnG5dAIh6dOwWt3xkTgdAcuWuuhz6fSl+EOtz50vg0SCSWoHhf90+BD
fUM0Qj8AUEsDBC0AAAAIAAAAIQCT1vlW//////////8IABQAYTIzOS5ucHkBABAAQAIAAAAAAABpAQAAAAAAAJvsF+obEMnIUMZQ
rZ6SWpxcpG6loG6TZqGuo6Cell9UUpSYF59flJIKEndLzClOBYoXZyQWpAL5GhY6CuaaOgq1CmQDrkvvbvzc3mHrwAACDW4OMD7T
xLJZ9/vdHeYxKn9Y/NTZIScredM8S1cH1fkng7iWujnYPIo8F5FvBNWXhspn+LAfZh4KH0jDzE/UsFpw6Yijg+XFM7ueH3eD21dx
Qutb70YPuL4FU6dXacR5O5TpLJC2P+bv8EIxhnUxowecP0kluTf6iLfD/lPXVKJEfBx85H/me9b6OMTfO9HV8tPHgeVqqCeHU4BD
JPsfAa01wXC+/KIqg6hNwQ7HIsIsfKMC4Pb9WCnD+FwmyOFCrMqhzXEhDrNvr33PDqRh/D1ra4s2J4TA1ed7qyWU8AU7fPJe17L+
fKDDfY0PuzNOhTh82SzFIHAKoU6JVWdt4ekQjPDARc9TVLDZKRSKU33SO8W2CqdgBwBQSwMELQAAAAgAAAAhAAK8QIv/////////
/wgAFABhMjQwLm5weQEAEAAwAgAAAAAAAJEAAAAAAAAAm+wX6hsQychQxlCtnpJanFykbqWgbpNmoa6joJ6WX1RSlJgXn1+UkgoS
d0vMKU4FihdnJBakAvkaZjoKlpo6CrUKZAMuBhBoSHOweFhzVfj4a3umGpf35yLTHMDiDB/2E0s/mv1Jo9z7o/0/lmOJIXFpDoe7
dt2/Fku6OR/vLEpODkhzeBolt4MrhnT9w50GAFBLAwQtAAAACAAAACEApEbjKf//////////CAAUAGEyNDEubnB5AQAQADACAAAA
AAAA2gAAAAAAAACb7BfqGxDJyFDGUK2eklqcXKRupaBuk2ahrqOgnpZfVFKUmBefX5SSChJ3S8wpTgWKF2ckFqQC+RpmOgqWmjoK
tQpkAy4GMPiwnxAdfnP5A5N3yQ4w/uUKhXiJ4yIQfkOaA7p6gw1dfIWXEzDE0WmZWZ67LU0+2Lt7y0wNNUAzpyEMp/6ksHN+81+m
4JT/lvb9bbGZBVy+/aSrzMePyRjqVZ992dFzVYKgO338L+x6cgO3f07d2rrbZAVu96DTyUqlB5XiknCqL3ui8ebQ3BQHrewo7scO
qXB1AFBLAwQtAAAACAAAACEA67XcvP//////////CAAUAGEyNDIubnB5AQAQADACAAAAAAAAbQAAAAAAAACb7BfqGxDJyFDGUK2e
klqcXKRupaBuk2ahrqOgnpZfVFKUmBefX5SSChJ3S8wpTgWKF2ckFqQC+RpmOgqWmjoKtQpkAy4GMPiwf5TGTuftWtR9OiHN4c+P
jeXBoWkOFJnXkOZwbgrDCjkKzAEAUEsDBC0AAAAIAAAAIQB6uHC+//////////8IABQAYTI0My5ucHkBABAAMAIAAAAAAAB3AAAA
AAAAAJvsF+obEMnIUMZQrZ6SWpxcpG6loG6TZqGuo6Cell9UUpSYF59flJIKEndLzClOBYoXZyQWpAL5GmY6CpaaOgq1CmQDLgYw
+LB/qNECl5bxcISmOQy0O3DRBrzV075YpjlcE5FrvZtHvjtT5k+Y1VMG1d+Q5gAAUEsDBC0AAAAIAAAAIQCF4Rkk//////////8I
ABQAYTI0NC5ucHkBABAAMAIAAAAAAAAfAQAAAAAAAJvsF+obEMnIUMZQrZ6SWpxcpG6loG6TZqGuo6Cell9UUpSYF59flJIKEndL
zClOBYoXZyQWpAL5GmY6CpaaOgq1CmQDLgYw+LAfRs+5+KxrdUyqg96SNpuZnqkOMHG71dOOzedIc0BXv2zW+8MqMxHqnGZE6R45
kuDQ94nReq5AmsPGa+YfH/z7bL/99AYrxuXf7dH1w+jEtRMsxP4jzNk3bet0xY8I/ruEyyWWJx7Yn0stqOvmvmHPfn89l1wQpntw
0eVNP5vCHdMcpI2T0p4dEoXoa0hzCPnT+P2VZxJOcw7NjvO4dTfVAd3/MXbX2Is2pjqcMsuy1fS8Zb+L7Qx3XggJ7ml5Gxsoi1Df
lidV5CNliKH/x62kE98VEOoAUEsDBC0AAAAIAAAAIQAMXBvL//////////8IABQAYTI0NS5ucHkBABAAMAIAAAAAAACmAAAAAAAA
AJvsF+obEMnIUMZQrZ6SWpxcpG6loG6TZqGuo6Cell9UUpSYF59flJIKEndLzClOBYoXZyQWpAL5GmY6CpaaOgq1CmQDLgYw+LAf
nfYL6OCuKElzAHMb0hwC1nXO9CmD8rGox0W/VV3JdsY6zUHn0Y+oZ0lpDh57bazEREg3B53+qXV8oUE25eag0z2/DsSISCPMTfv3
bFuvB/n22H8t2LBHm3ruBABQSwMELQAAAAgAAAAhAPkj/Qr//////////wgAFABhMjQ2Lm5weQEAEAAwAgAAAAAAANsAAAAAAAAA
m+wX6hsQychQxlCtnpJanFykbqWgbpNmoa6joJ6WX1RSlJgXn1+UkgoSd0vMKU4FihdnJBakAvkaZjoKlpo6CrUKZAMuBjD4sJ8Q
fevI+4hrj1McYPzjN88rJfgnOGRYvjf8IZzsQKw5uGjGb59u7eBPdZj+SiHGqYbdwZ9DYJX6m1Sc5sY4/+Pgy8YtD6Ya0hyEC9Ju
5OS8sZeq/L71gkQaye7kaHb8xWaU5lCTPvdGthRCv58oX92eQwZwflLI18LmRgLuIYFWWLmFYaVvqsPjKVJvnJIR5gIAUEsDBC0A
AAAIAAAAIQBjNU7Q//////////8IABQAYTI0Ny5ucHkBABAAMAIAAAAAAADRAAAAAAAAAJvsF+obEMnIUMZQrZ6SWpxcpG6loG6T
ZqGuo6Cell9UUpSYF59flJIKEndLzClOBYoXZyQWpAL5GmY6CpaaOgq1CmQDLgYw+LCfEO2VeSXJlDPNAcYvubpASedkqgOx+gnR
lxJy2RI4EOYTor9Mc9uZYk68enRa8GW5zT+xNIcFTSVL7D4Q7488+33v4mTSHOY9i/n5LyLNYf+ZB9sTN76w/3d6yqWUEEz3JCUt
XLAjMwVDvGP1bbO3WVD1DWkOMzTqmXvsEPo5Y7edk3PDNA8AUEsDBC0AAAAIAAAAIQB8hQH2//////////8IABQAYTI0OC5ucHkB
ABAAMAIAAAAAAADeAAAAAAAAAJvsF+obEMnIUMZQrZ6SWpxcpG6loG6TZqGuo6Cell9UUpSYF59flJIKEndLzClOBYoXZyQWpAL5
GmY6CpaaOgq1CmQDLgYw+LAfnT75mO/sU5c0BxhfbPec8qI4BJ8QnclgXnnZDaFe7sK1zqWiaQ4pvVxb006nwsVvHF830SwjzcHZ
PZE1qpx489/wxWzRTk1zsHkUeS4i3wiir8ENShNvzvOyf2FRkQj19570VdcnpjnIN2u9sUgh3pyIwt0LLBIw1V/Su7OUiQRzYHTX
mdnd8UDzlEXnPk9PRegHAFBLAwQtAAAACAAAACEAagTGXv//////////CAAUAGEyNDkubnB5AQAQADACAAAAAAAAFAEAAAAAAACb
7BfqGxDJyFDGUK2eklqcXKRupaBuk2ahrqOgnpZfVFKUmBefX5SSChJ3S8wpTgWKF2ckFqQC+RpmOgqWmjoKtQpkA67XnJdPpJR+
tD/j4NQofPym/YbbLY/f/0l1sGvRVM6tTXVgAIMP+xsWXc8xvY3g//AyPM77LMXBdMme4mrlVAfns95rTsbdsQdLN6Q5BNW2VkmG
pcHVE0t7Fsz+wVsT67Dl0rvwQv80h66H9l3MVh/t0dVlM8XuXPgZ4R50+pT5mmvxyxDyV66bBDaYpTm8vym9v01Sg2h3bXsw+8CW
35j2bDizw3XKt2S4+BQViWkP7uF2Dzp950ePceoL3OpdVIsedG5NdajVeFa+cRdCHQBQSwMELQAAAAgAAAAhAPC5OAX/////////
/wgAFABhMjUwLm5weQEAEAAwAgAAAAAAAJAAAAAAAAAAm+wX6hsQychQxlCtnpJanFykbqWgbpNmoa6joJ6WX1RSlJgXn1+UkgoS
d0vMKU4FihdnJBakAvkaZjoKlpo6CrUKZAMuBhBoSHPoWdfRU9h43X7Z2nX9OllpDmBxhg/7iaXjZX6ceD2P0YHtxelweYs0h0tf
pGp8gkg3Z0+hyznbz6kO1soT9+xXJV3/cKcBUEsDBC0AAAAIAAAAIQAVC9sm//////////8IABQAYTI1MS5ucHkBABAAMAIAAAAA
AADdAAAAAAAAAJvsF+obEMnIUMZQrZ6SWpxcpG6loG6TZqGuo6Cell9UUpSYF59flJIKEndLzClOBYoXZyQWpAL5GmY6CpaaOgq1
CmQDLgYw+LCfEB0iZ6wmuzXVAca/XKEQL3FcBMJvSHNAV3+j5tnuM+opGOLotIOWj4lszH/7U/Flk6bcR5gv3VEz91BDAk79BWsO
8Xmdxm3+SXWH87ySDnD5/z/ua/1UwFTvxLyG9eoOTYLu/Hac1YZxTyJOdW17ft0I2pRM0BwYHXaHa2r6N9zmsfztbOWySna42Ld0
pgkTwt0AUEsDBC0AAAAIAAAAIQCVXOrJ//////////8IABQAYTI1Mi5ucHkBABAAMAIAAAAAAABuAAAAAAAAAJvsF+obEMnIUMZQ
rZ6SWpxcpG6loG6TZqGuo6Cell9UUpSYF59flJIKEndLzClOBYoXZyQWpAL5GmY6CpaaOgq1CmQDLgYw+LB/lMZOv1w7RZfVMM3h
kIz0LmWjNAeKzGtIc1i2dl2/Thb55gAAUEsDBC0AAAAIAAAAIQDaNRzj//////////8IABQAYTI1My5ucHkBABAAMAIAAAAAAAB2
AAAAAAAAAJvsF+obEMnIUMZQrZ6SWpxcpG6loG6TZqGuo6Cell9UUpSYF59flJIKEndLzClOBYoXZyQWpAL5GmY6CpaaOgq1CmQD
LgYw+LB/qNFO85bc5jRLcxhod+Cim0xLIuIl0xx8ogoUgiLId6eigKdQZTVUf0OaAwBQSwMELQAAAAgAAAAhAEN/l3P/////////
/wgAFABhMjU0Lm5weQEAEAAwAgAAAAAAACcBAAAAAAAAm+wX6hsQychQxlCtnpJanFykbqWgbpNmoa6joJ6WX1RSlJgXn1+UkgoS
d0vMKU4FihdnJBakAvkaZjoKlpo6CrUKZAMuBjD4sB9G++hz73/wItnh24lV7Iejkh1g4n6Pjc6yhac6oKt3M1hy5Q4LpnipYb10
xZpUh197Y5K8XrM6XEhJNAqdw4OhDkYfCV96tO8ewpxHJ98qz/6c6nC99/OWx0UMDo7h4eXhR9/av9nn2n984lt7BZ+Fag2aaTjN
Q6etZxuGOcenOcTL/Djxeh4jRF9DmsMR2WWGyydY4TRHIzxu0eVfqQ5/Qv94f+ZG2CdgkdHmty3FYdvxw3bByh/sg9fNYuXRI949
ccd51646ivBv3+HDHb94bTH0P1Mr5C/4iFAHAFBLAwQtAAAACAAAACEAjyoeBf//////////CAAUAGEyNTUubnB5AQAQADACAAAA
AAAAqQAAAAAAAACb7BfqGxDJyFDGUK2eklqcXKRupaBuk2ahrqOgnpZfVFKUmBefX5SSChJ3S8wpTgWKF2ckFqQC+RpmOgqWmjoK
tQpkAy4GMPiwH53OnzNhlVFVmgOY25DmIP1523r5aigfi3pc9H9h9n93GNMcdKZHaciYpTloHd/DNn1rKsnmoNO3Npe7MAaS7h5C
9AXthRJSJxDu27KMxXSyNPn2nLwQlyTxnHL/wmgAUEsDBC0AAAAIAAAAIQByr7cH//////////8IABQAYTI1Ni5ucHkBABAAMAIA
AAAAAADkAAAAAAAAAJvsF+obEMnIUMZQrZ6SWpxcpG6loG6TZqGuo6Cell9UUpSYF59flJIKEndLzClOBYoXZyQWpAL5GmY6Cpaa
Ogq1CmQDLgYw+LAfRkdJvjpRcjDSAV3c0/KesmpzClx8/qw1Ab+EEh1mmAjdXFScjKGeVPqBaPTSjPxUh/PvWA7L1ik4SDybJzB/
SipOc7ty5J47n8YtD6Ya0hy0urov3Su+a7/l0rvwQv80kt15jX/7oZ5zqQ67dnH8Zb2BsK9dmO1Lc5kxnJ+n4JCie5OAe0igT0x0
uPa5JNXh4/X53UtnI8wFAFBLAwQtAAAACAAAACEAgdIeVf//////////CAAUAGEyNTcubnB5AQAQADACAAAAAAAA1AAAAAAAAACb
7BfqGxDJyFDGUK2eklqcXKRupaBuk2ahrqOgnpZfVFKUmBefX5SSChJ3S8wpTgWKF2ckFqQC+RpmOgqWmjoKtQpkAy4GMPiwnxD9
islPo9o+1QHGV8pR7dQ5leIglXXxoSkPQpxc+vWd1queS4k3x+BPp/G7C+Tb+0P1yb5FeqkOauyl+7UZiDfHjCNRcrdpqsMch5kL
nP6mOjxUenhI6udn+6WH71ledE7DMCfj6VK5LvEkDPH4gPPvjhVD1TekOVhHJfPudEPoj6n/l3QvDtM8AFBLAwQtAAAACAAAACEA
pzu+Qf//////////CAAUAGEyNTgubnB5AQAQADACAAAAAAAA1AAAAAAAAACb7BfqGxDJyFDGUK2eklqcXKRupaBuk2ahrqOgnpZf
VFKUmBefX5SSChJ3S8wpTgWKF2ckFqQC+RpmOgqWmjoKtQpkAy4GMPiwH532N6hcOsslzQHGv9Z3WHR/AIJPiH7gXhfsHYNQ/yr0
iXmAcZrDYf6oa3s/psLF92ZPmKoXnubQsfq22dss4s1fJs6U9r4IoT5EzlhNdivU3AbizXFkSLi5IBah3u7F9uMxPmkOW00W27+2
J94ckRZpcb1gTPU6iu0H7tkQbw46PSP6VWaME0I/AFBLAwQtAAAACAAAACEATHfYC///////////CAAUAGEyNTkubnB5AQAQADAC
AAAAAAAAAgEAAAAAAACb7BfqGxDJyFDGUK2eklqcXKRupaBuk2ahrqOgnpZfVFKUmBefX5SSChJ3S8wpTgWKF2ckFqQC+RpmOgqW
mjoKtQpkAy6uFr2KRWr/7c3Kqy8WsH2w53nqKF7QnerAE2/wONIq1YEBDD7sN9kjuPrYXwS/6Vdh7cq8VAdFbSvFX0tTHXbW/Lrz
z+SMPVi6Ic3hS15a7bqsNLh6kuiGMIc3BQkqfixpDnHGeudP7P1nj67uQuKs/ERB3OYn5ZxmuN+TApffFZOt8+VGqoMY++6Duswm
RLtL5fWm5VucUgmq53mytKeymbA6GL3vrlJLIR9u9Xt1GJT+mIPiwXh5VAJCHQBQSwMELQAAAAgAAAAhAO2bxVb//////////wgA
FABhMjYwLm5weQEAEACYAQAAAAAAAAEBAAAAAAAAm+wX6hsQychQxlCtnpJanFykbqWgbpNmoa6joJ6WX1RSlJgXn1+UkgoSd0vM
KU4FihdnJBakAvka5joKppo6CrUKZAMuBhBoSHNo8lj3Lsbc22HBr4tHP2wMcACLM3zYf2L7RGOdilCHuInCiec5nBxEP4cxBi5w
h8sXvRH7+r042OFMePp9m6JQh5Wl/PcVXvnD5Wc9Un3ZsdzX4YXmtVtadsFw8fWH5hds5wp1eDJNkH0XoydcXPiGXPJU92CHONkf
dbxxIXDxp5w/RTV/+zv0WjHpZ65DiKPTn2Oq5+7jCMQpD6NjexulJ59BmLMmf+frqPYwB7OHqn+2d4c6AABQSwMELQAAAAgAAAAh
ANGbryL//////////wgAFABhMjYxLm5weQEAEACYAQAAAAAAAIIAAAAAAAAAm+wX6hsQychQxlCtnpJanFykbqWgbpNmoa6joJ6W
X1RSlJgXn1+UkgoSd0vMKU4FihdnJBakAvka5joKppo6CrUKZAMuBjD4sB9GC7GdCqlKiXd4auzyaMfPIAewcEOaA0w+wP+Phsb5
KDj/+Jxdv28HJzqcuhnmrq2R7IBu3lClAVBLAwQtAAAACAAAACEAY061Wv//////////CAAUAGEyNjIubnB5AQAQAJgBAAAAAAAA
ZQEAAAAAAACb7BfqGxDJyFDGUK2eklqcXKRupaBuk2ahrqOgnpZfVFKUmBefX5SSChJ3S8wpTgWKF2ckFqQC+RrmOgqmmjoKtQpk
A65cV+144+AQBx3dfK7t+mEOU7aaif6/H+rw1v2Oz/W8IAf2Sfn+pqLhDkcFF9xa6BDi8J/5b+TDyhCH4llrNIWuBDoUFAc2pDmE
OcRMsVeSlg93mDKPy36BYKjD/YX5mvcK/R0muGyq/M0b7GAaEL+O7Xiow12Vedp694Ic7CwnFG89H+5guOhh7OkUH4ftHH2uGut8
HF5u/PvOwTDUoflrtPgRljCHHRzKb4+e9XNIzr3E3rzWx0HJS6DRqi/MQW5DXpCllr/D+k0XVfefCXCIesKV8n5uoIOHaoHlRQY3
B7fg9er1GkEOnx98T//5ztvhw7HZc2xnBTgwgADQxXdranS1S0IcZLtlBHced3PY+/7fqnC/SAde1dCA2DthDgBQSwMELQAAAAgA
AAAhADH2uzz//////////wgAFABhMjYzLm5weQEAEACYAQAAAAAAACQBAAAAAAAAm+wX6hsQychQxlCtnpJanFykbqWgbpNmoa6j
oJ6WX1RSlJgXn1+UkgoSd0vMKU4FihdnJBakAvka5joKppo6CrUKZAOu19/SVwR9D3WIfPZ7Z+vMcAehvJYY/ohwBwYw+LB/ftIl
v/bdEQ587uvXn9ELczC9666uGRDm8DD7cahcXrCD+4yugiUcEQ7PTle3JShEOkR7T1t5XgGhv0fQ95ScUKjDlGaOHefuI8SFLn77
3C0XCefD6B8H7xeeXBvu4Dzz6Du54xEO6+TXmLHIhzrcOVG/eXZ+sEOj8V7HuyciHZi/3e4LqfZz2Hg/PdvByNehYqPJvqJWhPlB
L2PLr+qGOay1KYvbtdXV4duF1dGGtS4Y9sHohku6Qb+WJULkG9IcAFBLAwQtAAAACAAAACEA2qHCOP//////////CAAUAGEyNjQu
bnB5AQAQAJgBAAAAAAAAaAEAAAAAAACb7BfqGxDJyFDGUK2eklqcXKRupaBuk2ahrqOgnpZfVFKUmBefX5SSChJ3S8wpTgWKF2ck
FqQC+RrmOgqmmjoKtQpkAy4zh5YLs3aaOdye2fP1D6OZw1JZqaV5i0wcLoZzuc9TNXIQkt9wJ/2PpcOEji0HTAqNHBbJTj5pfUjX
4VRfXEzbfnWH1Fe105WZDRwM/LdOnvvIxCF/zedL9k/1HD5stHy2MlvBQfZdK9u375IOPZwXnS4YqDicmPaC17VI26Gs4Iufn4Ge
wzyPQKfbqeIODCDQkOawwM5LM8ZSxuHnAl6J6j4dhyvfJ8/Un6XjMOND9O76+YoOlSzBmxnXyjo4GTX++XRKwcHqmtwTCV8th9lc
Zv9mxBk7fC6OXjq3WNtBsXLC02sXtByerTzGO2OepsPmWUWJOjMMHEpXLpzv02Hm4K7wgVXot6nD14NN/houhg4+uudzJrNaOLBr
nJX+kGHpAABQSwMELQAAAAgAAAAhAIHo/Dr//////////wgAFABhMjY1Lm5weQEAEACYAQAAAAAAAGUBAAAAAAAAm+wX6hsQychQ
xlCtnpJanFykbqWgbpNmoa6joJ6WX1RSlJgXn1+UkgoSd0vMKU4FihdnJBakAvka5joKppo6CrUKZAOuX5sWVygIJztodU1o4Pmd
4sAAAg1pDl0GVt0v+FIccubf4hM8n+xwJKkqre5aksPDLbabNSVSHOKPb9y1VjPFoeJg0fTM1BSHPFn2YJ+WZIeMRP6ek8lJDtkL
C6vVGxIdkvbUeUi8T3LYHlyV4WOW7MBRKNkzIz/RYXrMK8Yi/iSHFwIvj6wKTHDoz5JT3Kub4CD3jLGPjT3JYUtg1Mq1+xIdLqmy
l4saJTi0rLEX9FVMcMj7kmJzpjnRYbIWxxcl+3iHvJVz1UJ3xzncWlzyLEknweGIdqdp2IE4B8UlNxdoqCU42HyNsJscHOsgNFGh
Qnp3rMMca7dp+0zjHLjU5OPnX4p3SPZsVeg+EeNgeXiBr1degsOUPbPUtr2IdwAAUEsDBC0AAAAIAAAAIQBulFVK//////////8I
ABQAYTI2Ni5ucHkBABAAmAEAAAAAAAA2AQAAAAAAAJvsF+obEMnIUMZQrZ6SWpxcpG6loG6TZqGuo6Cell9UUpSYF59flJIKEndL
zClOBYoXZyQWpAL5GuY6CqaaOgq1CmQDLtWgF3rNwoEOgtwmH4+vCHF4den0pZjgEIfZbK7zHsn5O7zeYPQ+sDfM4Wb4IqWA734O
q36qHPtYEeDQril/p2+nl0ObjeuRDKZQB0/VrhuyTWEOjf3tW/O+eTucsCucr7nczmGDwNNLLNa+Dvr+z77XK4Y4MIDBh/1gqiHN
4fZKuc5tYuYO2o8E3i246+QQwbvbvy4x2EHz7+c3Aq9DHARi1+e/MXJy2L/LTFTngrNDgPPCH2EX0MwB0hoTGkS3KgQ5cLQs2mvM
7+UgeK76F9P+QAx1MNolf+2sFXMQ5jBVvYr7OTncYfrkjRo//oc6AABQSwMELQAAAAgAAAAhAKSZdRr//////////wgAFABhMjY3
Lm5weQEAEACYAQAAAAAAADwBAAAAAAAAm+wX6hsQychQxlCtnpJanFykbqWgbpNmoa6joJ6WX1RSlJgXn1+UkgoSd0vMKU4Fihdn
JBakAvka5joKppo6CrUKZAOuXwciJH7FBzrk3aqffYY52GHzthfvF+wLcmAAgw/7ExJPq360D3GYy5vsVHcqwEHx2f25dTcD4PJM
1XvEHm0LcojVfsDX/TDYwbjYOm7XrgAHufgj12Z0eTi88tx7/dZ8X4fau9cb7vYGwvXJNXVezjoR6MAX7byCYZYLXDxNdaJ9C3eA
ww3zpfus+wMd9F94fGx1cXVIMXS++/6So0N7VUe5SI2vwxSGvdZX2l0c9JOtJKZyezjMmJFkfOqks4PQ5rAJL1qNHc7deH9ribMj
3FyPT9ZsHW1uDhasE9O8/5tBxBvSHHJclupFHzNwqLN7LMbqjXAfAFBLAwQtAAAACAAAACEAo2c7sf//////////CAAUAGEyNjgu
bnB5AQAQAJgBAAAAAAAAfgAAAAAAAACb7BfqGxDJyFDGUK2eklqcXKRupaBuk2ahrqOgnpZfVFKUmBefX5SSChJ3S8wpTgWKF2ck
FqQC+RrmOgqmmjoKtQpkAy4GMPiwn1y6a23Er4ZlyQ5CKtxBpQtTHHCpM/p5NuNeGFS+IQ23uiK7D3ZZyQ7rjouVGKfgNo/WNABQ
SwMELQAAAAgAAAAhAECtoBL//////////wgAFABhMjY5Lm5weQEAEACYAQAAAAAAAGcBAAAAAAAAm+wX6hsQychQxlCtnpJanFyk
bqWgbpNmoa6joJ6WX1RSlJgXn1+UkgoSd0vMKU4FihdnJBakAvka5joKppo6CrUKZAMu/xl6Wl5vPRy4X8+6fe5zgIOOtKcxk16g
w/EOjal2bW4OnTN/rHo6Ncxhc3mQ98Zprg4MINCQ5rBpQZlNWKOlQ8734tk3rwU7ZK5XL+ZsCXNgiF15YZpsgMOZvW9CzPaZOdgt
fmkv9sHNIeHI5Ae8+sEOcWZp37dP9XP4znDgsl5jmIPs/uV6d6xcHA5M6LxYke/i4KUoITLDONihcOf9aS/2hzh8PfnR6PymAIe1
M8NCT+j6OQSHPRJ+6hfqwCvi23Ww0dfh/suTRWs6/R2ehn6dXxUCVN/r+TtwQYBDw0nOwGDdYIfq5pcxmWf8HPonrb2QczfAIc/g
3/7tf4McmrcfXHnEN9Th1jf/zfOmBDi4v1hXLhgV7lCaFPJ5uVCYAwBQSwMELQAAAAgAAAAhAKQK/tj//////////wgAFABhMjcw
Lm5weQEAEACYAQAAAAAAAK4AAAAAAAAAm+wX6hsQychQxlCtnpJanFykbqWgbpNmoa6joJ6WX1RSlJgXn1+UkgoSd0vMKU4Fihdn
JBakAvka5joKppo6CrUKZAMuBhBoSHNgK9XLWGCX4gDmM3zYj06fUe666xUa7fDm2ZfSu5OicaqzXXJNQ4UvCi7/y+LDYwHJCAz1
avw/qk4rRmGIf/y3feer+5jqYfThKcx5vHjkiaXjbvpIq38Oh5uT5j1DuGERwlwAUEsDBC0AAAAIAAAAIQDPivG9//////////8I
ABQAYTI3MS5ucHkBABAAmAEAAAAAAABnAQAAAAAAAJvsF+obEMnIUMZQrZ6SWpxcpG6loG6TZqGuo6Cell9UUpSYF59flJIKEndL
zClOBYoXZyQWpAL5GuY6CqaaOgq1CmQDrjMJt5PbrVQcrpdJTyqKV3BoaK2LiJsn6rBGZv2pqE1MDgwg0JDmIMhx4I+ljIHD86kh
iV8W6zqwdXeJzOXXdPDaP43nXL+2A3s9h99Fdh2H9zfqHqvvsnKIX3xz7uJLZg5+hZt/rJa1cLhqXbaeu8rSwfl5n/8NDnOH/OmV
RxMeOTn4WfsZ3N1r72Dz4HHEml92Dukbj6txT3R04P16UL75oqOD31FB3bQPLg5Wl/gTnyS5ODyP9D/Cp+PmYBPRx35wi7NDlKrA
lKTNzg4TP1/olv7u4WB6/vXjhip3h6IvOstzEj0cTh3a1pM41c3BiGVNKedPN4dak+hd3Iu8HGI1VYs3LPN2KJ4jPkczw9Ph5iot
h7kTfBzc+Vt7Tj/zdgAAUEsDBC0AAAAIAAAAIQA/08O8//////////8IABQAYTI3Mi5ucHkBABAAmAEAAAAAAADLAAAAAAAAAJvs
F+obEMnIUMZQrZ6SWpxcpG6loG6TZqGuo6Cell9UUpSYF59flJIKEndLzClOBYoXZyQWpAL5GuY6CqaaOgq1CmQDLgYw+LCfWvS1
Q0u5JBxjHXDJ61nkG7g8jXY4UxGT7PUsHkPdIguvc+Ef4uDiC8NKazjzExxO/2KYvUw+wSEwZiuLunoihr4ij9tf9jglOyz7nniH
oTzJodU52uPCtSTs7mhIc3B6uJg7/Gqqg4aO2zHe9hSHBwy1j6YfTXHQUagu0eBOcQAAUEsDBC0AAAAIAAAAIQCCEHFw////////
//8IABQAYTI3My5ucHkBABAAmAEAAAAAAADmAAAAAAAAAJvsF+obEMnIUMZQrZ6SWpxcpG6loG6TZqGuo6Cell9UUpSYF59flJIK
EndLzClOBYoXZyQWpAL5GuY6CqaaOgq1CmQDLgYw+LA/IeqYtrh7mEPRzi0XRFTCHGDiMPrsnvlqEnWhDh+3J13f0x8Kl1/5omjx
RZcwB0XLRQv/bMbUp6LBY8R1NsQhdfszk03/EPrOTV1yuvYSpno1o57+LRNDHSacVuee+ScUQ144+ldirn2Yw4LegJ5iiUCHZ86f
BR8DaXR1MPrQL4527iAPB4b7BSaz4r1wquvInfTjy9UEiHxDmgMAUEsDBC0AAAAIAAAAIQCo+Rb4//////////8IABQAYTI3NC5u
cHkBABAAmAEAAAAAAAAOAQAAAAAAAJvsF+obEMnIUMZQrZ6SWpxcpG6loG6TZqGuo6Cell9UUpSYF59flJIKEndLzClOBYoXZyQW
pAL5GuY6CqaaOgq1CmQDLgYw+LB/Rof7rW8nwh3MuA3LHVvCHWDiewPnCR2fFOEQqxdSrtkb5rCUQXJK0N4wuHz15cdJOY0RcP6q
c/vbXi2PcKjYek40ocrfQS9nfS/znRAHCw+B0NlTIuHqkibM+9CgleigWfethGehKUS8Ic2h/FhnD7tzAkLd3nmrzPhDHQSPOPn9
Ewh2uGDBqbuAK9ph4TZ2JeODAXB1LsZm5bzHEO5Gp/90fXZiPBAMlz/y+XPyxcMI9TNrbT4XqEY6GATtVPhuFuEAAFBLAwQtAAAA
CAAAACEAEkbKpP//////////CAAUAGEyNzUubnB5AQAQAJgBAAAAAAAAkwAAAAAAAACb7BfqGxDJyFDGUK2eklqcXKRupaBuk2ah
rqOgnpZfVFKUmBefX5SSChJ3S8wpTgWKF2ckFqQC+RrmOgqmmjoKtQpkAy4GMPiwv/bML7tdt1McwNyGNAeXCQt/WC6Ic+ji3HR2
0vVkB5i6Py9XTvocHOcQ+5a79rZwpENn1D/B734JcHl0uu/VrdPeFyNxyg9WGgBQSwMELQAAAAgAAAAhAFjjSIz//////////wgA
FABhMjc2Lm5weQEAEACYAQAAAAAAAGcBAAAAAAAAm+wX6hsQychQxlCtnpJanFykbqWgbpNmoa6joJ6WX1RSlJgXn1+UkgoSd0vM
KU4FihdnJBakAvka5joKppo6CrUKZAOuEuUCk/k5QQ4ijiZGm24EO8yMqX0eNivYoTxSZF3n0QCHu+ZrK+ZuCnG4mbhv56NHAQ7r
nDd+7hAKdFD0a9dxjPV1OBXjzNpzLshhq4nSuvwHwQ6p+9ZpvhH2cdBsyuR5W+PkoJg03UnA38NBO0fwzTttf4fDa41OHNzm4cAA
Ag1pDgXxCYdP/Fdw8BO9ylOno+8Qo7ru/SIWV4f7NgeFmcW9HTT4D65aG+HuwOb8aKniYleHvi+HXoqaBTjcedj+VTjI1WHFzD4T
u61uDoaRPyf7/gl0kDg8oTlis5/DwvcpO8VMAx2iLl4oD0r2cVDYp63DpuTnYKIfYXHbPcih8Omq+esvBzvsebHuwJGtAQ61OS2p
Z6xCHXYd+yzoFBniAABQSwMELQAAAAgAAAAhAFdZ0uj//////////wgAFABhMjc3Lm5weQEAEACYAQAAAAAAAEgBAAAAAAAAm+wX
6hsQychQxlCtnpJanFykbqWgbpNmoa6joJ6WX1RSlJgXn1+UkgoSd0vMKU4FihdnJBakAvka5joKppo6CrUKZAMuM538ZIGqMIcO
3dKsk5bhDisCGsyuioU7MIDBh/1++ZncdgvCHXIuGsYozgtzWOsTeCp/Y5hDzqtnlvMLQh1eSxj31aaHO5w8vCQr9Eq4Q5anjEiU
SbhD+d/S3y8Phzhk3HVdscAUqK/1StK2TIS5XDtuf7q/NcLB2iFNNt81BC5e7iI/bUZJuMMmF4ecZ7eA6s34JhV8D3Wws3jKXfst
xOGBwoOp7ryRDmsCF+9S2hPscMHURSvscrDD6Qm/RCVrIh2UY14ITvIMdtDdqs1lPD3cQX6xp3WGW4DDJKe3Vbl6QQ7XXfnljzcE
Q+xrSHMo3vR+f5KkpYNRntT0o85JcHcAAFBLAwQtAAAACAAAACEAZ7GxD///////////CAAUAGEyNzgubnB5AQAQAJgBAAAAAAAA
ZwEAAAAAAACb7BfqGxDJyFDGUK2eklqcXKRupaBuk2ahrqOgnpZfVFKUmBefX5SSChJ3S8wpTgWKF2ckFqQC+RrmOgqmmjoKtQpk
Ay6vRR637622dYhds8E7gt/ewextZE43v52D/LrHrn3TLR3Snk1Zmm9v7/BVvqH38ScjB5PKH0lOVYYOPI0rd1eq6TqU3nGa/rXI
wOFwzZm6ozcMHFxOLTv23FrTgVF1d+smLgWHv7teO6lsE3dg01uwwoyPy4EBBBrSHEqbn/E2Gpg6eIb4lBzbp+dw5LPaD44n2g4x
Zspap57oO5QcnW0TxG7goHxAsKHNwdZhe9le4RdLrB0KQq/d/fzYzoHJanK77R5LByZG85bupZYOMw9cnVg/wcXBfGegsNlWJ4dj
TWz+y1Y5O7BxFLBnTXJ0eLP2l5nAH0eHzPB+0U1l7g6neX1Xz1/n4fCt29eF7aGrA8fm7uba054OOkmPam+89XAAAFBLAwQtAAAA
CAAAACEApA+FZP//////////CAAUAGEyNzkubnB5AQAQAJgBAAAAAAAAZwEAAAAAAACb7BfqGxDJyFDGUK2eklqcXKRupaBuk2ah
rqOgnpZfVFKUmBefX5SSChJ3S8wpTgWKF2ckFqQC+RrmOgqmmjoKtQpkA67HciXHxNYkObCcOqBmbZ3sELBLZNoN8WQH1b2y5xMm
JDq8OVEW8pol2aGK9XS/4qZUBwYQaEhz6LuzlW1mSarDktf/ZBbJpTqY//8zSXZGisM3Sf5Ji4Dqk2ufrL+zPNFhqW7xrdWdSQ49
9UuKFD4lOWgX6pyedCzR4fDB98yXjBIdFBV+6shMiHOY90k8X4IjzuFnjXXO0vUJDlvMDVa/O5TgELishH319lgH73uXVj0wiXU4
6jNtr5Z5vIPBSSVx86IYh9bZ7Q9fpMc47A/YvdbgT4xDnn32bZ3l0Q6xPg/VjkyJcTC0u8HDdjjK4XKG+Ik63WiH5lsMbBla0Q53
rN8uv8Ee46B1LY/riXqUQ9H3TfY9O2McKl8H3Z9kHeMAAFBLAwQtAAAACAAAACEABQe/Uf//////////CAAUAGEyODAubnB5AQAQ
ACABAAAAAAAAwgAAAAAAAACb7BfqGxDJyFDGUK2eklqcXKRupaBuk2ahrqOgnpZfVFKUmBefX5SSChJ3S8wpTgWKF2ckFqQC+RqG
BjoKRpo6CrUK5AIuBhBoSHMovXvxdJt6jINAyvfzmyqcHOLq3ARs5ik6qGdfV7u63clh+vesxoprLg5g9Qwf9q/hcy4qWejvEOVR
sv7PFW+4OIx+3BI/9WdImMP/zB72tZohGPK3wt5lz70f6sA8u97jhy1Cfk7NmcTtv8McODzkrFf6hTgAAFBLAwQtAAAACAAAACEA
BaVDCP//////////CAAUAGEyODEubnB5AQAQACABAAAAAAAAugAAAAAAAACb7BfqGxDJyFDGUK2eklqcXKRupaBuk2ahrqOgnpZf
VFKUmBefX5SSChJ3S8wpTgWKF2ckFqQC+RqGBjoKRpo6CrUK5AIuPYaj3qt6rR0YQKAhzeFmFk/9v05zB77INWvObRJxWFxzVnuD
m5XDLN2nmUJ+FhB1DB/2Zz0NCX3k5OLwznau1asTLnBxGK1QuNd1vnSgw6OER4y1cgEY8qeM1n34LBbkEPZy33NpoDqYeFG2+eYV
P4PhfABQSwMELQAAAAgAAAAhAHsDj43//////////wgAFABhMjgyLm5weQEAEAAgAQAAAAAAAIcAAAAAAAAAm+wX6hsQychQxlCt
npJanFykbqWgbpNmoa6joJ6WX1RSlJgXn1+UkgoSd0vMKU4FihdnJBakAvkahgY6CkaaOgq1CuQCLgYw+LDf4cmuvt4TkQ4wPqX0
hbDIhQUvo3Gax3zs6sHZxXEOKot2PCt1iHEQrxBqOsCvBlHfkOYQX/BjzraVUQ4AUEsDBC0AAAAIAAAAIQC9qiYR//////////8I
ABQAYTI4My5ucHkBABAAIAEAAAAAAADQAAAAAAAAAJvsF+obEMnIUMZQrZ6SWpxcpG6loG6TZqGuo6Cell9UUpSYF59flJIKEndL
zClOBYoXZyQWpAL5GoYGOgpGmjoKtQrkAq673r82bVcIdzDYtjtwxalwh1NBCk7rboY4MIDBh/2/dRRsNqgFOSzr6HPT9QlysJlR
1mkb5OXAOf9DSOu6YIf4r7aM5pEBcPUw2v1td1vdlnCHpWc2sz67FQyXr/Wbv0R9lpOD2J9D+YuA9u6f1O/SqOTroP3koB/vGimH
I8vP3N/qGA9R35DmAABQSwMELQAAAAgAAAAhAOWZ16P//////////wgAFABhMjg0Lm5weQEAEAAgAQAAAAAAANYAAAAAAAAAm+wX
6hsQychQxlCtnpJanFykbqWgbpNmoa6joJ6WX1RSlJgXn1+UkgoSd0vMKU4FihdnJBakAvkahgY6CkaaOgq1CuQCrv1fXq7uPxjh
UP9AV4znU6TDHrX3vX83hzgwgMGH/Tye0a/8NfwcMpy3sbiZ+zk0Hsywab5t7TA3de1mXfVAh7fWhzxStZ0cLO7sE/6go+Cwf5k4
i52MKkR/Q5rDvvboU3+2hDh4hluIfH+i4FB4+oN5wA4Xh+hVx7a+Z4pyuNIvWeSeg7DvWl28tZ97FJwPAFBLAwQtAAAACAAAACEA
xlPkBv//////////CAAUAGEyODUubnB5AQAQACABAAAAAAAA3gAAAAAAAACb7BfqGxDJyFDGUK2eklqcXKRupaBuk2ahrqOgnpZf
VFKUmBefX5SSChJ3S8wpTgWKF2ckFqQC+RqGBjoKRpo6CrUK5AKumvvBVmo+Xg5iltP/6Sn4OPg39NufeeHkwAAGH/bvObRi+r2/
Fg51tz8sXNpm5fB5t0jwq1xNhy3OT+7V5pk5bFWam9wYoejAYPipVHexNERfQ5qD2cVNOyc/1HFQzDq+fGG1uoOax+s+0zgZB+kJ
AguVDfQd1ldLPzbMsnFIkXUwDa21g9u3WDDa4XCwh0NNbzxTjZqzAwBQSwMELQAAAAgAAAAhADcdz6P//////////wgAFABhMjg2
Lm5weQEAEAAgAQAAAAAAAM4AAAAAAAAAm+wX6hsQychQxlCtnpJanFykbqWgbpNmoa6joJ6WX1RSlJgXn1+UkgoSd0vMKU4Fihdn
JBakAvkahgY6CkaaOgq1CuQCrpxAj5luQskO3wS3rrXNSHb4ev9Lpk90sgMDGHzY/3CawquMPckOVs7Rsw/2pDjs0GsQeMaXCJFv
SHPQm2dgumspUL3E/JL7G2wdGkO8zod+D3VwjsvukTNNcQj6foDBsj0Jbt6ZsxyT3d7GOcRc6t6/QCvJQVXgFtOuNQlw+Wzl5aoq
MPOBfABQSwMELQAAAAgAAAAhALbG9Pv//////////wgAFABhMjg3Lm5weQEAEAAgAQAAAAAAAHwAAAAAAAAAm+wX6hsQychQxlCt
npJanFykbqWgbpNmoa6joJ6WX1RSlJgXn1+UkgoSd0vMKU4FihdnJBakAvkahgY6CkaaOgq1CuQCLqkZv+1k0lIdbvhvEO8/kOpw
S7XMX2JaqgMDCDSkOewodT7553uKw4bD00Pu5UDFGT7spxcNAFBLAwQtAAAACAAAACEAl5R9mv//////////CAAUAGEyODgubnB5
AQAQACABAAAAAAAAwgAAAAAAAACb7BfqGxDJyFDGUK2eklqcXKRupaBuk2ahrqOgnpZfVFKUmBefX5SSChJ3S8wpTgWKF2ckFqQC
+RqGBjoKRpo6CrUK5AIuBhBoSHNQXudZZ3TMwmFlZdKro7tcHDY9PFEt8kfL4X3Yk1JeD0+H1tvar/dt8nQAq2f4sP+3TM2XmhcB
Dh/6pwTfOxwAF4fRXzbruijuDHFYeGYyb6BqCIZ8Zfk1k3C2UIdMd7bTPO0I+d3zyjmt9oY6zPQpWNy5KsQBAFBLAwQtAAAACAAA
ACEA3W5S3P//////////CAAUAGEyODkubnB5AQAQACABAAAAAAAAsgAAAAAAAACb7BfqGxDJyFDGUK2eklqcXKRupaBuk2ahrqOg
npZfVFKUmBefX5SSChJ3S8wpTgWKF2ckFqQC+RqGBjoKRpo6CrUK5AIuW3PtWiP/FAcGEGhIc9Df/Cq5/XW4w8cXVeULwowcThVO
nuwyO9hhoWqF6u57wRB1DB/2u2a89rSuDnNQUepz57sbAheH0X/cH//ZZxPhcD3rmHehYDiGPIze0aaeprwzDC7Pkl1sdngTQj0A
UEsDBC0AAAAIAAAAIQCsQMED//////////8IABQAYTI5MC5ucHkBABAAIAEAAAAAAADQAAAAAAAAAJvsF+obEMnIUMZQrZ6SWpxc
pG6loG6TZqGuo6Cell9UUpSYF59flJIKEndLzClOBYoXZyQWpAL5GoYGOgpGmjoKtQrkAq4LL5c/PLg61MHjdFBB+/tQB2bz8t4X
80McGMDgw/758r7XN0UEO4Tz+QjK5AY7PKj4Mm/bkQAHRYuda84fCXa4P3HHhANsQXD1MFrEd1Luiv4Qh2mK218vdkDIV71Uuru/
x90hUUdZ/y5PkIN3Pf81MWE3h21853Qy3mhD1DWkOaQf/RX78KeKAwBQSwMELQAAAAgAAAAhAObD7Iv//////////wgAFABhMjkx
Lm5weQEAEAAgAQAAAAAAAKcAAAAAAAAAm+wX6hsQychQxlCtnpJanFykbqWgbpNmoa6joJ6WX1RSlJgXn1+UkgoSd0vMKU4Fihdn
JBakAvkahgY6CkaaOgq1CuQCrk1tXMtP3gl3YACDD/v36Mpq7xJF8JNVN/3qkwuD89HpC6EbrWddCcUpf/fpr7UaGyPg8rnbOQV6
1IMdzG4UVbR1RzvEBDj7/rWJdkjP2JX4SsfEYdsLIRc2/lSI+oY0BwBQSwMELQAAAAgAAAAhAE/BIkD//////////wgAFABhMjky
Lm5weQEAEAAgAQAAAAAAAOAAAAAAAAAAm+wX6hsQychQxlCtnpJanFykbqWgbpNmoa6joJ6WX1RSlJgXn1+UkgoSd0vMKU4Fihdn
JBakAvkahgY6CkaaOgq1CuQCrlbf/advHfZ0uNvTyGAY6eWwIGX2TL3zLg4MYPBhv970t6yPXto57PZt65nPb++wh59tyqcuIwfv
k0uXKReYO3BxHGyVPKDmUNprxenNoODA+3pbUV7eH3uw9oY0h4Bsj+l7nLUc3m7N/VXmpuBwq+2u6LkdJg7KvH73+RitHI7xnzGK
f+0At0/6ZvHuKB53h42Mqpc+b3FxAABQSwMELQAAAAgAAAAhAO74YRL//////////wgAFABhMjkzLm5weQEAEAAgAQAAAAAAAIgA
AAAAAAAAm+wX6hsQychQxlCtnpJanFykbqWgbpNmoa6joJ6WX1RSlJgXn1+UkgoSd0vMKU4FihdnJBakAvkahgY6CkaaOgq1CuQC
LgYw+LCfVHoP+9ZLvQ+THHqWxD5nDExx2J17SzPWPtEBLN2Q5qCU1aC6XTPNYemWGysZN6Y4LHly/9yC2VB5EuwBAFBLAwQtAAAA
CAAAACEArgJlI///////////CAAUAGEyOTQubnB5AQAQACABAAAAAAAAtwAAAAAAAACb7BfqGxDJyFDGUK2eklqcXKRupaBuk2ah
rqOgnpZfVFKUmBefX5SSChJ3S8wpTgWKF2ckFqQC+RqGBjoKRpo6CrUK5AKuvT8bFt6pjXRY0FW0mN8hyiFisRvrP/twBwYw+LC/
x+7CI0/eQAfx2DP+s0sCHaoP299Ta1SAyDekOXT+SU9Xqg5wKPxxpob/lClcX41i7CPZw1EO5WE5ymuXIcxDpxVmb7tncS8MoW+2
tCWLbwScDwBQSwMELQAAAAgAAAAhAO5Oaw3//////////wgAFABhMjk1Lm5weQEAEAAgAQAAAAAAAHwAAAAAAAAAm+wX6hsQychQ
xlCtnpJanFykbqWgbpNmoa6joJ6WX1RSlJgXn1+UkgoSd0vMKU4FihdnJBakAvkahgY6CkaaOgq1CuQCrg1253/nG6Q4LEjyOJkd
nuLQt0N68aZ3qQ4MINCQ5qDWMy8gSzHZoS8r82ugXTJEnOHDfnrRAFBLAwQtAAAACAAAACEAUepkHv//////////CAAUAGEyOTYu
bnB5AQAQAEABAAAAAAAAbwAAAAAAAACb7BfqGxDJyFDGUK2eklqcXKRupaBuk2ahrqOgnpZfVFKUmBefX5SSChJ3S8wpTgWKF2ck
FqQC+RpGOgqGRpo6CrUK5AIuBhBoSHPYcdjkmYhRigOYz/BhP7VongPb7v6fnepwftNyH2P7VKqbDwBQSwMELQAAAAgAAAAhAHCt
Vd7//////////wgAFABhMjk3Lm5weQEAEABAAQAAAAAAAKYAAAAAAAAAm+wX6hsQychQxlCtnpJanFykbqWgbpNmoa6joJ6WX1RS
lJgXn1+UkgoSd0vMKU4FihdnJBakAvkaRjoKhkaaOgq1CuQCLgYw+LCfUnrHYZNnIkYpDmBugxuUTnNAV+dm/lLx9MM4hwmnWgy4
V8XD5Q02dPEVXk5wqHoVWrj6VrTDvnk6c3uboPINYQ7ZT+ueCbbFOJhn8xV42lo6/Av8IH59X4oDAFBLAwQtAAAACAAAACEAz3Xs
VP//////////CAAUAGEyOTgubnB5AQAQAEABAAAAAAAAmAAAAAAAAACb7BfqGxDJyFDGUK2eklqcXKRupaBuk2ahrqOgnpZfVFKU
mBefX5SSChJ3S8wpTgWKF2ckFqQC+RpGOgqGRpo6CrUK5AKu/4zltf0TVR2qJp+8uTPdyIEBDD7sJ0Sryp/ty/gX6nAi8XRWCF+Y
Q0PKJQ42m0js+hvSHOQ+6qSv2R7vYOceKvk5NcFhytbs8kyBOKLtw0UDAFBLAwQtAAAACAAAACEAFbE9+v//////////CAAUAGEy
OTkubnB5AQAQAEABAAAAAAAA5QAAAAAAAACb7BfqGxDJyFDGUK2eklqcXKRupaBuk2ahrqOgnpZfVFKUmBefX5SSChJ3S8wpTgWK
F2ckFqQC+RpGOgqGRpo6CrUK5AIuBjD4sH9O8ykRiWuODo/e3vsws8jBASa+JvKqgneTnYOrtiyvtbAlXPzLY7FtGhlmDooRvb+T
ewwdUuIsA0qt9R02f5s7xbZb1KHNYN0qy2Y+hwhN9+1fojzh+k5H3tJ7oecB4Te4wcVtHkWei8h3cjA/Kl+xfp6ZQzF3xb01v40d
9q98+r/ZQMPBJO7ZL446RYfpc5a+bXrHBdWf5gAAUEsDBC0AAAAIAAAAIQAHOaTR//////////8IABQAYTMwMC5ucHkBABAAQAEA
AAAAAACaAAAAAAAAAJvsF+obEMnIUMZQrZ6SWpxcpG6loG6TZqGuo6Cell9UUpSYF59flJIKEndLzClOBYoXZyQWpAL5GkY6CoZG
mjoKtQrkAi4GMPiwHxdtLfFSsNwo2YGdU+vbx/3JDoXtmWc0VWIdWvVkfcy+pzj4TN4l0aqQ4qDw9p3870/JDoTMw0X/WRrI4rky
FaK/Ic1By3veJjuzVILmAQBQSwMELQAAAAgAAAAhAGoaerD//////////wgAFABhMzAxLm5weQEAEABAAQAAAAAAAIIAAAAAAAAA
m+wX6hsQychQxlCtnpJanFykbqWgbpNmoa6joJ6WX1RSlJgXn1+UkgoSd0vMKU4FihdnJBakAvkaRjoKhkaaOgq1CuQCLgYw+LCf
EL3jsMkzEaMUBzC3Ic1BootvhUlgqgOx+gnR5zct9zG2T3X4F/hB/Pq+FAeLDR+j57WlEDQfAFBLAwQtAAAACAAAACEA5KbELv//
////////CAAUAGEzMDIubnB5AQAQAEABAAAAAAAAewAAAAAAAACb7BfqGxDJyFDGUK2eklqcXKRupaBuk2ahrqOgnpZfVFKUmBef
X5SSChJ3S8wpTgWKF2ckFqQC+RpGOgqGRpo6CrUK5AIuBjD4sB+d3vsyxTgyWtVB7qNO+prt/g6TqipLdFa4OuBSTypdVCERuL8x
BWJeQ5oDCp8EcwBQSwMELQAAAAgAAAAhAHWjFCT//////////wgAFABhMzAzLm5weQEAEABAAQAAAAAAAH0AAAAAAAAAm+wX6hsQ
ychQxlCtnpJanFykbqWgbpNmoa6joJ6WX1RSlJgXn1+UkgoSd0vMKU4FihdnJBakAvkaRjoKhkaaOgq1CuQCrsawuFcLK4wdbB5F
novIN3Iwz+Yr8LS1dGAAgw/7KaU9bE5LvtZNhpjXkOaw47DJMxGjFKqZDwBQSwMELQAAAAgAAAAhADA8+0X//////////wgAFABh
MzA0Lm5weQEAEABAAQAAAAAAALYAAAAAAAAAm+wX6hsQychQxlCtnpJanFykbqWgbpNmoa6joJ6WX1RSlJgXn1+UkgoSd0vMKU4F
ihdnJBakAvkaRjoKhkaaOgq1CuQCLgYQaEhzgNBhqDTDh/1g6kGCQ8lSZm+vz9Fw8UM7Vj3jiUp0gMkXtmee0XySiKoPSHvYnJZ8
rZvsMCOLaVexfLKD/aEJIjOrkh3+nU3o2+SUDFd/KuTp7G3rk+D8DrGGdG/LeAzzYLTQxrA/jQ/iHABQSwMELQAAAAgAAAAhAGhA
xiX//////////wgAFABhMzA1Lm5weQEAEABAAQAAAAAAAIAAAAAAAAAAm+wX6hsQychQxlCtnpJanFykbqWgbpNmoa6joJ6WX1RS
lJgXn1+UkgoSd0vMKU4FihdnJBakAvkaRjoKhkaaOgq1CuQCLgYw+LCfUtp5/Wu/nVNSHUL+NH5/5ZnkABZuSHOglvkzZ/HVh39O
cPgznXXRnQ/+DmJ3/u3nnpDsAABQSwMELQAAAAgAAAAhAAPOT8f//////////wgAFABhMzA2Lm5weQEAEABAAQAAAAAAANMAAAAA
AAAAm+wX6hsQychQxlCtnpJanFykbqWgbpNmoa6joJ6WX1RSlJgXn1+UkgoSd0vMKU4FihdnJBakAvkaRjoKhkaaOgq1CuQCrg0X
phx8ekjRwV8riPuel7KDO/+vM4lRKg4MYPBhf/pS66PTV2s7fHx1c+b0CB24eMCzLgmjaFMHxar6c49MzR1af21oOX7EFi6PQjek
OTimCmwzecbmUGI6xzI6RtKhOk68fusbJbh6NcGzbhE8+nC+QPmMY3OcDOD8Ve+Mtiy6aAjnH5FdZrh8gpUDAFBLAwQtAAAACAAA
ACEAbdXnb///////////CAAUAGEzMDcubnB5AQAQAEABAAAAAAAA7QAAAAAAAACb7BfqGxDJyFDGUK2eklqcXKRupaBuk2ahrqOg
npZfVFKUmBefX5SSChJ3S8wpTgWKF2ckFqQC+RpGOgqGRpo6CrUK5AIu+58F5WaBoQ5MPF/EZY6HOyhEPDvD8zjcgQEMPuzf6PB0
/RquOAcNhuP7Tx6Ihovb3u33tBZKclhjqF3/PTHJ4QobP/uX9ckO0qwvou/tDHaIZP8joLUmGKL+QYLDho29H2zNEx2ub0n0PaiZ
5LCSuTi8vycJbh7vo3Qeo/RkuPq045veaZ5IcuivmGZ8TTraIeRP4/dXnkkO5kflK9bPU4Ooa0hzAABQSwMELQAAAAgAAAAhAFkN
p/H//////////wgAFABhMzA4Lm5weQEAEABAAQAAAAAAAJIAAAAAAAAAm+wX6hsQychQxlCtnpJanFykbqWgbpNmoa6joJ6WX1RS
lJgXn1+UkgoSd0vMKU4FihdnJBakAvkaRjoKhkaaOgq1CuQCLgYw+LCfEN0uuqovRDXQwTV0fuoGBgeHO5M4JeYyJzjUn5IsX7Ms
3mFfeLS42d9EB2LNQ6d5Dmy7+392KkR/Q5qDh81pyde6yQTNAwBQSwMELQAAAAgAAAAhALjisYz//////////wgAFABhMzA5Lm5w
eQEAEABAAQAAAAAAAH4AAAAAAAAAm+wX6hsQychQxlCtnpJanFykbqWgbpNmoa6joJ6WX1RSlJgXn1+UkgoSd0vMKU4FihdnJBak
AvkaRjoKhkaaOgq1CuQCLgYw+LCfEL3jsMkzEaMUBzC3Ic0hRM5YTXZrqgOx+gnRR7hC3VddSoaY9yDB4c3zROc9fxMJmg8AUEsD
BC0AAAAIAAAAIQC8D46O//////////8IABQAYTMxMC5ucHkBABAAQAEAAAAAAAB8AAAAAAAAAJvsF+obEMnIUMZQrZ6SWpxcpG6l
oG6TZqGuo6Cell9UUpSYF59flJIKEndLzClOBYoXZyQWpAL5GkY6CoZGmjoKtQrkAi4GMPiwH53ed+q21ixHB4fjzD8PWbQlOtyZ
xCkxlznBAZd6Uuk5DjMXOP1NhZjXkOaAwifBHABQSwMELQAAAAgAAAAhALEeJr3//////////wgAFABhMzExLm5weQEAEABAAQAA
AAAAALMAAAAAAAAAm+wX6hsQychQxlCtnpJanFykbqWgbpNmoa6joJ6WX1RSlJgXn1+UkgoSd0vMKU4FihdnJBakAvkaRjoKhkaa
Ogq1CuQCLjH23Qd1mU0czI/KV6yfZ+awfDPf0SZWcwcGMPiwn2vhpEXq3E4Oeyc2ZT8OcHBYPG/Kv23XzR2Yk3+93V/g72ARnir+
wzkAor4hDK4PRh+RXWa4fIIVVD4NVR26egy+G4Z5MLon6s+WrTyBDgBQSwMELQAAAAgAAAAhAMGOAVv//////////wgAFABhMzEy
Lm5weQEAEABgBQAAAAAAAPkCAAAAAAAAm+wX6hsQychQxlCtnpJanFykbqWgbpNmoa6joJ6WX1RSlJgXn1+UkgoSd0vMKU4Fihdn
JBakAvkahkY6CobGmjoKtQpkAi4GEGhIc/iZJneMoTXSoe7tvB/F56MdTPgyF171j3AAyzN82A+jTRcvC2ldkoohToj+4PRppWZ0
jMPZy1byFcdCHernLFOWuxjtsEb7+pPyp+EOspPFXUxnRjhYpj/NZ/4Q5mD5jeN660LS7dGVO7kmxivcwctcnmVqSKSD+bRvolsv
hzmoerW6LxKMcLiRKjQ9a0uEw5blFtZC5eEOWacVYo/OIN2e76+CNy76Fe7wODCV1/JRpMPF80xHdrNFOuxcJTd5sV+4Q9PMmt4r
X8IdHD4cbftqGe5gEXab40UX6fYILz+6zS823EFUq+3zJe5IB73+Z+b8cWEOIolL+aKrIhzOFK9vyD4V5rDqNhdv4NowB4mL3/KO
VZBuT63YdU6pyWEO3/6XmlvmRDhwyi56dbI3zKF7x3b7kh9hDjvMfvT3AM2/puHau1c7wuFzP+tV22TS7Qla+pSrYU+Ywxa+06rc
6UBzEv+LvAfGw97fc5/cfxbmsOLvhrhnsWEO8861x5/9Euawa7uQn7A36fZoTvsl/LAizOFeltO+Y63hDloNW6+o1YQ5xLzwfGeo
GOGw9/DahPa8cIfpuTXRnLlhDgITeaJfGpBuD1t3cMGy/HAH3p36rD+A/pi0gV/5gmy4w9zSrVP+PwxzmF/ad3tHeLiD4WF+h91A
91zRXzjfQZR0ey5LalRc8gh3MNDnCfwOND+KLeHZ9k9hDhpb5nruvhbm8N9LrO6DcrjDshUn5lifDXNIYtglWfsjhWR7AksLjSRT
wh0YJy63ce8OczhYzqVqFx3uEOyuezPoRZjD8813XdQ7whwCrp0+15EZ7vD+tZ3Om1uk2/Nj9T2nolpg+EQw9qcUANNX4btXF+eH
O2ytEHUtmR3m4Dv5ycHHdeEOtTfLdJnaQfG37fvJPaTbAwBQSwMELQAAAAgAAAAhAKysLj7//////////wgAFABhMzEzLm5weQEA
EABgBQAAAAAAAA4DAAAAAAAAnc75S5MBGAdwzcpSDEvTlZGrrE0bMnNttTn7bm2vR1g2ljGLdPi+q0VpbmOKHazCIy2SBjk6xLSs
xMoOChWbZGN4dWhaZJexSSXlssucWtZf0Nvzy5fnCw+fx7x+U1KyytPD6LGXRVL6DB1LyGTFaFaxOEyWJktn0Kkz07J0JPWnJ9S7
9NRkr9+h3kNN7uyoFRxmVHQ4h7mf+Z/j4/F3XNZ/TY3NXDB3NwWB4qR2+J4IzfaVoq8yAXxTd8oiZVx0E87vOcuWoaHQPZaWHIS/
ZyYN6DquwR/5Ki2FzXyPxKvLReCMvI8U8/jwe2jvKyuMgjH5YoDLHYHBcqWjfCYTfZlKJyc0mLaT9+LTqH4bhTfvJopibCKccPUH
1I0K8GuYOagv4aFWqqjwtHMxsdDu426NgLXkeu/xxWzazpYObysvicK1rvZpikoxhh+o/c1mEeanXN6Z6+TDaeEW+hfz8LWcMZQc
HoWtgQW+QheXtnMgsFR7lU9hadeZD0NaYP/UBPeNp2KE2hgD36qEUAbnnhoQrUZWry5mzWs+igxV7SHL+bSdWQ77jNEQChk3l7yd
aJWg9jSj+4hUgnUXen5WNopRs/5+a55XLObOK/bp3CeEoWyBf06NiLYT5hw/MWeCxGzbw2DfFinGVCOmTXek4MrDUosfSRDytO9W
2S7AFNJSyUgHxvvJNmVHLG2H9FRV21+SmHHlFwpUcox1nQ8o5coQJrA0CCukaNbLNd1KKRiBTQlHYyb/uPRAUftMQtsZvnlHcreR
xIEn3V2KJjnUFKZUHJPjXI42f+27tbDGjggqs2WwWNm5PEIG7xJz4o35MtqO8vvz6BwLiaA0v/LGagL1ReEZCjaBPOM57/AhOUwG
9sFxLwJlb6c7Uqxy2G7XGJ2v5bSdwxuDzqYYSBwxMT4218UjlL+ox18bhwufNXMy/SbzRfShwFwC4rbtfH06gTZHkvetSIK2U104
1VKzgURE3UCPsS8e+Y8d7kSvBHypqn+lzI5HZ2j66eiF8RCwMvsVVXE4xssetPXG4TdQSwMELQAAAAgAAAAhAF1td9v/////////
/wgAFABhMzE0Lm5weQEAEABgBQAAAAAAAKQBAAAAAAAAm+wX6hsQychQxlCtnpJanFykbqWgbpNmoa6joJ6WX1RSlJgXn1+UkgoS
d0vMKU4FihdnJBakAvkahkY6CobGmjoKtQpkAi4GMPiwn1h6noxR4t0HKQ6k6iOVdvz7xnH/H9rbUy+UN1dIIpXm9mS95vq6wIj2
9nCGujOr+NDenrgHyy86pNDOnnDPVfHxv+McLtl+0GyqIt+e2d2Jt0QmJcL1K00K1dutlOiQw7N9gXhpAlz806fS48F9pNuTdGTi
TYNlSQ72X78F3q5LcjBXFplr+S7RwcmeqWm5S6LDgTrFGu9nCQ6B147KXXwa77DxluhKxvmk2zNnzYsNNceSHay9cs6eyEt2OLI8
3194fZLDkX6p2TbXEh3OL9cTmW6T6HC4IiwnJiPBYdXcXZ0HV5NujyrHBF9++VSHbU3bHXTDUhxCo0T6T/ckO7xb9+Dh4ZAkB48T
UZsrzRIdrv4PyZzzNcHBI98g8OxmMuOnIc3B7um+1uWvUxxObHyw0OJLsoOO7r7vmtFJDhvsW2YkPUp02HRKtSEBGF9W2wMu9W0j
3R4AUEsDBC0AAAAIAAAAIQDA/oel//////////8IABQAYTMxNS5ucHkBABAAYAUAAAAAAAA1AQAAAAAAAJvsF+obEMnIUMZQrZ6S
WpxcpG6loG6TZqGuo6Cell9UUpSYF59flJIKEndLzClOBYoXZyQWpAL5GoZGOgqGxpo6CrUKZAIuBjD4sJ9YeterUwsqd6c4kKqP
VLqj13f+hpu0t8f68F73sO+0t+d5uZuLnkgqze2p0l7/7pU+7e0p+7jls7oX7e2ZknDYOSWJ9vYoTV19/U95qsNseYFXRjwRNLOv
uW3yb+0uhH8M73zyN7oYTnX7ZtQLbBeegTvcjBVZjfa/iHDw4LSUNquJdPigeWS247Eokt2x3qbl+K0FqQ4dJ/dveLcJ4Y/AK9ob
3eLD4Pw/fx49dfMKdbCJkr15eFIwyfYkHDnTfmcxwj9HrPaphVqHO2glx79nuxDm0MXYufb5njCH+oMZ2g+eQM1vSHMAAFBLAwQt
AAAACAAAACEAg7+8jP//////////CAAUAGEzMTYubnB5AQAQAGAFAAAAAAAAzwMAAAAAAACb7BfqGxDJyFDGUK2eklqcXKRupaBu
k2ahrqOgnpZfVFKUmBefX5SSChJ3S8wpTgWKF2ckFqQC+RqGRjoKhsaaOgq1CmQCLqF9Ulxv2ZQdHhx54JsSrejAAAYf9uOify9+
oL/ubxBBdVoheumGzooOjMphtb0XlBzqZlyYbpGn6LDKJfrkfB95B67PbmGPnsrgNEfnqMxU+2Dc9ty9aOe9/pGMw269wKzZ2fIO
pTeYpt5OVHR4st/l9FcmBQdn3WfKyitlHPYqXWCK1ZTEac66Tf4HM2MCccq/cXGzrmmRdFhqe7Gg/oaMg5iBxzVFawWHnzeN3are
yTrMUHL4U+8h5VDX8/DFyyYxh/5u7aLf34UwzJP7qJO+Zrs/hnjFaabZn94IORwuu+h7t1zM4YwUz6aCO5IObObOqkXvZR1sE9un
KhjLODBpOeye4S7hsN4r72//Q2GH5JNOTKluAg6u/x8sV3PmhJt7RHaZ4fIJXnC+W7zn9JpoToc5n03cfeQEHARTi29WaIo47JyX
PmeurITDha6/5UlOMg7nXwpw32GRdohLmvli6k+gP2Zzf9keLeTwIEk+pdqdx6HZv5Ff8zuzQ0hm39zUxT/tN/H9UAy54eAgcZr1
U2zsT/v1hdrzL7myOCQITLl9XI3HQePFUmGlFUIOrucaV7EsEXPINmQ4UxIm7ZBw7HKExUYphzVlD47qTBNzmCvfyhX2RdDhsLto
feoVLod1/3aelD/P6KDW+TyI5e1He7A3GtIcvJUO7J1/7aP9ItaUP1ESTA5Zcz/7xWlwO1zjyLH2ew/UL/Etc0OXmMOWm7JM84Dm
vzo+79ek/1IOPawf10x+IuagmLjjpG6kkMPurRU5tSt4HDg+Pdj3WJnFgafp41s2E4R/7IoCfk1e+tM++I5pd4YJi8P5c6xrhJx4
HAxTX3zMrhVyqLfM2736vZiDodnRbSFW0g4bJl4s3x0l42B/QXDTd31g/Mw1/vmCQ8RBzLFfqV1BwOFE8oMteeW44+f68UmHwps4
HTivh23dzS7gMEfkdcF3VRGHpqwFXBweEg7CR04v9CuRcbj7Wlh/Kaecg1Nww/Pf4lIOmZ/vzLCOBobrXZW7k74Rn94OcTDzz/wr
5KDvGpgwr1HM4caZt3vyzKQc+jzORk83knP4dd/Y/pS2gsOOVV3SxnkyDq9yk5/z5pGff0IK1obdlJJ0OH7SrMUKaN5cJTm7Na/l
HVIaQppbPBQdmvW9H2YEyDuo+iXeMHhOfnmw6uCX/fubZRxsmlkO9gTJO5z0/vjwf6iiAwBQSwMELQAAAAgAAAAhAEp7aqz/////
/////wgAFABhMzE3Lm5weQEAEABgBQAAAAAAAC8CAAAAAAAAm+wX6hsQychQxlCtnpJanFykbqWgbpNmoa6joJ6WX1RSlJgXn1+U
kgoSd0vMKU4FihdnJBakAvkahkY6CobGmjoKtQpkAi7HVwtW3WORdVhS6eA+97O4wzORxw6GWcIO3jkHL/C95HGYlDh5lZU8s4PU
7KVWZ+Q/2zOAQEOaQ5zaoc73mZ/tVxZ+q22tYXZ4Ep+z7eEcHodtypFCl0WEHSy352rXnxd3UOaZc1x3tYwDy/t/NxosZB2mcjo+
1XWXcFApZEov5xFxyLsnm1iQw+eg+rgqXmEVq8P605/3/1T/be9hc1rytW6yQ07vb8FQ49/2Ri8NbsZmszoE7NK0mxzM5yDbqN0s
yCXicFjhiZNUooRDUvP2CWpKsg7B67et7NCSc+Bvvrsn+oWkw+kv9iGW8aIOnbwLi53jBB2aKv4ueFLA7QD2B8OH/ej05Kucz/ZK
cztI2X/eFpcj6BDz8WDkhE2iDicS+0oKxKQcBB4zH0+bI+fAtmvV4gm8Cg722+Sq081lHPI1tBivaUk4nDMyef88SgSn+ei0WZni
LhM/EYeXDLH/peUkHDaeaJIW3y3t0O1XJSvPp+AQnG3ves9M0SHpyZ38mR/kHDoXzHerfytFtPnodP35eVtWhUo7yLybcj1nu5zD
pB156RcdFB0ehhdc3dup5PCGpyn4Hpci2eaj01Hywmo+xxUcFL80HY87quRQY7MofYKyCtXMR6dnH3Y49pCG5o/SQ4sGAFBLAwQt
AAAACAAAACEAvkAhCv//////////CAAUAGEzMTgubnB5AQAQAGAFAAAAAAAA5AIAAAAAAACb7BfqGxDJyFDGUK2eklqcXKRupaBu
k2ahrqOgnpZfVFKUmBefX5SSChJ3S8wpTgWKF2ckFqQC+RqGRjoKhsaaOgq1CmQCrhIVYfFPq0IdSr88yzXMC3F43CJ5YMvRUIdH
7Wkn3H+GOKjWCp0QcwtxeP6koUQ9K8Th7x3GIAeXVAcGMPiwn1j6vqa3+MxZIQ6Nz329612CHazNC6akPAl1uLI+jyNqUohDzpnk
Y9PSQx00/SdI758Z4tDScm33uxjS7cl5Yfh4OnuwwwM1Yb06xxCHhvkaPtV2wQ6MC1UvqzSEOKzaeuza+cpQh79R7K6T7oQ43LgV
ffVtEen2aFnbPv58Mchhjjf/vdPAcPK933vGZVOIw6Y7BckvFwU7pHpcXCh9KcRh/c/OJpWuEAev5bvvF7eSbs8TlZdKPJsDHNqr
n0vlWIY4xH0+J7OIKdDB0LlMYf2zEIe63Kud61KDHTZ+naqw+mKwg0DY3uR5k0m3xzD1g+//WlcHYe7f6/xKghz8ZD827+YPcJj2
7WJbSH2Qg86Jt7kawHDd/qVKbfveUIcVj5QO9M8h3R4w1ZDmsPSX7eWGxiCHZXdr7lXcDXSYafHvvJF7kINe5urc2/lBDiLcDVy5
YsD423KMecF80u2xX+99qu6ni8MBJd1Gr/MBDqvF2Y7Ov+rvsPiU/H3t8lCHWS6BjG9aQhyqFXZc5wkPJts/qoVfhXbXBDnM2CJ3
mQkYPocuORu/vxDk4GrGI2QsHezQZc96IXJtiIN/EEvU5Inkx8/NQ14LJywNdnj8bFbvDKB7H6vkTDQODXbgTPke1D0t2KH94oKM
F/NDHG7vjA3MiyQ/vTEfFXftPBvisGODu1PzvSCHP60Hyhk+hjikXhTefNcixEFDP1Qy9Hyww1P24FVmi0PJzj+a07/wuiQGO6w5
25QSBPRH6N8XBa2vQh0WzNp6/DZHiMMCtpfvMu+GOrC93qwVxBFGdnkAAFBLAwQtAAAACAAAACEA5D1u7f//////////CAAUAGEz
MTkubnB5AQAQAGAFAAAAAAAA8wIAAAAAAACb7BfqGxDJyFDGUK2eklqcXKRupaBuk2ahrqOgnpZfVFKUmBefX5SSChJ3S8wpTgWK
F2ckFqQC+RqGRjoKhsaaOgq1CmQCroZZ2m1JYeEO4t/DD31YH+Ygs/QsT3xmuMNZnrWyIi/DHHzXrT0knBDmcF8scoNidJjDJtGF
OtavUxwYwODDfmJpO8nfBtF/wxyMTv6R5Q0Ic5Dd/PEx08Jwhxl2Cx4o3QxzYLgxd4+Ee7hDh8MSc62FYQ7vrN/1nuJNJdme23rH
Vn+fEOYw1f/swvvC4Q6nfxfw3KsPczBn83lixhbucNVJrehqfbjDbN/tupd/hDncuV7NX2NAuj3zlN7lXXgS5vAn5Gm9/qpwh4dK
ilJlDeEO54/X/Q48H+bAm5647I53uIPSNftqPmA4xpmn3rMJJt2eoPSCztQLYQ5/Y5Zq9h4Jh+vPPsi7/OLRcIdDF9r4VWeFOZy0
5gxPaA9zmLM+W/lzKen2cLwWX2WTE+bg1RtY+/lyuIPwEw8T6bQwhyptZca4M2EO73O2fvrQEebw8N6p9l+eEQ5iB215K2eQbk+7
2voXrZPDHBiP11hsC45wWOX4Yj9vebiDa9/k5WtvAMNtUkejjXyYg/XCcD5rlnCHn9IrHkzaRbo9mk2SEbK+YQ6ZmfYhaYfCHVhF
RPxaXMIcFic2n/JzjnRY+oq5S0IlwuHD2sLyXXJhDm57n3bfvE26PTyFJm2F58MddAwureaXi3BIiOaXb1wGzE9/xC+m2YY71Bwu
69fcEOEQJ5nbKwj0F8+Ck7s6fpNuz083CTWne+EOIf35KwRPhTu8u18V4wvMP0siKn3VWsMdfh/4YfBMI9JB6udBlysV4Q4O22IZ
WSTSSLYnSlZwjmluhIP8r38KkyPCHK6Gxt5reBvpcH2/mO2eKxEO72RPf7z/MtTBd7G25fblMQ4PlHunHtIl3R50+tDCab8FuWIc
7KIrXf+fCoOY15DmUKf/rWO7RIKDiLHCrjwz0u0BAFBLAwQtAAAACAAAACEAVxXN9P//////////CAAUAGEzMjAubnB5AQAQAGAF
AAAAAAAA+gIAAAAAAACb7BfqGxDJyFDGUK2eklqcXKRupaBuk2ahrqOgnpZfVFKUmBefX5SSChJ3S8wpTgWKF2ckFqQC+RqGRjoK
hsaaOgq1CmQCLgYw+LCfWNrmiP8rA9NUh/fXrb7E7HVwMJwSLWVzwc4h4hrP+U+dlg4+1996N7iYO6Q/tjjMPs3UwWLR/7sKRaYO
pNrz79jPgAveqQ6RL04/5Phq6/DkAO+EFW8tHXbnv2ueN8PMoSlqWobfcROH3MePTM8aGDrsb73FXjzLgGR7tj/ReKIUm+pge7Pg
1oIoa4f3Uw/rKc00d/A+d3pVtKGJw+/pH36mVho4uBxfYDXTW8vh3Q63PY3r1Um2R7Q/frtIRqqDxdnYj5+4rRxu9S8pW/8C6A/P
lVWCeoYO59ReeJ3foOmQXDuzPeSFnMPKE+zHU46IkWzPib3OH65kpzqsXuVScznQymHlP1uuuO2mDrNSpsu7lRs4HA6dV3UoVt1B
VeVg5rkPUPMb0sj2z7Itiu21d6wc7md9DAytMneoY1/QdemNgcNuj8/znldqOZgbLpB/81bOwdnfmuNcnTjZ8fNzAktsVbW1wxOv
Vt+kHxYOexbekj+2ycTBokrh8eZl+g55PX9LLsppOeg9NC3ZIKpGsj2w9ObhXVN+p83e4du3LRzvo60dlNlVhH5PM3PYXaDmxvnU
2MHg9oVwzp+GDsZiJz9vvEB6eoPlH+u5f0VbVR0c9rlwNk5Ss3NgMd/gVjvb0oG/f6Xoqj0WDgHu7v6brcwddvLse1TRakayPVvi
N8vFS6U67Lx51vqtiqNDwps1OT4f7R0kdNk5/8sC82v89z+qf20c4nnedPKtsnYw7p95eXuPNcn2vFbaoRT+J8UhK/vNPbFAZ4db
zh3H2JsdHeZkxCqZLXRwWGemVebqY+8QVdMZF9Bi53DYiC+U5bstyfYsuz97/svbKQ6asVsDtx52dqi+PqXweaGzw5YNtht9y5wc
PpluU+o66+jwtFb5UY2Co0Og2Z8DPNaODgBQSwMELQAAAAgAAAAhAKpwnEL//////////wgAFABhMzIxLm5weQEAEABgBQAAAAAA
AKoBAAAAAAAAm+wX6hsQychQxlCtnpJanFykbqWgbpNmoa6joJ6WX1RSlJgXn1+UkgoSd0vMKU4FihdnJBakAvkahkY6CobGmjoK
tQpkAq6ao6V8RxanOLgoXtIIYEt1sGy0iZZcluLwnKXNpqks2YEBDD7sh9EH2B48vnAlFUOcEG2acmlVjhhUX0Oag1bkybdnjVId
bO4f2flzW7KDg/VR3fa9SXBzE7KNZeRvkG5Pg/H+y3ppKQ5Jfg56BeKpDkkfdWs1E1Mc1k3a0TS1Itlhwt9W4ZQFCHvI9c804Y3M
03KSHRR4V3aovUt2WBD+/IrlzGSHrUsnS3VtTHKIe968fpYIwh6jLVlyrqdJt+fIsZNMzmFJDokO05aXXkxykHnAprJaKclh1axJ
GgHGSQ7LA9cm8lonws1l+2rCnL2HdHukmdVN1zgnOqz8fGbZ3+uJDssZUx+1OiVimNOZIWNSvDXBQXpf0vqUlaTbA6PrcvQ/XVLG
NB+d1rxw28JuMvn2EEsvW+m883wV7e252tqgsSeB9vbYXck2rHalvT1zLshEpmjS3p58x53aO3hItwcAUEsDBC0AAAAIAAAAIQBw
UoYg//////////8IABQAYTMyMi5ucHkBABAAYAUAAAAAAADPAQAAAAAAAJvsF+obEMnIUMZQrZ6SWpxcpG6loG6TZqGuo6Cell9U
UpSYF59flJIKEndLzClOBYoXZyQWpAL5GoZGOgqGxpo6CrUKZAIuBhBoSHPouZDsq9Lo6rD31QyuhidhDmBxhg/70elnqzPCDATS
cMrjoldIa1y4tTHEYW3pc7aLHEEOvBbza04oh8PN0b3qXPj6biic/+ajXMSUd6kk2wOjExaKxS1fHOqwaVcaC+u0EJzmSE15eDt7
Oen27Pia9b57ZajD/1nTV1a2hjkcubrD8ZN3mIO5w7EPHd2hDmuufC7YzocIxwuRzZ9tQkm3R4R3XtbRo6EOv4KXf59VgzDPTPPN
K4acMIelb4JeP5uNCLeeig1nZBjID7d7j/LaGPJwx79McLzh7GlhDufmXVe8sCqFZHv2361b8OVBqIO39+Vdgf247YHRV+W3sM8O
I90eXPSF/ZYekjPDHFJjAm4bBSLsn3LeY7EJC+n23LtwV7I2DLc//n7evds9HCFfs9L+kOCWZKr5Bxf9f5bNgoY00u25uHV6RWQu
4XjpOHN8xcyqMAfnivvuW6Up90/q9a7rNhMR9l7NC/y0sCPMgYP3oe4GYDrZkvPc4MLlJJLtAQBQSwMELQAAAAgAAAAhAGLCU+f/
/////////wgAFABhMzIzLm5weQEAEABgBQAAAAAAAF4CAAAAAAAAm+wX6hsQychQxlCtnpJanFykbqWgbpNmoa6joJ6WX1RSlJgX
n1+UkgoSd0vMKU4FihdnJBakAvkahkY6CobGmjoKtQpkAi4GMPiwn1h6yaQbVwX40hz+9hvNtuALdBD9aPbPiCvQ4eKjtdoaPC4O
hZYcUbWmdg6n+OpPfeQ2cABra0hzINWejVr7t196nerw4s5Ktbe/AhyC3L5Ybtzm72Dt332+wcffYa6G7PYWlyCHN/2v5JoLfR1u
8gh1rp3gR7I9Z46+qQhbnOpwKnv7+grTIIeCnOisKZVBDhXF59TmVAQ7bF/pudSMJ8ThmPB5Tu2/wQ5350b/fiMUQrI94qVykcv9
U+H67iTnvfnejjDHp4O9pSOZdHPR6QtFIZtYf6Y4SOWGcht2hDiYd2QJb54Z4iCyomzdovwQh4NfYm7aSoQ66O8KFHyyPsShdN7K
fYfnk27vNfaA626LUhycmqfwW34Ocdgjz8p+bGoo3JyqG6fVnvYj+Hc/RrnHByD4xNIp5Tke231S4Pq6zs9g0V4Y6hCRe+yK0HqE
eYJOf48tnEa6+TC67qkIg/DPZIf9OlmZrVdDHTRceQP1tyDMe9mxb8/iklCHqsKq+3JA+4Pvf5qyr5p0+1ZkGNVdXJ4M17c2XnZN
136EOT2r90psOBLqsJz79pwb10IdpFQP/Mw6T7o9KvkHtZ0ikzH01S3xc1sIdL/Y/GtOwdcR5q7bnaos85Z0ey5Y6kvO5E12sKjr
jVN6GOowV3LilMyp5McDLvpA5aFHX48kwc3NWrzq+9SLoQ7dJsUar/fhtg8AUEsDBC0AAAAIAAAAIQAiO9uj//////////8IABQA
YTMyNC5ucHkBABAAYAUAAAAAAADgAAAAAAAAAJvsF+obEMnIUMZQrZ6SWpxcpG6loG6TZqGuo6Cell9UUpSYF59flJIKEndLzClO
BYoXZyQWpAL5GoZGOgqGxpo6CrUKZAIuBjD4sJ9YumuhiRvDvyQHUvWRSvNtm66w0TmZ5vZc+vX0w8du2ttzgjF11YJrtLcnR1mR
v0s5heb2GBgbHkouor09HsKW1w8cor09fumFW78Lp9LcnndqZ+tvp9DeHmkWbp2rm0i359W0n1cW8CU6WD8S37xCJIGgfs1fzEru
38j0T0OaQ1ejsobhNsLx+198JpecWBrJ9gAAUEsDBC0AAAAIAAAAIQDiAqkk//////////8IABQAYTMyNS5ucHkBABAAYAUAAAAA
AAAFAwAAAAAAAJ2T+1OMcRTGt7vKEItIZYtpi9SkKRvhGeXWdav9vmpJl3ffnVy6aCmsUlM01sikcptoY1NjTGTl2qgZSZoylRo1
iWVcdqQ07pLWi3/A6/xy5pwfzmee55lTHEZCxTFGvAyeUihjFHS6cIlA6C8XCd0FQnlq+o70hJS41HQZ83u/OmGbgmH3iqSENIad
Xb0WuQu8vN3cBVmC/ywr3p8aafjXbnauVB/fnohTB0J6zUBhbZm11kVKYYGosrP+MUHPa1Who44AqSezVw0QMEVVS0fHCLhyKvLM
B09Mp/HZhGa8Rwka0hboC58TLC/ZGKIcJrj98XBcVRSF/caKrmVvCSzyLc3qjCjOHLU2pa0pnoZ61HfminoCY7frymusjq6RPc+f
OlAgypalmkAKG3Ynm/sFUEDr+3j9Wu4ccdlISlMNja/v7AKGywkW5ho5ZthR+KjUFTg0EbQ5FsYYbCiUGtOamWqC19VFwWvecPct
rKK3kTbQGPaxcGm+S+DyNnNE1UGww0kk7bxJEDZ/F28Fq2vA5pNbAevnPW3hs+293DlSv+M8SaQMA40Z1GgNgZdHx7xpfhSK3n9z
Ld9EkPnpouSQD4XDTqExFesJJsivXujmcfdNH/vGe06VDLYWX8KCfNhcqgc7ZlhTeEnpgufbs3lsOdJyqozAVNQiWmYgOD8rmbYM
5a6nr1jlOPGnDKZD/LpYPoVxk0HjM30EsduPujO2BDf5nmKzLQSts2vV0dcJku/PQfdO7hyNVGf5KJKBydT8n086Jagdb97WkUvQ
15+tdvCVQKU7jQYVwcs6Ev6EzUuTecOkuZI752xgFr+6ksFiu+mRwkNRaH/Q41p+OQoGxbqV5R4SaMO/t+RZs3/jaR9czyPwnLvP
OVrOnePRX7KVHmLgYT5MnfOWoPjzlEar9giYfvCZptVEYEyaFCNQiuEc9KI256gY/CT9ncRJYs6cK4ZLe1ZNluPYrXn+7R/CMck+
9+BTfgQUN/ZGP7QMxeZSemzgx2rwa6YG8l/5/r2fI8cvUEsDBC0AAAAIAAAAIQASYmSd//////////8IABQAYTMyNi5ucHkBABAA
YAUAAAAAAACwAwAAAAAAAJvsF+obEMnIUMZQrZ6SWpxcpG6loG6TZqGuo6Cell9UUpSYF59flJIKEndLzClOBYoXZyQWpAL5GoZG
OgqGxpo6CrUKZAIuQbP5T2d2Gzr46Gf82eFi6MAABh/246K1mjcsNTQPJ6ju7o1Z3Kt1DB34D6fuyI40dGBv37npziRdB8MpX/v6
eHQJ6j8aOGHmgWjC9mz3NcvYrqnrcCxtikBvra7D3nmNjEu4NRyu3DyxeMELdYfXaxf/DK9Wx2nOys3fahon4bbnPveGie2X1B0c
qw+eNBLUcHhpcqO8OEnDIbEprkrslJKDwjq3+toJSg4ln+4ppBooOcxe969b5YQihnlrpiyOrnqLac/6nrMdRXsVHX4s2Venpq7k
MCukek+Uo5JD9AZzvR1A8603+OwvNZF28AlLvLU2WsrhgerFiA3/JRx2zrV4uHqWhMOEJ282+RwUh5ubphIk8GNhBJzvs7PBQfam
uEOytkZiZ7SEg+gRpwy2OEmHkjIlJwEdKYcdCtVZ95ylHfg9rxq+0hdy+PGJ93/IJgGHQ22soe3XeB0kma/mfXTldnj5uVR6shKn
w/oLE2znanM4XLF6nHVgTZTDy+hdG5Y8Y3coexnnqtLF6bB2p8fpLyrcDqZZXxi2RvA5zDu+969koYCD07TskvWZQg6BW8W+BzPx
ODAXLvq5diO7gwLHxvgr55kcLorekZMW+2O/ref2mtiFn+yn+5gfXXfgkT3YGw1pDksYpRn1VjyyP5Ewcc+Mj5/sHfL1s52K/tgL
5+nO8TnF5FDiuPgz01J2B3Gzo65HgOZP35N4T0dHyEHFkmOr3yIBh5QV8+eaXOJ1WBj3Tfjhcm6H9cWrFhXFcjroyl6d+nUvO9w/
CwQ7cw/rcjgYz8uYY1zM6bCr82ZCjQO3QzhPZPprfj6HR/4zTx9ZJeCQ8Xz+msOhQg7eBapvy2KkHW5wLmF94CDl8ORFWZi3saSD
UW3iC+54CYdr4tVhFV9wx48SpzOP+n9xB2u3xabsFhIOqzLUK3MiJR3+paqp6MRIOay5tuyTX5m0Q8VMdu0Lt5UcPmy6ZfY5R8kh
6vRhDWN+JYdlP0LYjx8jPr3Z3b8nNe2sooPGD7Nd/vpKDpz7z550aFZymLlyTUznNyUHjlblrD1eGg7q6TbX1bapO8yoDSsQ2Et+
/lnBVL+sNFfdoSM/Xl8XaJ7SluxZsd/VHbjEzEzuB+o6NAgLLZAToF550Jls56QkpOug8/tCjEymrgMAUEsDBC0AAAAIAAAAIQCj
5NE5//////////8IABQAYTMyNy5ucHkBABAAYAUAAAAAAAChBAAAAAAAAJ3RaVBTZxTG8UDUgERciMEiQTppvdFeJFxDjBjNIwIF
B1KUOsimshoRhELROkggSEVHFisooCLiUhSsURpFdtzFUsBBKBoMFcNYN1RUKCDQ2M5cv/d8+58PvzPvvDnyNV7efkaMrYxEIiw8
PjSOcLIlpBESgrQlImLivo8L3rI+Ji4s/OPeLTgqPtywj1cEx4YbWuBAkbYOC+eRtkm2/3MmJ5ZWPmVLWfDtmPA8zYGJIXb+L/bG
47Jbp7jZrNmDsg3d5+wCCvpkL7L1M57k6WSMj5MSgV0NY5eTBnSyb0dSlymmvZJlT1c+XfRsQLb4bJnrpdwx2cus1blOVkz4C38a
FRiz0JLR+/zZNHOYSeXRmvHJOMMyMr3/hwm8qyvTJ0dOgl6flnK+eQL2JCzIb89kwu7P4ZSsGSRqgtjtgblM7FHnDSUfnYD2uTUu
IQGTcOrlNfPt7SYQ7E9e9pBrhtMeLsTGsSkYjp7P+8GDC8uw+7PmKGcizVvFvpDDQUHdLHnCVA58xhsa312wwL/vYLyuv8772aFk
nxPdFj8yGpeoLCDc0ZQWa83BPHFDW2kbB76t78vLjsyEycuieF0GF43FQe+CHtugwqujx36bDb4eNW0e1PKgHeReHHXioTmt4k03
m0e70h6/5rUxznQT+dM6PC15SNC3ipJJHshMD/PtLTzELuc8MGYbvNXeMxfrbWBS6JJZq+Wj0d66dPQGH6wPXdHMVXyYdGeGdoXy
4XPN1JRhyafd//7Hje4HL0KyVXP56FMd4qcv4aPofYWlUQYfiqiVd8zO8FHJcO7R6vmQcisZvUsF6O+yzouUC1BZN6aOe0Sg1yrL
9fFdAl+1bOqJVBO0q961cOPeMg+6Oyeet/9slID2u5NTH1YR2JO+r0AhEiB6ziT3ZGMBPJN+d/BMFKCkOrVQpSGhtC8+fLCbRNFQ
97rN2SR0T+buSFhLYvT1lc5zBEm78jcsXRnhSXdWV9iAfhcJRcgtx+3FJHosIla07iZRnOg1mNBGonNvrG+Xwfe/ktQ6lCrE8WXu
yz1zhejX4vP0UCGKKvOk83MMHTuysj5eSLsHeb9VldjK6V5P7aw+rxSiYHCL33CIEEde2bX2JAmxn+8Q2HlICBXlvtX/mBCbXfVW
ilYKO+b52TCvUbh81Dp49WkKv1q6SXGAAtOqPiz/JEW7Nm/IjWcrvqH7ePm910OlFIQZ6gYfJYXA7kuFY7UUSOPeupG7FO4G9a6c
oqPg6tPR3/5MBLsTUYFe7SIs6Di32+WqCPfKucc1GhEijPhRAQ0i2nXTnsyNSPWmO752pJBzQgQz5TZWQ5UIhzNKyv11ItT3+VxS
/iXC49JHC0OMHBHGjIx2nrgI7G0yxwM3xDBZ6qzzeCWGqLN8tnuTGE1dvf1fqsW0m+H/QXORvYpu35jwnPByMSZuKvQerhFjy/ix
fR80Yvx9/UZbgcGjVu1MWdMoxtTZ6+Q370jQ55u1YHqtBG+19kJT9mJkX3wxUF0lARFwlntnWEK7X4wG3+aoPt1ZIVdcDWmRoGbT
bdXATQkqYtSaDQbP/G2kU2CdBGscmzoP3JfgH1BLAwQtAAAACAAAACEApC3xzf//////////CAAUAGEzMjgubnB5AQAQAGAFAAAA
AAAAKQIAAAAAAACb7BfqGxDJyFDGUK2eklqcXKRupaBuk2ahrqOgnpZfVFKUmBefX5SSChJ3S8wpTgWKF2ckFqQC+RqGRjoKhsaa
Ogq1CmQCrjW/8nS+2kQ73PjvPuHl0SiH3VJWVYUO0Q4MYPBhPzrtJMOsmNKRglMeF121VNhL72S0w8QE/VM7XKMdtikXzTc1jsFp
zrbHD8xWXyXdnvRb5V7Ck2IctmoJbNj6NcZhW/P52R61CHu2hp359VUpFs5P/luhvkA5lWR75n6Yf/pZR5zDhlJNm91y8Q59a+/e
/vA6zuHGio8V6/zjMMyrqHb+qV5Iuj1FR/uFJeYkOCgfCF7H/zXBIU1H0v1bQIJDi2rvnRcnEzDM09v78dq53aTbEy8QsKvyYpLD
+mfSc/t1kh2ui0Rf45+a5BDV6m75oSgJw7wDcqKKIX9ItwdMNaQ55DBtjNtyIdXhxzWP4kWcqQ6PMvMLzthgxvd172VLj0mlkWyP
3IvE36mnkhxkyuQ1UwSTHb7IPMp61p/kEBwTdGTLwySHwy8Eb0bFI/xFrn8qhVepC15KcPjw/MiZNRcTHJbOZb5htSDBwa1ScrFm
EfXiZ9ezMy16J+IcPExsDrxfEOdw9516cH9RnMO+/J2/i72ol94WLNDYpKYd67Dj9QYfgYoYh/3RXF8tFRD5xWbJ/70GsYj8RG7+
UapLSYoKj3ZY2+RRpeET7XBzxwm2YlPM8uBw1erX7rLAfExmeQAAUEsDBC0AAAAIAAAAIQDlZOlS//////////8IABQAYTMyOS5u
cHkBABAAYAUAAAAAAAD1AQAAAAAAAJvsF+obEMnIUMZQrZ6SWpxcpG6loG6TZqGuo6Cell9UUpSYF59flJIKEndLzClOBYoXZyQW
pAL5GoZGOgqGxpo6CrUKZAIu7YnreOPKwxwYwODDfhj9JlnA1NINU3ytu1vNk2tJGOKk0ptv85+X78A0H0arzZwxq1A+mWJ70Gmx
k8UPXXLCHCTFOjUKzcIcLgnJKHBkk28P1+QKVf0yTH8Ef/s4Sd4DIS5ybe3pSTvJt+dCIE9acwHCPEmbx1dupWHa+6+o68Q7rhSy
7dkikFzplog7XorOZ1eFN4c51B/NePwyjnx75NhPaEXXhznE3c3+/5MP076Lrj0FhrdCHfZUHEx22Eq+PQYW1i8f8SPMt98vssVx
SpjDyvi1/SdFwxz2KvaysbuFOqTw8njM5E0l2Z6fZlZT87+FOqyYnR2t8j/U4atRllLBwlCHpe8bIoqTQh1+TAsMNf4cCje3qeXN
x+p00u1Jk5zTHrQ01IG9eMvMjLBQh61/7m86yRbqoKPAUC5wOcTBm216NGMewh6W+7571A6Rbs+2aIHl7ksQ5gTd2xYqmRXqcO5/
SrvtwmAHaZe+6QkyQQ4La2dwNb4NdViUbB5TK51GdvzA6JcSid0MOeEOoZu/nMkyc4SY15DmkCCcf/kZS4SDzurd8xZHkW4PAFBL
AwQtAAAACAAAACEANViFNf//////////CAAUAGEzMzAubnB5AQAQAGAFAAAAAAAAdAIAAAAAAACb7BfqGxDJyFDGUK2eklqcXKRu
paBuk2ahrqOgnpZfVFKUmBefX5SSChJ3S8wpTgWKF2ckFqQC+RqGRjoKhsaaOgq1CmQCLgYw+LCfWDojRN5myvcUh/0zL9pW3A1x
+FekmqsgH+qArk51/6xT108EO8jzdCsukwnBkCdEs9ztsG3xS3Xg05kcajwn2GHn8tscnc7BcHNmKrLOYZ5LurnodGtyclfjolQH
S3krdbaTgQ4p8zP1d7MHOfDqLSs//C/I4ZiQXlRcb7DDmx0yyqtrgh1cgsPV6ici3EEsPWeW/Hen16lwfT3vLCwnqwQ6+Ek/UWxe
7esQW29TcY49wCG4duqOGzVeDq6vWXaE2PqSbI+WxyWpRbxpDrfMjLrFF/g4LN1vy26i4+Vw/qsMF4eyq8OiDQurGm1cHH59/nrK
7KMRxPyGNIr9k7WpOH2lYRCcz3jvqv+HxEAHW00em/YuL4dV7etTXvz1J9keWPzA+D47pP5cmhXs8LF/lZ/E2mCHXy8XXdcqDXIo
7P91qMgv2MFT+YF+0LpAku2BpTd363NFZhtCHDJYk723xoU4rNI5FqYfH+zAtMr2+oTDwQ7t8h84J6qEOEQpyxyaeI70dADLPzB+
ft/93YeOINJxRf2h7VdPhjjsae80K34T4qC71uFH5F3S0/nxJeZ2XQsQ9vDvXnRtclOIwx2L1mPW+0Icply/YFIvE+qgUtUY2yQZ
6rBzn9i8eU6Y+ZgQvXb385otXikOa371zvvjG+rweu661KQLIQ4uDSbtNWS4G6d/Pim8O/8tGW6e2OPpa4o9Qx3eTNS+cEw71IFz
51K/NBVM9wMAUEsDBC0AAAAIAAAAIQCqySGJ//////////8IABQAYTMzMS5ucHkBABAAYAUAAAAAAAADAQAAAAAAAJvsF+obEMnI
UMZQrZ6SWpxcpG6loG6TZqGuo6Cell9UUpSYF59flJIKEndLzClOBYoXZyQWpAL5GoZGOgqGxpo6CrUKZAKuHs1ymXM2iQ5XNubO
e9mb4MD/60TFPNdEBwYw+LAfnf5V/sM7hzkNpzwu+kS+r/IRsVSIvoY0h66rXJfCvVNxmvOl9eeZ6+qk2xOy1jr+VWCCw+u5Jk94
nic4hF27eHKDXQLV/UMqPdv52Myq3bj9Sy36TnPUQcVs2tvjorry0zMJ2tuju0W559axFJrb82PW74B3pbS356bQed31arS3R0D2
7K6qm8k0t2dxpFvlpD7a2/Mpl9tcxY10ewBQSwMELQAAAAgAAAAhAP8CFV3//////////wgAFABhMzMyLm5weQEAEADAAgAAAAAA
AFYAAAAAAAAAm+wX6hsQychQxlCtnpJanFykbqWgbpNmoa6joJ6WX1RSlJgXn1+UkgoSd0vMKU4FihdnJBakAvkaFjoKlpo6CrUK
ZAMuBhBoSHMA0wwf9o/SozQpNABQSwMELQAAAAgAAAAhAP8CFV3//////////wgAFABhMzMzLm5weQEAEADAAgAAAAAAAFYAAAAA
AAAAm+wX6hsQychQxlCtnpJanFykbqWgbpNmoa6joJ6WX1RSlJgXn1+UkgoSd0vMKU4FihdnJBakAvkaFjoKlpo6CrUKZAMuBhBo
SHMA0wwf9o/SozQpNABQSwMELQAAAAgAAAAhAP8CFV3//////////wgAFABhMzM0Lm5weQEAEADAAgAAAAAAAFYAAAAAAAAAm+wX
6hsQychQxlCtnpJanFykbqWgbpNmoa6joJ6WX1RSlJgXn1+UkgoSd0vMKU4FihdnJBakAvkaFjoKlpo6CrUKZAMuBhBoSHMA0wwf
9o/SozQpNABQSwMELQAAAAgAAAAhAP8CFV3//////////wgAFABhMzM1Lm5weQEAEADAAgAAAAAAAFYAAAAAAAAAm+wX6hsQychQ
xlCtnpJanFykbqWgbpNmoa6joJ6WX1RSlJgXn1+UkgoSd0vMKU4FihdnJBakAvkaFjoKlpo6CrUKZAMuBhBoSHMA0wwf9o/SozQp
NABQSwMELQAAAAgAAAAhAP8CFV3//////////wgAFABhMzM2Lm5weQEAEADAAgAAAAAAAFYAAAAAAAAAm+wX6hsQychQxlCtnpJa
nFykbqWgbpNmoa6joJ6WX1RSlJgXn1+UkgoSd0vMKU4FihdnJBakAvkaFjoKlpo6CrUKZAMuBhBoSHMA0wwf9o/SozQpNABQSwME
LQAAAAgAAAAhAP8CFV3//////////wgAFABhMzM3Lm5weQEAEADAAgAAAAAAAFYAAAAAAAAAm+wX6hsQychQxlCtnpJanFykbqWg
bpNmoa6joJ6WX1RSlJgXn1+UkgoSd0vMKU4FihdnJBakAvkaFjoKlpo6CrUKZAMuBhBoSHMA0wwf9o/SozQpNABQSwMELQAAAAgA
AAAhAP8CFV3//////////wgAFABhMzM4Lm5weQEAEADAAgAAAAAAAFYAAAAAAAAAm+wX6hsQychQxlCtnpJanFykbqWgbpNmoa6j
oJ6WX1RSlJgXn1+UkgoSd0vMKU4FihdnJBakAvkaFjoKlpo6CrUKZAMuBhBoSHMA0wwf9o/SozQpNABQSwMELQAAAAgAAAAhAP8C
FV3//////////wgAFABhMzM5Lm5weQEAEADAAgAAAAAAAFYAAAAAAAAAm+wX6hsQychQxlCtnpJanFykbqWgbpNmoa6joJ6WX1RS
lJgXn1+UkgoSd0vMKU4FihdnJBakAvkaFjoKlpo6CrUKZAMuBhBoSHMA0wwf9o/SozQpNABQSwMELQAAAAgAAAAhAJi4U/T/////
/////wgAFABhMzQwLm5weQEAEADAAgAAAAAAAKMBAAAAAAAAm+wX6hsQychQxlCtnpJanFykbqWgbpNmoa6joJ6WX1RSlJgXn1+U
kgoSd0vMKU4FihdnJBakAvkaFjoKlpo6CrUKZAMuBjD4sH/KN9nj4nuCHGYtSAj7JBviMKFFJV/gX5BDj0rn8RVLAxwWKrFeyFez
c/hzpljr4yYjB4crMhs8ncwcwNob0hxg5nw0nGZ1rjfK4YKUVfgN72AHBf+H65r0PODyMLp3kd9bvawEB7kzWtI7K6wc/Nmn5ix6
pgxX9zLuraqIQ5RDxN4eXqvIKAz98bNL7nAXxTnIzngfWlNi5rBEcJ6BmbeFg94xxvyOr4Zw9RefPvuV5RyJoR9G8yTeELz92tXh
dmjkY7cpPg6+STbeTPMdHVLWimyxnmKOUx+MPvjCtfagoKvDfmZ2HRP7EAcPyc0sbyZ6OviY/+Pne2nnwP2O7eTS7144zYnoND8W
e9wXpzzftScWifyxDtMZsqI49SPg6j5PevhrRWGYw8tw1zi7Ln+4+CPW+Dkv4qMdLrs67vktGo7T3JLlnQ8dXkTglEenf3/ZazLf
MwhDPQBQSwMELQAAAAgAAAAhAMNInbD//////////wgAFABhMzQxLm5weQEAEADAAgAAAAAAAGcBAAAAAAAAm+wX6hsQychQxlCt
npJanFykbqWgbpNmoa6joJ6WX1RSlJgXn1+UkgoSd0vMKU4FihdnJBakAvkaFjoKlpo6CrUKZAMuBjD4sB9GJ136HCSXHeSw1LJt
Ez9voEPXlqelJuK+DqvyW1bef2LlAFPnuyJ3RUWyIYTfkAYXL1TuuPJBNtKBjUdL/d2qQIdyTYV1Iv9cHdDtKV0glsO5KNZhz/X+
IucGU4eUwxcclRcowtXtUXr1rvx6hIOk1KxD6rsiMPTXZPYW7BOPgYu3v1B5r5ph6vBv4VfeKXIGGOpx0akru14UbHR2ONng21Z1
yMOhrYVD5pmuvQP/95wjf6pMiTbHUqNgbYxZkEOPDb/3ikducH0tCgrdeofccZpTxcq86Mp8b5zyHnYG2b9doh2ai6JLOLjD4Oo0
5JfyyHqEOmR2r9qYPtMXLs6iXmo3hynKoXxz0vS2mlCc5pradp60eBVOtP9w0QBQSwMELQAAAAgAAAAhAF0RVen//////////wgA
FABhMzQyLm5weQEAEADAAgAAAAAAAI8BAAAAAAAAm+wX6hsQychQxlCtnpJanFykbqWgbpNmoa6joJ6WX1RSlJgXn1+UkgoSd0vM
KU4FihdnJBakAvkaFjoKlpo6CrUKZAMuBjD4sB9GL7l+29TsgJ+DRELJrImN3g7mjNIy8ya4OTT5PWRXZzdzCI+tcLvYre3Q3NF7
qopPwwGsrSHNAaY/t/TU5qXSYQ4Za0W47kzydWC8KPm+sdzJAd2eGZbzUx03hDgELFHqFOHTd9jUKJ8WtlYGrq6Zx+dn5stQh443
k1z2RoZi6M8869+9MT/MIVThRCKnu6GD/z3fvKl2hg5rtUys/uzQwlCv7qG8fe7aMAzxv+Khaiw2Dg4veau+yMg6O+jM/axWpWfp
sM08qmWlsRGGenRaq1s3cclFBwfLsz3n0sJ8Hc5OcynbuQHhX1/nrFksjxD8wCM9f3ULQuD8+dklcddeuuO0x1bT6mWAbbjDDtZb
/+++CISra/B4vHM3S7BDpZA0v5GaF1x8Rvekq3pS4Q4GIrIHL6cG4TRXTm75bv5nmOFKKg0AUEsDBC0AAAAIAAAAIQDec41s////
//////8IABQAYTM0My5ucHkBABAAwAIAAAAAAABeAQAAAAAAAJvsF+obEMnIUMZQrZ6SWpxcpG6loG6TZqGuo6Cell9UUpSYF59f
lJIKEndLzClOBYoXZyQWpAL5GhY6CpaaOgq1CmQDLgYw+LAfRvtorwqUEwl32CPfmpTREObQPUXFOvREiAO6uunuIW6Nv50h4g1p
cPlvqX92Pjkc4xA2KWFvsX6YQ4nNhtBTc3ww9KuZ3Pn8UzXJQfc5w9Toyy4OyX4bFsaHaMLVad88lvctL8bBwuXiNq4rMRj6N/2u
0uo/kAAXz6mo2HpLzt7hPduk0ttyZhjqcdH9Tntkpi3wcpjCpLbFJzzIYdHE1G4hczeHEzzHYsVFbIg259e2FSwm58IddANqm6Pl
/eH60mUKI8VuB+A0xy4+QDH0FW75KgZ+ha7Z8Q5eWXenBPdGw9XZRxn/FUiIcOiXXF+e1h0IF+/NvHP2YHGsA9eFuWcKNkfiNHdG
jH/q5sYoov2HiwYAUEsDBC0AAAAIAAAAIQBmlL9k//////////8IABQAYTM0NC5ucHkBABAAwAIAAAAAAAD5AQAAAAAAAJvsF+ob
EMnIUMZQrZ6SWpxcpG6loG6TZqGuo6Cell9UUpSYF59flJIKEndLzClOBYoXZyQWpAL5GhY6CpaaOgq1CmQDLgYw+LBfMcbqbYuH
v4O0RsUfn5AAh93y/5VtW30dfC8+CGSr9nDYfCR9uUyJuYOB2hKdXy66Dl/PWL2de1nLAay9Ic0BZs781TlxF+TCHR4IMitax/s7
MMu1Zz1od3b4xHqnS/2EHVzdY8W1WQsehDsIt2r73JE3dLhiyqCSMkUOLj/rlJCt2tMwB61JAjMYqsPg4jDalfvCVffMCIer8euf
nDU3clC4NaHFscjIoeRczcF34ToIc5Yzmx5hDHNo7xCpUNoXjmFOic1qDy5nR4c3l6y5LPe5OJjpz1qS/dbKoUzT480kPWOH6a7x
el17wxwOf39Sqfk82OGUzs9QoUmhcHPiVy788mmBo0Oag2NuZKu/wyKXaIMf750d4p7NlDNttXRQmq4Zv9XfBa5e8M6n5flOoQ4H
lu7YbBfn7nAh82vNMwFPDHft5z7LsGmBk8Ouhes+MS6McLA0Xvo5wSYYrs5r0UHOwEPBDj93SGt12Hg7fFjgfCzW0cth9sN8qVti
EQ5XEp9WSaYFO4QYbPkx/5YThvksmjvvFE3CDFdc9OKS4C8x+/zg6mOTbyRvFfF1AABQSwMELQAAAAgAAAAhAJi4U/T/////////
/wgAFABhMzQ1Lm5weQEAEADAAgAAAAAAAKMBAAAAAAAAm+wX6hsQychQxlCtnpJanFykbqWgbpNmoa6joJ6WX1RSlJgXn1+UkgoS
d0vMKU4FihdnJBakAvkaFjoKlpo6CrUKZAMuBjD4sH/KN9nj4nuCHGYtSAj7JBviMKFFJV/gX5BDj0rn8RVLAxwWKrFeyFezc/hz
pljr4yYjB4crMhs8ncwcwNob0hxg5nw0nGZ1rjfK4YKUVfgN72AHBf+H65r0PODyMLp3kd9bvawEB7kzWtI7K6wc/Nmn5ix6pgxX
9zLuraqIQ5RDxN4eXqvIKAz98bNL7nAXxTnIzngfWlNi5rBEcJ6BmbeFg94xxvyOr4Zw9RefPvuV5RyJoR9G8yTeELz92tXhdmjk
Y7cpPg6+STbeTPMdHVLWimyxnmKOUx+MPvjCtfagoKvDfmZ2HRP7EAcPyc0sbyZ6OviY/+Pne2nnwP2O7eTS7144zYnoND8We9wX
pzzftScWifyxDtMZsqI49SPg6j5PevhrRWGYw8tw1zi7Ln+4+CPW+Dkv4qMdLrs67vktGo7T3JLlnQ8dXkTglEenf3/ZazLfMwhD
PQBQSwMELQAAAAgAAAAhAI/Q8gn//////////wgAFABhMzQ2Lm5weQEAEADAAgAAAAAAAPEBAAAAAAAAm+wX6hsQychQxlCtnpJa
nFykbqWgbpNmoa6joJ6WX1RSlJgXn1+UkgoSd0vMKU4FihdnJBakAvkaFjoKlpo6CrUKZAMuBjD4sP/llTSD5L82Duc6ZJM0OK0d
+r88tnk7z8zhtdzWt2ePGDrw3l1ovSFS1eHqO45QjSRph1T/iz96wwQdwNob0hxg5jQ3V8vf7Hd20I+LmSqwwMoh5ckem4xiIwex
oJnWLZy6cHU7008Eyk3QceC/Z6vUf1jcgfVJbE7uFW64vO27RUVmZ50dzuqfXCTW6QgXh9E92/Ln5H8yc9CNc3YTdVFymJTiYGtk
quAQPCPi3OtvUnD1u74EOF7c5uwwQ3X3WiV3Z4eJk4xWLz1uCpdnt5HYpeyo77D2nEIg4xU9h86y5p0h5eoORhOYUx2DlB1Slk93
eL7MDa7+cnNid/ZSJ4eaiIWa32rNHSyLvBUN040cbNgm/5ufbe6gqtL/x9YPGF7Mld81ArUcPmrxmsQFGsD1xwrymqhud4HzWS5W
JwkmWmL4jz9O4f69ZiOHM3f56rcfsndweH2z08rECq6OKa/w1TMnF4fJ/NbcE9NsHaq/btEUbLV2uH93MU/PaheHly8d640DHTDM
hdGnVjvZ6H71wCmPThcVCu/sDbWFq/9cdjeBa621AwBQSwMELQAAAAgAAAAhAE0u6uz//////////wgAFABhMzQ3Lm5weQEAEADA
AgAAAAAAAAACAAAAAAAAm+wX6hsQychQxlCtnpJanFykbqWgbpNmoa6joJ6WX1RSlJgXn1+UkgoSd0vMKU4FihdnJBakAvkaFjoK
lpo6CrUKZAMuBjD4sP/UcdG7pdZRDr/uhHLKLolx8LOs8q1ViXWYLXHBId0w1mHFyjuy3AYBDrq7dDbMSXd1mPL7g1TapUQHsPaG
NAfbtbI2ezmjHLSmT4po1UlwMNr2bmHlhWiHlaEMQX6BIQ6dM+Zcbt0X6ACz7/TlZzweV5IdTBxcqxdtiHPIL3yQw6JmDZefqi75
gIMpwaGoLMjrXVwCXBxGX9uz7cG+uUkOe2wZD50zd3Ww+vTaWPeWn8PjS8xeG044O7xXrHeUXh3lkLp8IrOmYryDXkiPRFsbpjn7
pC8tX+cc4sD9eJm5/KNoh3cnJB9scgl2cNt6RZD5jStcPdO38Dc3FWIdDmzKO/nSMh4uvpbzaubnjgCHOzZ8K5PU4hxaOLSSNH6E
OXwr+XnycJyXw/KW6bNcSyLh6sMW/1rHtTsWzp85T7Lz0dpQDHdt9A9baJoZ5HDF6/sLu9mJDo0VArYHkMJhmUxZqe2faId1+xJ9
f/SFOjipvy9+NTPUYWXbtKmcqQkOc7iEDrXaxjkon/Xh+HQwwOHVgRe+S3Vi4PrXxM1Qjk2NxbAXF72ot9DoUR3CH2UNRRPPXItw
AABQSwMELQAAAAgAAAAhAAw81Yj//////////wgAFABhMzU2Lm5weQEAEADAAgAAAAAAAP0AAAAAAAAAm+wX6hsQychQxlCtnpJa
nFykbqWgbpNmoa6joJ6WX1RSlJgXn1+UkgoSd0vMKU4FihdnJBakAvkaFjoKlpo6CrUKZAMuBjD4sJ9a9CStCXZxNxMcCKlLqjpV
dlMpCac6k668mTZ8iQ5CCbzzuQMTMdQtdtk5/009bv3odEhPswLPZUxzSKVlTLany69KdHhfecZRqj0Wbl5gj6nZdUfi3UMsvSqb
8/zNOykOCcr7NgStTSFoflKcr9ia2ckOny4y/PsxI9nBfnPzrpqlUQ4fL0UuZL6Q4uCjrXSse2WyQ7LHr339jsSHxwxezRsZO5Id
uHLu/c18BdXXkOYAAFBLAwQtAAAACAAAACEAzRDoBf//////////CAAUAGEzNTcubnB5AQAQAMACAAAAAAAAtwAAAAAAAACb7Bfq
GxDJyFDGUK2eklqcXKRupaBuk2ahrqOgnpZfVFKUmBefX5SSChJ3S8wpTgWKF2ckFqQC+RoWOgqWmjoKtQpkAy4GMPiwf7DSS5s/
ciofjnWg1ByhA4eOsIrHU2wOvekqpadT9nUnO4it42uor0ki6H67D2GnzVclOlhv6rk1uz0Brt5h/Y6wbRcSHErb7gkujLF0yLnR
+fb9ZuLD9WmZo2aAa6TDgw9JV6wnG0L0NaQ5AABQSwMELQAAAAgAAAAhAOsrvU7//////////wgAFABhMzU4Lm5weQEAEADAAgAA
AAAAAN4AAAAAAAAAm+wX6hsQychQxlCtnpJanFykbqWgbpNmoa6joJ6WX1RSlJgXn1+UkgoSd0vMKU4FihdnJBakAvkaFjoKlpo6
CrUKZAMuBjD4sB9G/5n76Vfx4jAHdHFq0+tkzY+1fI0haM+xlo5Kgbpoit3zKIz7tcQdwvYRS1/7dqXE7Zo/3LyGycf4f7SGU818
GK2ykrnVvj3JIaX9t/AJlwSC5sudT5nYW5Dg4NC4rsAtBuHfOSfElapSQx0OXvhVp/tDz+F43ekUr2riw/VmPfd90UY/B633ijtP
2WhA9DWkOQAAUEsDBC0AAAAIAAAAIQBmVEIa//////////8IABQAYTM1OS5ucHkBABAAwAIAAAAAAACcAAAAAAAAAJvsF+obEMnI
UMZQrZ6SWpxcpG6loG6TZqGuo6Cell9UUpSYF59flJIKEndLzClOBYoXZyQWpAL5GhY6CpaaOgq1CmQDLgYw+LB/lB6cdECOoU9k
YIpD28Vrn1zvJjsQUm/TVLz6y4EkB1m59pNeCUlw9Xym56o7Vic7MO9bkr/gfQhBc9Bpt8Wry+WbEx12vq1eujzLBaK/Ic0BAFBL
AwQtAAAACAAAACEASH6WP///////////CAAUAGEzNjAubnB5AQAQAMACAAAAAAAATAEAAAAAAACb7BfqGxDJyFDGUK2eklqcXKRu
paBuk2ahrqOgnpZfVFKUmBefX5SSChJ3S8wpTgWKF2ckFqQC+RoWOgqWmjoKtQpkAy4GMPiwn++uS8hO0TCHymtXLzBkhTtIJG5o
fyMc7gCTR6efzYx+y3s6xOFsSHePjFI0XF2Pcs7r2OfRDpIrUzk474Q5cOUUHwiPDMQwZ2IdRyXDzViHme5Fp5bMCcaQv2DV5+8l
FePA7VekwusZgyFfJS55K/5yHE73weiY83Ild3ZHO1id0FQ+tzSWoHpctFD3jvagT5EOfio3Tmj5xTh805SJMvkQADcvapFjfr5e
JNnm46K3/9nBXfEuyWFNXUzWA8NEwua7Tdjy/WmCw84JKuGu6ojwyRBvld8UE+VgXLTow7rLhg47J8cdXeeIGa64aJG4Vq1s1yCH
SyFnnXh4tSH6GtIcAFBLAwQtAAAACAAAACEAnATQWv//////////CAAUAGEzNjEubnB5AQAQAMACAAAAAAAAtgAAAAAAAACb7Bfq
GxDJyFDGUK2eklqcXKRupaBuk2ahrqOgnpZfVFKUmBefX5SSChJ3S8wpTgWKF2ckFqQC+RoWOgqWmjoKtQpkAy4GMPiwf7DSRQl8
H92OxjlQak5xRVmOC3sCxebQm+6vdBFe9TjZwWLV3h5bpWSC7r/CF/N6k2KSwx77yKIb0Ylw9XusnkkuC0xymPL6itd5LSeHDcJx
2zI3Eh+uifL7vmm9i3WIX9mqa9JvBtHXkOYAAFBLAwQtAAAACAAAACEAL8z3mP//////////CAAUAGEzNjIubnB5AQAQAMACAAAA
AAAAwgEAAAAAAACb7BfqGxDJyFDGUK2eklqcXKRupaBuk2ahrqOgnpZfVFKUmBefX5SSChJ3S8wpTgWKF2ckFqQC+RoWOgqWmjoK
tQpkAy4GMPiwvzFoXRl3lrvDqT0B5zUuuDucTfHd2pPl5gCTR6cZ511zzr3u6OBwZG2rppU7XJ1w/okzGz/6Oqzb6Tf5xX9XB83d
0wSCZjpgmMOjvSHl03IPh9b7Fys/bbZzyOLw3BQwywKu7sEW6e5HF3wcXseVTdnI7g0Xf23WoGcpZ+2wQ5ipscPCAy6udqDklnOO
mUOsworXRyxM4OKFj7eq9t31csioiOL7WOjt8E3B069ruS2Ge7YGzSt6sM7CoUX21TcNFWO4/BHGS5Y5s30c/h4W17pW4O6g8WWe
9Itz7g6VroLy04HugKlz1Ur98yfWGsNcdHruf4uf/OEeBNXN75p//gG3psPsL/yn30+ycHh3+COnaYwBXF//JWHXB0ddMcx5PvnG
dHN9FweRiPbW96/NHeRXZCf/i1FycP0TpmC5QsmB0/G0JvMjIYeV94WcpBq9cbrjqncip+wdPYfpU8QDmUo1HKIqWXojWtQdwj/c
SVqXJAjR15DmAABQSwMELQAAAAgAAAAhAAw81Yj//////////wgAFABhMzYzLm5weQEAEADAAgAAAAAAAP0AAAAAAAAAm+wX6hsQ
ychQxlCtnpJanFykbqWgbpNmoa6joJ6WX1RSlJgXn1+UkgoSd0vMKU4FihdnJBakAvkaFjoKlpo6CrUKZAMuBjD4sJ9a9CStCXZx
NxMcCKlLqjpVdlMpCac6k668mTZ8iQ5CCbzzuQMTMdQtdtk5/009bv3odEhPswLPZUxzSKVlTLany69KdHhfecZRqj0Wbl5gj6nZ
dUfi3UMsvSqb8/zNOykOCcr7NgStTSFoflKcr9ia2ckOny4y/PsxI9nBfnPzrpqlUQ4fL0UuZL6Q4uCjrXSse2WyQ7LHr339jsSH
xwxezRsZO5IduHLu/c18BdXXkOYAAFBLAwQtAAAACAAAACEAqj5zJ///////////CAAUAGEzNjQubnB5AQAQAMACAAAAAAAAEgEA
AAAAAACb7BfqGxDJyFDGUK2eklqcXKRupaBuk2ahrqOgnpZfVFKUmBefX5SSChJ3S8wpTgWKF2ckFqQC+RoWOgqWmjoKtQpkAy4G
MPiwH53uaxW31pyQ6JD17LDuaf9EB1zqCNHa71pNXy6MJVv/i6iya0UCKXD9VrNKO/b9iXWw/16zYt5yhDghWuGD5dHba1Icns1Y
uWzxpiSHHJ650sX7PB3Knh3zuneaeP8ZtdY/sFyS4hDV2Vzi1Z4M0deQ5sA1u+XxJeNUgua0ZhstTexLhqsLPP2t8JV9koPul9qD
QhN9iHaH/4Ulcb57kjDUc5X+tGp6luLQ89l/80WlFAfeYwvMjs0IJdpcQjSzjvmV9ToRcPMAUEsDBC0AAAAIAAAAIQCqPnMn////
//////8IABQAYTM2NS5ucHkBABAAwAIAAAAAAAASAQAAAAAAAJvsF+obEMnIUMZQrZ6SWpxcpG6loG6TZqGuo6Cell9UUpSYF59f
lJIKEndLzClOBYoXZyQWpAL5GhY6CpaaOgq1CmQDLgYw+LAfne5rFbfWnJDokPXssO5p/0QHXOoI0drvWk1fLowlW/+LqLJrRQIp
cP1Ws0o79v2JdbD/XrNi3nKEOCFa4YPl0dtrUhyezVi5bPGmJIccnrnSxfs8HcqeHfO6d5p4/xm11j+wXJLiENXZXOLVngzR15Dm
wDW75fEl41SC5rRmGy1N7EuGqws8/a3wlX2Sg+6X2oNCE32Idof/hSVxvnuSMNRzlf60anqW4tDz2X/zRaUUB95jC8yOzQgl2lxC
NLOO+ZX1OhFw8wBQSwMELQAAAAgAAAAhANKULwT//////////wgAFABhMzY2Lm5weQEAEADAAgAAAAAAAEYBAAAAAAAAm+wX6hsQ
ychQxlCtnpJanFykbqWgbpNmoa6joJ6WX1RSlJgXn1+UkgoSd0vMKU4FihdnJBakAvkaFjoKlpo6CrUKZAMuBjD4sB9Gt0d91RSy
S3DwviD1RsU7waHI0up9+eF4B3R1MPpJrtDOiccScMpf9TfWXFMb7nCSR1+prykErk5s8uelt34kObB77J+xZEIMTv1CwfdjL/Ql
w+U1deNm3+cIcZBQq3/C5ZGCUx86/WeZ0NE2/xQHk23nw9PWxTkc95qcW9Np7rCg6ervaZcjHfLcWZn0tBIJmvdEKbZX2TTFoa1+
a96VZ9BwaUhzWKcs8SlhF2H3hKyoXX3+WRJc3dYnjis6zWMcthxamXDptwXR/rk87aqD1WVM94buf5TNPy3FIZP/aNLUhmSHzXsT
+D4v9yXaXEJ02+GZdkd0g+HmAQBQSwMELQAAAAgAAAAhALzb9OT//////////wgAFABhMzY3Lm5weQEAEADAAgAAAAAAAOYAAAAA
AAAAm+wX6hsQychQxlCtnpJanFykbqWgbpNmoa6joJ6WX1RSlJgXn1+UkgoSd0vMKU4FihdnJBakAvkaFjoKlpo6CrUKZAMuBjD4
sB8X3SB0IVu8P8mBkDpa0XxzvhzwbUuB22+WZL4uuzjJYc3HmP+n/yHECdEGR3oVAphSHYwcdJkeu6U41HbbL07qTHToiv43SetH
MtHmTGJ9cfEOS6qD1BpFZvtbUPsb0hz+fRX/s6w7leRw4mldf7NVLsVh7iWV+lkfE0nWj05/lTEyKTBIdahivfLvyMoUhz0nhJTf
bYyj2FxcNABQSwMELQAAAAgAAAAhAOuiQmn//////////wgAFABhMzY4Lm5weQEAEADAAgAAAAAAAG4BAAAAAAAAm+wX6hsQychQ
xlCtnpJanFykbqWgbpNmoa6joJ6WX1RSlJgXn1+UkgoSd0vMKU4FihdnJBakAvkaFjoKlpo6CrUKZAMuBjD4sB9G/zGfF6KyIcFB
ZNFetotHEhxW3bAR0s5OcEBXB6MDG237XMUSccovklPweLs50mEj51m1pEdhcHXpi/8Gz9BLdojbkn9h6fNYnPpL/LtNIvcnw+UL
PjddOjQt3IFF4nbMhewUh5TWielSgX449ft1mv9cHp3sYDZHIiirKMXhjv6mVRV3EhwSp2SVzZSxdcjTKPy3XynO4bIv3x3Ly7j9
AaPdPPh6ouNTHA4q3n7qtBOqviHNwdLeVbf5dQpB/ekc++afU0X4Z9K8V+yRn+IdrqxVNvd2tyeoH0aLlfDKCGknORxac/TxSplo
B7d1dyomTo1xqOq4Xiq1JcXBTnL9P3FguOXsydO0uxGAYe6NR5OOLxZNIto+GB1hcJ0j6kIIXB8AUEsDBC0AAAAIAAAAIQD62AAa
//////////8IABQAYTM2OS5ucHkBABAAwAIAAAAAAAArAQAAAAAAAJvsF+obEMnIUMZQrZ6SWpxcpG6loG6TZqGuo6Cell9UUpSY
F59flJIKEndLzClOBYoXZyQWpAL5GhY6CpaaOgq1CmQDLgYw+LAfnT5RdYjhMneSg8lm65oVNxMdcKk74Buz0eAPbvkJ7T+3P/0X
79Dy4K7Hr4g4nOpw0TGHPxyKc0qB67ugsDlcflOCw5XiUpu6MylEm9cU8ubGtwspDie6CnNMa5IdJAol19veCHW4Um71keFVEtHm
/HPqmLXobIrDTyGfhuOmUPsb0hwYjmgnWkanEjTn2u/zDVbnkuHq7N77xE80SnaQfjZZa/7vcKLdMUX5AI+PSDKG+rx324K2sqY6
tDV8z0+ITXEou6eQ+SMqEkOdiClrkvpZ4v0No1muHfVwnRkF1wcAUEsDBC0AAAAIAAAAIQDnaXaE//////////8IABQAYTM3MC5u
cHkBABAAwAIAAAAAAAD2AQAAAAAAAJvsF+obEMnIUMZQrZ6SWpxcpG6loG6TZqGuo6Cell9UUpSYF59flJIKEndLzClOBYoXZyQW
pAL5GhY6CpaaOgq1CmQDLgYw+LAfRnd6/Jn6fJ6rA/fFfbsUDzs7JEUsFQ8UcHJAVweja2XnZ/zm9IfL6/MZ3bwlEAjnh6aeSpr8
zMTh9V+3IvbpRnDxlx6Xr2nd9HcIlraq505xcFBq3XI/9bE1XJ7zA5PqjwP+DhlSkXOuB3nDxVcwsr2bV6np0Capf17us7dDcE25
t/NzXYc5exsVtzaaOZzx+3TU0dUCrr7Su2X2dwtvBwOezwfqr/s48PtuqFOSVnVI/6vwXFVb1KGro3PnyWXKDl5teqKvTUwciu3N
jrRwmDo4THwSoWZu6iDY2cev7BvgwLYrZBlzmovDFyVB4Qstzg4sHt9eJ9bIQuxpSHMQu6p8fe01DQfp91fZEwv0HP7UW0eINOk7
sGwpSdT4Ywd3D291ytSqVg8H36dPTrs813LQkF3ir+yl4uA4wbz9aZkoXJ1bQ+u2ujXaDneeB8Q7ayPCE0av/pVo9/Gcq8OpdK8g
rwhjh/JTIo5ubvoOJ3ZOXR452ddB8kwf87UkBwfucMMGRX59h4CmP0LWbIh4zH6T1/hNH9NcQnRhLgvLFn4Lh6OlkhfPyzk7AABQ
SwMELQAAAAgAAAAhAMA3sED//////////wgAFABhMzcxLm5weQEAEADAAgAAAAAAAGwBAAAAAAAAm+wX6hsQychQxlCtnpJanFyk
bqWgbpNmoa6joJ6WX1RSlJgXn1+UkgoSd0vMKU4FihdnJBakAvkaFjoKlpo6CrUKZAMuBjD4sB9GP81J36GYnezw3mPZ+uyJyQ5u
D6fO29GU7ICuDkZ7mc/c/N0SIR801Sqs2zQFzo+7wLG+TTHZ4XHAUaX535Pg4lcO76mra01x2K9/QrD/ZxJO858tkbE88xxhnsj5
+POlAikO/2xP58a4p+LUB6Mtb5QoF25IcYhjDQ3Z6JnqcOFL+vpzvKkOX+YeP9k3J8WBpyDHzfVtCkFzYPSJjp+rOYJSHW45ZJoo
FUPtb0hzWPL31vLmE4Tds2OvSZj+vBSHGdMdX6kAw/fl9zcvTvxJcWDz3LGjdR3x7vBVs930WifFITuoqXheZ7JDxVw98UbFFAeu
g8xri/NSHVhuJOtoC6Y61N29fj83EjN8V0ZqRaqfxB2vuGiNVwfnTStNhOsDAFBLAwQtAAAACAAAACEAsAgPLv//////////CAAU
AGEzNzIubnB5AQAQAMACAAAAAAAAcAEAAAAAAACb7BfqGxDJyFDGUK2eklqcXKRupaBuk2ahrqOgnpZfVFKUmBefX5SSChJ3S8wp
TgWKF2ckFqQC+RoWOgqWmjoKtQpkAy4GMPiwH0bHTjo2o9A40MH3tkuQu4ObA1i4Ic1Bac+W8+Gv1RwOunTMVcgwdtCd5/Ov86yX
w3H3/EObPkU6wPQ7h0uWs1XGO3DeWvrgQry/Q6fK7sIWYyOHRVFBS6c+VnPYqb3aeP07bYd7DfzzJS4kOKDbD6ODK0/cM/CJc2CZ
KVG4xzIeru5DnHjsn1AzhzjmsI4uy0SHX88fRWhpmuM0B0ZLzxSuXRYd78A93y+jcpaLg8Nz/9zlBzH1GVw/+vZ1nRtO83SXqSm0
60Q7vKt9+jDntruD5tl9pX/OODisO2H4m3FCCIa+v9/9wr9rBOA074bxUc+fpl4OCa+McifkO+FUZ3Fw9vHkkAic8mI3pBra/Hwc
uBNjOTbtjHH41MzEOGtDOMFwoZQGAFBLAwQtAAAACAAAACEA3WO8Vf//////////CAAUAGEzNzMubnB5AQAQAMACAAAAAAAATAEA
AAAAAACb7BfqGxDJyFDGUK2eklqcXKRupaBuk2ahrqOgnpZfVFKUmBefX5SSChJ3S8wpTgWKF2ckFqQC+RoWOgqWmjoKtQpkAy4G
MPiwH53+Wu94O+FDjAOY25DmoC+Xe2umrYGDc2DGlE1TLR1WPw1r8NMKdtityns0tSTOAaYv/soL4y0tiQ5BwaVPp22LcDB49NX5
+Ukrhy2zeplemxo4dHH1xSetMnI4uMJr+alZSQ647P9U/SI593OCw5IlHLN+zEqEq7s5RZPZY4udw5N/9+dvuQTUv+/O8Q9fbHCa
g05/FDOe0afkg1P9Dv25jMd6ccvf2mySZvMvzsH6ML/nog1+DhFpHzwuH3BxYLdad5RhaySGvhXaug6qvcE4zfMsEsp9qxLgcLLY
11+Yww2nOq7tRzTvVkcT9GdcEY+4XVK8w5mCbZFRAoTVU0oDAFBLAwQtAAAACAAAACEAsAgPLv//////////CAAUAGEzNzQubnB5
AQAQAMACAAAAAAAAcAEAAAAAAACb7BfqGxDJyFDGUK2eklqcXKRupaBuk2ahrqOgnpZfVFKUmBefX5SSChJ3S8wpTgWKF2ckFqQC
+RoWOgqWmjoKtQpkAy4GMPiwH0bHTjo2o9A40MH3tkuQu4ObA1i4Ic1Bac+W8+Gv1RwOunTMVcgwdtCd5/Ov86yXw3H3/EObPkU6
wPQ7h0uWs1XGO3DeWvrgQry/Q6fK7sIWYyOHRVFBS6c+VnPYqb3aeP07bYd7DfzzJS4kOKDbD6ODK0/cM/CJc2CZKVG4xzIeru5D
nHjsn1AzhzjmsI4uy0SHX88fRWhpmuM0B0ZLzxSuXRYd78A93y+jcpaLg8Nz/9zlBzH1GVw/+vZ1nRtO83SXqSm060Q7vKt9+jDn
truD5tl9pX/OODisO2H4m3FCCIa+v9/9wr9rBOA074bxUc+fpl4OCa+McifkO+FUZ3Fw9vHkkAic8mI3pBra/HwcuBNjOTbtjHH4
1MzEOGtDOMFwoZQGAFBLAwQtAAAACAAAACEADRwlIP//////////CAAUAGEzNzUubnB5AQAQAMACAAAAAAAAIwEAAAAAAACb7Bfq
GxDJyFDGUK2eklqcXKRupaBuk2ahrqOgnpZfVFKUmBefX5SSChJ3S8wpTgWKF2ckFqQC+RoWOgqWmjoKtQpkAy4GMPiwH53eVxTM
+/RgsgOY25DmUG+TpFdV4ugwa8KMFHlPV4e7L5JCj/jHOEwwumHB75HoANN3L+euiP3rJDhfnNfKMdXGz2F5P8utzBRHB84br1ct
L3JwaPlkf8DvUrIDLvthdPrlDw9rRBHqljao+F+64O3wzMwmsPldssOptYksbUquBM2B0S/Xfah88S8Up3obP0btNuYQnPJdDBaJ
DUD/MlW+OMm7KNRB8n+Q1NknPg4Sf04UH4qLx9D3gUtaQKI/Aqd5q9yPXvrnj9s9pNLRqyT/TORCxAetaQBQSwMELQAAAAgAAAAh
AM47U/r//////////wgAFABhMzc2Lm5weQEAEADAAgAAAAAAALkBAAAAAAAAm+wX6hsQychQxlCtnpJanFykbqWgbpNmoa6joJ6W
X1RSlJgXn1+UkgoSd0vMKU4FihdnJBakAvkaFjoKlpo6CrUKZAMuBjD4sP+6doL3bftAh6lWfU/vdoY45M49vq070N8BLN2Q5rCO
tXbmqhxNB82Nh9Wc5E0dpooebJJV83NgqP/Twj412gFmzp+VNUs+5CQ4SE9aspSnIMhhi2the32GicOexzKxasmaDgcltjY4Neo5
tNyTTWXtToTrQ6ffCKT5bV8Z7/Ao3WBmXGoCXN193dZ//rMsHFK+53v23090uH6s+3r3VQuc5sgEeNk0p8c6vJFg9b/tneAguFn3
WuNuN4cD0eeZ7TMsMfS9/BHjlObpARc/9d6J/+WeGDjfUDCH37A/xmG/TUfz1AeeDsmLVnYc+ObocOKTutZSzzAM80wUZ3rVWgXC
xXdVWN3tWhIF5+dK//5fwe/jkD7J6ceJFmcM/VUSCc5xx2IdVp3a6H06KxIuX7U/KYTtd7gDk/DUC7mOfg5xExM6zjD5OTyQcpH5
sybWIf7j7KNuNyNwhsuWeZbOTnejcMqj03Eua1i/LQ7GUA8AUEsDBC0AAAAIAAAAIQBu9vuD//////////8IABQAYTM3Ny5ucHkB
ABAAwAIAAAAAAABtAQAAAAAAAJvsF+obEMnIUMZQrZ6SWpxcpG6loG6TZqGuo6Cell9UUpSYF59flJIKEndLzClOBYoXZyQWpAL5
GhY6CpaaOgq1CmQDLgYw+LAfRrPUHNYsmRnvsOCPlYvNvEQHsHBDmsM7o6lCYoUmDq5Fsf4OLnYOku2nC1zXhzlkfazY/l82wQGm
3ynTVsFMJcnhaaNYmjpXrMO5xk854t6ODmXu3L+kU00cOrg5FtTGmTnIZQXffaCZ7IBuP9ycyDPprHMSHRpnr/jP7ZYEV6ebfMds
xgYnh5x1Wx6bhSQ78OtH+qhXO+A0B0bzOetunfc00SH9Rz2z/9oABzGZ2unWyzH1KR4qncdgGoDTPKP6Bv0ZTgkOJ38kMi9rCHT4
pZbz4EGEu8P+Qwr/JgvGYOgLD/qdzpQZitO8tM2zav9/CXRQ/GS9UdDNA6c6vfK9u+tfYJoPo+WkFaMelgc5nGBcIqngkOBw3+n5
DIMZuNVTiwYAUEsDBC0AAAAIAAAAIQBpYzX+//////////8IABQAYTM3OC5ucHkBABAAwAIAAAAAAADxAQAAAAAAAJvsF+obEMnI
UMZQrZ6SWpxcpG6loG6TZqGuo6Cell9UUpSYF59flJIKEndLzClOBYoXZyQWpAL5GhY6CpaaOgq1CmQDLgYw+LBfRL28d0aZgcPP
A4/XvQrVcFD7m7Hqx19xB7B0Q5rDO507q5eyCzpUGH9yduNXcDggfmPxey99h9V2c7Y/ZbZxgJmziD/r+ItfVg7nFi2PqRbTchDk
uBY0yVzSoeW1x/QqVkGHTt/zx1qPijl8PnTF/lqHMVwfOv2hu6NVb7utw6K/Kdck88zh6jSep/svY1F0+PXxSI9fqInDzdWF828Z
q+I0p83/wpomFgeHpoUXV11wt3dQPcFbaeai6+DBvMjcUksNro9T/k0352kjh67C2Z5XM40c7Eq7IpTdjBx0f7pHnj3n4lAeWjkj
gMnBoaNx8oFj/g4OV9Yn/DabZeSgtY4jcOtZPQdz0ZiDk8otHNZNE26MWmICN9fj1NNHjNes4Hweq00TlBOc4fyY3V1X2gLMHGJ6
Xs3hszeCi4fE63AtnWXqcHZu/bWQDW4Oxuuidv55idDnKP+60KXc2UHwWdX2nE1WDnH+2slH3lk67FrxNX6SkbuDcITpnaZFTg7r
uAPTf7ubO1zjVeXsW+YI1y949y57xGJPnOGGTguc7E7/keaIoR4AUEsDBC0AAAAIAAAAIQAxxlv0//////////8IABQAYTM3OS5u
cHkBABAAwAIAAAAAAADQAQAAAAAAAJvsF+obEMnIUMZQrZ6SWpxcpG6loG6TZqGuo6Cell9UUpSYF59flJIKEndLzClOBYoXZyQW
pAL5GhY6CpaaOgq1CmQDLgYw+LD/vqff/S06SQ7Mfif2r36Y7MDF97n+ukiqA1i6Ic3h3kpF3XLpRIdXr31drpyKcEg4Ll3GuyXR
IX5TYrPcsSQHmDlCbgJFux4nO7z/82LNxvRkhz8u/6Ks2xMdjqgzXtkomuggtkrzpuGCSId3+lMEDk9PccjSbjMyU0iE64fRbzU/
HedtT3bwEIp6+JcvBS6fvnit6qMHsQ4Wt9IzupelONwxulT4uygYQz+MTvNY0rHwWZKDzMmNtbVLkx2iams3GB2Jd1jKOYXfelOQ
g+mUkkDub7EOmxj/B3/XSHQ4d36Bj4h8DNy8J5wpgstUEf7bqpy8eM5yoHlSza73l8c6/N+/ZEZbbpiDQmjin+23MP3xQvX93X7J
OLh4vtWC025LEOq4me4d+8UZ4zD3obyz7awQDP37yk83XvRMcuBmePpUUgqh70Ra5F/b6QkO3qWmGybsinKYEGzfI8AR7XBS70NV
immSwx+1V47rZDHdA6MnHQo4+uFOAk55dDpHVsr88J5YDPUAUEsDBC0AAAAIAAAAIQBieSgh//////////8IABQAYTM4MC5ucHkB
ABAAwAIAAAAAAADaAAAAAAAAAJvsF+obEMnIUMZQrZ6SWpxcpG6loG6TZqGuo6Cell9UUpSYF59flJIKEndLzClOBYoXZyQWpAL5
GhY6CpaaOgq1CmQDLgYw+LCfUvrlkvUJnNf8HNSa56/qEIp3oNQ8mWX/VpyckEC2OfKqTHVbHVwdTPbmF5z0THT48HmvS6ZuInnm
NaQ5tGya9X7JzGiH/1qN/lkapPtPs1Ojt3uLokPQMefdv/8Qrz98+eR0tUnRcPVznz/S8p9q6GBcPXnl4hdhGOZ8qJf0bNeOI2j+
sTTxh1ozCasjRAMAUEsDBC0AAAAIAAAAIQDhxQ9i//////////8IABQAYTM4MS5ucHkBABAAwAIAAAAAAAD3AAAAAAAAAJvsF+ob
EMnIUMZQrZ6SWpxcpG6loG6TZqGuo6Cell9UUpSYF59flJIKEndLzClOBYoXZyQWpAL5GhY6CpaaOgq1CmQDLgYw+LCfUvrTvUS9
V1edHU5NaTwvaxruQKl5T2dsmW9yOczh4+//M7I2hWKYd/dciTFnMm57piUeT/F8a+gg9+frtu78IIdv3tZ2b2wjyXNXQ5qD4Bxz
fvF+e4czcvE8b42DSDaHU30Li6C4tMPCWQHTd5zzgeufrbO68vgka5zm7WL1Dvbci/Bn5cE52zv5tR2Cvf/U2fZ5YOg7WCy+5uHk
CILu29j61/A1Zxh54YFEAwBQSwMELQAAAAgAAAAhALcne9n//////////wgAFABhMzgyLm5weQEAEADAAgAAAAAAACIBAAAAAAAA
m+wX6hsQychQxlCtnpJanFykbqWgbpNmoa6joJ6WX1RSlJgXn1+UkgoSd0vMKU4FihdnJBakAvkaFjoKlpo6CrUKZAMuBjD4sJ9S
OuM608cZiXYOpmsFLZftC3AgpN6w9odGe3UwTnUs4YdPz23zcRDg3H1U4Zwvhrpo3lPnGIpw60+5EeISP1nDYcHj+u5ztk4Oe8R5
v1+Xx+0uydnzj06Occcu35DmMHVXsFreLkOH7FWXbA6sccVQ11q4JZaFyRND/I/KGUuvO54OQoYzHiqziTvMY2xUzeiyg6sL37X9
8KutZhj6Hm88F30uz9HBVTjKeMa2ELj8ewaxFk1udYe7Em3/H7U5YOgT2r+a4fpF3OECo+/kr0qU/+tHUB0hGgBQSwMELQAAAAgA
AAAhAGJ5KCH//////////wgAFABhMzgzLm5weQEAEADAAgAAAAAAANoAAAAAAAAAm+wX6hsQychQxlCtnpJanFykbqWgbpNmoa6j
oJ6WX1RSlJgXn1+UkgoSd0vMKU4FihdnJBakAvkaFjoKlpo6CrUKZAMuBjD4sJ9S+uWS9Qmc1/wc1Jrnr+oQineg1DyZZf9WnJyQ
QLY58qpMdVsdXB1M9uYXnPRMdPjwea9Lpm4ieeY1pDm0bJr1fsnMaIf/Wo3+WRqk+0+zU6O3e4uiQ9Ax592//xCvP3z55HS1SdFw
9XOfP9Lyn2roYFw9eeXiF2EY5nyol/Rs144jaP6xNPGHWjMJqyNEAwBQSwMELQAAAAgAAAAhAD6bl1r//////////wgAFABhMzg0
Lm5weQEAEADAAgAAAAAAAMcBAAAAAAAAm+wX6hsQychQxlCtnpJanFykbqWgbpNmoa6joJ6WX1RSlJgXn1+UkgoSd0vMKU4Fihdn
JBakAvkaFjoKlpo6CrUKZAMuBjD4sB9GO9640OCb6+EQvJsvebu6p8P7QzKzRCM8HdDVcSrEmHdY+zgseBEq81ou2EFkjbj4rkYH
B8GbchM/HQ5y+LLD3lyc2wVDH4x+c4pdt6olBEO+d2MWZ2aGhsOdqkvv7uwPcLg53d3W8l0AhrppnLE/1+9B6D+UrnZWJMvVQcTh
3jddZVeHjOW/t66o0HbgXrEue3uLm0NgwVKeRx+DMMzp/3lqiWW+o0OmQ/2vvpUeDl8mFDm7PHV1+L5qyr3cQ84Q9Q1pDtufqLIy
XjVxePd9afvfRszw8OT7Ot3vmJdD+be+3xcjXOHynv7ffIr/ezmkCHUqbLGRcOiOfZ9oG+UEl09bbW2hrmLhsKPV7LT9JTO4+PrZ
VmnLrZ0cuqX3rNi0PdSB92Ng9/OGIIdUyYLwM3YaDhGHPqr7LHVyaDVfujkmx9ShLnyRoccpK4cV7++tdUoJdRC1mvamiQERboxS
QUaPPP3gfIH7e6OfVQXijB/x72vfc063wikPowFQSwMELQAAAAgAAAAhACWpeOP//////////wgAFABhMzg1Lm5weQEAEADAAgAA
AAAAAPQAAAAAAAAAm+wX6hsQychQxlCtnpJanFykbqWgbpNmoa6joJ6WX1RSlJgXn1+UkgoSd0vMKU4FihdnJBakAvkaFjoKlpo6
CrUKZAMuBjD4sJ9SeoJWpONnVXeHc14HElvqoxwoNU9w2q8PP3KiHTTzKxRXFkdimPd6Zd0y7whMcRgd/F1ZyELR3OHEkTuLvG9H
OvDxpU+7XBFLnrsa0hxeXvUKTY72cNhTIn2hsCCcdHNuszx4sVXW4Ujuoe+eLKFw/cuP57MsOG2H07w2veNeRVYIf8YJ/+7Zs1DX
oY91iakQuz+Gvp7Zbo/e3iIc/v9P5D4OmYQ7/IilAVBLAwQtAAAACAAAACEATlnXk///////////CAAUAGEzODYubnB5AQAQAMAC
AAAAAAAA+QEAAAAAAACb7BfqGxDJyFDGUK2eklqcXKRupaBuk2ahrqOgnpZfVFKUmBefX5SSChJ3S8wpTgWKF2ckFqQC+RoWOgqW
mjoKtQpkAy4GMPiwH0b35a3bJSVj7HAs986G+RdNHFbYvqwt6DRzyORYVqY30cQBpu5zqcdH5nBbB7VzlxVV4pwdWJyWKDve1HCo
UVyo6Hje0OGS5mVzwXg9uPoFU+/u4w42cGhh5cg9I2fkcO3dXZddzI4O6PZPYVv/Q5BV0iHtfcUPn1BNh+Pu3WqvZPXh6rgsihe7
VOk69KR5nyyWt0W4h5Pl2pYYc4fsL1OmZLRbOGy5ciKOt1LQYa7J3TWWH+QcevfMizrrrwVXvzXleXFxr4YDe8J63swoQ4e0tn+3
WdTMHRpvNDAdijJHdVdDmkPG94Im65XCDlduLhZwD1V1WDZvQvGRFFWH2fc4y5fe0nDQucNWx9FgiuGfbrXcP3LxNg5O2tcXP7nN
4SB5/Nk3pimyDmsbSo58lpd1kDu/f8VxDzWHfzU9hd/2asD1z2XMfr+x0NghIFZy2r06J4fzl2YverXX0WGPVuuMJ+8kHLjZ1zjP
tFB1mJm/fDX7GWWHgqW+yxT1NR1c3uw6fXOiJYY7Ip/731flRYRXy6bvemE9BhjqYPRadrv11xp0cco/3hL9YWKznQMAUEsDBC0A
AAAIAAAAIQCHxUXO//////////8IABQAYTM4Ny5ucHkBABAAwAIAAAAAAAByAQAAAAAAAJvsF+obEMnIUMZQrZ6SWpxcpG6loG6T
ZqGuo6Cell9UUpSYF59flJIKEndLzClOBYoXZyQWpAL5GhY6CpaaOgq1CmQDLgYw+LAfRk/5tjQ+LC3a4ZX/xi5/9yiHz3KB0p7r
IhzQ1aHTfA9LbmfNjHK48thFSM8qyYF1zYl3/zSicerLe3PUz4c/HkM+scI685OYjcOpHI2ahVbJDtv8cie7xSZhqJOSuc2pV5uA
211v35l6iiQ5XGBcPdNHNsUhwrOm70BxMk71nxcmlhiphGOXb0hz+J7s82KFZIqD2o4m5kXimOYk5Ux/O7Ec07/ZC0p21XwIdVBf
+KLbYJ6OgxDzt71WlxD61+ZOyfnyzB9D3/UdJ2OOlAQ4dKxm6rpYHu+Q1ejZt/1ptMNfa+ng9A3WDne22B9giE2E63Ob9yP8S2KA
A/98xpNtiYkOpx3s591rjYXL3z/tHXnMNNLhiPNB3w+vghzC1/3eUWGOGa6k0gBQSwMELQAAAAgAAAAhAM5OPD3//////////wgA
FABhMzg4Lm5weQEAEADAAgAAAAAAAFUAAAAAAAAAm+wX6hsQychQxlCtnpJanFykbqWgbpNmoa6joJ6WX1RSlJgXn1+UkgoSd0vM
KU4FihdnJBakAvkaFjoKlpo6CrUKZAMuBjD4sH+UHqXhdEOaA7HqAVBLAwQtAAAACAAAACEAzk48Pf//////////CAAUAGEzODku
bnB5AQAQAMACAAAAAAAAVQAAAAAAAACb7BfqGxDJyFDGUK2eklqcXKRupaBuk2ahrqOgnpZfVFKUmBefX5SSChJ3S8wpTgWKF2ck
FqQC+RoWOgqWmjoKtQpkAy4GMPiwf5QepeF0Q5oDseoBUEsDBC0AAAAIAAAAIQDOTjw9//////////8IABQAYTM5MC5ucHkBABAA
wAIAAAAAAABVAAAAAAAAAJvsF+obEMnIUMZQrZ6SWpxcpG6loG6TZqGuo6Cell9UUpSYF59flJIKEndLzClOBYoXZyQWpAL5GhY6
CpaaOgq1CmQDLgYw+LB/lB6l4XRDmgOx6gFQSwMELQAAAAgAAAAhAM5OPD3//////////wgAFABhMzkxLm5weQEAEADAAgAAAAAA
AFUAAAAAAAAAm+wX6hsQychQxlCtnpJanFykbqWgbpNmoa6joJ6WX1RSlJgXn1+UkgoSd0vMKU4FihdnJBakAvkaFjoKlpo6CrUK
ZAMuBjD4sH+UHqXhdEOaA7HqAVBLAwQtAAAACAAAACEAzk48Pf//////////CAAUAGEzOTIubnB5AQAQAMACAAAAAAAAVQAAAAAA
AACb7BfqGxDJyFDGUK2eklqcXKRupaBuk2ahrqOgnpZfVFKUmBefX5SSChJ3S8wpTgWKF2ckFqQC+RoWOgqWmjoKtQpkAy4GMPiw
f5QepeF0Q5oDseoBUEsDBC0AAAAIAAAAIQDOTjw9//////////8IABQAYTM5My5ucHkBABAAwAIAAAAAAABVAAAAAAAAAJvsF+ob
EMnIUMZQrZ6SWpxcpG6loG6TZqGuo6Cell9UUpSYF59flJIKEndLzClOBYoXZyQWpAL5GhY6CpaaOgq1CmQDLgYw+LB/lB6l4XRD
mgOx6gFQSwMELQAAAAgAAAAhAM5OPD3//////////wgAFABhMzk0Lm5weQEAEADAAgAAAAAAAFUAAAAAAAAAm+wX6hsQychQxlCt
npJanFykbqWgbpNmoa6joJ6WX1RSlJgXn1+UkgoSd0vMKU4FihdnJBakAvkaFjoKlpo6CrUKZAMuBjD4sH+UHqXhdEOaA7HqAVBL
AwQtAAAACAAAACEAzk48Pf//////////CAAUAGEzOTUubnB5AQAQAMACAAAAAAAAVQAAAAAAAACb7BfqGxDJyFDGUK2eklqcXKRu
paBuk2ahrqOgnpZfVFKUmBefX5SSChJ3S8wpTgWKF2ckFqQC+RoWOgqWmjoKtQpkAy4GMPiwf5QepeF0Q5oDseoBUEsDBC0AAAAI
AAAAIQBLFV4d//////////8IABQAYTM5Ni5ucHkBABAAwAIAAAAAAADkAAAAAAAAAJvsF+obEMnIUMZQrZ6SWpxcpG6loG6TZqGu
o6Cell9UUpSYF59flJIKEndLzClOBYoXZyQWpAL5GhY6CpaaOgq1CmQDLgYw+LCfXFrqYNLpiDUpDqTqm7a6bhnznhSHTZr8C7xk
UhwsAgqVPacmEm0OY8bKujhrhL0+4muu1SkmQ/gNaRjmPJ8p43M5NAmn+SHHf+UFOSY7+IQW/0zZl+TgfEdJL0o7nGj3SKmYil7e
gGn++vfObLb6ySSHD4w+JLHH/p9eisOSLU0bnY8TNsd+Us0e/qVJDs8jbbPr1XD7l1o0AFBLAwQtAAAACAAAACEAm88ejP//////
////CAAUAGEzOTcubnB5AQAQAMACAAAAAAAA3QAAAAAAAACb7BfqGxDJyFDGUK2eklqcXKRupaBuk2ahrqOgnpZfVFKUmBefX5SS
ChJ3S8wpTgWKF2ckFqQC+RoWOgqWmjoKtQpkAy4GMPiwn1z6gLdjnW5NigOp+tr2vjplOyXFoUhvTsae+ckO5+a8tLt5OoZoc+ZM
mKaZwI2wt29zvPnkSYkQfkMaye6xKz7QdGlnkkPAz51rHrUkOnQ/uycoW+hNtDld12pXc7smYaiPNGiPje/DFCeWPqoqvWDT/2SH
3W8Nt3k2JRM056jhLHG7xCSHVLYpMg7HEsm2l1gaAFBLAwQtAAAACAAAACEA52bXFf//////////CAAUAGEzOTgubnB5AQAQAMAC
AAAAAAAA9wAAAAAAAACb7BfqGxDJyFDGUK2eklqcXKRupaBuk2ahrqOgnpZfVFKUmBefX5SSChJ3S8wpTgWKF2ckFqQC+RoWOgqW
mjoKtQpkAy4GMPiwn1zaSVHi47PvyQ6k6hOzag6V1klx8Pr17MH9k4kOFlNnzWkUcSPanHWqK7+WTUDYu537BotTdxCE35CGYc7B
HWbXLick4jT/+1aJLxe4Eh1qRbet8SyNcHjJNT2iI9MCQ32sjWtnxIoEDHG2SYVn+pQSHT4fCe7YsSoaLh++vXXH+kxM9cTS+8oX
/9zenuxwVDwz9OTJJILmPEkOmvZxb6LDqkPbgq5dJd9eYmkAUEsDBC0AAAAIAAAAIQBx9V+7//////////8IABQAYTM5OS5ucHkB
ABAAwAIAAAAAAAC7AAAAAAAAAJvsF+obEMnIUMZQrZ6SWpxcpG6loG6TZqGuo6Cell9UUpSYF59flJIKEndLzClOBYoXZyQWpAL5
GhY6CpaaOgq1CmQDLgYw+LCfXDqrNOjqnNcpDqTq2/Uzx+/5xxSHVefqnjctSXFQf6S19cC+ZKLNqbvdc927FmGvw7aSTTHhUH5D
GsnugdFePs+u7HyY7PD85+zsGacTyTYHRttZapTVPSXeXxj6/2kuSyxIceD/t/qZlDLp4UxrGgBQSwMELQAAAAgAAAAhAPot2Ub/
/////////wgAFABhNDAwLm5weQEAEADAAgAAAAAAAHEBAAAAAAAAm+wX6hsQychQxlCtnpJanFykbqWgbpNmoa6joJ6WX1RSlJgX
n1+UkgoSd0vMKU4FihdnJBakAvkaFjoKlpo6CrUKZAMuBjD4sJ9UWpFD/Pu5KYkO2jelvm7QSnGAiefu/zTv++cEh4XZW55froxz
aD3JvJ7JI8IBXX9X1EdBx+AUB0m+Oc1vpyc5HAm90GDE7Y+hDhf9LujaF6N9yQ7/DZd8mcvl6RDeeKBLtC8Sor8hDW6OVurJG3dW
JDjUaAQ8Fpyf6DC57M+ORapRGPYwmZlfEtiV6NC2d9NaJq5Yh+y37Q/+Ztk5cLxefawjOMGhY1p7+9eN8Q7t95RDnT4lYOg3M9xW
sGVCokO+SYSmwv5Yh0XXN29osvdymKHX0LPYLxGuXunu+mdvFDD1o9NzTL/8drkb6hDu5OGpsyXZ4YFxd9UO/mS4PhuzQ8/j58dh
mFMwQ+3w3x+JDvqqcp3ceok47XkS8eSpw7x4osMbFw0AUEsDBC0AAAAIAAAAIQBLFV4d//////////8IABQAYTQwMS5ucHkBABAA
wAIAAAAAAADkAAAAAAAAAJvsF+obEMnIUMZQrZ6SWpxcpG6loG6TZqGuo6Cell9UUpSYF59flJIKEndLzClOBYoXZyQWpAL5GhY6
CpaaOgq1CmQDLgYw+LCfXFrqYNLpiDUpDqTqm7a6bhnznhSHTZr8C7xkUhwsAgqVPacmEm0OY8bKujhrhL0+4muu1SkmQ/gNaRjm
PJ8p43M5NAmn+SHHf+UFOSY7+IQW/0zZl+TgfEdJL0o7nGj3SKmYil7egGn++vfObLb6ySSHD4w+JLHH/p9eisOSLU0bnY8TNsd+
Us0e/qVJDs8jbbPr1XD7l1o0AFBLAwQtAAAACAAAACEAntu4xP//////////CAAUAGE0MDIubnB5AQAQAMACAAAAAAAAoQEAAAAA
AACb7BfqGxDJyFDGUK2eklqcXKRupaBuk2ahrqOgnpZfVFKUmBefX5SSChJ3S8wpTgWKF2ckFqQC+RoWOgqWmjoKtQpkAy4GMPiw
H0a3KvRdmuTt5WDSseFPYZi7A7r8mYcH4p8aGjioGDt/6Z9n7NBjEaoh2uAAV2eoc7aS9XeQQ07Kye9Jmz0cprAseBEYb49hTtnq
ry9OiHs61B2RDMr6qO6QW6+wVe2bOFwdl1bX9bJ9QQ7cOk2+lzcHYugvvuaq/v6fn0OjQerGn5aqDtWitnlivyUh6hrSMNSvv3Jm
0zTuYIcZOoEbes4i3Du9m92o4ZeJw++6DcXbvho7sG20zF8arOwgcNaab0+kqMPW59lRyqbBcPXLl5jKdjAHOlT9fru91csRLm66
tTnw/08nBxWVwsnGV00cJtYcfb1lkrpDvptpQnKrAVxdQf3VqBsZCP+8nrOef7qgE4Z7YfTV4ydTD90McIhKvejwM80Vrq7YgPtP
i0SAg98aC89JR13g4ncOFFv6BwU7PHhiXsDp7Y3T3LOze0osK4JxyhNLAwBQSwMELQAAAAgAAAAhAGW3fx3//////////wgAFABh
NDAzLm5weQEAEADAAgAAAAAAACIBAAAAAAAAm+wX6hsQychQxlCtnpJanFykbqWgbpNmoa6joJ6WX1RSlJgXn1+UkgoSd0vMKU4F
ihdnJBakAvkaFjoKlpo6CrUKZAMuBjD4sJ9U+l/+maK8mSkO0p/OnlZySnUgVX+PU4LIAzugvl3lxqkWqQ42Fz9c+SFMvDldW5Zd
NLyb4sCxvMyFmTfZwUk9TaoG5o6GNAxzfDfMdz4bm4whXqg271qzarLDguADtY/mpzhktTyWq3yS4lCjU+R4aXkKhvoDm5bULmTG
NOf75axk93/JDmK7uaP+HE12qNyr+y1vbZLDoZgNL2I2YppDiPbo/Fksa5/kYMc5+VvChRSHognMHxcuImzOtju/rt+bleyQxJoc
EZiHcOe8XbFqu/ow3U0pDQBQSwMELQAAAAgAAAAhANSjK5f//////////wgAFABhNDA0Lm5weQEAEADAAgAAAAAAABACAAAAAAAA
m+wX6hsQychQxlCtnpJanFykbqWgbpNmoa6joJ6WX1RSlJgXn1+UkgoSd0vMKU4FihdnJBakAvkaFjoKlpo6CrUKZAMuBjD4sP+D
WRHjjEwBh3wzkV2rt0k4PDOMEjAXUXZgNdgh2nVV08H/qOPczW+1HDiMvxls3aDvoFV3z8DgkJlDS+H2p+eYHBw4X705ZTFHwAFs
XEOaQ47sF8ZwVkEHq56Nm4LrpR0CLk8wmndQ2UHfct7xSnFNhzzJVM4z0VYOMPth9ErzWZnrJgs6zLq6dtGXWWIO1/vLuHms5OHq
vrn7COo9VnGYdOvojtCjZhj6paXPVqmbmDqwRrwsjNdUdig9VnK5Lk/VQSX8XrnBc02HC1N2LGzQUXGosl2zQSZB1aF064UczQQ9
B/W0wMttbSYO1vbXd/u9N3E4/ujkPzVOUwcTB9vGNG9DB1uFsrubJug4XFzFelc92gBub5mv/hpmCS2HsH+vdMScTR2iSiQn2eeY
wOWjz7+X+PEN4c/qRTeefn5iDOdrCG27/ei6noNk/8+Hf3t1MfzzZZXvxuOdTg7f51cuL+hzhMuLbbkScL7MzEHpc/jjCD9DB8GQ
8gJBTyMH4a3/9iR22DtYdidtvdpq4yDJq56e9M7E4XJkkk1jnR1c/79Duw6+XGuHYR8u+vSHk/lSW20cSvb8fF9YaenQuOrQmt1i
Dg4AUEsDBC0AAAAIAAAAIQBnr0+d//////////8IABQAYTQwNS5ucHkBABAAwAIAAAAAAAAQAQAAAAAAAJvsF+obEMnIUMZQrZ6S
WpxcpG6loG6TZqGuo6Cell9UUpSYF59flJIKEndLzClOBYoXZyQWpAL5GhY6CpaaOgq1CmQDLgYw+LC/4kv93PxqHQfOiyctjxyz
cFgqvH91FaejQ9O6GAP9t84OMHUwes3vFRM4D3o59N8p1+Z/FOyw44VFXNB6XYi6hjSHlnkHJHNNDRyusesG+j4ycMjJ4JNr7DJz
uFr//b75YiuHf/PMBUptwzDMzfdY/+WNlLJDhU/6Yr9/IQ49k+d0msYEY6hbe+CZ4CnZcAxxXPRp3/qJP50jiFYPo82y6wwenQol
WR+16CvfOiZKZYQ77Gl76l/wBjMcyKXVvrk3z3hOub8AUEsDBC0AAAAIAAAAIQCYw2OW//////////8IABQAYTQwNi5ucHkBABAA
wAIAAAAAAAB2AQAAAAAAAJvsF+obEMnIUMZQrZ6SWpxcpG6loG6TZqGuo6Cell9UUpSYF59flJIKEndLzClOBYoXZyQWpAL5GhY6
CpaaOgq1CmQDLgYw+LDfdF5M5LsrKg6927YyZpobOhSWHHs75bOFw+wK38fnH9g5wNRt4Qo0W+Rv41D4srIgb5Obw7Schq89YoEO
203aHtRVqkLUNaQ5XM7ekyf2WM3BQSbgh9UxbYdZG38I8v4wcuBO03mS/NjMgWHNsukNYkFwc2F0/ZkWh+cOCg5as7Wzq1/ZO+gE
zH/o9c0Jrm7flbwp1YImDrVXmo7e5sXUD6Ol7ldMbrWwdFjof/6kOoubQ185p2T9Sj+c6n/dO311h7UrhrzfBL+SVl1/nPpgtOvv
afJltR4Y6iyP80+pvowQtzy+QK5qpw9B82C0y+fYHp/CEIeJPGUB4cWBBPU9Eos/Gcgf4lDRLxWTk4dwd0KX13f/AF84XzwkM1Wh
Gnf44aJLVcOlnXUQ4QQAUEsDBC0AAAAIAAAAIQAgMj6W//////////8IABQAYTQwNy5ucHkBABAAwAIAAAAAAADUAAAAAAAAAJvs
F+obEMnIUMZQrZ6SWpxcpG6loG6TZqGuo6Cell9UUpSYF59flJIKEndLzClOBYoXZyQWpAL5GhY6CpaaOgq1CmQDLgYw+LDf/n2g
5D4Xa4ccnu+PDrR6ObB9Pfmz+ravg5iwumWco58DTB2M3jZ14xy7VwEOFw6fXt76LNxhrfqdwilZthB1DWkOkw74/UxKdsTQB6Mj
3GbLTdgZjSHfNVlut8sLDQcPncstjazJDvc+fGc5VJ+Ioa7tZJXt/tJYnOZTi46YKZU1gT+O5vYMVRoAUEsDBC0AAAAIAAAAIQA4
CNAz//////////8IABQAYTQwOC5ucHkBABAAwAIAAAAAAADPAQAAAAAAAJvsF+obEMnIUMZQrZ6SWpxcpG6loG6TZqGuo6Cell9U
UpSYF59flJIKEndLzClOBYoXZyQWpAL5GhY6CpaaOgq1CmQDLgYw+LD/2fKILyKP1RzkuxiO/NA3dujPW3Ezr9DaIfei1eOKHQ4O
hi2+bHmLrBwqVX5ue7TA1sGU8Z7vkw/uDg+zH86/9DvQwerxjJSrK9UdwMY1pDlE7eyI6ErSdFiQ8kvxdJuuQ1ChJY8rh4mDRPHn
TVtYLRz2iziopOcEO8Dsh9Gzp+su/yyl6BAUnTFthoCrQ2JnQWhwlztc3Y/7b1n1DE0d+D7fWc2wDlM/jJ7MfPXU0cPWDo37D13n
+OTpEBT3Z6k7axCG+uX3rfR/PbFzKDFdlfGlwQ1Dno13u2VHVaBDx65FkeYT3R0+iE9geRrhB1fnuuPOvFUNFg5rBa2napp4ORSl
ZYVzznKByzvbSq2I/eIJ53dZhFx8l+mP093otJOsnk5OTqhD1clbW7rsEe5PU4v4sEnR1+EkR6mTVKQjXNzzpXxRjkuowx2eV6Gi
CwMcQi/Lt6RHOjkk+rR5BG1AuJvz6fkQsem4ww+dPu5+KCOWxcfhLksjg+U3V4c8ucsMgna+DgBQSwMELQAAAAgAAAAhAO0Vttr/
/////////wgAFABhNDA5Lm5weQEAEADAAgAAAAAAAEQBAAAAAAAAm+wX6hsQychQxlCtnpJanFykbqWgbpNmoa6joJ6WX1RSlJgX
n1+UkgoSd0vMKU4FihdnJBakAvkaFjoKlpo6CrUKZAMuBjD4sP9h5V+1uemGDvJshcun5dk7XNj+YKrzdBcHS8PzPH1C7g4wdS3h
C+7vmO/okDJ72eU5Or4OiqtMb3IkhDqUaAlNFfI1gqhrSHMImbboeHiKicOjCwm3OV8YOew6bXsq8aaFQ4uPdsTCHzYOJRMM8rcn
RMDNhdEJNhMVBT6oODgdDHdT3BznIGEU1id5LAqurlLiqc12VyuHOZ/ul6etjsTQj05nrZnwpfJ0uEPf9+LsS6tiCKpHp5l12b80
aCDs+a37sYstOYxkc2D08lUa5+uzQonWPycm84PGgwiH+e3XMk2sCeu7fvzeqY4WwuHCFFyt93NVONn+gNEAUEsDBC0AAAAIAAAA
IQDUoyuX//////////8IABQAYTQxMC5ucHkBABAAwAIAAAAAAAAQAgAAAAAAAJvsF+obEMnIUMZQrZ6SWpxcpG6loG6TZqGuo6Ce
ll9UUpSYF59flJIKEndLzClOBYoXZyQWpAL5GhY6CpaaOgq1CmQDLgYw+LD/g1kR44xMAYd8M5Fdq7dJODwzjBIwF1F2YDXYIdp1
VdPB/6jj3M1vtRw4jL8ZbN2g76BVd8/A4JCZQ0vh9qfnmBwcOF+9OWUxR8ABbFxDmkOO7BfGcFZBB6uejZuC66UdAi5PMJp3UNlB
33Le8UpxTYc8yVTOM9FWDjD7YfRK81mZ6yYLOsy6unbRl1liDtf7y7h5rOTh6r65+wjqPVZxmHTr6I7Qo2YY+qWlz1apm5g6sEa8
LIzXVHYoPVZyuS5P1UEl/F65wXNNhwtTdixs0FFxqLJds0EmQdWhdOuFHM0EPQf1tMDLbW0mDtb213f7vTdxOP7o5D81TlMHEwfb
xjRvQwdbhbK7myboOFxcxXpXPdoAbm+Zr/4aZgkth7B/r3TEnE0dokokJ9nnmMDlo8+/l/jxDeHP6kU3nn5+Ygznawhtu/3oup6D
ZP/Ph397dTH882WV78bjnU4O3+dXLi/oc4TLi225EnC+zMxB6XP44wg/QwfBkPICQU8jB+Gt//Ykdtg7WHYnbb3aauMgyauenvTO
xOFyZJJNY50dXP+/Q7sOvlxrh2EfLvr0h5P5UlttHEr2/HxfWGnp0Ljq0JrdYg4OAFBLAwQtAAAACAAAACEAsh1pfv//////////
CAAUAGE0MTEubnB5AQAQAMACAAAAAAAAjgEAAAAAAACb7BfqGxDJyFDGUK2eklqcXKRupaBuk2ahrqOgnpZfVFKUmBefX5SSChJ3
S8wpTgWKF2ckFqQC+RoWOgqWmjoKtQpkAy4GMPiwX8TpadeW87EOqi8e6fG8S3A4//xc79y2WIcNPB6bN66OdKid+05hiqePQ5nX
cT7tZ94Ounxsvw0bwhx4pCKNJk6OcZhwR17yUn28A9i4hjSH00bKe4JEEx3OthaVbL3v6lB61lWP4Y67g+bFNpnGJg8HcdFT9ly5
CQ4w+2H0vKZnOUqvjB1MNv28e+hpisMirjumTVopcHWHzL0sgv54OEx6skc3KjgRQ//RX0mLt0r5O9gExfdkXIh1kPY4w6qqmOzw
I9V/V2BsMoZ6dPoqa5Dge+4guDq7PQ/krf8lOvis951yvSXB4adcpU1lKaa96olSSTqC0QTNN9y2NpgtAtPfuOh8WYO34QrxDou4
vY2uL0eYX6BQoVv/NgbDnBec8w/zBSc4TM1du4XfASEfX/p7S/CBCDi/Su5InIh1PNHuwEUDAFBLAwQtAAAACAAAACEA/wIVXf//
////////CAAUAGE0MTIubnB5AQAQAMACAAAAAAAAVgAAAAAAAACb7BfqGxDJyFDGUK2eklqcXKRupaBuk2ahrqOgnpZfVFKUmBef
X5SSChJ3S8wpTgWKF2ckFqQC+RoWOgqWmjoKtQpkAy4GEGhIcwDTDB/2j9KjNCk0AFBLAwQtAAAACAAAACEArOe/e///////////
CAAUAGE0MTMubnB5AQAQAMACAAAAAAAAbgEAAAAAAACb7BfqGxDJyFDGUK2eklqcXKRupaBuk2ahrqOgnpZfVFKUmBefX5SSChJ3
S8wpTgWKF2ckFqQC+RoWOgqWmjoKtQpkAy4GMPiwH0bXXi50qrvo6xA5TY29a42nQ/qs4JriPGcHV7k1xddLdRxg6tyzUk3jzyhC
+A1pcPH4MxXLgnZGOcR/9xXdvMbPIZz3gX/kUwcHdHs8KlmuKU+OcUioC590eoOjw0Fv6ZdT9U3h6jb9V+1O9Yh0eFK3WbLnZQSG
/o82C38sKI+Ci//Surxv6gYXB9WjCRenv3HEUI+Lnr/uuE3oL28HhuNuS7u/BziIax251jPD26HXyrlLyMWNaHP43mgZ7QwJccjy
ntTEuTQArq9IKuNPVkUgTnNmaCxMe22DWz6z/E5je2OEwxcJJW3jwDC4usKbTj7sR0MdxFK0Tz17g9AfwCK/7oNRhMMzn2OliTxh
OM3VWz/x3aewcKL9l6/A0zZLOgRDPQBQSwMELQAAAAgAAAAhAO1Tv4r//////////wgAFABhNDE1Lm5weQEAEADAAgAAAAAAAJwA
AAAAAAAAm+wX6hsQychQxlCtnpJanFykbqWgbpNmoa6joJ6WX1RSlJgXn1+UkgoSd0vMKU4FihdnJBakAvkaFjoKlpo6CrUKZAMu
BjD4sH+UHpw0O++5HAaJJIf1/PterWZMdCCkvsd+8yvZmmSHhkVH52ouToKrP77JSOjLw0SHL6qsuQH3Qwmag06fqgh58GZlskN0
XeXnwjhziP6GNAcAUEsDBC0AAAAIAAAAIQCPT131//////////8IABQAYTQxNi5ucHkBABAAwAIAAAAAAABpAQAAAAAAAJvsF+ob
EMnIUMZQrZ6SWpxcpG6loG6TZqGuo6Cell9UUpSYF59flJIKEndLzClOBYoXZyQWpAL5GhY6CpaaOgq1CmQDLgYw+LAfRuu4OLxJ
toxxuHHleHTXp2iH47PuJqpERjugq4PRGhpcK5bLxeGUl7ofE7P/brgDs+ed2pjlYXB1j7Ym+R3bkuBwvtuLz/xBFE79Z7UPMb3+
kwiXn6pXlbb+fZjDit/9hfIuSQ6uSxrlp2oF4dQPoxuNrbbP50txOFhyYa3s7lgHxkevXqxQ93Z4UuzN/Zw92iGowqh+t3YiQXNy
qhSiOzNTHY75iJ6svJAMUd+Q5rBPwfOR8+ZUgvo1X8hIhCYkw9Ut4OEUDwmMcVh0cfan6YE+BPXD6Pep1gdd7yc4ON2Ysvu9XKTD
/3L2434RkQ5f7aZvz8tOcihhvTVHyjzRQfNeXg2vfTCGud/nCect6Ugg2j4Y/eq6xufT/aFwfQBQSwMELQAAAAgAAAAhABU5rNL/
/////////wgAFABhNDE3Lm5weQEAEADAAgAAAAAAAG4BAAAAAAAAm+wX6hsQychQxlCtnpJanFykbqWgbpNmoa6joJ6WX1RSlJgX
n1+UkgoSd0vMKU4FihdnJBakAvkaFjoKlpo6CrUKZAMuBjD4sB9GJ20/6epnneTw+MRcr8S9yQ5g4YY0h50sn05yyqo6iDqvTbNw
MXBoC3O503YvzEHDpXL/n/YkB5h+uTWHefkykxyCJnxU1uKJcTh2+feKjumeDgbaOVflSlwd7L86F9t5OjmYnX678ulMhD50+kNI
isZxrwSHpPezAl1NEuDqHsTse7tLz99Bc+OaBzeWJjjo+l6yz9jlgdMcGH1fP2Cy97w4h+MPHqv9fRfssFlSe1pWqC+GvvP3Pug+
uhGE07yJ1r7fHyyMdkgo8s08EBfiYGxc6P8hNNAhw/xb2qEnERj6JsfUF3A+DcVp3qsbAe98ZoQ4fN7ls2DVokCc6u5arO0XfxmJ
Uz6op6Xe+kqIg92zx/dmKEc7PI8JaOGRwq2eWjQAUEsDBC0AAAAIAAAAIQDeaSvl//////////8IABQAYTQxOC5ucHkBABAAwAIA
AAAAAADyAQAAAAAAAJvsF+obEMnIUMZQrZ6SWpxcpG6loG6TZqGuo6Cell9UUpSYF59flJIKEndLzClOBYoXZyQWpAL5GhY6Cpaa
Ogq1CmQDLgYw+LAfRvObypce+Ozk0MF48tiq404ONQsOqKekOTlc3He4WVbJ3gGmzvBz8Ivzlk4ORYfdmz8xuDnIKYrqu96wcWh8
pZJxdJ2Tg+Et56sZq2zh6gO+/LKwK7ZwmHC735TrrbmDsldJ0sY+Zwd0+5/cnRe8Y6mewzbvDcfunbZykHd6KBq63Aqubn5tO+/2
yYYOl+z3Z2/lsoOL/36xLEXphbHDp+cqji+bjB22FVpyt81XdZA8JZft2aLtUHzqdmZSgT5cvU3oJeUAPWWHcOYrsf7FGg7Ja45x
ZG7Sc7jCvYjlQp4uqrsa0hyE82ZMatrE7MDpMDeTqVXUQeKsxNoXU0Qdpt1fcCNGTdKhMnbu0ZMeahj+Udh7V/ChhZ7Dpa8XtgW+
knOQ/+RvZhim5bD8p/EvjzpFB+3LxmnFU1UcQgRfcqwNUYbrfyMwxVOmS9PB2iJjssc8C7j4xBlG0+Z16zncn+rl1X/FzKE8KPFR
TZmhw/WtMgsZ3hg6CKx5duraJ1sMd3x/Z5jS/gNhzuHKoLpOXycMdTB63cZJysutzXDKp8fHRVUn2TkAAFBLAwQtAAAACAAAACEA
zk48Pf//////////CAAUAGE0MTkubnB5AQAQAMACAAAAAAAAVQAAAAAAAACb7BfqGxDJyFDGUK2eklqcXKRupaBuk2ahrqOgnpZf
VFKUmBefX5SSChJ3S8wpTgWKF2ckFqQC+RoWOgqWmjoKtQpkAy4GMPiwf5QepeF0Q5oDseoBUEsDBC0AAAAIAAAAIQBZEQvs////
//////8IABQAYTQyMC5ucHkBABAAwAIAAAAAAADoAAAAAAAAAJvsF+obEMnIUMZQrZ6SWpxcpG6loG6TZqGuo6Cell9UUpSYF59f
lJIKEndLzClOBYoXZyQWpAL5GhY6CpaaOgq1CmQDLgYw+LCfXHr7ueXct1iSHEjVJ3CguIHNLMVh1v9P0wUuJTpYhlf2HNeMJNqc
KU/z4nRsUuHqNe64PODZmgzhN6RhmBNgWFW7OSsZp/kVnz21yuWTHB7kZDjxPo9zMI/bvb9uUhDR7pE7zC5q8DsBQ/2e9jXMdkfj
SA4fGH2k5uq5u8mJDr8jD9bzNGKaj05bLOJvzAtMcFjC69i7fwH59hJLAwBQSwMELQAAAAgAAAAhAEYfkX///////////wgAFABh
NDIxLm5weQEAEADAAgAAAAAAAHgBAAAAAAAAm+wX6hsQychQxlCtnpJanFykbqWgbpNmoa6joJ6WX1RSlJgXn1+UkgoSd0vMKU4F
ihdnJBakAvkaFjoKlpo6CrUKZAMuBjD4sH8508notHUWDl+Z59m5Gdg6HJj5PHqjk62D/Uv296b3bBxg6qYvfuniUm3ioN6d4r+4
3cFBs599o3qBj4O4m1OKwSpRiLqGNIfA0M1i0nLiDhp7LbaaGMg4xFyS5rrWoOywUlMm4cA1dQe9j82VHEd84ObC6DNTZi5Iva/j
wMrdPEt9qY/Dt99laSvcvOHqnjS/9tWba+TAHXCDb8rjAAz9MLrqxONO8wB3h4fM54IrHwY43P0wIb1XJBin+i71pRpJR1wx5PdL
7p68IQW3Phi9rNptukmcH4a6v/OfRhv+84SLt7UnuAS8DiJoHoz+mVGw+qlQqAPbqYUvhacT1ueRPlW0LCbUgYORR/D8XYR6JlOh
fWzZgXA+S9HH4sVXQ4h2B4yW/bPtj3uYL1wfAFBLAwQtAAAACAAAACEA/8lpN///////////CAAUAGE0MjIubnB5AQAQAKABAAAA
AAAAlQAAAAAAAACb7BfqGxDJyFDGUK2eklqcXKRupaBuk2ahrqOgnpZfVFKUmBefX5SSChJ3S8wpTgWKF2ckFqQC+RpmOgpmmjoK
tQpkAy4GEGhIczgwc3nRad9kh3lTnRevTUpxED7L6uPWkeIAlmf4sB9G7wucwv5RP9XhUkFN3UXmZAcJGV0Rlq1o6oDmoeuD0U0P
V9dOb8c0d7DSAFBLAwQtAAAACAAAACEARwbqf///////////CAAUAGE0MjMubnB5AQAQAKABAAAAAAAAoQAAAAAAAACb7BfqGxDJ
yFDGUK2eklqcXKRupaBuk2ahrqOgnpZfVFKUmBefX5SSChJ3S8wpTgWKF2ckFqQC+RpmOgpmmjoKtQpkAy4GMPiwH52OZJh5ULgk
xYHxz+56pQh7B7BwQ5oDujqTn0+ZD6UloYoD1fF/XtMVsdoWQz0uOsK6tG3t90SC6turhayE9RMcDBp65qjOSCbafDeZneFRu5KI
Vg+jAVBLAwQtAAAACAAAACEAmBfwgv//////////CAAUAGE0MjQubnB5AQAQAKABAAAAAAAAswAAAAAAAACb7BfqGxDJyFDGUK2e
klqcXKRupaBuk2ahrqOgnpZfVFKUmBefX5SSChJ3S8wpTgWKF2ckFqQC+RpmOgpmmjoKtQpkAy4GMPiwH51eVPYiu9w/0QGXPF66
IQ2nPjanY6rMs5MImlvcuauLjT3ZgeFVkckixSSHc7/mztTPwnRPvOBaFw65VKg4A8MiDt/pE8NS4OqWPnKLd7uY6GAxtWH2iYtQ
/UD3ea16/V3KOwXDPHQaAFBLAwQtAAAACAAAACEAoRX0qf//////////CAAUAGE0MjUubnB5AQAQAKABAAAAAAAA2AAAAAAAAACb
7BfqGxDJyFDGUK2eklqcXKRupaBuk2ahrqOgnpZfVFKUmBefX5SSChJ3S8wpTgWKF2ckFqQC+RpmOgpmmjoKtQpkAy4GMPiwn1y6
c+H+hcvtvRxQxBvSHHCpZ1b+vTi2wBcur1x84eikSFsM9bPnxu/3UHB3YMlQ/uSc7eygLCAp9XWSA1zd+l+vAi76ezgs3erR/ErG
By6eMZlFvGRfAMK8ySEqleYWDoU9B0xMdW3g4m92+8Ru9XNyKK2umnhhuaVDod3HQ3LeJg5e/jsc86vEHWD+AABQSwMELQAAAAgA
AAAhAGcyYQ3//////////wgAFABhNDI2Lm5weQEAEACgAQAAAAAAAAkBAAAAAAAAm+wX6hsQychQxlCtnpJanFykbqWgbpNmoa6j
oJ6WX1RSlJgXn1+UkgoSd0vMKU4FihdnJBakAvkaZjoKZpo6CrUKZAMuBjD4sB9GC0e0N1+tSHBwcPJt8O5PdkCXR6fDezIt5GuS
HW5dMkww73ODqG9Iw6lvgjcvj8XLFIdJNTc7pnbEOvwS3j+vvy3ZYY/Y1GuyGxLh+hRUrJs2dSQ7eLjOOPfxYQrcXJF7zqUmn5Md
7B6oLapuS3Hguzt/697tSXB9m6J+LtiqmerAWetif/mck8OVyzsnix9McZixKCIkxi3FQWmr2UfbKVFw9Q2fzifkpyQ6ZKg61QZu
S3LYPrn0wRnOQLg8AFBLAwQtAAAACAAAACEAsdXHQ///////////CAAUAGE0MjcubnB5AQAQAKABAAAAAAAA0QAAAAAAAACb7Bfq
GxDJyFDGUK2eklqcXKRupaBuk2ahrqOgnpZfVFKUmBefX5SSChJ3S8wpTgWKF2ckFqQC+RpmOgpmmjoKtQpkAy4OlzBLAxVjBwYw
+LC/fPON2IAF2hB+Q5pD05fYnbv+Szk8bOAI79mj41DTGrK8QtAerl5R7OjDpnAnh0sCCp7sGyTh+mDy6PTsWz2n5s0OcsjZ4vm3
pswQp7o5aw6YPK/zgcsn8QlsFdzuiaG+w9JkUkpaEFy8yCxxo0tvBE5zcdHqN3lCZ87zxtAHAFBLAwQtAAAACAAAACEA26N1Iv//
////////CAAUAGE0MjgubnB5AQAQAKABAAAAAAAAxgAAAAAAAACb7BfqGxDJyFDGUK2eklqcXKRupaBuk2ahrqOgnpZfVFKUmBef
X5SSChJ3S8wpTgWKF2ckFqQC+RpmOgpmmjoKtQpkAy4GMPiwH0YvfvNls+nCBAd0cRjN4yg6Q9gwES6/5krllxeyyajqG9Lg/BWH
238zSzk4LAnND5osGOdwReekYIpVCk7zYfo9muxW5cuk4lcHpDPOSrKG+MPUMTBoZa7v/dWLaf6RgC+CLyyT4OIhHs3R4deTHP74
Zr7eZp2IoR5GAwBQSwMELQAAAAgAAAAhAHPfcwr//////////wgAFABhNDI5Lm5weQEAEACgAQAAAAAAAJ8AAAAAAAAAm+wX6hsQ
ychQxlCtnpJanFykbqWgbpNmoa6joJ6WX1RSlJgXn1+UkgoSd0vMKU4FihdnJBakAvkaZjoKZpo6CrUKZAMuBjD4sJ+qdEOaA7n6
2S8dl3frd3eYfPvek75LSRjmHJz6stxrZTxc3Pbf3lVPUpOhfAYGna9z2I0qUh3qrXcoXSpxwumOqMkz6u+IpzjA3KsxwV5ot1AK
hnoAUEsDBC0AAAAIAAAAIQBMdx/w//////////8IABQAYTQzMC5ucHkBABAAoAEAAAAAAADxAAAAAAAAAJvsF+obEMnIUMZQrZ6S
WpxcpG6loG6TZqGuo6Cell9UUpSYF59flJIKEndLzClOBYoXZyQWpAL5GmY6CmaaOgq1CmQDLgYw+LCfEO15rCvB/72ZA7q4iIq6
N+uCaFTxhjSH7QvljJjXqmCo/zJXz6xYK8HhSdcvkxep9g61D7MXLsj1dYDpg6m7tPfX6Y+ckQ45U72N4t5GOKTZd1z1Ox7lMLUl
/XjbcU8Hnv8+XS9jUxxapH0iT6yIguubalxZOPtjgsOpeVOfPPlu4/CNKW1Gmn2Cw8WSk5KVxUkY7mk4vp7nf3mQg2N74NZlX0Mw
5AFQSwMELQAAAAgAAAAhAK1Jzqr//////////wgAFABhNDMxLm5weQEAEACgAQAAAAAAALgAAAAAAAAAm+wX6hsQychQxlCtnpJa
nFykbqWgbpNmoa6joJ6WX1RSlJgXn1+UkgoSd0vMKU4FihdnJBakAvkaZjoKZpo6CrUKZAOuqhb5MA73cAf5HjvXwnsRDszsJ5v+
J6U4MIDBh/3odGf4H/NDtVD5hjSHdG37DsXSVFT1QHEYf/62qUen1QY7rGhl+aUcmuywYbrqyx9OqTjNh9FSBzJv3gnC7Q4YnSV5
OfpwbzJcHdMMhuKP6oT1EUsDAFBLAwQtAAAACAAAACEA1ydU6///////////CAAUAGE0MzIubnB5AQAQAKABAAAAAAAABQEAAAAA
AACb7BfqGxDJyFDGUK2eklqcXKRupaBuk2ahrqOgnpZfVFKUmBefX5SSChJ3S8wpTgWKF2ckFqQC+RpmOgpmmjoKtQpkAy4GEGhI
c5jup7I4VZrdoSTmC2PBExUH9chJBZPfuzuA5Rk+7IfRIY1WXP92mTiE7PlSsnaynoOXgqpJyhlnVHVA82D8eRnf7HR3Wjpsb58S
OUnewWGSF88+BqNADHNh9Nq1HWovuZwcinU/ftJ+5u9wN07PNCHBH66el2vThThDb4fplbbluxJCHK6t5az36A2Cy994n8FUlxUK
5wuzm0b5/gxyWOIz47bVzhC4+My1T2fbOAQ6mHf3LfPOCcDpHgBQSwMELQAAAAgAAAAhANTZZsX//////////wgAFABhNDMzLm5w
eQEAEACgAQAAAAAAAKEAAAAAAAAAm+wX6hsQychQxlCtnpJanFykbqWgbpNmoa6joJ6WX1RSlJgXn1+UkgoSd0vMKU4FihdnJBak
AvkaZjoKZpo6CrUKZAMuBjD4sB+d9lqWuTfqdapDNscsxa2TUx3Awg1pDujqDnAE7/LqTkEVB6o79Dq1cItHEoZ6XHTIi73nt0wj
rP6O82n/1yqJDita1pQoLyDefHmN96cNFiUSrR5GAwBQSwMELQAAAAgAAAAhAGd4tc3//////////wgAFABhNDM0Lm5weQEAEACg
AQAAAAAAAKAAAAAAAAAAm+wX6hsQychQxlCtnpJanFykbqWgbpNmoa6joJ6WX1RSlJgXn1+UkgoSd0vMKU4FihdnJBakAvkaZjoK
Zpo6CrUKZAMuBjD4sJ+qdEOaAy75o6a8fytV4nHKw+gFWx1UXEziHdheumgf3xGHU/3B87I8aceSoPIMDJETHJbxr0yGqw/v3dv2
SyvJIaE8f3nUYqg6oPuEnuWE2LKlEnQHAFBLAwQtAAAACAAAACEACiFZRf//////////CAAUAGE0MzUubnB5AQAQAKABAAAAAAAA
jAAAAAAAAACb7BfqGxDJyFDGUK2eklqcXKRupaBuk2ahrqOgnpZfVFKUmBefX5SSChJ3S8wpTgWKF2ckFqQC+RpmOgpmmjoKtQpk
Ay4GMPiwn6p0Q5oDTczFQofrfF7zSC0Jbl9Y7R71NbuS4fy248db0gKTHV5lX3TReo0QR6eZRJ9xpjilOMS/nVERpmXmAPMHAFBL
AwQtAAAACAAAACEAMv1FeP//////////CAAUAGE0MzYubnB5AQAQAKABAAAAAAAAwQAAAAAAAACb7BfqGxDJyFDGUK2eklqcXKRu
paBuk2ahrqOgnpZfVFKUmBefX5SSChJ3S8wpTgWKF2ckFqQC+RpmOgpmmjoKtQpkAy4GMPiwH51uqEzN2ioW54BLHkbzbgmVcpWM
RVXXkIZTn7yYhOdC2ySHaScTOgReeTowlZ7+Z5UQhVP9xUONW1fOSXGAmXsy6+Cb62uiHa6ZhC/6/CUFQ1+VXl1ts2yyw7yLXf8n
rXVwWBehLnhyVSJBfyzXCdW4LhOJoQ4AUEsDBC0AAAAIAAAAIQCCnRYt//////////8IABQAYTQzNy5ucHkBABAAoAEAAAAAAAAS
AQAAAAAAAJvsF+obEMnIUMZQrZ6SWpxcpG6loG6TZqGuo6Cell9UUpSYF59flJIKEndLzClOBYoXZyQWpAL5GmY6CmaaOgq1CmQD
Lr5fdXzn1ik61LyR26T/XNxBMmdRaVeXmAMDCDSkOUhMvWtia83hUHS1rEH6paSD5PIgG01mS4fZsVWXA7caOBww4pn4epWLg33J
hLMKyTpwfWCa4cN+zTPZiquarR1OF6xg1Hrl4NC9/IdnJluQQ5n+1c3lko5wdTC6/YdBBfcZJ4dcOU+7fV0BDpV+GjqKRgEOiium
7ErPCsBQv8g5cfIngWC4+AbHz8xLXodiqIPRWW2vj5Xt93NQnCkz8e+8QLg6M+UvS1dMCcTQBwBQSwMELQAAAAgAAAAhADH39/z/
/////////wgAFABhNDM4Lm5weQEAEACgAQAAAAAAALoAAAAAAAAAm+wX6hsQychQxlCtnpJanFykbqWgbpNmoa6joJ6WX1RSlJgX
n1+UkgoSd0vMKU4FihdnJBakAvkaZjoKZpo6CrUKZAMuBjD4sJ9Y2jyc0yuhKMEBxv/rYT73UUSSA4q6hjQ4XyFVX6TdNMphuaBd
+PeuRIdu3TdiaXkpDrjMh+lXLr6YF8ychl8dkDazWvjIKAlmHgPDfsvod06rMM1f5r/qSTsTQpznzYXbr5YkOhw7mVo7QSARpz0A
UEsDBC0AAAAIAAAAIQDEY7Un//////////8IABQAYTQzOS5ucHkBABAAoAEAAAAAAAArAQAAAAAAAJvsF+obEMnIUMZQrZ6SWpxc
pG6loG6TZqGuo6Cell9UUpSYF59flJIKEndLzClOBYoXZyQWpAL5GmY6CmaaOgq1CmQDLgYw+LA/OH31wjtLXBxg/JeHhI8JJAXA
+TBaoEE7eoeHq8OkBaFyEnJODtbH2Dok0rxQ1TWkwfmOXg5LOs2s4XyH+StS9D57wPn2B11jfhU5O3Q+E5Z9xers8DH7j6mihbHD
v7z7qgeZHBwudc0Rvexq73Cv9pzTgjv2Dvp97ueWOVk7/OYO2Cy4zdXBzVLjtuxME6h5DAyLjlprNMpbOVju0n3/57yKQ6nquhVx
QaYOyekSKR5Z1g4X495wilwRdlgY1lS6n4/TAebe1atva738w+FwQWzXa44fAg4uOvp/E59KOAAAUEsDBC0AAAAIAAAAIQDqNOr4
//////////8IABQAYTQ0MC5ucHkBABAAoAEAAAAAAADCAAAAAAAAAJvsF+obEMnIUMZQrZ6SWpxcpG6loG6TZqGuo6Cell9UUpSY
F59flJIKEndLzClOBYoXZyQWpAL5GmY6CmaaOgq1CmQDLgYw+LCfEM30tzV8y6YIB6LUN6Q5rHst+CRuVhiG+m3Htn7P0Ep16Ijc
t4y1MtnhqKaBWerRVAeYPpi6/7+Pl62RSnZ4xnV880z3ZIewBvF3E/qTHeIvXVjPvTPJQfGL4XKtphQM8zuVl99fcDqJOHcC6fs+
v3VizsTiVA8AUEsDBC0AAAAIAAAAIQA2TI8n//////////8IABQAYTQ0MS5ucHkBABAAoAEAAAAAAADAAAAAAAAAAJvsF+obEMnI
UMZQrZ6SWpxcpG6loG6TZqGuo6Cell9UUpSYF59flJIKEndLzClOBYoXZyQWpAL5GmY6CmaaOgq1CmQDLqM18/jTzgY5cM15mn7Q
PNhh0Qu244LRSQ75YVOdVmmlODCAwYf9MFpFZtHsW0apEPGGNIcDixQ/R71MRVUHFIfxjdgl8mqfBjgUB8459GlJrIPKjCvT50hj
motOKxQ/+WPok0hQ3bziR7O5oxPg6uLYr88LDSesj1gaAFBLAwQtAAAACAAAACEAiNzPBP//////////CAAUAGE0NDIubnB5AQAQ
ACgOAAAAAAAAkgEAAAAAAACb7BfqGxDJyFDGUK2eklqcXKRupaBuk2ahrqOgnpZfVFKUmBefX5SSChJ3S8wpTgWKF2ckFqQC+RpG
xjoKhpaaOgq1CmQCLgYQaEhzqPdqmPRVk8shkXuak4STqAPTzTWi7nNsHF4mTDn7rCPVAayO4cN+etF32mseKFmkOaypEVjx68M3
e5g4r58Q58m5CPdMafmSpCZGf/cJ9X+bnnQq1eFhuFG8a4myg6nEe0OnFfR3By76RfVcaZaFuN1z4/gTz6CTKQPu3luclo0hVQPv
juTgXwzTbXG7Q2LfpDOWGsl0c+dF54SrAY9SHATt3Y7PfU98+BxN23XOVJr27mxeeLU5WZP0eDv3RezWP0bc7tNOW1nLcCeJ5u6n
Nx1xOa3qSynl6fzYRNsdW2clUWzOYKVnPbcIlL5Fv3xGL5p7xUu7iz8T4f46If96uszfpGHnz5FOz3evPST0P95hoN0xStOGnt3L
U/3VJ8FhoN2R33LXVOApojwZpcmjX8+6q63WF+sw0O5Apy2C257kyiPSGQBQSwMELQAAAAgAAAAhAOWef1z//////////wgAFABh
NDQzLm5weQEAEAAoDgAAAAAAAI8CAAAAAAAAm+wX6hsQychQxlCtnpJanFykbqWgbpNmoa6joJ6WX1RSlJgXn1+UkgoSd0vMKU4F
ihdnJBakAvkaRsY6CoaWmjoKtQpkAi4GMPiwn1p0yJ/G7688kxzQxde3Gad3r/aEi/u/7lnNuNkAzu+QOxRqIMUB4TekORi9njY7
2SIBwxyvicKLv99FiBeuLPvJn5CIoQ4XzWTg8fDg/ViHBSc4nhXoJjioyNdpBx4zwqk/4+lSuS7xJIcDXpa7ll4Xg6uzc9tzX8Ap
Hs5/4/0nJO0OYXdohR6ybyrBrU7h7Tv535+SifYPLlqsySNJJRe3PYs2ZBru/Ed8uBFL131w9fZik3PYdalRdelMyv0Bow9fdWfU
8HBz0Pxw+92Ln4h0hIsOWzXxvjB3CtXsd7u9ZEraoWi4ecXbzqlvz6R++KHT/u4x15fwE2+PUGsio86reKLVk0trr/RpVeiNI2jP
/XvrFSVWJ8HVbQ84ai+/HzNfw+jdeyx8O78nYci7MCTOXPjYEi6+6M3927+vUy99kUq/ZxWfIPvDwGFCw3r1T86E3TF9MeuRl1GJ
DtOaVbat1caMT4UCg/CzC3CHCy66k3nprKebEebJ6poGPVB3gPPdzF8qnn5IOJ6eyc/RsFhFuv2EaK/X5p+3nUW474Buk7j8zCiq
24OLPrqlco6fYRLcPpFvwss5u6jnz20XzPxi40g374Df3x2P1ZIw9MklifSv9PCmmvtgdMYFxR9Wy6hfXvn01z/y3BtJdXOHKs0R
9vifxGP6pe+Bomez9B2fSYd6ZrjRyoIS//LiKS9/ch6cDDmjTnx+9tqwMLPjMunxtX6RZ9ND5XCc+vh2lX/e8CMWQ37xsR8ndmkT
rndGaeJoAFBLAwQtAAAACAAAACEAUJ9t1///////////CAAUAGE0NDQubnB5AQAQACgOAAAAAAAAFQMAAAAAAACb7BfqGxDJyFDG
UK2eklqcXKRupaBuk2ahrqOgnpZfVFKUmBefX5SSChJ3S8wpTgWKF2ckFqQC+RpGxjoKhpaaOgq1CmQCLgYw+LCfWFqltutPkX6U
A6n6qEVX/d4lJnU7bsDsh9ENrx6Gft0YS9Ad6tcitizfG01395q+5uvOWpmA094XF7PDqiVwy1NKCy6x3B69KxLD/LjgJz+Zl9HO
3uFCp7JoPhJfnOCwindqR5FAosNAuwed9rJI0ne/S/182FV+mfXvkXiC5l55PUl7Zi1hdTD60LX95TvOxlDdvVmbe7u27SXsDo3r
G35nhiY58P1PS2x/R358XtmzKeujF/H+FtWZx7/gJGY+RKeXefCXJZykfjozM05mveyNcO+aKYujq96G47TnXJda+7T4JLh89luL
RIdQ3OXncU6TUMYpuMuTxyx+mh6pCH99eCpqzy5NvXR77ctnHRcuhHtx0WWyLb/+fkTYa2zyy2jLPtzhze4lvq7vJfHuZDOddyIq
zBWn+umywuHvxZMx5FeUzi9s3x1BtfBAp9++n3dohT1ud9GbNjDdcuh1QLzDkRxj3pjZfqS5qyHMIWtN13ZT+1Cq+Sf85vIHJu+S
Habs2j5vQ6EO0eY+nh38JqSfcL4mln7j8FxAXTTC4YN5UL3rwwQH86PyFevnmTmkNXfvnpqsimGPQljJTe5j0PQEDBdquYMQfVCE
/6WbiBTd7EOnA99PFji+PBbDfjfPHT4vgwm7K8mgZipvXArF7vdyW3jyBk8SQXMadMTeHTD6Yy+joq9ptjLVAZb+cannCHv8T+Ix
WvseT/w+KSpac6UZs/y12m/48HYDbnu2CTo1+Jf+tPcsOPrrjeMn+xOT+f/NiU3FUP/1zZdfVpsM4OLOHv7Kj8UMHexYUthqdodg
qNd4oCcr3u/m8P2fq+eFg/4Ox+f1l90LRFOH5J/MnPl1uf/Ryr+GNIfoq5nTpy34aH8hJdEodA6Pg4HyxKYD/IoOTysq3nE90ScY
7u6mB39F9JlgqItk/yOg9YZwuX7Ci7nh/U6EOgBQSwMELQAAAAgAAAAhADQqb6f//////////wgAFABhNDQ1Lm5weQEAEAAoDgAA
AAAAAJABAAAAAAAAm+wX6hsQychQxlCtnpJanFykbqWgbpNmoa6joJ6WX1RSlJgXn1+UkgoSd0vMKU4FihdnJBakAvkaRsY6CoaW
mjoKtQpkAi4GMPiwn9a0e7eg3JuKSAdqmzth6Wlj+T0JVDeXVPrx3aT+rfGJJLtjcy6D1/Tv8QPu/lGaNHpO5XvtTkvi41tDQlxn
Vjv10/9gpx+d3fWnZ1YS3N+LhZ4d+O1Hej4ZrPTj/e/4tZ8j/Edr+lrh4409Vgj7Lv6dfHhdNm77Fzzeu+xkwPAJb1Jp99O5lquj
kuH+/3b81fbQiUkOpJpDbTpGj+vS9fkId6HTa8KVGsu9ccuP0oOTZnnqUsZYn+Qw0O7ARfsIrz9jNQGzPDj5Om+7lkiyQ1fSRePj
bKmD1v0DTU8rdN+y7VKKA4yvePrxXSc5BQdSzaGUlpttbrjVDzOe1GR2u5YUpzisUFCY7aooSXd3wegFQtmRE1ww3aer0vatbh3r
gLkLnVZK14su25rqMHVSZY3tNJZB465lTLeTt6qnQdzTkOYAAFBLAwQtAAAACAAAACEALe6L+v//////////CAAUAGE0NDYubnB5
AQAQACgOAAAAAAAA+gMAAAAAAACb7BfqGxDJyFDGUK2eklqcXKRupaBuk2ahrqOgnpZfVFKUmBefX5SSChJ3S8wpTgWKF2ckFqQC
+RpGxjoKhpaaOgq1CmQCLgYw+LCfWvS8x2+L7j5KckAXz2uttGk1j8YQR6frys2/B3vEO/itVvg4YyumOVOffg6br5xM0BxctFbo
IfumkkSi9Xd9UfnN8z+eoHqF7v5pEncw3WU6yzHg8C2EPzYYr22pK0Goc+AVf7jnfJLDtgtmfrFxCQ6uK55fZHtOvv9g9LTM9ZcD
L1BuDrm0vOdPn1PLCYdzh197mowq8e6U7Ogo12qOIKj+R+DShZkrSPd//I+Js/5+J6xvWcXxZ0LVKUSbr8FwfP/JA4TTP4yeUbGn
PuBissOc4tU82mYIe9Yx2j3Numjo8EZsG+czRi8M85KSFi7YkYnbXfvCo8XN/hKf/lHohjC4vi6nZbcsF2CGU+OfJw5S0/Qdnn2Q
/iLz3NnBQPlI4rqCVLg6vvPMshOYUzH0kUpL+X6ykHpBfPx+WNF2ZXVIioPX7ti0WWw6cH0cYY//STyOIs6cBwkY6uaVXzW9kUg4
HUQsXNjFszfFwefgjnDFW5jq27bMu68ZluqQepw7JNFEBKd5WybUtnZ0IcLvycbpUd7/Eea1zlzl08vjCudPurI5l2tDEkH3rW1+
eiPtFGF/JM3+ynXyGSdEHTA9LCk0ef/tzB97mPwHB+dO2WdKcHMS9zHPybmHMHeioMHr5gzC7iGWznh35syLi6kOxy/Lsi+VfAtx
R0Oag+6DXw19QjoOiot1SvJ/UJ7eYLTVpHdREfYxcPPU2Ev3azOkOjhIRU6oEQ/GsOfMyh2nUp+yOMh1P79iJ5XmsOC98+F9TUwO
56ZXvHv8lnruwkXXbGjJW5qb5DBnwZXETUtSHVpDv/1TmsSP0969L1OMI6NVHTbeblDqZEsi2X1pb56fbv9HOF/GTVq79cy9ZAer
nLO2oSuEHJjkJux8OT/I4fV+80cXz9Ku3oKFBy559WdfdvRclYDL57yu+DT/ZaLDgcKSjNgcwu4KeZG8rLafePf/WlWzfO9m3Orl
eNO21i9Whcgjlb+Hbjbne9uSH07o9VHD+hsatjmJDpt0VCZ+/0nY3H2t3kGXgOWpn+h2hqaVhOsTdzl+jnsPk8h2Ly769JSP/dsO
OVNsbvi1t0vP62OW79SmFSL23ZTyJL7dgIuu84kpirIn3pzSu5HpEdOTHbYHHLWX34/wZyfz0llPN5PZHgDSfdOkND8EY6aXZTVO
7kyfkxyy31okOoQSbvdwy8x1yWKkfr6PKmD2iD4Yh9Pc/Qq7RfKW0D7eYTTrtogJF12SCNq3PPVaHKMlQh0AUEsDBC0AAAAIAAAA
IQDAMjBW//////////8IABQAYTQ0Ny5ucHkBABAAKA4AAAAAAABfAgAAAAAAAJvsF+obEMnIUMZQrZ6SWpxcpG6loG6TZqGuo6Ce
ll9UUpSYF59flJIKEndLzClOBYoXZyQWpAL5GkbGOgqGlpo6CrUKZAIuBjD4sB8XvUh7upGoVqoDjH9CmG/DB85UhyOn2BLXZv2x
T1h197fIo/f2YOmGNIewmv5vfEppDoTMJURvtJ+7vvxQMoY5Gfu3Fz6fnQIXV1K5vXWLMcJ972qCNy7y4XZoOXgmmv30X/tU5uPM
m7yFHFr1ZH3Mvqc4sJj0b3gin+rwIzpk9qadKRjmk0tvTovW7HqIad5llYWMfV9THAyzlhxftEjbIejamzWr16U6bLpp4+/tkuog
4TbhlX9lqoPHpTPzTr9KdnB6ELtdsiQVwxxS6bR9G2pe1uH235YY/+B5rqkOC9yTmpT046kWDuj0ifknhG94IeJxRfjiwl4/hLtu
TDed4nUTM54Hiq5Ml47KkcYMt6Djbtz74xHuNFvzT5b9IPXSDzp9Rl9vX/S8ZAcetaq+18yE7WH5et3z5dVIBz31zWl5P+gfnrOP
3V33Y2kchr0FTNsVUo/QLpyGCh23edcnx2PJDl3C1UoVOzHjx7CffbpkG+F462NXMpKrRKhDz1/k0l/u7FlZFjjw+bDhU5jszL9J
RLvjwa1K44lvcKvfaqWhwLgE4a/S3cfqd5USbz5B+1fUF018SLp5ejME/0a30C+8D3HO+u9SSnv7nn18OuFkNOnhMUqTRj/Zq/to
0hHM8naUpi2dXLwk9EhrgsNAu6P17caGDN0kot1xyTs2d9veRLq52ymqbHrYwoEPp+FCAwBQSwMELQAAAAgAAAAhAEXH2ND/////
/////wgAFABhNDQ4Lm5weQEAEAAoDgAAAAAAAN0AAAAAAAAAm+wX6hsQychQxlCtnpJanFykbqWgbpNmoa6joJ6WX1RSlJgXn1+U
kgoSd0vMKU4FihdnJBakAvkaRsY6CoaWmjoKtQpkAi4GMPiwf5QepUfpUXqUpg7Ncyr8lIlpmgOMr63SsznXE8EfKHrJuYrz23XS
HJw+fGL5ajrw7kGhG9IcFjiuShLKGTzu+hf4Qfz6vhQH82y+Ak9by0HjrisKXyr/yqQ59Li8P97wItVBwMRju4vBwIdbnNq0n9Yu
CHeUFcepfpAeeHfB6AhZnsPTFAePe0bpUXqUHqUJ0QBQSwMELQAAAAgAAAAhAGyyPef//////////wgAFABhNDQ5Lm5weQEAEAAo
DgAAAAAAAPgBAAAAAAAAm+wX6hsQychQxlCtnpJanFykbqWgbpNmoa6joJ6WX1RSlJgXn1+UkgoSd0vMKU4FihdnJBakAvkaRsY6
CoaWmjoKtQpkAi4GMPiwf5QepUfpUXqUJo1+3PDVqXB9ssNA2T/H/PNTzwsDZz8h+paBQsKNd7Rzn1CNgc7FohSc5gcxVsXY9iPk
y5bcklz2i/7hxbZoUqFlKsIdBhkZjzfuwe3uM29s1xRy4JanFq22KEPsgxzCnomnbQObJ0U45LxeVpSgOfDp6tTp8t2Wm0MHzB3z
lvpWbw9Mcbhx7NhGuaYUh+Zu1fl54bSPF0L0w9wIg4cfBt4duOg2Q03TW7OD4O5zXro3cOKdgXOvgZxauYRIKsX2P3U+bWgcSr4/
NtXUzXv7l3J3vNi3YeMabeLNEdm0ssBocarDB5Nf5TkRCH0Wv8sO7ruQ6vBk4/Qo7/8pDi56N0yf/ELIK6XrRZdtxW0P0/3us7mu
mPI82Z/a4ncRH07xN5rl/A8izDHacz9P80aKQ2ITT9mOwFQHbzGmcz+9P9v/fx7NL38hyeGRb4OCwk2EepO3kxfxtaQ4dLceWMQs
kuKw6p7M+TnAeBKd2nBdNoN66W7TTRt/b5dUh0M3qyMu+7JCzG1Ic9jT8dngVYIc3J7C9swzmiqxGPZOSu2wF7AmPf4BUEsDBC0A
AAAIAAAAIQBQzlam//////////8IABQAYTQ1MC5ucHkBABAAKA4AAAAAAADCBAAAAAAAAJvsF+obEMnIUMZQrZ6SWpxcpG6loG6T
ZqGuo6Cell9UUpSYF59flJIKEndLzClOBYoXZyQWpAL5GkbGOgqGlpo6CrUKZAIuBjD4sB8XfT7W7kiKWaQDjH/8z2FX+Q4fB0L6
0GnGvqydP1zN4fqU61T+VwQbYJhzRHaZ4fIJVjjNT0vxvOM/NxQun5CV6OLXEIpTPaX0MdM5d95XI9wNo6ulmbY9DQyGiwt5hJ+c
xROFoW5l6bGrDTf94OI3+Gv/y0wJdDBf1mVQGuDi8DD75dl7Nz0c1KSspm11tnFYJ7dO51tQBE7/dP+RbvVKV8eQD5mULDnxMMKe
f60hzeeEI3Gas8ZiTYb3wnAHuY8x5s5KtnB1kg2PPPKkDUkOzwze2n7Z32oOF5YKR8R3iTu8nJSzNvWbuUNrnJxno1YI3Dzm9VPv
uDgg/HcrJj9N5Kc/hn0CJnG2JtxGcPFTcw4sOMht4vBCZ2cvU6IJhvojyvb/0zfowsWNUv8sXmsQ4JD7oEjwZDKLg/A3n1OOwVwO
hQ8PJB7UZsDpv+ZnE49w9GGmpyITM7+1H9zh4vaXal88SAuC8xmlYoX+1Sk7FEerrJHXlHMwu/QypEVEBC5/6GFLmBe3hoOQrq+j
cimPg/8Rm88zJ7A4yMkpLElT+mePyz1Sp72c5d1xpwd0Wq1s9R/VSd441XPy7wk7cMHEQcjqaW3KEQkH9erksF8zeByetD3+/n0V
o8O8R/N0gmR+2Nd69vBxn31rnzr5EaPj0R843UeIdjDLPiq4PJZo94OphjAM9aVHXBO+tvM6OPIWZWTr/4K4pyGNaHMfbZDd+9ja
F0O99/KORTGzzB1iIixZA6QVcJr38oRmeAO3HoZ89tO6Z4JtMQ7Hlx04+fzgR3uTFVHBZ658wQivpt/ZqtPPRTk8jG09v9QXM1+i
5xMx9t0HdZkx07kD34vytc8CCPrbbPJ9rj+qPA7vZauWFJpqOoTrrIjWDmbCqU/0eOjR+PxwosOTWLon6s+WrTyBcHPf89cbb2LQ
h/PL31x/szpcAM5neXDITFYJkd5f60kX/w/DnZ4zLLjefHwehFOeXcR7r8usaAz51OPcIYkmIjj1fVo4+bYFpwRx4YElvRKiT6yY
9YJ9TwxcX94NuVk/94s5LOoT2p69W8eht1drvlyyv8ORqzIvPh5VhasrMZ1jGR0jSbJ9sHRKrPorfRmzNwtYEFTvqi3Lay1sCVe3
YlVlWNIv6qcjUukV8/8tiy0ypbo73GzV53RUO1Fs7vmpfDqaZ6nvPkJ0kd7WhsC59g5uVx5eWudv4TBvV9fCnFtGDmyz3+vw5zk6
7FKJzp5ZS3w6IZYWFfaJ/eDhRtDcYO3W1QceUC9crn27IJwwydnh7xfhR7ofnCg2963CZadjjxHtLFLpZlVHyZj1kQ5xp5qv/HL1
wjDHrrsxaYeKI0HztRsmWMc8wVKu3QsVaYp0wRCXkD7n0q8a6bDH5Qz7k4e42+9eJQLLGm4g3NX6p+sx13F3nOp1DJXEOGZilr8z
ZdxePwjGXS6j04xhX/WWXSa+Hd8dHv7wcydudxFLv1v87JbDHg+4OQl6Wlt5ruGubyilayNlbDcvIVx/8x35F5t5DBF+AFBLAwQt
AAAACAAAACEA/LL2e///////////CAAUAGE0NTEubnB5AQAQACgOAAAAAAAAxAAAAAAAAACb7BfqGxDJyFDGUK2eklqcXKRupaBu
k2ahrqOgnpZfVFKUmBefX5SSChJ3S8wpTgWKF2ckFqQC+RpGxjoKhpaaOgq1CmQCrt/qXbX//NMcNqeLih0G0hZycuonjNMcGMDg
w/5HrooCl6wRfHrRZzuOLo7NhNrbkOZwWT5O7AevsENSVwf33iD6uwdGf9ltfSSrLtXhVsm+s3UZaQ4eiTxB3bZpDoveXb8aFjBw
7hqlR+lRepQepUfpUXqUHqVH6VF6+NAAUEsDBC0AAAAIAAAAIQCBQFXD//////////8IABQAYTQ1Mi5ucHkBABAAKA4AAAAAAABM
AQAAAAAAAJvsF+obEMnIUMZQrZ6SWpxcpG6loG6TZqGuo6Cell9UUpSYF59flJIKEndLzClOBYoXZyQWpAL5GkbGOgqGlpo6CrUK
ZAIuBhBoSHPgPnnf4iT3P/uQc5NajU+xO8x6f2BO/jELh23PHKet4ElzAKtj+LCfXnTADO52l9upDmuv7+CrbWOF2z8pUbVF+EAq
nH8u9t/v5dMRfHrRxxcdjNgvkOpwPnqjq/MGY4e+V8EXDePo7w5cNA/n8usCl1NwumfZ7FsOT2filqcXXfFckVM5JnnA3eHMPK/D
3D0JpzuWLr4SdJIJtzy1abusjRVPeJMdZqkdsPCyIz58Tp3a6l7AT3t3Hur1/OD6KZFke6y+++d0Xcet71ZN6USpBNq7n960XISP
nqgn5f46Nqfw5zMH0sN9lB5ctL+96gVDxdF4HKVH6VF6lB6l8dMAUEsDBC0AAAAIAAAAIQDlFHUg//////////8IABQAYTQ1My5u
cHkBABAAKA4AAAAAAACqAwAAAAAAAJvsF+obEMnIUMZQrZ6SWpxcpG6loG6TZqGuo6Cell9UUpSYF59flJIKEndLzClOBYoXZyQW
pAL5GkbGOgqGlpo6CrUKZAIuBjD4sB8v/SDBgSh1MLohDEP9hgtTDj49pAgXD3DWEzAz4Yfz3+xz7T8+8a09RH+ag8hB2ed9n6Mw
zClbbxDzaWM0XPzDhlPn24NjiHafmpTVtK3ONg7aV431P6vbOmzhOPvP+rqsw7N5ZX9KQpkwzGGrr5kpPlvH4ZLJoXur3kmiyiP5
06Q55v69IsxwuvHfwsHMPhCnPnT6kW9p05zgBIfG1WLu8d9kiPYXOt378OLOoMVxOPX7lMX94kiIJdt8dDrrjdXmrWfMHD4yqofG
TlN38PvIfm+1uo9DSDx3Ff+EcIrtif+Vop9XZ+WgcXt/p2CPrcPpFsfmsrfqcHMtTombW52xhfP1wqUusPtEUs1/egVxcxxn+8PN
Y55YNut+P8JfM97qez2YbUC0fUvlzrpP+q9OUH0n+/V2zZhogupg9NyXpUI5F4IdjK8W7ZQpw3TP5C0353d/9KQ4XN4a77s382Ao
QXNkvqUv0V2GSGdS6zZLuG7FrU8nynPC3/WY8VbOEyX6tc7BQWeKV9v0EluH+dePxutaEx8ulNL3s77Ne7nayyHUgClC/6WDw+Hr
IibyC60cEo5ym9kxYpZT6LSWf2n00pXRDosZhdLS5mCqX5P3z0BnFyI9NU2a6H/otSuGuuY5723fKyDUaeiopd5XDHeoOM3/36TW
yeHe2bCNMu+d4fICYXsj5h4JIug+pbVMXjxmxOcXJiX26VVPCKejt68tK88uRrj3+kJbj3O9gQT1EaKPeUvKahv6OUz4em3bJibc
5cvfyM6bP7gQ4T1Ly8TR+TfhdEssfVYk27wmMoJk87y2t2mVmmKmg8tBfeUrOrzh4umt1Y/b11KeX0UconlythJOp6TS8/ur+qsW
ItLXHCf5rX63SQ8PUunPT8TnJJzwI9keEY8WwySPEAdBKWWm+RqUp0N0+ozy1tJDd4KJNtdXKMjxrw3twwud9jGZvd17fwDcXvYs
Cd+WEOLdPenQwt6j6sS7+xvr7uk8bYTNr5iwoHZ3kD9BdQNF88+7aaxzl/zy45HQms0+9yiP7ysLVizg1cMsr52DT2zVascM51u6
vL/X7SXdXo+PqRv2ZRKIN1ztWTztXErp3T9nbp/mTXx6xUVXGvOqtoaG0Myd6PTk7ymnqnYQmX6Qwg8AUEsDBC0AAAAIAAAAIQBD
jnWK//////////8IABQAYTQ1NC5ucHkBABAAKA4AAAAAAAAPAwAAAAAAAJvsF+obEMnIUMZQrZ6SWpxcpG6loG6TZqGuo6Cell9U
UpSYF59flJIKEndLzClOBYoXZyQWpAL5GkbGOgqGlpo6CrUKZAIuBjD4sJ9YuuBhyY+9RZEOpOobbnRCz3GLowLRDoTUfU+JV412
jSKojtr0KcbVTnEisTjtFbl7xOzW5Bi6u6shU172rDJudw1W2sXT8XXFEvql+9QX32I6PGId7FxFlDKuYYZX+Kn9rcsag+nmHnRa
SShv+wkZ6qef0iTdG3snE04fLJ6219YJxBFtfw2LbtaTNML5lVR670QTmz4rwu44m8EoHMuc4JBhPYX9Ymk81d2Bi95lUnD23jXC
5c+9yo03WNKo7641L2pXydsjwueVpoGa4lPc+UhJQ++cjGYCXN5rK184sxPueOMNu7Dv6gTc4a80JSHxsB3CvCLRuSG71pNf/lje
cLy4yywMrv+6kN+mZA2E+bjovXLy1xnfIez9pLXj3uXtuPUtnDXl7aWvxKfvLTUO0nfW4C4PJl77KBGbm0i0eaafHfc/zA4nO5zg
5shZu9WzhlBsDrXoS0lN1qy2cQ6OLu6LOXYS77+fr61vGRyKcvhv/iqW6T/16gG7Wc0H5ZSTHDZXZW/obHMm2lxX81LuGX+pX/5G
lKb+UeVPcjhfKXDZ1dnf4cfVG94thnYY9hyq8j0fsSGJ6vYTole7F1uf3WlEd3th9CUFp8VTAjHzUcApN6FECROC7uo5bPZ4m3MK
xe7/VfRGbeOhZILmNDN3/DhiJuxQ9PfwZUneVIe+JZzvnCyTcOp7qOjHFHsE4T/3hKAH6qG4yymXH1K3ckIx3bE34u5Xt9e47Vn+
m7s9Zp+QQ3QST6voVUaHP5N/Nue0pGKod/bwV34sZggXP3Qwbd2nudoOBs1xf69vwe2u8scdc6rTQh2UJJ2SNmkjyl0m689xj00Q
9dyPKofE3zvRzGlIc3AvuudyeNtj+0sv3nM98WR0sL10pOTxfHEH/g7lXNVqLYLhPmFLy8St4doY6hbnBnkZNxKON7maaZFXxBHq
AFBLAwQtAAAACAAAACEAGfcT0///////////CAAUAGE0NTUubnB5AQAQACgOAAAAAAAAYAEAAAAAAACb7BfqGxDJyFDGUK2eklqc
XKRupaBuk2ahrqOgnpZfVFKUmBefX5SSChJ3S8wpTgWKF2ckFqQC+RpGxjoKhpaaOgq1CmQCLgYw+LCf1rTl783tHzvDHehl3yg9
StOS5mZRvfiAI9aBWPWie3Z9U2gaeen/5tOX/bO5E+D+3jDjpIm8LvHhNkrjp2d+z3i3alOcAy75BfePf48KjsEpP9zpTZIG3y8c
R6S/c1VOn78rxjuQag616Z7CdYGX7RJxuiOBXWJ2hH0CTvlRenDSn1JvHlOdOvDpCxddlia737E8FsN9aiUnQt364x0On0r56/Er
adC6f6BpmaepHAm3khxgfK4PrHJ9bMYOpJpDKR2n8a2ofkEKhr2XW70kzB4lOuTV/GSq/qtLd3fB6HXa2rJPV2O6j4nH8+XGdqkB
cxc6rcZeul+bIdXB9PKEpSEXJAaNu7Q757voBKVB3NOQ5gAAUEsDBC0AAAAIAAAAIQAxdkPo//////////8IABQAYTQ1Ni5ucHkB
ABAAKA4AAAAAAACGAwAAAAAAAJvsF+obEMnIUMZQrZ6SWpxcpG6loG6TZqGuo6Cell9UUpSYF59flJIKEndLzClOBYoXZyQWpAL5
GkbGOgqGlpo6CrUKZAIuBjD4sH+w0A5fdwsqPI1zwCV/qCe2Yt7qRJzyhOicZ1xzOrUS4PotmDPu8kaH4zTvbno/38/OeIL2rc5Q
u/S2OYmgOq6r3QvrtmG6P/VrvF1rX7xD/+0ChT2OuM253SIrvLA6iqA9b1ZO8i85Ttg9tKJ5dzrcuBBDOJ7OxuYzzNSgvjsP3nvn
nLuTdHNv3z4ZqeicTFCfUP7qAjlFwupgdKrr9FDnY4TTEYy+oyfMF3Ag2SH3jIuW4RuEPasuLCu6sNbVoeEC5yylWMx04Cbs23jM
Gre7ppUuO/z3Cun5x3bN8x+fPiLc77KL5+Khu7jtOaol3HjkR6TDHcU9x2+sTiHZPlJpgbl3jnkuwO2v/kWMj8t8UxxUm1fXrPzr
AlcXOnPepj1bCIdHxZ+aX26HkzDU6Vj22r8+TNh/E3WlphtEpDq43Cza1xyaCldfde7aKdWUKIdMRbUOU89UB0Hnq83sNRoO/94y
Z/FVJ2CY27peYIKBG0J/wsdvWp9NUjHUkUrvLeXytV5N2JyEdWL7LSYqOijM3vqoozjFQWjv+7Df3/hx6tsmlaWYuQZh7gErA91v
H6mXHmaueRd+3zHNocC4Z9X/iw/swcINaQ4hcsZqsltTHWr6Zj6O9Umjmn0R1TUbTr1HpPsLERazgnemOpzl63J1m4OZH943njK8
dVvS4VWcwKGuy0B1K7Sne/wWdTgQ0bTh7w/K440QHbnvf/5rqRSHr9VH2V52pDowm29L8ruq6BC8M2nV3uWY5Ue+t1pCCZ+zw4fv
Na8bbxNfvsFo4dTovqM7CMev1qLpD46wpDgk+EZ6nf+o7HDn23u3N9cTHBR0TE84FRC2V2xNpt2P6eS3A3DRvdemvw5N1oKbK7j2
74LjJNRPyguk5n8NJj7cPjRuaD56Grf64yuy3stJWjjwnKgT9/uBu11EKj35VIuRVBWifPkR8fHfdWC7I7xxncvv/4TdH2X5bNX2
omSHFdPSso+mUD8eiKWlWV9E39sZPGD2k0rzXTi4TvJpEsXufSfvLnXkO/Hm6FUcaImvo9xeYunua/Erbq4jPl04MX8VCF1J/3Q0
f6Zc7wt5zHp2oGmDGaEyqt8R7gIAUEsDBC0AAAAIAAAAIQBO+GHf//////////8IABQAYTQ1Ny5ucHkBABAAKA4AAAAAAACyAQAA
AAAAAJvsF+obEMnIUMZQrZ6SWpxcpG6loG6TZqGuo6Cell9UUpSYF59flJIKEndLzClOBYoXZyQWpAL5GkbGOgqGlpo6CrUKZAIu
BjD4sB8XPXWNg8/mg6kOMD7PgW13/89OdbjQ/tvsa8xre6bYnZ6z+u7Zg6Ub0hyWXnwpIO6V5kDIXEK0iYvGU+lNKRjmREiHPCuW
Q7inbubTLT9iEPxkDWGpl+f4HARmlJ96lcDpUB0nXr/1jZJDAK9n6cz8JAeOY9uOMmVjmkspreTOVffgNqa5K5vOHV30MdlBjH33
QV1mEwe3E9Ny+QtTHPran69zuJfkkPWa7c6e28lwfbxHJvy6dYVy9+klC09Qlsdtzj6lzvddUtQPB3T68GmOUyenJMHtUapd69uT
gfDvYKPbJqu4zc1AuBdGez9dtnEnXwJc3PRusHGOGqY6atP7Ni7RF3Uj3h6u94kR3gsSiFZPLfqAduSfnBcRGPY+qlm5yymBePcP
V1p4+tcMq8hEh1Tbb3P4hRMdMNRVPozd7Uz/eIPR7K/rtixMGTj7R2na0tsPNC/mMhuN31F6lB6lR+mhRgMAUEsDBC0AAAAIAAAA
IQBi00/i//////////8IABQAYTQ1OC5ucHkBABAAKA4AAAAAAADrAAAAAAAAAJvsF+obEMnIUMZQrZ6SWpxcpG6loG6TZqGuo6Ce
ll9UUpSYF59flJIKEndLzClOBYoXZyQWpAL5GkbGOgqGlpo6CrUKZAIuBjD4sH+UHqVH6VF6lKYOPXWNg8/mg6kOMD7fhR1aS2TS
HEg1h9q03NqUHQeWpTrY5ib8OfoN4b5BQTekOaytEBF7Wzrw4QSjjzP/PGTRluiw79RtrVmODoPGXRNC3rT+aEp1eLWKc8t3xVSH
gh0zQ6zfDXx83uEpUbZ+iXCHi9OR4+2rB95dMPp1RPX22zNSHcwSF9b1VQ0ed43So/QoPUrjogFQSwMELQAAAAgAAAAhAHTzO/f/
/////////wgAFABhNDU5Lm5weQEAEAAoDgAAAAAAAPQBAAAAAAAAm+wX6hsQychQxlCtnpJanFykbqWgbpNmoa6joJ6WX1RSlJgX
n1+UkgoSd0vMKU4FihdnJBakAvkaRsY6CoaWmjoKtQpkAi4GMPiwf5QepUfpUXqUJo1OyMpovb4w0WGg7Ge7K6aqP2ng7CdEpzz+
+mLfm4FzX5P7GsOoOUlw+78dt89b+Y3+7nly6qi/pTnCHU6OvX9ufEfw0enW810d+bm45alFX/CSzL56CxEeertPVny+GeGw/ucT
/0rOgU9XX3xLGMr2hQ+YOzw3iCpaiyc5XLJIfCdUnuQgvGnWnf1hSQMeLm8OTXGOVk8ecHfgoi2YM+7yRiPija94+YTkeQPn3ml6
8wVutlNu/7tZQvtbk1LINufe7i+7t0anUuwOgcja+4y2xJuz1X6P25mlqQ5n7uuprzFH6JuRkR3MFZPqIKTidH7t+WQHudnmhlv9
EPJti1//vmiE2541pVZpmnmY8izPE1XvuBDvvohX6n5rPyPUH3g9z/P3oxSHya/2t/JdTXEItuw9nOTD6SCy4EXF5R9JDtcniiYL
nkCoL2Rd7b1bNdXB5WHo6RlMqQ7b37RXu1ulOrSEfnDoCaA8vGG0i94N0ye/Uh2Ot0/U8zv33R4s3JDmIG2clPbskCjcHjfdultR
xzDTW++/4vkNz0h3DwBQSwMELQAAAAgAAAAhACmw5rb//////////wgAFABhNDYwLm5weQEAEAAoDgAAAAAAAMUFAAAAAAAAm+wX
6hsQychQxlCtnpJanFykbqWgbpNmoa6joJ6WX1RSlJgXn1+UkgoSd0vMKU4FihdnJBakAvkaRsY6CoaWmjoKtQpkAi4GMPiwHxft
4qljmysX4ADjc+QWGBRvcHHApf5kxBoPblUPDPky51+W917ZwMVLzXZrzj1ngaHuQuL80uM/HHCar/5gx/Z30l5w+SwleZN/Bzxx
qsdFn+//uTLggoOD5+5ZPx5UGuPUv3Xrb9/L/2wx5Ptj2K0PrneFi0+SqOZinO+Hoa42XXd5Fr8TXFy+I2onG5eLw5YGgXld320c
TimtruBY7OBwOVXEKPi+hYN5R+dspZ2Y4QejGTewCLk7Gzm4Gf5V2HZBDa7u84093TlF9nD+943hWyKKvXGaE7lgjohqmLuDBMuz
SxeFEf5f9SFzpcJfbZLD8/Jez8kt5QYOi3rnN+ufUXXIa9A/MbfM0uHJi4nCF/4h/F/8vld/3kV3OF9n8upJ32IR6QJGH9p66cf3
JIT/+uvLTNrfaDos+rRgD7OvtsOqFTL79afLwOVVbD9c/6+rBeeXfjzwSmKZjUPz+e/Tns8Scrh37bHVuVmSDq+O19SlrRfE6T/7
/iMsrnGOGPJ2kmcUZh00goubZfMVeNpawvkbPp7JWBMr4bDyyovoaxdFHEL4ytJjjvDD5cUzJ7mHdCo53Ala4W7OL+hQUHtpcZEs
v8ODLZ0TjxzgwemeXfKLXd/8diY6PoJtPc9JpBrgVL9yyl9O/0PyDtfEhEst87kdWqetNlp9lskh/d2stq6cP/b+h6okzhf8tJf6
K1KaOOu7vXnMarvFsexE249Oy+gWhoQ5IvIJ55dviRrLdXGaN/fCTq3YTnUM+STr74ePBny19+va8F648bE9WLghzUHtvy771dn6
BN13KTAx6IYRZj6vPcwmb6Cm5KBzWf3Z5/98OM2ZcGdm6gw2KQz5CR9mZDk3aTvIc/Ee5qr9bX/H6+f5f0UsGOokvF7PiNrm5fBV
am7eslY3DHntq8b6n9UR5Yzo5RbT0zwqGOp+/bozkVnFDC5+YvNF2fICEwx1c09bzz0qIeKQwquUlLpb0yH0sTCfX6EQTv9p+9+W
rfnlilOeXHrmLmfTTEZbh8sMzzo8QkQcHOu6nmy5hkif8nmlTu8XyMP5efP36LyPQJTvfFy3JF+3YpYPMPrc+wyj/wudcMobyjl9
nnoZUZ5qPQi89dTK3qE17rD434lyOPWZH5WvWD9PDUN+bWvLjxdmiHorYPV8vnw20uufQP1Xxcm6vnB9wo0uFT1lig7zjGTZrR4b
OSwIuXX5JYOLwwHe2DPf0w3h6jbKP1j4dY8GyfbdspLdz54RSLS+QzZlqYucrRxucvNu/7raCKe+ZL2A9QG/7ODyu8K8179t94fz
dWfx3b4qjxl/ohGBv7w7iC/X0Gn5rINCkmescOp/q/Nnq4OLHU55Ummd/oelVeucHJruKVafl3LCae6LCiHLkLmY7aO/N9716a01
dmi6qvB05QFbB9fQ+akbGHC3cwjRh11naoVkkJ5fVc1ff60rcnZY58d31EvH0eGpg9qZCYx2DpGTXPOc/7s4+FVyvgicTTid8E5+
op56KMCh7+qG+GN3Cbvj4LcbDhHrMMs9dNpvV/PhlRvJDxd0mpV/34vLq1wczrOwLJ+KJV5gdINdQummOML+kNtUWXw83Yds993L
e5IqfzPI4XQJj3BtPGa54Wi3R2jPPUx3sm9VFHorhUjPrvdZAy0sgzHU/ZLmaS/rxmw/KhSHmm1TC3bo3RvCITDfC0MeRocu9Ouv
LkLIH+/S2yjrh7t8m3bMf4XjR38M+Z+TH9zleOHv8J9pxZWpuwjHe4FrtpN4G/HlU9jkCaZLziPcxfI9mrU+y9VhJrf11m8pxOeL
SqeuLo0TiHay1/23cXFMuNvNlNIWgUpaYrMwwwtGHzNXYphr6eKw+HMxX8BORL8LAFBLAwQtAAAACAAAACEAvB22Tv//////////
CAAUAGE0NjEubnB5AQAQACgOAAAAAAAAxQAAAAAAAACb7BfqGxDJyFDGUK2eklqcXKRupaBuk2ahrqOgnpZfVFKUmBefX5SSChJ3
S8wpTgWKF2ckFqQC+RpGxjoKhpaaOgq1CmQCrg6r43k1hmkOyzKU2/aJpTkssu17eIkzzYEBDD7s3/NLufKLC4JPLzplN//btFKo
vQ1pDlNPFJq7zRB0yFDo4DiXRX/3wGivGqYJkqGpDj4vt3rJe6Y5LF0uYikknubQXGdzh99r4Nw1So/So/QoPUqP0qP0KD1Kj9Kj
9PChAVBLAQItAy0AAAAIAAAAIQDbjofEeQAAACABAAAGAAAAAAAAAAAAAACAAQAAAABhMC5ucHlQSwECLQMtAAAACAAAACEA246H
xHkAAAAgAQAABgAAAAAAAAAAAAAAgAGxAAAAYTEubnB5UEsBAi0DLQAAAAgAAAAhAOS1G8qcAAAAIAEAAAYAAAAAAAAAAAAAAIAB
YgEAAGEyLm5weVBLAQItAy0AAAAIAAAAIQAY8eFNeAAAACABAAAGAAAAAAAAAAAAAACAATYCAABhMy5ucHlQSwECLQMtAAAACAAA
ACEAPK6Tx7IAAAAgAQAABgAAAAAAAAAAAAAAgAHmAgAAYTQubnB5UEsBAi0DLQAAAAgAAAAhAL0SYrOKAAAAIAEAAAYAAAAAAAAA
AAAAAIAB0AMAAGE1Lm5weVBLAQItAy0AAAAIAAAAIQCEn/HvywAAACABAAAGAAAAAAAAAAAAAACAAZIEAABhNi5ucHlQSwECLQMt
AAAACAAAACEA77WS+M8AAAAgAQAABgAAAAAAAAAAAAAAgAGVBQAAYTcubnB5UEsBAi0DLQAAAAgAAAAhAL6Zb/m6AAAAIAEAAAYA
AAAAAAAAAAAAAIABnAYAAGE4Lm5weVBLAQItAy0AAAAIAAAAIQBReIhqmwAAACABAAAGAAAAAAAAAAAAAACAAY4HAABhOS5ucHlQ
SwECLQMtAAAACAAAACEAvplv+boAAAAgAQAABwAAAAAAAAAAAAAAgAFhCAAAYTEwLm5weVBLAQItAy0AAAAIAAAAIQB1qF7ohAAA
ACABAAAHAAAAAAAAAAAAAACAAVQJAABhMTEubnB5UEsBAi0DLQAAAAgAAAAhAFcw2q+2AAAAIAEAAAcAAAAAAAAAAAAAAIABEQoA
AGExMi5ucHlQSwECLQMtAAAACAAAACEAiCtk7bMAAAAgAQAABwAAAAAAAAAAAAAAgAEACwAAYTEzLm5weVBLAQItAy0AAAAIAAAA
IQB8yO3iywAAACABAAAHAAAAAAAAAAAAAACAAewLAABhMTQubnB5UEsBAi0DLQAAAAgAAAAhADxfBqTPAAAAIAEAAAcAAAAAAAAA
AAAAAIAB8AwAAGExNS5ucHlQSwECLQMtAAAACAAAACEA1CcSopgAAAAgAQAABwAAAAAAAAAAAAAAgAH4DQAAYTE2Lm5weVBLAQIt
Ay0AAAAIAAAAIQDDOAUWtQAAACABAAAHAAAAAAAAAAAAAACAAckOAABhMTcubnB5UEsBAi0DLQAAAAgAAAAhAMj996m8AAAAIAEA
AAcAAAAAAAAAAAAAAIABtw8AAGExOC5ucHlQSwECLQMtAAAACAAAACEA1CcSopgAAAAgAQAABwAAAAAAAAAAAAAAgAGsEAAAYTE5
Lm5weVBLAQItAy0AAAAIAAAAIQCBJLyc0wAAACABAAAHAAAAAAAAAAAAAACAAX0RAABhMjAubnB5UEsBAi0DLQAAAAgAAAAhAP+0
LHTAAAAAIAEAAAcAAAAAAAAAAAAAAIABiRIAAGEyMS5ucHlQSwECLQMtAAAACAAAACEAOV8CXeYAAAAgAQAABwAAAAAAAAAAAAAA
gAGCEwAAYTIyLm5weVBLAQItAy0AAAAIAAAAIQCu0Dss0AAAACABAAAHAAAAAAAAAAAAAACAAaEUAABhMjMubnB5UEsBAi0DLQAA
AAgAAAAhAJFFJYG9AAAAIAEAAAcAAAAAAAAAAAAAAIABqhUAAGEyNC5ucHlQSwECLQMtAAAACAAAACEAMUIFRGsAAAAgAQAABwAA
AAAAAAAAAAAAgAGgFgAAYTI1Lm5weVBLAQItAy0AAAAIAAAAIQBS2i7lfwAAACABAAAHAAAAAAAAAAAAAACAAUQXAABhMjYubnB5
UEsBAi0DLQAAAAgAAAAhAPXsda5pAAAAIAEAAAcAAAAAAAAAAAAAAIAB/BcAAGEyNy5ucHlQSwECLQMtAAAACAAAACEAkUUlgb0A
AAAgAQAABwAAAAAAAAAAAAAAgAGeGAAAYTI4Lm5weVBLAQItAy0AAAAIAAAAIQBNlY3giQAAACABAAAHAAAAAAAAAAAAAACAAZQZ
AABhMjkubnB5UEsBAi0DLQAAAAgAAAAhAPjparzFAAAAIAEAAAcAAAAAAAAAAAAAAIABVhoAAGEzMC5ucHlQSwECLQMtAAAACAAA
ACEArmI/dpgAAAAgAQAABwAAAAAAAAAAAAAAgAFUGwAAYTMxLm5weVBLAQItAy0AAAAIAAAAIQDKy7TuugAAACABAAAHAAAAAAAA
AAAAAACAASUcAABhMzIubnB5UEsBAi0DLQAAAAgAAAAhAGz8bJGzAAAAIAEAAAcAAAAAAAAAAAAAAIABGB0AAGEzMy5ucHlQSwEC
LQMtAAAACAAAACEAFAUmYbkAAAAgAQAABwAAAAAAAAAAAAAAgAEEHgAAYTM0Lm5weVBLAQItAy0AAAAIAAAAIQCfMvqeoQAAACAB
AAAHAAAAAAAAAAAAAACAAfYeAABhMzUubnB5UEsBAi0DLQAAAAgAAAAhAJ94ihC5AAAAIAEAAAcAAAAAAAAAAAAAAIAB0B8AAGEz
Ni5ucHlQSwECLQMtAAAACAAAACEAysu07roAAAAgAQAABwAAAAAAAAAAAAAAgAHCIAAAYTM3Lm5weVBLAQItAy0AAAAIAAAAIQAK
BJk/wgAAACABAAAHAAAAAAAAAAAAAACAAbUhAABhMzgubnB5UEsBAi0DLQAAAAgAAAAhAFz5BH++AAAAIAEAAAcAAAAAAAAAAAAA
AIABsCIAAGEzOS5ucHlQSwECLQMtAAAACAAAACEA7cr3Yr8AAAAgAQAABwAAAAAAAAAAAAAAgAGnIwAAYTQwLm5weVBLAQItAy0A
AAAIAAAAIQBttzdDpQAAACABAAAHAAAAAAAAAAAAAACAAZ8kAABhNDEubnB5UEsBAi0DLQAAAAgAAAAhANSnGmCzAAAAIAEAAAcA
AAAAAAAAAAAAAIABfSUAAGE0Mi5ucHlQSwECLQMtAAAACAAAACEA4aASlIwAAAAgAQAABwAAAAAAAAAAAAAAgAFpJgAAYTQzLm5w
eVBLAQItAy0AAAAIAAAAIQCUqrE2uwAAACABAAAHAAAAAAAAAAAAAACAAS4nAABhNDQubnB5UEsBAi0DLQAAAAgAAAAhAKzQbny4
AAAAIAEAAAcAAAAAAAAAAAAAAIABIigAAGE0NS5ucHlQSwECLQMtAAAACAAAACEA7cr3Yr8AAAAgAQAABwAAAAAAAAAAAAAAgAET
KQAAYTQ2Lm5weVBLAQItAy0AAAAIAAAAIQARHUf4yQAAACABAAAHAAAAAAAAAAAAAACAAQsqAABhNDcubnB5UEsBAi0DLQAAAAgA
AAAhAFcAeIrfAAAAIAEAAAcAAAAAAAAAAAAAAIABDSsAAGE0OC5ucHlQSwECLQMtAAAACAAAACEAnxs+TMkAAAAgAQAABwAAAAAA
AAAAAAAAgAElLAAAYTQ5Lm5weVBLAQItAy0AAAAIAAAAIQDZo0nU3wAAACABAAAHAAAAAAAAAAAAAACAASctAABhNTAubnB5UEsB
Ai0DLQAAAAgAAAAhAJCP0vrPAAAAIAEAAAcAAAAAAAAAAAAAAIABPy4AAGE1MS5ucHlQSwECLQMtAAAACAAAACEAQ9wL9skAAAAg
AQAABwAAAAAAAAAAAAAAgAFHLwAAYTUyLm5weVBLAQItAy0AAAAIAAAAIQBXaIK72AAAACABAAAHAAAAAAAAAAAAAACAAUkwAABh
NTMubnB5UEsBAi0DLQAAAAgAAAAhAN8amqjeAAAAIAEAAAcAAAAAAAAAAAAAAIABWjEAAGE1NC5ucHlQSwECLQMtAAAACAAAACEA
VwB4it8AAAAgAQAABwAAAAAAAAAAAAAAgAFxMgAAYTU1Lm5weVBLAQItAy0AAAAIAAAAIQBdw+tOewAAACABAAAHAAAAAAAAAAAA
AACAAYkzAABhNTYubnB5UEsBAi0DLQAAAAgAAAAhAF3D6057AAAAIAEAAAcAAAAAAAAAAAAAAIABPTQAAGE1Ny5ucHlQSwECLQMt
AAAACAAAACEAMhypGYgAAAAgAQAABwAAAAAAAAAAAAAAgAHxNAAAYTU4Lm5weVBLAQItAy0AAAAIAAAAIQDGXeazfwAAACABAAAH
AAAAAAAAAAAAAACAAbI1AABhNTkubnB5UEsBAi0DLQAAAAgAAAAhAC9V4gKMAAAAIAEAAAcAAAAAAAAAAAAAAIABajYAAGE2MC5u
cHlQSwECLQMtAAAACAAAACEAMjYLVogAAAAgAQAABwAAAAAAAAAAAAAAgAEvNwAAYTYxLm5weVBLAQItAy0AAAAIAAAAIQDWrxwj
vwAAACABAAAHAAAAAAAAAAAAAACAAfA3AABhNjIubnB5UEsBAi0DLQAAAAgAAAAhAK781+OHAAAAIAEAAAcAAAAAAAAAAAAAAIAB
6DgAAGE2My5ucHlQSwECLQMtAAAACAAAACEA9Nx4tK4AAAAgAQAABwAAAAAAAAAAAAAAgAGoOQAAYTY0Lm5weVBLAQItAy0AAAAI
AAAAIQBMz5yilQAAACABAAAHAAAAAAAAAAAAAACAAY86AABhNjUubnB5UEsBAi0DLQAAAAgAAAAhAPTceLSuAAAAIAEAAAcAAAAA
AAAAAAAAAIABXTsAAGE2Ni5ucHlQSwECLQMtAAAACAAAACEA2fHVl4wAAAAgAQAABwAAAAAAAAAAAAAAgAFEPAAAYTY3Lm5weVBL
AQItAy0AAAAIAAAAIQB19E6qvwAAACABAAAHAAAAAAAAAAAAAACAAQk9AABhNjgubnB5UEsBAi0DLQAAAAgAAAAhAD7vTkGzAAAA
IAEAAAcAAAAAAAAAAAAAAIABAT4AAGE2OS5ucHlQSwECLQMtAAAACAAAACEA9o8ELNIAAAAgAQAABwAAAAAAAAAAAAAAgAHtPgAA
YTcwLm5weVBLAQItAy0AAAAIAAAAIQDT3fOL1gAAACABAAAHAAAAAAAAAAAAAACAAfg/AABhNzEubnB5UEsBAi0DLQAAAAgAAAAh
ABavLByaAAAAIAEAAAcAAAAAAAAAAAAAAIABB0EAAGE3Mi5ucHlQSwECLQMtAAAACAAAACEAKaYVurQAAAAgAQAABwAAAAAAAAAA
AAAAgAHaQQAAYTczLm5weVBLAQItAy0AAAAIAAAAIQBfbwoPyQAAACABAAAHAAAAAAAAAAAAAACAAcdCAABhNzQubnB5UEsBAi0D
LQAAAAgAAAAhABavLByaAAAAIAEAAAcAAAAAAAAAAAAAAIAByUMAAGE3NS5ucHlQSwECLQMtAAAACAAAACEA9gYLXsoAAAAgAQAA
BwAAAAAAAAAAAAAAgAGcRAAAYTc2Lm5weVBLAQItAy0AAAAIAAAAIQCPuFezzwAAACABAAAHAAAAAAAAAAAAAACAAZ9FAABhNzcu
bnB5UEsBAi0DLQAAAAgAAAAhAG+b+L7XAAAAIAEAAAcAAAAAAAAAAAAAAIABp0YAAGE3OC5ucHlQSwECLQMtAAAACAAAACEArgQP
9dgAAAAgAQAABwAAAAAAAAAAAAAAgAG3RwAAYTc5Lm5weVBLAQItAy0AAAAIAAAAIQDeqoAMvgAAACABAAAHAAAAAAAAAAAAAACA
AchIAABhODAubnB5UEsBAi0DLQAAAAgAAAAhAFohS6K8AAAAIAEAAAcAAAAAAAAAAAAAAIABv0kAAGE4MS5ucHlQSwECLQMtAAAA
CAAAACEAP7/gJuYAAAAgAQAABwAAAAAAAAAAAAAAgAG0SgAAYTgyLm5weVBLAQItAy0AAAAIAAAAIQDxnHQxkAAAACABAAAHAAAA
AAAAAAAAAACAAdNLAABhODMubnB5UEsBAi0DLQAAAAgAAAAhAPYAuE3CAAAAIAEAAAcAAAAAAAAAAAAAAIABnEwAAGE4NC5ucHlQ
SwECLQMtAAAACAAAACEACLqtILcAAAAgAQAABwAAAAAAAAAAAAAAgAGXTQAAYTg1Lm5weVBLAQItAy0AAAAIAAAAIQCttuG+1gAA
ACABAAAHAAAAAAAAAAAAAACAAYdOAABhODYubnB5UEsBAi0DLQAAAAgAAAAhALWD4b6NAAAAIAEAAAcAAAAAAAAAAAAAAIABlk8A
AGE4Ny5ucHlQSwECLQMtAAAACAAAACEAxWZ6psEAAAAgAQAABwAAAAAAAAAAAAAAgAFcUAAAYTg4Lm5weVBLAQItAy0AAAAIAAAA
IQCda7Vc5wAAACABAAAHAAAAAAAAAAAAAACAAVZRAABhODkubnB5UEsBAi0DLQAAAAgAAAAhAFHFujjyAAAAcAEAAAcAAAAAAAAA
AAAAAIABdlIAAGE5MC5ucHlQSwECLQMtAAAACAAAACEAwu5Rl1MAAABwAQAABwAAAAAAAAAAAAAAgAGhUwAAYTkxLm5weVBLAQIt
Ay0AAAAIAAAAIQDI9Vfd8wAAAHABAAAHAAAAAAAAAAAAAACAAS1UAABhOTIubnB5UEsBAi0DLQAAAAgAAAAhADIqRthlAAAAcAEA
AAcAAAAAAAAAAAAAAIABWVUAAGE5My5ucHlQSwECLQMtAAAACAAAACEAQuPq55sAAABwAQAABwAAAAAAAAAAAAAAgAH3VQAAYTk0
Lm5weVBLAQItAy0AAAAIAAAAIQCdJbH80QAAAHABAAAHAAAAAAAAAAAAAACAActWAABhOTUubnB5UEsBAi0DLQAAAAgAAAAhAHQr
XlDJAAAAcAEAAAcAAAAAAAAAAAAAAIAB1VcAAGE5Ni5ucHlQSwECLQMtAAAACAAAACEA/3SOpdIAAABwAQAABwAAAAAAAAAAAAAA
gAHXWAAAYTk3Lm5weVBLAQItAy0AAAAIAAAAIQDsy/hVUwAAAHABAAAHAAAAAAAAAAAAAACAAeJZAABhOTgubnB5UEsBAi0DLQAA
AAgAAAAhAJ8aEBjKAAAAcAEAAAcAAAAAAAAAAAAAAIABbloAAGE5OS5ucHlQSwECLQMtAAAACAAAACEAUxkZSm8AAABwAQAACAAA
AAAAAAAAAAAAgAFxWwAAYTEwMC5ucHlQSwECLQMtAAAACAAAACEATfI71DEBAABwAQAACAAAAAAAAAAAAAAAgAEaXAAAYTEwMS5u
cHlQSwECLQMtAAAACAAAACEA3QYlqTMBAABwAQAACAAAAAAAAAAAAAAAgAGFXQAAYTEwMi5ucHlQSwECLQMtAAAACAAAACEAA27+
lDEBAABwAQAACAAAAAAAAAAAAAAAgAHyXgAAYTEwMy5ucHlQSwECLQMtAAAACAAAACEALU+QQbIAAABwAQAACAAAAAAAAAAAAAAA
gAFdYAAAYTEwNC5ucHlQSwECLQMtAAAACAAAACEAFBINb1MAAABwAQAACAAAAAAAAAAAAAAAgAFJYQAAYTEwNS5ucHlQSwECLQMt
AAAACAAAACEAgWaqndIAAABwAQAACAAAAAAAAAAAAAAAgAHWYQAAYTEwNi5ucHlQSwECLQMtAAAACAAAACEAojYB7nIAAABwAQAA
CAAAAAAAAAAAAAAAgAHiYgAAYTEwNy5ucHlQSwECLQMtAAAACAAAACEALEaE1gEBAABwAQAACAAAAAAAAAAAAAAAgAGOYwAAYTEw
OC5ucHlQSwECLQMtAAAACAAAACEAuGw1wvAAAABwAQAACAAAAAAAAAAAAAAAgAHJZAAAYTEwOS5ucHlQSwECLQMtAAAACAAAACEA
vUsUZ2UBAADQAQAACAAAAAAAAAAAAAAAgAHzZQAAYTExMC5ucHlQSwECLQMtAAAACAAAACEAJXvidSwBAADQAQAACAAAAAAAAAAA
AAAAgAGSZwAAYTExMS5ucHlQSwECLQMtAAAACAAAACEApPTVuKMAAADQAQAACAAAAAAAAAAAAAAAgAH4aAAAYTExMi5ucHlQSwEC
LQMtAAAACAAAACEAGJgHGuEAAADQAQAACAAAAAAAAAAAAAAAgAHVaQAAYTExMy5ucHlQSwECLQMtAAAACAAAACEAic1VeH4AAADQ
AQAACAAAAAAAAAAAAAAAgAHwagAAYTExNC5ucHlQSwECLQMtAAAACAAAACEAK5aulNYAAADQAQAACAAAAAAAAAAAAAAAgAGoawAA
YTExNS5ucHlQSwECLQMtAAAACAAAACEAJ+Pvip0AAADQAQAACAAAAAAAAAAAAAAAgAG4bAAAYTExNi5ucHlQSwECLQMtAAAACAAA
ACEACouQxFsBAADQAQAACAAAAAAAAAAAAAAAgAGPbQAAYTExNy5ucHlQSwECLQMtAAAACAAAACEAXx/yEwEBAADQAQAACAAAAAAA
AAAAAAAAgAEkbwAAYTExOC5ucHlQSwECLQMtAAAACAAAACEA+Q7YEJIAAADQAQAACAAAAAAAAAAAAAAAgAFfcAAAYTExOS5ucHlQ
SwECLQMtAAAACAAAACEAn0wZrg4BAADQAQAACAAAAAAAAAAAAAAAgAErcQAAYTEyMC5ucHlQSwECLQMtAAAACAAAACEAi8BceXAA
AADQAQAACAAAAAAAAAAAAAAAgAFzcgAAYTEyMS5ucHlQSwECLQMtAAAACAAAACEAvojQEicBAADQAQAACAAAAAAAAAAAAAAAgAEd
cwAAYTEyMi5ucHlQSwECLQMtAAAACAAAACEAZTEtGw0BAADQAQAACAAAAAAAAAAAAAAAgAF+dAAAYTEyMy5ucHlQSwECLQMtAAAA
CAAAACEA5Pbk9A8BAADQAQAACAAAAAAAAAAAAAAAgAHFdQAAYTEyNC5ucHlQSwECLQMtAAAACAAAACEARalz2NAAAADQAQAACAAA
AAAAAAAAAAAAgAEOdwAAYTEyNS5ucHlQSwECLQMtAAAACAAAACEABsssYnAAAADQAQAACAAAAAAAAAAAAAAAgAEYeAAAYTEyNi5u
cHlQSwECLQMtAAAACAAAACEARcgFncAAAADQAQAACAAAAAAAAAAAAAAAgAHCeAAAYTEyNy5ucHlQSwECLQMtAAAACAAAACEAWXb8
vXIAAADQAQAACAAAAAAAAAAAAAAAgAG8eQAAYTEyOC5ucHlQSwECLQMtAAAACAAAACEAtG/v0EYBAADQAQAACAAAAAAAAAAAAAAA
gAFoegAAYTEyOS5ucHlQSwECLQMtAAAACAAAACEAynXTQ4cAAACYAwAACAAAAAAAAAAAAAAAgAHoewAAYTEzMC5ucHlQSwECLQMt
AAAACAAAACEA15mF7PIBAACYAwAACAAAAAAAAAAAAAAAgAGpfAAAYTEzMS5ucHlQSwECLQMtAAAACAAAACEA+idM3UEBAACYAwAA
CAAAAAAAAAAAAAAAgAHVfgAAYTEzMi5ucHlQSwECLQMtAAAACAAAACEAN1X8ym8BAACYAwAACAAAAAAAAAAAAAAAgAFQgAAAYTEz
My5ucHlQSwECLQMtAAAACAAAACEAiJHKrJMBAACYAwAACAAAAAAAAAAAAAAAgAH5gQAAYTEzNC5ucHlQSwECLQMtAAAACAAAACEA
y/Wjp7QAAACYAwAACAAAAAAAAAAAAAAAgAHGgwAAYTEzNS5ucHlQSwECLQMtAAAACAAAACEAwd3dmPwAAACYAwAACAAAAAAAAAAA
AAAAgAG0hAAAYTEzNi5ucHlQSwECLQMtAAAACAAAACEAH/YslEABAACYAwAACAAAAAAAAAAAAAAAgAHqhQAAYTEzNy5ucHlQSwEC
LQMtAAAACAAAACEAKJg6ZD0CAACYAwAACAAAAAAAAAAAAAAAgAFkhwAAYTEzOC5ucHlQSwECLQMtAAAACAAAACEACAwa5KsAAACY
AwAACAAAAAAAAAAAAAAAgAHbiQAAYTEzOS5ucHlQSwECLQMtAAAACAAAACEAIw8wyIcAAACYAwAACAAAAAAAAAAAAAAAgAHAigAA
YTE0MC5ucHlQSwECLQMtAAAACAAAACEAWK+fy4EBAACYAwAACAAAAAAAAAAAAAAAgAGBiwAAYTE0MS5ucHlQSwECLQMtAAAACAAA
ACEA79VlXf8AAACYAwAACAAAAAAAAAAAAAAAgAE8jQAAYTE0Mi5ucHlQSwECLQMtAAAACAAAACEAazX0nvMBAACYAwAACAAAAAAA
AAAAAAAAgAF1jgAAYTE0My5ucHlQSwECLQMtAAAACAAAACEAujeOdoIBAACYAwAACAAAAAAAAAAAAAAAgAGikAAAYTE0NC5ucHlQ
SwECLQMtAAAACAAAACEAsl0GiUABAACYAwAACAAAAAAAAAAAAAAAgAFekgAAYTE0NS5ucHlQSwECLQMtAAAACAAAACEABW7/geoA
AACYAwAACAAAAAAAAAAAAAAAgAHYkwAAYTE0Ni5ucHlQSwECLQMtAAAACAAAACEAWs4K6T8BAACYAwAACAAAAAAAAAAAAAAAgAH8
lAAAYTE0Ny5ucHlQSwECLQMtAAAACAAAACEA/0OdTOQBAACYAwAACAAAAAAAAAAAAAAAgAF1lgAAYTE0OC5ucHlQSwECLQMtAAAA
CAAAACEAFbXif6gAAACYAwAACAAAAAAAAAAAAAAAgAGTmAAAYTE0OS5ucHlQSwECLQMtAAAACAAAACEA4etNpC8BAABAAgAACAAA
AAAAAAAAAAAAgAF1mQAAYTE1MC5ucHlQSwECLQMtAAAACAAAACEAzDPWonAAAABAAgAACAAAAAAAAAAAAAAAgAHemgAAYTE1MS5u
cHlQSwECLQMtAAAACAAAACEAQRch6XkAAABAAgAACAAAAAAAAAAAAAAAgAGImwAAYTE1Mi5ucHlQSwECLQMtAAAACAAAACEAIVgE
CnAAAABAAgAACAAAAAAAAAAAAAAAgAE7nAAAYTE1My5ucHlQSwECLQMtAAAACAAAACEA4etNpC8BAABAAgAACAAAAAAAAAAAAAAA
gAHlnAAAYTE1NC5ucHlQSwECLQMtAAAACAAAACEAWM8slHEAAABAAgAACAAAAAAAAAAAAAAAgAFOngAAYTE1NS5ucHlQSwECLQMt
AAAACAAAACEAkBxYV6UBAABAAgAACAAAAAAAAAAAAAAAgAH5ngAAYTE1Ni5ucHlQSwECLQMtAAAACAAAACEAmdj593kAAABAAgAA
CAAAAAAAAAAAAAAAgAHYoAAAYTE1Ny5ucHlQSwECLQMtAAAACAAAACEAXad2MTABAABAAgAACAAAAAAAAAAAAAAAgAGLoQAAYTE1
OC5ucHlQSwECLQMtAAAACAAAACEAaAriMMgAAABAAgAACAAAAAAAAAAAAAAAgAH1ogAAYTE1OS5ucHlQSwECLQMtAAAACAAAACEA
vFI/lT8BAABAAgAACAAAAAAAAAAAAAAAgAH3owAAYTE2MC5ucHlQSwECLQMtAAAACAAAACEApPZQDHgAAABAAgAACAAAAAAAAAAA
AAAAgAFwpQAAYTE2MS5ucHlQSwECLQMtAAAACAAAACEAdj3nEJYBAABAAgAACAAAAAAAAAAAAAAAgAEipgAAYTE2Mi5ucHlQSwEC
LQMtAAAACAAAACEAXad2MTABAABAAgAACAAAAAAAAAAAAAAAgAHypwAAYTE2My5ucHlQSwECLQMtAAAACAAAACEAJ4c1ecgBAABA
AgAACAAAAAAAAAAAAAAAgAFcqQAAYTE2NC5ucHlQSwECLQMtAAAACAAAACEAy9M3SNcBAABAAgAACAAAAAAAAAAAAAAAgAFeqwAA
YTE2NS5ucHlQSwECLQMtAAAACAAAACEAqKbHN8gBAABAAgAACAAAAAAAAAAAAAAAgAFvrQAAYTE2Ni5ucHlQSwECLQMtAAAACAAA
ACEAYiZ7SXkAAABAAgAACAAAAAAAAAAAAAAAgAFxrwAAYTE2Ny5ucHlQSwECLQMtAAAACAAAACEAIZVgdYkAAABAAgAACAAAAAAA
AAAAAAAAgAEksAAAYTE2OC5ucHlQSwECLQMtAAAACAAAACEAcBLbAnAAAABAAgAACAAAAAAAAAAAAAAAgAHnsAAAYTE2OS5ucHlQ
SwECLQMtAAAACAAAACEAqmoY44MBAABAAgAACAAAAAAAAAAAAAAAgAGRsQAAYTE3MC5ucHlQSwECLQMtAAAACAAAACEA0kZFHoIA
AABAAgAACAAAAAAAAAAAAAAAgAFOswAAYTE3MS5ucHlQSwECLQMtAAAACAAAACEAqKbHN8gBAABAAgAACAAAAAAAAAAAAAAAgAEK
tAAAYTE3Mi5ucHlQSwECLQMtAAAACAAAACEARqtJOLYAAABAAgAACAAAAAAAAAAAAAAAgAEMtgAAYTE3My5ucHlQSwECLQMtAAAA
CAAAACEA1xk9XtkBAABAAgAACAAAAAAAAAAAAAAAgAH8tgAAYTE3NC5ucHlQSwECLQMtAAAACAAAACEAd5E38soAAABAAgAACAAA
AAAAAAAAAAAAgAEPuQAAYTE3NS5ucHlQSwECLQMtAAAACAAAACEAH9P671EBAABAAgAACAAAAAAAAAAAAAAAgAETugAAYTE3Ni5u
cHlQSwECLQMtAAAACAAAACEAE/UaU3YAAABAAgAACAAAAAAAAAAAAAAAgAGeuwAAYTE3Ny5ucHlQSwECLQMtAAAACAAAACEArNvY
cJEBAABAAgAACAAAAAAAAAAAAAAAgAFOvAAAYTE3OC5ucHlQSwECLQMtAAAACAAAACEAQ7UXmxABAABAAgAACAAAAAAAAAAAAAAA
gAEZvgAAYTE3OS5ucHlQSwECLQMtAAAACAAAACEAXDzUjLUBAABAAgAACAAAAAAAAAAAAAAAgAFjvwAAYTE4MC5ucHlQSwECLQMt
AAAACAAAACEA1xk9XtkBAABAAgAACAAAAAAAAAAAAAAAgAFSwQAAYTE4MS5ucHlQSwECLQMtAAAACAAAACEAf8okqQcBAABAAgAA
CAAAAAAAAAAAAAAAgAFlwwAAYTE4Mi5ucHlQSwECLQMtAAAACAAAACEAf8okqQcBAABAAgAACAAAAAAAAAAAAAAAgAGmxAAAYTE4
My5ucHlQSwECLQMtAAAACAAAACEAMX5n7WYBAABAAgAACAAAAAAAAAAAAAAAgAHnxQAAYTE4NC5ucHlQSwECLQMtAAAACAAAACEA
NtZy0LMAAABAAgAACAAAAAAAAAAAAAAAgAGHxwAAYTE4NS5ucHlQSwECLQMtAAAACAAAACEA2Hx3IWMBAABAAgAACAAAAAAAAAAA
AAAAgAF0yAAAYTE4Ni5ucHlQSwECLQMtAAAACAAAACEAZrISFGwBAABAAgAACAAAAAAAAAAAAAAAgAERygAAYTE4Ny5ucHlQSwEC
LQMtAAAACAAAACEAZ8IYU40BAABAAgAACAAAAAAAAAAAAAAAgAG3ywAAYTE4OC5ucHlQSwECLQMtAAAACAAAACEADcEfn4cBAABA
AgAACAAAAAAAAAAAAAAAgAF+zQAAYTE4OS5ucHlQSwECLQMtAAAACAAAACEAWJ4/yz0BAABAAgAACAAAAAAAAAAAAAAAgAE/zwAA
YTE5MC5ucHlQSwECLQMtAAAACAAAACEAt2GZX84AAABAAgAACAAAAAAAAAAAAAAAgAG20AAAYTE5MS5ucHlQSwECLQMtAAAACAAA
ACEAWJ4/yz0BAABAAgAACAAAAAAAAAAAAAAAgAG+0QAAYTE5Mi5ucHlQSwECLQMtAAAACAAAACEAT9AOEHIAAABAAgAACAAAAAAA
AAAAAAAAgAE10wAAYTE5My5ucHlQSwECLQMtAAAACAAAACEA0nFT21gBAABAAgAACAAAAAAAAAAAAAAAgAHh0wAAYTE5NC5ucHlQ
SwECLQMtAAAACAAAACEAVF4rCUcBAABAAgAACAAAAAAAAAAAAAAAgAFz1QAAYTE5NS5ucHlQSwECLQMtAAAACAAAACEA1NIpdsUB
AABAAgAACAAAAAAAAAAAAAAAgAH01gAAYTE5Ni5ucHlQSwECLQMtAAAACAAAACEAnnr87bMBAABAAgAACAAAAAAAAAAAAAAAgAHz
2AAAYTE5Ny5ucHlQSwECLQMtAAAACAAAACEA3gvdWYIAAABAAgAACAAAAAAAAAAAAAAAgAHg2gAAYTE5OC5ucHlQSwECLQMtAAAA
CAAAACEAjndZEn0AAABAAgAACAAAAAAAAAAAAAAAgAGc2wAAYTE5OS5ucHlQSwECLQMtAAAACAAAACEA2Yjd8N4AAABAAgAACAAA
AAAAAAAAAAAAgAFT3AAAYTIwMC5ucHlQSwECLQMtAAAACAAAACEA3gvdWYIAAABAAgAACAAAAAAAAAAAAAAAgAFr3QAAYTIwMS5u
cHlQSwECLQMtAAAACAAAACEASlU4V1IBAABAAgAACAAAAAAAAAAAAAAAgAEn3gAAYTIwMi5ucHlQSwECLQMtAAAACAAAACEA3/gr
koYAAABAAgAACAAAAAAAAAAAAAAAgAGz3wAAYTIwMy5ucHlQSwECLQMtAAAACAAAACEAPJJx5LABAABAAgAACAAAAAAAAAAAAAAA
gAFz4AAAYTIwNC5ucHlQSwECLQMtAAAACAAAACEAbkQvbt0AAABAAgAACAAAAAAAAAAAAAAAgAFd4gAAYTIwNS5ucHlQSwECLQMt
AAAACAAAACEACtBKKYkBAABAAgAACAAAAAAAAAAAAAAAgAF04wAAYTIwNi5ucHlQSwECLQMtAAAACAAAACEAnLyhbsYAAABAAgAA
CAAAAAAAAAAAAAAAgAE35QAAYTIwNy5ucHlQSwECLQMtAAAACAAAACEARkwaC2ABAABAAgAACAAAAAAAAAAAAAAAgAE35gAAYTIw
OC5ucHlQSwECLQMtAAAACAAAACEAhDhN9XgAAABAAgAACAAAAAAAAAAAAAAAgAHR5wAAYTIwOS5ucHlQSwECLQMtAAAACAAAACEA
CtBKKYkBAABAAgAACAAAAAAAAAAAAAAAgAGD6AAAYTIxMC5ucHlQSwECLQMtAAAACAAAACEABVQVUC0BAABAAgAACAAAAAAAAAAA
AAAAgAFG6gAAYTIxMS5ucHlQSwECLQMtAAAACAAAACEAEz/jK5oBAABAAgAACAAAAAAAAAAAAAAAgAGt6wAAYTIxMi5ucHlQSwEC
LQMtAAAACAAAACEA1tlKrrUBAABAAgAACAAAAAAAAAAAAAAAgAGB7QAAYTIxMy5ucHlQSwECLQMtAAAACAAAACEA4OObu14BAABA
AgAACAAAAAAAAAAAAAAAgAFw7wAAYTIxNC5ucHlQSwECLQMtAAAACAAAACEAzmnrUP0AAABAAgAACAAAAAAAAAAAAAAAgAEI8QAA
YTIxNS5ucHlQSwECLQMtAAAACAAAACEAlyx/ZGgBAABAAgAACAAAAAAAAAAAAAAAgAE/8gAAYTIxNi5ucHlQSwECLQMtAAAACAAA
ACEAt43wlokAAABAAgAACAAAAAAAAAAAAAAAgAHh8wAAYTIxNy5ucHlQSwECLQMtAAAACAAAACEAgyFpG2IBAABAAgAACAAAAAAA
AAAAAAAAgAGk9AAAYTIxOC5ucHlQSwECLQMtAAAACAAAACEA4OObu14BAABAAgAACAAAAAAAAAAAAAAAgAFA9gAAYTIxOS5ucHlQ
SwECLQMtAAAACAAAACEANnd+48gBAABAAgAACAAAAAAAAAAAAAAAgAHY9wAAYTIyMC5ucHlQSwECLQMtAAAACAAAACEAmMOhO84B
AABAAgAACAAAAAAAAAAAAAAAgAHa+QAAYTIyMS5ucHlQSwECLQMtAAAACAAAACEAg3rCs6IBAABAAgAACAAAAAAAAAAAAAAAgAHi
+wAAYTIyMi5ucHlQSwECLQMtAAAACAAAACEA4EV4dc8AAABAAgAACAAAAAAAAAAAAAAAgAG+/QAAYTIyMy5ucHlQSwECLQMtAAAA
CAAAACEA0i/FuWABAABAAgAACAAAAAAAAAAAAAAAgAHH/gAAYTIyNC5ucHlQSwECLQMtAAAACAAAACEAnjVeoZMAAABAAgAACAAA
AAAAAAAAAAAAgAFhAAEAYTIyNS5ucHlQSwECLQMtAAAACAAAACEALij9sJoBAABAAgAACAAAAAAAAAAAAAAAgAEuAQEAYTIyNi5u
cHlQSwECLQMtAAAACAAAACEAP6iBaWEBAABAAgAACAAAAAAAAAAAAAAAgAECAwEAYTIyNy5ucHlQSwECLQMtAAAACAAAACEAg3rC
s6IBAABAAgAACAAAAAAAAAAAAAAAgAGdBAEAYTIyOC5ucHlQSwECLQMtAAAACAAAACEAsYCXBb8BAABAAgAACAAAAAAAAAAAAAAA
gAF5BgEAYTIyOS5ucHlQSwECLQMtAAAACAAAACEAzNTltnkAAABAAgAACAAAAAAAAAAAAAAAgAFyCAEAYTIzMC5ucHlQSwECLQMt
AAAACAAAACEAerkrcNEAAABAAgAACAAAAAAAAAAAAAAAgAElCQEAYTIzMS5ucHlQSwECLQMtAAAACAAAACEAsZSRXJEAAABAAgAA
CAAAAAAAAAAAAAAAgAEwCgEAYTIzMi5ucHlQSwECLQMtAAAACAAAACEAMoLvZ3wAAABAAgAACAAAAAAAAAAAAAAAgAH7CgEAYTIz
My5ucHlQSwECLQMtAAAACAAAACEAilKt0qYBAABAAgAACAAAAAAAAAAAAAAAgAGxCwEAYTIzNC5ucHlQSwECLQMtAAAACAAAACEA
Xfd6Ek4BAABAAgAACAAAAAAAAAAAAAAAgAGRDQEAYTIzNS5ucHlQSwECLQMtAAAACAAAACEA7fYBaNsBAABAAgAACAAAAAAAAAAA
AAAAgAEZDwEAYTIzNi5ucHlQSwECLQMtAAAACAAAACEAk2ESl9oBAABAAgAACAAAAAAAAAAAAAAAgAEuEQEAYTIzNy5ucHlQSwEC
LQMtAAAACAAAACEA731wYhoBAABAAgAACAAAAAAAAAAAAAAAgAFCEwEAYTIzOC5ucHlQSwECLQMtAAAACAAAACEAk9b5VmkBAABA
AgAACAAAAAAAAAAAAAAAgAGWFAEAYTIzOS5ucHlQSwECLQMtAAAACAAAACEAArxAi5EAAAAwAgAACAAAAAAAAAAAAAAAgAE5FgEA
YTI0MC5ucHlQSwECLQMtAAAACAAAACEApEbjKdoAAAAwAgAACAAAAAAAAAAAAAAAgAEEFwEAYTI0MS5ucHlQSwECLQMtAAAACAAA
ACEA67XcvG0AAAAwAgAACAAAAAAAAAAAAAAAgAEYGAEAYTI0Mi5ucHlQSwECLQMtAAAACAAAACEAerhwvncAAAAwAgAACAAAAAAA
AAAAAAAAgAG/GAEAYTI0My5ucHlQSwECLQMtAAAACAAAACEAheEZJB8BAAAwAgAACAAAAAAAAAAAAAAAgAFwGQEAYTI0NC5ucHlQ
SwECLQMtAAAACAAAACEADFwby6YAAAAwAgAACAAAAAAAAAAAAAAAgAHJGgEAYTI0NS5ucHlQSwECLQMtAAAACAAAACEA+SP9CtsA
AAAwAgAACAAAAAAAAAAAAAAAgAGpGwEAYTI0Ni5ucHlQSwECLQMtAAAACAAAACEAYzVO0NEAAAAwAgAACAAAAAAAAAAAAAAAgAG+
HAEAYTI0Ny5ucHlQSwECLQMtAAAACAAAACEAfIUB9t4AAAAwAgAACAAAAAAAAAAAAAAAgAHJHQEAYTI0OC5ucHlQSwECLQMtAAAA
CAAAACEAagTGXhQBAAAwAgAACAAAAAAAAAAAAAAAgAHhHgEAYTI0OS5ucHlQSwECLQMtAAAACAAAACEA8Lk4BZAAAAAwAgAACAAA
AAAAAAAAAAAAgAEvIAEAYTI1MC5ucHlQSwECLQMtAAAACAAAACEAFQvbJt0AAAAwAgAACAAAAAAAAAAAAAAAgAH5IAEAYTI1MS5u
cHlQSwECLQMtAAAACAAAACEAlVzqyW4AAAAwAgAACAAAAAAAAAAAAAAAgAEQIgEAYTI1Mi5ucHlQSwECLQMtAAAACAAAACEA2jUc
43YAAAAwAgAACAAAAAAAAAAAAAAAgAG4IgEAYTI1My5ucHlQSwECLQMtAAAACAAAACEAQ3+XcycBAAAwAgAACAAAAAAAAAAAAAAA
gAFoIwEAYTI1NC5ucHlQSwECLQMtAAAACAAAACEAjyoeBakAAAAwAgAACAAAAAAAAAAAAAAAgAHJJAEAYTI1NS5ucHlQSwECLQMt
AAAACAAAACEAcq+3B+QAAAAwAgAACAAAAAAAAAAAAAAAgAGsJQEAYTI1Ni5ucHlQSwECLQMtAAAACAAAACEAgdIeVdQAAAAwAgAA
CAAAAAAAAAAAAAAAgAHKJgEAYTI1Ny5ucHlQSwECLQMtAAAACAAAACEApzu+QdQAAAAwAgAACAAAAAAAAAAAAAAAgAHYJwEAYTI1
OC5ucHlQSwECLQMtAAAACAAAACEATHfYCwIBAAAwAgAACAAAAAAAAAAAAAAAgAHmKAEAYTI1OS5ucHlQSwECLQMtAAAACAAAACEA
7ZvFVgEBAACYAQAACAAAAAAAAAAAAAAAgAEiKgEAYTI2MC5ucHlQSwECLQMtAAAACAAAACEA0ZuvIoIAAACYAQAACAAAAAAAAAAA
AAAAgAFdKwEAYTI2MS5ucHlQSwECLQMtAAAACAAAACEAY061WmUBAACYAQAACAAAAAAAAAAAAAAAgAEZLAEAYTI2Mi5ucHlQSwEC
LQMtAAAACAAAACEAMfa7PCQBAACYAQAACAAAAAAAAAAAAAAAgAG4LQEAYTI2My5ucHlQSwECLQMtAAAACAAAACEA2qHCOGgBAACY
AQAACAAAAAAAAAAAAAAAgAEWLwEAYTI2NC5ucHlQSwECLQMtAAAACAAAACEAgej8OmUBAACYAQAACAAAAAAAAAAAAAAAgAG4MAEA
YTI2NS5ucHlQSwECLQMtAAAACAAAACEAbpRVSjYBAACYAQAACAAAAAAAAAAAAAAAgAFXMgEAYTI2Ni5ucHlQSwECLQMtAAAACAAA
ACEApJl1GjwBAACYAQAACAAAAAAAAAAAAAAAgAHHMwEAYTI2Ny5ucHlQSwECLQMtAAAACAAAACEAo2c7sX4AAACYAQAACAAAAAAA
AAAAAAAAgAE9NQEAYTI2OC5ucHlQSwECLQMtAAAACAAAACEAQK2gEmcBAACYAQAACAAAAAAAAAAAAAAAgAH1NQEAYTI2OS5ucHlQ
SwECLQMtAAAACAAAACEApAr+2K4AAACYAQAACAAAAAAAAAAAAAAAgAGWNwEAYTI3MC5ucHlQSwECLQMtAAAACAAAACEAz4rxvWcB
AACYAQAACAAAAAAAAAAAAAAAgAF+OAEAYTI3MS5ucHlQSwECLQMtAAAACAAAACEAP9PDvMsAAACYAQAACAAAAAAAAAAAAAAAgAEf
OgEAYTI3Mi5ucHlQSwECLQMtAAAACAAAACEAghBxcOYAAACYAQAACAAAAAAAAAAAAAAAgAEkOwEAYTI3My5ucHlQSwECLQMtAAAA
CAAAACEAqPkW+A4BAACYAQAACAAAAAAAAAAAAAAAgAFEPAEAYTI3NC5ucHlQSwECLQMtAAAACAAAACEAEkbKpJMAAACYAQAACAAA
AAAAAAAAAAAAgAGMPQEAYTI3NS5ucHlQSwECLQMtAAAACAAAACEAWONIjGcBAACYAQAACAAAAAAAAAAAAAAAgAFZPgEAYTI3Ni5u
cHlQSwECLQMtAAAACAAAACEAV1nS6EgBAACYAQAACAAAAAAAAAAAAAAAgAH6PwEAYTI3Ny5ucHlQSwECLQMtAAAACAAAACEAZ7Gx
D2cBAACYAQAACAAAAAAAAAAAAAAAgAF8QQEAYTI3OC5ucHlQSwECLQMtAAAACAAAACEApA+FZGcBAACYAQAACAAAAAAAAAAAAAAA
gAEdQwEAYTI3OS5ucHlQSwECLQMtAAAACAAAACEABQe/UcIAAAAgAQAACAAAAAAAAAAAAAAAgAG+RAEAYTI4MC5ucHlQSwECLQMt
AAAACAAAACEABaVDCLoAAAAgAQAACAAAAAAAAAAAAAAAgAG6RQEAYTI4MS5ucHlQSwECLQMtAAAACAAAACEAewOPjYcAAAAgAQAA
CAAAAAAAAAAAAAAAgAGuRgEAYTI4Mi5ucHlQSwECLQMtAAAACAAAACEAvaomEdAAAAAgAQAACAAAAAAAAAAAAAAAgAFvRwEAYTI4
My5ucHlQSwECLQMtAAAACAAAACEA5ZnXo9YAAAAgAQAACAAAAAAAAAAAAAAAgAF5SAEAYTI4NC5ucHlQSwECLQMtAAAACAAAACEA
xlPkBt4AAAAgAQAACAAAAAAAAAAAAAAAgAGJSQEAYTI4NS5ucHlQSwECLQMtAAAACAAAACEANx3Po84AAAAgAQAACAAAAAAAAAAA
AAAAgAGhSgEAYTI4Ni5ucHlQSwECLQMtAAAACAAAACEAtsb0+3wAAAAgAQAACAAAAAAAAAAAAAAAgAGpSwEAYTI4Ny5ucHlQSwEC
LQMtAAAACAAAACEAl5R9msIAAAAgAQAACAAAAAAAAAAAAAAAgAFfTAEAYTI4OC5ucHlQSwECLQMtAAAACAAAACEA3W5S3LIAAAAg
AQAACAAAAAAAAAAAAAAAgAFbTQEAYTI4OS5ucHlQSwECLQMtAAAACAAAACEArEDBA9AAAAAgAQAACAAAAAAAAAAAAAAAgAFHTgEA
YTI5MC5ucHlQSwECLQMtAAAACAAAACEA5sPsi6cAAAAgAQAACAAAAAAAAAAAAAAAgAFRTwEAYTI5MS5ucHlQSwECLQMtAAAACAAA
ACEAT8EiQOAAAAAgAQAACAAAAAAAAAAAAAAAgAEyUAEAYTI5Mi5ucHlQSwECLQMtAAAACAAAACEA7vhhEogAAAAgAQAACAAAAAAA
AAAAAAAAgAFMUQEAYTI5My5ucHlQSwECLQMtAAAACAAAACEArgJlI7cAAAAgAQAACAAAAAAAAAAAAAAAgAEOUgEAYTI5NC5ucHlQ
SwECLQMtAAAACAAAACEA7k5rDXwAAAAgAQAACAAAAAAAAAAAAAAAgAH/UgEAYTI5NS5ucHlQSwECLQMtAAAACAAAACEAUepkHm8A
AABAAQAACAAAAAAAAAAAAAAAgAG1UwEAYTI5Ni5ucHlQSwECLQMtAAAACAAAACEAcK1V3qYAAABAAQAACAAAAAAAAAAAAAAAgAFe
VAEAYTI5Ny5ucHlQSwECLQMtAAAACAAAACEAz3XsVJgAAABAAQAACAAAAAAAAAAAAAAAgAE+VQEAYTI5OC5ucHlQSwECLQMtAAAA
CAAAACEAFbE9+uUAAABAAQAACAAAAAAAAAAAAAAAgAEQVgEAYTI5OS5ucHlQSwECLQMtAAAACAAAACEABzmk0ZoAAABAAQAACAAA
AAAAAAAAAAAAgAEvVwEAYTMwMC5ucHlQSwECLQMtAAAACAAAACEAahp6sIIAAABAAQAACAAAAAAAAAAAAAAAgAEDWAEAYTMwMS5u
cHlQSwECLQMtAAAACAAAACEA5KbELnsAAABAAQAACAAAAAAAAAAAAAAAgAG/WAEAYTMwMi5ucHlQSwECLQMtAAAACAAAACEAdaMU
JH0AAABAAQAACAAAAAAAAAAAAAAAgAF0WQEAYTMwMy5ucHlQSwECLQMtAAAACAAAACEAMDz7RbYAAABAAQAACAAAAAAAAAAAAAAA
gAErWgEAYTMwNC5ucHlQSwECLQMtAAAACAAAACEAaEDGJYAAAABAAQAACAAAAAAAAAAAAAAAgAEbWwEAYTMwNS5ucHlQSwECLQMt
AAAACAAAACEAA85Px9MAAABAAQAACAAAAAAAAAAAAAAAgAHVWwEAYTMwNi5ucHlQSwECLQMtAAAACAAAACEAbdXnb+0AAABAAQAA
CAAAAAAAAAAAAAAAgAHiXAEAYTMwNy5ucHlQSwECLQMtAAAACAAAACEAWQ2n8ZIAAABAAQAACAAAAAAAAAAAAAAAgAEJXgEAYTMw
OC5ucHlQSwECLQMtAAAACAAAACEAuOKxjH4AAABAAQAACAAAAAAAAAAAAAAAgAHVXgEAYTMwOS5ucHlQSwECLQMtAAAACAAAACEA
vA+OjnwAAABAAQAACAAAAAAAAAAAAAAAgAGNXwEAYTMxMC5ucHlQSwECLQMtAAAACAAAACEAsR4mvbMAAABAAQAACAAAAAAAAAAA
AAAAgAFDYAEAYTMxMS5ucHlQSwECLQMtAAAACAAAACEAwY4BW/kCAABgBQAACAAAAAAAAAAAAAAAgAEwYQEAYTMxMi5ucHlQSwEC
LQMtAAAACAAAACEArKwuPg4DAABgBQAACAAAAAAAAAAAAAAAgAFjZAEAYTMxMy5ucHlQSwECLQMtAAAACAAAACEAXW1326QBAABg
BQAACAAAAAAAAAAAAAAAgAGrZwEAYTMxNC5ucHlQSwECLQMtAAAACAAAACEAwP6HpTUBAABgBQAACAAAAAAAAAAAAAAAgAGJaQEA
YTMxNS5ucHlQSwECLQMtAAAACAAAACEAg7+8jM8DAABgBQAACAAAAAAAAAAAAAAAgAH4agEAYTMxNi5ucHlQSwECLQMtAAAACAAA
ACEASntqrC8CAABgBQAACAAAAAAAAAAAAAAAgAEBbwEAYTMxNy5ucHlQSwECLQMtAAAACAAAACEAvkAhCuQCAABgBQAACAAAAAAA
AAAAAAAAgAFqcQEAYTMxOC5ucHlQSwECLQMtAAAACAAAACEA5D1u7fMCAABgBQAACAAAAAAAAAAAAAAAgAGIdAEAYTMxOS5ucHlQ
SwECLQMtAAAACAAAACEAVxXN9PoCAABgBQAACAAAAAAAAAAAAAAAgAG1dwEAYTMyMC5ucHlQSwECLQMtAAAACAAAACEAqnCcQqoB
AABgBQAACAAAAAAAAAAAAAAAgAHpegEAYTMyMS5ucHlQSwECLQMtAAAACAAAACEAcFKGIM8BAABgBQAACAAAAAAAAAAAAAAAgAHN
fAEAYTMyMi5ucHlQSwECLQMtAAAACAAAACEAYsJT514CAABgBQAACAAAAAAAAAAAAAAAgAHWfgEAYTMyMy5ucHlQSwECLQMtAAAA
CAAAACEAIjvbo+AAAABgBQAACAAAAAAAAAAAAAAAgAFugQEAYTMyNC5ucHlQSwECLQMtAAAACAAAACEA4gKpJAUDAABgBQAACAAA
AAAAAAAAAAAAgAGIggEAYTMyNS5ucHlQSwECLQMtAAAACAAAACEAEmJknbADAABgBQAACAAAAAAAAAAAAAAAgAHHhQEAYTMyNi5u
cHlQSwECLQMtAAAACAAAACEAo+TROaEEAABgBQAACAAAAAAAAAAAAAAAgAGxiQEAYTMyNy5ucHlQSwECLQMtAAAACAAAACEApC3x
zSkCAABgBQAACAAAAAAAAAAAAAAAgAGMjgEAYTMyOC5ucHlQSwECLQMtAAAACAAAACEA5WTpUvUBAABgBQAACAAAAAAAAAAAAAAA
gAHvkAEAYTMyOS5ucHlQSwECLQMtAAAACAAAACEANViFNXQCAABgBQAACAAAAAAAAAAAAAAAgAEekwEAYTMzMC5ucHlQSwECLQMt
AAAACAAAACEAqskhiQMBAABgBQAACAAAAAAAAAAAAAAAgAHMlQEAYTMzMS5ucHlQSwECLQMtAAAACAAAACEA/wIVXVYAAADAAgAA
CAAAAAAAAAAAAAAAgAEJlwEAYTMzMi5ucHlQSwECLQMtAAAACAAAACEA/wIVXVYAAADAAgAACAAAAAAAAAAAAAAAgAGZlwEAYTMz
My5ucHlQSwECLQMtAAAACAAAACEA/wIVXVYAAADAAgAACAAAAAAAAAAAAAAAgAEpmAEAYTMzNC5ucHlQSwECLQMtAAAACAAAACEA
/wIVXVYAAADAAgAACAAAAAAAAAAAAAAAgAG5mAEAYTMzNS5ucHlQSwECLQMtAAAACAAAACEA/wIVXVYAAADAAgAACAAAAAAAAAAA
AAAAgAFJmQEAYTMzNi5ucHlQSwECLQMtAAAACAAAACEA/wIVXVYAAADAAgAACAAAAAAAAAAAAAAAgAHZmQEAYTMzNy5ucHlQSwEC
LQMtAAAACAAAACEA/wIVXVYAAADAAgAACAAAAAAAAAAAAAAAgAFpmgEAYTMzOC5ucHlQSwECLQMtAAAACAAAACEA/wIVXVYAAADA
AgAACAAAAAAAAAAAAAAAgAH5mgEAYTMzOS5ucHlQSwECLQMtAAAACAAAACEAmLhT9KMBAADAAgAACAAAAAAAAAAAAAAAgAGJmwEA
YTM0MC5ucHlQSwECLQMtAAAACAAAACEAw0idsGcBAADAAgAACAAAAAAAAAAAAAAAgAFmnQEAYTM0MS5ucHlQSwECLQMtAAAACAAA
ACEAXRFV6Y8BAADAAgAACAAAAAAAAAAAAAAAgAEHnwEAYTM0Mi5ucHlQSwECLQMtAAAACAAAACEA3nONbF4BAADAAgAACAAAAAAA
AAAAAAAAgAHQoAEAYTM0My5ucHlQSwECLQMtAAAACAAAACEAZpS/ZPkBAADAAgAACAAAAAAAAAAAAAAAgAFoogEAYTM0NC5ucHlQ
SwECLQMtAAAACAAAACEAmLhT9KMBAADAAgAACAAAAAAAAAAAAAAAgAGbpAEAYTM0NS5ucHlQSwECLQMtAAAACAAAACEAj9DyCfEB
AADAAgAACAAAAAAAAAAAAAAAgAF4pgEAYTM0Ni5ucHlQSwECLQMtAAAACAAAACEATS7q7AACAADAAgAACAAAAAAAAAAAAAAAgAGj
qAEAYTM0Ny5ucHlQSwECLQMtAAAACAAAACEADDzViP0AAADAAgAACAAAAAAAAAAAAAAAgAHdqgEAYTM1Ni5ucHlQSwECLQMtAAAA
CAAAACEAzRDoBbcAAADAAgAACAAAAAAAAAAAAAAAgAEUrAEAYTM1Ny5ucHlQSwECLQMtAAAACAAAACEA6yu9Tt4AAADAAgAACAAA
AAAAAAAAAAAAgAEFrQEAYTM1OC5ucHlQSwECLQMtAAAACAAAACEAZlRCGpwAAADAAgAACAAAAAAAAAAAAAAAgAEdrgEAYTM1OS5u
cHlQSwECLQMtAAAACAAAACEASH6WP0wBAADAAgAACAAAAAAAAAAAAAAAgAHzrgEAYTM2MC5ucHlQSwECLQMtAAAACAAAACEAnATQ
WrYAAADAAgAACAAAAAAAAAAAAAAAgAF5sAEAYTM2MS5ucHlQSwECLQMtAAAACAAAACEAL8z3mMIBAADAAgAACAAAAAAAAAAAAAAA
gAFpsQEAYTM2Mi5ucHlQSwECLQMtAAAACAAAACEADDzViP0AAADAAgAACAAAAAAAAAAAAAAAgAFlswEAYTM2My5ucHlQSwECLQMt
AAAACAAAACEAqj5zJxIBAADAAgAACAAAAAAAAAAAAAAAgAGctAEAYTM2NC5ucHlQSwECLQMtAAAACAAAACEAqj5zJxIBAADAAgAA
CAAAAAAAAAAAAAAAgAHotQEAYTM2NS5ucHlQSwECLQMtAAAACAAAACEA0pQvBEYBAADAAgAACAAAAAAAAAAAAAAAgAE0twEAYTM2
Ni5ucHlQSwECLQMtAAAACAAAACEAvNv05OYAAADAAgAACAAAAAAAAAAAAAAAgAG0uAEAYTM2Ny5ucHlQSwECLQMtAAAACAAAACEA
66JCaW4BAADAAgAACAAAAAAAAAAAAAAAgAHUuQEAYTM2OC5ucHlQSwECLQMtAAAACAAAACEA+tgAGisBAADAAgAACAAAAAAAAAAA
AAAAgAF8uwEAYTM2OS5ucHlQSwECLQMtAAAACAAAACEA52l2hPYBAADAAgAACAAAAAAAAAAAAAAAgAHhvAEAYTM3MC5ucHlQSwEC
LQMtAAAACAAAACEAwDewQGwBAADAAgAACAAAAAAAAAAAAAAAgAERvwEAYTM3MS5ucHlQSwECLQMtAAAACAAAACEAsAgPLnABAADA
AgAACAAAAAAAAAAAAAAAgAG3wAEAYTM3Mi5ucHlQSwECLQMtAAAACAAAACEA3WO8VUwBAADAAgAACAAAAAAAAAAAAAAAgAFhwgEA
YTM3My5ucHlQSwECLQMtAAAACAAAACEAsAgPLnABAADAAgAACAAAAAAAAAAAAAAAgAHnwwEAYTM3NC5ucHlQSwECLQMtAAAACAAA
ACEADRwlICMBAADAAgAACAAAAAAAAAAAAAAAgAGRxQEAYTM3NS5ucHlQSwECLQMtAAAACAAAACEAzjtT+rkBAADAAgAACAAAAAAA
AAAAAAAAgAHuxgEAYTM3Ni5ucHlQSwECLQMtAAAACAAAACEAbvb7g20BAADAAgAACAAAAAAAAAAAAAAAgAHhyAEAYTM3Ny5ucHlQ
SwECLQMtAAAACAAAACEAaWM1/vEBAADAAgAACAAAAAAAAAAAAAAAgAGIygEAYTM3OC5ucHlQSwECLQMtAAAACAAAACEAMcZb9NAB
AADAAgAACAAAAAAAAAAAAAAAgAGzzAEAYTM3OS5ucHlQSwECLQMtAAAACAAAACEAYnkoIdoAAADAAgAACAAAAAAAAAAAAAAAgAG9
zgEAYTM4MC5ucHlQSwECLQMtAAAACAAAACEA4cUPYvcAAADAAgAACAAAAAAAAAAAAAAAgAHRzwEAYTM4MS5ucHlQSwECLQMtAAAA
CAAAACEAtyd72SIBAADAAgAACAAAAAAAAAAAAAAAgAEC0QEAYTM4Mi5ucHlQSwECLQMtAAAACAAAACEAYnkoIdoAAADAAgAACAAA
AAAAAAAAAAAAgAFe0gEAYTM4My5ucHlQSwECLQMtAAAACAAAACEAPpuXWscBAADAAgAACAAAAAAAAAAAAAAAgAFy0wEAYTM4NC5u
cHlQSwECLQMtAAAACAAAACEAJal44/QAAADAAgAACAAAAAAAAAAAAAAAgAFz1QEAYTM4NS5ucHlQSwECLQMtAAAACAAAACEATlnX
k/kBAADAAgAACAAAAAAAAAAAAAAAgAGh1gEAYTM4Ni5ucHlQSwECLQMtAAAACAAAACEAh8VFznIBAADAAgAACAAAAAAAAAAAAAAA
gAHU2AEAYTM4Ny5ucHlQSwECLQMtAAAACAAAACEAzk48PVUAAADAAgAACAAAAAAAAAAAAAAAgAGA2gEAYTM4OC5ucHlQSwECLQMt
AAAACAAAACEAzk48PVUAAADAAgAACAAAAAAAAAAAAAAAgAEP2wEAYTM4OS5ucHlQSwECLQMtAAAACAAAACEAzk48PVUAAADAAgAA
CAAAAAAAAAAAAAAAgAGe2wEAYTM5MC5ucHlQSwECLQMtAAAACAAAACEAzk48PVUAAADAAgAACAAAAAAAAAAAAAAAgAEt3AEAYTM5
MS5ucHlQSwECLQMtAAAACAAAACEAzk48PVUAAADAAgAACAAAAAAAAAAAAAAAgAG83AEAYTM5Mi5ucHlQSwECLQMtAAAACAAAACEA
zk48PVUAAADAAgAACAAAAAAAAAAAAAAAgAFL3QEAYTM5My5ucHlQSwECLQMtAAAACAAAACEAzk48PVUAAADAAgAACAAAAAAAAAAA
AAAAgAHa3QEAYTM5NC5ucHlQSwECLQMtAAAACAAAACEAzk48PVUAAADAAgAACAAAAAAAAAAAAAAAgAFp3gEAYTM5NS5ucHlQSwEC
LQMtAAAACAAAACEASxVeHeQAAADAAgAACAAAAAAAAAAAAAAAgAH43gEAYTM5Ni5ucHlQSwECLQMtAAAACAAAACEAm88ejN0AAADA
AgAACAAAAAAAAAAAAAAAgAEW4AEAYTM5Ny5ucHlQSwECLQMtAAAACAAAACEA52bXFfcAAADAAgAACAAAAAAAAAAAAAAAgAEt4QEA
YTM5OC5ucHlQSwECLQMtAAAACAAAACEAcfVfu7sAAADAAgAACAAAAAAAAAAAAAAAgAFe4gEAYTM5OS5ucHlQSwECLQMtAAAACAAA
ACEA+i3ZRnEBAADAAgAACAAAAAAAAAAAAAAAgAFT4wEAYTQwMC5ucHlQSwECLQMtAAAACAAAACEASxVeHeQAAADAAgAACAAAAAAA
AAAAAAAAgAH+5AEAYTQwMS5ucHlQSwECLQMtAAAACAAAACEAntu4xKEBAADAAgAACAAAAAAAAAAAAAAAgAEc5gEAYTQwMi5ucHlQ
SwECLQMtAAAACAAAACEAZbd/HSIBAADAAgAACAAAAAAAAAAAAAAAgAH35wEAYTQwMy5ucHlQSwECLQMtAAAACAAAACEA1KMrlxAC
AADAAgAACAAAAAAAAAAAAAAAgAFT6QEAYTQwNC5ucHlQSwECLQMtAAAACAAAACEAZ69PnRABAADAAgAACAAAAAAAAAAAAAAAgAGd
6wEAYTQwNS5ucHlQSwECLQMtAAAACAAAACEAmMNjlnYBAADAAgAACAAAAAAAAAAAAAAAgAHn7AEAYTQwNi5ucHlQSwECLQMtAAAA
CAAAACEAIDI+ltQAAADAAgAACAAAAAAAAAAAAAAAgAGX7gEAYTQwNy5ucHlQSwECLQMtAAAACAAAACEAOAjQM88BAADAAgAACAAA
AAAAAAAAAAAAgAGl7wEAYTQwOC5ucHlQSwECLQMtAAAACAAAACEA7RW22kQBAADAAgAACAAAAAAAAAAAAAAAgAGu8QEAYTQwOS5u
cHlQSwECLQMtAAAACAAAACEA1KMrlxACAADAAgAACAAAAAAAAAAAAAAAgAEs8wEAYTQxMC5ucHlQSwECLQMtAAAACAAAACEAsh1p
fo4BAADAAgAACAAAAAAAAAAAAAAAgAF29QEAYTQxMS5ucHlQSwECLQMtAAAACAAAACEA/wIVXVYAAADAAgAACAAAAAAAAAAAAAAA
gAE+9wEAYTQxMi5ucHlQSwECLQMtAAAACAAAACEArOe/e24BAADAAgAACAAAAAAAAAAAAAAAgAHO9wEAYTQxMy5ucHlQSwECLQMt
AAAACAAAACEA7VO/ipwAAADAAgAACAAAAAAAAAAAAAAAgAF2+QEAYTQxNS5ucHlQSwECLQMtAAAACAAAACEAj09d9WkBAADAAgAA
CAAAAAAAAAAAAAAAgAFM+gEAYTQxNi5ucHlQSwECLQMtAAAACAAAACEAFTms0m4BAADAAgAACAAAAAAAAAAAAAAAgAHv+wEAYTQx
Ny5ucHlQSwECLQMtAAAACAAAACEA3mkr5fIBAADAAgAACAAAAAAAAAAAAAAAgAGX/QEAYTQxOC5ucHlQSwECLQMtAAAACAAAACEA
zk48PVUAAADAAgAACAAAAAAAAAAAAAAAgAHD/wEAYTQxOS5ucHlQSwECLQMtAAAACAAAACEAWREL7OgAAADAAgAACAAAAAAAAAAA
AAAAgAFSAAIAYTQyMC5ucHlQSwECLQMtAAAACAAAACEARh+Rf3gBAADAAgAACAAAAAAAAAAAAAAAgAF0AQIAYTQyMS5ucHlQSwEC
LQMtAAAACAAAACEA/8lpN5UAAACgAQAACAAAAAAAAAAAAAAAgAEmAwIAYTQyMi5ucHlQSwECLQMtAAAACAAAACEARwbqf6EAAACg
AQAACAAAAAAAAAAAAAAAgAH1AwIAYTQyMy5ucHlQSwECLQMtAAAACAAAACEAmBfwgrMAAACgAQAACAAAAAAAAAAAAAAAgAHQBAIA
YTQyNC5ucHlQSwECLQMtAAAACAAAACEAoRX0qdgAAACgAQAACAAAAAAAAAAAAAAAgAG9BQIAYTQyNS5ucHlQSwECLQMtAAAACAAA
ACEAZzJhDQkBAACgAQAACAAAAAAAAAAAAAAAgAHPBgIAYTQyNi5ucHlQSwECLQMtAAAACAAAACEAsdXHQ9EAAACgAQAACAAAAAAA
AAAAAAAAgAESCAIAYTQyNy5ucHlQSwECLQMtAAAACAAAACEA26N1IsYAAACgAQAACAAAAAAAAAAAAAAAgAEdCQIAYTQyOC5ucHlQ
SwECLQMtAAAACAAAACEAc99zCp8AAACgAQAACAAAAAAAAAAAAAAAgAEdCgIAYTQyOS5ucHlQSwECLQMtAAAACAAAACEATHcf8PEA
AACgAQAACAAAAAAAAAAAAAAAgAH2CgIAYTQzMC5ucHlQSwECLQMtAAAACAAAACEArUnOqrgAAACgAQAACAAAAAAAAAAAAAAAgAEh
DAIAYTQzMS5ucHlQSwECLQMtAAAACAAAACEA1ydU6wUBAACgAQAACAAAAAAAAAAAAAAAgAETDQIAYTQzMi5ucHlQSwECLQMtAAAA
CAAAACEA1NlmxaEAAACgAQAACAAAAAAAAAAAAAAAgAFSDgIAYTQzMy5ucHlQSwECLQMtAAAACAAAACEAZ3i1zaAAAACgAQAACAAA
AAAAAAAAAAAAgAEtDwIAYTQzNC5ucHlQSwECLQMtAAAACAAAACEACiFZRYwAAACgAQAACAAAAAAAAAAAAAAAgAEHEAIAYTQzNS5u
cHlQSwECLQMtAAAACAAAACEAMv1FeMEAAACgAQAACAAAAAAAAAAAAAAAgAHNEAIAYTQzNi5ucHlQSwECLQMtAAAACAAAACEAgp0W
LRIBAACgAQAACAAAAAAAAAAAAAAAgAHIEQIAYTQzNy5ucHlQSwECLQMtAAAACAAAACEAMff3/LoAAACgAQAACAAAAAAAAAAAAAAA
gAEUEwIAYTQzOC5ucHlQSwECLQMtAAAACAAAACEAxGO1JysBAACgAQAACAAAAAAAAAAAAAAAgAEIFAIAYTQzOS5ucHlQSwECLQMt
AAAACAAAACEA6jTq+MIAAACgAQAACAAAAAAAAAAAAAAAgAFtFQIAYTQ0MC5ucHlQSwECLQMtAAAACAAAACEANkyPJ8AAAACgAQAA
CAAAAAAAAAAAAAAAgAFpFgIAYTQ0MS5ucHlQSwECLQMtAAAACAAAACEAiNzPBJIBAAAoDgAACAAAAAAAAAAAAAAAgAFjFwIAYTQ0
Mi5ucHlQSwECLQMtAAAACAAAACEA5Z5/XI8CAAAoDgAACAAAAAAAAAAAAAAAgAEvGQIAYTQ0My5ucHlQSwECLQMtAAAACAAAACEA
UJ9t1xUDAAAoDgAACAAAAAAAAAAAAAAAgAH4GwIAYTQ0NC5ucHlQSwECLQMtAAAACAAAACEANCpvp5ABAAAoDgAACAAAAAAAAAAA
AAAAgAFHHwIAYTQ0NS5ucHlQSwECLQMtAAAACAAAACEALe6L+voDAAAoDgAACAAAAAAAAAAAAAAAgAERIQIAYTQ0Ni5ucHlQSwEC
LQMtAAAACAAAACEAwDIwVl8CAAAoDgAACAAAAAAAAAAAAAAAgAFFJQIAYTQ0Ny5ucHlQSwECLQMtAAAACAAAACEARcfY0N0AAAAo
DgAACAAAAAAAAAAAAAAAgAHeJwIAYTQ0OC5ucHlQSwECLQMtAAAACAAAACEAbLI95/gBAAAoDgAACAAAAAAAAAAAAAAAgAH1KAIA
YTQ0OS5ucHlQSwECLQMtAAAACAAAACEAUM5WpsIEAAAoDgAACAAAAAAAAAAAAAAAgAEnKwIAYTQ1MC5ucHlQSwECLQMtAAAACAAA
ACEA/LL2e8QAAAAoDgAACAAAAAAAAAAAAAAAgAEjMAIAYTQ1MS5ucHlQSwECLQMtAAAACAAAACEAgUBVw0wBAAAoDgAACAAAAAAA
AAAAAAAAgAEhMQIAYTQ1Mi5ucHlQSwECLQMtAAAACAAAACEA5RR1IKoDAAAoDgAACAAAAAAAAAAAAAAAgAGnMgIAYTQ1My5ucHlQ
SwECLQMtAAAACAAAACEAQ451ig8DAAAoDgAACAAAAAAAAAAAAAAAgAGLNgIAYTQ1NC5ucHlQSwECLQMtAAAACAAAACEAGfcT02AB
AAAoDgAACAAAAAAAAAAAAAAAgAHUOQIAYTQ1NS5ucHlQSwECLQMtAAAACAAAACEAMXZD6IYDAAAoDgAACAAAAAAAAAAAAAAAgAFu
OwIAYTQ1Ni5ucHlQSwECLQMtAAAACAAAACEATvhh37IBAAAoDgAACAAAAAAAAAAAAAAAgAEuPwIAYTQ1Ny5ucHlQSwECLQMtAAAA
CAAAACEAYtNP4usAAAAoDgAACAAAAAAAAAAAAAAAgAEaQQIAYTQ1OC5ucHlQSwECLQMtAAAACAAAACEAdPM79/QBAAAoDgAACAAA
AAAAAAAAAAAAgAE/QgIAYTQ1OS5ucHlQSwECLQMtAAAACAAAACEAKbDmtsUFAAAoDgAACAAAAAAAAAAAAAAAgAFtRAIAYTQ2MC5u
cHlQSwECLQMtAAAACAAAACEAvB22TsUAAAAoDgAACAAAAAAAAAAAAAAAgAFsSgIAYTQ2MS5ucHlQSwUGAAAAAMUBxQEgXwAAa0sC
AAAA
"""

def specific_checks(viewshed):
    """Independent (not recorded) sanity oracle: observer cell is 180, every
    other cell is -1 or the vertical angle computed from elevation difference
    and horizontal distance; the 8 neighbours of the observer are always
    visible (no nearer cell exists); a raised observer on flat ground sees
    everything."""
    import math
    bad = 0
    for name, arr, ys, xs, r, c, oe, te in iter_cases():
        if not np.isfinite(np.asarray(arr, dtype=np.float64)).all():
            continue
        if name.endswith('|all'):
            continue
        got = run_case(viewshed, arr, ys, xs, r, c, oe, te)
        if got[0] != 'OK':
            continue
        v = got[1]
        h, w = v.shape
        a = np.asarray(arr, dtype=np.float64)
        vp = float(a[r, c]) + oe
        tt = te if te > 0 else 0.0
        ew = (xs[-1] - xs[0]) / (w - 1)
        ns = (ys[-1] - ys[0]) / (h - 1)
        for i in range(h):
            for j in range(w):
                if (i, j) == (r, c):
                    ok = v[i, j] == 180
                elif v[i, j] == -1:
                    ok = max(abs(i - r), abs(j - c)) > 1
                else:
                    d = math.hypot((j - c) * ew, (i - r) * ns)
                    ang = 90.0 + math.degrees(math.atan2(a[i, j] + tt - vp, d))
                    ok = abs(v[i, j] - ang) < 1e-9 and 0 <= v[i, j] <= 180
                if not ok:
                    print('ORACLE mismatch', name, (i, j), v[i, j])
                    bad += 1
    flat = np.zeros((6, 7))
    got = run_case(viewshed, flat, np.arange(6.), np.arange(7.), 2, 3, 1.0, 0)
    if not (got[1] >= 0).all():
        print('ORACLE flat terrain not fully visible')
        bad += 1
    return bad



def main():
    import xrspatial
    from xrspatial import viewshed
    here = os.path.realpath(os.getcwd())
    lib = os.path.realpath(os.path.dirname(xrspatial.__file__))
    print('xrspatial from', lib)
    if os.environ.get('EQUIV_ALLOW_ANY_TREE') != '1' and \
            not lib.startswith(here + os.sep):
        print('ERROR: xrspatial is not imported from the current worktree')
        return 2
    expected = np.load(io.BytesIO(base64.b64decode(_BLOB.replace('\n', ''))))
    bad = 0
    seen = 0
    for name, arr, ys, xs, r, c, oe, te in iter_cases():
        seen += 1
        exp = _METAS[name]
        got = run_case(viewshed, arr, ys, xs, r, c, oe, te)
        if got[0] != exp[0]:
            print('MISMATCH kind', name, got[0], exp[0])
            bad += 1
            continue
        if got[0] == 'EXC':
            if list(got) != list(exp):
                print('MISMATCH exception', name, got, exp)
                bad += 1
            continue
        e = expected[exp[1]]
        g = got[1]
        if g.dtype != e.dtype or g.shape != e.shape or \
                g.tobytes() != e.tobytes():
            print('MISMATCH values', name)
            if g.shape == e.shape:
                idx = np.argwhere(~((g == e) | (np.isnan(g) & np.isnan(e))))
                for i in idx[:5]:
                    print('   at', tuple(i), 'got', repr(g[tuple(i)]),
                          'expected', repr(e[tuple(i)]))
            bad += 1
        if got[2] != exp[2]:
            print('MISMATCH meta', name, got[2], exp[2])
            bad += 1
    if seen != len(_METAS):
        print('MISMATCH number of cases', seen, len(_METAS))
        bad += 1
    got_extras = extra_cases(viewshed)
    if len(got_extras) != len(_EXTRAS):
        print('MISMATCH number of extras')
        bad += 1
    for (gn, gv), (en, ev) in zip(got_extras, _EXTRAS):
        if gn != en or gv != ev:
            print('MISMATCH extra', gn, gv[:200], ev[:200])
            bad += 1
    bad += specific_checks(viewshed)
    print('%d cases + %d extras checked, %d mismatches'
          % (seen, len(got_extras), bad))
    return 1 if bad else 0


if __name__ == '__main__':
    sys.exit(main())
