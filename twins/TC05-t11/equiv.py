"""Differential test for property C05 (viewshed).

Runs xrspatial.viewshed on ~1100 (terrain, observer, heights, cell size) combinations
(float64/float32/int32/int64/uint8 terrains, ties, plateaus, NaNs, 1xN / Nx1 / odd shapes,
corner/edge/centre observers, negative observer height, target heights, square and
non-square cells, ascending and descending y), hashes value bytes + dtype + shape + coords
+ attrs + the in-place side effect on the input, and compares with digests recorded from
the UNMODIFIED tree.  Also checks error paths (out-of-range x / y, dask input -> TypeError)
and the independently known docstring example.  Exit 0 iff everything is identical.
"""
import sys
import hashlib
import io
import contextlib
import warnings
import numpy as np
import xarray as xr


def _terrains():
    out = []
    rng = np.random.RandomState(12345)
    shapes = [(2, 2), (2, 5), (5, 2), (3, 3), (4, 7), (7, 4), (6, 6), (9, 11), (1, 6), (6, 1)]
    for k, shp in enumerate(shapes):
        out.append(("randf%d" % k, rng.uniform(-50, 50, size=shp)))
        out.append(("ties%d" % k, rng.randint(0, 3, size=shp).astype(np.float64)))
        out.append(("int%d" % k, rng.randint(-5, 20, size=shp).astype(np.int32)))
    out.append(("flat", np.zeros((5, 6), dtype=np.float32)))
    out.append(("plateau", np.pad(np.full((3, 3), 7.0), 2, mode="constant")))
    out.append(("i64", rng.randint(0, 100, size=(5, 5)).astype(np.int64)))
    out.append(("u8", rng.randint(0, 255, size=(4, 6)).astype(np.uint8)))
    f32 = rng.uniform(0, 10, size=(6, 5)).astype(np.float32)
    out.append(("f32", f32))
    nan1 = rng.uniform(0, 10, size=(6, 7))
    nan1[1, 2] = np.nan
    nan1[4, 5] = np.nan
    nan1[0, 0] = np.nan
    out.append(("nan1", nan1))
    nan2 = rng.randint(0, 4, size=(5, 5)).astype(np.float64)
    nan2[2, 3] = np.nan
    nan2[3, :2] = np.nan
    out.append(("nan2", nan2))
    ridge = np.zeros((7, 9))
    ridge[:, 4] = 5.0
    out.append(("ridge", ridge))
    out.append(("docex", np.array([[0, 0, 1, 0, 0], [1, 3, 0, 0, 0],
                                   [10, 2, 5, 2, -1], [11, 1, 2, 9, 0]])))
    return out


def _cases():
    res = [(1.0, 1.0), (2.5, 0.5), (0.25, 3.0)]
    for name, arr in _terrains():
        h, w = arr.shape
        obs = {(0, 0), (0, w - 1), (h - 1, 0), (h - 1, w - 1), (h // 2, w // 2),
               (0, w // 2), (h // 2, 0), (h - 1, w // 2), (h // 2, w - 1)}
        for ri, (ew, ns) in enumerate(res):
            for (r, c) in sorted(obs):
                # vary heights deterministically
                idx = (r * 7 + c * 3 + ri) % 5
                oe = [0, 1.5, -2.0, 10, 0.25][idx]
                te = [0, 0, 1.0, 0.5, 3][(idx + ri) % 5]
                for descending_y in (False, True):
                    if descending_y and (ri != 1):
                        continue
                    yield name, arr, ew, ns, r, c, oe, te, descending_y


def run_case(viewshed, arr, ew, ns, r, c, oe, te, descending_y):
    h, w = arr.shape
    xs = 10.0 + np.arange(w) * ew
    ys = -3.0 + np.arange(h) * ns
    if descending_y:
        ys = ys[::-1].copy()
    da = xr.DataArray(arr.copy(), dims=["y", "x"], coords={"y": ys, "x": xs},
                      attrs={"res": (ew, ns), "k": "v"})
    buf = io.StringIO()
    try:
        with warnings.catch_warnings():
            warnings.simplefilter("ignore")
            with contextlib.redirect_stdout(buf):
                out = viewshed(da, x=xs[c], y=ys[r], observer_elev=oe, target_elev=te)
    except Exception as e:  # noqa
        return "EXC:%s:%s" % (type(e).__name__, e)
    v = np.asarray(out.values)
    hh = hashlib.sha256()
    hh.update(str(v.dtype).encode())
    hh.update(str(v.shape).encode())
    hh.update(np.ascontiguousarray(v).tobytes())
    hh.update(str(out.dims).encode())
    hh.update(repr(sorted(out.attrs.items())).encode())
    hh.update(np.asarray(out["x"].values).tobytes())
    hh.update(np.asarray(out["y"].values).tobytes())
    # side effect on the input (values cast to float64 in place)
    hh.update(str(da.dtype).encode())
    hh.update(np.ascontiguousarray(da.values).tobytes())
    # stdout emitted by the numba kernel is not captured by redirect_stdout; ignore
    return hh.hexdigest()


def extra_cases(viewshed):
    """Error paths and non-numpy backends."""
    res = []
    arr = np.arange(20, dtype=np.float64).reshape(4, 5)
    da = xr.DataArray(arr, dims=["y", "x"], coords={"y": np.arange(4.0), "x": np.arange(5.0)})
    for kw in (dict(x=-1, y=1), dict(x=1, y=9), dict(x=99, y=99), dict(x=1.4, y=2.6)):
        try:
            o = viewshed(da.copy(deep=True), **kw)
            res.append("OK:" + hashlib.sha256(o.values.tobytes()).hexdigest())
        except Exception as e:  # noqa
            res.append("EXC:%s:%s" % (type(e).__name__, e))
    try:
        import dask.array as dsa
        dda = xr.DataArray(dsa.from_array(arr, chunks=(2, 2)), dims=["y", "x"],
                           coords={"y": np.arange(4.0), "x": np.arange(5.0)})
        try:
            o = viewshed(dda, x=1, y=1)
            res.append("OK:" + hashlib.sha256(np.asarray(o.values).tobytes()).hexdigest())
        except Exception as e:  # noqa
            res.append("EXC:%s:%s" % (type(e).__name__, str(e)[:60]))
    except ImportError:
        res.append("nodask")
    return res


EXPECTED = {
 "randf0": "5332c9abac01b83912990a94",
 "ties0": "2273ef6fffe3ca167f816731",
 "int0": "b2f791da292a2d6093e680c1",
 "randf1": "3b1ceb41b2ab47449f661051",
 "ties1": "d4c66212cdecf604949cbcd3",
 "int1": "12b12f0431325118f95dbc12",
 "randf2": "be9105139b4fdb5ee617599a",
 "ties2": "6759bb2b62d0952e853191c1",
 "int2": "40c8242bdc57ea8b988389e5",
 "randf3": "2ff9d3932d0d897498c9fba1",
 "ties3": "a48d5396bd172d7c20d357e9",
 "int3": "8de69503e946ffc3be3d03cf",
 "randf4": "a47d6020da6e49e59d065374",
 "ties4": "6cdeca89d650ee1b45ec9364",
 "int4": "941cc7e43d5c06a505ffc42a",
 "randf5": "9e11ed7645724b9676ac7f64",
 "ties5": "814c16ae55ec3d426ecb8419",
 "int5": "2a82fe8987194758fe489b97",
 "randf6": "31928b8847f48ce6a667609b",
 "ties6": "bd9e95f18184f6e4c3cc365c",
 "int6": "89f67d64d9db8674dcad898e",
 "randf7": "02ed37d4e817ba75c0e476bf",
 "ties7": "93db3143b7c3e3bcd5cba270",
 "int7": "a559e1b24f70d31dedaaf5b0",
 "randf8": "bcc26178cfe9ca19b4c471fd",
 "ties8": "81571781f8968dfe2fcaace0",
 "int8": "0c93db9ec949786ba5ff8cee",
 "randf9": "610e5ed506a1a0c77ba0eae6",
 "ties9": "90e1d9d7150d2d330eafb954",
 "int9": "c1ce6a93423ba2a00e96280a",
 "flat": "f09b616402cb900eaafa395e",
 "plateau": "ce139c7b645f85e0861451c4",
 "i64": "b6b808a204f4f032d97aa519",
 "u8": "80ea5482df8d7b56864d213c",
 "f32": "58660f29064a9ce65afa1685",
 "nan1": "78d997ccef875d89fcabfa2d",
 "nan2": "6bc9c41f4dd533763db586bc",
 "ridge": "e2228487a2a92432b6abff3c",
 "docex": "726de282f67619b3b6b4c066"
}

EXPECTED_EXTRA = [
 "EXC:ValueError:x argument outside of raster x_range",
 "EXC:ValueError:y argument outside of raster y_range",
 "EXC:ValueError:x argument outside of raster x_range",
 "OK:1c3477e6caa388737204b3e62f07a6985b9b5160b62bb470c932fa452a50e45e",
 "EXC:TypeError:Unsupported raster array type: <class 'dask.array.core.Array"
]

DOC_EXPECTED = np.array([
    [-1., 90., 135., 90., -1.],
    [-1., 161.56505118, 180., 90., 90.],
    [167.39561735, 144.73561032, 168.69006753, 144.73561032, -1.],
    [165.57993189, -1., -1., 166.0472636, -1.]])


def main():
    import xrspatial
    from xrspatial import viewshed
    print("xrspatial from", xrspatial.__file__)
    bad = 0
    groups = {}
    n = 0
    for (name, arr, ew, ns, r, c, oe, te, d) in _cases():
        dig = run_case(viewshed, arr, ew, ns, r, c, oe, te, d)
        groups.setdefault(name, hashlib.sha256()).update(dig.encode())
        n += 1
    got = {k: v.hexdigest()[:24] for k, v in groups.items()}
    if set(got) != set(EXPECTED):
        print("MISMATCH in terrain set")
        bad += 1
    for k in EXPECTED:
        if got.get(k) != EXPECTED[k]:
            print("MISMATCH terrain", k, got.get(k), EXPECTED[k])
            bad += 1
    extra = extra_cases(viewshed)
    if extra != EXPECTED_EXTRA:
        print("MISMATCH extra", extra)
        bad += 1
    # independent: docstring example
    data = np.array([[0, 0, 1, 0, 0], [1, 3, 0, 0, 0], [10, 2, 5, 2, -1], [11, 1, 2, 9, 0]])
    t = xr.DataArray(data, dims=['y', 'x'])
    t['y'] = np.linspace(1, 4, 4)
    t['x'] = np.linspace(1, 5, 5)
    v = viewshed(t, x=3, y=2)
    if v.dtype != np.float64 or not np.allclose(v.values, DOC_EXPECTED, atol=1e-7, rtol=0):
        print("MISMATCH docstring example")
        bad += 1
    print("cases:", n, "mismatches:", bad)
    return 1 if bad else 0


if __name__ == "__main__":
    sys.exit(main())
