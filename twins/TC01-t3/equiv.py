"""Differential test for refactoring TC01-t3 (convolution._convolve_2d_numpy and its dask wrapper).

Runs convolution_2d / convolve_2d / focal.hotspots on numpy and dask rasters and compares
  (a) numpy results against an independent pure-python reference convolution,
  (b) dask results against numpy results cell for cell over many chunkings (1-cell chunks,
      chunks smaller than the kernel, irregular chunks), non-square kernels and schedulers,
  (c) sha256 digests (and lazy chunk structure) against values recorded from the unmodified tree.
Exit 0 if identical, 1 otherwise.  `--record` prints the digests.
"""
import hashlib
import sys
import warnings

import dask
import dask.array as da
import numpy as np
import xarray as xr

import xrspatial
from xrspatial import convolution, focal
from xrspatial.convolution import annulus_kernel, circle_kernel, convolution_2d, convolve_2d

warnings.filterwarnings('ignore')
np.seterr(all='ignore')


def digest(arr):
    arr = np.ascontiguousarray(arr)
    h = hashlib.sha256()
    h.update(str(arr.dtype).encode())
    h.update(str(arr.shape).encode())
    h.update(arr.tobytes())
    return h.hexdigest()[:20]


def same(a, b):
    a = np.asarray(a)
    b = np.asarray(b)
    return a.dtype == b.dtype and a.shape == b.shape and np.array_equal(a, b, equal_nan=True)


def ref_convolve(data, kernel):
    """Independent reference: float64 accumulation in row-major window order, float32 output."""
    d = data.astype(np.float32)
    rows, cols = d.shape
    kr, kc = kernel.shape
    hr, hc = kr // 2, kc // 2
    out = np.full((rows, cols), np.nan, dtype=np.float32)
    for y in range(hr, rows - hr):
        for x in range(hc, cols - hc):
            acc = 0.0
            win = d[y - hr:y + hr + 1, x - hc:x + hc + 1]
            for a in range(kr):
                for b in range(kc):
                    acc = acc + float(kernel[a, b]) * float(win[a, b])
            out[y, x] = acc
    return out


def make_inputs():
    rs = np.random.RandomState(777)
    inputs = {}
    a = rs.uniform(-50, 50, size=(9, 11))
    inputs['f64'] = a
    inputs['f32'] = a.astype(np.float32)
    b = a.copy()
    b[0, 0] = np.nan
    b[4, 5] = np.nan
    b[8, 10] = np.nan
    b[2, 7] = np.inf
    b[6, 1] = -np.inf
    inputs['f64_nan_inf'] = b
    inputs['i32'] = rs.randint(-20, 20, size=(7, 6)).astype(np.int32)
    inputs['u8'] = rs.randint(0, 255, size=(6, 9)).astype(np.uint8)
    inputs['i64_tall'] = rs.randint(-1000, 1000, size=(12, 4)).astype(np.int64)
    inputs['f32_3x3'] = rs.uniform(0, 1, size=(3, 3)).astype(np.float32)
    inputs['f64_2x5'] = rs.uniform(0, 1, size=(2, 5))
    return inputs


KERNELS = {
    'circle_r1': circle_kernel(1, 1, 1),
    'circle_1x2_r3': circle_kernel(1, 2, 3),          # 3 x 7, non square
    'annulus_r2_r1': annulus_kernel(1, 1, 2, 1),      # 5 x 5
    'k1x1': np.array([[2.5]]),
    'k5x1_int': np.array([[1], [0], [-2], [0], [1]], dtype=np.int64),
    'k3x5_weights': np.array([[1, .5, 0, -1, 1], [0, 1, 1e-3, 1, 0], [1, 2, 0, 1e3, 1]]),
    'k3x3_f32': np.array([[-1, 0, 1], [-2, 0, 2], [-1, 0, 1]], dtype=np.float32),
}


def chunkings(shape):
    h, w = shape
    out = [(1, 1), (h, w), (2, 3), (max(h - 1, 1), 2), (1, w), (h, 1)]
    if h >= 4 and w >= 4:
        out.append(((1, h - 3, 2), (2, 1, w - 3)))
    return out


def main(record):
    assert xrspatial.__file__.startswith('/tmp/seed/TC01/'), xrspatial.__file__
    assert convolution.__file__.startswith('/tmp/seed/TC01/')
    ok = True
    got = {}
    inputs = make_inputs()
    for iname, data in inputs.items():
        for kname, kernel in KERNELS.items():
            key = '%s|%s' % (iname, kname)
            agg = xr.DataArray(data, dims=['y', 'x'], attrs={'res': (0.5, 2.0), 'unit': 'km'})
            r_np = convolution_2d(agg, kernel)
            if not isinstance(r_np.data, np.ndarray):
                print('FAIL numpy result type', key)
                ok = False
            got[key] = digest(r_np.data)
            if not same(convolve_2d(data, kernel), r_np.data):
                print('FAIL convolve_2d != convolution_2d', key)
                ok = False
            if not same(r_np.data, ref_convolve(data, kernel)):
                print('FAIL reference mismatch', key)
                ok = False
            if r_np.attrs != agg.attrs or r_np.dims != agg.dims or r_np.name != 'convolution_2d':
                print('FAIL attrs/dims/name', key)
                ok = False

            # dask's map_overlap refuses arrays smaller than the halo depth
            if data.shape[0] < kernel.shape[0] // 2 or data.shape[1] < kernel.shape[1] // 2:
                continue
            for ci, chunks in enumerate(chunkings(data.shape)):
                dagg = xr.DataArray(da.from_array(data, chunks=chunks), dims=['y', 'x'],
                                    attrs=agg.attrs)
                r_da = convolution_2d(dagg, kernel, name='conv')
                if not isinstance(r_da.data, da.Array):
                    print('FAIL dask result not lazy', key, chunks)
                    ok = False
                    continue
                got[key + '|lazy%d' % ci] = '%s/%s/%s' % (r_da.data.dtype,
                                                         type(r_da.data._meta).__name__,
                                                         r_da.data.chunks)
                scheds = [dict(scheduler='synchronous')]
                if ci % 3 == 0:
                    scheds.append(dict(scheduler='threads', num_workers=4))
                for sk in scheds:
                    with dask.config.set(**sk):
                        val = r_da.data.compute()
                    if not same(val, r_np.data):
                        print('FAIL dask != numpy', key, chunks, sk)
                        ok = False

    # hotspots goes through convolve_2d (numpy: direct, dask: map_overlap of the same kernel)
    for iname in ('f64', 'f32', 'i32', 'u8', 'i64_tall'):
        data = inputs[iname]
        for kname in ('circle_r1', 'annulus_r2_r1', 'k3x5_weights'):
            kernel = KERNELS[kname]
            key = 'hotspots|%s|%s' % (iname, kname)
            h_np = focal.hotspots(xr.DataArray(data), kernel)
            got[key] = digest(h_np.data)
            for ci, chunks in enumerate(((1, 1), (3, 2), data.shape)):
                h_da = focal.hotspots(xr.DataArray(da.from_array(data, chunks=chunks)), kernel)
                if not isinstance(h_da.data, da.Array):
                    print('FAIL hotspots dask not lazy', key)
                    ok = False
                    continue
                with dask.config.set(scheduler='synchronous'):
                    v1 = h_da.data.compute()
                with dask.config.set(scheduler='threads', num_workers=3):
                    v2 = h_da.data.compute()
                if not same(v1, v2):
                    print('FAIL hotspots scheduler dependence', key, chunks)
                    ok = False
                got[key + '|dask%d' % ci] = digest(v1)

    if record:
        print('EXPECTED = {')
        for k in sorted(got):
            print('    %r: %r,' % (k, got[k]))
        print('}')
        return 0 if ok else 1

    if set(got) != set(EXPECTED):
        print('FAIL key sets differ')
        ok = False
    for k in sorted(got):
        if EXPECTED.get(k) != got[k]:
            print('FAIL differs from recorded baseline', k, got[k], EXPECTED.get(k))
            ok = False
    print('checked %d cases: %s' % (len(got), 'OK' if ok else 'MISMATCH'))
    return 0 if ok else 1


# --- recorded from the unmodified tree -------------------------------------
EXPECTED = {
    'f32_3x3|annulus_r2_r1': '1a875ff48d092440ec53',
    'f32_3x3|annulus_r2_r1|lazy0': 'float64/ndarray/((3,), (3,))',
    'f32_3x3|annulus_r2_r1|lazy1': 'float64/ndarray/((3,), (3,))',
    'f32_3x3|annulus_r2_r1|lazy2': 'float64/ndarray/((3,), (3,))',
    'f32_3x3|annulus_r2_r1|lazy3': 'float64/ndarray/((3,), (3,))',
    'f32_3x3|annulus_r2_r1|lazy4': 'float64/ndarray/((3,), (3,))',
    'f32_3x3|annulus_r2_r1|lazy5': 'float64/ndarray/((3,), (3,))',
    'f32_3x3|circle_1x2_r3': '1a875ff48d092440ec53',
    'f32_3x3|circle_1x2_r3|lazy0': 'float64/ndarray/((1, 1, 1), (3,))',
    'f32_3x3|circle_1x2_r3|lazy1': 'float64/ndarray/((3,), (3,))',
    'f32_3x3|circle_1x2_r3|lazy2': 'float64/ndarray/((2, 1), (3,))',
    'f32_3x3|circle_1x2_r3|lazy3': 'float64/ndarray/((2, 1), (3,))',
    'f32_3x3|circle_1x2_r3|lazy4': 'float64/ndarray/((1, 1, 1), (3,))',
    'f32_3x3|circle_1x2_r3|lazy5': 'float64/ndarray/((3,), (3,))',
    'f32_3x3|circle_r1': 'd3872fa146fa485d7b59',
    'f32_3x3|circle_r1|lazy0': 'float64/ndarray/((1, 1, 1), (1, 1, 1))',
    'f32_3x3|circle_r1|lazy1': 'float64/ndarray/((3,), (3,))',
    'f32_3x3|circle_r1|lazy2': 'float64/ndarray/((2, 1), (3,))',
    'f32_3x3|circle_r1|lazy3': 'float64/ndarray/((2, 1), (2, 1))',
    'f32_3x3|circle_r1|lazy4': 'float64/ndarray/((1, 1, 1), (3,))',
    'f32_3x3|circle_r1|lazy5': 'float64/ndarray/((3,), (1, 1, 1))',
    'f32_3x3|k1x1': '7ddcbce2604db89fc44d',
    'f32_3x3|k1x1|lazy0': 'float64/ndarray/((1, 1, 1), (1, 1, 1))',
    'f32_3x3|k1x1|lazy1': 'float64/ndarray/((3,), (3,))',
    'f32_3x3|k1x1|lazy2': 'float64/ndarray/((2, 1), (3,))',
    'f32_3x3|k1x1|lazy3': 'float64/ndarray/((2, 1), (2, 1))',
    'f32_3x3|k1x1|lazy4': 'float64/ndarray/((1, 1, 1), (3,))',
    'f32_3x3|k1x1|lazy5': 'float64/ndarray/((3,), (1, 1, 1))',
    'f32_3x3|k3x3_f32': '1c7b517fa55bdb0220e6',
    'f32_3x3|k3x3_f32|lazy0': 'float64/ndarray/((1, 1, 1), (1, 1, 1))',
    'f32_3x3|k3x3_f32|lazy1': 'float64/ndarray/((3,), (3,))',
    'f32_3x3|k3x3_f32|lazy2': 'float64/ndarray/((2, 1), (3,))',
    'f32_3x3|k3x3_f32|lazy3': 'float64/ndarray/((2, 1), (2, 1))',
    'f32_3x3|k3x3_f32|lazy4': 'float64/ndarray/((1, 1, 1), (3,))',
    'f32_3x3|k3x3_f32|lazy5': 'float64/ndarray/((3,), (1, 1, 1))',
    'f32_3x3|k3x5_weights': '1a875ff48d092440ec53',
    'f32_3x3|k3x5_weights|lazy0': 'float64/ndarray/((1, 1, 1), (3,))',
    'f32_3x3|k3x5_weights|lazy1': 'float64/ndarray/((3,), (3,))',
    'f32_3x3|k3x5_weights|lazy2': 'float64/ndarray/((2, 1), (3,))',
    'f32_3x3|k3x5_weights|lazy3': 'float64/ndarray/((2, 1), (3,))',
    'f32_3x3|k3x5_weights|lazy4': 'float64/ndarray/((1, 1, 1), (3,))',
    'f32_3x3|k3x5_weights|lazy5': 'float64/ndarray/((3,), (3,))',
    'f32_3x3|k5x1_int': '1a875ff48d092440ec53',
    'f32_3x3|k5x1_int|lazy0': 'float64/ndarray/((3,), (1, 1, 1))',
    'f32_3x3|k5x1_int|lazy1': 'float64/ndarray/((3,), (3,))',
    'f32_3x3|k5x1_int|lazy2': 'float64/ndarray/((3,), (3,))',
    'f32_3x3|k5x1_int|lazy3': 'float64/ndarray/((3,), (2, 1))',
    'f32_3x3|k5x1_int|lazy4': 'float64/ndarray/((3,), (3,))',
    'f32_3x3|k5x1_int|lazy5': 'float64/ndarray/((3,), (1, 1, 1))',
    'f32|annulus_r2_r1': 'a4481eb64a9ffc78dfca',
    'f32|annulus_r2_r1|lazy0': 'float64/ndarray/((2, 2, 2, 3), (2, 2, 2, 2, 3))',
    'f32|annulus_r2_r1|lazy1': 'float64/ndarray/((9,), (11,))',
    'f32|annulus_r2_r1|lazy2': 'float64/ndarray/((2, 2, 2, 3), (3, 3, 3, 2))',
    'f32|annulus_r2_r1|lazy3': 'float64/ndarray/((7, 2), (2, 2, 2, 2, 3))',
    'f32|annulus_r2_r1|lazy4': 'float64/ndarray/((2, 2, 2, 3), (11,))',
    'f32|annulus_r2_r1|lazy5': 'float64/ndarray/((9,), (2, 2, 2, 2, 3))',
    'f32|annulus_r2_r1|lazy6': 'float64/ndarray/((7, 2), (3, 8))',
    'f32|circle_1x2_r3': '29fadd31928044dd04a8',
    'f32|circle_1x2_r3|lazy0': 'float64/ndarray/((1, 1, 1, 1, 1, 1, 1, 1, 1), (3, 3, 5))',
    'f32|circle_1x2_r3|lazy1': 'float64/ndarray/((9,), (11,))',
    'f32|circle_1x2_r3|lazy2': 'float64/ndarray/((2, 2, 2, 2, 1), (3, 3, 5))',
    'f32|circle_1x2_r3|lazy3': 'float64/ndarray/((8, 1), (4, 4, 3))',
    'f32|circle_1x2_r3|lazy4': 'float64/ndarray/((1, 1, 1, 1, 1, 1, 1, 1, 1), (11,))',
    'f32|circle_1x2_r3|lazy5': 'float64/ndarray/((9,), (3, 3, 5))',
    'f32|circle_1x2_r3|lazy6': 'float64/ndarray/((1, 6, 2), (3, 8))',
    'f32|circle_r1': 'c8b4d9eb762459b0681b',
    'f32|circle_r1|lazy0': 'float64/ndarray/((1, 1, 1, 1, 1, 1, 1, 1, 1), (1, 1, 1, 1, 1, 1, 1, 1, 1, 1, 1))',
    'f32|circle_r1|lazy1': 'float64/ndarray/((9,), (11,))',
    'f32|circle_r1|lazy2': 'float64/ndarray/((2, 2, 2, 2, 1), (3, 3, 3, 2))',
    'f32|circle_r1|lazy3': 'float64/ndarray/((8, 1), (2, 2, 2, 2, 2, 1))',
    'f32|circle_r1|lazy4': 'float64/ndarray/((1, 1, 1, 1, 1, 1, 1, 1, 1), (11,))',
    'f32|circle_r1|lazy5': 'float64/ndarray/((9,), (1, 1, 1, 1, 1, 1, 1, 1, 1, 1, 1))',
    'f32|circle_r1|lazy6': 'float64/ndarray/((1, 6, 2), (2, 1, 8))',
    'f32|k1x1': 'a4d68b89e14622234212',
    'f32|k1x1|lazy0': 'float64/ndarray/((1, 1, 1, 1, 1, 1, 1, 1, 1), (1, 1, 1, 1, 1, 1, 1, 1, 1, 1, 1))',
    'f32|k1x1|lazy1': 'float64/ndarray/((9,), (11,))',
    'f32|k1x1|lazy2': 'float64/ndarray/((2, 2, 2, 2, 1), (3, 3, 3, 2))',
    'f32|k1x1|lazy3': 'float64/ndarray/((8, 1), (2, 2, 2, 2, 2, 1))',
    'f32|k1x1|lazy4': 'float64/ndarray/((1, 1, 1, 1, 1, 1, 1, 1, 1), (11,))',
    'f32|k1x1|lazy5': 'float64/ndarray/((9,), (1, 1, 1, 1, 1, 1, 1, 1, 1, 1, 1))',
    'f32|k1x1|lazy6': 'float64/ndarray/((1, 6, 2), (2, 1, 8))',
    'f32|k3x3_f32': '3e2eadb15f657361ba46',
    'f32|k3x3_f32|lazy0': 'float64/ndarray/((1, 1, 1, 1, 1, 1, 1, 1, 1), (1, 1, 1, 1, 1, 1, 1, 1, 1, 1, 1))',
    'f32|k3x3_f32|lazy1': 'float64/ndarray/((9,), (11,))',
    'f32|k3x3_f32|lazy2': 'float64/ndarray/((2, 2, 2, 2, 1), (3, 3, 3, 2))',
    'f32|k3x3_f32|lazy3': 'float64/ndarray/((8, 1), (2, 2, 2, 2, 2, 1))',
    'f32|k3x3_f32|lazy4': 'float64/ndarray/((1, 1, 1, 1, 1, 1, 1, 1, 1), (11,))',
    'f32|k3x3_f32|lazy5': 'float64/ndarray/((9,), (1, 1, 1, 1, 1, 1, 1, 1, 1, 1, 1))',
    'f32|k3x3_f32|lazy6': 'float64/ndarray/((1, 6, 2), (2, 1, 8))',
    'f32|k3x5_weights': '73a7c375f07232f852c1',
    'f32|k3x5_weights|lazy0': 'float64/ndarray/((1, 1, 1, 1, 1, 1, 1, 1, 1), (2, 2, 2, 2, 3))',
    'f32|k3x5_weights|lazy1': 'float64/ndarray/((9,), (11,))',
    'f32|k3x5_weights|lazy2': 'float64/ndarray/((2, 2, 2, 2, 1), (3, 3, 3, 2))',
    'f32|k3x5_weights|lazy3': 'float64/ndarray/((8, 1), (2, 2, 2, 2, 3))',
    'f32|k3x5_weights|lazy4': 'float64/ndarray/((1, 1, 1, 1, 1, 1, 1, 1, 1), (11,))',
    'f32|k3x5_weights|lazy5': 'float64/ndarray/((9,), (2, 2, 2, 2, 3))',
    'f32|k3x5_weights|lazy6': 'float64/ndarray/((1, 6, 2), (3, 8))',
    'f32|k5x1_int': 'c2caa5b21a31408ffa8f',
    'f32|k5x1_int|lazy0': 'float64/ndarray/((2, 2, 2, 3), (1, 1, 1, 1, 1, 1, 1, 1, 1, 1, 1))',
    'f32|k5x1_int|lazy1': 'float64/ndarray/((9,), (11,))',
    'f32|k5x1_int|lazy2': 'float64/ndarray/((2, 2, 2, 3), (3, 3, 3, 2))',
    'f32|k5x1_int|lazy3': 'float64/ndarray/((7, 2), (2, 2, 2, 2, 2, 1))',
    'f32|k5x1_int|lazy4': 'float64/ndarray/((2, 2, 2, 3), (11,))',
    'f32|k5x1_int|lazy5': 'float64/ndarray/((9,), (1, 1, 1, 1, 1, 1, 1, 1, 1, 1, 1))',
    'f32|k5x1_int|lazy6': 'float64/ndarray/((7, 2), (2, 1, 8))',
    'f64_2x5|annulus_r2_r1': '2727f5cf2f29fd0877fe',
    'f64_2x5|annulus_r2_r1|lazy0': 'float64/ndarray/((2,), (2, 3))',
    'f64_2x5|annulus_r2_r1|lazy1': 'float64/ndarray/((2,), (5,))',
    'f64_2x5|annulus_r2_r1|lazy2': 'float64/ndarray/((2,), (3, 2))',
    'f64_2x5|annulus_r2_r1|lazy3': 'float64/ndarray/((2,), (2, 3))',
    'f64_2x5|annulus_r2_r1|lazy4': 'float64/ndarray/((2,), (5,))',
    'f64_2x5|annulus_r2_r1|lazy5': 'float64/ndarray/((2,), (2, 3))',
    'f64_2x5|circle_1x2_r3': '2727f5cf2f29fd0877fe',
    'f64_2x5|circle_1x2_r3|lazy0': 'float64/ndarray/((1, 1), (5,))',
    'f64_2x5|circle_1x2_r3|lazy1': 'float64/ndarray/((2,), (5,))',
    'f64_2x5|circle_1x2_r3|lazy2': 'float64/ndarray/((2,), (5,))',
    'f64_2x5|circle_1x2_r3|lazy3': 'float64/ndarray/((1, 1), (5,))',
    'f64_2x5|circle_1x2_r3|lazy4': 'float64/ndarray/((1, 1), (5,))',
    'f64_2x5|circle_1x2_r3|lazy5': 'float64/ndarray/((2,), (5,))',
    'f64_2x5|circle_r1': '2727f5cf2f29fd0877fe',
    'f64_2x5|circle_r1|lazy0': 'float64/ndarray/((1, 1), (1, 1, 1, 1, 1))',
    'f64_2x5|circle_r1|lazy1': 'float64/ndarray/((2,), (5,))',
    'f64_2x5|circle_r1|lazy2': 'float64/ndarray/((2,), (3, 2))',
    'f64_2x5|circle_r1|lazy3': 'float64/ndarray/((1, 1), (2, 2, 1))',
    'f64_2x5|circle_r1|lazy4': 'float64/ndarray/((1, 1), (5,))',
    'f64_2x5|circle_r1|lazy5': 'float64/ndarray/((2,), (1, 1, 1, 1, 1))',
    'f64_2x5|k1x1': '92ea7a28f03ef2339521',
    'f64_2x5|k1x1|lazy0': 'float64/ndarray/((1, 1), (1, 1, 1, 1, 1))',
    'f64_2x5|k1x1|lazy1': 'float64/ndarray/((2,), (5,))',
    'f64_2x5|k1x1|lazy2': 'float64/ndarray/((2,), (3, 2))',
    'f64_2x5|k1x1|lazy3': 'float64/ndarray/((1, 1), (2, 2, 1))',
    'f64_2x5|k1x1|lazy4': 'float64/ndarray/((1, 1), (5,))',
    'f64_2x5|k1x1|lazy5': 'float64/ndarray/((2,), (1, 1, 1, 1, 1))',
    'f64_2x5|k3x3_f32': '2727f5cf2f29fd0877fe',
    'f64_2x5|k3x3_f32|lazy0': 'float64/ndarray/((1, 1), (1, 1, 1, 1, 1))',
    'f64_2x5|k3x3_f32|lazy1': 'float64/ndarray/((2,), (5,))',
    'f64_2x5|k3x3_f32|lazy2': 'float64/ndarray/((2,), (3, 2))',
    'f64_2x5|k3x3_f32|lazy3': 'float64/ndarray/((1, 1), (2, 2, 1))',
    'f64_2x5|k3x3_f32|lazy4': 'float64/ndarray/((1, 1), (5,))',
    'f64_2x5|k3x3_f32|lazy5': 'float64/ndarray/((2,), (1, 1, 1, 1, 1))',
    'f64_2x5|k3x5_weights': '2727f5cf2f29fd0877fe',
    'f64_2x5|k3x5_weights|lazy0': 'float64/ndarray/((1, 1), (2, 3))',
    'f64_2x5|k3x5_weights|lazy1': 'float64/ndarray/((2,), (5,))',
    'f64_2x5|k3x5_weights|lazy2': 'float64/ndarray/((2,), (3, 2))',
    'f64_2x5|k3x5_weights|lazy3': 'float64/ndarray/((1, 1), (2, 3))',
    'f64_2x5|k3x5_weights|lazy4': 'float64/ndarray/((1, 1), (5,))',
    'f64_2x5|k3x5_weights|lazy5': 'float64/ndarray/((2,), (2, 3))',
    'f64_2x5|k5x1_int': '2727f5cf2f29fd0877fe',
    'f64_2x5|k5x1_int|lazy0': 'float64/ndarray/((2,), (1, 1, 1, 1, 1))',
    'f64_2x5|k5x1_int|lazy1': 'float64/ndarray/((2,), (5,))',
    'f64_2x5|k5x1_int|lazy2': 'float64/ndarray/((2,), (3, 2))',
    'f64_2x5|k5x1_int|lazy3': 'float64/ndarray/((2,), (2, 2, 1))',
    'f64_2x5|k5x1_int|lazy4': 'float64/ndarray/((2,), (5,))',
    'f64_2x5|k5x1_int|lazy5': 'float64/ndarray/((2,), (1, 1, 1, 1, 1))',
    'f64_nan_inf|annulus_r2_r1': '1b791e8781d75d4b1c5f',
    'f64_nan_inf|annulus_r2_r1|lazy0': 'float64/ndarray/((2, 2, 2, 3), (2, 2, 2, 2, 3))',
    'f64_nan_inf|annulus_r2_r1|lazy1': 'float64/ndarray/((9,), (11,))',
    'f64_nan_inf|annulus_r2_r1|lazy2': 'float64/ndarray/((2, 2, 2, 3), (3, 3, 3, 2))',
    'f64_nan_inf|annulus_r2_r1|lazy3': 'float64/ndarray/((7, 2), (2, 2, 2, 2, 3))',
    'f64_nan_inf|annulus_r2_r1|lazy4': 'float64/ndarray/((2, 2, 2, 3), (11,))',
    'f64_nan_inf|annulus_r2_r1|lazy5': 'float64/ndarray/((9,), (2, 2, 2, 2, 3))',
    'f64_nan_inf|annulus_r2_r1|lazy6': 'float64/ndarray/((7, 2), (3, 8))',
    'f64_nan_inf|circle_1x2_r3': 'ec1fb1af05e4375c358c',
    'f64_nan_inf|circle_1x2_r3|lazy0': 'float64/ndarray/((1, 1, 1, 1, 1, 1, 1, 1, 1), (3, 3, 5))',
    'f64_nan_inf|circle_1x2_r3|lazy1': 'float64/ndarray/((9,), (11,))',
    'f64_nan_inf|circle_1x2_r3|lazy2': 'float64/ndarray/((2, 2, 2, 2, 1), (3, 3, 5))',
    'f64_nan_inf|circle_1x2_r3|lazy3': 'float64/ndarray/((8, 1), (4, 4, 3))',
    'f64_nan_inf|circle_1x2_r3|lazy4': 'float64/ndarray/((1, 1, 1, 1, 1, 1, 1, 1, 1), (11,))',
    'f64_nan_inf|circle_1x2_r3|lazy5': 'float64/ndarray/((9,), (3, 3, 5))',
    'f64_nan_inf|circle_1x2_r3|lazy6': 'float64/ndarray/((1, 6, 2), (3, 8))',
    'f64_nan_inf|circle_r1': '06690f45d165ad056788',
    'f64_nan_inf|circle_r1|lazy0': 'float64/ndarray/((1, 1, 1, 1, 1, 1, 1, 1, 1), (1, 1, 1, 1, 1, 1, 1, 1, 1, 1, 1))',
    'f64_nan_inf|circle_r1|lazy1': 'float64/ndarray/((9,), (11,))',
    'f64_nan_inf|circle_r1|lazy2': 'float64/ndarray/((2, 2, 2, 2, 1), (3, 3, 3, 2))',
    'f64_nan_inf|circle_r1|lazy3': 'float64/ndarray/((8, 1), (2, 2, 2, 2, 2, 1))',
    'f64_nan_inf|circle_r1|lazy4': 'float64/ndarray/((1, 1, 1, 1, 1, 1, 1, 1, 1), (11,))',
    'f64_nan_inf|circle_r1|lazy5': 'float64/ndarray/((9,), (1, 1, 1, 1, 1, 1, 1, 1, 1, 1, 1))',
    'f64_nan_inf|circle_r1|lazy6': 'float64/ndarray/((1, 6, 2), (2, 1, 8))',
    'f64_nan_inf|k1x1': '1859ca5cb185c124da18',
    'f64_nan_inf|k1x1|lazy0': 'float64/ndarray/((1, 1, 1, 1, 1, 1, 1, 1, 1), (1, 1, 1, 1, 1, 1, 1, 1, 1, 1, 1))',
    'f64_nan_inf|k1x1|lazy1': 'float64/ndarray/((9,), (11,))',
    'f64_nan_inf|k1x1|lazy2': 'float64/ndarray/((2, 2, 2, 2, 1), (3, 3, 3, 2))',
    'f64_nan_inf|k1x1|lazy3': 'float64/ndarray/((8, 1), (2, 2, 2, 2, 2, 1))',
    'f64_nan_inf|k1x1|lazy4': 'float64/ndarray/((1, 1, 1, 1, 1, 1, 1, 1, 1), (11,))',
    'f64_nan_inf|k1x1|lazy5': 'float64/ndarray/((9,), (1, 1, 1, 1, 1, 1, 1, 1, 1, 1, 1))',
    'f64_nan_inf|k1x1|lazy6': 'float64/ndarray/((1, 6, 2), (2, 1, 8))',
    'f64_nan_inf|k3x3_f32': 'ad649c4395439e72665a',
    'f64_nan_inf|k3x3_f32|lazy0': 'float64/ndarray/((1, 1, 1, 1, 1, 1, 1, 1, 1), (1, 1, 1, 1, 1, 1, 1, 1, 1, 1, 1))',
    'f64_nan_inf|k3x3_f32|lazy1': 'float64/ndarray/((9,), (11,))',
    'f64_nan_inf|k3x3_f32|lazy2': 'float64/ndarray/((2, 2, 2, 2, 1), (3, 3, 3, 2))',
    'f64_nan_inf|k3x3_f32|lazy3': 'float64/ndarray/((8, 1), (2, 2, 2, 2, 2, 1))',
    'f64_nan_inf|k3x3_f32|lazy4': 'float64/ndarray/((1, 1, 1, 1, 1, 1, 1, 1, 1), (11,))',
    'f64_nan_inf|k3x3_f32|lazy5': 'float64/ndarray/((9,), (1, 1, 1, 1, 1, 1, 1, 1, 1, 1, 1))',
    'f64_nan_inf|k3x3_f32|lazy6': 'float64/ndarray/((1, 6, 2), (2, 1, 8))',
    'f64_nan_inf|k3x5_weights': '1c085c7c1a6ed86cce4c',
    'f64_nan_inf|k3x5_weights|lazy0': 'float64/ndarray/((1, 1, 1, 1, 1, 1, 1, 1, 1), (2, 2, 2, 2, 3))',
    'f64_nan_inf|k3x5_weights|lazy1': 'float64/ndarray/((9,), (11,))',
    'f64_nan_inf|k3x5_weights|lazy2': 'float64/ndarray/((2, 2, 2, 2, 1), (3, 3, 3, 2))',
    'f64_nan_inf|k3x5_weights|lazy3': 'float64/ndarray/((8, 1), (2, 2, 2, 2, 3))',
    'f64_nan_inf|k3x5_weights|lazy4': 'float64/ndarray/((1, 1, 1, 1, 1, 1, 1, 1, 1), (11,))',
    'f64_nan_inf|k3x5_weights|lazy5': 'float64/ndarray/((9,), (2, 2, 2, 2, 3))',
    'f64_nan_inf|k3x5_weights|lazy6': 'float64/ndarray/((1, 6, 2), (3, 8))',
    'f64_nan_inf|k5x1_int': '68810e4a256ac197130c',
    'f64_nan_inf|k5x1_int|lazy0': 'float64/ndarray/((2, 2, 2, 3), (1, 1, 1, 1, 1, 1, 1, 1, 1, 1, 1))',
    'f64_nan_inf|k5x1_int|lazy1': 'float64/ndarray/((9,), (11,))',
    'f64_nan_inf|k5x1_int|lazy2': 'float64/ndarray/((2, 2, 2, 3), (3, 3, 3, 2))',
    'f64_nan_inf|k5x1_int|lazy3': 'float64/ndarray/((7, 2), (2, 2, 2, 2, 2, 1))',
    'f64_nan_inf|k5x1_int|lazy4': 'float64/ndarray/((2, 2, 2, 3), (11,))',
    'f64_nan_inf|k5x1_int|lazy5': 'float64/ndarray/((9,), (1, 1, 1, 1, 1, 1, 1, 1, 1, 1, 1))',
    'f64_nan_inf|k5x1_int|lazy6': 'float64/ndarray/((7, 2), (2, 1, 8))',
    'f64|annulus_r2_r1': 'a4481eb64a9ffc78dfca',
    'f64|annulus_r2_r1|lazy0': 'float64/ndarray/((2, 2, 2, 3), (2, 2, 2, 2, 3))',
    'f64|annulus_r2_r1|lazy1': 'float64/ndarray/((9,), (11,))',
    'f64|annulus_r2_r1|lazy2': 'float64/ndarray/((2, 2, 2, 3), (3, 3, 3, 2))',
    'f64|annulus_r2_r1|lazy3': 'float64/ndarray/((7, 2), (2, 2, 2, 2, 3))',
    'f64|annulus_r2_r1|lazy4': 'float64/ndarray/((2, 2, 2, 3), (11,))',
    'f64|annulus_r2_r1|lazy5': 'float64/ndarray/((9,), (2, 2, 2, 2, 3))',
    'f64|annulus_r2_r1|lazy6': 'float64/ndarray/((7, 2), (3, 8))',
    'f64|circle_1x2_r3': '29fadd31928044dd04a8',
    'f64|circle_1x2_r3|lazy0': 'float64/ndarray/((1, 1, 1, 1, 1, 1, 1, 1, 1), (3, 3, 5))',
    'f64|circle_1x2_r3|lazy1': 'float64/ndarray/((9,), (11,))',
    'f64|circle_1x2_r3|lazy2': 'float64/ndarray/((2, 2, 2, 2, 1), (3, 3, 5))',
    'f64|circle_1x2_r3|lazy3': 'float64/ndarray/((8, 1), (4, 4, 3))',
    'f64|circle_1x2_r3|lazy4': 'float64/ndarray/((1, 1, 1, 1, 1, 1, 1, 1, 1), (11,))',
    'f64|circle_1x2_r3|lazy5': 'float64/ndarray/((9,), (3, 3, 5))',
    'f64|circle_1x2_r3|lazy6': 'float64/ndarray/((1, 6, 2), (3, 8))',
    'f64|circle_r1': 'c8b4d9eb762459b0681b',
    'f64|circle_r1|lazy0': 'float64/ndarray/((1, 1, 1, 1, 1, 1, 1, 1, 1), (1, 1, 1, 1, 1, 1, 1, 1, 1, 1, 1))',
    'f64|circle_r1|lazy1': 'float64/ndarray/((9,), (11,))',
    'f64|circle_r1|lazy2': 'float64/ndarray/((2, 2, 2, 2, 1), (3, 3, 3, 2))',
    'f64|circle_r1|lazy3': 'float64/ndarray/((8, 1), (2, 2, 2, 2, 2, 1))',
    'f64|circle_r1|lazy4': 'float64/ndarray/((1, 1, 1, 1, 1, 1, 1, 1, 1), (11,))',
    'f64|circle_r1|lazy5': 'float64/ndarray/((9,), (1, 1, 1, 1, 1, 1, 1, 1, 1, 1, 1))',
    'f64|circle_r1|lazy6': 'float64/ndarray/((1, 6, 2), (2, 1, 8))',
    'f64|k1x1': 'a4d68b89e14622234212',
    'f64|k1x1|lazy0': 'float64/ndarray/((1, 1, 1, 1, 1, 1, 1, 1, 1), (1, 1, 1, 1, 1, 1, 1, 1, 1, 1, 1))',
    'f64|k1x1|lazy1': 'float64/ndarray/((9,), (11,))',
    'f64|k1x1|lazy2': 'float64/ndarray/((2, 2, 2, 2, 1), (3, 3, 3, 2))',
    'f64|k1x1|lazy3': 'float64/ndarray/((8, 1), (2, 2, 2, 2, 2, 1))',
    'f64|k1x1|lazy4': 'float64/ndarray/((1, 1, 1, 1, 1, 1, 1, 1, 1), (11,))',
    'f64|k1x1|lazy5': 'float64/ndarray/((9,), (1, 1, 1, 1, 1, 1, 1, 1, 1, 1, 1))',
    'f64|k1x1|lazy6': 'float64/ndarray/((1, 6, 2), (2, 1, 8))',
    'f64|k3x3_f32': '3e2eadb15f657361ba46',
    'f64|k3x3_f32|lazy0': 'float64/ndarray/((1, 1, 1, 1, 1, 1, 1, 1, 1), (1, 1, 1, 1, 1, 1, 1, 1, 1, 1, 1))',
    'f64|k3x3_f32|lazy1': 'float64/ndarray/((9,), (11,))',
    'f64|k3x3_f32|lazy2': 'float64/ndarray/((2, 2, 2, 2, 1), (3, 3, 3, 2))',
    'f64|k3x3_f32|lazy3': 'float64/ndarray/((8, 1), (2, 2, 2, 2, 2, 1))',
    'f64|k3x3_f32|lazy4': 'float64/ndarray/((1, 1, 1, 1, 1, 1, 1, 1, 1), (11,))',
    'f64|k3x3_f32|lazy5': 'float64/ndarray/((9,), (1, 1, 1, 1, 1, 1, 1, 1, 1, 1, 1))',
    'f64|k3x3_f32|lazy6': 'float64/ndarray/((1, 6, 2), (2, 1, 8))',
    'f64|k3x5_weights': '73a7c375f07232f852c1',
    'f64|k3x5_weights|lazy0': 'float64/ndarray/((1, 1, 1, 1, 1, 1, 1, 1, 1), (2, 2, 2, 2, 3))',
    'f64|k3x5_weights|lazy1': 'float64/ndarray/((9,), (11,))',
    'f64|k3x5_weights|lazy2': 'float64/ndarray/((2, 2, 2, 2, 1), (3, 3, 3, 2))',
    'f64|k3x5_weights|lazy3': 'float64/ndarray/((8, 1), (2, 2, 2, 2, 3))',
    'f64|k3x5_weights|lazy4': 'float64/ndarray/((1, 1, 1, 1, 1, 1, 1, 1, 1), (11,))',
    'f64|k3x5_weights|lazy5': 'float64/ndarray/((9,), (2, 2, 2, 2, 3))',
    'f64|k3x5_weights|lazy6': 'float64/ndarray/((1, 6, 2), (3, 8))',
    'f64|k5x1_int': 'c2caa5b21a31408ffa8f',
    'f64|k5x1_int|lazy0': 'float64/ndarray/((2, 2, 2, 3), (1, 1, 1, 1, 1, 1, 1, 1, 1, 1, 1))',
    'f64|k5x1_int|lazy1': 'float64/ndarray/((9,), (11,))',
    'f64|k5x1_int|lazy2': 'float64/ndarray/((2, 2, 2, 3), (3, 3, 3, 2))',
    'f64|k5x1_int|lazy3': 'float64/ndarray/((7, 2), (2, 2, 2, 2, 2, 1))',
    'f64|k5x1_int|lazy4': 'float64/ndarray/((2, 2, 2, 3), (11,))',
    'f64|k5x1_int|lazy5': 'float64/ndarray/((9,), (1, 1, 1, 1, 1, 1, 1, 1, 1, 1, 1))',
    'f64|k5x1_int|lazy6': 'float64/ndarray/((7, 2), (2, 1, 8))',
    'hotspots|f32|annulus_r2_r1': '200ae1e877d199123816',
    'hotspots|f32|annulus_r2_r1|dask0': '200ae1e877d199123816',
    'hotspots|f32|annulus_r2_r1|dask1': '200ae1e877d199123816',
    'hotspots|f32|annulus_r2_r1|dask2': '200ae1e877d199123816',
    'hotspots|f32|circle_r1': '200ae1e877d199123816',
    'hotspots|f32|circle_r1|dask0': '200ae1e877d199123816',
    'hotspots|f32|circle_r1|dask1': '200ae1e877d199123816',
    'hotspots|f32|circle_r1|dask2': '200ae1e877d199123816',
    'hotspots|f32|k3x5_weights': '89eabfa1293d5da9ff60',
    'hotspots|f32|k3x5_weights|dask0': '89eabfa1293d5da9ff60',
    'hotspots|f32|k3x5_weights|dask1': '89eabfa1293d5da9ff60',
    'hotspots|f32|k3x5_weights|dask2': '89eabfa1293d5da9ff60',
    'hotspots|f64|annulus_r2_r1': '200ae1e877d199123816',
    'hotspots|f64|annulus_r2_r1|dask0': '200ae1e877d199123816',
    'hotspots|f64|annulus_r2_r1|dask1': '200ae1e877d199123816',
    'hotspots|f64|annulus_r2_r1|dask2': '200ae1e877d199123816',
    'hotspots|f64|circle_r1': '200ae1e877d199123816',
    'hotspots|f64|circle_r1|dask0': '200ae1e877d199123816',
    'hotspots|f64|circle_r1|dask1': '200ae1e877d199123816',
    'hotspots|f64|circle_r1|dask2': '200ae1e877d199123816',
    'hotspots|f64|k3x5_weights': '89eabfa1293d5da9ff60',
    'hotspots|f64|k3x5_weights|dask0': '89eabfa1293d5da9ff60',
    'hotspots|f64|k3x5_weights|dask1': '89eabfa1293d5da9ff60',
    'hotspots|f64|k3x5_weights|dask2': '89eabfa1293d5da9ff60',
    'hotspots|i32|annulus_r2_r1': '2b6949ab92c8035a6cad',
    'hotspots|i32|annulus_r2_r1|dask0': '2b6949ab92c8035a6cad',
    'hotspots|i32|annulus_r2_r1|dask1': '2b6949ab92c8035a6cad',
    'hotspots|i32|annulus_r2_r1|dask2': '2b6949ab92c8035a6cad',
    'hotspots|i32|circle_r1': '2b6949ab92c8035a6cad',
    'hotspots|i32|circle_r1|dask0': '2b6949ab92c8035a6cad',
    'hotspots|i32|circle_r1|dask1': '2b6949ab92c8035a6cad',
    'hotspots|i32|circle_r1|dask2': '2b6949ab92c8035a6cad',
    'hotspots|i32|k3x5_weights': '643b32f89dc788676571',
    'hotspots|i32|k3x5_weights|dask0': '643b32f89dc788676571',
    'hotspots|i32|k3x5_weights|dask1': '643b32f89dc788676571',
    'hotspots|i32|k3x5_weights|dask2': '643b32f89dc788676571',
    'hotspots|i64_tall|annulus_r2_r1': '963e4fd7362906947379',
    'hotspots|i64_tall|annulus_r2_r1|dask0': '963e4fd7362906947379',
    'hotspots|i64_tall|annulus_r2_r1|dask1': '963e4fd7362906947379',
    'hotspots|i64_tall|annulus_r2_r1|dask2': '963e4fd7362906947379',
    'hotspots|i64_tall|circle_r1': '963e4fd7362906947379',
    'hotspots|i64_tall|circle_r1|dask0': '963e4fd7362906947379',
    'hotspots|i64_tall|circle_r1|dask1': '963e4fd7362906947379',
    'hotspots|i64_tall|circle_r1|dask2': '963e4fd7362906947379',
    'hotspots|i64_tall|k3x5_weights': '963e4fd7362906947379',
    'hotspots|i64_tall|k3x5_weights|dask0': '963e4fd7362906947379',
    'hotspots|i64_tall|k3x5_weights|dask1': '963e4fd7362906947379',
    'hotspots|i64_tall|k3x5_weights|dask2': '963e4fd7362906947379',
    'hotspots|u8|annulus_r2_r1': '8985d6accf4d142684b5',
    'hotspots|u8|annulus_r2_r1|dask0': '8985d6accf4d142684b5',
    'hotspots|u8|annulus_r2_r1|dask1': '8985d6accf4d142684b5',
    'hotspots|u8|annulus_r2_r1|dask2': '8985d6accf4d142684b5',
    'hotspots|u8|circle_r1': '8985d6accf4d142684b5',
    'hotspots|u8|circle_r1|dask0': '8985d6accf4d142684b5',
    'hotspots|u8|circle_r1|dask1': '8985d6accf4d142684b5',
    'hotspots|u8|circle_r1|dask2': '8985d6accf4d142684b5',
    'hotspots|u8|k3x5_weights': '7bf9012c5437c95ae6dd',
    'hotspots|u8|k3x5_weights|dask0': '7bf9012c5437c95ae6dd',
    'hotspots|u8|k3x5_weights|dask1': '7bf9012c5437c95ae6dd',
    'hotspots|u8|k3x5_weights|dask2': '7bf9012c5437c95ae6dd',
    'i32|annulus_r2_r1': '360721695760e1f49801',
    'i32|annulus_r2_r1|lazy0': 'float64/ndarray/((2, 2, 3), (2, 2, 2))',
    'i32|annulus_r2_r1|lazy1': 'float64/ndarray/((7,), (6,))',
    'i32|annulus_r2_r1|lazy2': 'float64/ndarray/((2, 2, 3), (3, 3))',
    'i32|annulus_r2_r1|lazy3': 'float64/ndarray/((5, 2), (2, 2, 2))',
    'i32|annulus_r2_r1|lazy4': 'float64/ndarray/((2, 2, 3), (6,))',
    'i32|annulus_r2_r1|lazy5': 'float64/ndarray/((7,), (2, 2, 2))',
    'i32|annulus_r2_r1|lazy6': 'float64/ndarray/((5, 2), (3, 3))',
    'i32|circle_1x2_r3': 'f4475594a5a69301e465',
    'i32|circle_1x2_r3|lazy0': 'float64/ndarray/((1, 1, 1, 1, 1, 1, 1), (3, 3))',
    'i32|circle_1x2_r3|lazy1': 'float64/ndarray/((7,), (6,))',
    'i32|circle_1x2_r3|lazy2': 'float64/ndarray/((2, 2, 2, 1), (3, 3))',
    'i32|circle_1x2_r3|lazy3': 'float64/ndarray/((6, 1), (6,))',
    'i32|circle_1x2_r3|lazy4': 'float64/ndarray/((1, 1, 1, 1, 1, 1, 1), (6,))',
    'i32|circle_1x2_r3|lazy5': 'float64/ndarray/((7,), (3, 3))',
    'i32|circle_1x2_r3|lazy6': 'float64/ndarray/((1, 4, 2), (3, 3))',
    'i32|circle_r1': '5aa39038cb79cb080153',
    'i32|circle_r1|lazy0': 'float64/ndarray/((1, 1, 1, 1, 1, 1, 1), (1, 1, 1, 1, 1, 1))',
    'i32|circle_r1|lazy1': 'float64/ndarray/((7,), (6,))',
    'i32|circle_r1|lazy2': 'float64/ndarray/((2, 2, 2, 1), (3, 3))',
    'i32|circle_r1|lazy3': 'float64/ndarray/((6, 1), (2, 2, 2))',
    'i32|circle_r1|lazy4': 'float64/ndarray/((1, 1, 1, 1, 1, 1, 1), (6,))',
    'i32|circle_r1|lazy5': 'float64/ndarray/((7,), (1, 1, 1, 1, 1, 1))',
    'i32|circle_r1|lazy6': 'float64/ndarray/((1, 4, 2), (2, 1, 3))',
    'i32|k1x1': '85e741d0699d312762a2',
    'i32|k1x1|lazy0': 'float64/ndarray/((1, 1, 1, 1, 1, 1, 1), (1, 1, 1, 1, 1, 1))',
    'i32|k1x1|lazy1': 'float64/ndarray/((7,), (6,))',
    'i32|k1x1|lazy2': 'float64/ndarray/((2, 2, 2, 1), (3, 3))',
    'i32|k1x1|lazy3': 'float64/ndarray/((6, 1), (2, 2, 2))',
    'i32|k1x1|lazy4': 'float64/ndarray/((1, 1, 1, 1, 1, 1, 1), (6,))',
    'i32|k1x1|lazy5': 'float64/ndarray/((7,), (1, 1, 1, 1, 1, 1))',
    'i32|k1x1|lazy6': 'float64/ndarray/((1, 4, 2), (2, 1, 3))',
    'i32|k3x3_f32': '0122b251487bb113edd8',
    'i32|k3x3_f32|lazy0': 'float64/ndarray/((1, 1, 1, 1, 1, 1, 1), (1, 1, 1, 1, 1, 1))',
    'i32|k3x3_f32|lazy1': 'float64/ndarray/((7,), (6,))',
    'i32|k3x3_f32|lazy2': 'float64/ndarray/((2, 2, 2, 1), (3, 3))',
    'i32|k3x3_f32|lazy3': 'float64/ndarray/((6, 1), (2, 2, 2))',
    'i32|k3x3_f32|lazy4': 'float64/ndarray/((1, 1, 1, 1, 1, 1, 1), (6,))',
    'i32|k3x3_f32|lazy5': 'float64/ndarray/((7,), (1, 1, 1, 1, 1, 1))',
    'i32|k3x3_f32|lazy6': 'float64/ndarray/((1, 4, 2), (2, 1, 3))',
    'i32|k3x5_weights': '53f68047ee1f1c30cb95',
    'i32|k3x5_weights|lazy0': 'float64/ndarray/((1, 1, 1, 1, 1, 1, 1), (2, 2, 2))',
    'i32|k3x5_weights|lazy1': 'float64/ndarray/((7,), (6,))',
    'i32|k3x5_weights|lazy2': 'float64/ndarray/((2, 2, 2, 1), (3, 3))',
    'i32|k3x5_weights|lazy3': 'float64/ndarray/((6, 1), (2, 2, 2))',
    'i32|k3x5_weights|lazy4': 'float64/ndarray/((1, 1, 1, 1, 1, 1, 1), (6,))',
    'i32|k3x5_weights|lazy5': 'float64/ndarray/((7,), (2, 2, 2))',
    'i32|k3x5_weights|lazy6': 'float64/ndarray/((1, 4, 2), (3, 3))',
    'i32|k5x1_int': '139d69d6f68053bf9452',
    'i32|k5x1_int|lazy0': 'float64/ndarray/((2, 2, 3), (1, 1, 1, 1, 1, 1))',
    'i32|k5x1_int|lazy1': 'float64/ndarray/((7,), (6,))',
    'i32|k5x1_int|lazy2': 'float64/ndarray/((2, 2, 3), (3, 3))',
    'i32|k5x1_int|lazy3': 'float64/ndarray/((5, 2), (2, 2, 2))',
    'i32|k5x1_int|lazy4': 'float64/ndarray/((2, 2, 3), (6,))',
    'i32|k5x1_int|lazy5': 'float64/ndarray/((7,), (1, 1, 1, 1, 1, 1))',
    'i32|k5x1_int|lazy6': 'float64/ndarray/((5, 2), (2, 1, 3))',
    'i64_tall|annulus_r2_r1': 'ab262cae112a8a4e8f14',
    'i64_tall|annulus_r2_r1|lazy0': 'float64/ndarray/((2, 2, 2, 2, 2, 2), (2, 2))',
    'i64_tall|annulus_r2_r1|lazy1': 'float64/ndarray/((12,), (4,))',
    'i64_tall|annulus_r2_r1|lazy2': 'float64/ndarray/((2, 2, 2, 2, 2, 2), (4,))',
    'i64_tall|annulus_r2_r1|lazy3': 'float64/ndarray/((10, 2), (2, 2))',
    'i64_tall|annulus_r2_r1|lazy4': 'float64/ndarray/((2, 2, 2, 2, 2, 2), (4,))',
    'i64_tall|annulus_r2_r1|lazy5': 'float64/ndarray/((12,), (2, 2))',
    'i64_tall|annulus_r2_r1|lazy6': 'float64/ndarray/((10, 2), (4,))',
    'i64_tall|circle_1x2_r3': 'ab262cae112a8a4e8f14',
    'i64_tall|circle_1x2_r3|lazy0': 'float64/ndarray/((1, 1, 1, 1, 1, 1, 1, 1, 1, 1, 1, 1), (4,))',
    'i64_tall|circle_1x2_r3|lazy1': 'float64/ndarray/((12,), (4,))',
    'i64_tall|circle_1x2_r3|lazy2': 'float64/ndarray/((2, 2, 2, 2, 2, 2), (4,))',
    'i64_tall|circle_1x2_r3|lazy3': 'float64/ndarray/((11, 1), (4,))',
    'i64_tall|circle_1x2_r3|lazy4': 'float64/ndarray/((1, 1, 1, 1, 1, 1, 1, 1, 1, 1, 1, 1), (4,))',
    'i64_tall|circle_1x2_r3|lazy5': 'float64/ndarray/((12,), (4,))',
    'i64_tall|circle_1x2_r3|lazy6': 'float64/ndarray/((1, 9, 2), (4,))',
    'i64_tall|circle_r1': '35a3f3c8b32bb2322b28',
    'i64_tall|circle_r1|lazy0': 'float64/ndarray/((1, 1, 1, 1, 1, 1, 1, 1, 1, 1, 1, 1), (1, 1, 1, 1))',
    'i64_tall|circle_r1|lazy1': 'float64/ndarray/((12,), (4,))',
    'i64_tall|circle_r1|lazy2': 'float64/ndarray/((2, 2, 2, 2, 2, 2), (3, 1))',
    'i64_tall|circle_r1|lazy3': 'float64/ndarray/((11, 1), (2, 2))',
    'i64_tall|circle_r1|lazy4': 'float64/ndarray/((1, 1, 1, 1, 1, 1, 1, 1, 1, 1, 1, 1), (4,))',
    'i64_tall|circle_r1|lazy5': 'float64/ndarray/((12,), (1, 1, 1, 1))',
    'i64_tall|circle_r1|lazy6': 'float64/ndarray/((1, 9, 2), (2, 1, 1))',
    'i64_tall|k1x1': '6fa8dc312b56321e9c8c',
    'i64_tall|k1x1|lazy0': 'float64/ndarray/((1, 1, 1, 1, 1, 1, 1, 1, 1, 1, 1, 1), (1, 1, 1, 1))',
    'i64_tall|k1x1|lazy1': 'float64/ndarray/((12,), (4,))',
    'i64_tall|k1x1|lazy2': 'float64/ndarray/((2, 2, 2, 2, 2, 2), (3, 1))',
    'i64_tall|k1x1|lazy3': 'float64/ndarray/((11, 1), (2, 2))',
    'i64_tall|k1x1|lazy4': 'float64/ndarray/((1, 1, 1, 1, 1, 1, 1, 1, 1, 1, 1, 1), (4,))',
    'i64_tall|k1x1|lazy5': 'float64/ndarray/((12,), (1, 1, 1, 1))',
    'i64_tall|k1x1|lazy6': 'float64/ndarray/((1, 9, 2), (2, 1, 1))',
    'i64_tall|k3x3_f32': '1a78901bcc0f2bae2f4d',
    'i64_tall|k3x3_f32|lazy0': 'float64/ndarray/((1, 1, 1, 1, 1, 1, 1, 1, 1, 1, 1, 1), (1, 1, 1, 1))',
    'i64_tall|k3x3_f32|lazy1': 'float64/ndarray/((12,), (4,))',
    'i64_tall|k3x3_f32|lazy2': 'float64/ndarray/((2, 2, 2, 2, 2, 2), (3, 1))',
    'i64_tall|k3x3_f32|lazy3': 'float64/ndarray/((11, 1), (2, 2))',
    'i64_tall|k3x3_f32|lazy4': 'float64/ndarray/((1, 1, 1, 1, 1, 1, 1, 1, 1, 1, 1, 1), (4,))',
    'i64_tall|k3x3_f32|lazy5': 'float64/ndarray/((12,), (1, 1, 1, 1))',
    'i64_tall|k3x3_f32|lazy6': 'float64/ndarray/((1, 9, 2), (2, 1, 1))',
    'i64_tall|k3x5_weights': 'ab262cae112a8a4e8f14',
    'i64_tall|k3x5_weights|lazy0': 'float64/ndarray/((1, 1, 1, 1, 1, 1, 1, 1, 1, 1, 1, 1), (2, 2))',
    'i64_tall|k3x5_weights|lazy1': 'float64/ndarray/((12,), (4,))',
    'i64_tall|k3x5_weights|lazy2': 'float64/ndarray/((2, 2, 2, 2, 2, 2), (4,))',
    'i64_tall|k3x5_weights|lazy3': 'float64/ndarray/((11, 1), (2, 2))',
    'i64_tall|k3x5_weights|lazy4': 'float64/ndarray/((1, 1, 1, 1, 1, 1, 1, 1, 1, 1, 1, 1), (4,))',
    'i64_tall|k3x5_weights|lazy5': 'float64/ndarray/((12,), (2, 2))',
    'i64_tall|k3x5_weights|lazy6': 'float64/ndarray/((1, 9, 2), (4,))',
    'i64_tall|k5x1_int': 'fe2752247dfddc230b6b',
    'i64_tall|k5x1_int|lazy0': 'float64/ndarray/((2, 2, 2, 2, 2, 2), (1, 1, 1, 1))',
    'i64_tall|k5x1_int|lazy1': 'float64/ndarray/((12,), (4,))',
    'i64_tall|k5x1_int|lazy2': 'float64/ndarray/((2, 2, 2, 2, 2, 2), (3, 1))',
    'i64_tall|k5x1_int|lazy3': 'float64/ndarray/((10, 2), (2, 2))',
    'i64_tall|k5x1_int|lazy4': 'float64/ndarray/((2, 2, 2, 2, 2, 2), (4,))',
    'i64_tall|k5x1_int|lazy5': 'float64/ndarray/((12,), (1, 1, 1, 1))',
    'i64_tall|k5x1_int|lazy6': 'float64/ndarray/((10, 2), (2, 1, 1))',
    'u8|annulus_r2_r1': '1dad1d126ce96d0c8dca',
    'u8|annulus_r2_r1|lazy0': 'float64/ndarray/((2, 2, 2), (2, 2, 2, 3))',
    'u8|annulus_r2_r1|lazy1': 'float64/ndarray/((6,), (9,))',
    'u8|annulus_r2_r1|lazy2': 'float64/ndarray/((2, 2, 2), (3, 3, 3))',
    'u8|annulus_r2_r1|lazy3': 'float64/ndarray/((4, 2), (2, 2, 2, 3))',
    'u8|annulus_r2_r1|lazy4': 'float64/ndarray/((2, 2, 2), (9,))',
    'u8|annulus_r2_r1|lazy5': 'float64/ndarray/((6,), (2, 2, 2, 3))',
    'u8|annulus_r2_r1|lazy6': 'float64/ndarray/((4, 2), (3, 6))',
    'u8|circle_1x2_r3': 'ceac239b616955946809',
    'u8|circle_1x2_r3|lazy0': 'float64/ndarray/((1, 1, 1, 1, 1, 1), (3, 3, 3))',
    'u8|circle_1x2_r3|lazy1': 'float64/ndarray/((6,), (9,))',
    'u8|circle_1x2_r3|lazy2': 'float64/ndarray/((2, 2, 2), (3, 3, 3))',
    'u8|circle_1x2_r3|lazy3': 'float64/ndarray/((5, 1), (4, 5))',
    'u8|circle_1x2_r3|lazy4': 'float64/ndarray/((1, 1, 1, 1, 1, 1), (9,))',
    'u8|circle_1x2_r3|lazy5': 'float64/ndarray/((6,), (3, 3, 3))',
    'u8|circle_1x2_r3|lazy6': 'float64/ndarray/((1, 3, 2), (3, 6))',
    'u8|circle_r1': '680c31a161da7a1f1cb9',
    'u8|circle_r1|lazy0': 'float64/ndarray/((1, 1, 1, 1, 1, 1), (1, 1, 1, 1, 1, 1, 1, 1, 1))',
    'u8|circle_r1|lazy1': 'float64/ndarray/((6,), (9,))',
    'u8|circle_r1|lazy2': 'float64/ndarray/((2, 2, 2), (3, 3, 3))',
    'u8|circle_r1|lazy3': 'float64/ndarray/((5, 1), (2, 2, 2, 2, 1))',
    'u8|circle_r1|lazy4': 'float64/ndarray/((1, 1, 1, 1, 1, 1), (9,))',
    'u8|circle_r1|lazy5': 'float64/ndarray/((6,), (1, 1, 1, 1, 1, 1, 1, 1, 1))',
    'u8|circle_r1|lazy6': 'float64/ndarray/((1, 3, 2), (2, 1, 6))',
    'u8|k1x1': '2670878214308063734f',
    'u8|k1x1|lazy0': 'float64/ndarray/((1, 1, 1, 1, 1, 1), (1, 1, 1, 1, 1, 1, 1, 1, 1))',
    'u8|k1x1|lazy1': 'float64/ndarray/((6,), (9,))',
    'u8|k1x1|lazy2': 'float64/ndarray/((2, 2, 2), (3, 3, 3))',
    'u8|k1x1|lazy3': 'float64/ndarray/((5, 1), (2, 2, 2, 2, 1))',
    'u8|k1x1|lazy4': 'float64/ndarray/((1, 1, 1, 1, 1, 1), (9,))',
    'u8|k1x1|lazy5': 'float64/ndarray/((6,), (1, 1, 1, 1, 1, 1, 1, 1, 1))',
    'u8|k1x1|lazy6': 'float64/ndarray/((1, 3, 2), (2, 1, 6))',
    'u8|k3x3_f32': 'fc51aeae2cdf0debf8cb',
    'u8|k3x3_f32|lazy0': 'float64/ndarray/((1, 1, 1, 1, 1, 1), (1, 1, 1, 1, 1, 1, 1, 1, 1))',
    'u8|k3x3_f32|lazy1': 'float64/ndarray/((6,), (9,))',
    'u8|k3x3_f32|lazy2': 'float64/ndarray/((2, 2, 2), (3, 3, 3))',
    'u8|k3x3_f32|lazy3': 'float64/ndarray/((5, 1), (2, 2, 2, 2, 1))',
    'u8|k3x3_f32|lazy4': 'float64/ndarray/((1, 1, 1, 1, 1, 1), (9,))',
    'u8|k3x3_f32|lazy5': 'float64/ndarray/((6,), (1, 1, 1, 1, 1, 1, 1, 1, 1))',
    'u8|k3x3_f32|lazy6': 'float64/ndarray/((1, 3, 2), (2, 1, 6))',
    'u8|k3x5_weights': '39048af313d72fc8884e',
    'u8|k3x5_weights|lazy0': 'float64/ndarray/((1, 1, 1, 1, 1, 1), (2, 2, 2, 3))',
    'u8|k3x5_weights|lazy1': 'float64/ndarray/((6,), (9,))',
    'u8|k3x5_weights|lazy2': 'float64/ndarray/((2, 2, 2), (3, 3, 3))',
    'u8|k3x5_weights|lazy3': 'float64/ndarray/((5, 1), (2, 2, 2, 3))',
    'u8|k3x5_weights|lazy4': 'float64/ndarray/((1, 1, 1, 1, 1, 1), (9,))',
    'u8|k3x5_weights|lazy5': 'float64/ndarray/((6,), (2, 2, 2, 3))',
    'u8|k3x5_weights|lazy6': 'float64/ndarray/((1, 3, 2), (3, 6))',
    'u8|k5x1_int': '74a019d7c38815b8e06e',
    'u8|k5x1_int|lazy0': 'float64/ndarray/((2, 2, 2), (1, 1, 1, 1, 1, 1, 1, 1, 1))',
    'u8|k5x1_int|lazy1': 'float64/ndarray/((6,), (9,))',
    'u8|k5x1_int|lazy2': 'float64/ndarray/((2, 2, 2), (3, 3, 3))',
    'u8|k5x1_int|lazy3': 'float64/ndarray/((4, 2), (2, 2, 2, 2, 1))',
    'u8|k5x1_int|lazy4': 'float64/ndarray/((2, 2, 2), (9,))',
    'u8|k5x1_int|lazy5': 'float64/ndarray/((6,), (1, 1, 1, 1, 1, 1, 1, 1, 1))',
    'u8|k5x1_int|lazy6': 'float64/ndarray/((4, 2), (2, 1, 6))',
}

if __name__ == '__main__':
    sys.exit(main('--record' in sys.argv))
