"""Differential test for the focal.py mean() iteration rewrite (C10 / t9).

Run from inside the worktree:
    cd /tmp/t4/TC10 && PYTHONPATH=/tmp/t4/TC10 /venv/bin/python /tmp/t4/out/TC10-t9/equiv.py
`--record` prints the digest table (used once on the unmodified tree).
"""
import hashlib
import sys
import warnings

import dask.array as da
import numpy as np
import xarray as xr

import xrspatial
from xrspatial.focal import mean

warnings.filterwarnings('ignore')

DTYPES = ['int8', 'int16', 'int32', 'int64', 'uint8', 'uint16', 'uint32', 'uint64',
          'float32', 'float64']
SHAPES = [(1, 1), (1, 4), (3, 1), (2, 2), (5, 8), (9, 4)]


def make(shape, dtype, seed):
    rng = np.random.RandomState(seed)
    a = rng.randint(0, 6, size=shape).astype(dtype)
    if np.dtype(dtype).kind == 'f':
        a = a + (rng.rand(*shape) > 0.5).astype(dtype) * rng.rand(*shape).astype(dtype)
        flat = a.ravel()
        n = flat.size
        if n > 3:
            flat[rng.randint(n)] = np.nan
            flat[rng.randint(n)] = np.inf
            flat[rng.randint(n)] = -np.inf
        a = flat.reshape(shape)
    return a


def layouts(a):
    yield 'C', np.ascontiguousarray(a)
    yield 'F', np.asfortranarray(a)
    big = np.zeros((a.shape[0] * 2, a.shape[1] * 2), dtype=a.dtype)
    big[::2, ::2] = a
    yield 'view', big[::2, ::2]
    ro = a.copy()
    ro.setflags(write=False)
    yield 'ro', ro


def wrap(data, backend):
    h, w = data.shape
    if backend == 'dask':
        data = da.from_array(data, chunks=(max(1, h // 2 + 1), max(1, w // 2 + 1)))
    agg = xr.DataArray(data, dims=['lat', 'lon'],
                       coords={'lat': np.linspace(5, 6, h), 'lon': np.linspace(-3, 3, w),
                               'band': 7},
                       attrs={'res': (0.5, 0.25), 'crs': 'EPSG:4326', 'nodata': -1},
                       name='src')
    return agg


def digest(arr):
    arr = np.asarray(arr)
    m = hashlib.sha256()
    m.update(str(arr.dtype).encode())
    m.update(str(arr.shape).encode())
    # canonicalise NaN payloads
    if arr.dtype.kind == 'f':
        arr = np.where(np.isnan(arr), np.array(np.nan, dtype=arr.dtype), arr)
    m.update(np.ascontiguousarray(arr).tobytes())
    return m.hexdigest()[:16]


# ---- independent reference ------------------------------------------------
def _eq(a, b):
    return a == b or (np.isnan(a) and np.isnan(b))


def ref_mean_pass(d, excludes):
    rows, cols = d.shape
    out = np.zeros_like(d)
    for y in range(rows):
        for x in range(cols):
            v = d[y, x]
            if any(_eq(v, e) for e in excludes):
                out[y, x] = v
                continue
            s = 0.0
            n = 0
            for yy in range(max(y - 1, 0), min(y + 2, rows)):
                for xx in range(max(x - 1, 0), min(x + 2, cols)):
                    w = d[yy, xx]
                    if not np.isnan(w):
                        s += w
                        n += 1
            out[y, x] = s / n if n else np.nan
    return out


def ref_mean(a, passes, excludes):
    d = np.asarray(a).astype(float)
    for _ in range(passes):
        d = ref_mean_pass(d, excludes)
    return d


def same(a, b):
    a = np.asarray(a)
    b = np.asarray(b)
    return a.dtype == b.dtype and a.shape == b.shape and np.array_equal(a, b, equal_nan=True)


FAIL = []


def check_identity(tag, agg, before, result):
    """C10 checks: input untouched, identity kept, no shared writable memory."""
    after = np.asarray(agg.data)
    if not (after.dtype == before.dtype and np.array_equal(after, before, equal_nan=before.dtype.kind == 'f')):
        FAIL.append(tag + ': input values modified')
    if result.dims != agg.dims or result.shape != agg.shape:
        FAIL.append(tag + ': dims/shape')
    if dict(result.attrs) != {'res': (0.5, 0.25), 'crs': 'EPSG:4326', 'nodata': -1}:
        FAIL.append(tag + ': attrs')
    for c in ('lat', 'lon', 'band'):
        if c not in result.coords or not np.array_equal(result.coords[c].values,
                                                        agg.coords[c].values):
            FAIL.append(tag + ': coord ' + c)
    if isinstance(agg.data, da.Array) != isinstance(result.data, da.Array):
        FAIL.append(tag + ': backend')
    if isinstance(result.data, np.ndarray):
        if np.shares_memory(result.data, agg.data):
            FAIL.append(tag + ': shares memory')
        if result.data.flags.writeable:
            result.data[...] = 0
            after = np.asarray(agg.data)
            if not np.array_equal(after, before, equal_nan=before.dtype.kind == 'f'):
                FAIL.append(tag + ': write-through')


PARAMS = [dict(), dict(passes=2), dict(passes=3, excludes=[np.nan, 0.0]),
          dict(excludes=[3.0, 1.0, 5.0], name='m2'), dict(passes=0), dict(excludes=[0]),
          dict(excludes=[]), dict(excludes=[np.nan, 0]), dict(excludes=(2.0,), passes=2)]


def run_all():
    table = {}
    seed = 200
    for dtype in DTYPES:
        for shape in SHAPES:
            seed += 1
            base = make(shape, dtype, seed)
            for lname, arr in layouts(base):
                for backend in ('numpy', 'dask'):
                    for pi, kw in enumerate(PARAMS):
                        key = '%s|%s|%s|%s|p%d' % (dtype, 'x'.join(map(str, shape)), lname,
                                                   backend, pi)
                        before = np.array(arr, copy=True)
                        agg = wrap(arr, backend)
                        try:
                            with np.errstate(all='ignore'):
                                r = mean(agg, **kw)
                                got = np.asarray(r.data)
                        except Exception as e:
                            table[key] = 'EXC:' + type(e).__name__
                            if not np.array_equal(np.asarray(agg.data), before,
                                                  equal_nan=before.dtype.kind == 'f'):
                                FAIL.append(key + ': input modified on error path')
                            continue
                        table[key] = digest(got)
                        with np.errstate(all='ignore'):
                            exp = ref_mean(before, kw.get('passes', 1),
                                           list(kw.get('excludes', [np.nan])))
                        if not same(got, exp):
                            FAIL.append(key + ': mean != reference')
                        if r.name != kw.get('name', 'mean'):
                            FAIL.append(key + ': name')
                        check_identity(key, agg, before, r)
    return table


def overall(table):
    m = hashlib.sha256()
    for k in sorted(table):
        m.update((k + '=' + table[k] + ';').encode())
    return m.hexdigest()


# recorded on the unmodified tree with --record
EXPECTED_N = 4320
EXPECTED = '0acdc5496d0b0cfe3e2c04a163bfbcab4e06e9146dbbef7070bbb35325b62309'


def main():
    assert xrspatial.__file__.startswith('/tmp/t4/TC10/'), xrspatial.__file__
    table = run_all()
    if '--record' in sys.argv:
        print('EXPECTED_N = %d' % len(table))
        print('EXPECTED = %r' % overall(table))
        return 0
    if EXPECTED is not None:
        if len(table) != EXPECTED_N or overall(table) != EXPECTED:
            FAIL.append('digest of all outputs differs from the recorded baseline '
                        '(%d cases, %s)' % (len(table), overall(table)))
    for f in FAIL[:40]:
        print('FAIL', f)
    print('cases: %d  failures: %d' % (len(table), len(FAIL)))
    return 1 if FAIL else 0


if __name__ == '__main__':
    sys.exit(main())
