"""Differential test for refactoring t2 (hillshade: border helper, hoisted angle constants, table dispatch) (property C10).

Runs the affected public functions on many inputs (all integer/float dtypes,
NaN/inf, odd shapes, C/F/non-contiguous/read-only layouts, numpy and dask) and
compares a bit-exact digest (dtype, shape, raw bytes) of every result with the
digest recorded from the unmodified tree.  Also re-checks C10 itself: inputs are
untouched, output shares no memory with input, and shape/dims/coords/attrs/
backend are preserved.

usage: equiv.py            -> compare with EXPECTED, exit 0 iff identical
       equiv.py --record   -> print the EXPECTED table for the current tree
"""
import hashlib
import sys
import warnings

import dask
import dask.array as da
import numpy as np
import xarray as xr

import xrspatial
from xrspatial import hillshade

warnings.filterwarnings('ignore')
dask.config.set(scheduler='synchronous')

DTYPES = ['int8', 'int16', 'int32', 'int64', 'uint8', 'uint16', 'uint32', 'uint64',
          'float32', 'float64']
SHAPES = [(1, 1), (1, 8), (2, 5), (3, 3), (4, 3), (7, 11), (10, 6)]

CASES = [('hillshade', hillshade, [{}, {'azimuth': 10, 'angle_altitude': 70, 'name': 'hs'},
                                    {'azimuth': 360, 'angle_altitude': 0}])]


def base_array(shape, dtype, seed):
    rng = np.random.RandomState(seed)
    n = shape[0] * shape[1]
    if np.dtype(dtype).kind == 'f':
        a = (rng.rand(n) * 40 - 10).astype(dtype)
        a = np.where(rng.rand(n) < 0.3, np.round(a), a).astype(dtype)
        if n > 4:
            a[rng.randint(0, n, size=max(1, n // 9))] = np.nan
            a[rng.randint(0, n)] = np.inf
            a[rng.randint(0, n)] = -np.inf
    else:
        info = np.iinfo(dtype)
        lo = max(info.min, -6)
        hi = min(info.max, 12)
        a = rng.randint(lo, hi + 1, size=n).astype(dtype)
        if n > 6:
            a[rng.randint(0, n)] = info.max
            a[rng.randint(0, n)] = info.min
    a = a.reshape(shape)
    if seed % 3 == 0 and shape[0] >= 4 and shape[1] >= 4:
        a[0:4, 0:4] = 3  # plateau: flat neighbourhoods
    return a


def layouts(a):
    yield 'C', np.ascontiguousarray(a)
    yield 'F', np.asfortranarray(a)
    big = np.zeros((a.shape[0] * 2 + 1, a.shape[1] * 3 + 2), dtype=a.dtype)
    view = big[1::2, 2::3]
    view[...] = a
    yield 'view', view
    ro = a.copy()
    ro.setflags(write=False)
    yield 'ro', ro


def make_raster(data, backend, chunks=None):
    h, w = data.shape
    if backend == 'dask':
        data = da.from_array(data, chunks=chunks)
    r = xr.DataArray(
        data, dims=['lat', 'lon'], name='src',
        coords={'lat': np.linspace(5.0, 5.0 + 0.5 * (h - 1), h)[::-1].copy(),
                'lon': np.linspace(-3.0, -3.0 + 0.25 * (w - 1), w),
                'band': 7, 'time': np.datetime64('2020-01-02')},
        attrs={'res': (0.25, 0.5), 'crs': 'EPSG:4326', 'nested': {'k': [1, 2]}})
    return r


def digest(arr):
    arr = np.asarray(arr)
    hsh = hashlib.sha256()
    hsh.update(str(arr.dtype).encode())
    hsh.update(str(arr.shape).encode())
    hsh.update(np.ascontiguousarray(arr).tobytes())
    return hsh.hexdigest()[:16]


def check_identity(key, src, snap, out, backend):
    """C10 itself: identity kept, input untouched, no shared writable memory."""
    errs = []
    if out.shape != src.shape or out.dims != src.dims:
        errs.append('shape/dims')
    if dict(out.attrs) != snap['attrs'] or dict(src.attrs) != snap['attrs']:
        errs.append('attrs')
    if set(out.coords) != set(snap['coords']):
        errs.append('coord names')
    for k, v in snap['coords'].items():
        if k in out.coords and not np.array_equal(np.asarray(out.coords[k].values), v):
            errs.append('out coord ' + k)
        if not np.array_equal(np.asarray(src.coords[k].values), v):
            errs.append('in coord ' + k)
    if backend == 'dask':
        if not isinstance(out.data, da.Array):
            errs.append('backend')
    else:
        if not isinstance(out.data, np.ndarray):
            errs.append('backend')
    if digest(snap['raw']) != snap['digest']:
        errs.append('input values changed')
    if backend == 'numpy':
        if np.shares_memory(out.data, snap['raw']):
            errs.append('shares memory')
        if out.data.flags.writeable and out.size:
            out.data[...] = 0
            if digest(snap['raw']) != snap['digest']:
                errs.append('write-through')
    return errs


def run_all():
    results = {}
    problems = []
    seed = 0
    for fname, func, kwargs_list in CASES:
        for shape in SHAPES:
            for dtype in DTYPES:
                seed += 1
                a = base_array(shape, dtype, seed)
                variants = [('numpy', lay, arr, None) for lay, arr in layouts(a)]
                variants.append(('dask', 'c1', np.ascontiguousarray(a), shape))
                variants.append(('dask', 'c2', np.ascontiguousarray(a),
                                 (max(1, (shape[0] + 1) // 2), max(1, (shape[1] + 1) // 2))))
                variants.append(('dask', 'c3', np.asfortranarray(a), (3, 4)))
                for backend, lay, arr, chunks in variants:
                    for ki, kwargs in enumerate(kwargs_list):
                        key = '%s|%s|%s|%s|%s|%d' % (fname, shape, dtype, backend, lay, ki)
                        src = make_raster(arr, backend, chunks)
                        snap = {'raw': arr, 'digest': digest(arr),
                                'attrs': {'res': (0.25, 0.5), 'crs': 'EPSG:4326',
                                          'nested': {'k': [1, 2]}},
                                'coords': {k: np.asarray(v.values).copy()
                                           for k, v in src.coords.items()}}
                        try:
                            out = func(src, **kwargs)
                            val = out.data.compute() if backend == 'dask' else out.data
                            res = digest(val) + '|' + str(out.name)
                            errs = check_identity(key, src, snap, out, backend)
                            if errs:
                                problems.append((key, errs))
                        except Exception as e:  # recorded: must stay the same error
                            res = 'EXC:' + type(e).__name__
                        results[key] = res
    return results, problems


def fold(results):
    """one digest per (function, shape, dtype) to keep the table small"""
    folded = {}
    for key in sorted(results):
        g = '|'.join(key.split('|')[:3])
        folded.setdefault(g, hashlib.sha256()).update((key + '=' + results[key]).encode())
    return {g: h.hexdigest()[:20] for g, h in folded.items()}


EXPECTED = {'hillshade|(1, 1)|float32': '55c62b543d8e79f2d1f7',
 'hillshade|(1, 1)|float64': '628513891175ccfcefe1',
 'hillshade|(1, 1)|int16': '9c4b62cdd87fe4591b65',
 'hillshade|(1, 1)|int32': '732556764546e7290323',
 'hillshade|(1, 1)|int64': 'ae45139d3a1e6fbc1ebc',
 'hillshade|(1, 1)|int8': 'fd5eb5444ab150032c35',
 'hillshade|(1, 1)|uint16': 'a412295ba8c36d11b4cd',
 'hillshade|(1, 1)|uint32': '0d35d51ec988d341cdf8',
 'hillshade|(1, 1)|uint64': 'd850023d962fbddd3077',
 'hillshade|(1, 1)|uint8': 'a8c62ce41771a864439c',
 'hillshade|(1, 8)|float32': 'b1f31f999c74c13a1a43',
 'hillshade|(1, 8)|float64': '991e1b0fb7469fb1130b',
 'hillshade|(1, 8)|int16': '32fbc21c529a49656966',
 'hillshade|(1, 8)|int32': '1cd4dda95d0fa044150c',
 'hillshade|(1, 8)|int64': 'c1d103d5b5ffa5726db4',
 'hillshade|(1, 8)|int8': 'b4c8233f68fc9dcb1d1c',
 'hillshade|(1, 8)|uint16': '9e38dd8015583936da47',
 'hillshade|(1, 8)|uint32': '38fc1a4eafe45b407c96',
 'hillshade|(1, 8)|uint64': '172efeedba047812b6ee',
 'hillshade|(1, 8)|uint8': '1ef64e1d9c8c839ab047',
 'hillshade|(10, 6)|float32': 'e99d4baf014a340100ae',
 'hillshade|(10, 6)|float64': 'a6dccc5da407a48854f9',
 'hillshade|(10, 6)|int16': '056e892a0aceae35a159',
 'hillshade|(10, 6)|int32': 'c39f11a81eeefae23277',
 'hillshade|(10, 6)|int64': 'c52808b5f35605f9c444',
 'hillshade|(10, 6)|int8': '9b4f6ad0008341923a85',
 'hillshade|(10, 6)|uint16': '293ac668587a1bc1708a',
 'hillshade|(10, 6)|uint32': '6b48d4759c45d01791ed',
 'hillshade|(10, 6)|uint64': 'a03aa0b59c6d37edaf12',
 'hillshade|(10, 6)|uint8': 'e5e8bc2667c13a660cd6',
 'hillshade|(2, 5)|float32': '80f48d858642bf342da9',
 'hillshade|(2, 5)|float64': '166f6779862475b21354',
 'hillshade|(2, 5)|int16': 'bc2b7edc683d07f10c03',
 'hillshade|(2, 5)|int32': '03d8c70462e8fb97ab6d',
 'hillshade|(2, 5)|int64': '6b6dba136431171ecd99',
 'hillshade|(2, 5)|int8': '91c15cf406af7b68afbe',
 'hillshade|(2, 5)|uint16': '1ea355bb1edc6282a36b',
 'hillshade|(2, 5)|uint32': '5e36d7c31f0ebd89e045',
 'hillshade|(2, 5)|uint64': '8e56f18cb456da0a120a',
 'hillshade|(2, 5)|uint8': '7695649d4de07d3b9e5d',
 'hillshade|(3, 3)|float32': '95bd09e2ae9820344627',
 'hillshade|(3, 3)|float64': '881efab9dd7ca1497eeb',
 'hillshade|(3, 3)|int16': '1d4f74a69c1defa44abb',
 'hillshade|(3, 3)|int32': '55a9765b74ce850d8518',
 'hillshade|(3, 3)|int64': 'd94311468e037a1c7e0b',
 'hillshade|(3, 3)|int8': 'a170c08a8426d777e8cb',
 'hillshade|(3, 3)|uint16': '863a0e7940b208ec4830',
 'hillshade|(3, 3)|uint32': 'bbb29d374527cd07d3d6',
 'hillshade|(3, 3)|uint64': '57e23f8db334dee0cfdf',
 'hillshade|(3, 3)|uint8': 'ddcce68963262745b290',
 'hillshade|(4, 3)|float32': 'fd434f9bc20d4f47d696',
 'hillshade|(4, 3)|float64': 'afc4dd4710b9aba1013a',
 'hillshade|(4, 3)|int16': '6fd4a4947f7f0048e554',
 'hillshade|(4, 3)|int32': 'ad0ea2674a2ca96a52bc',
 'hillshade|(4, 3)|int64': 'b41db2f56aaf91e30107',
 'hillshade|(4, 3)|int8': '8c14e5c783b6010e8ea5',
 'hillshade|(4, 3)|uint16': 'f9588e4d6d15eb078282',
 'hillshade|(4, 3)|uint32': 'bb4838f3eefc42cb4a91',
 'hillshade|(4, 3)|uint64': 'd9c0acc2f8d04fe47874',
 'hillshade|(4, 3)|uint8': '2bebf252ca0b012f48bc',
 'hillshade|(7, 11)|float32': '85be825f6ddd4f53527f',
 'hillshade|(7, 11)|float64': '16cffd00b6ac0408dfd3',
 'hillshade|(7, 11)|int16': 'ae912a01b90dda048062',
 'hillshade|(7, 11)|int32': 'f6cb4067e477e23368c5',
 'hillshade|(7, 11)|int64': '9ff0efc86f7a31c5ced4',
 'hillshade|(7, 11)|int8': '31e31fc995258d5fb0f7',
 'hillshade|(7, 11)|uint16': '368e1553aa5c46bf91e1',
 'hillshade|(7, 11)|uint32': 'ccd4cdf797f36b8091df',
 'hillshade|(7, 11)|uint64': '45b82cf6925b2cec9a58',
 'hillshade|(7, 11)|uint8': 'cac04a65705ab33b1fbb'}


def main():
    assert xrspatial.__file__.startswith('/tmp/seed/TC10/'), xrspatial.__file__
    results, problems = run_all()
    folded = fold(results)
    if '--record' in sys.argv:
        import pprint
        pprint.pprint(folded)
        print('n_cases', len(results), 'n_exc',
              sum(v.startswith('EXC') for v in results.values()), 'problems', problems[:5])
        return 0
    bad = [k for k in sorted(set(folded) | set(EXPECTED)) if folded.get(k) != EXPECTED.get(k)]
    for k in bad[:20]:
        print('DIFF', k, folded.get(k), EXPECTED.get(k))
    for p in problems[:20]:
        print('C10 VIOLATION', p)
    print('cases=%d groups=%d diffs=%d c10_problems=%d'
          % (len(results), len(folded), len(bad), len(problems)))
    return 1 if (bad or problems) else 0


if __name__ == '__main__':
    sys.exit(main())
