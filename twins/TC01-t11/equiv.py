"""Differential test for refactoring t11 (convolution.py: inactive clamps of the
numpy convolution kernel removed, bookkeeping locals introduced in the dask
wrapper).  Run from inside the worktree:

    cd <worktree> && PYTHONPATH=<worktree> python equiv.py          # check
    cd <worktree> && PYTHONPATH=<worktree> python equiv.py --record # print hashes

Checks
  * convolution_2d / convolve_2d on numpy rasters against an independent pure
    numpy reference (same accumulation order, float64 accumulator, float32
    output, NaN border) - must be bit-identical,
  * the same calls on dask rasters for many chunkings (1-cell chunks, chunks
    smaller than the kernel, uneven chunks) and two schedulers - must be
    bit-identical to numpy and stay dask-backed,
  * focal.hotspots (which is built on convolve_2d) numpy vs dask,
  * digests of all results against values recorded on the unmodified tree.
"""
import hashlib
import sys
import warnings

import dask
import dask.array as da
import numpy as np
import xarray as xr

import xrspatial
from xrspatial import convolution, focal
from xrspatial.convolution import (annulus_kernel, circle_kernel, convolution_2d, convolve_2d,
                                   custom_kernel)

warnings.simplefilter('ignore')


def digest(arr):
    arr = np.ascontiguousarray(arr)
    h = hashlib.sha256()
    h.update(str(arr.dtype).encode())
    h.update(str(arr.shape).encode())
    h.update(arr.tobytes())
    return h.hexdigest()[:24]


def same(a, b):
    return a.dtype == b.dtype and a.shape == b.shape and \
        np.array_equal(a, b, equal_nan=True)


def reference(data, kernel):
    """Independent convolution: float64 accumulator, row-major kernel order."""
    data = np.asarray(data).astype(np.float32)
    nx, ny = data.shape
    nkx, nky = kernel.shape
    wkx, wky = nkx // 2, nky // 2
    out = np.full(data.shape, np.nan, dtype=np.float32)
    ox, oy = nx - 2 * wkx, ny - 2 * wky
    if ox <= 0 or oy <= 0:
        return out
    acc = np.zeros((ox, oy), dtype=np.float64)
    with np.errstate(all='ignore'):
        for a in range(nkx):
            for b in range(nky):
                # the product is formed in the promoted dtype of kernel and
                # float32 data, then added to the float64 accumulator
                prod = kernel[a:a + 1, b:b + 1] * data[a:a + ox, b:b + oy]
                acc = acc + prod.astype(np.float64)
    out[wkx:nx - wkx, wky:ny - wky] = acc.astype(np.float32)
    return out


def rasters():
    rng = np.random.RandomState(42)
    r = {}
    a = rng.rand(9, 11) * 100 - 30
    r['f64_9x11'] = a
    b = a.astype(np.float32).copy()
    b[2, 3] = np.nan
    b[5, 5] = np.inf
    b[8, 0] = -np.inf
    b[0, 10] = np.nan
    r['f32_9x11_nan_inf'] = b
    r['i32_8x6'] = rng.randint(-1000, 1000, size=(8, 6)).astype(np.int32)
    r['u8_7x7'] = rng.randint(0, 255, size=(7, 7)).astype(np.uint8)
    r['i64_1x9'] = np.arange(9, dtype=np.int64).reshape(1, 9) ** 2
    r['f32_10x1'] = np.linspace(-1, 1, 10, dtype=np.float32).reshape(10, 1)
    r['f64_2x2'] = np.array([[1., 2.], [3., 4.]])
    r['f32_13x12_big'] = (rng.rand(13, 12) * 1e30).astype(np.float32)
    return r


def kernels():
    rng = np.random.RandomState(7)
    k = {}
    k['ones3x3'] = np.ones((3, 3))
    k['circle1'] = circle_kernel(1, 1, 1)
    k['annulus'] = annulus_kernel(1, 1, 2, 1)
    k['w3x5'] = rng.rand(3, 5) - 0.5
    k['w5x3'] = rng.rand(5, 3) - 0.5
    k['w1x3'] = np.array([[0.25, 0.5, 0.25]])
    k['w3x1'] = np.array([[1.], [-2.], [1.]])
    k['w1x1'] = np.array([[2.0]])
    k['int7x3'] = rng.randint(-2, 3, size=(7, 3))
    k['f32_3x3'] = rng.rand(3, 3).astype(np.float32)
    return k


def chunkings(shape):
    h, w = shape
    cands = [(1, 1), (2, 2), (3, 4), (4, 3), (h, 1), (1, w), (h, w), (5, 2)]
    if h >= 3 and w >= 3:
        cands.append(((1, h - 3, 2), (2, w - 3, 1)))
    seen = []
    for c in cands:
        if c not in seen:
            seen.append(c)
    return seen


def run():
    results = {}
    problems = []
    for rname, data in rasters().items():
        for kname, kernel in kernels().items():
            key = 'conv|%s|%s' % (rname, kname)
            agg = xr.DataArray(data.copy(), dims=['y', 'x'],
                               attrs={'res': (0.5, 2.0)})
            r_np = convolution_2d(agg, kernel)
            if not isinstance(r_np.data, np.ndarray):
                problems.append(key + ' numpy result not ndarray')
            results[key] = digest(r_np.data)
            ref = reference(data, kernel)
            if not same(r_np.data, ref):
                problems.append(key + ' differs from independent reference')
            direct = convolve_2d(data.copy(), kernel)
            if not same(direct, r_np.data):
                problems.append(key + ' convolve_2d != convolution_2d')
            dask_log = []
            for chunks in chunkings(data.shape):
                d = xr.DataArray(da.from_array(data.copy(), chunks=chunks),
                                 dims=['y', 'x'])
                try:
                    r_da = convolution_2d(d, kernel)
                except Exception as e:
                    # overlap depth larger than the raster: dask refuses
                    dask_log.append('%s raises %s' % (chunks, type(e).__name__))
                    continue
                if not isinstance(r_da.data, da.Array):
                    problems.append(key + ' dask%s not dask backed' % (chunks,))
                    continue
                for sched, kw in [('synchronous', {}), ('threads', {'num_workers': 4})]:
                    try:
                        with dask.config.set(scheduler=sched, **kw):
                            v = r_da.data.compute()
                    except Exception as e:
                        dask_log.append('%s %s compute raises %s'
                                        % (chunks, sched, type(e).__name__))
                        continue
                    dask_log.append('%s %s %s' % (chunks, sched, digest(v)))
                    if not same(v, r_np.data):
                        problems.append(key + ' dask%s/%s != numpy' % (chunks, sched))
            results[key + '|dask'] = hashlib.sha256(
                '\n'.join(dask_log).encode()).hexdigest()[:24]

    # hotspots is convolve_2d + global statistics + per-cell classification
    rng = np.random.RandomState(3)
    hot = {}
    h1 = np.zeros((10, 12), dtype=np.float64)
    h1[2:4, 2:5] = 1000
    h1[6:9, 7:10] = -900
    h1 += rng.rand(10, 12)
    hot['f64'] = h1
    hot['i32'] = (h1 * 3).astype(np.int32)
    h2 = h1.astype(np.float32).copy()
    h2[0, 0] = np.nan
    h2[5, 6] = np.nan
    hot['f32_nan'] = h2
    for rname, data in hot.items():
        for kname in ['ones3x3', 'circle1', 'annulus', 'w1x3']:
            kernel = custom_kernel(np.abs(kernels()[kname]) if kname == 'w1x3'
                                   else kernels()[kname])
            key = 'hotspots|%s|%s' % (rname, kname)
            agg = xr.DataArray(data.copy(), dims=['y', 'x'])
            r_np = focal.hotspots(agg, kernel)
            results[key] = digest(r_np.data)
            dask_log = []
            for chunks in [(1, 1), (2, 5), (4, 4), (10, 12), (3, 1)]:
                d = xr.DataArray(da.from_array(data.copy(), chunks=chunks),
                                 dims=['y', 'x'])
                r_da = focal.hotspots(d, kernel)
                if not isinstance(r_da.data, da.Array):
                    problems.append(key + ' dask not dask backed')
                    continue
                with dask.config.set(scheduler='synchronous'):
                    v = r_da.data.compute()
                dask_log.append('%s %s' % (chunks, digest(v)))
                # global mean/std reduced in a different order: interior cells
                # must agree, NaN-border cells are classified 0 in both
                if v.shape != r_np.shape or (v != r_np.data).mean() > 0.02:
                    problems.append(key + ' dask%s differs from numpy' % (chunks,))
            results[key + '|dask'] = hashlib.sha256(
                '\n'.join(dask_log).encode()).hexdigest()[:24]
    return results, problems


# recorded on the unmodified tree
EXPECTED = {'conv|f32_10x1|annulus': '93a93c437092ccf9589b34da',
 'conv|f32_10x1|annulus|dask': '910bace826e55aeaf52f8189',
 'conv|f32_10x1|circle1': '93a93c437092ccf9589b34da',
 'conv|f32_10x1|circle1|dask': 'eeb5c90559f541cbd8c4ce03',
 'conv|f32_10x1|f32_3x3': '93a93c437092ccf9589b34da',
 'conv|f32_10x1|f32_3x3|dask': 'eeb5c90559f541cbd8c4ce03',
 'conv|f32_10x1|int7x3': '93a93c437092ccf9589b34da',
 'conv|f32_10x1|int7x3|dask': 'eeb5c90559f541cbd8c4ce03',
 'conv|f32_10x1|ones3x3': '93a93c437092ccf9589b34da',
 'conv|f32_10x1|ones3x3|dask': 'eeb5c90559f541cbd8c4ce03',
 'conv|f32_10x1|w1x1': '5346ea456677476173a778f7',
 'conv|f32_10x1|w1x1|dask': 'bd2df187f17dc90eabff94de',
 'conv|f32_10x1|w1x3': '93a93c437092ccf9589b34da',
 'conv|f32_10x1|w1x3|dask': 'eeb5c90559f541cbd8c4ce03',
 'conv|f32_10x1|w3x1': 'ccb284214604c328cad973a7',
 'conv|f32_10x1|w3x1|dask': '286b9c5e81e316c1e286e1e8',
 'conv|f32_10x1|w3x5': '93a93c437092ccf9589b34da',
 'conv|f32_10x1|w3x5|dask': '910bace826e55aeaf52f8189',
 'conv|f32_10x1|w5x3': '93a93c437092ccf9589b34da',
 'conv|f32_10x1|w5x3|dask': 'eeb5c90559f541cbd8c4ce03',
 'conv|f32_13x12_big|annulus': 'bb06a0495b4dc30b43f164f3',
 'conv|f32_13x12_big|annulus|dask': 'da4183f25f4284012dd4e880',
 'conv|f32_13x12_big|circle1': '2d29127b034275f14a1309ef',
 'conv|f32_13x12_big|circle1|dask': 'f021d7434c31823acce46fe6',
 'conv|f32_13x12_big|f32_3x3': '026b06bff53db44a232d53e6',
 'conv|f32_13x12_big|f32_3x3|dask': '135997cde1f2d9aa601a099e',
 'conv|f32_13x12_big|int7x3': 'e05834af031f7d5fc74c2384',
 'conv|f32_13x12_big|int7x3|dask': '9a2fce24cbd9e2b6c0f6f5ef',
 'conv|f32_13x12_big|ones3x3': '16ebe7d469bd211cebe86b02',
 'conv|f32_13x12_big|ones3x3|dask': 'a65aedaa426bd3e1e1d349d4',
 'conv|f32_13x12_big|w1x1': 'f6bec9d670e1e5a541a98631',
 'conv|f32_13x12_big|w1x1|dask': '90c164fc285b5eb7ceb2715e',
 'conv|f32_13x12_big|w1x3': 'c8e35011656b94ee02ba94f2',
 'conv|f32_13x12_big|w1x3|dask': 'cb518c3439d1eb82f670fd24',
 'conv|f32_13x12_big|w3x1': '320afb4afe8b5a69e87af2bf',
 'conv|f32_13x12_big|w3x1|dask': 'af102bc907472f019807c831',
 'conv|f32_13x12_big|w3x5': '138b07a9372f142dde460488',
 'conv|f32_13x12_big|w3x5|dask': '6ff3bcb3f30bbeae90106037',
 'conv|f32_13x12_big|w5x3': '4601c547de4229ba08189354',
 'conv|f32_13x12_big|w5x3|dask': 'a62c7cd80ae87917aadff01d',
 'conv|f32_9x11_nan_inf|annulus': '17efe9c28eafe6053c51be9d',
 'conv|f32_9x11_nan_inf|annulus|dask': 'e4e9e7d271cc1f4bafcad6a4',
 'conv|f32_9x11_nan_inf|circle1': '8d7338855fe6f53bf943f3ce',
 'conv|f32_9x11_nan_inf|circle1|dask': 'c3c76e92c73919357142d82c',
 'conv|f32_9x11_nan_inf|f32_3x3': 'a736366a859008498ffd5dd8',
 'conv|f32_9x11_nan_inf|f32_3x3|dask': '8ca648a89d419886052b0995',
 'conv|f32_9x11_nan_inf|int7x3': 'fcec6a048e4ea4b9ae99afaf',
 'conv|f32_9x11_nan_inf|int7x3|dask': '586b3e76cacb32c76f07c2c9',
 'conv|f32_9x11_nan_inf|ones3x3': 'f8d74c1ffa034c3a126445ce',
 'conv|f32_9x11_nan_inf|ones3x3|dask': 'b12933defad738b1938c88b9',
 'conv|f32_9x11_nan_inf|w1x1': 'f11108f9f24049fe35ff6335',
 'conv|f32_9x11_nan_inf|w1x1|dask': 'fecbac7e322c1ca326cee035',
 'conv|f32_9x11_nan_inf|w1x3': '1ee27f6a2859e4429c9e1607',
 'conv|f32_9x11_nan_inf|w1x3|dask': '877a001d2fe05137c285db3b',
 'conv|f32_9x11_nan_inf|w3x1': '538e18bdbbcd73c0b220c4b0',
 'conv|f32_9x11_nan_inf|w3x1|dask': 'a6fff10769a4e846a27fa51d',
 'conv|f32_9x11_nan_inf|w3x5': 'e087735255cc91d6c91d22b2',
 'conv|f32_9x11_nan_inf|w3x5|dask': 'b72a33515789fa057a210714',
 'conv|f32_9x11_nan_inf|w5x3': '2820c0c31541018e29bede8f',
 'conv|f32_9x11_nan_inf|w5x3|dask': '55c387690df92c24cf5187c6',
 'conv|f64_2x2|annulus': '906f49a2ea297ae9244e2c45',
 'conv|f64_2x2|annulus|dask': '574d518f846b46fd9b9b08bf',
 'conv|f64_2x2|circle1': '906f49a2ea297ae9244e2c45',
 'conv|f64_2x2|circle1|dask': '574d518f846b46fd9b9b08bf',
 'conv|f64_2x2|f32_3x3': '906f49a2ea297ae9244e2c45',
 'conv|f64_2x2|f32_3x3|dask': '574d518f846b46fd9b9b08bf',
 'conv|f64_2x2|int7x3': '906f49a2ea297ae9244e2c45',
 'conv|f64_2x2|int7x3|dask': '2ca43391d7acaecb72a9c9e0',
 'conv|f64_2x2|ones3x3': '906f49a2ea297ae9244e2c45',
 'conv|f64_2x2|ones3x3|dask': '574d518f846b46fd9b9b08bf',
 'conv|f64_2x2|w1x1': 'e8c85368116e359f29e23b0b',
 'conv|f64_2x2|w1x1|dask': 'da17351d5b7f92eaed2a4444',
 'conv|f64_2x2|w1x3': '906f49a2ea297ae9244e2c45',
 'conv|f64_2x2|w1x3|dask': '574d518f846b46fd9b9b08bf',
 'conv|f64_2x2|w3x1': '906f49a2ea297ae9244e2c45',
 'conv|f64_2x2|w3x1|dask': '574d518f846b46fd9b9b08bf',
 'conv|f64_2x2|w3x5': '906f49a2ea297ae9244e2c45',
 'conv|f64_2x2|w3x5|dask': '574d518f846b46fd9b9b08bf',
 'conv|f64_2x2|w5x3': '906f49a2ea297ae9244e2c45',
 'conv|f64_2x2|w5x3|dask': '574d518f846b46fd9b9b08bf',
 'conv|f64_9x11|annulus': '2e25d3d7b68de3455f0c2a7e',
 'conv|f64_9x11|annulus|dask': 'dc9722799d0871769f685b3a',
 'conv|f64_9x11|circle1': 'f8a3d4958cbfce01bef7250d',
 'conv|f64_9x11|circle1|dask': 'a2f3b1e681d3dc4cd8abc497',
 'conv|f64_9x11|f32_3x3': '17569917910810ffa32e98e6',
 'conv|f64_9x11|f32_3x3|dask': '86d741df906d610729f090b7',
 'conv|f64_9x11|int7x3': 'd34d62f8f4c871976ad7d1b1',
 'conv|f64_9x11|int7x3|dask': 'e6f7485992f4fcc88d3508f2',
 'conv|f64_9x11|ones3x3': '738a693cf28924ee55643e13',
 'conv|f64_9x11|ones3x3|dask': '85c185385a0d683f5119333c',
 'conv|f64_9x11|w1x1': '458f36c9ff9421ee93480fde',
 'conv|f64_9x11|w1x1|dask': '3a17e28132ec5097aef20aa3',
 'conv|f64_9x11|w1x3': '6938c4ea303dae1ab9b07a9c',
 'conv|f64_9x11|w1x3|dask': '4aa05fdb1975fa80f1aaad65',
 'conv|f64_9x11|w3x1': '72eabfa571b597e828ee5ab2',
 'conv|f64_9x11|w3x1|dask': '20da110cb892db3131a2509f',
 'conv|f64_9x11|w3x5': 'ad668d0edd30cc9765223612',
 'conv|f64_9x11|w3x5|dask': '792ab3782e59da2a9b174f5c',
 'conv|f64_9x11|w5x3': 'd773be8c69adc8df84ec27fd',
 'conv|f64_9x11|w5x3|dask': '24ca3c020fbfe82d629515d7',
 'conv|i32_8x6|annulus': 'efdf08a8e592390b5a843def',
 'conv|i32_8x6|annulus|dask': '53e564041a62c77f36d829f3',
 'conv|i32_8x6|circle1': 'e0ce20c2a34e6712d0b0e1bd',
 'conv|i32_8x6|circle1|dask': '21fadd2238228b2a5a8261fa',
 'conv|i32_8x6|f32_3x3': 'b5564e4b297acd473272cafa',
 'conv|i32_8x6|f32_3x3|dask': '1141ef842a51a3c964850c66',
 'conv|i32_8x6|int7x3': '9aae7d72f59e26fb6dd43306',
 'conv|i32_8x6|int7x3|dask': 'c833cd1e25347b2b0eff3196',
 'conv|i32_8x6|ones3x3': '09f5479800b1ce6581ea8bec',
 'conv|i32_8x6|ones3x3|dask': '745f60b7f69e1913ca1ea90c',
 'conv|i32_8x6|w1x1': '44679ae95acc78ca04693907',
 'conv|i32_8x6|w1x1|dask': '84bd7e5030460c804eca1475',
 'conv|i32_8x6|w1x3': '2459cb258cd8a1b78e6aa119',
 'conv|i32_8x6|w1x3|dask': '5cfcf11e04aa66a5294c4245',
 'conv|i32_8x6|w3x1': '4c2f76ce7485ccc5f96c2df1',
 'conv|i32_8x6|w3x1|dask': 'e28cae9951b9b38270fc1f27',
 'conv|i32_8x6|w3x5': '253e3f4c644436d96c5ca9e0',
 'conv|i32_8x6|w3x5|dask': 'ce4e0a9e13e474711f5a2de9',
 'conv|i32_8x6|w5x3': '077e21090ce75efc3360346c',
 'conv|i32_8x6|w5x3|dask': 'c12a1282c0ccee228ff289bd',
 'conv|i64_1x9|annulus': '5af1dd1db0d493dfee56a9fb',
 'conv|i64_1x9|annulus|dask': '563318aa855fd03999a1f64e',
 'conv|i64_1x9|circle1': '5af1dd1db0d493dfee56a9fb',
 'conv|i64_1x9|circle1|dask': 'f8ccda3c4fd7b374386734b9',
 'conv|i64_1x9|f32_3x3': '5af1dd1db0d493dfee56a9fb',
 'conv|i64_1x9|f32_3x3|dask': 'f8ccda3c4fd7b374386734b9',
 'conv|i64_1x9|int7x3': '5af1dd1db0d493dfee56a9fb',
 'conv|i64_1x9|int7x3|dask': '563318aa855fd03999a1f64e',
 'conv|i64_1x9|ones3x3': '5af1dd1db0d493dfee56a9fb',
 'conv|i64_1x9|ones3x3|dask': 'f8ccda3c4fd7b374386734b9',
 'conv|i64_1x9|w1x1': '79331e3f4a0065c746ace7a5',
 'conv|i64_1x9|w1x1|dask': '0fe3793a36a84f024cd98e0d',
 'conv|i64_1x9|w1x3': '2fcb42c8891ffcc7f2bf91d2',
 'conv|i64_1x9|w1x3|dask': 'bf8ff2cd00a1631943a3c9e4',
 'conv|i64_1x9|w3x1': '5af1dd1db0d493dfee56a9fb',
 'conv|i64_1x9|w3x1|dask': 'f8ccda3c4fd7b374386734b9',
 'conv|i64_1x9|w3x5': '5af1dd1db0d493dfee56a9fb',
 'conv|i64_1x9|w3x5|dask': 'f8ccda3c4fd7b374386734b9',
 'conv|i64_1x9|w5x3': '5af1dd1db0d493dfee56a9fb',
 'conv|i64_1x9|w5x3|dask': '563318aa855fd03999a1f64e',
 'conv|u8_7x7|annulus': '810e2dce282d806c035fb237',
 'conv|u8_7x7|annulus|dask': '68254c11c6c6bda1721e3fd8',
 'conv|u8_7x7|circle1': 'b4506db12822f1f45167db4d',
 'conv|u8_7x7|circle1|dask': 'f0296fe27123f341d9c431f6',
 'conv|u8_7x7|f32_3x3': '780fc6b67076818e0be22933',
 'conv|u8_7x7|f32_3x3|dask': 'bcac4261823724f53c7fa4c2',
 'conv|u8_7x7|int7x3': '25bba38d1524cb546969490b',
 'conv|u8_7x7|int7x3|dask': 'd1cddb58c24e5909a5a915e2',
 'conv|u8_7x7|ones3x3': 'be426fd516dd6a18e42d5963',
 'conv|u8_7x7|ones3x3|dask': '29ed64a0a7edf30bc5762a06',
 'conv|u8_7x7|w1x1': 'b2aa054efaf63579a72b06f7',
 'conv|u8_7x7|w1x1|dask': '8eacf48d4cd4a10870e974b4',
 'conv|u8_7x7|w1x3': '2d6ee3ea27adb2ee4a566205',
 'conv|u8_7x7|w1x3|dask': 'd2542cf788f2c60e68d4e3f5',
 'conv|u8_7x7|w3x1': 'dfa6d8cce45bb126899e460e',
 'conv|u8_7x7|w3x1|dask': '88bf043870e9b1fd16370a19',
 'conv|u8_7x7|w3x5': '7a095096f739d8f2d9e7a61b',
 'conv|u8_7x7|w3x5|dask': 'c6430617908a4254f05301e1',
 'conv|u8_7x7|w5x3': '8285d5818f8d31c6c09b4968',
 'conv|u8_7x7|w5x3|dask': '84a1a81f4ecfa54ce36bbb10',
 'hotspots|f32_nan|annulus': '7cdb1dfb40f35ed59816a9d2',
 'hotspots|f32_nan|annulus|dask': '964a29c20af552f540ba96ae',
 'hotspots|f32_nan|circle1': 'cbba3a579fb13f38d41c9465',
 'hotspots|f32_nan|circle1|dask': 'bed1ef016a0846be1c71147c',
 'hotspots|f32_nan|ones3x3': 'ce607ff7c9859f6bbee76129',
 'hotspots|f32_nan|ones3x3|dask': '4c25411552a5eacaba1bc832',
 'hotspots|f32_nan|w1x3': '11d4033daa3ff0a996a23e97',
 'hotspots|f32_nan|w1x3|dask': 'fd8fb79bb8b9b9a37bfea556',
 'hotspots|f64|annulus': '7cdb1dfb40f35ed59816a9d2',
 'hotspots|f64|annulus|dask': '964a29c20af552f540ba96ae',
 'hotspots|f64|circle1': 'cbba3a579fb13f38d41c9465',
 'hotspots|f64|circle1|dask': 'bed1ef016a0846be1c71147c',
 'hotspots|f64|ones3x3': 'ce607ff7c9859f6bbee76129',
 'hotspots|f64|ones3x3|dask': '4c25411552a5eacaba1bc832',
 'hotspots|f64|w1x3': '11d4033daa3ff0a996a23e97',
 'hotspots|f64|w1x3|dask': 'fd8fb79bb8b9b9a37bfea556',
 'hotspots|i32|annulus': '7cdb1dfb40f35ed59816a9d2',
 'hotspots|i32|annulus|dask': '964a29c20af552f540ba96ae',
 'hotspots|i32|circle1': 'cbba3a579fb13f38d41c9465',
 'hotspots|i32|circle1|dask': 'bed1ef016a0846be1c71147c',
 'hotspots|i32|ones3x3': 'ce607ff7c9859f6bbee76129',
 'hotspots|i32|ones3x3|dask': '4c25411552a5eacaba1bc832',
 'hotspots|i32|w1x3': '11d4033daa3ff0a996a23e97',
 'hotspots|i32|w1x3|dask': 'fd8fb79bb8b9b9a37bfea556'}


def main():
    print('xrspatial from', xrspatial.__file__)
    assert convolution.convolve_2d is convolve_2d
    results, problems = run()
    if '--record' in sys.argv:
        import pprint
        pprint.pprint(results, width=120)
        for p in problems:
            print('#PROBLEM', p, file=sys.stderr)
        return 0 if not problems else 1
    for k in sorted(set(results) | set(EXPECTED)):
        if results.get(k) != EXPECTED.get(k):
            problems.append('MISMATCH %s: got %s expected %s'
                            % (k, results.get(k), EXPECTED.get(k)))
    for p in problems:
        print(p)
    print('%d results compared, %d problems' % (len(results), len(problems)))
    return 1 if problems else 0


if __name__ == '__main__':
    sys.exit(main())
