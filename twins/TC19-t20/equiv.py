"""Differential test for TC19-t20 (radius string parsing / unit conversion feeding
circle_kernel, annulus_kernel and calc_cellsize).

Compares against (a) an independent re-implementation of the documented
"<number>[unit]" -> metres rule and (b) a digest of all results (values as
float.hex, dtypes, shapes, exception types and messages) recorded from the
unmodified tree.  Exit code 0 when identical.
"""
import hashlib
import itertools
import re
import sys

import numpy as np
import xarray as xr

import xrspatial
from xrspatial import convolution as cv

EXPECTED_DIGEST = "6a49fb74134cb5feae50e19a31ba84d9addeb240c27cc22be951926f835bf160"

h = hashlib.sha256()
fails = []


def enc(obj):
    if isinstance(obj, np.ndarray):
        return ('nd', str(obj.dtype), obj.shape, obj.tobytes())
    if isinstance(obj, (float, np.floating)):
        return (type(obj).__name__, float(obj).hex())
    if isinstance(obj, tuple):
        return tuple(enc(o) for o in obj)
    return (type(obj).__name__, repr(obj))


def call(tag, f, *a, **k):
    try:
        r = f(*a, **k)
    except Exception as e:  # noqa
        h.update(repr((tag, 'EXC', type(e).__name__, str(e))).encode())
        return e
    h.update(repr((tag, enc(r))).encode())
    return r


FACT = {'meter': 1, 'meters': 1, 'm': 1, 'feet': 0.3048, 'foot': 0.3048, 'ft': 0.3048,
        'miles': 1609.344, 'mls': 1609.344, 'ml': 1609.344,
        'kilometer': 1000, 'kilometers': 1000, 'km': 1000}


def ref_distance(s):
    """independent: returns metres or the string 'error'"""
    m = re.fullmatch(r'(-?\d*\.?\d+)(.*)', s, flags=re.S)
    if m is None:
        # a leading non numeric part, or nothing numeric at all
        return 'error'
    num, rest = m.group(1), m.group(2)
    if re.search(r'-?\d*\.?\d+', rest):
        return 'error'   # more than one number
    v = float(num)
    if v <= 0:
        return 'error'
    u = rest.lower().replace(' ', '') if rest != '' else 'meter'
    if u not in FACT:
        return 'error'
    return v * FACT[u]


numbers = ['1', '3', '10', '0.5', '.5', '5.', '12.25', '007', '-3', '0', '0.0', '-0.5', '1e3',
           '1_000', '٣', 'nan', 'inf', '', ' ', '1 2', '1.2.3', '--4', '+4', '4-']
units = ['', 'm', 'M', 'meter', 'meters', 'Meters', ' m', 'm ', ' k m', 'km', 'KM', 'kilometer',
         'kilometers', 'ft', 'foot', 'feet', 'FEET', 'ml', 'mls', 'miles', 'mile', 'mi', 'yd',
         'parsec', 'm2', 'km/h', '\tkm', '\nm', 'ſt', 'K']
for n, u in itertools.product(numbers, units):
    s = n + u
    r = call(('get_distance', s), cv._get_distance, s)
    exp = ref_distance(s)
    # the reference only models plain ascii decimal numbers
    if not re.fullmatch(r'[-0-9. a-zA-Z/\t\n]*', s) or 'nan' in s or 'inf' in s:
        continue
    if exp == 'error':
        if not isinstance(r, ValueError):
            fails.append((s, r, exp))
    elif isinstance(r, Exception) or float(r).hex() != float(exp).hex():
        fails.append((s, r, exp))

for bad in [None, 3, 2.5, b'3m', ['3m']]:
    call(('get_distance-type', repr(bad)), cv._get_distance, bad)

# _to_meters directly (also used by calc_cellsize)
for d, u in itertools.product([0, 1, 2.5, -3.0, np.float32(1.5), np.int64(7), np.nan, np.inf],
                              list(FACT) + ['mile', 'KM', '', None]):
    call(('to_meters', repr(d), u), cv._to_meters, d, u)

# kernels through the public API with every radius spelling that stays small
for csx, csy in [(1, 1), (1, 2), (0.5, 0.3), (3, 1.7), (30.0, 10), (np.float32(2.5), np.int64(2))]:
    for rad in [1, 2, 3.0, 4.5, '3', '3m', '7 meters', '12.25M', '10ft', '30 Feet', '33foot',
                '0.01km', '0.02 Kilometers', '0.005ml', '0.01 miles', '0.004mls', '.5', '5.',
                np.float64(6.5), np.int32(4), '0.05kilometer', 0, -1, '0m', 'abc', '3 parsecs',
                '1e1', '', None, True, 'nan', 'inf', '3km2', ' 3', '3 ', '- 3']:
        try:
            big = float(ref_distance(str(rad))) / min(csx, csy) > 400
        except Exception:
            big = False
        if big:
            continue
        k = call(('circle', repr(csx), repr(csy), repr(rad)), cv.circle_kernel, csx, csy, rad)
        if isinstance(k, np.ndarray):
            if k.dtype != np.float64 or k.shape[0] % 2 != 1 or k.shape[1] % 2 != 1:
                fails.append(('circle-shape', csx, csy, rad))
            m = ref_distance(str(rad))
            if k.shape != (2 * int(m / csy) + 1, 2 * int(m / csx) + 1):
                fails.append(('circle-size', csx, csy, rad, k.shape))
    for ro, ri in [(3, 1), ('5m', '2m'), ('0.01km', '10ft'), ('40ft', '3'), ('0.005ml', 2.5),
                   (2, 5), (3, 3), (3, 0), ('x', 1), (4, '1 furlong')]:
        call(('annulus', repr(csx), repr(csy), repr(ro), repr(ri)),
             cv.annulus_kernel, csx, csy, ro, ri)

# keyword / positional call forms of the public API
call('circle-kw', cv.circle_kernel, radius='3m', cellsize_y=2, cellsize_x=1)
call('annulus-kw', cv.annulus_kernel, inner_radius=1, outer_radius='4m', cellsize_y=1, cellsize_x=2)

# calc_cellsize on numpy and dask rasters, several units
import dask.array as da  # noqa
data = np.arange(20 * 30, dtype=np.float64).reshape(20, 30)
for unit in [None, 'm', 'km', 'ft', 'miles', 'meter', 'KM', 'yards']:
    for ys in (np.linspace(0, 9.5, 20), np.linspace(9.5, 0, 20), np.linspace(-5, 52, 20)):
        for backend in ('numpy', 'dask'):
            arr = data if backend == 'numpy' else da.from_array(data, chunks=(7, 11))
            attrs = {} if unit is None else {'unit': unit}
            agg = xr.DataArray(arr, dims=['y', 'x'],
                               coords={'y': ys, 'x': np.linspace(100, 390, 30)}, attrs=attrs)
            call(('cellsize', unit, float(ys[0]), float(ys[-1]), backend), cv.calc_cellsize, agg)
call('cellsize-res', cv.calc_cellsize, xr.DataArray(data, attrs={'res': (0.5, 0.25), 'unit': 'ft'}))

digest = h.hexdigest()
print('xrspatial from', xrspatial.__file__)
print('digest', digest)
if fails:
    print('INDEPENDENT REFERENCE MISMATCHES:', fails[:20], len(fails))
    sys.exit(1)
if EXPECTED_DIGEST.startswith('@@'):
    print('no digest recorded')
    sys.exit(2)
if digest != EXPECTED_DIGEST:
    print('DIGEST MISMATCH, expected', EXPECTED_DIGEST)
    sys.exit(1)
print('OK')
