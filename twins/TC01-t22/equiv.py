"""Differential test for the true_color refactoring (multispectral.py).

Runs xrspatial.multispectral.true_color on NumPy and Dask rasters (several
dtypes, NaNs, odd shapes, many chunkings, two schedulers) and compares a
digest of every result with digests recorded from the UNMODIFIED tree.
Also checks dask == numpy cell for cell and that dask results stay lazy.

usage: equiv.py            -> exit 0 if identical to the recorded behaviour
       equiv.py --record   -> print the digests (run on the unmodified tree)
"""
import hashlib
import sys
import warnings

import dask
import dask.array as da
import numpy as np
import xarray as xr

import xrspatial
from xrspatial.multispectral import true_color

warnings.simplefilter('ignore')

EXPECTED = {
    'c00-p0': '5aac72b0a4dff1d9234fe0c3',
    'c00-p1': '9028fb6a14569a43bb75a372',
    'c00-p2': 'c4cd0bdad0dbcb89bddc2031',
    'c01-p0': '695e912a1c9baf36db6ceabf',
    'c01-p1': '9d2e60064ef04426e01f82f5',
    'c01-p2': '62aa29e63d81359024d60628',
    'c02-p0': 'e91df2ebdca60bca2c29ec8e',
    'c02-p1': 'e5638c4ec6356b7c4ccb4092',
    'c02-p2': 'd741d9acbfcad25bf0865748',
    'c03-p0': '734f730d3b65e15f7b2c3738',
    'c03-p1': '8ec7e9c05551a1869a2552f5',
    'c03-p2': 'cf855d437de08ea7fec5052e',
    'c04-p0': '405ba623d1f467e1d42917dd',
    'c04-p1': '246daa95f19e480b85a1514a',
    'c04-p2': '5bec2f9c45a6db97173f1ca1',
    'c05-p0': '13a86ba9d318455aab359d7d',
    'c05-p1': 'aaf7759db24313c16886840c',
    'c05-p2': '88f8634d0b3435b377cf6be7',
    'c06-p0': '83afdff12cb6e8ec1ccb6baa',
    'c06-p1': '93f452caa99bd33de74bf196',
    'c06-p2': 'f52f7753dfbe6fcb1d6a7ba6',
    'c07-p0': '1e6817ec908d5c16b02439f3',
    'c07-p1': 'a57eb2d591dbe846c21c7f43',
    'c07-p2': '44ce20f8937b9372529820db',
    'c08-p0': '99df5069e018aafcf64a399c',
    'c08-p1': 'd29898deb60226d9fb48a81d',
    'c08-p2': 'a2e5c2f2c79b3a5904c0c341',
    'c09-p0': 'ceaa8374d3b8e0df8c0b335e',
    'c09-p1': '3271d33c4cc3577a2f4d7c4d',
    'c09-p2': 'f1c0d97ca6a7d5c004a54f29',
    'c10-p0': '1e1e3b89b751e58ba85fbc4d',
    'c10-p1': '7d74490bcc966457a2689738',
    'c10-p2': 'ee39087c9c5247f12ef96090',
    'c11-p0': '6d96c025dff378edea9e7ae9',
    'c11-p1': 'f908942bf0a041d30c66052e',
    'c11-p2': '0eb8bc2ce746f9b44675b0cc',
    'c12-p0': '65440ae9b55cbb9482126748',
    'c12-p1': '06105bf6a9021a86b45899f4',
    'c12-p2': '2ab91fcf549a0414c43cd66b',
    'c13-p0': 'bf399d679c8967e41bb2e763',
    'c13-p1': 'b46dd489c0e77eb6824fbac2',
    'c13-p2': '1aa68de45236afabc3cf045b',
    'c14-p0': '606b6203130255b2d9144da9',
    'c14-p1': 'd587189bf1b974f579a1a6e5',
    'c14-p2': '9c914aa50c9eda73ef66f51a',
    'c15-p0': '5615050b1d587b46c47ee7d9',
    'c15-p1': '7e33428c563782ae8de890d9',
    'c15-p2': '081720c3c7a8db87dd4bf4aa',
    'c16-p0': 'ee17e7667536f55c70c7bdb6',
    'c16-p1': '2186e8dd8426c326e933c124',
    'c16-p2': '92f1bda8930a472b74fdb554',
    'c17-p0': 'f3d6dadb5992a9829ccf2aea',
    'c17-p1': '53a68a6346f08b1f9fcfb1a7',
    'c17-p2': '7de7852e8ba775a2fdbc7221',
    'c18-p0': '0fab722bd38197bb54989a2c',
    'c18-p1': 'e7213828325375a3e8a568ef',
    'c18-p2': 'dfa57a09a131e6b716349fc0',
    'c19-p0': 'b37432b3c844ae32d359b2a8',
    'c19-p1': 'ad299b6b32be8c8e6eedd0ae',
    'c19-p2': 'a9ede7e8eb70bd807f335d75',
    'c20-p0': '564a823ed7c8e7039c4ed99d',
    'c20-p1': '81dbaac92dc9df32bb4d6fc9',
    'c20-p2': 'c706fbc55be9af8b9f369f6f',
    'c21-p0': '2d7ad7b51453731da019551e',
    'c21-p1': '74ea497adf819e846fae24fb',
    'c21-p2': '13ab547543159f98e017b7e5',
    'c22-p0': 'bfef2ddd3694726617374d03',
    'c22-p1': '116c0706c09781cabf038f71',
    'c22-p2': 'b23a081f2844ca290e1b08aa',
    'c23-p0': '7d0a24e07cf87dd5169d2ba0',
    'c23-p1': '6d5afc4c6aa3f4a8932d74f0',
    'c23-p2': '5befa67e092767740e32d9eb',
    'c24-p0': '631d833153b22ee034df4367',
    'c24-p1': 'a60c6d7b5d8454ce7719f412',
    'c24-p2': '0b11a176046e4de4a318e025',
    'c25-p0': '79b8978b6c4781eace245d58',
    'c25-p1': 'ece041ec6d98d940a406c687',
    'c25-p2': '58e36c9c3e87fe3750211aa0',
    'c26-p0': '274a917eb477965d6de76e61',
    'c26-p1': '14877854c5ffd69dd8c23785',
    'c26-p2': '3d30aa3e2badb634f06a924c',
    'c27-p0': 'e973dc9848e8b79669f11896',
    'c27-p1': 'd4b0fad15a7b79bda050d91a',
    'c27-p2': '7dcbc4158ec5ee9fe75724c6',
    'c28-p0': 'cf01a6c87e8f840a931a4e7d',
    'c28-p1': '5a4e3eb8fc8f6ff1d08fd07e',
    'c28-p2': '296f1414e87623d97ba44015',
    'c29-p0': '0c7899a694c5df696c6beaf5',
    'c29-p1': 'e4ae7ded1f1598c058b4f528',
    'c29-p2': '3a1408f75267ab8df41b65a6',
    'c30-p0': '9269605258bf83dd38b7658c',
    'c30-p1': '25a9336f87236d4f5b81a6d9',
    'c30-p2': 'b330a2e6d16d7e8412f2254c',
    'c31-p0': '7c0ba34c79b4f33af44ed8b7',
    'c31-p1': '91451a0c18a6ed5ac7357a82',
    'c31-p2': 'a1f367cdbc0c58a0ad26f611',
    'c32-p0': '75469861f496718f0f2ab391',
    'c32-p1': '6023de133a2e57de25623c7b',
    'c32-p2': '32a7976a3e937d712f9f3962',
    'c33-p0': 'd5d45285ac1a3203d5aa4693',
    'c33-p1': '0602e64d41b3511e65c119ea',
    'c33-p2': '486dc463480169e87abeea7b',
    'c34-p0': '8893c2a4a120f43c58c493db',
    'c34-p1': 'fc79ee2c512a6bd76713fa3f',
    'c34-p2': 'fe2cb4adf7eb8ff1b519de12',
    'const': '6232c6a5157c71303d147541',
    'const-dask': '6232c6a5157c71303d147541',
}


def digest(a):
    a = np.ascontiguousarray(a)
    h = hashlib.sha256()
    h.update(str(a.dtype).encode())
    h.update(str(a.shape).encode())
    h.update(a.tobytes())
    return h.hexdigest()[:24]


def make_band(rng, shape, dtype, with_nan):
    if np.issubdtype(dtype, np.floating):
        a = (rng.random(shape) * 3000).astype(dtype)
        if with_nan:
            m = rng.random(shape) < 0.2
            a[m] = np.nan
        # some nodata cells (<= 1)
        a[rng.random(shape) < 0.1] = 0.5
    else:
        hi = min(np.iinfo(dtype).max, 4000)
        a = rng.integers(0, hi, size=shape).astype(dtype)
        a[rng.random(shape) < 0.1] = 0
    return a


def wrap(a, chunks=None):
    h, w = a.shape
    data = a if chunks is None else da.from_array(a, chunks=chunks)
    return xr.DataArray(data, dims=['y', 'x'],
                        coords={'y': np.arange(h)[::-1] * 2.0,
                                'x': np.arange(w) * 0.5},
                        attrs={'res': (0.5, 2.0), 'k': 'v'})


CASES = []
for shape in [(5, 7), (1, 9), (8, 3), (13, 11), (2, 2)]:
    for dtype in [np.float32, np.float64, np.int16, np.uint8, np.int64]:
        for with_nan in (False, True):
            if with_nan and not np.issubdtype(dtype, np.floating):
                continue
            CASES.append((shape, dtype, with_nan))

PARAMS = [dict(), dict(nodata=0, c=5.0, th=0.3), dict(nodata=100, c=20.0, th=0.0)]


def chunkings(shape):
    h, w = shape
    out = [(1, 1), (h, w), (max(1, h // 2), max(1, w // 3)), (2, 3)]
    # an irregular decomposition
    if h >= 4 and w >= 4:
        out.append(((1, h - 3, 2), (2, 1, w - 3)))
    return out


def main(record):
    print('xrspatial from', xrspatial.__file__)
    got = {}
    ok = True
    rng = np.random.default_rng(20240522)
    for ci, (shape, dtype, with_nan) in enumerate(CASES):
        r = make_band(rng, shape, dtype, with_nan)
        g = make_band(rng, shape, dtype, with_nan)
        b = make_band(rng, shape, dtype, with_nan)
        for pi, kw in enumerate(PARAMS):
            key = 'c%02d-p%d' % (ci, pi)
            res_np = true_color(wrap(r), wrap(g), wrap(b), **kw)
            assert isinstance(res_np.data, np.ndarray)
            assert res_np.dims == ('y', 'x', 'band')
            assert res_np.name == 'true_color'
            assert res_np.attrs == {'res': (0.5, 2.0), 'k': 'v'}
            assert list(res_np['band'].values) == [0, 1, 2, 3]
            assert np.array_equal(res_np['y'].values, np.arange(shape[0])[::-1] * 2.0)
            got[key] = digest(res_np.values)
            for ch in chunkings(shape):
                res_da = true_color(wrap(r, ch), wrap(g, ch), wrap(b, ch), name='tc', **kw)
                if not isinstance(res_da.data, da.Array):
                    print('FAIL not lazy', key, ch)
                    ok = False
                    continue
                for sched, nw in (('synchronous', None), ('threads', 3)):
                    with dask.config.set(scheduler=sched, num_workers=nw):
                        v = res_da.compute()
                    if v.name != 'tc' or v.values.dtype != res_np.values.dtype or \
                            not np.array_equal(v.values, res_np.values):
                        print('FAIL dask != numpy', key, ch, sched)
                        ok = False
    # a constant band (zero range) and an all-NaN band
    const = np.full((4, 5), 7.0, dtype=np.float32)
    r = make_band(rng, (4, 5), np.float32, True)
    res = true_color(wrap(r), wrap(const), wrap(r * 2))
    got['const'] = digest(res.values)
    res_d = true_color(wrap(r, (1, 2)), wrap(const, (1, 2)), wrap(r * 2, (1, 2)))
    got['const-dask'] = digest(res_d.compute().values)

    if record:
        print('EXPECTED = {')
        for k, v in got.items():
            print('    %r: %r,' % (k, v))
        print('}')
        return 0
    if set(got) != set(EXPECTED):
        print('FAIL key sets differ')
        ok = False
    for k, v in got.items():
        if EXPECTED.get(k) != v:
            print('FAIL digest differs', k, v, EXPECTED.get(k))
            ok = False
    print('OK' if ok else 'DIFFERENT', len(got), 'digests')
    return 0 if ok else 1


if __name__ == '__main__':
    sys.exit(main('--record' in sys.argv))
