"""Differential test for property C06 (proximity / allocation / direction).

Runs the public functions proximity, allocation, direction (numpy and dask
backends) plus the private kernels `_calc_direction`, `_distance` and
`_process_proximity_line` on a deterministic family of inputs (several dtypes,
NaN/inf cells, odd shapes, ascending/descending/non-square coordinates, all
metrics, bounded/unbounded max_distance, explicit target_values) and compares
sha256 digests of (dtype, shape, raw bytes) of every result with digests
recorded from the UNMODIFIED tree.  In addition a few independent brute-force
checks of the property are made.  Exit 0 iff everything is identical.

usage:  cd <worktree> && PYTHONPATH=<worktree> python equiv.py [--record]
"""
import hashlib
import json
import sys
import warnings

import dask.array as da
import numpy as np
import xarray as xr

import xrspatial
from xrspatial import allocation, direction, proximity
from xrspatial import proximity as _pm_check  # noqa  (public name is the function)
import xrspatial.proximity  # noqa
pm = sys.modules["xrspatial.proximity"]

warnings.filterwarnings("ignore")

FUNCS = {"prox": proximity, "alloc": allocation, "dir": direction}


def digest(arr):
    arr = np.ascontiguousarray(arr)
    h = hashlib.sha256()
    h.update(str(arr.dtype).encode())
    h.update(str(arr.shape).encode())
    h.update(arr.tobytes())
    return h.hexdigest()[:24]


def make_data(shape, dtype, seed, density, special):
    rng = np.random.default_rng(seed)
    h, w = shape
    vals = rng.integers(1, 4, size=shape)
    mask = rng.random(shape) < density
    data = np.where(mask, vals, 0).astype(dtype)
    if special and np.issubdtype(np.dtype(dtype), np.floating) and h * w > 2:
        flat = data.reshape(-1)
        idx = rng.permutation(h * w)
        flat[idx[0]] = np.nan
        flat[idx[1]] = np.inf
        if h * w > 4:
            flat[idx[2]] = -np.inf
            flat[idx[3]] = -2.0
    return data


def make_coords(shape, kind):
    h, w = shape
    if kind == "asc":
        return np.arange(w, dtype=np.float64), np.arange(h, dtype=np.float64)
    if kind == "desc":
        return np.arange(w, dtype=np.float64), np.arange(h, dtype=np.float64)[::-1].copy()
    if kind == "xdesc":
        return np.arange(w, dtype=np.float64)[::-1].copy() * 3.0, np.arange(h, dtype=np.float64) * 0.5
    if kind == "nonsq":
        return 10.0 + 0.5 * np.arange(w), 100.0 - 2.0 * np.arange(h)
    if kind == "lonlat":
        return np.linspace(-20.0, 35.0, w) if w > 1 else np.array([12.5]), \
            (np.linspace(50.0, -40.0, h) if h > 1 else np.array([-7.25]))
    if kind == "int":
        return np.arange(w, dtype=np.int64) * 2, np.arange(h, dtype=np.int64)[::-1].copy()
    raise AssertionError(kind)


def make_raster(data, cx, cy, chunks=None, dims=("y", "x")):
    d = data.copy()
    if chunks is not None:
        d = da.from_array(d, chunks=chunks)
    r = xr.DataArray(d, dims=list(dims), attrs={"res": 1, "tag": "t"})
    r[dims[0]] = cy
    r[dims[1]] = cx
    return r


SHAPES = [(1, 1), (1, 7), (6, 1), (5, 5), (7, 11), (9, 4), (3, 8)]
DTYPES = ["float64", "float32", "int32", "int64", "uint8"]
COORDS = ["asc", "desc", "nonsq", "xdesc", "int"]
TARGETS = [[], [1], [2, 3], [7], [0]]
EUC_MAXD = [np.inf, 2, 2.5, 0, None, 1.0, 4]


def cases():
    """Yield (key, callable) pairs."""
    out = []
    n = 0
    for si, shape in enumerate(SHAPES):
        for di, dtype in enumerate(DTYPES):
            n += 1
            ck = COORDS[(si + di) % len(COORDS)]
            tv = TARGETS[(si * 2 + di) % len(TARGETS)]
            md = EUC_MAXD[(si + 3 * di) % len(EUC_MAXD)]
            metric = ["EUCLIDEAN", "MANHATTAN", "BOGUS"][(si + di) % 3]
            mode = ["prox", "alloc", "dir"][n % 3]
            density = [0.15, 0.4, 0.05][(si + di) % 3]
            out.append((shape, dtype, ck, tv, md, metric, mode, density, None, 100 + n))
    # all three modes on the same inputs, several configurations (numpy + dask)
    trip = [
        ((7, 11), "float64", "desc", [], np.inf, "EUCLIDEAN", 0.1, None),
        ((7, 11), "float64", "desc", [], 3, "EUCLIDEAN", 0.1, None),
        ((7, 11), "float64", "desc", [], 3, "EUCLIDEAN", 0.1, (3, 4)),
        ((7, 11), "float64", "desc", [], np.inf, "EUCLIDEAN", 0.1, (3, 4)),
        ((9, 4), "float32", "nonsq", [1, 3], 4.5, "MANHATTAN", 0.3, None),
        ((9, 4), "float32", "nonsq", [1, 3], 4.5, "MANHATTAN", 0.3, (4, 2)),
        ((9, 4), "float32", "nonsq", [1, 3], None, "MANHATTAN", 0.3, (4, 2)),
        ((9, 4), "float32", "nonsq", [1, 3], 1.0, "MANHATTAN", 0.3, (4, 2)),
        ((7, 11), "float64", "asc", [], 1.5, "EUCLIDEAN", 0.1, (4, 5)),
        ((5, 5), "float64", "lonlat", [], np.inf, "GREAT_CIRCLE", 0.2, None),
        ((5, 5), "float64", "lonlat", [], 3.0e6, "GREAT_CIRCLE", 0.2, None),
        ((5, 5), "float64", "lonlat", [2], 2.5e6, "GREAT_CIRCLE", 0.5, None),
        ((5, 5), "float64", "lonlat", [], np.inf, "GREAT_CIRCLE", 0.2, (2, 3)),
        ((1, 7), "float64", "lonlat", [], 4.0e6, "GREAT_CIRCLE", 0.3, None),
        ((6, 1), "int32", "lonlat", [], np.inf, "GREAT_CIRCLE", 0.3, None),
        ((3, 8), "int64", "int", [], np.inf, "EUCLIDEAN", 0.2, (3, 8)),
        ((3, 8), "int64", "int", [2], 100, "MANHATTAN", 0.4, (2, 3)),
        ((5, 5), "uint8", "asc", [], 2, "EUCLIDEAN", 0.2, (2, 2)),
        ((5, 5), "float64", "asc", [], 0, "EUCLIDEAN", 0.0, None),   # no targets at all
        ((5, 5), "float64", "asc", [], np.inf, "EUCLIDEAN", 0.0, None),
        ((5, 5), "float64", "asc", [], np.inf, "EUCLIDEAN", 1.0, None),   # all targets
        ((1, 1), "float64", "asc", [], np.inf, "EUCLIDEAN", 1.0, (1, 1)),
    ]
    for ti, (shape, dtype, ck, tv, md, metric, density, chunks) in enumerate(trip):
        for mode in ("prox", "alloc", "dir"):
            out.append((shape, dtype, ck, tv, md, metric, mode, density, chunks, 500 + ti))
    return out


def run_case(c):
    shape, dtype, ck, tv, md, metric, mode, density, chunks, seed = c
    data = make_data(shape, dtype, seed, density, special=(seed % 2 == 0))
    cx, cy = make_coords(shape, ck)
    r = make_raster(data, cx, cy, chunks)
    before = data.copy()
    try:
        res = FUNCS[mode](r, target_values=tv, max_distance=md, distance_metric=metric)
        is_dask = isinstance(res.data, da.Array)
        vals = res.values
        extra = (type(res.data).__name__, tuple(res.dims), sorted(res.attrs.items()),
                 digest(res["x"].values), digest(res["y"].values))
        out = ("ok", digest(vals), repr(extra))
        # input must be left untouched (values)
        assert digest(np.asarray(r.values)) == digest(before)
        return out, (data, cx, cy, vals, is_dask)
    except Exception as e:  # record the exception type + message
        return ("exc", type(e).__name__, str(e)[:80]), None


def brute(data, cx, cy, tv, metric):
    """Exact nearest-target distance, computed independently (float64)."""
    if len(tv) == 0:
        tmask = (data != 0) & np.isfinite(data.astype(np.float64))
    else:
        tmask = np.isin(data, np.asarray(tv))
    ty, tx = np.nonzero(tmask)
    h, w = data.shape
    X, Y = np.meshgrid(cx, cy)
    if len(ty) == 0:
        return tmask, np.full((h, w), np.nan)
    dx = X[:, :, None] - cx[tx][None, None, :]
    dy = Y[:, :, None] - cy[ty][None, None, :]
    if metric == "MANHATTAN":
        d = np.abs(dx) + np.abs(dy)
    else:
        d = np.sqrt(dx * dx + dy * dy)
    return tmask, d.min(axis=2)


def independent_checks(c, payload, problems):
    shape, dtype, ck, tv, md, metric, mode, density, chunks, seed = c
    if payload is None or mode != "prox" or metric == "GREAT_CIRCLE":
        return
    data, cx, cy, vals, _ = payload
    m = "MANHATTAN" if metric == "MANHATTAN" else "EUCLIDEAN"
    tmask, exact = brute(data, np.asarray(cx, float), np.asarray(cy, float), tv, m)
    if vals.dtype != np.float32:
        problems.append(("dtype", c))
    if not np.all(vals[tmask] == 0):
        problems.append(("target!=0", c))
    fin = ~np.isnan(vals)
    if fin.any():
        if np.any(vals[fin] < exact[fin] * (1 - 1e-5) - 1e-6):
            problems.append(("underestimate", c))
        lim = np.inf if md is None else md
        if np.any(vals[fin] > lim * (1 + 1e-6)):
            problems.append(("> max_distance", c))
    if (md is None or md == np.inf) and tmask.any() and not fin.all():
        problems.append(("NaN with unbounded max_distance", c))
    if tmask.sum() == 1 and (md is None or md == np.inf):
        if not np.allclose(vals, exact, rtol=1e-5, atol=1e-6):
            problems.append(("single target not exact", c))


def kernel_cases():
    """Direct calls of the private kernels (signatures are part of the test)."""
    res = {}
    from xrspatial.proximity import _calc_direction, _distance, _process_proximity_line
    pts = [(-3.0, 2.0), (0.0, 0.0), (1.5, -4.0), (7.0, 7.0), (-2.0, -2.0), (0.0, 5.0), (5.0, 0.0)]
    dirs = []
    for (x1, y1) in pts:
        for (x2, y2) in pts:
            v = _calc_direction(x1, x2, y1, y2)
            dirs.append(float(v))
    res["kernel:_calc_direction"] = ("ok", digest(np.array(dirs, dtype=np.float64)), "")
    for metric in (0, 1, 2):
        ds_ = []
        for (x1, y1) in pts:
            for (x2, y2) in pts:
                v = _distance(x1, x2, y1, y2, metric)
                assert isinstance(v, (np.float32, float)), type(v)
                ds_.append(float(v))
        res["kernel:_distance:%d" % metric] = ("ok", digest(np.array(ds_, dtype=np.float64)), "")
    # _process_proximity_line on a hand-made state
    for k, (fwd, maxd, values, metric, dt) in enumerate([
        (True, np.inf, np.array([], dtype=np.float64), 0, np.float64),
        (False, 3.0, np.array([], dtype=np.float64), 0, np.float64),
        (True, 2, np.array([2.0, 3.0]), 2, np.float32),
        (False, np.inf, np.array([1]), 0, np.int64),
        (True, 2.0e6, np.array([], dtype=np.float64), 1, np.float64),
    ]):
        w, hh = 9, 4
        rng = np.random.default_rng(900 + k)
        img = np.where(rng.random((hh, w)) < 0.25, rng.integers(1, 4, (hh, w)), 0).astype(dt)
        if metric == 1:
            cx = np.linspace(-30, 30, w)
            cy = np.linspace(40, -40, hh)
        else:
            cx = np.arange(w) * 1.5
            cy = np.arange(hh)[::-1] * 1.0
        xs = np.tile(cx, hh).reshape(hh, w)
        ys = np.repeat(cy, w).reshape(hh, w)
        line_id = 2
        pan_x = np.full(w, -1, dtype=np.int64)
        pan_y = np.full(w, -1, dtype=np.int64)
        # pretend the line above had some nearest targets
        for j in range(w):
            yy, xx = np.nonzero(img[:line_id] != 0)
            if len(yy) and j % 2 == 0:
                pan_x[j] = xx[j % len(xx)]
                pan_y[j] = yy[j % len(yy)]
        lp = np.full(w, -1.0, dtype=np.float32)
        nx = np.full(w, -1, dtype=np.int64)
        ny = np.full(w, -1, dtype=np.int64)
        _process_proximity_line(img[line_id].copy(), xs, ys, pan_x, pan_y, fwd, line_id, w, maxd,
                                lp, nx, ny, values, metric)
        # second sweep in the other direction on the same state
        _process_proximity_line(img[line_id].copy(), xs, ys, pan_x, pan_y, not fwd, line_id, w, maxd,
                                lp, nx, ny, values, metric)
        res["kernel:_process_proximity_line:%d" % k] = (
            "ok", "|".join(digest(a) for a in (lp, nx, ny, pan_x, pan_y)), "")
    return res


def error_cases():
    res = {}
    data = np.zeros((3, 4))
    data[1, 2] = 1
    # wrong dimension names -> ValueError (before anything else)
    r = xr.DataArray(data, dims=["lat", "lon"])
    r["lat"] = np.arange(3.0)
    r["lon"] = np.arange(4.0)
    for name, f in FUNCS.items():
        try:
            f(r)
            res["err:dims:" + name] = ("ok", "", "")
        except Exception as e:
            res["err:dims:" + name] = ("exc", type(e).__name__, str(e)[:80])
    ok = f(r, x="lon", y="lat")
    res["ok:dims:renamed"] = ("ok", digest(ok.values), repr(tuple(ok.dims)))
    # great circle with coordinates out of range -> ValueError
    r2 = make_raster(data, np.arange(4.0) * 100.0, np.arange(3.0))
    for name, f in FUNCS.items():
        try:
            f(r2, distance_metric="GREAT_CIRCLE")
            res["err:gc:" + name] = ("ok", "", "")
        except Exception as e:
            res["err:gc:" + name] = ("exc", type(e).__name__, str(e)[:80])
    # unhashable metric
    try:
        proximity(make_raster(data, np.arange(4.0), np.arange(3.0)), distance_metric=["EUCLIDEAN"])
        res["err:metric:list"] = ("ok", "", "")
    except Exception as e:
        res["err:metric:list"] = ("exc", type(e).__name__, str(e)[:80])
    # 3-d raster
    try:
        r3 = xr.DataArray(np.zeros((2, 3, 4)), dims=["b", "y", "x"])
        proximity(r3)
        res["err:3d"] = ("ok", "", "")
    except Exception as e:
        res["err:3d"] = ("exc", type(e).__name__, str(e)[:80])
    return res


def main():
    assert xrspatial.__file__.startswith(sys.path[0]) or "TC06" in xrspatial.__file__ or \
        "--anywhere" in sys.argv, xrspatial.__file__
    got = {}
    problems = []
    for c in cases():
        key = json.dumps([list(c[0]), c[1], c[2], c[3],
                          None if c[4] is None else (repr(c[4])), c[5], c[6], c[7],
                          None if c[8] is None else list(c[8]), c[9]])
        out, payload = run_case(c)
        got[key] = list(out)
        independent_checks(c, payload, problems)
    for k, v in kernel_cases().items():
        got[k] = list(v)
    for k, v in error_cases().items():
        got[k] = list(v)

    if "--record" in sys.argv:
        print(json.dumps(got, indent=0, sort_keys=True))
        return 0

    bad = 0
    for k in sorted(set(got) | set(EXPECTED)):
        if got.get(k) != EXPECTED.get(k):
            bad += 1
            print("MISMATCH", k, "\n   got     ", got.get(k), "\n   expected", EXPECTED.get(k))
    for p in problems:
        bad += 1
        print("PROPERTY VIOLATION", p)
    print("library:", xrspatial.__file__)
    print("cases: %d, mismatches/violations: %d" % (len(got), bad))
    return 0 if bad == 0 else 1


EXPECTED = json.loads(r'''{
"[[1, 1], \"float32\", \"desc\", [1], \"0\", \"MANHATTAN\", \"dir\", 0.4, null, 102]": [
"ok",
"3d8106d92e9af40a72494b9e",
"('ndarray', ('y', 'x'), [('res', 1), ('tag', 't')], '746e75607f7ce3478b54dd31', '746e75607f7ce3478b54dd31')"
],
"[[1, 1], \"float64\", \"asc\", [], \"inf\", \"EUCLIDEAN\", \"alloc\", 0.15, null, 101]": [
"ok",
"3d8106d92e9af40a72494b9e",
"('ndarray', ('y', 'x'), [('res', 1), ('tag', 't')], '746e75607f7ce3478b54dd31', '746e75607f7ce3478b54dd31')"
],
"[[1, 1], \"float64\", \"asc\", [], \"inf\", \"EUCLIDEAN\", \"alloc\", 1.0, [1, 1], 521]": [
"ok",
"864e69e570f0d91cdbaf1495",
"('Array', ('y', 'x'), [('res', 1), ('tag', 't')], '746e75607f7ce3478b54dd31', '746e75607f7ce3478b54dd31')"
],
"[[1, 1], \"float64\", \"asc\", [], \"inf\", \"EUCLIDEAN\", \"dir\", 1.0, [1, 1], 521]": [
"ok",
"5d73d8bac17f2753f34fffd2",
"('Array', ('y', 'x'), [('res', 1), ('tag', 't')], '746e75607f7ce3478b54dd31', '746e75607f7ce3478b54dd31')"
],
"[[1, 1], \"float64\", \"asc\", [], \"inf\", \"EUCLIDEAN\", \"prox\", 1.0, [1, 1], 521]": [
"ok",
"5d73d8bac17f2753f34fffd2",
"('Array', ('y', 'x'), [('res', 1), ('tag', 't')], '746e75607f7ce3478b54dd31', '746e75607f7ce3478b54dd31')"
],
"[[1, 1], \"int32\", \"nonsq\", [2, 3], \"4\", \"BOGUS\", \"prox\", 0.05, null, 103]": [
"ok",
"3d8106d92e9af40a72494b9e",
"('ndarray', ('y', 'x'), [('res', 1), ('tag', 't')], '7c642df378cae3a282b6635e', 'cbdc6b2466d22aa0f64f11df')"
],
"[[1, 1], \"int64\", \"xdesc\", [7], \"2.5\", \"EUCLIDEAN\", \"alloc\", 0.15, null, 104]": [
"ok",
"3d8106d92e9af40a72494b9e",
"('ndarray', ('y', 'x'), [('res', 1), ('tag', 't')], '746e75607f7ce3478b54dd31', '746e75607f7ce3478b54dd31')"
],
"[[1, 1], \"uint8\", \"int\", [0], \"1.0\", \"MANHATTAN\", \"dir\", 0.4, null, 105]": [
"ok",
"5d73d8bac17f2753f34fffd2",
"('ndarray', ('y', 'x'), [('res', 1), ('tag', 't')], '45adabbfed6d5c15e65388c9', '45adabbfed6d5c15e65388c9')"
],
"[[1, 7], \"float32\", \"nonsq\", [7], null, \"BOGUS\", \"alloc\", 0.05, null, 107]": [
"ok",
"28f42df74ea583cef8628cce",
"('ndarray', ('y', 'x'), [('res', 1), ('tag', 't')], '1a0da6fc2653582247e6cb65', 'cbdc6b2466d22aa0f64f11df')"
],
"[[1, 7], \"float64\", \"desc\", [2, 3], \"2\", \"MANHATTAN\", \"prox\", 0.4, null, 106]": [
"ok",
"5d6f081ca59875a6287a033d",
"('ndarray', ('y', 'x'), [('res', 1), ('tag', 't')], '05d6621fb3c143a115235989', '746e75607f7ce3478b54dd31')"
],
"[[1, 7], \"float64\", \"lonlat\", [], \"4000000.0\", \"GREAT_CIRCLE\", \"alloc\", 0.3, null, 513]": [
"ok",
"37f059ec9616f1d11c3a7143",
"('ndarray', ('y', 'x'), [('res', 1), ('tag', 't')], 'd380b3ff45e32c7a5102b9da', 'c163039e0f57b3c86ced7030')"
],
"[[1, 7], \"float64\", \"lonlat\", [], \"4000000.0\", \"GREAT_CIRCLE\", \"dir\", 0.3, null, 513]": [
"ok",
"f916b6c175dcaf680a15c26c",
"('ndarray', ('y', 'x'), [('res', 1), ('tag', 't')], 'd380b3ff45e32c7a5102b9da', 'c163039e0f57b3c86ced7030')"
],
"[[1, 7], \"float64\", \"lonlat\", [], \"4000000.0\", \"GREAT_CIRCLE\", \"prox\", 0.3, null, 513]": [
"ok",
"c1ad4e9faec9784a622a9340",
"('ndarray', ('y', 'x'), [('res', 1), ('tag', 't')], 'd380b3ff45e32c7a5102b9da', 'c163039e0f57b3c86ced7030')"
],
"[[1, 7], \"int32\", \"xdesc\", [0], \"inf\", \"EUCLIDEAN\", \"dir\", 0.15, null, 108]": [
"ok",
"7cedd94872e481ecfaba1d37",
"('ndarray', ('y', 'x'), [('res', 1), ('tag', 't')], 'fdeed916b06a9703630df639', '746e75607f7ce3478b54dd31')"
],
"[[1, 7], \"int64\", \"int\", [], \"0\", \"MANHATTAN\", \"prox\", 0.4, null, 109]": [
"ok",
"fe967d79d03f0ab8a5f00de7",
"('ndarray', ('y', 'x'), [('res', 1), ('tag', 't')], 'fb9a329cf8f935d4cff8881e', '45adabbfed6d5c15e65388c9')"
],
"[[1, 7], \"uint8\", \"asc\", [1], \"4\", \"BOGUS\", \"alloc\", 0.05, null, 110]": [
"ok",
"28f42df74ea583cef8628cce",
"('ndarray', ('y', 'x'), [('res', 1), ('tag', 't')], '05d6621fb3c143a115235989', '746e75607f7ce3478b54dd31')"
],
"[[3, 8], \"float32\", \"nonsq\", [7], \"2.5\", \"MANHATTAN\", \"dir\", 0.4, null, 132]": [
"ok",
"502720363575b9912b1a050b",
"('ndarray', ('y', 'x'), [('res', 1), ('tag', 't')], '7fcc387763b20c569e25d826', 'c0912081ea26e03cf2114d82')"
],
"[[3, 8], \"float64\", \"desc\", [2, 3], \"4\", \"EUCLIDEAN\", \"alloc\", 0.15, null, 131]": [
"ok",
"d2844acfe4974fc820201d95",
"('ndarray', ('y', 'x'), [('res', 1), ('tag', 't')], 'f359c9e50849347a90ee33df', 'cd2cdec45b250648f846d218')"
],
"[[3, 8], \"int32\", \"xdesc\", [0], \"1.0\", \"BOGUS\", \"prox\", 0.05, null, 133]": [
"ok",
"fc9ea815e637d7ef9d62f78f",
"('ndarray', ('y', 'x'), [('res', 1), ('tag', 't')], 'da6f2d8b5e6f77fe067a453c', '763cd867e53b637b12738c8a')"
],
"[[3, 8], \"int64\", \"int\", [2], \"100\", \"MANHATTAN\", \"alloc\", 0.4, [2, 3], 516]": [
"ok",
"cb60f92627973f8d22dc06b9",
"('Array', ('y', 'x'), [('res', 1), ('tag', 't')], 'd413775347db5dd451b90768', '8897b7a771551757548b42bf')"
],
"[[3, 8], \"int64\", \"int\", [2], \"100\", \"MANHATTAN\", \"dir\", 0.4, [2, 3], 516]": [
"ok",
"d2e9cee0ef1990c5a66d9289",
"('Array', ('y', 'x'), [('res', 1), ('tag', 't')], 'd413775347db5dd451b90768', '8897b7a771551757548b42bf')"
],
"[[3, 8], \"int64\", \"int\", [2], \"100\", \"MANHATTAN\", \"prox\", 0.4, [2, 3], 516]": [
"ok",
"c1afacf1d6b65b8cf62a82c4",
"('Array', ('y', 'x'), [('res', 1), ('tag', 't')], 'd413775347db5dd451b90768', '8897b7a771551757548b42bf')"
],
"[[3, 8], \"int64\", \"int\", [], \"2\", \"EUCLIDEAN\", \"alloc\", 0.15, null, 134]": [
"ok",
"db405f56cd383f1837f1b4c1",
"('ndarray', ('y', 'x'), [('res', 1), ('tag', 't')], 'd413775347db5dd451b90768', '8897b7a771551757548b42bf')"
],
"[[3, 8], \"int64\", \"int\", [], \"inf\", \"EUCLIDEAN\", \"alloc\", 0.2, [3, 8], 515]": [
"ok",
"54a8e6ff568cabd57333ee17",
"('Array', ('y', 'x'), [('res', 1), ('tag', 't')], 'd413775347db5dd451b90768', '8897b7a771551757548b42bf')"
],
"[[3, 8], \"int64\", \"int\", [], \"inf\", \"EUCLIDEAN\", \"dir\", 0.2, [3, 8], 515]": [
"ok",
"0c1450de3d2d6e7b5718e4c2",
"('Array', ('y', 'x'), [('res', 1), ('tag', 't')], 'd413775347db5dd451b90768', '8897b7a771551757548b42bf')"
],
"[[3, 8], \"int64\", \"int\", [], \"inf\", \"EUCLIDEAN\", \"prox\", 0.2, [3, 8], 515]": [
"ok",
"0d7f55156de610fced951b2c",
"('Array', ('y', 'x'), [('res', 1), ('tag', 't')], 'd413775347db5dd451b90768', '8897b7a771551757548b42bf')"
],
"[[3, 8], \"uint8\", \"asc\", [1], null, \"MANHATTAN\", \"dir\", 0.4, null, 135]": [
"ok",
"bde7cb023ba556ab01d4336c",
"('ndarray', ('y', 'x'), [('res', 1), ('tag', 't')], 'f359c9e50849347a90ee33df', 'de281d0f60f6d986dfc11ad9')"
],
"[[5, 5], \"float32\", \"int\", [2, 3], \"4\", \"MANHATTAN\", \"dir\", 0.4, null, 117]": [
"ok",
"bf1a4059c4533ba896a222b0",
"('ndarray', ('y', 'x'), [('res', 1), ('tag', 't')], 'd7dcf97399155b3f000139bc', '8306e7afdcc688e86bdb687c')"
],
"[[5, 5], \"float64\", \"asc\", [], \"0\", \"EUCLIDEAN\", \"alloc\", 0.0, null, 518]": [
"ok",
"bd78f5373d88560ee0440170",
"('ndarray', ('y', 'x'), [('res', 1), ('tag', 't')], '5b6b6c13779cd244381003ae', '5b6b6c13779cd244381003ae')"
],
"[[5, 5], \"float64\", \"asc\", [], \"0\", \"EUCLIDEAN\", \"dir\", 0.0, null, 518]": [
"ok",
"5becee8fb0321e72c5c77e6b",
"('ndarray', ('y', 'x'), [('res', 1), ('tag', 't')], '5b6b6c13779cd244381003ae', '5b6b6c13779cd244381003ae')"
],
"[[5, 5], \"float64\", \"asc\", [], \"0\", \"EUCLIDEAN\", \"prox\", 0.0, null, 518]": [
"ok",
"5becee8fb0321e72c5c77e6b",
"('ndarray', ('y', 'x'), [('res', 1), ('tag', 't')], '5b6b6c13779cd244381003ae', '5b6b6c13779cd244381003ae')"
],
"[[5, 5], \"float64\", \"asc\", [], \"inf\", \"EUCLIDEAN\", \"alloc\", 0.0, null, 519]": [
"ok",
"ea188eeaa11e53d9750cada3",
"('ndarray', ('y', 'x'), [('res', 1), ('tag', 't')], '5b6b6c13779cd244381003ae', '5b6b6c13779cd244381003ae')"
],
"[[5, 5], \"float64\", \"asc\", [], \"inf\", \"EUCLIDEAN\", \"alloc\", 1.0, null, 520]": [
"ok",
"7a19e6bb177165fee1e21038",
"('ndarray', ('y', 'x'), [('res', 1), ('tag', 't')], '5b6b6c13779cd244381003ae', '5b6b6c13779cd244381003ae')"
],
"[[5, 5], \"float64\", \"asc\", [], \"inf\", \"EUCLIDEAN\", \"dir\", 0.0, null, 519]": [
"ok",
"ea188eeaa11e53d9750cada3",
"('ndarray', ('y', 'x'), [('res', 1), ('tag', 't')], '5b6b6c13779cd244381003ae', '5b6b6c13779cd244381003ae')"
],
"[[5, 5], \"float64\", \"asc\", [], \"inf\", \"EUCLIDEAN\", \"dir\", 1.0, null, 520]": [
"ok",
"fcf463f947dd1a40ff649c58",
"('ndarray', ('y', 'x'), [('res', 1), ('tag', 't')], '5b6b6c13779cd244381003ae', '5b6b6c13779cd244381003ae')"
],
"[[5, 5], \"float64\", \"asc\", [], \"inf\", \"EUCLIDEAN\", \"prox\", 0.0, null, 519]": [
"ok",
"ea188eeaa11e53d9750cada3",
"('ndarray', ('y', 'x'), [('res', 1), ('tag', 't')], '5b6b6c13779cd244381003ae', '5b6b6c13779cd244381003ae')"
],
"[[5, 5], \"float64\", \"asc\", [], \"inf\", \"EUCLIDEAN\", \"prox\", 1.0, null, 520]": [
"ok",
"9ef6793c6a6554e756602562",
"('ndarray', ('y', 'x'), [('res', 1), ('tag', 't')], '5b6b6c13779cd244381003ae', '5b6b6c13779cd244381003ae')"
],
"[[5, 5], \"float64\", \"lonlat\", [2], \"2500000.0\", \"GREAT_CIRCLE\", \"alloc\", 0.5, null, 511]": [
"ok",
"46d4772895479491b05e68d8",
"('ndarray', ('y', 'x'), [('res', 1), ('tag', 't')], '472c1232d25e6f7ddc7b4fb8', '10ee78d8283a7545d553f09a')"
],
"[[5, 5], \"float64\", \"lonlat\", [2], \"2500000.0\", \"GREAT_CIRCLE\", \"dir\", 0.5, null, 511]": [
"ok",
"faafcc8b184cccf64b93d5a7",
"('ndarray', ('y', 'x'), [('res', 1), ('tag', 't')], '472c1232d25e6f7ddc7b4fb8', '10ee78d8283a7545d553f09a')"
],
"[[5, 5], \"float64\", \"lonlat\", [2], \"2500000.0\", \"GREAT_CIRCLE\", \"prox\", 0.5, null, 511]": [
"ok",
"c6f7e7cec4d8bff3b057a4c9",
"('ndarray', ('y', 'x'), [('res', 1), ('tag', 't')], '472c1232d25e6f7ddc7b4fb8', '10ee78d8283a7545d553f09a')"
],
"[[5, 5], \"float64\", \"lonlat\", [], \"3000000.0\", \"GREAT_CIRCLE\", \"alloc\", 0.2, null, 510]": [
"ok",
"978e89727f4fc1fe688b4c1d",
"('ndarray', ('y', 'x'), [('res', 1), ('tag', 't')], '472c1232d25e6f7ddc7b4fb8', '10ee78d8283a7545d553f09a')"
],
"[[5, 5], \"float64\", \"lonlat\", [], \"3000000.0\", \"GREAT_CIRCLE\", \"dir\", 0.2, null, 510]": [
"ok",
"df8c09de29552567defb4939",
"('ndarray', ('y', 'x'), [('res', 1), ('tag', 't')], '472c1232d25e6f7ddc7b4fb8', '10ee78d8283a7545d553f09a')"
],
"[[5, 5], \"float64\", \"lonlat\", [], \"3000000.0\", \"GREAT_CIRCLE\", \"prox\", 0.2, null, 510]": [
"ok",
"5e7e2d3fe103f0f7b2632b7a",
"('ndarray', ('y', 'x'), [('res', 1), ('tag', 't')], '472c1232d25e6f7ddc7b4fb8', '10ee78d8283a7545d553f09a')"
],
"[[5, 5], \"float64\", \"lonlat\", [], \"inf\", \"GREAT_CIRCLE\", \"alloc\", 0.2, [2, 3], 512]": [
"ok",
"5271ab1ab4598035bd59e9b5",
"('Array', ('y', 'x'), [('res', 1), ('tag', 't')], '472c1232d25e6f7ddc7b4fb8', '10ee78d8283a7545d553f09a')"
],
"[[5, 5], \"float64\", \"lonlat\", [], \"inf\", \"GREAT_CIRCLE\", \"alloc\", 0.2, null, 509]": [
"ok",
"e598a664eec7d263f53a211a",
"('ndarray', ('y', 'x'), [('res', 1), ('tag', 't')], '472c1232d25e6f7ddc7b4fb8', '10ee78d8283a7545d553f09a')"
],
"[[5, 5], \"float64\", \"lonlat\", [], \"inf\", \"GREAT_CIRCLE\", \"dir\", 0.2, [2, 3], 512]": [
"ok",
"7326563f5c0bc7a7e664cfb6",
"('Array', ('y', 'x'), [('res', 1), ('tag', 't')], '472c1232d25e6f7ddc7b4fb8', '10ee78d8283a7545d553f09a')"
],
"[[5, 5], \"float64\", \"lonlat\", [], \"inf\", \"GREAT_CIRCLE\", \"dir\", 0.2, null, 509]": [
"ok",
"5cba5b4d069085b4ca9f6dba",
"('ndarray', ('y', 'x'), [('res', 1), ('tag', 't')], '472c1232d25e6f7ddc7b4fb8', '10ee78d8283a7545d553f09a')"
],
"[[5, 5], \"float64\", \"lonlat\", [], \"inf\", \"GREAT_CIRCLE\", \"prox\", 0.2, [2, 3], 512]": [
"ok",
"8be5072252d63bae9e23d29c",
"('Array', ('y', 'x'), [('res', 1), ('tag', 't')], '472c1232d25e6f7ddc7b4fb8', '10ee78d8283a7545d553f09a')"
],
"[[5, 5], \"float64\", \"lonlat\", [], \"inf\", \"GREAT_CIRCLE\", \"prox\", 0.2, null, 509]": [
"ok",
"9c7a8425c1bf0517114d50ee",
"('ndarray', ('y', 'x'), [('res', 1), ('tag', 't')], '472c1232d25e6f7ddc7b4fb8', '10ee78d8283a7545d553f09a')"
],
"[[5, 5], \"float64\", \"xdesc\", [1], \"0\", \"EUCLIDEAN\", \"alloc\", 0.15, null, 116]": [
"ok",
"218f8f4327f8129577faee2b",
"('ndarray', ('y', 'x'), [('res', 1), ('tag', 't')], '0b3989624f6af9edf805bda1', '541848f5765c53205a1e539c')"
],
"[[5, 5], \"int32\", \"asc\", [7], \"2.5\", \"BOGUS\", \"prox\", 0.05, null, 118]": [
"ok",
"ea188eeaa11e53d9750cada3",
"('ndarray', ('y', 'x'), [('res', 1), ('tag', 't')], '5b6b6c13779cd244381003ae', '5b6b6c13779cd244381003ae')"
],
"[[5, 5], \"int64\", \"desc\", [0], \"1.0\", \"EUCLIDEAN\", \"alloc\", 0.15, null, 119]": [
"ok",
"23a8af964d591435e4427b3d",
"('ndarray', ('y', 'x'), [('res', 1), ('tag', 't')], '5b6b6c13779cd244381003ae', '40b99ecb720e623368fc54bc')"
],
"[[5, 5], \"uint8\", \"asc\", [], \"2\", \"EUCLIDEAN\", \"alloc\", 0.2, [2, 2], 517]": [
"ok",
"e61f9dad143c94e3cdfbcfd0",
"('Array', ('y', 'x'), [('res', 1), ('tag', 't')], '5b6b6c13779cd244381003ae', '5b6b6c13779cd244381003ae')"
],
"[[5, 5], \"uint8\", \"asc\", [], \"2\", \"EUCLIDEAN\", \"dir\", 0.2, [2, 2], 517]": [
"ok",
"27998cc33f2e69908260f5ec",
"('Array', ('y', 'x'), [('res', 1), ('tag', 't')], '5b6b6c13779cd244381003ae', '5b6b6c13779cd244381003ae')"
],
"[[5, 5], \"uint8\", \"asc\", [], \"2\", \"EUCLIDEAN\", \"prox\", 0.2, [2, 2], 517]": [
"ok",
"f2d70f1b87b531b7502ddbee",
"('Array', ('y', 'x'), [('res', 1), ('tag', 't')], '5b6b6c13779cd244381003ae', '5b6b6c13779cd244381003ae')"
],
"[[5, 5], \"uint8\", \"nonsq\", [], \"2\", \"MANHATTAN\", \"dir\", 0.4, null, 120]": [
"ok",
"5d53339982f97ac5a91d3729",
"('ndarray', ('y', 'x'), [('res', 1), ('tag', 't')], 'cdacc378abd7322334e5f0db', '1a8423acb8f6a5882684c744')"
],
"[[6, 1], \"float32\", \"xdesc\", [], \"1.0\", \"EUCLIDEAN\", \"prox\", 0.15, null, 112]": [
"ok",
"ad6677b41f669082f44512db",
"('ndarray', ('y', 'x'), [('res', 1), ('tag', 't')], '746e75607f7ce3478b54dd31', '19df62cb651bcb03099fbcb5')"
],
"[[6, 1], \"float64\", \"nonsq\", [0], \"2.5\", \"BOGUS\", \"dir\", 0.05, null, 111]": [
"ok",
"f6a33fdbce3ed683a18b0b3a",
"('ndarray', ('y', 'x'), [('res', 1), ('tag', 't')], '7c642df378cae3a282b6635e', '5c2586b672213741a21e9540')"
],
"[[6, 1], \"int32\", \"int\", [1], \"2\", \"MANHATTAN\", \"alloc\", 0.4, null, 113]": [
"ok",
"affa2f45f5a92b5c7657dc3c",
"('ndarray', ('y', 'x'), [('res', 1), ('tag', 't')], '45adabbfed6d5c15e65388c9', '2ea0b95b10fb046f7a7af655')"
],
"[[6, 1], \"int32\", \"lonlat\", [], \"inf\", \"GREAT_CIRCLE\", \"alloc\", 0.3, null, 514]": [
"ok",
"7c918f6744118be39f5f0fb6",
"('ndarray', ('y', 'x'), [('res', 1), ('tag', 't')], '402302216b3bdbf0334ed41b', '5eba7900aaf000ccdb1fdd4f')"
],
"[[6, 1], \"int32\", \"lonlat\", [], \"inf\", \"GREAT_CIRCLE\", \"dir\", 0.3, null, 514]": [
"ok",
"d931667086f54471e3aaed34",
"('ndarray', ('y', 'x'), [('res', 1), ('tag', 't')], '402302216b3bdbf0334ed41b', '5eba7900aaf000ccdb1fdd4f')"
],
"[[6, 1], \"int32\", \"lonlat\", [], \"inf\", \"GREAT_CIRCLE\", \"prox\", 0.3, null, 514]": [
"ok",
"d6be9b8f1f4c6668c6620481",
"('ndarray', ('y', 'x'), [('res', 1), ('tag', 't')], '402302216b3bdbf0334ed41b', '5eba7900aaf000ccdb1fdd4f')"
],
"[[6, 1], \"int64\", \"asc\", [2, 3], null, \"BOGUS\", \"dir\", 0.05, null, 114]": [
"ok",
"b0beda72bcdda20b98d34474",
"('ndarray', ('y', 'x'), [('res', 1), ('tag', 't')], '746e75607f7ce3478b54dd31', '7d99c17806d056b304b0908b')"
],
"[[6, 1], \"uint8\", \"desc\", [7], \"inf\", \"EUCLIDEAN\", \"prox\", 0.15, null, 115]": [
"ok",
"b0beda72bcdda20b98d34474",
"('ndarray', ('y', 'x'), [('res', 1), ('tag', 't')], '746e75607f7ce3478b54dd31', '5ca9c4c22738cec8adae37ab')"
],
"[[7, 11], \"float32\", \"asc\", [0], \"inf\", \"BOGUS\", \"alloc\", 0.05, null, 122]": [
"ok",
"53addaf868ae69fbd5e98381",
"('ndarray', ('y', 'x'), [('res', 1), ('tag', 't')], '71369b87b9f621e384249cfa', '05d6621fb3c143a115235989')"
],
"[[7, 11], \"float64\", \"asc\", [], \"1.5\", \"EUCLIDEAN\", \"alloc\", 0.1, [4, 5], 508]": [
"ok",
"9631d03c3027b3ec9c7f2089",
"('Array', ('y', 'x'), [('res', 1), ('tag', 't')], '71369b87b9f621e384249cfa', '05d6621fb3c143a115235989')"
],
"[[7, 11], \"float64\", \"asc\", [], \"1.5\", \"EUCLIDEAN\", \"dir\", 0.1, [4, 5], 508]": [
"ok",
"8d2621a033f102570db54f13",
"('Array', ('y', 'x'), [('res', 1), ('tag', 't')], '71369b87b9f621e384249cfa', '05d6621fb3c143a115235989')"
],
"[[7, 11], \"float64\", \"asc\", [], \"1.5\", \"EUCLIDEAN\", \"prox\", 0.1, [4, 5], 508]": [
"ok",
"8de80368529d1284e4cf4d00",
"('Array', ('y', 'x'), [('res', 1), ('tag', 't')], '71369b87b9f621e384249cfa', '05d6621fb3c143a115235989')"
],
"[[7, 11], \"float64\", \"desc\", [], \"3\", \"EUCLIDEAN\", \"alloc\", 0.1, [3, 4], 502]": [
"ok",
"5686428b0b32cf72b92b9687",
"('Array', ('y', 'x'), [('res', 1), ('tag', 't')], '71369b87b9f621e384249cfa', '17958d5e838f59be3cf9fbcb')"
],
"[[7, 11], \"float64\", \"desc\", [], \"3\", \"EUCLIDEAN\", \"alloc\", 0.1, null, 501]": [
"ok",
"f9b9685afec4168e2cc9a589",
"('ndarray', ('y', 'x'), [('res', 1), ('tag', 't')], '71369b87b9f621e384249cfa', '17958d5e838f59be3cf9fbcb')"
],
"[[7, 11], \"float64\", \"desc\", [], \"3\", \"EUCLIDEAN\", \"dir\", 0.1, [3, 4], 502]": [
"ok",
"65273141e9eb2606c732301c",
"('Array', ('y', 'x'), [('res', 1), ('tag', 't')], '71369b87b9f621e384249cfa', '17958d5e838f59be3cf9fbcb')"
],
"[[7, 11], \"float64\", \"desc\", [], \"3\", \"EUCLIDEAN\", \"dir\", 0.1, null, 501]": [
"ok",
"2aab16ca6a012b3a609ed4ae",
"('ndarray', ('y', 'x'), [('res', 1), ('tag', 't')], '71369b87b9f621e384249cfa', '17958d5e838f59be3cf9fbcb')"
],
"[[7, 11], \"float64\", \"desc\", [], \"3\", \"EUCLIDEAN\", \"prox\", 0.1, [3, 4], 502]": [
"ok",
"64252a5ce7471592d88dd21f",
"('Array', ('y', 'x'), [('res', 1), ('tag', 't')], '71369b87b9f621e384249cfa', '17958d5e838f59be3cf9fbcb')"
],
"[[7, 11], \"float64\", \"desc\", [], \"3\", \"EUCLIDEAN\", \"prox\", 0.1, null, 501]": [
"ok",
"df246e41d7d94a022ea91b99",
"('ndarray', ('y', 'x'), [('res', 1), ('tag', 't')], '71369b87b9f621e384249cfa', '17958d5e838f59be3cf9fbcb')"
],
"[[7, 11], \"float64\", \"desc\", [], \"inf\", \"EUCLIDEAN\", \"alloc\", 0.1, [3, 4], 503]": [
"ok",
"a3014b00447e3c9c842f84ca",
"('Array', ('y', 'x'), [('res', 1), ('tag', 't')], '71369b87b9f621e384249cfa', '17958d5e838f59be3cf9fbcb')"
],
"[[7, 11], \"float64\", \"desc\", [], \"inf\", \"EUCLIDEAN\", \"alloc\", 0.1, null, 500]": [
"ok",
"ec049a266759ca56a7c542d4",
"('ndarray', ('y', 'x'), [('res', 1), ('tag', 't')], '71369b87b9f621e384249cfa', '17958d5e838f59be3cf9fbcb')"
],
"[[7, 11], \"float64\", \"desc\", [], \"inf\", \"EUCLIDEAN\", \"dir\", 0.1, [3, 4], 503]": [
"ok",
"fa71c61ae5aa8dbffb6a0bfd",
"('Array', ('y', 'x'), [('res', 1), ('tag', 't')], '71369b87b9f621e384249cfa', '17958d5e838f59be3cf9fbcb')"
],
"[[7, 11], \"float64\", \"desc\", [], \"inf\", \"EUCLIDEAN\", \"dir\", 0.1, null, 500]": [
"ok",
"f8ac877ef4cd41878212c858",
"('ndarray', ('y', 'x'), [('res', 1), ('tag', 't')], '71369b87b9f621e384249cfa', '17958d5e838f59be3cf9fbcb')"
],
"[[7, 11], \"float64\", \"desc\", [], \"inf\", \"EUCLIDEAN\", \"prox\", 0.1, [3, 4], 503]": [
"ok",
"73a9a849948d3c97396af0b0",
"('Array', ('y', 'x'), [('res', 1), ('tag', 't')], '71369b87b9f621e384249cfa', '17958d5e838f59be3cf9fbcb')"
],
"[[7, 11], \"float64\", \"desc\", [], \"inf\", \"EUCLIDEAN\", \"prox\", 0.1, null, 500]": [
"ok",
"7edbd64a1aa39eb95ed6126b",
"('ndarray', ('y', 'x'), [('res', 1), ('tag', 't')], '71369b87b9f621e384249cfa', '17958d5e838f59be3cf9fbcb')"
],
"[[7, 11], \"float64\", \"int\", [7], null, \"MANHATTAN\", \"prox\", 0.4, null, 121]": [
"ok",
"7faa0b4e215d3b489de8eec2",
"('ndarray', ('y', 'x'), [('res', 1), ('tag', 't')], 'fa61c3b8ead3886dfc97fcaa', 'd25bbdefc253f8f97997198d')"
],
"[[7, 11], \"int32\", \"desc\", [], \"0\", \"EUCLIDEAN\", \"dir\", 0.15, null, 123]": [
"ok",
"88bce4f60e68d0647dca28cf",
"('ndarray', ('y', 'x'), [('res', 1), ('tag', 't')], '71369b87b9f621e384249cfa', '17958d5e838f59be3cf9fbcb')"
],
"[[7, 11], \"int64\", \"nonsq\", [1], \"4\", \"MANHATTAN\", \"prox\", 0.4, null, 124]": [
"ok",
"c486b6e79a3262b6da0d1b15",
"('ndarray', ('y', 'x'), [('res', 1), ('tag', 't')], '2e51f2f15f7fdb0a3508180c', '7bd58c94df0d674a5e95285e')"
],
"[[7, 11], \"uint8\", \"xdesc\", [2, 3], \"2.5\", \"BOGUS\", \"alloc\", 0.05, null, 125]": [
"ok",
"b332811d0265896fb0b605f4",
"('ndarray', ('y', 'x'), [('res', 1), ('tag', 't')], 'fbc6402eb4533b9c02b96067', 'a1ddab9290b42b6922b579c6')"
],
"[[9, 4], \"float32\", \"desc\", [1], \"2\", \"EUCLIDEAN\", \"prox\", 0.15, null, 127]": [
"ok",
"b9bd18b873eb63e4cc982475",
"('ndarray', ('y', 'x'), [('res', 1), ('tag', 't')], '4fbdefeeb10aacbf548a3bff', '8bfa55e2f12a249e775410a1')"
],
"[[9, 4], \"float32\", \"nonsq\", [1, 3], \"1.0\", \"MANHATTAN\", \"alloc\", 0.3, [4, 2], 507]": [
"ok",
"fb818c099b55732cf95abe2c",
"('Array', ('y', 'x'), [('res', 1), ('tag', 't')], '406d329d48cac705a9c791a0', 'b67f1e5f73b687d92761f2ff')"
],
"[[9, 4], \"float32\", \"nonsq\", [1, 3], \"1.0\", \"MANHATTAN\", \"dir\", 0.3, [4, 2], 507]": [
"ok",
"fac02c0c7770552df0fe3709",
"('Array', ('y', 'x'), [('res', 1), ('tag', 't')], '406d329d48cac705a9c791a0', 'b67f1e5f73b687d92761f2ff')"
],
"[[9, 4], \"float32\", \"nonsq\", [1, 3], \"1.0\", \"MANHATTAN\", \"prox\", 0.3, [4, 2], 507]": [
"ok",
"3fe4819d721825692093db9a",
"('Array', ('y', 'x'), [('res', 1), ('tag', 't')], '406d329d48cac705a9c791a0', 'b67f1e5f73b687d92761f2ff')"
],
"[[9, 4], \"float32\", \"nonsq\", [1, 3], \"4.5\", \"MANHATTAN\", \"alloc\", 0.3, [4, 2], 505]": [
"exc",
"ValueError",
"The overlapping depth 5 is larger than your array 4."
],
"[[9, 4], \"float32\", \"nonsq\", [1, 3], \"4.5\", \"MANHATTAN\", \"alloc\", 0.3, null, 504]": [
"ok",
"97c9bb4773158b39ebc9758d",
"('ndarray', ('y', 'x'), [('res', 1), ('tag', 't')], '406d329d48cac705a9c791a0', 'b67f1e5f73b687d92761f2ff')"
],
"[[9, 4], \"float32\", \"nonsq\", [1, 3], \"4.5\", \"MANHATTAN\", \"dir\", 0.3, [4, 2], 505]": [
"exc",
"ValueError",
"The overlapping depth 5 is larger than your array 4."
],
"[[9, 4], \"float32\", \"nonsq\", [1, 3], \"4.5\", \"MANHATTAN\", \"dir\", 0.3, null, 504]": [
"ok",
"57e2332ace124527c34d217e",
"('ndarray', ('y', 'x'), [('res', 1), ('tag', 't')], '406d329d48cac705a9c791a0', 'b67f1e5f73b687d92761f2ff')"
],
"[[9, 4], \"float32\", \"nonsq\", [1, 3], \"4.5\", \"MANHATTAN\", \"prox\", 0.3, [4, 2], 505]": [
"exc",
"ValueError",
"The overlapping depth 5 is larger than your array 4."
],
"[[9, 4], \"float32\", \"nonsq\", [1, 3], \"4.5\", \"MANHATTAN\", \"prox\", 0.3, null, 504]": [
"ok",
"cf3455b7f6ef244c31208b14",
"('ndarray', ('y', 'x'), [('res', 1), ('tag', 't')], '406d329d48cac705a9c791a0', 'b67f1e5f73b687d92761f2ff')"
],
"[[9, 4], \"float32\", \"nonsq\", [1, 3], null, \"MANHATTAN\", \"alloc\", 0.3, [4, 2], 506]": [
"ok",
"bf97e304fc17cd589b9606c3",
"('Array', ('y', 'x'), [('res', 1), ('tag', 't')], '406d329d48cac705a9c791a0', 'b67f1e5f73b687d92761f2ff')"
],
"[[9, 4], \"float32\", \"nonsq\", [1, 3], null, \"MANHATTAN\", \"dir\", 0.3, [4, 2], 506]": [
"ok",
"d54a207a9c316da914109f32",
"('Array', ('y', 'x'), [('res', 1), ('tag', 't')], '406d329d48cac705a9c791a0', 'b67f1e5f73b687d92761f2ff')"
],
"[[9, 4], \"float32\", \"nonsq\", [1, 3], null, \"MANHATTAN\", \"prox\", 0.3, [4, 2], 506]": [
"ok",
"eea97f0a0e6b7c19f81f0ae8",
"('Array', ('y', 'x'), [('res', 1), ('tag', 't')], '406d329d48cac705a9c791a0', 'b67f1e5f73b687d92761f2ff')"
],
"[[9, 4], \"float64\", \"asc\", [], \"1.0\", \"BOGUS\", \"dir\", 0.05, null, 126]": [
"ok",
"5be103ff2144ff66858f26fd",
"('ndarray', ('y', 'x'), [('res', 1), ('tag', 't')], '4fbdefeeb10aacbf548a3bff', 'c0fefdffa7ee43d23a42187e')"
],
"[[9, 4], \"int32\", \"nonsq\", [2, 3], null, \"MANHATTAN\", \"alloc\", 0.4, null, 128]": [
"ok",
"ecc407c5987c40f9e34711b6",
"('ndarray', ('y', 'x'), [('res', 1), ('tag', 't')], '406d329d48cac705a9c791a0', 'b67f1e5f73b687d92761f2ff')"
],
"[[9, 4], \"int64\", \"xdesc\", [7], \"inf\", \"BOGUS\", \"dir\", 0.05, null, 129]": [
"ok",
"b9bd18b873eb63e4cc982475",
"('ndarray', ('y', 'x'), [('res', 1), ('tag', 't')], '3fbe701b481d0a02e25b6785', 'be48a7148b41951567ed25d4')"
],
"[[9, 4], \"uint8\", \"int\", [0], \"0\", \"EUCLIDEAN\", \"prox\", 0.15, null, 130]": [
"ok",
"0cd9376ed93c1ea17705de84",
"('ndarray', ('y', 'x'), [('res', 1), ('tag', 't')], '9f8d63dcb3599a90022fc3d4', '0eb59225a6944cde233c817a')"
],
"err:3d": [
"exc",
"ValueError",
"raster.coords should be named as coordinates:(y, x)"
],
"err:dims:alloc": [
"exc",
"ValueError",
"raster.coords should be named as coordinates:(y, x)"
],
"err:dims:dir": [
"exc",
"ValueError",
"raster.coords should be named as coordinates:(y, x)"
],
"err:dims:prox": [
"exc",
"ValueError",
"raster.coords should be named as coordinates:(y, x)"
],
"err:gc:alloc": [
"exc",
"ValueError",
"Invalid x-coordinate of the second point.Must be in the range [-180, 180]"
],
"err:gc:dir": [
"exc",
"ValueError",
"Invalid x-coordinate of the second point.Must be in the range [-180, 180]"
],
"err:gc:prox": [
"exc",
"ValueError",
"Invalid x-coordinate of the second point.Must be in the range [-180, 180]"
],
"err:metric:list": [
"exc",
"TypeError",
"unhashable type: 'list'"
],
"kernel:_calc_direction": [
"ok",
"9844244385cb5e2537d21324",
""
],
"kernel:_distance:0": [
"ok",
"44c0d0401507304e9457128b",
""
],
"kernel:_distance:1": [
"ok",
"58581e95e30cee9bd94eeae1",
""
],
"kernel:_distance:2": [
"ok",
"3d2f1005182ebc51f297fb73",
""
],
"kernel:_process_proximity_line:0": [
"ok",
"659a6cc92529257461823513|b417e67918da81a80867c20a|21a0cdcd2db192e087dc719f|b417e67918da81a80867c20a|21a0cdcd2db192e087dc719f",
""
],
"kernel:_process_proximity_line:1": [
"ok",
"b9db175c6861c31c1864c103|a90962791d438f35e8d5e73e|3b04cb647c706daa485b4575|a90962791d438f35e8d5e73e|3b04cb647c706daa485b4575",
""
],
"kernel:_process_proximity_line:2": [
"ok",
"65c1a761bfa6c360d618c892|662c8abb3502d7ef29a6e81c|467868682685c480147728c3|2d3b386b0601119acd453495|d316c2eaf7b9dc97f01919c2",
""
],
"kernel:_process_proximity_line:3": [
"ok",
"2a1902c82fb70abf5c5a0260|8ee0442be1f8d3fca04a911c|98af85acd197bc8a2660cc9f|8ee0442be1f8d3fca04a911c|98af85acd197bc8a2660cc9f",
""
],
"kernel:_process_proximity_line:4": [
"ok",
"5775a492b8a7237851145d7c|e3af6a1b6da76ad3c37d7807|f84f3bfe2195ddd9fadb63ec|796ae73ca69ddf751dbf1666|e35b6fd020e325237eb27a2d",
""
],
"ok:dims:renamed": [
"ok",
"422fa6eaecc4226ee9a2612b",
"('lat', 'lon')"
]
}''')

if __name__ == "__main__":
    sys.exit(main())
