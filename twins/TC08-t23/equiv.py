"""Differential test for refactoring t23 (xrspatial/aspect.py, CPU kernel).

`ref_kernel` is a verbatim copy of the ORIGINAL numba kernel, compiled with
the same jit options, so it is bit-reproducible on the machine running the
test.  aspect() on numpy and dask input must be bit-identical to it (dtype,
shape, NaN mask, bits of every non-NaN value incl. the -1 flat marker),
metadata must be preserved.  A few recorded values from the unmodified tree
and the closed-form compass directions of planes are checked as well.
Run from the worktree:
    cd <worktree> && PYTHONPATH=<worktree> python equiv.py
"""
import sys
import warnings

import dask
import dask.array as da
import numpy as np
import xarray as xr
from numba import jit

import xrspatial
from xrspatial import aspect

dask.config.set(scheduler='synchronous')
warnings.simplefilter('ignore')
FAIL = []
RADIAN = 180 / np.pi


@jit(nopython=True, nogil=True)
def ref_kernel(data):
    data = data.astype(np.float32)
    out = np.zeros_like(data, dtype=np.float32)
    out[:] = np.nan
    rows, cols = data.shape
    for y in range(1, rows-1):
        for x in range(1, cols-1):

            a = data[y-1, x-1]
            b = data[y-1, x]
            c = data[y-1, x+1]
            d = data[y, x-1]
            f = data[y, x+1]
            g = data[y+1, x-1]
            h = data[y+1, x]
            i = data[y+1, x+1]

            dz_dx = ((c + 2 * f + i) - (a + 2 * d + g)) / 8
            dz_dy = ((g + 2 * h + i) - (a + 2 * b + c)) / 8

            if dz_dx == 0 and dz_dy == 0:
                # flat surface, slope = 0, thus invalid aspect
                out[y, x] = -1.
            else:
                _aspect = np.arctan2(dz_dy, -dz_dx) * RADIAN
                # convert to compass direction values (0-360 degrees)
                if _aspect < 0:
                    out[y, x] = 90.0 - _aspect
                elif _aspect > 90.0:
                    out[y, x] = 360.0 - _aspect + 90.0
                else:
                    out[y, x] = 90.0 - _aspect

    return out


def ref_dask(data):
    data = data.astype(np.float32)
    return data.map_overlap(ref_kernel, depth=(1, 1), boundary=np.nan,
                            meta=np.array(()))


def same(tag, got, exp):
    got = np.asarray(got)
    exp = np.asarray(exp)
    if got.dtype != exp.dtype or got.shape != exp.shape:
        FAIL.append('%s: dtype/shape %s%s vs %s%s' % (tag, got.dtype, got.shape, exp.dtype, exp.shape))
        return
    gn, en = np.isnan(got), np.isnan(exp)
    if not np.array_equal(gn, en):
        FAIL.append('%s: NaN mask differs' % tag)
        return
    it = np.dtype('i%d' % got.dtype.itemsize)
    if not np.array_equal(np.where(gn, 0, got).view(it), np.where(en, 0, exp).view(it)):
        FAIL.append('%s: values differ (max abs %r)' % (tag, np.nanmax(np.abs(got - exp))))


def rasters():
    rs = np.random.RandomState(823)
    out = []
    for shape in [(1, 1), (1, 6), (6, 1), (2, 2), (2, 5), (3, 3), (4, 3), (5, 7), (13, 11), (9, 20), (30, 27)]:
        for dt in [np.float32, np.float64, np.int32, np.int64, np.uint8, np.int8, np.uint16]:
            if np.issubdtype(dt, np.floating):
                a = (rs.rand(*shape) * 2000 - 500).astype(dt)
            else:
                info = np.iinfo(dt)
                a = rs.randint(max(info.min, -3000), min(info.max, 3000), size=shape).astype(dt)
            out.append(('rand-%s-%s' % (shape, np.dtype(dt).name), a))
    # many ties: small integer levels give flat cells, exact axis directions
    # (dz_dx == 0 xor dz_dy == 0) and exact diagonals -> every branch boundary
    for lv in (2, 3, 5):
        for dt in (np.float64, np.int16, np.float32):
            out.append(('ties%d-%s' % (lv, np.dtype(dt).name), rs.randint(0, lv, size=(25, 26)).astype(dt)))
    out.append(('flat', np.full((6, 5), 7.25, dtype=np.float32)))
    out.append(('zeros-int', np.zeros((5, 5), dtype=np.int64)))
    out.append(('negzero', np.full((5, 5), -0.0)))
    # planes z = p*col + q*row : all 8 compass directions + arbitrary ones
    for p, q in [(1, 0), (-1, 0), (0, 1), (0, -1), (1, 1), (1, -1), (-1, 1), (-1, -1),
                 (3, 1), (-2, 5), (0.25, -7.5), (1e-3, 1e-3), (1e6, -1)]:
        out.append(('plane-%r-%r' % (p, q), np.add.outer(np.arange(6.) * q, np.arange(7.) * p)))
    n = rs.rand(20, 22) * 100
    n[rs.rand(20, 22) < 0.1] = np.nan
    out.append(('nan64', n))
    out.append(('nan32', n.astype(np.float32)))
    t = rs.randint(0, 3, size=(20, 22)).astype(np.float64)
    t[rs.rand(20, 22) < 0.1] = np.nan
    out.append(('nan-ties', t))
    i = n.copy()
    i[2, 3] = np.inf
    i[5, 5] = -np.inf
    i[12, 12] = np.inf
    i[12, 14] = np.inf
    out.append(('inf', i))
    out.append(('allnan', np.full((4, 4), np.nan)))
    out.append(('huge', rs.rand(8, 8) * 1e38))
    out.append(('overflow32', rs.rand(8, 8) * 1e300))
    out.append(('tiny', rs.rand(8, 8) * 1e-44))
    return out


def main():
    for tag, arr in rasters():
        exp = ref_kernel(arr)
        agg = xr.DataArray(arr, dims=['y', 'x'], name='elev',
                           coords={'y': np.arange(arr.shape[0])[::-1] * 2.5,
                                   'x': np.arange(arr.shape[1]) * 0.5},
                           attrs={'res': (0.5, 2.5), 'unit': 'm'})
        got = aspect(agg)
        same('numpy ' + tag, got.data, exp)
        if not isinstance(got.data, np.ndarray):
            FAIL.append('numpy %s: backend' % tag)
        if (got.name, got.dims, dict(got.attrs)) != ('aspect', ('y', 'x'), dict(agg.attrs)) \
                or not got.coords['x'].equals(agg.coords['x']) or not got.coords['y'].equals(agg.coords['y']):
            FAIL.append('numpy %s: metadata' % tag)
        if aspect(agg, name='asp').name != 'asp':
            FAIL.append('numpy %s: name' % tag)
        # range part of the property
        v = got.data[~np.isnan(got.data)]
        if not np.all((v == -1) | ((v >= 0) & (v <= 360))):
            FAIL.append('numpy %s: range' % tag)
        # non-contiguous / transposed views go through the same kernel
        if arr.dtype == np.float64:
            same('numpy-T ' + tag, aspect(xr.DataArray(arr.T)).data, ref_kernel(arr.T))
            same('numpy-flip ' + tag, aspect(xr.DataArray(arr[::-1, ::-1])).data, ref_kernel(arr[::-1, ::-1]))
        if min(arr.shape) == 0:
            continue
        for chunks in [(2, 2), (3, 4), (1, 5), arr.shape, (5, 1), (7, 7)]:
            if any(c > s for c, s in zip(chunks, arr.shape)):
                continue
            if arr.size > 250 and chunks[0] * chunks[1] < 12:
                continue
            darr = da.from_array(arr, chunks=chunks)
            try:
                e = ref_dask(darr)
            except Exception as ex:  # chunk smaller than depth etc.: same error expected
                try:
                    aspect(xr.DataArray(darr, dims=['y', 'x'])).data.compute()
                    FAIL.append('dask %s %s: no error' % (tag, chunks))
                except Exception as ex2:
                    if (type(ex), str(ex)) != (type(ex2), str(ex2)):
                        FAIL.append('dask %s %s: error differs' % (tag, chunks))
                continue
            g = aspect(xr.DataArray(darr, dims=['y', 'x'], attrs={'res': 1}))
            if not isinstance(g.data, da.Array) or g.data.chunks != e.chunks or g.dtype != e.dtype:
                FAIL.append('dask %s %s: laziness/chunks/dtype' % (tag, chunks))
            same('dask %s %s' % (tag, chunks), g.data.compute(), e.compute())
            same('dask==numpy %s %s' % (tag, chunks), g.data.compute(), exp)

    # recorded from the unmodified tree (docstring example)
    data = np.array([[1, 1, 1, 1, 1], [1, 1, 1, 2, 0], [1, 1, 1, 0, 0],
                     [4, 4, 9, 2, 4], [1, 5, 0, 1, 4], [1, 5, 0, 5, 5]], dtype=np.float32)
    rec = np.array([[-1., 225., 135.], [343.61045967, 8.97262661, 33.69006753],
                    [307.87498365, 71.56505118, 54.46232221], [191.30993247, 144.46232221, 255.96375653]])
    got = aspect(xr.DataArray(data, dims=['y', 'x'])).data
    if not np.allclose(got[1:-1, 1:-1], rec, atol=1e-4, rtol=0) or not np.isnan(got[0]).all() \
            or not np.isnan(got[:, -1]).all():
        FAIL.append('docstring example')
    # closed form: plane z = p*col + q*row, row index grows to the south.
    # downslope compass direction = atan2(east comp, north comp) of -grad
    for p, q in [(1, 0), (-1, 0), (0, 1), (0, -1), (1, 1), (1, -1), (-1, 1), (-1, -1), (3, 1), (-2, 5)]:
        z = np.add.outer(np.arange(6.) * q, np.arange(7.) * p)
        got = aspect(xr.DataArray(z)).data[1:-1, 1:-1]
        expd = np.degrees(np.arctan2(-p, q)) % 360.0
        if not np.allclose(got, expd, atol=1e-4, rtol=0):
            FAIL.append('plane %r %r: %r vs %r' % (p, q, got[0, 0], expd))

    if FAIL:
        print('FAILED (%d)' % len(FAIL))
        for f in FAIL[:30]:
            print('  ', f)
        return 1
    print('OK: aspect identical to the original kernel (%s)' % xrspatial.__file__)
    return 0


if __name__ == '__main__':
    sys.exit(main())
