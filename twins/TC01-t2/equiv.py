"""Differential test for refactoring TC01-t2 (shared dask map_overlap helper used by
slope / aspect / curvature / hillshade).

Compares, for a range of rasters (dtypes, NaN/inf, odd shapes, non-unit / non-square cells):
  (a) numpy results against independent per-cell reference implementations,
  (b) dask results against numpy results cell for cell for many chunkings and schedulers,
      laziness and chunk structure of the dask result,
  (c) sha256 digests of numpy and dask results against values recorded from the unmodified tree.
Exit 0 if identical, 1 otherwise.  `--record` prints the digests.
"""
import hashlib
import math
import sys
import warnings

import dask
import dask.array as da
import numpy as np
import xarray as xr

import xrspatial
from xrspatial import aspect, curvature, hillshade, slope

warnings.filterwarnings('ignore')
np.seterr(all='ignore')


def digest(arr):
    arr = np.ascontiguousarray(arr)
    h = hashlib.sha256()
    h.update(str(arr.dtype).encode())
    h.update(str(arr.shape).encode())
    h.update(arr.tobytes())
    return h.hexdigest()[:20]


def same(a, b):
    a = np.asarray(a)
    b = np.asarray(b)
    return a.dtype == b.dtype and a.shape == b.shape and np.array_equal(a, b, equal_nan=True)


# ---------------------------------------------------------------- references
def _atan(p):
    return math.atan(p) if not math.isnan(p) else math.nan


def ref_slope(data, cx, cy):
    d = data.astype(np.float32).astype(np.float64)
    rows, cols = d.shape
    out = np.full(d.shape, np.nan, dtype=np.float32)
    for y in range(1, rows - 1):
        for x in range(1, cols - 1):
            a, b, c = d[y + 1, x - 1], d[y + 1, x], d[y + 1, x + 1]
            dd, f = d[y, x - 1], d[y, x + 1]
            g, h, i = d[y - 1, x - 1], d[y - 1, x], d[y - 1, x + 1]
            dz_dx = ((c + 2 * f + i) - (a + 2 * dd + g)) / (8 * cx)
            dz_dy = ((g + 2 * h + i) - (a + 2 * b + c)) / (8 * cy)
            p = np.float64(dz_dx * dz_dx + dz_dy * dz_dy) ** .5
            out[y, x] = np.arctan(p) * 57.29578
    return out


def ref_curvature(data, cellsize):
    d = data.astype(np.float32)
    rows, cols = d.shape
    out = np.full(d.shape, np.nan, dtype=np.float32)
    for y in range(1, rows - 1):
        for x in range(1, cols - 1):
            # float32 + float32 stays float32, the int literals promote to float64
            dd = np.float64(d[y + 1, x] + d[y - 1, x]) / 2 - np.float64(d[y, x])
            e = np.float64(d[y, x + 1] + d[y, x - 1]) / 2 - np.float64(d[y, x])
            out[y, x] = -2 * (dd + e) * 100 / (cellsize * cellsize)
    return out


def ref_aspect(data):
    d = data.astype(np.float32).astype(np.float64)
    rows, cols = d.shape
    out = np.full(d.shape, np.nan, dtype=np.float32)
    for y in range(1, rows - 1):
        for x in range(1, cols - 1):
            a, b, c = d[y - 1, x - 1], d[y - 1, x], d[y - 1, x + 1]
            dd, f = d[y, x - 1], d[y, x + 1]
            g, h, i = d[y + 1, x - 1], d[y + 1, x], d[y + 1, x + 1]
            dz_dx = ((c + 2 * f + i) - (a + 2 * dd + g)) / 8
            dz_dy = ((g + 2 * h + i) - (a + 2 * b + c)) / 8
            if dz_dx == 0 and dz_dy == 0:
                out[y, x] = -1.
                continue
            asp = np.arctan2(dz_dy, -dz_dx) * (180 / np.pi)
            if asp > 90.0:
                out[y, x] = 360.0 - asp + 90.0
            else:
                out[y, x] = 90.0 - asp
    return out


def ref_hillshade(data, azimuth, altitude):
    d = data.astype(np.float32)
    rows, cols = d.shape
    out = np.full(d.shape, np.nan, dtype=np.float32)
    az = (360.0 - azimuth) * np.pi / 180.
    alt = altitude * np.pi / 180.
    for r in range(1, rows - 1):
        for c in range(1, cols - 1):
            gx = (d[r + 1, c] - d[r - 1, c]) / np.float32(2)
            gy = (d[r, c + 1] - d[r, c - 1]) / np.float32(2)
            sl = np.pi / 2. - np.arctan(np.sqrt(gx * gx + gy * gy))
            asp = np.arctan2(-gx, gy)
            sh = np.sin(alt) * np.sin(sl) + np.cos(alt) * np.cos(sl) * np.cos((az - np.pi / 2.) - asp)
            out[r, c] = (sh + 1) / 2
    return out


# -------------------------------------------------------------------- inputs
def make_inputs():
    rs = np.random.RandomState(4321)
    inputs = {}
    a = rs.uniform(-500, 1500, size=(8, 10))
    inputs['f64'] = a
    inputs['f32'] = a.astype(np.float32)
    b = a.copy()
    b[0, 0] = np.nan
    b[3, 4] = np.nan
    b[7, 9] = np.nan
    b[2, 7] = np.inf
    b[5, 1] = -np.inf
    inputs['f64_nan_inf'] = b
    inputs['i32'] = rs.randint(-20, 20, size=(6, 5)).astype(np.int32)
    inputs['u8_flat_parts'] = np.repeat(np.repeat(
        rs.randint(0, 4, size=(3, 4)).astype(np.uint8), 3, axis=0), 2, axis=1)  # (9, 8) plateaus
    inputs['i64_tall'] = rs.randint(-1000, 1000, size=(11, 3)).astype(np.int64)
    inputs['f32_2x7'] = rs.uniform(0, 1, size=(2, 7)).astype(np.float32)
    inputs['f64_3x3'] = rs.uniform(0, 9, size=(3, 3))
    return inputs


def make_agg(data, res):
    # coords with spacing `res`, descending y like a north-up raster, plus res attr
    h, w = data.shape
    agg = xr.DataArray(data, dims=['y', 'x'], attrs={'res': res, 'note': 'kept'})
    agg['y'] = np.arange(h)[::-1] * float(res[1]) + 7.0
    agg['x'] = np.arange(w) * float(res[0]) - 3.0
    return agg


def chunkings(shape):
    h, w = shape
    out = [(1, 1), (h, w), (2, 3), (max(h - 1, 1), 2), (1, w), (h, 1)]
    if h >= 4 and w >= 4:
        out.append(((1, h - 3, 2), (2, 1, w - 3)))
        out.append(((h - 1, 1), (1, 1, w - 2)))
    return out


RES = {'unit': (1, 1), 'nonsquare': (0.5, 30.0), 'int10': (10, 10)}

OPS = {
    'slope': lambda agg: slope(agg),
    'aspect': lambda agg: aspect(agg, name='asp'),
    'curvature': lambda agg: curvature(agg),
    'hillshade': lambda agg: hillshade(agg),
    'hillshade_az100_alt60': lambda agg: hillshade(agg, azimuth=100, angle_altitude=60, name='hs'),
}


def reference(op, data, res):
    cx, cy = float(res[0]), float(res[1])
    if op == 'slope':
        return ref_slope(data, cx, cy)
    if op == 'aspect':
        return ref_aspect(data)
    if op == 'curvature':
        return ref_curvature(data, (cx + cy) / 2)
    if op == 'hillshade':
        return ref_hillshade(data, 225, 25)
    return ref_hillshade(data, 100, 60)


def main(record):
    assert xrspatial.__file__.startswith('/tmp/seed/TC01/'), xrspatial.__file__
    ok = True
    got = {}
    inputs = make_inputs()
    for iname, data in inputs.items():
        for rname, res in RES.items():
            agg = make_agg(data, res)
            for op, call in OPS.items():
                key = '%s|%s|%s' % (iname, rname, op)
                r_np = call(agg)
                if not isinstance(r_np.data, np.ndarray):
                    print('FAIL numpy result type', key)
                    ok = False
                got[key] = digest(r_np.data)
                ref = reference(op, data, res)
                if op.startswith('hillshade'):
                    good = (r_np.shape == ref.shape and
                            np.allclose(r_np.data, ref, rtol=0, atol=1e-5, equal_nan=True))
                else:
                    good = same(r_np.data, ref)
                if not good:
                    print('FAIL reference mismatch', key)
                    ok = False
                if r_np.attrs != agg.attrs or r_np.dims != agg.dims:
                    print('FAIL attrs/dims', key)
                    ok = False

                for ci, chunks in enumerate(chunkings(data.shape)):
                    dagg = agg.copy()
                    dagg.data = da.from_array(data, chunks=chunks)
                    r_da = call(dagg)
                    if not isinstance(r_da.data, da.Array):
                        print('FAIL dask result not lazy', key, chunks)
                        ok = False
                        continue
                    if r_da.data.chunks != dagg.data.chunks:
                        print('FAIL dask chunks', key, chunks, r_da.data.chunks)
                        ok = False
                    # dtype/meta the lazy array advertises before compute (recorded, compared
                    # with the baseline below)
                    got[key + '|lazy%d' % ci] = '%s/%s' % (r_da.data.dtype,
                                                         type(r_da.data._meta).__name__)
                    if r_da.name != r_np.name or r_da.attrs != agg.attrs:
                        print('FAIL dask name/attrs', key)
                        ok = False
                    scheds = [dict(scheduler='synchronous')]
                    if ci % 3 == 0:
                        scheds.append(dict(scheduler='threads', num_workers=4))
                    for sk in scheds:
                        with dask.config.set(**sk):
                            val = r_da.data.compute()
                        if not same(val, r_np.data):
                            print('FAIL dask != numpy', key, chunks, sk)
                            ok = False

    if record:
        print('EXPECTED = {')
        for k in sorted(got):
            print('    %r: %r,' % (k, got[k]))
        print('}')
        return 0 if ok else 1

    if set(got) != set(EXPECTED):
        print('FAIL key sets differ')
        ok = False
    for k in sorted(got):
        if EXPECTED.get(k) != got[k]:
            print('FAIL digest differs from recorded baseline', k, got[k], EXPECTED.get(k))
            ok = False
    print('checked %d cases: %s' % (len(got), 'OK' if ok else 'MISMATCH'))
    return 0 if ok else 1


# --- recorded from the unmodified tree -------------------------------------
EXPECTED = {
    'f32_2x7|int10|aspect': '6e6b82b580d67c71befe',
    'f32_2x7|int10|aspect|lazy0': 'float64/ndarray',
    'f32_2x7|int10|aspect|lazy1': 'float64/ndarray',
    'f32_2x7|int10|aspect|lazy2': 'float64/ndarray',
    'f32_2x7|int10|aspect|lazy3': 'float64/ndarray',
    'f32_2x7|int10|aspect|lazy4': 'float64/ndarray',
    'f32_2x7|int10|aspect|lazy5': 'float64/ndarray',
    'f32_2x7|int10|curvature': '6e6b82b580d67c71befe',
    'f32_2x7|int10|curvature|lazy0': 'float64/ndarray',
    'f32_2x7|int10|curvature|lazy1': 'float64/ndarray',
    'f32_2x7|int10|curvature|lazy2': 'float64/ndarray',
    'f32_2x7|int10|curvature|lazy3': 'float64/ndarray',
    'f32_2x7|int10|curvature|lazy4': 'float64/ndarray',
    'f32_2x7|int10|curvature|lazy5': 'float64/ndarray',
    'f32_2x7|int10|hillshade': 'e382975680619cd2f19f',
    'f32_2x7|int10|hillshade_az100_alt60': 'e382975680619cd2f19f',
    'f32_2x7|int10|hillshade_az100_alt60|lazy0': 'float64/ndarray',
    'f32_2x7|int10|hillshade_az100_alt60|lazy1': 'float64/ndarray',
    'f32_2x7|int10|hillshade_az100_alt60|lazy2': 'float64/ndarray',
    'f32_2x7|int10|hillshade_az100_alt60|lazy3': 'float64/ndarray',
    'f32_2x7|int10|hillshade_az100_alt60|lazy4': 'float64/ndarray',
    'f32_2x7|int10|hillshade_az100_alt60|lazy5': 'float64/ndarray',
    'f32_2x7|int10|hillshade|lazy0': 'float64/ndarray',
    'f32_2x7|int10|hillshade|lazy1': 'float64/ndarray',
    'f32_2x7|int10|hillshade|lazy2': 'float64/ndarray',
    'f32_2x7|int10|hillshade|lazy3': 'float64/ndarray',
    'f32_2x7|int10|hillshade|lazy4': 'float64/ndarray',
    'f32_2x7|int10|hillshade|lazy5': 'float64/ndarray',
    'f32_2x7|int10|slope': '6e6b82b580d67c71befe',
    'f32_2x7|int10|slope|lazy0': 'float64/ndarray',
    'f32_2x7|int10|slope|lazy1': 'float64/ndarray',
    'f32_2x7|int10|slope|lazy2': 'float64/ndarray',
    'f32_2x7|int10|slope|lazy3': 'float64/ndarray',
    'f32_2x7|int10|slope|lazy4': 'float64/ndarray',
    'f32_2x7|int10|slope|lazy5': 'float64/ndarray',
    'f32_2x7|nonsquare|aspect': '6e6b82b580d67c71befe',
    'f32_2x7|nonsquare|aspect|lazy0': 'float64/ndarray',
    'f32_2x7|nonsquare|aspect|lazy1': 'float64/ndarray',
    'f32_2x7|nonsquare|aspect|lazy2': 'float64/ndarray',
    'f32_2x7|nonsquare|aspect|lazy3': 'float64/ndarray',
    'f32_2x7|nonsquare|aspect|lazy4': 'float64/ndarray',
    'f32_2x7|nonsquare|aspect|lazy5': 'float64/ndarray',
    'f32_2x7|nonsquare|curvature': '6e6b82b580d67c71befe',
    'f32_2x7|nonsquare|curvature|lazy0': 'float64/ndarray',
    'f32_2x7|nonsquare|curvature|lazy1': 'float64/ndarray',
    'f32_2x7|nonsquare|curvature|lazy2': 'float64/ndarray',
    'f32_2x7|nonsquare|curvature|lazy3': 'float64/ndarray',
    'f32_2x7|nonsquare|curvature|lazy4': 'float64/ndarray',
    'f32_2x7|nonsquare|curvature|lazy5': 'float64/ndarray',
    'f32_2x7|nonsquare|hillshade': 'e382975680619cd2f19f',
    'f32_2x7|nonsquare|hillshade_az100_alt60': 'e382975680619cd2f19f',
    'f32_2x7|nonsquare|hillshade_az100_alt60|lazy0': 'float64/ndarray',
    'f32_2x7|nonsquare|hillshade_az100_alt60|lazy1': 'float64/ndarray',
    'f32_2x7|nonsquare|hillshade_az100_alt60|lazy2': 'float64/ndarray',
    'f32_2x7|nonsquare|hillshade_az100_alt60|lazy3': 'float64/ndarray',
    'f32_2x7|nonsquare|hillshade_az100_alt60|lazy4': 'float64/ndarray',
    'f32_2x7|nonsquare|hillshade_az100_alt60|lazy5': 'float64/ndarray',
    'f32_2x7|nonsquare|hillshade|lazy0': 'float64/ndarray',
    'f32_2x7|nonsquare|hillshade|lazy1': 'float64/ndarray',
    'f32_2x7|nonsquare|hillshade|lazy2': 'float64/ndarray',
    'f32_2x7|nonsquare|hillshade|lazy3': 'float64/ndarray',
    'f32_2x7|nonsquare|hillshade|lazy4': 'float64/ndarray',
    'f32_2x7|nonsquare|hillshade|lazy5': 'float64/ndarray',
    'f32_2x7|nonsquare|slope': '6e6b82b580d67c71befe',
    'f32_2x7|nonsquare|slope|lazy0': 'float64/ndarray',
    'f32_2x7|nonsquare|slope|lazy1': 'float64/ndarray',
    'f32_2x7|nonsquare|slope|lazy2': 'float64/ndarray',
    'f32_2x7|nonsquare|slope|lazy3': 'float64/ndarray',
    'f32_2x7|nonsquare|slope|lazy4': 'float64/ndarray',
    'f32_2x7|nonsquare|slope|lazy5': 'float64/ndarray',
    'f32_2x7|unit|aspect': '6e6b82b580d67c71befe',
    'f32_2x7|unit|aspect|lazy0': 'float64/ndarray',
    'f32_2x7|unit|aspect|lazy1': 'float64/ndarray',
    'f32_2x7|unit|aspect|lazy2': 'float64/ndarray',
    'f32_2x7|unit|aspect|lazy3': 'float64/ndarray',
    'f32_2x7|unit|aspect|lazy4': 'float64/ndarray',
    'f32_2x7|unit|aspect|lazy5': 'float64/ndarray',
    'f32_2x7|unit|curvature': '6e6b82b580d67c71befe',
    'f32_2x7|unit|curvature|lazy0': 'float64/ndarray',
    'f32_2x7|unit|curvature|lazy1': 'float64/ndarray',
    'f32_2x7|unit|curvature|lazy2': 'float64/ndarray',
    'f32_2x7|unit|curvature|lazy3': 'float64/ndarray',
    'f32_2x7|unit|curvature|lazy4': 'float64/ndarray',
    'f32_2x7|unit|curvature|lazy5': 'float64/ndarray',
    'f32_2x7|unit|hillshade': 'e382975680619cd2f19f',
    'f32_2x7|unit|hillshade_az100_alt60': 'e382975680619cd2f19f',
    'f32_2x7|unit|hillshade_az100_alt60|lazy0': 'float64/ndarray',
    'f32_2x7|unit|hillshade_az100_alt60|lazy1': 'float64/ndarray',
    'f32_2x7|unit|hillshade_az100_alt60|lazy2': 'float64/ndarray',
    'f32_2x7|unit|hillshade_az100_alt60|lazy3': 'float64/ndarray',
    'f32_2x7|unit|hillshade_az100_alt60|lazy4': 'float64/ndarray',
    'f32_2x7|unit|hillshade_az100_alt60|lazy5': 'float64/ndarray',
    'f32_2x7|unit|hillshade|lazy0': 'float64/ndarray',
    'f32_2x7|unit|hillshade|lazy1': 'float64/ndarray',
    'f32_2x7|unit|hillshade|lazy2': 'float64/ndarray',
    'f32_2x7|unit|hillshade|lazy3': 'float64/ndarray',
    'f32_2x7|unit|hillshade|lazy4': 'float64/ndarray',
    'f32_2x7|unit|hillshade|lazy5': 'float64/ndarray',
    'f32_2x7|unit|slope': '6e6b82b580d67c71befe',
    'f32_2x7|unit|slope|lazy0': 'float64/ndarray',
    'f32_2x7|unit|slope|lazy1': 'float64/ndarray',
    'f32_2x7|unit|slope|lazy2': 'float64/ndarray',
    'f32_2x7|unit|slope|lazy3': 'float64/ndarray',
    'f32_2x7|unit|slope|lazy4': 'float64/ndarray',
    'f32_2x7|unit|slope|lazy5': 'float64/ndarray',
    'f32|int10|aspect': '311503b976e570c44f9f',
    'f32|int10|aspect|lazy0': 'float64/ndarray',
    'f32|int10|aspect|lazy1': 'float64/ndarray',
    'f32|int10|aspect|lazy2': 'float64/ndarray',
    'f32|int10|aspect|lazy3': 'float64/ndarray',
    'f32|int10|aspect|lazy4': 'float64/ndarray',
    'f32|int10|aspect|lazy5': 'float64/ndarray',
    'f32|int10|aspect|lazy6': 'float64/ndarray',
    'f32|int10|aspect|lazy7': 'float64/ndarray',
    'f32|int10|curvature': '0378e6fd30a33e86fcef',
    'f32|int10|curvature|lazy0': 'float64/ndarray',
    'f32|int10|curvature|lazy1': 'float64/ndarray',
    'f32|int10|curvature|lazy2': 'float64/ndarray',
    'f32|int10|curvature|lazy3': 'float64/ndarray',
    'f32|int10|curvature|lazy4': 'float64/ndarray',
    'f32|int10|curvature|lazy5': 'float64/ndarray',
    'f32|int10|curvature|lazy6': 'float64/ndarray',
    'f32|int10|curvature|lazy7': 'float64/ndarray',
    'f32|int10|hillshade': 'df8e9be556ea15dd5cf0',
    'f32|int10|hillshade_az100_alt60': '5237a29e5ae32543d8cc',
    'f32|int10|hillshade_az100_alt60|lazy0': 'float64/ndarray',
    'f32|int10|hillshade_az100_alt60|lazy1': 'float64/ndarray',
    'f32|int10|hillshade_az100_alt60|lazy2': 'float64/ndarray',
    'f32|int10|hillshade_az100_alt60|lazy3': 'float64/ndarray',
    'f32|int10|hillshade_az100_alt60|lazy4': 'float64/ndarray',
    'f32|int10|hillshade_az100_alt60|lazy5': 'float64/ndarray',
    'f32|int10|hillshade_az100_alt60|lazy6': 'float64/ndarray',
    'f32|int10|hillshade_az100_alt60|lazy7': 'float64/ndarray',
    'f32|int10|hillshade|lazy0': 'float64/ndarray',
    'f32|int10|hillshade|lazy1': 'float64/ndarray',
    'f32|int10|hillshade|lazy2': 'float64/ndarray',
    'f32|int10|hillshade|lazy3': 'float64/ndarray',
    'f32|int10|hillshade|lazy4': 'float64/ndarray',
    'f32|int10|hillshade|lazy5': 'float64/ndarray',
    'f32|int10|hillshade|lazy6': 'float64/ndarray',
    'f32|int10|hillshade|lazy7': 'float64/ndarray',
    'f32|int10|slope': '9c562f5d5f18c7e94972',
    'f32|int10|slope|lazy0': 'float64/ndarray',
    'f32|int10|slope|lazy1': 'float64/ndarray',
    'f32|int10|slope|lazy2': 'float64/ndarray',
    'f32|int10|slope|lazy3': 'float64/ndarray',
    'f32|int10|slope|lazy4': 'float64/ndarray',
    'f32|int10|slope|lazy5': 'float64/ndarray',
    'f32|int10|slope|lazy6': 'float64/ndarray',
    'f32|int10|slope|lazy7': 'float64/ndarray',
    'f32|nonsquare|aspect': '311503b976e570c44f9f',
    'f32|nonsquare|aspect|lazy0': 'float64/ndarray',
    'f32|nonsquare|aspect|lazy1': 'float64/ndarray',
    'f32|nonsquare|aspect|lazy2': 'float64/ndarray',
    'f32|nonsquare|aspect|lazy3': 'float64/ndarray',
    'f32|nonsquare|aspect|lazy4': 'float64/ndarray',
    'f32|nonsquare|aspect|lazy5': 'float64/ndarray',
    'f32|nonsquare|aspect|lazy6': 'float64/ndarray',
    'f32|nonsquare|aspect|lazy7': 'float64/ndarray',
    'f32|nonsquare|curvature': '5101a5530aaed62b6dd0',
    'f32|nonsquare|curvature|lazy0': 'float64/ndarray',
    'f32|nonsquare|curvature|lazy1': 'float64/ndarray',
    'f32|nonsquare|curvature|lazy2': 'float64/ndarray',
    'f32|nonsquare|curvature|lazy3': 'float64/ndarray',
    'f32|nonsquare|curvature|lazy4': 'float64/ndarray',
    'f32|nonsquare|curvature|lazy5': 'float64/ndarray',
    'f32|nonsquare|curvature|lazy6': 'float64/ndarray',
    'f32|nonsquare|curvature|lazy7': 'float64/ndarray',
    'f32|nonsquare|hillshade': 'df8e9be556ea15dd5cf0',
    'f32|nonsquare|hillshade_az100_alt60': '5237a29e5ae32543d8cc',
    'f32|nonsquare|hillshade_az100_alt60|lazy0': 'float64/ndarray',
    'f32|nonsquare|hillshade_az100_alt60|lazy1': 'float64/ndarray',
    'f32|nonsquare|hillshade_az100_alt60|lazy2': 'float64/ndarray',
    'f32|nonsquare|hillshade_az100_alt60|lazy3': 'float64/ndarray',
    'f32|nonsquare|hillshade_az100_alt60|lazy4': 'float64/ndarray',
    'f32|nonsquare|hillshade_az100_alt60|lazy5': 'float64/ndarray',
    'f32|nonsquare|hillshade_az100_alt60|lazy6': 'float64/ndarray',
    'f32|nonsquare|hillshade_az100_alt60|lazy7': 'float64/ndarray',
    'f32|nonsquare|hillshade|lazy0': 'float64/ndarray',
    'f32|nonsquare|hillshade|lazy1': 'float64/ndarray',
    'f32|nonsquare|hillshade|lazy2': 'float64/ndarray',
    'f32|nonsquare|hillshade|lazy3': 'float64/ndarray',
    'f32|nonsquare|hillshade|lazy4': 'float64/ndarray',
    'f32|nonsquare|hillshade|lazy5': 'float64/ndarray',
    'f32|nonsquare|hillshade|lazy6': 'float64/ndarray',
    'f32|nonsquare|hillshade|lazy7': 'float64/ndarray',
    'f32|nonsquare|slope': 'ac23a1a59849c5d21c26',
    'f32|nonsquare|slope|lazy0': 'float64/ndarray',
    'f32|nonsquare|slope|lazy1': 'float64/ndarray',
    'f32|nonsquare|slope|lazy2': 'float64/ndarray',
    'f32|nonsquare|slope|lazy3': 'float64/ndarray',
    'f32|nonsquare|slope|lazy4': 'float64/ndarray',
    'f32|nonsquare|slope|lazy5': 'float64/ndarray',
    'f32|nonsquare|slope|lazy6': 'float64/ndarray',
    'f32|nonsquare|slope|lazy7': 'float64/ndarray',
    'f32|unit|aspect': '311503b976e570c44f9f',
    'f32|unit|aspect|lazy0': 'float64/ndarray',
    'f32|unit|aspect|lazy1': 'float64/ndarray',
    'f32|unit|aspect|lazy2': 'float64/ndarray',
    'f32|unit|aspect|lazy3': 'float64/ndarray',
    'f32|unit|aspect|lazy4': 'float64/ndarray',
    'f32|unit|aspect|lazy5': 'float64/ndarray',
    'f32|unit|aspect|lazy6': 'float64/ndarray',
    'f32|unit|aspect|lazy7': 'float64/ndarray',
    'f32|unit|curvature': '40c4615551950089f9ab',
    'f32|unit|curvature|lazy0': 'float64/ndarray',
    'f32|unit|curvature|lazy1': 'float64/ndarray',
    'f32|unit|curvature|lazy2': 'float64/ndarray',
    'f32|unit|curvature|lazy3': 'float64/ndarray',
    'f32|unit|curvature|lazy4': 'float64/ndarray',
    'f32|unit|curvature|lazy5': 'float64/ndarray',
    'f32|unit|curvature|lazy6': 'float64/ndarray',
    'f32|unit|curvature|lazy7': 'float64/ndarray',
    'f32|unit|hillshade': 'df8e9be556ea15dd5cf0',
    'f32|unit|hillshade_az100_alt60': '5237a29e5ae32543d8cc',
    'f32|unit|hillshade_az100_alt60|lazy0': 'float64/ndarray',
    'f32|unit|hillshade_az100_alt60|lazy1': 'float64/ndarray',
    'f32|unit|hillshade_az100_alt60|lazy2': 'float64/ndarray',
    'f32|unit|hillshade_az100_alt60|lazy3': 'float64/ndarray',
    'f32|unit|hillshade_az100_alt60|lazy4': 'float64/ndarray',
    'f32|unit|hillshade_az100_alt60|lazy5': 'float64/ndarray',
    'f32|unit|hillshade_az100_alt60|lazy6': 'float64/ndarray',
    'f32|unit|hillshade_az100_alt60|lazy7': 'float64/ndarray',
    'f32|unit|hillshade|lazy0': 'float64/ndarray',
    'f32|unit|hillshade|lazy1': 'float64/ndarray',
    'f32|unit|hillshade|lazy2': 'float64/ndarray',
    'f32|unit|hillshade|lazy3': 'float64/ndarray',
    'f32|unit|hillshade|lazy4': 'float64/ndarray',
    'f32|unit|hillshade|lazy5': 'float64/ndarray',
    'f32|unit|hillshade|lazy6': 'float64/ndarray',
    'f32|unit|hillshade|lazy7': 'float64/ndarray',
    'f32|unit|slope': '7e6f783f2259e69d784c',
    'f32|unit|slope|lazy0': 'float64/ndarray',
    'f32|unit|slope|lazy1': 'float64/ndarray',
    'f32|unit|slope|lazy2': 'float64/ndarray',
    'f32|unit|slope|lazy3': 'float64/ndarray',
    'f32|unit|slope|lazy4': 'float64/ndarray',
    'f32|unit|slope|lazy5': 'float64/ndarray',
    'f32|unit|slope|lazy6': 'float64/ndarray',
    'f32|unit|slope|lazy7': 'float64/ndarray',
    'f64_3x3|int10|aspect': 'f0e87e4cc0967883441f',
    'f64_3x3|int10|aspect|lazy0': 'float64/ndarray',
    'f64_3x3|int10|aspect|lazy1': 'float64/ndarray',
    'f64_3x3|int10|aspect|lazy2': 'float64/ndarray',
    'f64_3x3|int10|aspect|lazy3': 'float64/ndarray',
    'f64_3x3|int10|aspect|lazy4': 'float64/ndarray',
    'f64_3x3|int10|aspect|lazy5': 'float64/ndarray',
    'f64_3x3|int10|curvature': '1307d0bc4cf0ef22c822',
    'f64_3x3|int10|curvature|lazy0': 'float64/ndarray',
    'f64_3x3|int10|curvature|lazy1': 'float64/ndarray',
    'f64_3x3|int10|curvature|lazy2': 'float64/ndarray',
    'f64_3x3|int10|curvature|lazy3': 'float64/ndarray',
    'f64_3x3|int10|curvature|lazy4': 'float64/ndarray',
    'f64_3x3|int10|curvature|lazy5': 'float64/ndarray',
    'f64_3x3|int10|hillshade': '9667e50938f49d0d8449',
    'f64_3x3|int10|hillshade_az100_alt60': '454cb491dcc49afe8948',
    'f64_3x3|int10|hillshade_az100_alt60|lazy0': 'float64/ndarray',
    'f64_3x3|int10|hillshade_az100_alt60|lazy1': 'float64/ndarray',
    'f64_3x3|int10|hillshade_az100_alt60|lazy2': 'float64/ndarray',
    'f64_3x3|int10|hillshade_az100_alt60|lazy3': 'float64/ndarray',
    'f64_3x3|int10|hillshade_az100_alt60|lazy4': 'float64/ndarray',
    'f64_3x3|int10|hillshade_az100_alt60|lazy5': 'float64/ndarray',
    'f64_3x3|int10|hillshade|lazy0': 'float64/ndarray',
    'f64_3x3|int10|hillshade|lazy1': 'float64/ndarray',
    'f64_3x3|int10|hillshade|lazy2': 'float64/ndarray',
    'f64_3x3|int10|hillshade|lazy3': 'float64/ndarray',
    'f64_3x3|int10|hillshade|lazy4': 'float64/ndarray',
    'f64_3x3|int10|hillshade|lazy5': 'float64/ndarray',
    'f64_3x3|int10|slope': '5e32ca971b8f4c37cf00',
    'f64_3x3|int10|slope|lazy0': 'float64/ndarray',
    'f64_3x3|int10|slope|lazy1': 'float64/ndarray',
    'f64_3x3|int10|slope|lazy2': 'float64/ndarray',
    'f64_3x3|int10|slope|lazy3': 'float64/ndarray',
    'f64_3x3|int10|slope|lazy4': 'float64/ndarray',
    'f64_3x3|int10|slope|lazy5': 'float64/ndarray',
    'f64_3x3|nonsquare|aspect': 'f0e87e4cc0967883441f',
    'f64_3x3|nonsquare|aspect|lazy0': 'float64/ndarray',
    'f64_3x3|nonsquare|aspect|lazy1': 'float64/ndarray',
    'f64_3x3|nonsquare|aspect|lazy2': 'float64/ndarray',
    'f64_3x3|nonsquare|aspect|lazy3': 'float64/ndarray',
    'f64_3x3|nonsquare|aspect|lazy4': 'float64/ndarray',
    'f64_3x3|nonsquare|aspect|lazy5': 'float64/ndarray',
    'f64_3x3|nonsquare|curvature': 'bd638f62088c6d0e0249',
    'f64_3x3|nonsquare|curvature|lazy0': 'float64/ndarray',
    'f64_3x3|nonsquare|curvature|lazy1': 'float64/ndarray',
    'f64_3x3|nonsquare|curvature|lazy2': 'float64/ndarray',
    'f64_3x3|nonsquare|curvature|lazy3': 'float64/ndarray',
    'f64_3x3|nonsquare|curvature|lazy4': 'float64/ndarray',
    'f64_3x3|nonsquare|curvature|lazy5': 'float64/ndarray',
    'f64_3x3|nonsquare|hillshade': '9667e50938f49d0d8449',
    'f64_3x3|nonsquare|hillshade_az100_alt60': '454cb491dcc49afe8948',
    'f64_3x3|nonsquare|hillshade_az100_alt60|lazy0': 'float64/ndarray',
    'f64_3x3|nonsquare|hillshade_az100_alt60|lazy1': 'float64/ndarray',
    'f64_3x3|nonsquare|hillshade_az100_alt60|lazy2': 'float64/ndarray',
    'f64_3x3|nonsquare|hillshade_az100_alt60|lazy3': 'float64/ndarray',
    'f64_3x3|nonsquare|hillshade_az100_alt60|lazy4': 'float64/ndarray',
    'f64_3x3|nonsquare|hillshade_az100_alt60|lazy5': 'float64/ndarray',
    'f64_3x3|nonsquare|hillshade|lazy0': 'float64/ndarray',
    'f64_3x3|nonsquare|hillshade|lazy1': 'float64/ndarray',
    'f64_3x3|nonsquare|hillshade|lazy2': 'float64/ndarray',
    'f64_3x3|nonsquare|hillshade|lazy3': 'float64/ndarray',
    'f64_3x3|nonsquare|hillshade|lazy4': 'float64/ndarray',
    'f64_3x3|nonsquare|hillshade|lazy5': 'float64/ndarray',
    'f64_3x3|nonsquare|slope': 'b7d5e6e9f95015a1cc77',
    'f64_3x3|nonsquare|slope|lazy0': 'float64/ndarray',
    'f64_3x3|nonsquare|slope|lazy1': 'float64/ndarray',
    'f64_3x3|nonsquare|slope|lazy2': 'float64/ndarray',
    'f64_3x3|nonsquare|slope|lazy3': 'float64/ndarray',
    'f64_3x3|nonsquare|slope|lazy4': 'float64/ndarray',
    'f64_3x3|nonsquare|slope|lazy5': 'float64/ndarray',
    'f64_3x3|unit|aspect': 'f0e87e4cc0967883441f',
    'f64_3x3|unit|aspect|lazy0': 'float64/ndarray',
    'f64_3x3|unit|aspect|lazy1': 'float64/ndarray',
    'f64_3x3|unit|aspect|lazy2': 'float64/ndarray',
    'f64_3x3|unit|aspect|lazy3': 'float64/ndarray',
    'f64_3x3|unit|aspect|lazy4': 'float64/ndarray',
    'f64_3x3|unit|aspect|lazy5': 'float64/ndarray',
    'f64_3x3|unit|curvature': '4bd5c6c4717cbe9d849f',
    'f64_3x3|unit|curvature|lazy0': 'float64/ndarray',
    'f64_3x3|unit|curvature|lazy1': 'float64/ndarray',
    'f64_3x3|unit|curvature|lazy2': 'float64/ndarray',
    'f64_3x3|unit|curvature|lazy3': 'float64/ndarray',
    'f64_3x3|unit|curvature|lazy4': 'float64/ndarray',
    'f64_3x3|unit|curvature|lazy5': 'float64/ndarray',
    'f64_3x3|unit|hillshade': '9667e50938f49d0d8449',
    'f64_3x3|unit|hillshade_az100_alt60': '454cb491dcc49afe8948',
    'f64_3x3|unit|hillshade_az100_alt60|lazy0': 'float64/ndarray',
    'f64_3x3|unit|hillshade_az100_alt60|lazy1': 'float64/ndarray',
    'f64_3x3|unit|hillshade_az100_alt60|lazy2': 'float64/ndarray',
    'f64_3x3|unit|hillshade_az100_alt60|lazy3': 'float64/ndarray',
    'f64_3x3|unit|hillshade_az100_alt60|lazy4': 'float64/ndarray',
    'f64_3x3|unit|hillshade_az100_alt60|lazy5': 'float64/ndarray',
    'f64_3x3|unit|hillshade|lazy0': 'float64/ndarray',
    'f64_3x3|unit|hillshade|lazy1': 'float64/ndarray',
    'f64_3x3|unit|hillshade|lazy2': 'float64/ndarray',
    'f64_3x3|unit|hillshade|lazy3': 'float64/ndarray',
    'f64_3x3|unit|hillshade|lazy4': 'float64/ndarray',
    'f64_3x3|unit|hillshade|lazy5': 'float64/ndarray',
    'f64_3x3|unit|slope': '83149206c8eda922097f',
    'f64_3x3|unit|slope|lazy0': 'float64/ndarray',
    'f64_3x3|unit|slope|lazy1': 'float64/ndarray',
    'f64_3x3|unit|slope|lazy2': 'float64/ndarray',
    'f64_3x3|unit|slope|lazy3': 'float64/ndarray',
    'f64_3x3|unit|slope|lazy4': 'float64/ndarray',
    'f64_3x3|unit|slope|lazy5': 'float64/ndarray',
    'f64_nan_inf|int10|aspect': 'c1e92202c6986aab21b3',
    'f64_nan_inf|int10|aspect|lazy0': 'float64/ndarray',
    'f64_nan_inf|int10|aspect|lazy1': 'float64/ndarray',
    'f64_nan_inf|int10|aspect|lazy2': 'float64/ndarray',
    'f64_nan_inf|int10|aspect|lazy3': 'float64/ndarray',
    'f64_nan_inf|int10|aspect|lazy4': 'float64/ndarray',
    'f64_nan_inf|int10|aspect|lazy5': 'float64/ndarray',
    'f64_nan_inf|int10|aspect|lazy6': 'float64/ndarray',
    'f64_nan_inf|int10|aspect|lazy7': 'float64/ndarray',
    'f64_nan_inf|int10|curvature': '3b4aa9cb2c9ba52e1bda',
    'f64_nan_inf|int10|curvature|lazy0': 'float64/ndarray',
    'f64_nan_inf|int10|curvature|lazy1': 'float64/ndarray',
    'f64_nan_inf|int10|curvature|lazy2': 'float64/ndarray',
    'f64_nan_inf|int10|curvature|lazy3': 'float64/ndarray',
    'f64_nan_inf|int10|curvature|lazy4': 'float64/ndarray',
    'f64_nan_inf|int10|curvature|lazy5': 'float64/ndarray',
    'f64_nan_inf|int10|curvature|lazy6': 'float64/ndarray',
    'f64_nan_inf|int10|curvature|lazy7': 'float64/ndarray',
    'f64_nan_inf|int10|hillshade': 'f9acd26516d1a5f2caa6',
    'f64_nan_inf|int10|hillshade_az100_alt60': '12870965c7165be0d581',
    'f64_nan_inf|int10|hillshade_az100_alt60|lazy0': 'float64/ndarray',
    'f64_nan_inf|int10|hillshade_az100_alt60|lazy1': 'float64/ndarray',
    'f64_nan_inf|int10|hillshade_az100_alt60|lazy2': 'float64/ndarray',
    'f64_nan_inf|int10|hillshade_az100_alt60|lazy3': 'float64/ndarray',
    'f64_nan_inf|int10|hillshade_az100_alt60|lazy4': 'float64/ndarray',
    'f64_nan_inf|int10|hillshade_az100_alt60|lazy5': 'float64/ndarray',
    'f64_nan_inf|int10|hillshade_az100_alt60|lazy6': 'float64/ndarray',
    'f64_nan_inf|int10|hillshade_az100_alt60|lazy7': 'float64/ndarray',
    'f64_nan_inf|int10|hillshade|lazy0': 'float64/ndarray',
    'f64_nan_inf|int10|hillshade|lazy1': 'float64/ndarray',
    'f64_nan_inf|int10|hillshade|lazy2': 'float64/ndarray',
    'f64_nan_inf|int10|hillshade|lazy3': 'float64/ndarray',
    'f64_nan_inf|int10|hillshade|lazy4': 'float64/ndarray',
    'f64_nan_inf|int10|hillshade|lazy5': 'float64/ndarray',
    'f64_nan_inf|int10|hillshade|lazy6': 'float64/ndarray',
    'f64_nan_inf|int10|hillshade|lazy7': 'float64/ndarray',
    'f64_nan_inf|int10|slope': 'f4dab7b9895a551877ac',
    'f64_nan_inf|int10|slope|lazy0': 'float64/ndarray',
    'f64_nan_inf|int10|slope|lazy1': 'float64/ndarray',
    'f64_nan_inf|int10|slope|lazy2': 'float64/ndarray',
    'f64_nan_inf|int10|slope|lazy3': 'float64/ndarray',
    'f64_nan_inf|int10|slope|lazy4': 'float64/ndarray',
    'f64_nan_inf|int10|slope|lazy5': 'float64/ndarray',
    'f64_nan_inf|int10|slope|lazy6': 'float64/ndarray',
    'f64_nan_inf|int10|slope|lazy7': 'float64/ndarray',
    'f64_nan_inf|nonsquare|aspect': 'c1e92202c6986aab21b3',
    'f64_nan_inf|nonsquare|aspect|lazy0': 'float64/ndarray',
    'f64_nan_inf|nonsquare|aspect|lazy1': 'float64/ndarray',
    'f64_nan_inf|nonsquare|aspect|lazy2': 'float64/ndarray',
    'f64_nan_inf|nonsquare|aspect|lazy3': 'float64/ndarray',
    'f64_nan_inf|nonsquare|aspect|lazy4': 'float64/ndarray',
    'f64_nan_inf|nonsquare|aspect|lazy5': 'float64/ndarray',
    'f64_nan_inf|nonsquare|aspect|lazy6': 'float64/ndarray',
    'f64_nan_inf|nonsquare|aspect|lazy7': 'float64/ndarray',
    'f64_nan_inf|nonsquare|curvature': '2300a27881d1d17174e3',
    'f64_nan_inf|nonsquare|curvature|lazy0': 'float64/ndarray',
    'f64_nan_inf|nonsquare|curvature|lazy1': 'float64/ndarray',
    'f64_nan_inf|nonsquare|curvature|lazy2': 'float64/ndarray',
    'f64_nan_inf|nonsquare|curvature|lazy3': 'float64/ndarray',
    'f64_nan_inf|nonsquare|curvature|lazy4': 'float64/ndarray',
    'f64_nan_inf|nonsquare|curvature|lazy5': 'float64/ndarray',
    'f64_nan_inf|nonsquare|curvature|lazy6': 'float64/ndarray',
    'f64_nan_inf|nonsquare|curvature|lazy7': 'float64/ndarray',
    'f64_nan_inf|nonsquare|hillshade': 'f9acd26516d1a5f2caa6',
    'f64_nan_inf|nonsquare|hillshade_az100_alt60': '12870965c7165be0d581',
    'f64_nan_inf|nonsquare|hillshade_az100_alt60|lazy0': 'float64/ndarray',
    'f64_nan_inf|nonsquare|hillshade_az100_alt60|lazy1': 'float64/ndarray',
    'f64_nan_inf|nonsquare|hillshade_az100_alt60|lazy2': 'float64/ndarray',
    'f64_nan_inf|nonsquare|hillshade_az100_alt60|lazy3': 'float64/ndarray',
    'f64_nan_inf|nonsquare|hillshade_az100_alt60|lazy4': 'float64/ndarray',
    'f64_nan_inf|nonsquare|hillshade_az100_alt60|lazy5': 'float64/ndarray',
    'f64_nan_inf|nonsquare|hillshade_az100_alt60|lazy6': 'float64/ndarray',
    'f64_nan_inf|nonsquare|hillshade_az100_alt60|lazy7': 'float64/ndarray',
    'f64_nan_inf|nonsquare|hillshade|lazy0': 'float64/ndarray',
    'f64_nan_inf|nonsquare|hillshade|lazy1': 'float64/ndarray',
    'f64_nan_inf|nonsquare|hillshade|lazy2': 'float64/ndarray',
    'f64_nan_inf|nonsquare|hillshade|lazy3': 'float64/ndarray',
    'f64_nan_inf|nonsquare|hillshade|lazy4': 'float64/ndarray',
    'f64_nan_inf|nonsquare|hillshade|lazy5': 'float64/ndarray',
    'f64_nan_inf|nonsquare|hillshade|lazy6': 'float64/ndarray',
    'f64_nan_inf|nonsquare|hillshade|lazy7': 'float64/ndarray',
    'f64_nan_inf|nonsquare|slope': '53fbf4848ee7f6fd6b28',
    'f64_nan_inf|nonsquare|slope|lazy0': 'float64/ndarray',
    'f64_nan_inf|nonsquare|slope|lazy1': 'float64/ndarray',
    'f64_nan_inf|nonsquare|slope|lazy2': 'float64/ndarray',
    'f64_nan_inf|nonsquare|slope|lazy3': 'float64/ndarray',
    'f64_nan_inf|nonsquare|slope|lazy4': 'float64/ndarray',
    'f64_nan_inf|nonsquare|slope|lazy5': 'float64/ndarray',
    'f64_nan_inf|nonsquare|slope|lazy6': 'float64/ndarray',
    'f64_nan_inf|nonsquare|slope|lazy7': 'float64/ndarray',
    'f64_nan_inf|unit|aspect': 'c1e92202c6986aab21b3',
    'f64_nan_inf|unit|aspect|lazy0': 'float64/ndarray',
    'f64_nan_inf|unit|aspect|lazy1': 'float64/ndarray',
    'f64_nan_inf|unit|aspect|lazy2': 'float64/ndarray',
    'f64_nan_inf|unit|aspect|lazy3': 'float64/ndarray',
    'f64_nan_inf|unit|aspect|lazy4': 'float64/ndarray',
    'f64_nan_inf|unit|aspect|lazy5': 'float64/ndarray',
    'f64_nan_inf|unit|aspect|lazy6': 'float64/ndarray',
    'f64_nan_inf|unit|aspect|lazy7': 'float64/ndarray',
    'f64_nan_inf|unit|curvature': '5a47e46c92775e10bb1b',
    'f64_nan_inf|unit|curvature|lazy0': 'float64/ndarray',
    'f64_nan_inf|unit|curvature|lazy1': 'float64/ndarray',
    'f64_nan_inf|unit|curvature|lazy2': 'float64/ndarray',
    'f64_nan_inf|unit|curvature|lazy3': 'float64/ndarray',
    'f64_nan_inf|unit|curvature|lazy4': 'float64/ndarray',
    'f64_nan_inf|unit|curvature|lazy5': 'float64/ndarray',
    'f64_nan_inf|unit|curvature|lazy6': 'float64/ndarray',
    'f64_nan_inf|unit|curvature|lazy7': 'float64/ndarray',
    'f64_nan_inf|unit|hillshade': 'f9acd26516d1a5f2caa6',
    'f64_nan_inf|unit|hillshade_az100_alt60': '12870965c7165be0d581',
    'f64_nan_inf|unit|hillshade_az100_alt60|lazy0': 'float64/ndarray',
    'f64_nan_inf|unit|hillshade_az100_alt60|lazy1': 'float64/ndarray',
    'f64_nan_inf|unit|hillshade_az100_alt60|lazy2': 'float64/ndarray',
    'f64_nan_inf|unit|hillshade_az100_alt60|lazy3': 'float64/ndarray',
    'f64_nan_inf|unit|hillshade_az100_alt60|lazy4': 'float64/ndarray',
    'f64_nan_inf|unit|hillshade_az100_alt60|lazy5': 'float64/ndarray',
    'f64_nan_inf|unit|hillshade_az100_alt60|lazy6': 'float64/ndarray',
    'f64_nan_inf|unit|hillshade_az100_alt60|lazy7': 'float64/ndarray',
    'f64_nan_inf|unit|hillshade|lazy0': 'float64/ndarray',
    'f64_nan_inf|unit|hillshade|lazy1': 'float64/ndarray',
    'f64_nan_inf|unit|hillshade|lazy2': 'float64/ndarray',
    'f64_nan_inf|unit|hillshade|lazy3': 'float64/ndarray',
    'f64_nan_inf|unit|hillshade|lazy4': 'float64/ndarray',
    'f64_nan_inf|unit|hillshade|lazy5': 'float64/ndarray',
    'f64_nan_inf|unit|hillshade|lazy6': 'float64/ndarray',
    'f64_nan_inf|unit|hillshade|lazy7': 'float64/ndarray',
    'f64_nan_inf|unit|slope': 'acb148faad9f452bdcec',
    'f64_nan_inf|unit|slope|lazy0': 'float64/ndarray',
    'f64_nan_inf|unit|slope|lazy1': 'float64/ndarray',
    'f64_nan_inf|unit|slope|lazy2': 'float64/ndarray',
    'f64_nan_inf|unit|slope|lazy3': 'float64/ndarray',
    'f64_nan_inf|unit|slope|lazy4': 'float64/ndarray',
    'f64_nan_inf|unit|slope|lazy5': 'float64/ndarray',
    'f64_nan_inf|unit|slope|lazy6': 'float64/ndarray',
    'f64_nan_inf|unit|slope|lazy7': 'float64/ndarray',
    'f64|int10|aspect': '311503b976e570c44f9f',
    'f64|int10|aspect|lazy0': 'float64/ndarray',
    'f64|int10|aspect|lazy1': 'float64/ndarray',
    'f64|int10|aspect|lazy2': 'float64/ndarray',
    'f64|int10|aspect|lazy3': 'float64/ndarray',
    'f64|int10|aspect|lazy4': 'float64/ndarray',
    'f64|int10|aspect|lazy5': 'float64/ndarray',
    'f64|int10|aspect|lazy6': 'float64/ndarray',
    'f64|int10|aspect|lazy7': 'float64/ndarray',
    'f64|int10|curvature': '0378e6fd30a33e86fcef',
    'f64|int10|curvature|lazy0': 'float64/ndarray',
    'f64|int10|curvature|lazy1': 'float64/ndarray',
    'f64|int10|curvature|lazy2': 'float64/ndarray',
    'f64|int10|curvature|lazy3': 'float64/ndarray',
    'f64|int10|curvature|lazy4': 'float64/ndarray',
    'f64|int10|curvature|lazy5': 'float64/ndarray',
    'f64|int10|curvature|lazy6': 'float64/ndarray',
    'f64|int10|curvature|lazy7': 'float64/ndarray',
    'f64|int10|hillshade': 'df8e9be556ea15dd5cf0',
    'f64|int10|hillshade_az100_alt60': '5237a29e5ae32543d8cc',
    'f64|int10|hillshade_az100_alt60|lazy0': 'float64/ndarray',
    'f64|int10|hillshade_az100_alt60|lazy1': 'float64/ndarray',
    'f64|int10|hillshade_az100_alt60|lazy2': 'float64/ndarray',
    'f64|int10|hillshade_az100_alt60|lazy3': 'float64/ndarray',
    'f64|int10|hillshade_az100_alt60|lazy4': 'float64/ndarray',
    'f64|int10|hillshade_az100_alt60|lazy5': 'float64/ndarray',
    'f64|int10|hillshade_az100_alt60|lazy6': 'float64/ndarray',
    'f64|int10|hillshade_az100_alt60|lazy7': 'float64/ndarray',
    'f64|int10|hillshade|lazy0': 'float64/ndarray',
    'f64|int10|hillshade|lazy1': 'float64/ndarray',
    'f64|int10|hillshade|lazy2': 'float64/ndarray',
    'f64|int10|hillshade|lazy3': 'float64/ndarray',
    'f64|int10|hillshade|lazy4': 'float64/ndarray',
    'f64|int10|hillshade|lazy5': 'float64/ndarray',
    'f64|int10|hillshade|lazy6': 'float64/ndarray',
    'f64|int10|hillshade|lazy7': 'float64/ndarray',
    'f64|int10|slope': '9c562f5d5f18c7e94972',
    'f64|int10|slope|lazy0': 'float64/ndarray',
    'f64|int10|slope|lazy1': 'float64/ndarray',
    'f64|int10|slope|lazy2': 'float64/ndarray',
    'f64|int10|slope|lazy3': 'float64/ndarray',
    'f64|int10|slope|lazy4': 'float64/ndarray',
    'f64|int10|slope|lazy5': 'float64/ndarray',
    'f64|int10|slope|lazy6': 'float64/ndarray',
    'f64|int10|slope|lazy7': 'float64/ndarray',
    'f64|nonsquare|aspect': '311503b976e570c44f9f',
    'f64|nonsquare|aspect|lazy0': 'float64/ndarray',
    'f64|nonsquare|aspect|lazy1': 'float64/ndarray',
    'f64|nonsquare|aspect|lazy2': 'float64/ndarray',
    'f64|nonsquare|aspect|lazy3': 'float64/ndarray',
    'f64|nonsquare|aspect|lazy4': 'float64/ndarray',
    'f64|nonsquare|aspect|lazy5': 'float64/ndarray',
    'f64|nonsquare|aspect|lazy6': 'float64/ndarray',
    'f64|nonsquare|aspect|lazy7': 'float64/ndarray',
    'f64|nonsquare|curvature': '5101a5530aaed62b6dd0',
    'f64|nonsquare|curvature|lazy0': 'float64/ndarray',
    'f64|nonsquare|curvature|lazy1': 'float64/ndarray',
    'f64|nonsquare|curvature|lazy2': 'float64/ndarray',
    'f64|nonsquare|curvature|lazy3': 'float64/ndarray',
    'f64|nonsquare|curvature|lazy4': 'float64/ndarray',
    'f64|nonsquare|curvature|lazy5': 'float64/ndarray',
    'f64|nonsquare|curvature|lazy6': 'float64/ndarray',
    'f64|nonsquare|curvature|lazy7': 'float64/ndarray',
    'f64|nonsquare|hillshade': 'df8e9be556ea15dd5cf0',
    'f64|nonsquare|hillshade_az100_alt60': '5237a29e5ae32543d8cc',
    'f64|nonsquare|hillshade_az100_alt60|lazy0': 'float64/ndarray',
    'f64|nonsquare|hillshade_az100_alt60|lazy1': 'float64/ndarray',
    'f64|nonsquare|hillshade_az100_alt60|lazy2': 'float64/ndarray',
    'f64|nonsquare|hillshade_az100_alt60|lazy3': 'float64/ndarray',
    'f64|nonsquare|hillshade_az100_alt60|lazy4': 'float64/ndarray',
    'f64|nonsquare|hillshade_az100_alt60|lazy5': 'float64/ndarray',
    'f64|nonsquare|hillshade_az100_alt60|lazy6': 'float64/ndarray',
    'f64|nonsquare|hillshade_az100_alt60|lazy7': 'float64/ndarray',
    'f64|nonsquare|hillshade|lazy0': 'float64/ndarray',
    'f64|nonsquare|hillshade|lazy1': 'float64/ndarray',
    'f64|nonsquare|hillshade|lazy2': 'float64/ndarray',
    'f64|nonsquare|hillshade|lazy3': 'float64/ndarray',
    'f64|nonsquare|hillshade|lazy4': 'float64/ndarray',
    'f64|nonsquare|hillshade|lazy5': 'float64/ndarray',
    'f64|nonsquare|hillshade|lazy6': 'float64/ndarray',
    'f64|nonsquare|hillshade|lazy7': 'float64/ndarray',
    'f64|nonsquare|slope': 'ac23a1a59849c5d21c26',
    'f64|nonsquare|slope|lazy0': 'float64/ndarray',
    'f64|nonsquare|slope|lazy1': 'float64/ndarray',
    'f64|nonsquare|slope|lazy2': 'float64/ndarray',
    'f64|nonsquare|slope|lazy3': 'float64/ndarray',
    'f64|nonsquare|slope|lazy4': 'float64/ndarray',
    'f64|nonsquare|slope|lazy5': 'float64/ndarray',
    'f64|nonsquare|slope|lazy6': 'float64/ndarray',
    'f64|nonsquare|slope|lazy7': 'float64/ndarray',
    'f64|unit|aspect': '311503b976e570c44f9f',
    'f64|unit|aspect|lazy0': 'float64/ndarray',
    'f64|unit|aspect|lazy1': 'float64/ndarray',
    'f64|unit|aspect|lazy2': 'float64/ndarray',
    'f64|unit|aspect|lazy3': 'float64/ndarray',
    'f64|unit|aspect|lazy4': 'float64/ndarray',
    'f64|unit|aspect|lazy5': 'float64/ndarray',
    'f64|unit|aspect|lazy6': 'float64/ndarray',
    'f64|unit|aspect|lazy7': 'float64/ndarray',
    'f64|unit|curvature': '40c4615551950089f9ab',
    'f64|unit|curvature|lazy0': 'float64/ndarray',
    'f64|unit|curvature|lazy1': 'float64/ndarray',
    'f64|unit|curvature|lazy2': 'float64/ndarray',
    'f64|unit|curvature|lazy3': 'float64/ndarray',
    'f64|unit|curvature|lazy4': 'float64/ndarray',
    'f64|unit|curvature|lazy5': 'float64/ndarray',
    'f64|unit|curvature|lazy6': 'float64/ndarray',
    'f64|unit|curvature|lazy7': 'float64/ndarray',
    'f64|unit|hillshade': 'df8e9be556ea15dd5cf0',
    'f64|unit|hillshade_az100_alt60': '5237a29e5ae32543d8cc',
    'f64|unit|hillshade_az100_alt60|lazy0': 'float64/ndarray',
    'f64|unit|hillshade_az100_alt60|lazy1': 'float64/ndarray',
    'f64|unit|hillshade_az100_alt60|lazy2': 'float64/ndarray',
    'f64|unit|hillshade_az100_alt60|lazy3': 'float64/ndarray',
    'f64|unit|hillshade_az100_alt60|lazy4': 'float64/ndarray',
    'f64|unit|hillshade_az100_alt60|lazy5': 'float64/ndarray',
    'f64|unit|hillshade_az100_alt60|lazy6': 'float64/ndarray',
    'f64|unit|hillshade_az100_alt60|lazy7': 'float64/ndarray',
    'f64|unit|hillshade|lazy0': 'float64/ndarray',
    'f64|unit|hillshade|lazy1': 'float64/ndarray',
    'f64|unit|hillshade|lazy2': 'float64/ndarray',
    'f64|unit|hillshade|lazy3': 'float64/ndarray',
    'f64|unit|hillshade|lazy4': 'float64/ndarray',
    'f64|unit|hillshade|lazy5': 'float64/ndarray',
    'f64|unit|hillshade|lazy6': 'float64/ndarray',
    'f64|unit|hillshade|lazy7': 'float64/ndarray',
    'f64|unit|slope': '7e6f783f2259e69d784c',
    'f64|unit|slope|lazy0': 'float64/ndarray',
    'f64|unit|slope|lazy1': 'float64/ndarray',
    'f64|unit|slope|lazy2': 'float64/ndarray',
    'f64|unit|slope|lazy3': 'float64/ndarray',
    'f64|unit|slope|lazy4': 'float64/ndarray',
    'f64|unit|slope|lazy5': 'float64/ndarray',
    'f64|unit|slope|lazy6': 'float64/ndarray',
    'f64|unit|slope|lazy7': 'float64/ndarray',
    'i32|int10|aspect': '33866920e550d5305545',
    'i32|int10|aspect|lazy0': 'float64/ndarray',
    'i32|int10|aspect|lazy1': 'float64/ndarray',
    'i32|int10|aspect|lazy2': 'float64/ndarray',
    'i32|int10|aspect|lazy3': 'float64/ndarray',
    'i32|int10|aspect|lazy4': 'float64/ndarray',
    'i32|int10|aspect|lazy5': 'float64/ndarray',
    'i32|int10|aspect|lazy6': 'float64/ndarray',
    'i32|int10|aspect|lazy7': 'float64/ndarray',
    'i32|int10|curvature': '1e8a6dff774d077e9429',
    'i32|int10|curvature|lazy0': 'float64/ndarray',
    'i32|int10|curvature|lazy1': 'float64/ndarray',
    'i32|int10|curvature|lazy2': 'float64/ndarray',
    'i32|int10|curvature|lazy3': 'float64/ndarray',
    'i32|int10|curvature|lazy4': 'float64/ndarray',
    'i32|int10|curvature|lazy5': 'float64/ndarray',
    'i32|int10|curvature|lazy6': 'float64/ndarray',
    'i32|int10|curvature|lazy7': 'float64/ndarray',
    'i32|int10|hillshade': '945d598ed9aeaef4a14f',
    'i32|int10|hillshade_az100_alt60': '3e741a8bf8a0f08e32fe',
    'i32|int10|hillshade_az100_alt60|lazy0': 'float64/ndarray',
    'i32|int10|hillshade_az100_alt60|lazy1': 'float64/ndarray',
    'i32|int10|hillshade_az100_alt60|lazy2': 'float64/ndarray',
    'i32|int10|hillshade_az100_alt60|lazy3': 'float64/ndarray',
    'i32|int10|hillshade_az100_alt60|lazy4': 'float64/ndarray',
    'i32|int10|hillshade_az100_alt60|lazy5': 'float64/ndarray',
    'i32|int10|hillshade_az100_alt60|lazy6': 'float64/ndarray',
    'i32|int10|hillshade_az100_alt60|lazy7': 'float64/ndarray',
    'i32|int10|hillshade|lazy0': 'float64/ndarray',
    'i32|int10|hillshade|lazy1': 'float64/ndarray',
    'i32|int10|hillshade|lazy2': 'float64/ndarray',
    'i32|int10|hillshade|lazy3': 'float64/ndarray',
    'i32|int10|hillshade|lazy4': 'float64/ndarray',
    'i32|int10|hillshade|lazy5': 'float64/ndarray',
    'i32|int10|hillshade|lazy6': 'float64/ndarray',
    'i32|int10|hillshade|lazy7': 'float64/ndarray',
    'i32|int10|slope': '8ea89405036826de3987',
    'i32|int10|slope|lazy0': 'float64/ndarray',
    'i32|int10|slope|lazy1': 'float64/ndarray',
    'i32|int10|slope|lazy2': 'float64/ndarray',
    'i32|int10|slope|lazy3': 'float64/ndarray',
    'i32|int10|slope|lazy4': 'float64/ndarray',
    'i32|int10|slope|lazy5': 'float64/ndarray',
    'i32|int10|slope|lazy6': 'float64/ndarray',
    'i32|int10|slope|lazy7': 'float64/ndarray',
    'i32|nonsquare|aspect': '33866920e550d5305545',
    'i32|nonsquare|aspect|lazy0': 'float64/ndarray',
    'i32|nonsquare|aspect|lazy1': 'float64/ndarray',
    'i32|nonsquare|aspect|lazy2': 'float64/ndarray',
    'i32|nonsquare|aspect|lazy3': 'float64/ndarray',
    'i32|nonsquare|aspect|lazy4': 'float64/ndarray',
    'i32|nonsquare|aspect|lazy5': 'float64/ndarray',
    'i32|nonsquare|aspect|lazy6': 'float64/ndarray',
    'i32|nonsquare|aspect|lazy7': 'float64/ndarray',
    'i32|nonsquare|curvature': '35c7cd1660fb5c14e704',
    'i32|nonsquare|curvature|lazy0': 'float64/ndarray',
    'i32|nonsquare|curvature|lazy1': 'float64/ndarray',
    'i32|nonsquare|curvature|lazy2': 'float64/ndarray',
    'i32|nonsquare|curvature|lazy3': 'float64/ndarray',
    'i32|nonsquare|curvature|lazy4': 'float64/ndarray',
    'i32|nonsquare|curvature|lazy5': 'float64/ndarray',
    'i32|nonsquare|curvature|lazy6': 'float64/ndarray',
    'i32|nonsquare|curvature|lazy7': 'float64/ndarray',
    'i32|nonsquare|hillshade': '945d598ed9aeaef4a14f',
    'i32|nonsquare|hillshade_az100_alt60': '3e741a8bf8a0f08e32fe',
    'i32|nonsquare|hillshade_az100_alt60|lazy0': 'float64/ndarray',
    'i32|nonsquare|hillshade_az100_alt60|lazy1': 'float64/ndarray',
    'i32|nonsquare|hillshade_az100_alt60|lazy2': 'float64/ndarray',
    'i32|nonsquare|hillshade_az100_alt60|lazy3': 'float64/ndarray',
    'i32|nonsquare|hillshade_az100_alt60|lazy4': 'float64/ndarray',
    'i32|nonsquare|hillshade_az100_alt60|lazy5': 'float64/ndarray',
    'i32|nonsquare|hillshade_az100_alt60|lazy6': 'float64/ndarray',
    'i32|nonsquare|hillshade_az100_alt60|lazy7': 'float64/ndarray',
    'i32|nonsquare|hillshade|lazy0': 'float64/ndarray',
    'i32|nonsquare|hillshade|lazy1': 'float64/ndarray',
    'i32|nonsquare|hillshade|lazy2': 'float64/ndarray',
    'i32|nonsquare|hillshade|lazy3': 'float64/ndarray',
    'i32|nonsquare|hillshade|lazy4': 'float64/ndarray',
    'i32|nonsquare|hillshade|lazy5': 'float64/ndarray',
    'i32|nonsquare|hillshade|lazy6': 'float64/ndarray',
    'i32|nonsquare|hillshade|lazy7': 'float64/ndarray',
    'i32|nonsquare|slope': 'd8fc3375f7992eef3cd2',
    'i32|nonsquare|slope|lazy0': 'float64/ndarray',
    'i32|nonsquare|slope|lazy1': 'float64/ndarray',
    'i32|nonsquare|slope|lazy2': 'float64/ndarray',
    'i32|nonsquare|slope|lazy3': 'float64/ndarray',
    'i32|nonsquare|slope|lazy4': 'float64/ndarray',
    'i32|nonsquare|slope|lazy5': 'float64/ndarray',
    'i32|nonsquare|slope|lazy6': 'float64/ndarray',
    'i32|nonsquare|slope|lazy7': 'float64/ndarray',
    'i32|unit|aspect': '33866920e550d5305545',
    'i32|unit|aspect|lazy0': 'float64/ndarray',
    'i32|unit|aspect|lazy1': 'float64/ndarray',
    'i32|unit|aspect|lazy2': 'float64/ndarray',
    'i32|unit|aspect|lazy3': 'float64/ndarray',
    'i32|unit|aspect|lazy4': 'float64/ndarray',
    'i32|unit|aspect|lazy5': 'float64/ndarray',
    'i32|unit|aspect|lazy6': 'float64/ndarray',
    'i32|unit|aspect|lazy7': 'float64/ndarray',
    'i32|unit|curvature': 'c1d1f1586b2d5133051a',
    'i32|unit|curvature|lazy0': 'float64/ndarray',
    'i32|unit|curvature|lazy1': 'float64/ndarray',
    'i32|unit|curvature|lazy2': 'float64/ndarray',
    'i32|unit|curvature|lazy3': 'float64/ndarray',
    'i32|unit|curvature|lazy4': 'float64/ndarray',
    'i32|unit|curvature|lazy5': 'float64/ndarray',
    'i32|unit|curvature|lazy6': 'float64/ndarray',
    'i32|unit|curvature|lazy7': 'float64/ndarray',
    'i32|unit|hillshade': '945d598ed9aeaef4a14f',
    'i32|unit|hillshade_az100_alt60': '3e741a8bf8a0f08e32fe',
    'i32|unit|hillshade_az100_alt60|lazy0': 'float64/ndarray',
    'i32|unit|hillshade_az100_alt60|lazy1': 'float64/ndarray',
    'i32|unit|hillshade_az100_alt60|lazy2': 'float64/ndarray',
    'i32|unit|hillshade_az100_alt60|lazy3': 'float64/ndarray',
    'i32|unit|hillshade_az100_alt60|lazy4': 'float64/ndarray',
    'i32|unit|hillshade_az100_alt60|lazy5': 'float64/ndarray',
    'i32|unit|hillshade_az100_alt60|lazy6': 'float64/ndarray',
    'i32|unit|hillshade_az100_alt60|lazy7': 'float64/ndarray',
    'i32|unit|hillshade|lazy0': 'float64/ndarray',
    'i32|unit|hillshade|lazy1': 'float64/ndarray',
    'i32|unit|hillshade|lazy2': 'float64/ndarray',
    'i32|unit|hillshade|lazy3': 'float64/ndarray',
    'i32|unit|hillshade|lazy4': 'float64/ndarray',
    'i32|unit|hillshade|lazy5': 'float64/ndarray',
    'i32|unit|hillshade|lazy6': 'float64/ndarray',
    'i32|unit|hillshade|lazy7': 'float64/ndarray',
    'i32|unit|slope': 'ee5cc4751fa3679f4bf7',
    'i32|unit|slope|lazy0': 'float64/ndarray',
    'i32|unit|slope|lazy1': 'float64/ndarray',
    'i32|unit|slope|lazy2': 'float64/ndarray',
    'i32|unit|slope|lazy3': 'float64/ndarray',
    'i32|unit|slope|lazy4': 'float64/ndarray',
    'i32|unit|slope|lazy5': 'float64/ndarray',
    'i32|unit|slope|lazy6': 'float64/ndarray',
    'i32|unit|slope|lazy7': 'float64/ndarray',
    'i64_tall|int10|aspect': '6e59e53367f02a35ca83',
    'i64_tall|int10|aspect|lazy0': 'float64/ndarray',
    'i64_tall|int10|aspect|lazy1': 'float64/ndarray',
    'i64_tall|int10|aspect|lazy2': 'float64/ndarray',
    'i64_tall|int10|aspect|lazy3': 'float64/ndarray',
    'i64_tall|int10|aspect|lazy4': 'float64/ndarray',
    'i64_tall|int10|aspect|lazy5': 'float64/ndarray',
    'i64_tall|int10|curvature': 'e6dfdf437bf7086c23b6',
    'i64_tall|int10|curvature|lazy0': 'float64/ndarray',
    'i64_tall|int10|curvature|lazy1': 'float64/ndarray',
    'i64_tall|int10|curvature|lazy2': 'float64/ndarray',
    'i64_tall|int10|curvature|lazy3': 'float64/ndarray',
    'i64_tall|int10|curvature|lazy4': 'float64/ndarray',
    'i64_tall|int10|curvature|lazy5': 'float64/ndarray',
    'i64_tall|int10|hillshade': '303bf762a8b8af0304a3',
    'i64_tall|int10|hillshade_az100_alt60': '6555219a7f79b81dfbc5',
    'i64_tall|int10|hillshade_az100_alt60|lazy0': 'float64/ndarray',
    'i64_tall|int10|hillshade_az100_alt60|lazy1': 'float64/ndarray',
    'i64_tall|int10|hillshade_az100_alt60|lazy2': 'float64/ndarray',
    'i64_tall|int10|hillshade_az100_alt60|lazy3': 'float64/ndarray',
    'i64_tall|int10|hillshade_az100_alt60|lazy4': 'float64/ndarray',
    'i64_tall|int10|hillshade_az100_alt60|lazy5': 'float64/ndarray',
    'i64_tall|int10|hillshade|lazy0': 'float64/ndarray',
    'i64_tall|int10|hillshade|lazy1': 'float64/ndarray',
    'i64_tall|int10|hillshade|lazy2': 'float64/ndarray',
    'i64_tall|int10|hillshade|lazy3': 'float64/ndarray',
    'i64_tall|int10|hillshade|lazy4': 'float64/ndarray',
    'i64_tall|int10|hillshade|lazy5': 'float64/ndarray',
    'i64_tall|int10|slope': 'b037b9d281b43e311d47',
    'i64_tall|int10|slope|lazy0': 'float64/ndarray',
    'i64_tall|int10|slope|lazy1': 'float64/ndarray',
    'i64_tall|int10|slope|lazy2': 'float64/ndarray',
    'i64_tall|int10|slope|lazy3': 'float64/ndarray',
    'i64_tall|int10|slope|lazy4': 'float64/ndarray',
    'i64_tall|int10|slope|lazy5': 'float64/ndarray',
    'i64_tall|nonsquare|aspect': '6e59e53367f02a35ca83',
    'i64_tall|nonsquare|aspect|lazy0': 'float64/ndarray',
    'i64_tall|nonsquare|aspect|lazy1': 'float64/ndarray',
    'i64_tall|nonsquare|aspect|lazy2': 'float64/ndarray',
    'i64_tall|nonsquare|aspect|lazy3': 'float64/ndarray',
    'i64_tall|nonsquare|aspect|lazy4': 'float64/ndarray',
    'i64_tall|nonsquare|aspect|lazy5': 'float64/ndarray',
    'i64_tall|nonsquare|curvature': '5e01865e145c2801d9f4',
    'i64_tall|nonsquare|curvature|lazy0': 'float64/ndarray',
    'i64_tall|nonsquare|curvature|lazy1': 'float64/ndarray',
    'i64_tall|nonsquare|curvature|lazy2': 'float64/ndarray',
    'i64_tall|nonsquare|curvature|lazy3': 'float64/ndarray',
    'i64_tall|nonsquare|curvature|lazy4': 'float64/ndarray',
    'i64_tall|nonsquare|curvature|lazy5': 'float64/ndarray',
    'i64_tall|nonsquare|hillshade': '303bf762a8b8af0304a3',
    'i64_tall|nonsquare|hillshade_az100_alt60': '6555219a7f79b81dfbc5',
    'i64_tall|nonsquare|hillshade_az100_alt60|lazy0': 'float64/ndarray',
    'i64_tall|nonsquare|hillshade_az100_alt60|lazy1': 'float64/ndarray',
    'i64_tall|nonsquare|hillshade_az100_alt60|lazy2': 'float64/ndarray',
    'i64_tall|nonsquare|hillshade_az100_alt60|lazy3': 'float64/ndarray',
    'i64_tall|nonsquare|hillshade_az100_alt60|lazy4': 'float64/ndarray',
    'i64_tall|nonsquare|hillshade_az100_alt60|lazy5': 'float64/ndarray',
    'i64_tall|nonsquare|hillshade|lazy0': 'float64/ndarray',
    'i64_tall|nonsquare|hillshade|lazy1': 'float64/ndarray',
    'i64_tall|nonsquare|hillshade|lazy2': 'float64/ndarray',
    'i64_tall|nonsquare|hillshade|lazy3': 'float64/ndarray',
    'i64_tall|nonsquare|hillshade|lazy4': 'float64/ndarray',
    'i64_tall|nonsquare|hillshade|lazy5': 'float64/ndarray',
    'i64_tall|nonsquare|slope': 'f713d62a483561db66ae',
    'i64_tall|nonsquare|slope|lazy0': 'float64/ndarray',
    'i64_tall|nonsquare|slope|lazy1': 'float64/ndarray',
    'i64_tall|nonsquare|slope|lazy2': 'float64/ndarray',
    'i64_tall|nonsquare|slope|lazy3': 'float64/ndarray',
    'i64_tall|nonsquare|slope|lazy4': 'float64/ndarray',
    'i64_tall|nonsquare|slope|lazy5': 'float64/ndarray',
    'i64_tall|unit|aspect': '6e59e53367f02a35ca83',
    'i64_tall|unit|aspect|lazy0': 'float64/ndarray',
    'i64_tall|unit|aspect|lazy1': 'float64/ndarray',
    'i64_tall|unit|aspect|lazy2': 'float64/ndarray',
    'i64_tall|unit|aspect|lazy3': 'float64/ndarray',
    'i64_tall|unit|aspect|lazy4': 'float64/ndarray',
    'i64_tall|unit|aspect|lazy5': 'float64/ndarray',
    'i64_tall|unit|curvature': 'baf036562edcf434216b',
    'i64_tall|unit|curvature|lazy0': 'float64/ndarray',
    'i64_tall|unit|curvature|lazy1': 'float64/ndarray',
    'i64_tall|unit|curvature|lazy2': 'float64/ndarray',
    'i64_tall|unit|curvature|lazy3': 'float64/ndarray',
    'i64_tall|unit|curvature|lazy4': 'float64/ndarray',
    'i64_tall|unit|curvature|lazy5': 'float64/ndarray',
    'i64_tall|unit|hillshade': '303bf762a8b8af0304a3',
    'i64_tall|unit|hillshade_az100_alt60': '6555219a7f79b81dfbc5',
    'i64_tall|unit|hillshade_az100_alt60|lazy0': 'float64/ndarray',
    'i64_tall|unit|hillshade_az100_alt60|lazy1': 'float64/ndarray',
    'i64_tall|unit|hillshade_az100_alt60|lazy2': 'float64/ndarray',
    'i64_tall|unit|hillshade_az100_alt60|lazy3': 'float64/ndarray',
    'i64_tall|unit|hillshade_az100_alt60|lazy4': 'float64/ndarray',
    'i64_tall|unit|hillshade_az100_alt60|lazy5': 'float64/ndarray',
    'i64_tall|unit|hillshade|lazy0': 'float64/ndarray',
    'i64_tall|unit|hillshade|lazy1': 'float64/ndarray',
    'i64_tall|unit|hillshade|lazy2': 'float64/ndarray',
    'i64_tall|unit|hillshade|lazy3': 'float64/ndarray',
    'i64_tall|unit|hillshade|lazy4': 'float64/ndarray',
    'i64_tall|unit|hillshade|lazy5': 'float64/ndarray',
    'i64_tall|unit|slope': '34931a5b5ceb7af1037f',
    'i64_tall|unit|slope|lazy0': 'float64/ndarray',
    'i64_tall|unit|slope|lazy1': 'float64/ndarray',
    'i64_tall|unit|slope|lazy2': 'float64/ndarray',
    'i64_tall|unit|slope|lazy3': 'float64/ndarray',
    'i64_tall|unit|slope|lazy4': 'float64/ndarray',
    'i64_tall|unit|slope|lazy5': 'float64/ndarray',
    'u8_flat_parts|int10|aspect': '7b13dad9a4e5ad6704d2',
    'u8_flat_parts|int10|aspect|lazy0': 'float64/ndarray',
    'u8_flat_parts|int10|aspect|lazy1': 'float64/ndarray',
    'u8_flat_parts|int10|aspect|lazy2': 'float64/ndarray',
    'u8_flat_parts|int10|aspect|lazy3': 'float64/ndarray',
    'u8_flat_parts|int10|aspect|lazy4': 'float64/ndarray',
    'u8_flat_parts|int10|aspect|lazy5': 'float64/ndarray',
    'u8_flat_parts|int10|aspect|lazy6': 'float64/ndarray',
    'u8_flat_parts|int10|aspect|lazy7': 'float64/ndarray',
    'u8_flat_parts|int10|curvature': '039b6aa11a8f736da76d',
    'u8_flat_parts|int10|curvature|lazy0': 'float64/ndarray',
    'u8_flat_parts|int10|curvature|lazy1': 'float64/ndarray',
    'u8_flat_parts|int10|curvature|lazy2': 'float64/ndarray',
    'u8_flat_parts|int10|curvature|lazy3': 'float64/ndarray',
    'u8_flat_parts|int10|curvature|lazy4': 'float64/ndarray',
    'u8_flat_parts|int10|curvature|lazy5': 'float64/ndarray',
    'u8_flat_parts|int10|curvature|lazy6': 'float64/ndarray',
    'u8_flat_parts|int10|curvature|lazy7': 'float64/ndarray',
    'u8_flat_parts|int10|hillshade': '65c9d517950c970d3ef1',
    'u8_flat_parts|int10|hillshade_az100_alt60': '278352ee71f5c85a83e9',
    'u8_flat_parts|int10|hillshade_az100_alt60|lazy0': 'float64/ndarray',
    'u8_flat_parts|int10|hillshade_az100_alt60|lazy1': 'float64/ndarray',
    'u8_flat_parts|int10|hillshade_az100_alt60|lazy2': 'float64/ndarray',
    'u8_flat_parts|int10|hillshade_az100_alt60|lazy3': 'float64/ndarray',
    'u8_flat_parts|int10|hillshade_az100_alt60|lazy4': 'float64/ndarray',
    'u8_flat_parts|int10|hillshade_az100_alt60|lazy5': 'float64/ndarray',
    'u8_flat_parts|int10|hillshade_az100_alt60|lazy6': 'float64/ndarray',
    'u8_flat_parts|int10|hillshade_az100_alt60|lazy7': 'float64/ndarray',
    'u8_flat_parts|int10|hillshade|lazy0': 'float64/ndarray',
    'u8_flat_parts|int10|hillshade|lazy1': 'float64/ndarray',
    'u8_flat_parts|int10|hillshade|lazy2': 'float64/ndarray',
    'u8_flat_parts|int10|hillshade|lazy3': 'float64/ndarray',
    'u8_flat_parts|int10|hillshade|lazy4': 'float64/ndarray',
    'u8_flat_parts|int10|hillshade|lazy5': 'float64/ndarray',
    'u8_flat_parts|int10|hillshade|lazy6': 'float64/ndarray',
    'u8_flat_parts|int10|hillshade|lazy7': 'float64/ndarray',
    'u8_flat_parts|int10|slope': '1963516b1bbb3b9cc0b5',
    'u8_flat_parts|int10|slope|lazy0': 'float64/ndarray',
    'u8_flat_parts|int10|slope|lazy1': 'float64/ndarray',
    'u8_flat_parts|int10|slope|lazy2': 'float64/ndarray',
    'u8_flat_parts|int10|slope|lazy3': 'float64/ndarray',
    'u8_flat_parts|int10|slope|lazy4': 'float64/ndarray',
    'u8_flat_parts|int10|slope|lazy5': 'float64/ndarray',
    'u8_flat_parts|int10|slope|lazy6': 'float64/ndarray',
    'u8_flat_parts|int10|slope|lazy7': 'float64/ndarray',
    'u8_flat_parts|nonsquare|aspect': '7b13dad9a4e5ad6704d2',
    'u8_flat_parts|nonsquare|aspect|lazy0': 'float64/ndarray',
    'u8_flat_parts|nonsquare|aspect|lazy1': 'float64/ndarray',
    'u8_flat_parts|nonsquare|aspect|lazy2': 'float64/ndarray',
    'u8_flat_parts|nonsquare|aspect|lazy3': 'float64/ndarray',
    'u8_flat_parts|nonsquare|aspect|lazy4': 'float64/ndarray',
    'u8_flat_parts|nonsquare|aspect|lazy5': 'float64/ndarray',
    'u8_flat_parts|nonsquare|aspect|lazy6': 'float64/ndarray',
    'u8_flat_parts|nonsquare|aspect|lazy7': 'float64/ndarray',
    'u8_flat_parts|nonsquare|curvature': 'fcf33b4c736c0d2dbf40',
    'u8_flat_parts|nonsquare|curvature|lazy0': 'float64/ndarray',
    'u8_flat_parts|nonsquare|curvature|lazy1': 'float64/ndarray',
    'u8_flat_parts|nonsquare|curvature|lazy2': 'float64/ndarray',
    'u8_flat_parts|nonsquare|curvature|lazy3': 'float64/ndarray',
    'u8_flat_parts|nonsquare|curvature|lazy4': 'float64/ndarray',
    'u8_flat_parts|nonsquare|curvature|lazy5': 'float64/ndarray',
    'u8_flat_parts|nonsquare|curvature|lazy6': 'float64/ndarray',
    'u8_flat_parts|nonsquare|curvature|lazy7': 'float64/ndarray',
    'u8_flat_parts|nonsquare|hillshade': '65c9d517950c970d3ef1',
    'u8_flat_parts|nonsquare|hillshade_az100_alt60': '278352ee71f5c85a83e9',
    'u8_flat_parts|nonsquare|hillshade_az100_alt60|lazy0': 'float64/ndarray',
    'u8_flat_parts|nonsquare|hillshade_az100_alt60|lazy1': 'float64/ndarray',
    'u8_flat_parts|nonsquare|hillshade_az100_alt60|lazy2': 'float64/ndarray',
    'u8_flat_parts|nonsquare|hillshade_az100_alt60|lazy3': 'float64/ndarray',
    'u8_flat_parts|nonsquare|hillshade_az100_alt60|lazy4': 'float64/ndarray',
    'u8_flat_parts|nonsquare|hillshade_az100_alt60|lazy5': 'float64/ndarray',
    'u8_flat_parts|nonsquare|hillshade_az100_alt60|lazy6': 'float64/ndarray',
    'u8_flat_parts|nonsquare|hillshade_az100_alt60|lazy7': 'float64/ndarray',
    'u8_flat_parts|nonsquare|hillshade|lazy0': 'float64/ndarray',
    'u8_flat_parts|nonsquare|hillshade|lazy1': 'float64/ndarray',
    'u8_flat_parts|nonsquare|hillshade|lazy2': 'float64/ndarray',
    'u8_flat_parts|nonsquare|hillshade|lazy3': 'float64/ndarray',
    'u8_flat_parts|nonsquare|hillshade|lazy4': 'float64/ndarray',
    'u8_flat_parts|nonsquare|hillshade|lazy5': 'float64/ndarray',
    'u8_flat_parts|nonsquare|hillshade|lazy6': 'float64/ndarray',
    'u8_flat_parts|nonsquare|hillshade|lazy7': 'float64/ndarray',
    'u8_flat_parts|nonsquare|slope': '219794073047856b9fc4',
    'u8_flat_parts|nonsquare|slope|lazy0': 'float64/ndarray',
    'u8_flat_parts|nonsquare|slope|lazy1': 'float64/ndarray',
    'u8_flat_parts|nonsquare|slope|lazy2': 'float64/ndarray',
    'u8_flat_parts|nonsquare|slope|lazy3': 'float64/ndarray',
    'u8_flat_parts|nonsquare|slope|lazy4': 'float64/ndarray',
    'u8_flat_parts|nonsquare|slope|lazy5': 'float64/ndarray',
    'u8_flat_parts|nonsquare|slope|lazy6': 'float64/ndarray',
    'u8_flat_parts|nonsquare|slope|lazy7': 'float64/ndarray',
    'u8_flat_parts|unit|aspect': '7b13dad9a4e5ad6704d2',
    'u8_flat_parts|unit|aspect|lazy0': 'float64/ndarray',
    'u8_flat_parts|unit|aspect|lazy1': 'float64/ndarray',
    'u8_flat_parts|unit|aspect|lazy2': 'float64/ndarray',
    'u8_flat_parts|unit|aspect|lazy3': 'float64/ndarray',
    'u8_flat_parts|unit|aspect|lazy4': 'float64/ndarray',
    'u8_flat_parts|unit|aspect|lazy5': 'float64/ndarray',
    'u8_flat_parts|unit|aspect|lazy6': 'float64/ndarray',
    'u8_flat_parts|unit|aspect|lazy7': 'float64/ndarray',
    'u8_flat_parts|unit|curvature': '1b0909037fe5a65d4eb2',
    'u8_flat_parts|unit|curvature|lazy0': 'float64/ndarray',
    'u8_flat_parts|unit|curvature|lazy1': 'float64/ndarray',
    'u8_flat_parts|unit|curvature|lazy2': 'float64/ndarray',
    'u8_flat_parts|unit|curvature|lazy3': 'float64/ndarray',
    'u8_flat_parts|unit|curvature|lazy4': 'float64/ndarray',
    'u8_flat_parts|unit|curvature|lazy5': 'float64/ndarray',
    'u8_flat_parts|unit|curvature|lazy6': 'float64/ndarray',
    'u8_flat_parts|unit|curvature|lazy7': 'float64/ndarray',
    'u8_flat_parts|unit|hillshade': '65c9d517950c970d3ef1',
    'u8_flat_parts|unit|hillshade_az100_alt60': '278352ee71f5c85a83e9',
    'u8_flat_parts|unit|hillshade_az100_alt60|lazy0': 'float64/ndarray',
    'u8_flat_parts|unit|hillshade_az100_alt60|lazy1': 'float64/ndarray',
    'u8_flat_parts|unit|hillshade_az100_alt60|lazy2': 'float64/ndarray',
    'u8_flat_parts|unit|hillshade_az100_alt60|lazy3': 'float64/ndarray',
    'u8_flat_parts|unit|hillshade_az100_alt60|lazy4': 'float64/ndarray',
    'u8_flat_parts|unit|hillshade_az100_alt60|lazy5': 'float64/ndarray',
    'u8_flat_parts|unit|hillshade_az100_alt60|lazy6': 'float64/ndarray',
    'u8_flat_parts|unit|hillshade_az100_alt60|lazy7': 'float64/ndarray',
    'u8_flat_parts|unit|hillshade|lazy0': 'float64/ndarray',
    'u8_flat_parts|unit|hillshade|lazy1': 'float64/ndarray',
    'u8_flat_parts|unit|hillshade|lazy2': 'float64/ndarray',
    'u8_flat_parts|unit|hillshade|lazy3': 'float64/ndarray',
    'u8_flat_parts|unit|hillshade|lazy4': 'float64/ndarray',
    'u8_flat_parts|unit|hillshade|lazy5': 'float64/ndarray',
    'u8_flat_parts|unit|hillshade|lazy6': 'float64/ndarray',
    'u8_flat_parts|unit|hillshade|lazy7': 'float64/ndarray',
    'u8_flat_parts|unit|slope': '7002783269f6f88f450e',
    'u8_flat_parts|unit|slope|lazy0': 'float64/ndarray',
    'u8_flat_parts|unit|slope|lazy1': 'float64/ndarray',
    'u8_flat_parts|unit|slope|lazy2': 'float64/ndarray',
    'u8_flat_parts|unit|slope|lazy3': 'float64/ndarray',
    'u8_flat_parts|unit|slope|lazy4': 'float64/ndarray',
    'u8_flat_parts|unit|slope|lazy5': 'float64/ndarray',
    'u8_flat_parts|unit|slope|lazy6': 'float64/ndarray',
    'u8_flat_parts|unit|slope|lazy7': 'float64/ndarray',
}

if __name__ == '__main__':
    sys.exit(main('--record' in sys.argv))
