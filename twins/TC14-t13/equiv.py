"""Differential test for xrspatial.pathfinding.a_star_search (property C14).

Two kinds of checks are made on a deterministic family of inputs:

 (a) INDEPENDENT: for every call that returns, the result is checked against
     a pure-python Dijkstra reference: all-NaN iff no route, otherwise one
     chain from the start cell (0.0) to the goal cell whose steps are 4-/8-
     neighbour moves adding 1 or sqrt(2), that never enters a barrier / NaN
     cell, and whose final value is the optimum.
 (b) RECORDED: a sha256 digest per group of cases over (exception type and
     message | result bytes, dtype, shape, dims, coords, attrs, name, type,
     warnings in order) is compared against the digests recorded from the
     unmodified tree (EXPECTED below).

exit 0 if everything is identical, 1 otherwise.
Run with `--record` to print the digests of the tree under test.
"""
import hashlib
import heapq
import itertools
import math
import sys
import warnings

import numpy as np
import xarray as xr

import xrspatial
from xrspatial import a_star_search

FOCUS = "t13 validation / argument handling of a_star_search"

EXPECTED = {
    # recorded from the unmodified tree (HEAD 5c76b3c)
    'exhaustive_2x3': '4f4df3166b93da3c37a78da0a6adf64b3da92e5a2ee1a14bb8dd9d0b78ab359d',
    'sampled_3x3_snap': '60032e8b3b24629d80e4e99232f10f9097c7cc0cc10a41b6899f82de9f98eab2',
    'random_nosnap': '207de7d082ca93a557e2681ca1bac5334971a46cc73e469894506c244b05e0e6',
    'random_snap': '817ded1a5b6412f4d87cdefc0fd5004cb37fbbf8c811debf057d6bf6b57a827d',
    'layout': '68aafda1688ac83ca57a1400395a3aa5cc38cf075c1057db4ed7c12ba27976b0',
    'errors': '8bf940997e4bc9ce10e0be419f6564666b8c125ca561b784ba071b41ae6cef2d',
    'blocked': '47e3fba0fb384003fe10a9ed28e482bc08589186afa3b444ce53145045d2369b',
    'dask': '964df51bbed6a2703a2e5bad2fc46a4a4a608c9e4995ed9c73e3a51a0cb3d8a3',
    'api': '23a1019b501d9189f874f302fda79d810fee51bd97a7d0434be3a04e74fba8c5',
}


# --------------------------------------------------------------------------
# helpers
# --------------------------------------------------------------------------
def make_raster(data, y0=0.0, dy=1.0, x0=0.0, dx=1.0, dims=('y', 'x'),
                attrs=None, name=None, with_res=False):
    data = np.asarray(data)
    h, w = data.shape
    ys = y0 + dy * np.arange(h)
    xs = x0 + dx * np.arange(w)
    attrs = dict(attrs or {})
    if with_res:
        attrs['res'] = (float(abs(dx)), float(abs(dy)))
    return xr.DataArray(data, dims=list(dims),
                        coords={dims[0]: ys, dims[1]: xs},
                        attrs=attrs, name=name)


def describe(func):
    """Run func, return a canonical bytes description of everything
    observable, plus the result (or None)."""
    hsh = hashlib.sha256()
    res = None
    with warnings.catch_warnings(record=True) as wlist:
        warnings.simplefilter("always")
        try:
            res = func()
        except Exception as e:  # noqa
            msg = str(e)
            if len(msg) > 200 or '0x' in msg:
                msg = ''
            hsh.update(("EXC|%s|%s" % (type(e).__name__, msg)).encode())
            res = None
    for w in wlist:
        m = str(w.message)
        if 'non crossable' in m:
            hsh.update(("W|%s|%s" % (w.category.__name__, m)).encode())
    if res is not None:
        hsh.update(type(res).__name__.encode())
        hsh.update(type(res.data).__name__.encode())
        arr = np.asarray(res.data)
        hsh.update(str(arr.dtype).encode())
        hsh.update(str(arr.shape).encode())
        hsh.update(np.ascontiguousarray(arr).tobytes())
        hsh.update(str(res.dims).encode())
        hsh.update(str(res.name).encode())
        hsh.update(repr(sorted((k, repr(v)) for k, v in res.attrs.items())).encode())
        for c in res.coords:
            hsh.update(str(c).encode())
            cv = np.asarray(res.coords[c].values)
            hsh.update(str(cv.dtype).encode())
            hsh.update(np.ascontiguousarray(cv).tobytes())
    return hsh.digest(), res


def crossable_mask(data, barriers):
    d = np.asarray(data).astype(np.float64)
    m = ~np.isnan(d)
    for b in barriers:
        m &= ~(np.asarray(data) == b)
    return m


def dijkstra(mask, s, g, conn):
    if conn == 8:
        nb = [(-1, -1), (-1, 0), (-1, 1), (0, -1), (0, 1), (1, -1), (1, 0), (1, 1)]
    else:
        nb = [(-1, 0), (1, 0), (0, -1), (0, 1)]
    h, w = mask.shape
    if not mask[s] or not mask[g]:
        return None
    dist = {s: 0.0}
    pq = [(0.0, s)]
    while pq:
        d, c = heapq.heappop(pq)
        if d > dist.get(c, math.inf):
            continue
        if c == g:
            return d
        for dy_, dx_ in nb:
            n = (c[0] + dy_, c[1] + dx_)
            if 0 <= n[0] < h and 0 <= n[1] < w and mask[n]:
                nd = d + math.hypot(dy_, dx_)
                if nd < dist.get(n, math.inf) - 1e-12:
                    dist[n] = nd
                    heapq.heappush(pq, (nd, n))
    return None


def check_path(out, mask, s, g, conn):
    """out: float64 array. s, g: expected (row, col) cells."""
    assert out.dtype == np.float64, out.dtype
    assert out.shape == mask.shape
    best = dijkstra(mask, s, g, conn)
    cells = [tuple(c) for c in np.argwhere(~np.isnan(out))]
    if best is None:
        assert not cells, "expected all NaN"
        return
    assert cells, "route exists but result is all NaN"
    assert out[s] == 0.0, "start not 0"
    order = sorted(cells, key=lambda c: out[c])
    assert order[0] == s and order[-1] == g, (order, s, g)
    for a, b in zip(order[:-1], order[1:]):
        dy_, dx_ = abs(a[0] - b[0]), abs(a[1] - b[1])
        assert max(dy_, dx_) == 1, "not neighbours"
        if conn == 4:
            assert dy_ + dx_ == 1, "diagonal under 4-connectivity"
        assert abs((out[b] - out[a]) - math.hypot(dy_, dx_)) < 1e-9
    for c in cells:
        assert mask[c], "path enters non crossable cell"
    assert abs(out[g] - best) < 1e-9, (out[g], best)


def nearest_cells(mask, c):
    """set of crossable cells at minimum euclidean distance from c."""
    if mask[c]:
        return {c}
    cand = [tuple(k) for k in np.argwhere(mask)]
    if not cand:
        return set()
    ds = [math.hypot(k[0] - c[0], k[1] - c[1]) for k in cand]
    m = min(ds)
    return {k for k, d in zip(cand, ds) if abs(d - m) < 1e-12}


def independent_check(res, data, barriers, s, g, conn, snap_s, snap_g):
    out = np.asarray(res.data)
    mask = crossable_mask(data, barriers)
    if not snap_s and not snap_g:
        check_path(out, mask, s, g, conn)
        return
    ss = nearest_cells(mask, s) if snap_s else {s}
    gs = nearest_cells(mask, g) if snap_g else {g}
    if not ss or not gs:
        assert np.isnan(out).all()
        return
    errs = []
    for a in ss:
        for b in gs:
            try:
                check_path(out, mask, a, b, conn)
                return
            except AssertionError as e:
                errs.append(e)
    raise AssertionError("no snapped end point pair explains the result: %r" % errs[:2])


# --------------------------------------------------------------------------
# case groups.  every group yields (label, thunk, checker-or-None)
# --------------------------------------------------------------------------
def group_exhaustive_2x3():
    h, w = 2, 3
    cells = list(itertools.product(range(h), range(w)))
    for bits in range(2 ** (h * w)):
        data = np.array([(bits >> k) & 1 for k in range(h * w)],
                        dtype=np.int64).reshape(h, w)
        agg = make_raster(data)
        for s in cells:
            for g in cells:
                for conn in (4, 8):
                    yield (agg, (float(s[0]), float(s[1])), (float(g[0]), float(g[1])),
                           dict(barriers=[0], connectivity=conn), data, [0], s, g)


def group_sampled_3x3():
    h, w = 3, 3
    rng = np.random.RandomState(7)
    cells = list(itertools.product(range(h), range(w)))
    for bits in range(0, 2 ** (h * w), 5):
        vals = [(bits >> k) & 1 for k in range(h * w)]
        data = np.array(vals, dtype=np.float64).reshape(h, w)
        # barrier encoded as NaN here
        data[data == 0] = np.nan
        agg = make_raster(data, y0=10.0, dy=-2.0, x0=-3.0, dx=0.5)
        for _ in range(6):
            s = cells[rng.randint(len(cells))]
            g = cells[rng.randint(len(cells))]
            conn = (4, 8)[rng.randint(2)]
            snap_s = bool(rng.randint(2))
            snap_g = bool(rng.randint(2))
            sp = (10.0 - 2.0 * s[0], -3.0 + 0.5 * s[1])
            gp = (10.0 - 2.0 * g[0], -3.0 + 0.5 * g[1])
            yield (agg, sp, gp,
                   dict(connectivity=conn, snap_start=snap_s, snap_goal=snap_g),
                   data, [], s, g)


DTYPES = [np.int8, np.uint8, np.int16, np.int32, np.int64, np.uint32,
          np.float32, np.float64]
SHAPES = [(1, 6), (6, 1), (5, 7), (7, 4), (4, 4), (9, 3), (2, 11)]
GEOMS = [  # y0, dy, x0, dx
    (0.0, 1.0, 0.0, 1.0),
    (20.0, -1.0, 0.0, 1.0),
    (0.5, 0.25, -7.3, 0.1),
    (1000.0, -30.0, 500000.0, 30.0),
    (3.0, 1.0 / 3.0, 9.0, -1.0 / 7.0),
    (-0.7, -0.3, 0.3, -0.7),
]


def group_random(seed, snap):
    rng = np.random.RandomState(seed)
    for shape in SHAPES:
        for dt in DTYPES:
            for gi, (y0, dy, x0, dx) in enumerate(GEOMS):
                h, w = shape
                data = rng.randint(0, 4, size=shape).astype(dt)
                if np.issubdtype(dt, np.floating):
                    nanm = rng.rand(*shape) < 0.15
                    data[nanm] = np.nan
                barriers = [[], [0], [0, 2], [1.0, 3.0], (2,)][rng.randint(5)]
                with_res = (h == 1 or w == 1)
                agg = make_raster(data, y0, dy, x0, dx, dims=('lat', 'lon'),
                                  attrs={'unit': 'm', 'k': 3},
                                  name='surf%d' % gi, with_res=with_res)
                s = (rng.randint(h), rng.randint(w))
                g = (rng.randint(h), rng.randint(w))
                off = rng.uniform(-0.4, 0.4, size=4) if rng.rand() < 0.6 else np.zeros(4)
                sp = (y0 + dy * (s[0] + off[0]), x0 + dx * (s[1] + off[1]))
                gp = (y0 + dy * (g[0] + off[2]), x0 + dx * (g[1] + off[3]))
                # points given in different container kinds
                kind = rng.randint(3)
                if kind == 1:
                    sp, gp = list(sp), list(gp)
                elif kind == 2:
                    sp, gp = np.array(sp), np.array(gp)
                conn = (4, 8)[rng.randint(2)]
                kw = dict(barriers=barriers, x='lon', y='lat', connectivity=conn)
                snap_s = snap_g = False
                if snap:
                    snap_s = bool(rng.randint(2))
                    snap_g = bool(rng.randint(2))
                    kw.update(snap_start=snap_s, snap_goal=snap_g)
                yield (agg, sp, gp, kw, data, list(barriers), s, g)


def group_layout():
    """F-ordered / non-contiguous / read-only inputs, positional arguments,
    default argument values, attrs/name/coords carried over."""
    rng = np.random.RandomState(99)
    base = rng.randint(0, 3, size=(12, 10)).astype(np.float64)
    base[rng.rand(12, 10) < 0.1] = np.nan
    variants = {
        'F': np.asfortranarray(base[:6, :5]),
        'strided': base[::2, ::2],
        'T': base[:5, :6].T,
        'neg': base[:6, :5][::-1, ::-1],
    }
    ro = base[:6, :5].copy()
    ro.setflags(write=False)
    variants['readonly'] = ro
    for name, data in variants.items():
        h, w = data.shape
        agg = xr.DataArray(data, dims=['y', 'x'],
                           coords={'y': np.arange(h) * 2.0 + 1, 'x': np.arange(w) * 2.0 - 5,
                                   'extra': ('y', np.arange(h) * 10)},
                           attrs={'crs': 'EPSG:3857', 'nodata': -1}, name=name)
        for s, g in [((0, 0), (h - 1, w - 1)), ((h - 1, 0), (0, w - 1)), ((2, 2), (2, 2))]:
            sp = (1 + 2.0 * s[0], -5 + 2.0 * s[1])
            gp = (1 + 2.0 * g[0], -5 + 2.0 * g[1])
            for conn in (4, 8):
                # positional barriers, default x / y
                yield (agg, sp, gp, ('POS', [0], 'x', 'y', conn, True, True),
                       data, [0], s, g)
                yield (agg, sp, gp, dict(connectivity=conn), data, [], s, g)


def run_path_group(gen):
    hsh = hashlib.sha256()
    n = 0
    fails = []
    for item in gen:
        agg, sp, gp, kw, data, barriers, s, g = item
        if isinstance(kw, tuple):
            args = kw[1:]
            conn, snap_s, snap_g = args[3], args[4], args[5]
            thunk = (lambda agg=agg, sp=sp, gp=gp, args=args:
                     a_star_search(agg, sp, gp, *args))
        else:
            conn = kw.get('connectivity', 8)
            snap_s = kw.get('snap_start', False)
            snap_g = kw.get('snap_goal', False)
            thunk = (lambda agg=agg, sp=sp, gp=gp, kw=kw:
                     a_star_search(agg, sp, gp, **kw))
        before = np.array(agg.data, copy=True)
        d, res = describe(thunk)
        hsh.update(d)
        n += 1
        # input must not be modified, output must not alias input
        if not np.array_equal(before, np.asarray(agg.data), equal_nan=True):
            fails.append(("input modified", n))
        if res is None:
            fails.append(("unexpected exception", n, sp, gp, kw))
            continue
        if not res.coords.equals(agg.coords) and \
                not all(np.array_equal(res.coords[c].values, agg.coords[c].values)
                        for c in agg.coords):
            fails.append(("coords differ", n))
        try:
            independent_check(res, data, barriers, s, g, conn, snap_s, snap_g)
        except AssertionError as e:
            fails.append(("independent check", n, sp, gp, kw, str(e)[:300]))
    return hsh.hexdigest(), n, fails


def group_errors():
    """Argument validation: which exception, which precedence."""
    good = make_raster(np.ones((4, 5)))
    cube = xr.DataArray(np.ones((2, 4, 5)), dims=['b', 'y', 'x'])
    line = xr.DataArray(np.ones(5), dims=['x'], coords={'x': np.arange(5.)})
    named = make_raster(np.ones((4, 5)), dims=('lat', 'lon'))
    swapped = xr.DataArray(np.ones((5, 4)), dims=['x', 'y'],
                           coords={'x': np.arange(5.), 'y': np.arange(4.)})
    inside, inside2 = (1.0, 1.0), (3.0, 4.0)
    out_hi, out_lo, out_x = (9.0, 1.0), (-4.0, 1.0), (1.0, 40.0)
    thunks = []

    def add(*a, **k):
        thunks.append(lambda a=a, k=k: a_star_search(*a, **k))

    # each single defect
    add(cube, inside, inside2)
    add(line, inside, inside2)
    add(named, inside, inside2)
    add(named, inside, inside2, [], 'lon', 'lat')
    add(swapped, inside, inside2)
    add(swapped, inside, inside2, x='y', y='x')
    for c in (0, 1, 6, 16, -8, None, '8', 4.0, 8.0, True):
        add(good, inside, inside2, connectivity=c)
    for p in (out_hi, out_lo, out_x, (3.49, 4.49), (3.5, 4.0), (3.0, 4.5), (-0.49, -0.49),
              (-0.5, 0.0), (-0.51, 0.0)):
        add(good, p, inside2)
        add(good, inside, p)
        add(good, p, inside2, snap_start=True)
        add(good, inside, p, snap_goal=True)
    # precedence: several defects at once
    add(cube, out_hi, out_hi, connectivity=5)
    add(cube, inside, inside2, x='q', y='r')
    add(named, out_hi, out_hi, connectivity=5)
    add(named, inside, inside, [], 'lon', 'lat', 5)
    add(good, out_hi, out_x, connectivity=5)
    add(good, out_hi, out_x)
    add(good, out_x, out_hi)
    add(good, out_hi, inside, connectivity=3)
    # malformed points: which one is looked at first, and before what
    add(good, (1.0,), out_hi)
    add(good, out_hi, (1.0,))
    add(good, None, out_hi)
    add(good, out_hi, None)
    add(good, (1.0,), None)
    add(good, None, (1.0,))
    add(good, 'ab', inside)
    add(good, inside, 'ab')
    add(good, (1.0,), inside, connectivity=5)
    add(cube, (1.0,), inside)
    add(good, (np.nan, 1.0), inside)
    add(good, inside, (1.0, np.nan))
    add(good, (np.nan, 1.0), out_hi)
    add(good, (np.inf, 1.0), inside)
    add(good, (1, 1), (3, 4))
    add(good, (1.0, 1.0, 7.0), (3.0, 4.0, 9.0))
    # barriers of odd kinds
    for b in ([], (), [1], (1,), np.array([1.0]), [np.nan], [[1]], 1, None, ['a'], [1, 2.5],
              np.array([1], dtype=np.int8)):
        add(good, inside, inside2, b)
        add(good, inside, inside2, barriers=b, snap_start=True, snap_goal=True)
    # not a DataArray
    add(np.ones((4, 5)), inside, inside2)
    add(None, inside, inside2)
    # single row / column without a res attribute
    add(make_raster(np.ones((1, 5))), (0.0, 0.0), (0.0, 4.0))
    add(make_raster(np.ones((5, 1))), (0.0, 0.0), (4.0, 0.0))
    add(make_raster(np.ones((1, 1))), (0.0, 0.0), (0.0, 0.0))
    add(make_raster(np.ones((1, 1)), with_res=True), (0.0, 0.0), (0.0, 0.0))
    # res attribute kinds
    for r in (1, 2.0, (1.0, 1.0), [0.5, 2], np.array([1.0, 1.0]), 'x', (1, 1, 1), None):
        a = make_raster(np.ones((4, 5)), attrs={'res': r})
        add(a, (2.0, 3.0), (0.0, 0.0))
    # no coordinates at all
    add(xr.DataArray(np.ones((4, 5)), dims=['y', 'x']), inside, inside2)
    # integer coordinates
    ai = xr.DataArray(np.ones((4, 5)), dims=['y', 'x'],
                      coords={'y': np.arange(4), 'x': np.arange(5)})
    add(ai, (1, 1), (3, 4))
    add(ai, (1.2, 0.8), (2.6, 3.5))
    return thunks


def group_blocked():
    """Everything blocked / end points not crossable; snapping with nothing
    to snap to; warnings and their order."""
    thunks = []

    def add(*a, **k):
        thunks.append(lambda a=a, k=k: a_star_search(*a, **k))

    allnan = make_raster(np.full((3, 4), np.nan))
    allbar = make_raster(np.zeros((3, 4), dtype=np.int32))
    mixed = make_raster(np.array([[1., 0., np.nan, 1.],
                                  [0., 0., 1., 1.],
                                  [np.nan, 1., 0., 1.]]))
    for agg, bar in ((allnan, []), (allbar, [0]), (mixed, [0]), (mixed, []), (mixed, [1])):
        for ss in (False, True):
            for sg in (False, True):
                for conn in (4, 8):
                    for s, g in (((0., 0.), (2., 3.)), ((2., 3.), (0., 0.)),
                                 ((0., 1.), (2., 0.)), ((2., 0.), (0., 2.)),
                                 ((1., 1.), (1., 1.)), ((0., 0.), (0., 0.)),
                                 ((0., 2.), (2., 2.))):
                        add(agg, s, g, bar, connectivity=conn, snap_start=ss, snap_goal=sg)
    return thunks


def group_dask():
    thunks = []
    try:
        import dask.array as da
    except ImportError:
        return thunks
    data = np.ones((4, 6))
    data[1, 1:5] = 0
    for chunks in ((2, 3), (4, 6)):
        agg = make_raster(data)
        agg.data = da.from_array(data, chunks=chunks)
        for kw in (dict(), dict(barriers=[0]), dict(barriers=[0], snap_start=True),
                   dict(connectivity=4, snap_goal=True)):
            thunks.append(lambda agg=agg, kw=kw: a_star_search(agg, (0., 0.), (3., 5.), **kw))
            thunks.append(lambda agg=agg, kw=kw: a_star_search(agg, (9., 0.), (3., 5.), **kw))
    return thunks


def run_thunk_group(thunks):
    hsh = hashlib.sha256()
    for t in thunks:
        d, _ = describe(t)
        hsh.update(d)
    return hsh.hexdigest(), len(thunks), []


def group_private():
    """The module-level pieces other code may lean on."""
    import xrspatial.pathfinding as pf
    hsh = hashlib.sha256()
    hsh.update(repr(pf.NONE).encode())
    import inspect
    hsh.update(str(inspect.signature(pf.a_star_search)).encode())
    hsh.update(repr(pf.a_star_search.__defaults__).encode())
    hsh.update((pf.a_star_search.__doc__ or '').encode())
    return hsh.hexdigest(), 1, []


def main():
    record = '--record' in sys.argv
    wt = xrspatial.__file__
    print("xrspatial from", wt, "| focus:", FOCUS)
    groups = [
        ('exhaustive_2x3', lambda: run_path_group(group_exhaustive_2x3())),
        ('sampled_3x3_snap', lambda: run_path_group(group_sampled_3x3())),
        ('random_nosnap', lambda: run_path_group(group_random(1, False))),
        ('random_snap', lambda: run_path_group(group_random(2, True))),
        ('layout', lambda: run_path_group(group_layout())),
        ('errors', lambda: run_thunk_group(group_errors())),
        ('blocked', lambda: run_thunk_group(group_blocked())),
        ('dask', lambda: run_thunk_group(group_dask())),
        ('api', group_private),
    ]
    bad = 0
    total = 0
    for name, run in groups:
        digest, n, fails = run()
        total += n
        if record:
            print("    %r: %r," % (name, digest))
        for f in fails[:5]:
            print("FAIL", name, f)
        bad += len(fails)
        if not record:
            if EXPECTED.get(name) != digest:
                print("DIGEST MISMATCH in group", name, digest, "expected", EXPECTED.get(name))
                bad += 1
            else:
                print("ok   %-18s %6d cases" % (name, n))
    print("%d cases, %d problems" % (total, bad))
    return 1 if bad else 0


if __name__ == '__main__':
    sys.exit(main())
