"""Differential test for the distance-string parsing used by circle_kernel /
annulus_kernel (and the unit handling of calc_cellsize).

Expected values are computed independently (own unit table; the error class of each
malformed string was recorded from the unmodified tree); error type AND message are compared."""
import sys

import numpy as np
import xarray as xr

import xrspatial
from xrspatial import convolution as cv
from xrspatial.convolution import annulus_kernel, calc_cellsize, circle_kernel

print("xrspatial from", xrspatial.__file__)

FACT = {'meter': 1, 'meters': 1, 'm': 1,
        'feet': 0.3048, 'foot': 0.3048, 'ft': 0.3048,
        'miles': 1609.344, 'mls': 1609.344, 'ml': 1609.344,
        'kilometer': 1000, 'kilometers': 1000, 'km': 1000}

MSG_INVALID = "Invalid distance."
MSG_NUM = "Distance should be a positive numeric value.\n"
MSG_POS = "Distance should be a positive.\n"
MSG_UNIT = ("Distance unit should be one of the following: \n"
            "meter (meter, meters, m),\n"
            "kilometer (kilometer, kilometers, km),\n"
            "foot (foot, feet, ft),\n"
            "mile (mile, miles, ml, mls)")

# (input string, expected metres | (exception type, message))
CASES = []
numbers = ['1', '3', '10', '0.5', '.5', '2.25', '007', '1234.5678', '100']
units = ['', 'm', 'meter', 'meters', 'km', 'kilometer', 'kilometers',
         'ft', 'foot', 'feet', 'ml', 'mls', 'miles',
         'KM', 'Km', ' km', ' k m', 'M', 'FeEt', ' Miles', 'm ', ' m e t e r s ']
for n in numbers:
    for u in units:
        key = u.lower().replace(' ', '')
        if key == '':
            # only whitespace or nothing after the number
            if u == '':
                CASES.append((n + u, float(n) * 1))
            continue
        CASES.append((n + u, float(n) * FACT[key]))

ERR = [
    ('0', MSG_POS), ('0.0', MSG_POS), ('0km', MSG_POS), ('-1', MSG_POS),
    ('-3.5m', MSG_POS), ('-0', MSG_POS), ('-.5ft', MSG_POS),
    ('abc', MSG_NUM), ('km', MSG_NUM), ('m', MSG_NUM), (' ', MSG_NUM),
    ('km5', MSG_NUM), (' 5', MSG_NUM),
    ('5 5', MSG_INVALID), ('1km2', MSG_INVALID), ('1.2.3', MSG_UNIT),
    ('5-3', MSG_UNIT), ('1e3', MSG_INVALID), ('1,5', MSG_INVALID),
    ('', MSG_INVALID), ('3m4ft', MSG_INVALID), ('1..5', MSG_INVALID),
    ('5mile', MSG_UNIT), ('5 ', MSG_UNIT), ('5x', MSG_UNIT), ('5yards', MSG_UNIT),
    ('5.', MSG_UNIT), ('5kms', MSG_UNIT), ('5 metre', MSG_UNIT), ('5\tm', MSG_UNIT),
    ('0x', MSG_POS), ('-1x', MSG_POS), ('abc5x', MSG_INVALID),
]
# special strings that float() accepts (values recorded from the unmodified tree)
ERR += [('nan', None), ('inf', None), ('infinity', None)]

bad = 0


def outcome(f, *a):
    try:
        return ('ok', f(*a))
    except Exception as e:  # noqa
        return ('err', type(e).__name__, str(e))


def check(label, got, exp):
    global bad
    if got != exp:
        bad += 1
        print("MISMATCH", label, got, exp)


for s, metres in CASES:
    got = outcome(cv._get_distance, s)
    check(('_get_distance', s), got, ('ok', metres))
    if got[0] == 'ok':
        if type(got[1]) is not type(metres):
            bad += 1
            print("TYPE MISMATCH", s, type(got[1]), type(metres))

RECORDED_SPECIAL = {
    # float('nan')/'inf' are accepted by float(); recorded from unmodified tree
    'nan': ('ok', 'nan'), 'inf': ('ok', 'inf'), 'infinity': ('ok', 'inf'),
}
for s, msg in ERR:
    got = outcome(cv._get_distance, s)
    if msg is None:
        got = (got[0], repr(got[1])) + tuple(got[2:])
        check(('_get_distance', s), got, RECORDED_SPECIAL[s])
    else:
        check(('_get_distance', s), got, ('err', 'ValueError', msg))

# through the public kernels -------------------------------------------------
for s, metres in CASES:
    if metres > 400:
        continue
    for cx, cy in [(1, 1), (2, 1), (0.5, 3), (7.5, 2.5)]:
        k = circle_kernel(cx, cy, s)
        hw, hh = int(metres / cx), int(metres / cy)
        if k.shape != (2 * hh + 1, 2 * hw + 1) or k.dtype != np.float64:
            bad += 1
            print("MISMATCH circle shape", s, cx, cy, k.shape)
for s, msg in ERR:
    if msg is None:
        continue
    check(('circle', s), outcome(circle_kernel, 1, 1, s), ('err', 'ValueError', msg))
    check(('annulus outer', s), outcome(annulus_kernel, 1, 1, s, 1),
          ('err', 'ValueError', msg))
    check(('annulus inner', s), outcome(annulus_kernel, 1, 1, 5, s),
          ('err', 'ValueError', msg))

# numeric (non-string) radii go through str()
for r, exp in [(3, 3.0), (3.0, 3.0), (2.5, 2.5), (np.float32(1.5), 1.5),
               (np.int64(4), 4.0), (True, None), (1e-5, None), (1e20, None),
               (-2, None), (0, None), (None, None)]:
    got = outcome(circle_kernel, 1, 1, r)
    ind = outcome(cv._get_distance, str(r))
    if ind[0] == 'ok':
        ok = got[0] == 'ok' and got[1].shape == (2 * int(ind[1]) + 1,) * 2
    else:
        ok = got == ind
    if exp is not None:
        ok = ok and ind == ('ok', exp)
    else:
        ok = ok and ind[0] == 'err' and ind[1] == 'ValueError' and \
            ind[2] in (MSG_INVALID, MSG_NUM, MSG_POS, MSG_UNIT)
    if not ok:
        bad += 1
        print("MISMATCH numeric radius", r, got, ind)
check('1e-5', outcome(cv._get_distance, '1e-05'), ('err', 'ValueError', MSG_INVALID))
check('1e+20', outcome(cv._get_distance, '1e+20'), ('err', 'ValueError', MSG_INVALID))
check('True', outcome(cv._get_distance, 'True'), ('err', 'ValueError', MSG_NUM))
check('None', outcome(cv._get_distance, 'None'), ('err', 'ValueError', MSG_NUM))

# _to_meters / calc_cellsize -------------------------------------------------
h, w = 6, 9
for dtype in (np.float64, np.float32, np.int32):
    data = np.ones((h, w), dtype=dtype)
    for unit in [None] + sorted(FACT):
        for sx, sy in [(1.0, 1.0), (0.5, 2.0), (30.0, -30.0)]:
            attrs = {} if unit is None else {'unit': unit}
            r = xr.DataArray(data, dims=['y', 'x'], attrs=attrs)
            r['y'] = np.arange(h) * sy
            r['x'] = np.arange(w) * sx
            got = calc_cellsize(r)
            f = 1 if unit is None else FACT[unit]
            exp = (abs(sx) * f, np.abs(abs(sy) * f))
            if tuple(got) != exp or [type(g) for g in got] != [type(e) for e in exp]:
                bad += 1
                print("MISMATCH calc_cellsize", dtype, unit, sx, sy, got, exp)
            r2 = xr.DataArray(data, attrs=dict(attrs, res=(sx, sy)))
            got = calc_cellsize(r2)
            exp = (sx * f, np.abs(sy * f))
            if tuple(got) != exp:
                bad += 1
                print("MISMATCH calc_cellsize res", dtype, unit, sx, sy, got, exp)
r = xr.DataArray(np.ones((3, 3)), attrs={'unit': 'parsec', 'res': (1, 1)})
check('calc_cellsize bad unit', outcome(calc_cellsize, r)[:2], ('err', 'KeyError'))

print("mismatches:", bad)
sys.exit(1 if bad else 0)
