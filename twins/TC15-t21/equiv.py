"""Differential test for polygonize (property C15).

Runs xrspatial.experimental.polygonize on a deterministic corpus of rasters
(exhaustive tiny rasters over small alphabets, random larger ones, int and
float dtypes incl. NaN/inf, with/without mask, connectivity 4/8, with/without
affine transform, shapes 1xN, Nx1, 1x1, nested holes, spirals, diagonal
pinches) and

  1. checks the output independently: rasterising the polygons (even-odd
     point-in-polygon of every cell centre against exterior minus holes)
     reproduces the raster, every unmasked cell is in exactly one polygon,
     masked cells in none, shoelace area == cell count, rings closed,
     exteriors anticlockwise / holes clockwise, axis-parallel integer
     vertices, and the transformed output equals the affine image of the
     untransformed output bit-for-bit;
  2. compares a sha256 digest of every returned value / dtype / shape / byte
     against the digest recorded from the unmodified tree.

Exit code 0 if everything is identical, 1 otherwise.
"""
import hashlib
import itertools
import sys

import numpy as np
import xarray as xr

import xrspatial
from xrspatial.experimental import polygonize

EXPECTED_DIGEST = "cae9c995b54f997ad61ffab48d2cde75153198a5411eceefe5688450e88afa93"
EXPECTED_NCASES = 3926

TRANSFORM = np.array([0.5, 0.25, -3.0, -0.125, 2.0, 7.5])
INT_TRANSFORM = [2, 0, -3, 1, -1, 5]


def shoelace(ring):
    x = ring[:, 0]
    y = ring[:, 1]
    return 0.5 * float(np.sum(x[:-1] * y[1:] - x[1:] * y[:-1]))


def inside(ring, cx, cy):
    # Even-odd rule, vectorised over cell centres; ring edges are axis
    # parallel with integer coords and centres are at half integers, so only
    # vertical edges can be crossed by the ray going in +x direction.
    res = np.zeros(cx.shape, dtype=bool)
    for k in range(len(ring) - 1):
        x0, y0 = ring[k]
        x1, y1 = ring[k + 1]
        if x0 != x1:
            continue
        lo, hi = (y0, y1) if y0 < y1 else (y1, y0)
        res ^= (cy > lo) & (cy < hi) & (cx < x0)
    return res


def check_lossless(values, mask, connectivity, column, polygons):
    ny, nx = values.shape
    cy, cx = np.meshgrid(np.arange(ny) + 0.5, np.arange(nx) + 0.5,
                         indexing="ij")
    count = np.zeros((ny, nx), dtype=int)
    assert len(column) == len(polygons)
    for val, rings in zip(column, polygons):
        area = 0.0
        member = None
        for r, ring in enumerate(rings):
            assert ring.dtype == np.float64 and ring.ndim == 2 \
                and ring.shape[1] == 2 and len(ring) >= 5
            assert np.array_equal(ring[0], ring[-1])
            assert np.array_equal(ring, np.round(ring))
            d = np.diff(ring, axis=0)
            assert np.all((d[:, 0] == 0) ^ (d[:, 1] == 0))
            a = shoelace(ring)
            if r == 0:
                assert a > 0, "exterior must be anticlockwise"
                member = inside(ring, cx, cy)
            else:
                assert a < 0, "hole must be clockwise"
                member &= ~inside(ring, cx, cy)
            area += a
        assert area == member.sum(), (area, member.sum())
        count += member
        cells = values[member]
        if mask is not None:
            assert np.all(mask[member] != 0)
        # every cell of the polygon is "close" to the polygon's value
        if np.issubdtype(values.dtype, np.integer):
            assert np.all(cells == val)
        elif np.any(np.isnan(cells)):
            assert cells.size == 1  # NaN is never close to anything
        elif not np.any(np.isinf(cells)):
            # (The library compares neighbours with an isclose-like test whose
            # reference is the later cell, so an inf cell is "close" to all
            # its finite W/S neighbours and can even bridge regions of
            # different values - existing behaviour, covered by the digest
            # comparison only.)
            ok = np.abs(cells - val) <= 1e-8 + 4e-5 * np.maximum(
                np.abs(cells), np.abs(val))
            assert np.all(ok)
    expected = np.ones((ny, nx), dtype=int)
    if mask is not None:
        expected = (mask != 0).astype(int)
    assert np.array_equal(count, expected), (count, expected)


def spiral(n):
    a = np.zeros((n, n), dtype=np.int64)
    top, left, bottom, right = 0, 0, n - 1, n - 1
    i, j, di, dj = 0, 0, 0, 1
    a[:] = 0
    for _ in range(n * n):
        a[i, j] = 1
        ni, nj = i + di, j + dj
        ni2, nj2 = ni + di, nj + dj
        if not (0 <= ni < n and 0 <= nj < n) or a[ni, nj] == 1 or \
                (0 <= ni2 < n and 0 <= nj2 < n and a[ni2, nj2] == 1):
            di, dj = dj, -di
            ni, nj = i + di, j + dj
            ni2, nj2 = ni + di, nj + dj
            if not (0 <= ni < n and 0 <= nj < n) or a[ni, nj] == 1 or \
                    (0 <= ni2 < n and 0 <= nj2 < n and a[ni2, nj2] == 1):
                break
        i, j = ni, nj
    return a


def nested(n):
    a = np.zeros((n, n), dtype=np.int64)
    for k in range((n + 1) // 2):
        a[k:n - k, k:n - k] = k % 3
    return a


def corpus():
    cases = []  # (values, mask)
    # exhaustive tiny rasters
    for shape, alphabet in [((1, 1), 2), ((1, 2), 2), ((2, 1), 2),
                            ((1, 4), 3), ((4, 1), 3), ((2, 2), 3),
                            ((2, 3), 2), ((3, 2), 2), ((3, 3), 2)]:
        n = shape[0] * shape[1]
        for combo in itertools.product(range(alphabet), repeat=n):
            v = np.array(combo, dtype=np.int64).reshape(shape)
            cases.append((v, None))
            if alphabet == 2 or n <= 4:
                # use last symbol as "masked out"
                m = v != alphabet - 1
                cases.append((v.astype(np.int32), m))
    rng = np.random.default_rng(20240615)
    shapes = [(1, 7), (9, 1), (5, 5), (4, 9), (8, 3), (12, 11), (17, 23),
              (1, 1), (2, 2), (30, 1), (1, 30)]
    dtypes = [np.int8, np.uint8, np.int32, np.int64, np.uint16,
              np.float32, np.float64]
    for shape in shapes:
        for k, dtype in enumerate(dtypes):
            v = rng.integers(0, 3, size=shape).astype(dtype)
            if np.issubdtype(dtype, np.floating):
                v = v * dtype(1.5)
                if v.size > 3:
                    flat = v.reshape(-1)
                    flat[rng.integers(0, v.size, size=2)] = np.nan
                    flat[rng.integers(0, v.size)] = np.inf
                    # near-equal values within isclose tolerance
                    flat[rng.integers(0, v.size)] = dtype(1.5 * (1 + 2e-6))
            cases.append((v, None))
            mk = [rng.random(shape) < 0.7,
                  (rng.random(shape) < 0.6).astype(np.uint8),
                  (rng.random(shape) < 0.8).astype(np.float64)][k % 3]
            cases.append((v, mk))
    # structured: spirals, nested holes, diagonal pinches, checkerboards
    for n in (5, 8, 13):
        cases.append((spiral(n), None))
        cases.append((spiral(n).astype(np.float64), spiral(n).T != 0))
        cases.append((nested(n), None))
        cases.append((nested(n).astype(np.float32), nested(n) != 1))
    cb = (np.add.outer(np.arange(7), np.arange(6)) % 2).astype(np.int64)
    cases.append((cb, None))
    cases.append((cb, cb.astype(bool)))
    pinch = np.array([[1, 1, 0, 0], [1, 1, 0, 0], [0, 0, 1, 1], [0, 0, 1, 1],
                      [1, 1, 0, 0]], dtype=np.int64)
    cases.append((pinch, None))
    cases.append((pinch[::-1].copy(), None))
    cases.append((pinch.T.copy().astype(np.float64), None))
    cases.append((np.zeros((6, 6), dtype=np.int64), None))
    cases.append((np.zeros((6, 6), dtype=np.int64),
                  np.zeros((6, 6), dtype=bool)))
    # non-contiguous input views
    big = rng.integers(0, 2, size=(10, 14)).astype(np.int64)
    cases.append((big[::2, ::2], None))
    cases.append((big[::-1, 1::3], big[::-1, 1::3] > -1))
    cases.append((big[:, 3:4], None))            # Nx1 view
    cases.append((big[:, 3:4], big[:, 5:6] > 0))  # Nx1 view + mask view
    return cases


def feed(h, column, polygons):
    h.update(repr(len(column)).encode())
    for val in column:
        h.update(type(val).__name__.encode())
        h.update(np.asarray(val).dtype.str.encode())
        h.update(np.asarray(val).tobytes())
    for rings in polygons:
        h.update(b"P%d" % len(rings))
        for ring in rings:
            h.update(ring.dtype.str.encode())
            h.update(repr(ring.shape).encode())
            h.update(np.ascontiguousarray(ring).tobytes())


def main():
    print("xrspatial from", xrspatial.__file__)
    h = hashlib.sha256()
    ncases = 0
    failures = 0
    for values, mask in corpus():
        raster = xr.DataArray(values)
        mask_da = None if mask is None else xr.DataArray(mask)
        values_before = values.copy()
        mask_before = None if mask is None else mask.copy()
        for connectivity in (4, 8):
            try:
                column, polygons = polygonize(
                    raster, mask=mask_da, connectivity=connectivity)
                check_lossless(values, mask, connectivity, column, polygons)
                tcolumn, tpolygons = polygonize(
                    raster, mask=mask_da, connectivity=connectivity,
                    transform=TRANSFORM)
                tlist, tpolygons_l = polygonize(
                    raster, mask_da, connectivity, list(TRANSFORM), "x",
                    "numpy")
                icolumn, ipolygons = polygonize(
                    raster, mask_da, connectivity, INT_TRANSFORM)
                fcolumn, fpolygons = polygonize(
                    raster, mask_da, connectivity,
                    TRANSFORM.astype(np.float32)[::1])
                # transform applied to every vertex, bit for bit
                assert len(tpolygons) == len(polygons)
                for rings, trings, trings_l in zip(
                        polygons, tpolygons, tpolygons_l):
                    assert len(rings) == len(trings) == len(trings_l)
                    for ring, tring, tring_l in zip(rings, trings, trings_l):
                        t = TRANSFORM
                        ex = t[0]*ring[:, 0] + t[1]*ring[:, 1] + t[2]
                        ey = t[3]*ring[:, 0] + t[4]*ring[:, 1] + t[5]
                        assert np.array_equal(tring[:, 0], ex)
                        assert np.array_equal(tring[:, 1], ey)
                        assert tring.tobytes() == tring_l.tobytes()
                for rings, irings in zip(polygons, ipolygons):
                    for ring, iring in zip(rings, irings):
                        t = INT_TRANSFORM
                        assert iring.dtype == np.float64
                        assert np.array_equal(
                            iring[:, 0],
                            t[0]*ring[:, 0] + t[1]*ring[:, 1] + t[2])
                        assert np.array_equal(
                            iring[:, 1],
                            t[3]*ring[:, 0] + t[4]*ring[:, 1] + t[5])
                # inputs not modified
                assert np.array_equal(values, values_before, equal_nan=True)
                if mask is not None:
                    assert np.array_equal(mask, mask_before)
            except AssertionError as e:
                failures += 1
                print("FAIL independent check", values.shape, values.dtype,
                      connectivity, repr(e)[:200])
                continue
            feed(h, column, polygons)
            feed(h, tcolumn, tpolygons)
            feed(h, icolumn, ipolygons)
            feed(h, fcolumn, fpolygons)
            ncases += 1

    # error behaviour is part of the public contract
    for kwargs, exc in [
        (dict(raster=xr.DataArray(np.zeros((2, 2, 2)))), ValueError),
        (dict(raster=xr.DataArray(np.zeros((2, 2))), connectivity=5),
         ValueError),
        (dict(raster=xr.DataArray(np.zeros((2, 2))), transform=[1, 2, 3]),
         ValueError),
        (dict(raster=xr.DataArray(np.zeros((2, 2))),
              mask=xr.DataArray(np.ones((2, 3)))), ValueError),
        (dict(raster=xr.DataArray(np.zeros((2, 2))), return_type="nope"),
         ValueError),
    ]:
        try:
            polygonize(**kwargs)
        except exc as e:
            h.update(type(e).__name__.encode() + str(e).encode())
        else:
            failures += 1
            print("FAIL: expected", exc, "for", kwargs)
    try:
        import dask.array as da
        try:
            polygonize(xr.DataArray(da.zeros((3, 3), chunks=2)))
        except TypeError as e:
            h.update(b"dask TypeError")
        else:
            failures += 1
            print("FAIL: dask input should raise TypeError")
    except ImportError:
        h.update(b"dask TypeError")

    digest = h.hexdigest()
    print("cases:", ncases, "digest:", digest)
    if failures:
        print("FAILURES:", failures)
        return 1
    if ncases != EXPECTED_NCASES or digest != EXPECTED_DIGEST:
        print("MISMATCH: expected", EXPECTED_NCASES, EXPECTED_DIGEST)
        return 1
    print("OK: identical to recorded baseline")
    return 0


if __name__ == "__main__":
    sys.exit(main())
