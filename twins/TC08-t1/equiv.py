#!/usr/bin/env python
"""Differential test for refactoring TC08 (property C08).

Runs the affected public functions (see FUNCS) on a deterministic family of
inputs (several dtypes, NaN / inf cells, ties, flat rasters, odd shapes,
res-attr / coordinate cell sizes with x != y, numpy and dask backends) and
compares

  1. bit-for-bit (sha256 of dtype + shape + NaN mask + payload) against the
     digests recorded from the UNMODIFIED tree (EXPECTED below), and
  2. numerically against an independent pure-numpy float64 reference of the
     documented finite-difference formulas.

Usage:  cd <worktree> && PYTHONPATH=<worktree> python equiv.py
        (python equiv.py --record  prints a fresh EXPECTED dict)
Exit status 0 iff everything is identical.
"""
import hashlib
import sys
import warnings

import dask.array as da
import numpy as np
import xarray as xr

import xrspatial
from xrspatial import aspect, curvature, hillshade, slope

warnings.filterwarnings('ignore')
np.seterr(all='ignore')

FUNCS = ('slope',)  # public functions affected by this refactoring

IMPL = {'slope': slope, 'aspect': aspect, 'curvature': curvature,
        'hillshade': hillshade}


# --------------------------------------------------------------------------
# deterministic inputs
# --------------------------------------------------------------------------
SHAPES = [(3, 3), (4, 5), (7, 11), (1, 5), (5, 1), (2, 2), (13, 8), (20, 31)]
DTYPES = ['float32', 'float64', 'int32', 'int64', 'uint8', 'int16']


def make_arrays():
    rng = np.random.default_rng(20260802)
    out = []
    for shape in SHAPES:
        for dt in DTYPES:
            if dt.startswith('float'):
                a = (rng.standard_normal(shape) * 50).astype(dt)
            elif dt == 'uint8':
                a = rng.integers(0, 4, shape).astype(dt)      # many ties
            else:
                a = rng.integers(-1000, 1000, shape).astype(dt)
            out.append(('rand-%s-%dx%d' % ((dt,) + shape), a))
    # NaN / inf cells
    for shape in [(4, 5), (7, 11), (13, 8)]:
        for dt in ['float32', 'float64']:
            a = (rng.standard_normal(shape) * 10).astype(dt)
            m = rng.random(shape) < 0.15
            a[m] = np.nan
            out.append(('nan-%s-%dx%d' % ((dt,) + shape), a))
            b = (rng.standard_normal(shape) * 10).astype(dt)
            b[rng.random(shape) < 0.05] = np.inf
            b[rng.random(shape) < 0.05] = -np.inf
            out.append(('inf-%s-%dx%d' % ((dt,) + shape), b))
    # flat, ramps, ties, huge offsets
    out.append(('flat0', np.zeros((6, 7), 'float64')))
    out.append(('flat5i', np.full((6, 7), 5, 'int32')))
    out.append(('flatbig', np.full((5, 5), 1e7, 'float32')))
    yy, xx = np.mgrid[0:9, 0:10]
    out.append(('ramp-x', xx.astype('float64')))
    out.append(('ramp-y', yy.astype('float32')))
    out.append(('ramp-xy', (3 * xx - 2 * yy).astype('int64')))
    out.append(('ramp-neg', (-xx - yy).astype('float32')))
    out.append(('saddle', ((xx - 4) ** 2 - (yy - 4) ** 2).astype('float64')))
    out.append(('steps', ((xx // 3) * 10 + (yy // 2)).astype('int16')))
    out.append(('offset', (rng.standard_normal((8, 9)) + 1e6).astype('float64')))
    out.append(('allnan', np.full((5, 6), np.nan, 'float32')))
    return out


def cell_variants(arr):
    """name, DataArray-factory-kwargs for the different cell size sources."""
    h, w = arr.shape
    yield 'res1', dict(attrs={'res': 1})
    yield 'res-int-xy', dict(attrs={'res': (2, 3)})
    yield 'res-float-xy', dict(attrs={'res': (0.5, 30.0)})
    yield 'res-list', dict(attrs={'res': [10.0, 2.5]})
    yield 'coords', dict(dims=['y', 'x'],
                         coords={'y': np.linspace(100.0, 100.0 - 7.5 * (h - 1), h),
                                 'x': np.linspace(-3.0, -3.0 + 0.25 * (w - 1), w)})
    yield 'nocoords', dict()


CHUNKS = [(3, 3), (2, 7), (5, 4), (4, 2)]
ANGLES = [(225, 25), (0, 0), (90, 90), (315.5, 45.25), (-30, 10), (360, 60), (137, 1)]


def digest(res):
    a = np.asarray(res)
    h = hashlib.sha256()
    h.update(str(a.dtype).encode())
    h.update(str(a.shape).encode())
    if a.dtype.kind == 'f':
        m = np.isnan(a)
        h.update(np.ascontiguousarray(m).tobytes())
        a = np.where(m, a.dtype.type(0), a)
    h.update(np.ascontiguousarray(a).tobytes())
    return h.hexdigest()[:20]


def run(fn, agg, **kw):
    try:
        r = fn(agg, **kw)
        data = r.data
        kind = type(data).__module__.split('.')[0]
        if isinstance(data, da.Array):
            data = data.compute()
        return 'ok', kind + ':' + str(r.name) + ':' + str(r.dims) + ':' + \
            str(sorted(r.attrs)) + ':' + digest(data), np.asarray(data)
    except Exception as e:  # recorded, must be the same exception type
        return 'exc', 'EXC:' + type(e).__name__, None


# --------------------------------------------------------------------------
# independent float64 references of the documented formulas
# --------------------------------------------------------------------------
def _resolution(kw, shape):
    if 'attrs' in kw:
        r = kw['attrs']['res']
        return (r, r) if np.isscalar(r) else (r[0], r[1])
    if 'coords' not in kw:
        return 1.0, 1.0   # default integer index coordinates
    c = kw['coords']
    h, w = shape
    return (abs(c['x'][-1] - c['x'][0]) / (w - 1), abs(c['y'][-1] - c['y'][0]) / (h - 1))


def _win(z):
    """the eight neighbours (row above = n*, row below = s*) of interior."""
    return (z[:-2, :-2], z[:-2, 1:-1], z[:-2, 2:],
            z[1:-1, :-2], z[1:-1, 1:-1], z[1:-1, 2:],
            z[2:, :-2], z[2:, 1:-1], z[2:, 2:])


def ref_slope(arr, cx, cy):
    z = arr.astype('float32').astype('float64')
    out = np.full(z.shape, np.nan)
    if min(z.shape) < 3:
        return out
    nw, n, ne, w, _, e, sw, s, se = _win(z)
    dzdx = ((ne + 2 * e + se) - (nw + 2 * w + sw)) / (8 * cx)
    dzdy = ((nw + 2 * n + ne) - (sw + 2 * s + se)) / (8 * cy)
    out[1:-1, 1:-1] = np.degrees(np.arctan(np.sqrt(dzdx ** 2 + dzdy ** 2)))
    return out


def ref_aspect(arr):
    z = arr.astype('float32').astype('float64')
    out = np.full(z.shape, np.nan)
    if min(z.shape) < 3:
        return out
    nw, n, ne, w, _, e, sw, s, se = _win(z)
    dzdx = ((ne + 2 * e + se) - (nw + 2 * w + sw)) / 8
    dzdy = ((sw + 2 * s + se) - (nw + 2 * n + ne)) / 8
    ang = np.degrees(np.arctan2(dzdy, -dzdx))
    comp = np.mod(90.0 - ang, 360.0)
    comp = np.where((dzdx == 0) & (dzdy == 0), -1.0, comp)
    out[1:-1, 1:-1] = comp
    return out


def ref_curvature(arr, cx, cy):
    z = arr.astype('float32')  # neighbour sums are formed in float32
    out = np.full(z.shape, np.nan)
    if min(z.shape) < 3:
        return out
    cs = (cx + cy) / 2
    _, n, _, w, c, e, _, s, _ = _win(z)
    ns = (n + s).astype('float64')
    we = (w + e).astype('float64')
    c = c.astype('float64')
    out[1:-1, 1:-1] = -200 * ((ns / 2 - c) + (we / 2 - c)) / cs ** 2
    return out


def ref_hillshade(arr, az, alt):
    z = arr.astype('float32').astype('float64')
    out = np.full(z.shape, np.nan)
    _, n, _, w, _, e, _, s, _ = _win(z)
    gy = (s - n) / 2      # d/d(row)
    gx = (e - w) / 2      # d/d(col)
    slp = np.pi / 2 - np.arctan(np.sqrt(gx * gx + gy * gy))
    asp = np.arctan2(-gy, gx)
    azr = np.radians(360.0 - az)
    altr = np.radians(alt)
    sh = np.sin(altr) * np.sin(slp) + np.cos(altr) * np.cos(slp) * np.cos(azr - np.pi / 2 - asp)
    out[1:-1, 1:-1] = (sh + 1) / 2
    return out


def close(fname, got, ref):
    got = np.asarray(got, 'float64')
    if got.shape != ref.shape:
        return False
    if not np.array_equal(np.isnan(got), np.isnan(ref)):
        return False
    m = ~np.isnan(ref)
    g, r = got[m], ref[m]
    if fname == 'aspect':
        flat = r == -1
        if not np.array_equal(flat, g == -1):
            return False
        d = np.abs(g[~flat] - r[~flat])
        d = np.minimum(d, 360.0 - d)
        return bool(np.all(d < 1e-2))
    if fname == 'hillshade':
        return bool(np.all(np.abs(g - r) < 1e-4))
    return bool(np.allclose(g, r, rtol=1e-4, atol=1e-3))


# --------------------------------------------------------------------------
def collect():
    results = {}
    ref_failures = []
    arrays = make_arrays()
    for fname in FUNCS:
        fn = IMPL[fname]
        for aname, arr in arrays:
            for vname, kw in cell_variants(arr):
                if fname in ('aspect', 'hillshade') and vname not in ('res1', 'coords', 'nocoords'):
                    continue  # cell size is not an input of these two
                kwsets = [dict()]
                if fname == 'hillshade':
                    kwsets = [dict(azimuth=a, angle_altitude=b) for a, b in ANGLES]
                    kwsets.append(dict())
                for ki, fkw in enumerate(kwsets):
                    key = '%s|%s|%s|%d' % (fname, aname, vname, ki)
                    st, sig, data = run(fn, xr.DataArray(arr.copy(), **kw), **fkw)
                    results[key + '|np'] = sig
                    if st == 'ok':
                        if fname == 'slope':
                            ref = ref_slope(arr, *_resolution(kw, arr.shape))
                        elif fname == 'curvature':
                            ref = ref_curvature(arr, *_resolution(kw, arr.shape))
                        elif fname == 'aspect':
                            ref = ref_aspect(arr)
                        else:
                            ref = ref_hillshade(arr, fkw.get('azimuth', 225),
                                                fkw.get('angle_altitude', 25))
                        if not close(fname, data, ref):
                            ref_failures.append(key)
                    # dask backend (skip some combos to keep the run short)
                    if min(arr.shape) < 2 or (fname == 'hillshade' and ki not in (0, 3, 7)):
                        continue
                    for ci, ch in enumerate(CHUNKS):
                        if (ci + len(aname) + ki) % 2:
                            continue
                        darr = da.from_array(arr.copy(), chunks=ch)
                        st, sig, _ = run(fn, xr.DataArray(darr, **kw), **fkw)
                        results[key + '|dask%d' % ci] = sig
        # custom name / attrs are passed through
        agg = xr.DataArray(np.arange(30, dtype='float64').reshape(5, 6) ** 1.5,
                           attrs={'res': (2.0, 4.0), 'foo': 'bar'}, name='elev')
        results[fname + '|named'] = run(fn, agg, name='zzz')[1]
    return results, ref_failures


# digests recorded from the unmodified tree
EXPECTED = {'slope|allnan|coords|0|dask0': "dask:slope:('y', 'x'):[]:1a00163082ede47243ca",
 'slope|allnan|coords|0|dask2': "dask:slope:('y', 'x'):[]:1a00163082ede47243ca",
 'slope|allnan|coords|0|np': "numpy:slope:('y', 'x'):[]:1a00163082ede47243ca",
 'slope|allnan|nocoords|0|dask0': "dask:slope:('dim_0', 'dim_1'):[]:1a00163082ede47243ca",
 'slope|allnan|nocoords|0|dask2': "dask:slope:('dim_0', 'dim_1'):[]:1a00163082ede47243ca",
 'slope|allnan|nocoords|0|np': "numpy:slope:('dim_0', 'dim_1'):[]:1a00163082ede47243ca",
 'slope|allnan|res-float-xy|0|dask0': "dask:slope:('dim_0', 'dim_1'):['res']:1a00163082ede47243ca",
 'slope|allnan|res-float-xy|0|dask2': "dask:slope:('dim_0', 'dim_1'):['res']:1a00163082ede47243ca",
 'slope|allnan|res-float-xy|0|np': "numpy:slope:('dim_0', 'dim_1'):['res']:1a00163082ede47243ca",
 'slope|allnan|res-int-xy|0|dask0': "dask:slope:('dim_0', 'dim_1'):['res']:1a00163082ede47243ca",
 'slope|allnan|res-int-xy|0|dask2': "dask:slope:('dim_0', 'dim_1'):['res']:1a00163082ede47243ca",
 'slope|allnan|res-int-xy|0|np': "numpy:slope:('dim_0', 'dim_1'):['res']:1a00163082ede47243ca",
 'slope|allnan|res-list|0|dask0': "dask:slope:('dim_0', 'dim_1'):['res']:1a00163082ede47243ca",
 'slope|allnan|res-list|0|dask2': "dask:slope:('dim_0', 'dim_1'):['res']:1a00163082ede47243ca",
 'slope|allnan|res-list|0|np': "numpy:slope:('dim_0', 'dim_1'):['res']:1a00163082ede47243ca",
 'slope|allnan|res1|0|dask0': "dask:slope:('dim_0', 'dim_1'):['res']:1a00163082ede47243ca",
 'slope|allnan|res1|0|dask2': "dask:slope:('dim_0', 'dim_1'):['res']:1a00163082ede47243ca",
 'slope|allnan|res1|0|np': "numpy:slope:('dim_0', 'dim_1'):['res']:1a00163082ede47243ca",
 'slope|flat0|coords|0|dask1': "dask:slope:('y', 'x'):[]:ad5d0df0eab288451e3d",
 'slope|flat0|coords|0|dask3': "dask:slope:('y', 'x'):[]:ad5d0df0eab288451e3d",
 'slope|flat0|coords|0|np': "numpy:slope:('y', 'x'):[]:ad5d0df0eab288451e3d",
 'slope|flat0|nocoords|0|dask1': "dask:slope:('dim_0', 'dim_1'):[]:ad5d0df0eab288451e3d",
 'slope|flat0|nocoords|0|dask3': "dask:slope:('dim_0', 'dim_1'):[]:ad5d0df0eab288451e3d",
 'slope|flat0|nocoords|0|np': "numpy:slope:('dim_0', 'dim_1'):[]:ad5d0df0eab288451e3d",
 'slope|flat0|res-float-xy|0|dask1': "dask:slope:('dim_0', 'dim_1'):['res']:ad5d0df0eab288451e3d",
 'slope|flat0|res-float-xy|0|dask3': "dask:slope:('dim_0', 'dim_1'):['res']:ad5d0df0eab288451e3d",
 'slope|flat0|res-float-xy|0|np': "numpy:slope:('dim_0', 'dim_1'):['res']:ad5d0df0eab288451e3d",
 'slope|flat0|res-int-xy|0|dask1': "dask:slope:('dim_0', 'dim_1'):['res']:ad5d0df0eab288451e3d",
 'slope|flat0|res-int-xy|0|dask3': "dask:slope:('dim_0', 'dim_1'):['res']:ad5d0df0eab288451e3d",
 'slope|flat0|res-int-xy|0|np': "numpy:slope:('dim_0', 'dim_1'):['res']:ad5d0df0eab288451e3d",
 'slope|flat0|res-list|0|dask1': "dask:slope:('dim_0', 'dim_1'):['res']:ad5d0df0eab288451e3d",
 'slope|flat0|res-list|0|dask3': "dask:slope:('dim_0', 'dim_1'):['res']:ad5d0df0eab288451e3d",
 'slope|flat0|res-list|0|np': "numpy:slope:('dim_0', 'dim_1'):['res']:ad5d0df0eab288451e3d",
 'slope|flat0|res1|0|dask1': "dask:slope:('dim_0', 'dim_1'):['res']:ad5d0df0eab288451e3d",
 'slope|flat0|res1|0|dask3': "dask:slope:('dim_0', 'dim_1'):['res']:ad5d0df0eab288451e3d",
 'slope|flat0|res1|0|np': "numpy:slope:('dim_0', 'dim_1'):['res']:ad5d0df0eab288451e3d",
 'slope|flat5i|coords|0|dask0': "dask:slope:('y', 'x'):[]:ad5d0df0eab288451e3d",
 'slope|flat5i|coords|0|dask2': "dask:slope:('y', 'x'):[]:ad5d0df0eab288451e3d",
 'slope|flat5i|coords|0|np': "numpy:slope:('y', 'x'):[]:ad5d0df0eab288451e3d",
 'slope|flat5i|nocoords|0|dask0': "dask:slope:('dim_0', 'dim_1'):[]:ad5d0df0eab288451e3d",
 'slope|flat5i|nocoords|0|dask2': "dask:slope:('dim_0', 'dim_1'):[]:ad5d0df0eab288451e3d",
 'slope|flat5i|nocoords|0|np': "numpy:slope:('dim_0', 'dim_1'):[]:ad5d0df0eab288451e3d",
 'slope|flat5i|res-float-xy|0|dask0': "dask:slope:('dim_0', 'dim_1'):['res']:ad5d0df0eab288451e3d",
 'slope|flat5i|res-float-xy|0|dask2': "dask:slope:('dim_0', 'dim_1'):['res']:ad5d0df0eab288451e3d",
 'slope|flat5i|res-float-xy|0|np': "numpy:slope:('dim_0', 'dim_1'):['res']:ad5d0df0eab288451e3d",
 'slope|flat5i|res-int-xy|0|dask0': "dask:slope:('dim_0', 'dim_1'):['res']:ad5d0df0eab288451e3d",
 'slope|flat5i|res-int-xy|0|dask2': "dask:slope:('dim_0', 'dim_1'):['res']:ad5d0df0eab288451e3d",
 'slope|flat5i|res-int-xy|0|np': "numpy:slope:('dim_0', 'dim_1'):['res']:ad5d0df0eab288451e3d",
 'slope|flat5i|res-list|0|dask0': "dask:slope:('dim_0', 'dim_1'):['res']:ad5d0df0eab288451e3d",
 'slope|flat5i|res-list|0|dask2': "dask:slope:('dim_0', 'dim_1'):['res']:ad5d0df0eab288451e3d",
 'slope|flat5i|res-list|0|np': "numpy:slope:('dim_0', 'dim_1'):['res']:ad5d0df0eab288451e3d",
 'slope|flat5i|res1|0|dask0': "dask:slope:('dim_0', 'dim_1'):['res']:ad5d0df0eab288451e3d",
 'slope|flat5i|res1|0|dask2': "dask:slope:('dim_0', 'dim_1'):['res']:ad5d0df0eab288451e3d",
 'slope|flat5i|res1|0|np': "numpy:slope:('dim_0', 'dim_1'):['res']:ad5d0df0eab288451e3d",
 'slope|flatbig|coords|0|dask1': "dask:slope:('y', 'x'):[]:35499364624e45eb4cf7",
 'slope|flatbig|coords|0|dask3': "dask:slope:('y', 'x'):[]:35499364624e45eb4cf7",
 'slope|flatbig|coords|0|np': "numpy:slope:('y', 'x'):[]:35499364624e45eb4cf7",
 'slope|flatbig|nocoords|0|dask1': "dask:slope:('dim_0', 'dim_1'):[]:35499364624e45eb4cf7",
 'slope|flatbig|nocoords|0|dask3': "dask:slope:('dim_0', 'dim_1'):[]:35499364624e45eb4cf7",
 'slope|flatbig|nocoords|0|np': "numpy:slope:('dim_0', 'dim_1'):[]:35499364624e45eb4cf7",
 'slope|flatbig|res-float-xy|0|dask1': "dask:slope:('dim_0', 'dim_1'):['res']:35499364624e45eb4cf7",
 'slope|flatbig|res-float-xy|0|dask3': "dask:slope:('dim_0', 'dim_1'):['res']:35499364624e45eb4cf7",
 'slope|flatbig|res-float-xy|0|np': "numpy:slope:('dim_0', 'dim_1'):['res']:35499364624e45eb4cf7",
 'slope|flatbig|res-int-xy|0|dask1': "dask:slope:('dim_0', 'dim_1'):['res']:35499364624e45eb4cf7",
 'slope|flatbig|res-int-xy|0|dask3': "dask:slope:('dim_0', 'dim_1'):['res']:35499364624e45eb4cf7",
 'slope|flatbig|res-int-xy|0|np': "numpy:slope:('dim_0', 'dim_1'):['res']:35499364624e45eb4cf7",
 'slope|flatbig|res-list|0|dask1': "dask:slope:('dim_0', 'dim_1'):['res']:35499364624e45eb4cf7",
 'slope|flatbig|res-list|0|dask3': "dask:slope:('dim_0', 'dim_1'):['res']:35499364624e45eb4cf7",
 'slope|flatbig|res-list|0|np': "numpy:slope:('dim_0', 'dim_1'):['res']:35499364624e45eb4cf7",
 'slope|flatbig|res1|0|dask1': "dask:slope:('dim_0', 'dim_1'):['res']:35499364624e45eb4cf7",
 'slope|flatbig|res1|0|dask3': "dask:slope:('dim_0', 'dim_1'):['res']:35499364624e45eb4cf7",
 'slope|flatbig|res1|0|np': "numpy:slope:('dim_0', 'dim_1'):['res']:35499364624e45eb4cf7",
 'slope|inf-float32-13x8|coords|0|dask0': "dask:slope:('y', 'x'):[]:a8b43c7fb68f9b265477",
 'slope|inf-float32-13x8|coords|0|dask2': "dask:slope:('y', 'x'):[]:a8b43c7fb68f9b265477",
 'slope|inf-float32-13x8|coords|0|np': "numpy:slope:('y', 'x'):[]:a8b43c7fb68f9b265477",
 'slope|inf-float32-13x8|nocoords|0|dask0': "dask:slope:('dim_0', 'dim_1'):[]:4fd4186f70c2bef063a8",
 'slope|inf-float32-13x8|nocoords|0|dask2': "dask:slope:('dim_0', 'dim_1'):[]:4fd4186f70c2bef063a8",
 'slope|inf-float32-13x8|nocoords|0|np': "numpy:slope:('dim_0', 'dim_1'):[]:4fd4186f70c2bef063a8",
 'slope|inf-float32-13x8|res-float-xy|0|dask0': "dask:slope:('dim_0', 'dim_1'):['res']:b9936884dc4dbf1d163c",
 'slope|inf-float32-13x8|res-float-xy|0|dask2': "dask:slope:('dim_0', 'dim_1'):['res']:b9936884dc4dbf1d163c",
 'slope|inf-float32-13x8|res-float-xy|0|np': "numpy:slope:('dim_0', 'dim_1'):['res']:b9936884dc4dbf1d163c",
 'slope|inf-float32-13x8|res-int-xy|0|dask0': "dask:slope:('dim_0', 'dim_1'):['res']:c1083c229f8bd673e071",
 'slope|inf-float32-13x8|res-int-xy|0|dask2': "dask:slope:('dim_0', 'dim_1'):['res']:c1083c229f8bd673e071",
 'slope|inf-float32-13x8|res-int-xy|0|np': "numpy:slope:('dim_0', 'dim_1'):['res']:c1083c229f8bd673e071",
 'slope|inf-float32-13x8|res-list|0|dask0': "dask:slope:('dim_0', 'dim_1'):['res']:f3d51ee294d349b42859",
 'slope|inf-float32-13x8|res-list|0|dask2': "dask:slope:('dim_0', 'dim_1'):['res']:f3d51ee294d349b42859",
 'slope|inf-float32-13x8|res-list|0|np': "numpy:slope:('dim_0', 'dim_1'):['res']:f3d51ee294d349b42859",
 'slope|inf-float32-13x8|res1|0|dask0': "dask:slope:('dim_0', 'dim_1'):['res']:4fd4186f70c2bef063a8",
 'slope|inf-float32-13x8|res1|0|dask2': "dask:slope:('dim_0', 'dim_1'):['res']:4fd4186f70c2bef063a8",
 'slope|inf-float32-13x8|res1|0|np': "numpy:slope:('dim_0', 'dim_1'):['res']:4fd4186f70c2bef063a8",
 'slope|inf-float32-4x5|coords|0|dask1': "dask:slope:('y', 'x'):[]:83f975e7b29d6f35e0a6",
 'slope|inf-float32-4x5|coords|0|dask3': "dask:slope:('y', 'x'):[]:83f975e7b29d6f35e0a6",
 'slope|inf-float32-4x5|coords|0|np': "numpy:slope:('y', 'x'):[]:83f975e7b29d6f35e0a6",
 'slope|inf-float32-4x5|nocoords|0|dask1': "dask:slope:('dim_0', 'dim_1'):[]:f935f8a7e91ebcca38af",
 'slope|inf-float32-4x5|nocoords|0|dask3': "dask:slope:('dim_0', 'dim_1'):[]:f935f8a7e91ebcca38af",
 'slope|inf-float32-4x5|nocoords|0|np': "numpy:slope:('dim_0', 'dim_1'):[]:f935f8a7e91ebcca38af",
 'slope|inf-float32-4x5|res-float-xy|0|dask1': "dask:slope:('dim_0', 'dim_1'):['res']:046940b3c69b8f83ceec",
 'slope|inf-float32-4x5|res-float-xy|0|dask3': "dask:slope:('dim_0', 'dim_1'):['res']:046940b3c69b8f83ceec",
 'slope|inf-float32-4x5|res-float-xy|0|np': "numpy:slope:('dim_0', 'dim_1'):['res']:046940b3c69b8f83ceec",
 'slope|inf-float32-4x5|res-int-xy|0|dask1': "dask:slope:('dim_0', 'dim_1'):['res']:de6cdfad1783da8a004f",
 'slope|inf-float32-4x5|res-int-xy|0|dask3': "dask:slope:('dim_0', 'dim_1'):['res']:de6cdfad1783da8a004f",
 'slope|inf-float32-4x5|res-int-xy|0|np': "numpy:slope:('dim_0', 'dim_1'):['res']:de6cdfad1783da8a004f",
 'slope|inf-float32-4x5|res-list|0|dask1': "dask:slope:('dim_0', 'dim_1'):['res']:fb98c0d096f136c0fbd1",
 'slope|inf-float32-4x5|res-list|0|dask3': "dask:slope:('dim_0', 'dim_1'):['res']:fb98c0d096f136c0fbd1",
 'slope|inf-float32-4x5|res-list|0|np': "numpy:slope:('dim_0', 'dim_1'):['res']:fb98c0d096f136c0fbd1",
 'slope|inf-float32-4x5|res1|0|dask1': "dask:slope:('dim_0', 'dim_1'):['res']:f935f8a7e91ebcca38af",
 'slope|inf-float32-4x5|res1|0|dask3': "dask:slope:('dim_0', 'dim_1'):['res']:f935f8a7e91ebcca38af",
 'slope|inf-float32-4x5|res1|0|np': "numpy:slope:('dim_0', 'dim_1'):['res']:f935f8a7e91ebcca38af",
 'slope|inf-float32-7x11|coords|0|dask0': "dask:slope:('y', 'x'):[]:e40f1db9868e486366ef",
 'slope|inf-float32-7x11|coords|0|dask2': "dask:slope:('y', 'x'):[]:e40f1db9868e486366ef",
 'slope|inf-float32-7x11|coords|0|np': "numpy:slope:('y', 'x'):[]:e40f1db9868e486366ef",
 'slope|inf-float32-7x11|nocoords|0|dask0': "dask:slope:('dim_0', 'dim_1'):[]:50860812759ed78b8ecd",
 'slope|inf-float32-7x11|nocoords|0|dask2': "dask:slope:('dim_0', 'dim_1'):[]:50860812759ed78b8ecd",
 'slope|inf-float32-7x11|nocoords|0|np': "numpy:slope:('dim_0', 'dim_1'):[]:50860812759ed78b8ecd",
 'slope|inf-float32-7x11|res-float-xy|0|dask0': "dask:slope:('dim_0', 'dim_1'):['res']:b5b9ad08c8889fcea42f",
 'slope|inf-float32-7x11|res-float-xy|0|dask2': "dask:slope:('dim_0', 'dim_1'):['res']:b5b9ad08c8889fcea42f",
 'slope|inf-float32-7x11|res-float-xy|0|np': "numpy:slope:('dim_0', 'dim_1'):['res']:b5b9ad08c8889fcea42f",
 'slope|inf-float32-7x11|res-int-xy|0|dask0': "dask:slope:('dim_0', 'dim_1'):['res']:f36422f7ef974edd6700",
 'slope|inf-float32-7x11|res-int-xy|0|dask2': "dask:slope:('dim_0', 'dim_1'):['res']:f36422f7ef974edd6700",
 'slope|inf-float32-7x11|res-int-xy|0|np': "numpy:slope:('dim_0', 'dim_1'):['res']:f36422f7ef974edd6700",
 'slope|inf-float32-7x11|res-list|0|dask0': "dask:slope:('dim_0', 'dim_1'):['res']:f8fc59599803110678d0",
 'slope|inf-float32-7x11|res-list|0|dask2': "dask:slope:('dim_0', 'dim_1'):['res']:f8fc59599803110678d0",
 'slope|inf-float32-7x11|res-list|0|np': "numpy:slope:('dim_0', 'dim_1'):['res']:f8fc59599803110678d0",
 'slope|inf-float32-7x11|res1|0|dask0': "dask:slope:('dim_0', 'dim_1'):['res']:50860812759ed78b8ecd",
 'slope|inf-float32-7x11|res1|0|dask2': "dask:slope:('dim_0', 'dim_1'):['res']:50860812759ed78b8ecd",
 'slope|inf-float32-7x11|res1|0|np': "numpy:slope:('dim_0', 'dim_1'):['res']:50860812759ed78b8ecd",
 'slope|inf-float64-13x8|coords|0|dask0': "dask:slope:('y', 'x'):[]:e39ba5dbadd84083401c",
 'slope|inf-float64-13x8|coords|0|dask2': "dask:slope:('y', 'x'):[]:e39ba5dbadd84083401c",
 'slope|inf-float64-13x8|coords|0|np': "numpy:slope:('y', 'x'):[]:e39ba5dbadd84083401c",
 'slope|inf-float64-13x8|nocoords|0|dask0': "dask:slope:('dim_0', 'dim_1'):[]:9f51372718ade8b70ba1",
 'slope|inf-float64-13x8|nocoords|0|dask2': "dask:slope:('dim_0', 'dim_1'):[]:9f51372718ade8b70ba1",
 'slope|inf-float64-13x8|nocoords|0|np': "numpy:slope:('dim_0', 'dim_1'):[]:9f51372718ade8b70ba1",
 'slope|inf-float64-13x8|res-float-xy|0|dask0': "dask:slope:('dim_0', 'dim_1'):['res']:2b6f5438837d0c468319",
 'slope|inf-float64-13x8|res-float-xy|0|dask2': "dask:slope:('dim_0', 'dim_1'):['res']:2b6f5438837d0c468319",
 'slope|inf-float64-13x8|res-float-xy|0|np': "numpy:slope:('dim_0', 'dim_1'):['res']:2b6f5438837d0c468319",
 'slope|inf-float64-13x8|res-int-xy|0|dask0': "dask:slope:('dim_0', 'dim_1'):['res']:14a8a53ef18e16bb4bc3",
 'slope|inf-float64-13x8|res-int-xy|0|dask2': "dask:slope:('dim_0', 'dim_1'):['res']:14a8a53ef18e16bb4bc3",
 'slope|inf-float64-13x8|res-int-xy|0|np': "numpy:slope:('dim_0', 'dim_1'):['res']:14a8a53ef18e16bb4bc3",
 'slope|inf-float64-13x8|res-list|0|dask0': "dask:slope:('dim_0', 'dim_1'):['res']:5605beeecc5d1b5bb2d7",
 'slope|inf-float64-13x8|res-list|0|dask2': "dask:slope:('dim_0', 'dim_1'):['res']:5605beeecc5d1b5bb2d7",
 'slope|inf-float64-13x8|res-list|0|np': "numpy:slope:('dim_0', 'dim_1'):['res']:5605beeecc5d1b5bb2d7",
 'slope|inf-float64-13x8|res1|0|dask0': "dask:slope:('dim_0', 'dim_1'):['res']:9f51372718ade8b70ba1",
 'slope|inf-float64-13x8|res1|0|dask2': "dask:slope:('dim_0', 'dim_1'):['res']:9f51372718ade8b70ba1",
 'slope|inf-float64-13x8|res1|0|np': "numpy:slope:('dim_0', 'dim_1'):['res']:9f51372718ade8b70ba1",
 'slope|inf-float64-4x5|coords|0|dask1': "dask:slope:('y', 'x'):[]:62cf292b18c7e0bf5414",
 'slope|inf-float64-4x5|coords|0|dask3': "dask:slope:('y', 'x'):[]:62cf292b18c7e0bf5414",
 'slope|inf-float64-4x5|coords|0|np': "numpy:slope:('y', 'x'):[]:62cf292b18c7e0bf5414",
 'slope|inf-float64-4x5|nocoords|0|dask1': "dask:slope:('dim_0', 'dim_1'):[]:470dcb1abfe5409302be",
 'slope|inf-float64-4x5|nocoords|0|dask3': "dask:slope:('dim_0', 'dim_1'):[]:470dcb1abfe5409302be",
 'slope|inf-float64-4x5|nocoords|0|np': "numpy:slope:('dim_0', 'dim_1'):[]:470dcb1abfe5409302be",
 'slope|inf-float64-4x5|res-float-xy|0|dask1': "dask:slope:('dim_0', 'dim_1'):['res']:b1bb8e23e49223b26982",
 'slope|inf-float64-4x5|res-float-xy|0|dask3': "dask:slope:('dim_0', 'dim_1'):['res']:b1bb8e23e49223b26982",
 'slope|inf-float64-4x5|res-float-xy|0|np': "numpy:slope:('dim_0', 'dim_1'):['res']:b1bb8e23e49223b26982",
 'slope|inf-float64-4x5|res-int-xy|0|dask1': "dask:slope:('dim_0', 'dim_1'):['res']:2608b976d6b0324e4f88",
 'slope|inf-float64-4x5|res-int-xy|0|dask3': "dask:slope:('dim_0', 'dim_1'):['res']:2608b976d6b0324e4f88",
 'slope|inf-float64-4x5|res-int-xy|0|np': "numpy:slope:('dim_0', 'dim_1'):['res']:2608b976d6b0324e4f88",
 'slope|inf-float64-4x5|res-list|0|dask1': "dask:slope:('dim_0', 'dim_1'):['res']:50cd6d8e2a21819ca6ee",
 'slope|inf-float64-4x5|res-list|0|dask3': "dask:slope:('dim_0', 'dim_1'):['res']:50cd6d8e2a21819ca6ee",
 'slope|inf-float64-4x5|res-list|0|np': "numpy:slope:('dim_0', 'dim_1'):['res']:50cd6d8e2a21819ca6ee",
 'slope|inf-float64-4x5|res1|0|dask1': "dask:slope:('dim_0', 'dim_1'):['res']:470dcb1abfe5409302be",
 'slope|inf-float64-4x5|res1|0|dask3': "dask:slope:('dim_0', 'dim_1'):['res']:470dcb1abfe5409302be",
 'slope|inf-float64-4x5|res1|0|np': "numpy:slope:('dim_0', 'dim_1'):['res']:470dcb1abfe5409302be",
 'slope|inf-float64-7x11|coords|0|dask0': "dask:slope:('y', 'x'):[]:9db0b6548b721a02c3cf",
 'slope|inf-float64-7x11|coords|0|dask2': "dask:slope:('y', 'x'):[]:9db0b6548b721a02c3cf",
 'slope|inf-float64-7x11|coords|0|np': "numpy:slope:('y', 'x'):[]:9db0b6548b721a02c3cf",
 'slope|inf-float64-7x11|nocoords|0|dask0': "dask:slope:('dim_0', 'dim_1'):[]:41a27333279b8fa8b396",
 'slope|inf-float64-7x11|nocoords|0|dask2': "dask:slope:('dim_0', 'dim_1'):[]:41a27333279b8fa8b396",
 'slope|inf-float64-7x11|nocoords|0|np': "numpy:slope:('dim_0', 'dim_1'):[]:41a27333279b8fa8b396",
 'slope|inf-float64-7x11|res-float-xy|0|dask0': "dask:slope:('dim_0', 'dim_1'):['res']:77d77b4eb6b3a208f3c5",
 'slope|inf-float64-7x11|res-float-xy|0|dask2': "dask:slope:('dim_0', 'dim_1'):['res']:77d77b4eb6b3a208f3c5",
 'slope|inf-float64-7x11|res-float-xy|0|np': "numpy:slope:('dim_0', 'dim_1'):['res']:77d77b4eb6b3a208f3c5",
 'slope|inf-float64-7x11|res-int-xy|0|dask0': "dask:slope:('dim_0', 'dim_1'):['res']:dee0fcd74e5383d244e4",
 'slope|inf-float64-7x11|res-int-xy|0|dask2': "dask:slope:('dim_0', 'dim_1'):['res']:dee0fcd74e5383d244e4",
 'slope|inf-float64-7x11|res-int-xy|0|np': "numpy:slope:('dim_0', 'dim_1'):['res']:dee0fcd74e5383d244e4",
 'slope|inf-float64-7x11|res-list|0|dask0': "dask:slope:('dim_0', 'dim_1'):['res']:324161721c579266759e",
 'slope|inf-float64-7x11|res-list|0|dask2': "dask:slope:('dim_0', 'dim_1'):['res']:324161721c579266759e",
 'slope|inf-float64-7x11|res-list|0|np': "numpy:slope:('dim_0', 'dim_1'):['res']:324161721c579266759e",
 'slope|inf-float64-7x11|res1|0|dask0': "dask:slope:('dim_0', 'dim_1'):['res']:41a27333279b8fa8b396",
 'slope|inf-float64-7x11|res1|0|dask2': "dask:slope:('dim_0', 'dim_1'):['res']:41a27333279b8fa8b396",
 'slope|inf-float64-7x11|res1|0|np': "numpy:slope:('dim_0', 'dim_1'):['res']:41a27333279b8fa8b396",
 'slope|named': "numpy:zzz:('dim_0', 'dim_1'):['foo', 'res']:636a00927c1baa2a2bf0",
 'slope|nan-float32-13x8|coords|0|dask0': "dask:slope:('y', 'x'):[]:5ab3d64046cadd503d66",
 'slope|nan-float32-13x8|coords|0|dask2': "dask:slope:('y', 'x'):[]:5ab3d64046cadd503d66",
 'slope|nan-float32-13x8|coords|0|np': "numpy:slope:('y', 'x'):[]:5ab3d64046cadd503d66",
 'slope|nan-float32-13x8|nocoords|0|dask0': "dask:slope:('dim_0', 'dim_1'):[]:83bbcc5f84255e3da1d7",
 'slope|nan-float32-13x8|nocoords|0|dask2': "dask:slope:('dim_0', 'dim_1'):[]:83bbcc5f84255e3da1d7",
 'slope|nan-float32-13x8|nocoords|0|np': "numpy:slope:('dim_0', 'dim_1'):[]:83bbcc5f84255e3da1d7",
 'slope|nan-float32-13x8|res-float-xy|0|dask0': "dask:slope:('dim_0', 'dim_1'):['res']:dddbeb57942f2bcfc695",
 'slope|nan-float32-13x8|res-float-xy|0|dask2': "dask:slope:('dim_0', 'dim_1'):['res']:dddbeb57942f2bcfc695",
 'slope|nan-float32-13x8|res-float-xy|0|np': "numpy:slope:('dim_0', 'dim_1'):['res']:dddbeb57942f2bcfc695",
 'slope|nan-float32-13x8|res-int-xy|0|dask0': "dask:slope:('dim_0', 'dim_1'):['res']:6ba3b13bd2d418213d8a",
 'slope|nan-float32-13x8|res-int-xy|0|dask2': "dask:slope:('dim_0', 'dim_1'):['res']:6ba3b13bd2d418213d8a",
 'slope|nan-float32-13x8|res-int-xy|0|np': "numpy:slope:('dim_0', 'dim_1'):['res']:6ba3b13bd2d418213d8a",
 'slope|nan-float32-13x8|res-list|0|dask0': "dask:slope:('dim_0', 'dim_1'):['res']:fabd8d0386adfe36bca1",
 'slope|nan-float32-13x8|res-list|0|dask2': "dask:slope:('dim_0', 'dim_1'):['res']:fabd8d0386adfe36bca1",
 'slope|nan-float32-13x8|res-list|0|np': "numpy:slope:('dim_0', 'dim_1'):['res']:fabd8d0386adfe36bca1",
 'slope|nan-float32-13x8|res1|0|dask0': "dask:slope:('dim_0', 'dim_1'):['res']:83bbcc5f84255e3da1d7",
 'slope|nan-float32-13x8|res1|0|dask2': "dask:slope:('dim_0', 'dim_1'):['res']:83bbcc5f84255e3da1d7",
 'slope|nan-float32-13x8|res1|0|np': "numpy:slope:('dim_0', 'dim_1'):['res']:83bbcc5f84255e3da1d7",
 'slope|nan-float32-4x5|coords|0|dask1': "dask:slope:('y', 'x'):[]:e9e3b80f97a1bab0653e",
 'slope|nan-float32-4x5|coords|0|dask3': "dask:slope:('y', 'x'):[]:e9e3b80f97a1bab0653e",
 'slope|nan-float32-4x5|coords|0|np': "numpy:slope:('y', 'x'):[]:e9e3b80f97a1bab0653e",
 'slope|nan-float32-4x5|nocoords|0|dask1': "dask:slope:('dim_0', 'dim_1'):[]:bd08398648dc616fd313",
 'slope|nan-float32-4x5|nocoords|0|dask3': "dask:slope:('dim_0', 'dim_1'):[]:bd08398648dc616fd313",
 'slope|nan-float32-4x5|nocoords|0|np': "numpy:slope:('dim_0', 'dim_1'):[]:bd08398648dc616fd313",
 'slope|nan-float32-4x5|res-float-xy|0|dask1': "dask:slope:('dim_0', 'dim_1'):['res']:f2dfc6b0e043739b32e2",
 'slope|nan-float32-4x5|res-float-xy|0|dask3': "dask:slope:('dim_0', 'dim_1'):['res']:f2dfc6b0e043739b32e2",
 'slope|nan-float32-4x5|res-float-xy|0|np': "numpy:slope:('dim_0', 'dim_1'):['res']:f2dfc6b0e043739b32e2",
 'slope|nan-float32-4x5|res-int-xy|0|dask1': "dask:slope:('dim_0', 'dim_1'):['res']:7f6476336332ef2812f7",
 'slope|nan-float32-4x5|res-int-xy|0|dask3': "dask:slope:('dim_0', 'dim_1'):['res']:7f6476336332ef2812f7",
 'slope|nan-float32-4x5|res-int-xy|0|np': "numpy:slope:('dim_0', 'dim_1'):['res']:7f6476336332ef2812f7",
 'slope|nan-float32-4x5|res-list|0|dask1': "dask:slope:('dim_0', 'dim_1'):['res']:c69bc398789b62dfde39",
 'slope|nan-float32-4x5|res-list|0|dask3': "dask:slope:('dim_0', 'dim_1'):['res']:c69bc398789b62dfde39",
 'slope|nan-float32-4x5|res-list|0|np': "numpy:slope:('dim_0', 'dim_1'):['res']:c69bc398789b62dfde39",
 'slope|nan-float32-4x5|res1|0|dask1': "dask:slope:('dim_0', 'dim_1'):['res']:bd08398648dc616fd313",
 'slope|nan-float32-4x5|res1|0|dask3': "dask:slope:('dim_0', 'dim_1'):['res']:bd08398648dc616fd313",
 'slope|nan-float32-4x5|res1|0|np': "numpy:slope:('dim_0', 'dim_1'):['res']:bd08398648dc616fd313",
 'slope|nan-float32-7x11|coords|0|dask0': "dask:slope:('y', 'x'):[]:0e62cb3fb4f5238cf43c",
 'slope|nan-float32-7x11|coords|0|dask2': "dask:slope:('y', 'x'):[]:0e62cb3fb4f5238cf43c",
 'slope|nan-float32-7x11|coords|0|np': "numpy:slope:('y', 'x'):[]:0e62cb3fb4f5238cf43c",
 'slope|nan-float32-7x11|nocoords|0|dask0': "dask:slope:('dim_0', 'dim_1'):[]:8f75eb8ab820f3111ce5",
 'slope|nan-float32-7x11|nocoords|0|dask2': "dask:slope:('dim_0', 'dim_1'):[]:8f75eb8ab820f3111ce5",
 'slope|nan-float32-7x11|nocoords|0|np': "numpy:slope:('dim_0', 'dim_1'):[]:8f75eb8ab820f3111ce5",
 'slope|nan-float32-7x11|res-float-xy|0|dask0': "dask:slope:('dim_0', 'dim_1'):['res']:649bfd129aaed4accfed",
 'slope|nan-float32-7x11|res-float-xy|0|dask2': "dask:slope:('dim_0', 'dim_1'):['res']:649bfd129aaed4accfed",
 'slope|nan-float32-7x11|res-float-xy|0|np': "numpy:slope:('dim_0', 'dim_1'):['res']:649bfd129aaed4accfed",
 'slope|nan-float32-7x11|res-int-xy|0|dask0': "dask:slope:('dim_0', 'dim_1'):['res']:d35cac014d08e295a83b",
 'slope|nan-float32-7x11|res-int-xy|0|dask2': "dask:slope:('dim_0', 'dim_1'):['res']:d35cac014d08e295a83b",
 'slope|nan-float32-7x11|res-int-xy|0|np': "numpy:slope:('dim_0', 'dim_1'):['res']:d35cac014d08e295a83b",
 'slope|nan-float32-7x11|res-list|0|dask0': "dask:slope:('dim_0', 'dim_1'):['res']:fa393ce395b269172b8d",
 'slope|nan-float32-7x11|res-list|0|dask2': "dask:slope:('dim_0', 'dim_1'):['res']:fa393ce395b269172b8d",
 'slope|nan-float32-7x11|res-list|0|np': "numpy:slope:('dim_0', 'dim_1'):['res']:fa393ce395b269172b8d",
 'slope|nan-float32-7x11|res1|0|dask0': "dask:slope:('dim_0', 'dim_1'):['res']:8f75eb8ab820f3111ce5",
 'slope|nan-float32-7x11|res1|0|dask2': "dask:slope:('dim_0', 'dim_1'):['res']:8f75eb8ab820f3111ce5",
 'slope|nan-float32-7x11|res1|0|np': "numpy:slope:('dim_0', 'dim_1'):['res']:8f75eb8ab820f3111ce5",
 'slope|nan-float64-13x8|coords|0|dask0': "dask:slope:('y', 'x'):[]:e326ae075ed622939e0e",
 'slope|nan-float64-13x8|coords|0|dask2': "dask:slope:('y', 'x'):[]:e326ae075ed622939e0e",
 'slope|nan-float64-13x8|coords|0|np': "numpy:slope:('y', 'x'):[]:e326ae075ed622939e0e",
 'slope|nan-float64-13x8|nocoords|0|dask0': "dask:slope:('dim_0', 'dim_1'):[]:c79355a573b9a84a528a",
 'slope|nan-float64-13x8|nocoords|0|dask2': "dask:slope:('dim_0', 'dim_1'):[]:c79355a573b9a84a528a",
 'slope|nan-float64-13x8|nocoords|0|np': "numpy:slope:('dim_0', 'dim_1'):[]:c79355a573b9a84a528a",
 'slope|nan-float64-13x8|res-float-xy|0|dask0': "dask:slope:('dim_0', 'dim_1'):['res']:4844f86e9585a7a32fdc",
 'slope|nan-float64-13x8|res-float-xy|0|dask2': "dask:slope:('dim_0', 'dim_1'):['res']:4844f86e9585a7a32fdc",
 'slope|nan-float64-13x8|res-float-xy|0|np': "numpy:slope:('dim_0', 'dim_1'):['res']:4844f86e9585a7a32fdc",
 'slope|nan-float64-13x8|res-int-xy|0|dask0': "dask:slope:('dim_0', 'dim_1'):['res']:d77c30d31cc0baf39570",
 'slope|nan-float64-13x8|res-int-xy|0|dask2': "dask:slope:('dim_0', 'dim_1'):['res']:d77c30d31cc0baf39570",
 'slope|nan-float64-13x8|res-int-xy|0|np': "numpy:slope:('dim_0', 'dim_1'):['res']:d77c30d31cc0baf39570",
 'slope|nan-float64-13x8|res-list|0|dask0': "dask:slope:('dim_0', 'dim_1'):['res']:5c958ec438d4f9cee29c",
 'slope|nan-float64-13x8|res-list|0|dask2': "dask:slope:('dim_0', 'dim_1'):['res']:5c958ec438d4f9cee29c",
 'slope|nan-float64-13x8|res-list|0|np': "numpy:slope:('dim_0', 'dim_1'):['res']:5c958ec438d4f9cee29c",
 'slope|nan-float64-13x8|res1|0|dask0': "dask:slope:('dim_0', 'dim_1'):['res']:c79355a573b9a84a528a",
 'slope|nan-float64-13x8|res1|0|dask2': "dask:slope:('dim_0', 'dim_1'):['res']:c79355a573b9a84a528a",
 'slope|nan-float64-13x8|res1|0|np': "numpy:slope:('dim_0', 'dim_1'):['res']:c79355a573b9a84a528a",
 'slope|nan-float64-4x5|coords|0|dask1': "dask:slope:('y', 'x'):[]:69b017120cfa64314a10",
 'slope|nan-float64-4x5|coords|0|dask3': "dask:slope:('y', 'x'):[]:69b017120cfa64314a10",
 'slope|nan-float64-4x5|coords|0|np': "numpy:slope:('y', 'x'):[]:69b017120cfa64314a10",
 'slope|nan-float64-4x5|nocoords|0|dask1': "dask:slope:('dim_0', 'dim_1'):[]:76d32aa777a7c5503609",
 'slope|nan-float64-4x5|nocoords|0|dask3': "dask:slope:('dim_0', 'dim_1'):[]:76d32aa777a7c5503609",
 'slope|nan-float64-4x5|nocoords|0|np': "numpy:slope:('dim_0', 'dim_1'):[]:76d32aa777a7c5503609",
 'slope|nan-float64-4x5|res-float-xy|0|dask1': "dask:slope:('dim_0', 'dim_1'):['res']:fee9965ada9d8bbf92e1",
 'slope|nan-float64-4x5|res-float-xy|0|dask3': "dask:slope:('dim_0', 'dim_1'):['res']:fee9965ada9d8bbf92e1",
 'slope|nan-float64-4x5|res-float-xy|0|np': "numpy:slope:('dim_0', 'dim_1'):['res']:fee9965ada9d8bbf92e1",
 'slope|nan-float64-4x5|res-int-xy|0|dask1': "dask:slope:('dim_0', 'dim_1'):['res']:3aa32eb2887beca520cc",
 'slope|nan-float64-4x5|res-int-xy|0|dask3': "dask:slope:('dim_0', 'dim_1'):['res']:3aa32eb2887beca520cc",
 'slope|nan-float64-4x5|res-int-xy|0|np': "numpy:slope:('dim_0', 'dim_1'):['res']:3aa32eb2887beca520cc",
 'slope|nan-float64-4x5|res-list|0|dask1': "dask:slope:('dim_0', 'dim_1'):['res']:826b9d3b05f1f10b687f",
 'slope|nan-float64-4x5|res-list|0|dask3': "dask:slope:('dim_0', 'dim_1'):['res']:826b9d3b05f1f10b687f",
 'slope|nan-float64-4x5|res-list|0|np': "numpy:slope:('dim_0', 'dim_1'):['res']:826b9d3b05f1f10b687f",
 'slope|nan-float64-4x5|res1|0|dask1': "dask:slope:('dim_0', 'dim_1'):['res']:76d32aa777a7c5503609",
 'slope|nan-float64-4x5|res1|0|dask3': "dask:slope:('dim_0', 'dim_1'):['res']:76d32aa777a7c5503609",
 'slope|nan-float64-4x5|res1|0|np': "numpy:slope:('dim_0', 'dim_1'):['res']:76d32aa777a7c5503609",
 'slope|nan-float64-7x11|coords|0|dask0': "dask:slope:('y', 'x'):[]:7495de547232af838642",
 'slope|nan-float64-7x11|coords|0|dask2': "dask:slope:('y', 'x'):[]:7495de547232af838642",
 'slope|nan-float64-7x11|coords|0|np': "numpy:slope:('y', 'x'):[]:7495de547232af838642",
 'slope|nan-float64-7x11|nocoords|0|dask0': "dask:slope:('dim_0', 'dim_1'):[]:e0513d07660f682308d5",
 'slope|nan-float64-7x11|nocoords|0|dask2': "dask:slope:('dim_0', 'dim_1'):[]:e0513d07660f682308d5",
 'slope|nan-float64-7x11|nocoords|0|np': "numpy:slope:('dim_0', 'dim_1'):[]:e0513d07660f682308d5",
 'slope|nan-float64-7x11|res-float-xy|0|dask0': "dask:slope:('dim_0', 'dim_1'):['res']:bf0cadeb9809fdd559f6",
 'slope|nan-float64-7x11|res-float-xy|0|dask2': "dask:slope:('dim_0', 'dim_1'):['res']:bf0cadeb9809fdd559f6",
 'slope|nan-float64-7x11|res-float-xy|0|np': "numpy:slope:('dim_0', 'dim_1'):['res']:bf0cadeb9809fdd559f6",
 'slope|nan-float64-7x11|res-int-xy|0|dask0': "dask:slope:('dim_0', 'dim_1'):['res']:c21ca364eaa8859b632d",
 'slope|nan-float64-7x11|res-int-xy|0|dask2': "dask:slope:('dim_0', 'dim_1'):['res']:c21ca364eaa8859b632d",
 'slope|nan-float64-7x11|res-int-xy|0|np': "numpy:slope:('dim_0', 'dim_1'):['res']:c21ca364eaa8859b632d",
 'slope|nan-float64-7x11|res-list|0|dask0': "dask:slope:('dim_0', 'dim_1'):['res']:147763bf8c325f2a0f30",
 'slope|nan-float64-7x11|res-list|0|dask2': "dask:slope:('dim_0', 'dim_1'):['res']:147763bf8c325f2a0f30",
 'slope|nan-float64-7x11|res-list|0|np': "numpy:slope:('dim_0', 'dim_1'):['res']:147763bf8c325f2a0f30",
 'slope|nan-float64-7x11|res1|0|dask0': "dask:slope:('dim_0', 'dim_1'):['res']:e0513d07660f682308d5",
 'slope|nan-float64-7x11|res1|0|dask2': "dask:slope:('dim_0', 'dim_1'):['res']:e0513d07660f682308d5",
 'slope|nan-float64-7x11|res1|0|np': "numpy:slope:('dim_0', 'dim_1'):['res']:e0513d07660f682308d5",
 'slope|offset|coords|0|dask0': "dask:slope:('y', 'x'):[]:b3ffb8e72b40844ee841",
 'slope|offset|coords|0|dask2': "dask:slope:('y', 'x'):[]:b3ffb8e72b40844ee841",
 'slope|offset|coords|0|np': "numpy:slope:('y', 'x'):[]:b3ffb8e72b40844ee841",
 'slope|offset|nocoords|0|dask0': "dask:slope:('dim_0', 'dim_1'):[]:b8341f2ae9f20c6d5794",
 'slope|offset|nocoords|0|dask2': "dask:slope:('dim_0', 'dim_1'):[]:b8341f2ae9f20c6d5794",
 'slope|offset|nocoords|0|np': "numpy:slope:('dim_0', 'dim_1'):[]:b8341f2ae9f20c6d5794",
 'slope|offset|res-float-xy|0|dask0': "dask:slope:('dim_0', 'dim_1'):['res']:05a2bff5434a5ccfb620",
 'slope|offset|res-float-xy|0|dask2': "dask:slope:('dim_0', 'dim_1'):['res']:05a2bff5434a5ccfb620",
 'slope|offset|res-float-xy|0|np': "numpy:slope:('dim_0', 'dim_1'):['res']:05a2bff5434a5ccfb620",
 'slope|offset|res-int-xy|0|dask0': "dask:slope:('dim_0', 'dim_1'):['res']:cec45bb17d1be8607e22",
 'slope|offset|res-int-xy|0|dask2': "dask:slope:('dim_0', 'dim_1'):['res']:cec45bb17d1be8607e22",
 'slope|offset|res-int-xy|0|np': "numpy:slope:('dim_0', 'dim_1'):['res']:cec45bb17d1be8607e22",
 'slope|offset|res-list|0|dask0': "dask:slope:('dim_0', 'dim_1'):['res']:62daad54010c2f5f8eda",
 'slope|offset|res-list|0|dask2': "dask:slope:('dim_0', 'dim_1'):['res']:62daad54010c2f5f8eda",
 'slope|offset|res-list|0|np': "numpy:slope:('dim_0', 'dim_1'):['res']:62daad54010c2f5f8eda",
 'slope|offset|res1|0|dask0': "dask:slope:('dim_0', 'dim_1'):['res']:b8341f2ae9f20c6d5794",
 'slope|offset|res1|0|dask2': "dask:slope:('dim_0', 'dim_1'):['res']:b8341f2ae9f20c6d5794",
 'slope|offset|res1|0|np': "numpy:slope:('dim_0', 'dim_1'):['res']:b8341f2ae9f20c6d5794",
 'slope|ramp-neg|coords|0|dask0': "dask:slope:('y', 'x'):[]:c2c0751bf90b87fa61fc",
 'slope|ramp-neg|coords|0|dask2': "dask:slope:('y', 'x'):[]:c2c0751bf90b87fa61fc",
 'slope|ramp-neg|coords|0|np': "numpy:slope:('y', 'x'):[]:c2c0751bf90b87fa61fc",
 'slope|ramp-neg|nocoords|0|dask0': "dask:slope:('dim_0', 'dim_1'):[]:a7906a97949ac2ee8459",
 'slope|ramp-neg|nocoords|0|dask2': "dask:slope:('dim_0', 'dim_1'):[]:a7906a97949ac2ee8459",
 'slope|ramp-neg|nocoords|0|np': "numpy:slope:('dim_0', 'dim_1'):[]:a7906a97949ac2ee8459",
 'slope|ramp-neg|res-float-xy|0|dask0': "dask:slope:('dim_0', 'dim_1'):['res']:fdd20220761e33079f7a",
 'slope|ramp-neg|res-float-xy|0|dask2': "dask:slope:('dim_0', 'dim_1'):['res']:fdd20220761e33079f7a",
 'slope|ramp-neg|res-float-xy|0|np': "numpy:slope:('dim_0', 'dim_1'):['res']:fdd20220761e33079f7a",
 'slope|ramp-neg|res-int-xy|0|dask0': "dask:slope:('dim_0', 'dim_1'):['res']:3ff92b390f8e195b29e7",
 'slope|ramp-neg|res-int-xy|0|dask2': "dask:slope:('dim_0', 'dim_1'):['res']:3ff92b390f8e195b29e7",
 'slope|ramp-neg|res-int-xy|0|np': "numpy:slope:('dim_0', 'dim_1'):['res']:3ff92b390f8e195b29e7",
 'slope|ramp-neg|res-list|0|dask0': "dask:slope:('dim_0', 'dim_1'):['res']:ac0d4782a36de8fb5e39",
 'slope|ramp-neg|res-list|0|dask2': "dask:slope:('dim_0', 'dim_1'):['res']:ac0d4782a36de8fb5e39",
 'slope|ramp-neg|res-list|0|np': "numpy:slope:('dim_0', 'dim_1'):['res']:ac0d4782a36de8fb5e39",
 'slope|ramp-neg|res1|0|dask0': "dask:slope:('dim_0', 'dim_1'):['res']:a7906a97949ac2ee8459",
 'slope|ramp-neg|res1|0|dask2': "dask:slope:('dim_0', 'dim_1'):['res']:a7906a97949ac2ee8459",
 'slope|ramp-neg|res1|0|np': "numpy:slope:('dim_0', 'dim_1'):['res']:a7906a97949ac2ee8459",
 'slope|ramp-xy|coords|0|dask1': "dask:slope:('y', 'x'):[]:aee1b8cdb0c299101772",
 'slope|ramp-xy|coords|0|dask3': "dask:slope:('y', 'x'):[]:aee1b8cdb0c299101772",
 'slope|ramp-xy|coords|0|np': "numpy:slope:('y', 'x'):[]:aee1b8cdb0c299101772",
 'slope|ramp-xy|nocoords|0|dask1': "dask:slope:('dim_0', 'dim_1'):[]:1d4b09ece8483628e156",
 'slope|ramp-xy|nocoords|0|dask3': "dask:slope:('dim_0', 'dim_1'):[]:1d4b09ece8483628e156",
 'slope|ramp-xy|nocoords|0|np': "numpy:slope:('dim_0', 'dim_1'):[]:1d4b09ece8483628e156",
 'slope|ramp-xy|res-float-xy|0|dask1': "dask:slope:('dim_0', 'dim_1'):['res']:671012cc357431ea40c5",
 'slope|ramp-xy|res-float-xy|0|dask3': "dask:slope:('dim_0', 'dim_1'):['res']:671012cc357431ea40c5",
 'slope|ramp-xy|res-float-xy|0|np': "numpy:slope:('dim_0', 'dim_1'):['res']:671012cc357431ea40c5",
 'slope|ramp-xy|res-int-xy|0|dask1': "dask:slope:('dim_0', 'dim_1'):['res']:e934566f8fc425eb2a0e",
 'slope|ramp-xy|res-int-xy|0|dask3': "dask:slope:('dim_0', 'dim_1'):['res']:e934566f8fc425eb2a0e",
 'slope|ramp-xy|res-int-xy|0|np': "numpy:slope:('dim_0', 'dim_1'):['res']:e934566f8fc425eb2a0e",
 'slope|ramp-xy|res-list|0|dask1': "dask:slope:('dim_0', 'dim_1'):['res']:a6277d15e7c046c2c15a",
 'slope|ramp-xy|res-list|0|dask3': "dask:slope:('dim_0', 'dim_1'):['res']:a6277d15e7c046c2c15a",
 'slope|ramp-xy|res-list|0|np': "numpy:slope:('dim_0', 'dim_1'):['res']:a6277d15e7c046c2c15a",
 'slope|ramp-xy|res1|0|dask1': "dask:slope:('dim_0', 'dim_1'):['res']:1d4b09ece8483628e156",
 'slope|ramp-xy|res1|0|dask3': "dask:slope:('dim_0', 'dim_1'):['res']:1d4b09ece8483628e156",
 'slope|ramp-xy|res1|0|np': "numpy:slope:('dim_0', 'dim_1'):['res']:1d4b09ece8483628e156",
 'slope|ramp-x|coords|0|dask0': "dask:slope:('y', 'x'):[]:52e0d3ac005ddf69f1dc",
 'slope|ramp-x|coords|0|dask2': "dask:slope:('y', 'x'):[]:52e0d3ac005ddf69f1dc",
 'slope|ramp-x|coords|0|np': "numpy:slope:('y', 'x'):[]:52e0d3ac005ddf69f1dc",
 'slope|ramp-x|nocoords|0|dask0': "dask:slope:('dim_0', 'dim_1'):[]:ebb1b079253914f7c728",
 'slope|ramp-x|nocoords|0|dask2': "dask:slope:('dim_0', 'dim_1'):[]:ebb1b079253914f7c728",
 'slope|ramp-x|nocoords|0|np': "numpy:slope:('dim_0', 'dim_1'):[]:ebb1b079253914f7c728",
 'slope|ramp-x|res-float-xy|0|dask0': "dask:slope:('dim_0', 'dim_1'):['res']:bda87260070c93c7a407",
 'slope|ramp-x|res-float-xy|0|dask2': "dask:slope:('dim_0', 'dim_1'):['res']:bda87260070c93c7a407",
 'slope|ramp-x|res-float-xy|0|np': "numpy:slope:('dim_0', 'dim_1'):['res']:bda87260070c93c7a407",
 'slope|ramp-x|res-int-xy|0|dask0': "dask:slope:('dim_0', 'dim_1'):['res']:04bfe9cb3689c615a402",
 'slope|ramp-x|res-int-xy|0|dask2': "dask:slope:('dim_0', 'dim_1'):['res']:04bfe9cb3689c615a402",
 'slope|ramp-x|res-int-xy|0|np': "numpy:slope:('dim_0', 'dim_1'):['res']:04bfe9cb3689c615a402",
 'slope|ramp-x|res-list|0|dask0': "dask:slope:('dim_0', 'dim_1'):['res']:78303951f494fd810080",
 'slope|ramp-x|res-list|0|dask2': "dask:slope:('dim_0', 'dim_1'):['res']:78303951f494fd810080",
 'slope|ramp-x|res-list|0|np': "numpy:slope:('dim_0', 'dim_1'):['res']:78303951f494fd810080",
 'slope|ramp-x|res1|0|dask0': "dask:slope:('dim_0', 'dim_1'):['res']:ebb1b079253914f7c728",
 'slope|ramp-x|res1|0|dask2': "dask:slope:('dim_0', 'dim_1'):['res']:ebb1b079253914f7c728",
 'slope|ramp-x|res1|0|np': "numpy:slope:('dim_0', 'dim_1'):['res']:ebb1b079253914f7c728",
 'slope|ramp-y|coords|0|dask0': "dask:slope:('y', 'x'):[]:e85ec91caaa226bd1d62",
 'slope|ramp-y|coords|0|dask2': "dask:slope:('y', 'x'):[]:e85ec91caaa226bd1d62",
 'slope|ramp-y|coords|0|np': "numpy:slope:('y', 'x'):[]:e85ec91caaa226bd1d62",
 'slope|ramp-y|nocoords|0|dask0': "dask:slope:('dim_0', 'dim_1'):[]:ebb1b079253914f7c728",
 'slope|ramp-y|nocoords|0|dask2': "dask:slope:('dim_0', 'dim_1'):[]:ebb1b079253914f7c728",
 'slope|ramp-y|nocoords|0|np': "numpy:slope:('dim_0', 'dim_1'):[]:ebb1b079253914f7c728",
 'slope|ramp-y|res-float-xy|0|dask0': "dask:slope:('dim_0', 'dim_1'):['res']:b6f4a065d6b47e77dc0e",
 'slope|ramp-y|res-float-xy|0|dask2': "dask:slope:('dim_0', 'dim_1'):['res']:b6f4a065d6b47e77dc0e",
 'slope|ramp-y|res-float-xy|0|np': "numpy:slope:('dim_0', 'dim_1'):['res']:b6f4a065d6b47e77dc0e",
 'slope|ramp-y|res-int-xy|0|dask0': "dask:slope:('dim_0', 'dim_1'):['res']:8a2083d0b3f3da430ab3",
 'slope|ramp-y|res-int-xy|0|dask2': "dask:slope:('dim_0', 'dim_1'):['res']:8a2083d0b3f3da430ab3",
 'slope|ramp-y|res-int-xy|0|np': "numpy:slope:('dim_0', 'dim_1'):['res']:8a2083d0b3f3da430ab3",
 'slope|ramp-y|res-list|0|dask0': "dask:slope:('dim_0', 'dim_1'):['res']:b3ad5246ccc451832434",
 'slope|ramp-y|res-list|0|dask2': "dask:slope:('dim_0', 'dim_1'):['res']:b3ad5246ccc451832434",
 'slope|ramp-y|res-list|0|np': "numpy:slope:('dim_0', 'dim_1'):['res']:b3ad5246ccc451832434",
 'slope|ramp-y|res1|0|dask0': "dask:slope:('dim_0', 'dim_1'):['res']:ebb1b079253914f7c728",
 'slope|ramp-y|res1|0|dask2': "dask:slope:('dim_0', 'dim_1'):['res']:ebb1b079253914f7c728",
 'slope|ramp-y|res1|0|np': "numpy:slope:('dim_0', 'dim_1'):['res']:ebb1b079253914f7c728",
 'slope|rand-float32-13x8|coords|0|dask1': "dask:slope:('y', 'x'):[]:29cdc2822ec35c37d2ba",
 'slope|rand-float32-13x8|coords|0|dask3': "dask:slope:('y', 'x'):[]:29cdc2822ec35c37d2ba",
 'slope|rand-float32-13x8|coords|0|np': "numpy:slope:('y', 'x'):[]:29cdc2822ec35c37d2ba",
 'slope|rand-float32-13x8|nocoords|0|dask1': "dask:slope:('dim_0', 'dim_1'):[]:5d512a7dc7ba5ae173b9",
 'slope|rand-float32-13x8|nocoords|0|dask3': "dask:slope:('dim_0', 'dim_1'):[]:5d512a7dc7ba5ae173b9",
 'slope|rand-float32-13x8|nocoords|0|np': "numpy:slope:('dim_0', 'dim_1'):[]:5d512a7dc7ba5ae173b9",
 'slope|rand-float32-13x8|res-float-xy|0|dask1': "dask:slope:('dim_0', 'dim_1'):['res']:7762ecc7dbcfd70d31bd",
 'slope|rand-float32-13x8|res-float-xy|0|dask3': "dask:slope:('dim_0', 'dim_1'):['res']:7762ecc7dbcfd70d31bd",
 'slope|rand-float32-13x8|res-float-xy|0|np': "numpy:slope:('dim_0', 'dim_1'):['res']:7762ecc7dbcfd70d31bd",
 'slope|rand-float32-13x8|res-int-xy|0|dask1': "dask:slope:('dim_0', 'dim_1'):['res']:6edc161b8a439c9bd36f",
 'slope|rand-float32-13x8|res-int-xy|0|dask3': "dask:slope:('dim_0', 'dim_1'):['res']:6edc161b8a439c9bd36f",
 'slope|rand-float32-13x8|res-int-xy|0|np': "numpy:slope:('dim_0', 'dim_1'):['res']:6edc161b8a439c9bd36f",
 'slope|rand-float32-13x8|res-list|0|dask1': "dask:slope:('dim_0', 'dim_1'):['res']:a52dfa6118505ee4ab7b",
 'slope|rand-float32-13x8|res-list|0|dask3': "dask:slope:('dim_0', 'dim_1'):['res']:a52dfa6118505ee4ab7b",
 'slope|rand-float32-13x8|res-list|0|np': "numpy:slope:('dim_0', 'dim_1'):['res']:a52dfa6118505ee4ab7b",
 'slope|rand-float32-13x8|res1|0|dask1': "dask:slope:('dim_0', 'dim_1'):['res']:5d512a7dc7ba5ae173b9",
 'slope|rand-float32-13x8|res1|0|dask3': "dask:slope:('dim_0', 'dim_1'):['res']:5d512a7dc7ba5ae173b9",
 'slope|rand-float32-13x8|res1|0|np': "numpy:slope:('dim_0', 'dim_1'):['res']:5d512a7dc7ba5ae173b9",
 'slope|rand-float32-1x5|coords|0|np': 'EXC:ZeroDivisionError',
 'slope|rand-float32-1x5|nocoords|0|np': 'EXC:ZeroDivisionError',
 'slope|rand-float32-1x5|res-float-xy|0|np': "numpy:slope:('dim_0', 'dim_1'):['res']:c5e61fa68aaa5fc3c79c",
 'slope|rand-float32-1x5|res-int-xy|0|np': "numpy:slope:('dim_0', 'dim_1'):['res']:c5e61fa68aaa5fc3c79c",
 'slope|rand-float32-1x5|res-list|0|np': "numpy:slope:('dim_0', 'dim_1'):['res']:c5e61fa68aaa5fc3c79c",
 'slope|rand-float32-1x5|res1|0|np': "numpy:slope:('dim_0', 'dim_1'):['res']:c5e61fa68aaa5fc3c79c",
 'slope|rand-float32-20x31|coords|0|dask0': "dask:slope:('y', 'x'):[]:ece986668dc9c480e0ad",
 'slope|rand-float32-20x31|coords|0|dask2': "dask:slope:('y', 'x'):[]:ece986668dc9c480e0ad",
 'slope|rand-float32-20x31|coords|0|np': "numpy:slope:('y', 'x'):[]:ece986668dc9c480e0ad",
 'slope|rand-float32-20x31|nocoords|0|dask0': "dask:slope:('dim_0', 'dim_1'):[]:c84cf5cdfb87f9513384",
 'slope|rand-float32-20x31|nocoords|0|dask2': "dask:slope:('dim_0', 'dim_1'):[]:c84cf5cdfb87f9513384",
 'slope|rand-float32-20x31|nocoords|0|np': "numpy:slope:('dim_0', 'dim_1'):[]:c84cf5cdfb87f9513384",
 'slope|rand-float32-20x31|res-float-xy|0|dask0': "dask:slope:('dim_0', 'dim_1'):['res']:37fc375e0afdf1a02768",
 'slope|rand-float32-20x31|res-float-xy|0|dask2': "dask:slope:('dim_0', 'dim_1'):['res']:37fc375e0afdf1a02768",
 'slope|rand-float32-20x31|res-float-xy|0|np': "numpy:slope:('dim_0', 'dim_1'):['res']:37fc375e0afdf1a02768",
 'slope|rand-float32-20x31|res-int-xy|0|dask0': "dask:slope:('dim_0', 'dim_1'):['res']:25ae20f7390e3079d1db",
 'slope|rand-float32-20x31|res-int-xy|0|dask2': "dask:slope:('dim_0', 'dim_1'):['res']:25ae20f7390e3079d1db",
 'slope|rand-float32-20x31|res-int-xy|0|np': "numpy:slope:('dim_0', 'dim_1'):['res']:25ae20f7390e3079d1db",
 'slope|rand-float32-20x31|res-list|0|dask0': "dask:slope:('dim_0', 'dim_1'):['res']:30d093f279b548a8421b",
 'slope|rand-float32-20x31|res-list|0|dask2': "dask:slope:('dim_0', 'dim_1'):['res']:30d093f279b548a8421b",
 'slope|rand-float32-20x31|res-list|0|np': "numpy:slope:('dim_0', 'dim_1'):['res']:30d093f279b548a8421b",
 'slope|rand-float32-20x31|res1|0|dask0': "dask:slope:('dim_0', 'dim_1'):['res']:c84cf5cdfb87f9513384",
 'slope|rand-float32-20x31|res1|0|dask2': "dask:slope:('dim_0', 'dim_1'):['res']:c84cf5cdfb87f9513384",
 'slope|rand-float32-20x31|res1|0|np': "numpy:slope:('dim_0', 'dim_1'):['res']:c84cf5cdfb87f9513384",
 'slope|rand-float32-2x2|coords|0|dask0': "dask:slope:('y', 'x'):[]:10ed4916970c06e68e5a",
 'slope|rand-float32-2x2|coords|0|dask2': "dask:slope:('y', 'x'):[]:10ed4916970c06e68e5a",
 'slope|rand-float32-2x2|coords|0|np': "numpy:slope:('y', 'x'):[]:10ed4916970c06e68e5a",
 'slope|rand-float32-2x2|nocoords|0|dask0': "dask:slope:('dim_0', 'dim_1'):[]:10ed4916970c06e68e5a",
 'slope|rand-float32-2x2|nocoords|0|dask2': "dask:slope:('dim_0', 'dim_1'):[]:10ed4916970c06e68e5a",
 'slope|rand-float32-2x2|nocoords|0|np': "numpy:slope:('dim_0', 'dim_1'):[]:10ed4916970c06e68e5a",
 'slope|rand-float32-2x2|res-float-xy|0|dask0': "dask:slope:('dim_0', 'dim_1'):['res']:10ed4916970c06e68e5a",
 'slope|rand-float32-2x2|res-float-xy|0|dask2': "dask:slope:('dim_0', 'dim_1'):['res']:10ed4916970c06e68e5a",
 'slope|rand-float32-2x2|res-float-xy|0|np': "numpy:slope:('dim_0', 'dim_1'):['res']:10ed4916970c06e68e5a",
 'slope|rand-float32-2x2|res-int-xy|0|dask0': "dask:slope:('dim_0', 'dim_1'):['res']:10ed4916970c06e68e5a",
 'slope|rand-float32-2x2|res-int-xy|0|dask2': "dask:slope:('dim_0', 'dim_1'):['res']:10ed4916970c06e68e5a",
 'slope|rand-float32-2x2|res-int-xy|0|np': "numpy:slope:('dim_0', 'dim_1'):['res']:10ed4916970c06e68e5a",
 'slope|rand-float32-2x2|res-list|0|dask0': "dask:slope:('dim_0', 'dim_1'):['res']:10ed4916970c06e68e5a",
 'slope|rand-float32-2x2|res-list|0|dask2': "dask:slope:('dim_0', 'dim_1'):['res']:10ed4916970c06e68e5a",
 'slope|rand-float32-2x2|res-list|0|np': "numpy:slope:('dim_0', 'dim_1'):['res']:10ed4916970c06e68e5a",
 'slope|rand-float32-2x2|res1|0|dask0': "dask:slope:('dim_0', 'dim_1'):['res']:10ed4916970c06e68e5a",
 'slope|rand-float32-2x2|res1|0|dask2': "dask:slope:('dim_0', 'dim_1'):['res']:10ed4916970c06e68e5a",
 'slope|rand-float32-2x2|res1|0|np': "numpy:slope:('dim_0', 'dim_1'):['res']:10ed4916970c06e68e5a",
 'slope|rand-float32-3x3|coords|0|dask0': "dask:slope:('y', 'x'):[]:274af20e052ba10a7e45",
 'slope|rand-float32-3x3|coords|0|dask2': "dask:slope:('y', 'x'):[]:274af20e052ba10a7e45",
 'slope|rand-float32-3x3|coords|0|np': "numpy:slope:('y', 'x'):[]:274af20e052ba10a7e45",
 'slope|rand-float32-3x3|nocoords|0|dask0': "dask:slope:('dim_0', 'dim_1'):[]:bb4614cd178f1654ec21",
 'slope|rand-float32-3x3|nocoords|0|dask2': "dask:slope:('dim_0', 'dim_1'):[]:bb4614cd178f1654ec21",
 'slope|rand-float32-3x3|nocoords|0|np': "numpy:slope:('dim_0', 'dim_1'):[]:bb4614cd178f1654ec21",
 'slope|rand-float32-3x3|res-float-xy|0|dask0': "dask:slope:('dim_0', 'dim_1'):['res']:1d544f9668fac152f09c",
 'slope|rand-float32-3x3|res-float-xy|0|dask2': "dask:slope:('dim_0', 'dim_1'):['res']:1d544f9668fac152f09c",
 'slope|rand-float32-3x3|res-float-xy|0|np': "numpy:slope:('dim_0', 'dim_1'):['res']:1d544f9668fac152f09c",
 'slope|rand-float32-3x3|res-int-xy|0|dask0': "dask:slope:('dim_0', 'dim_1'):['res']:48d5f5a19f6bb15b9b51",
 'slope|rand-float32-3x3|res-int-xy|0|dask2': "dask:slope:('dim_0', 'dim_1'):['res']:48d5f5a19f6bb15b9b51",
 'slope|rand-float32-3x3|res-int-xy|0|np': "numpy:slope:('dim_0', 'dim_1'):['res']:48d5f5a19f6bb15b9b51",
 'slope|rand-float32-3x3|res-list|0|dask0': "dask:slope:('dim_0', 'dim_1'):['res']:0030fd674bda2511d8e8",
 'slope|rand-float32-3x3|res-list|0|dask2': "dask:slope:('dim_0', 'dim_1'):['res']:0030fd674bda2511d8e8",
 'slope|rand-float32-3x3|res-list|0|np': "numpy:slope:('dim_0', 'dim_1'):['res']:0030fd674bda2511d8e8",
 'slope|rand-float32-3x3|res1|0|dask0': "dask:slope:('dim_0', 'dim_1'):['res']:bb4614cd178f1654ec21",
 'slope|rand-float32-3x3|res1|0|dask2': "dask:slope:('dim_0', 'dim_1'):['res']:bb4614cd178f1654ec21",
 'slope|rand-float32-3x3|res1|0|np': "numpy:slope:('dim_0', 'dim_1'):['res']:bb4614cd178f1654ec21",
 'slope|rand-float32-4x5|coords|0|dask0': "dask:slope:('y', 'x'):[]:8742cf17b18eb30bffc0",
 'slope|rand-float32-4x5|coords|0|dask2': "dask:slope:('y', 'x'):[]:8742cf17b18eb30bffc0",
 'slope|rand-float32-4x5|coords|0|np': "numpy:slope:('y', 'x'):[]:8742cf17b18eb30bffc0",
 'slope|rand-float32-4x5|nocoords|0|dask0': "dask:slope:('dim_0', 'dim_1'):[]:4e432768588a403ca478",
 'slope|rand-float32-4x5|nocoords|0|dask2': "dask:slope:('dim_0', 'dim_1'):[]:4e432768588a403ca478",
 'slope|rand-float32-4x5|nocoords|0|np': "numpy:slope:('dim_0', 'dim_1'):[]:4e432768588a403ca478",
 'slope|rand-float32-4x5|res-float-xy|0|dask0': "dask:slope:('dim_0', 'dim_1'):['res']:0ad27ff814bfe00c4678",
 'slope|rand-float32-4x5|res-float-xy|0|dask2': "dask:slope:('dim_0', 'dim_1'):['res']:0ad27ff814bfe00c4678",
 'slope|rand-float32-4x5|res-float-xy|0|np': "numpy:slope:('dim_0', 'dim_1'):['res']:0ad27ff814bfe00c4678",
 'slope|rand-float32-4x5|res-int-xy|0|dask0': "dask:slope:('dim_0', 'dim_1'):['res']:5195539fd08b6fd51c6e",
 'slope|rand-float32-4x5|res-int-xy|0|dask2': "dask:slope:('dim_0', 'dim_1'):['res']:5195539fd08b6fd51c6e",
 'slope|rand-float32-4x5|res-int-xy|0|np': "numpy:slope:('dim_0', 'dim_1'):['res']:5195539fd08b6fd51c6e",
 'slope|rand-float32-4x5|res-list|0|dask0': "dask:slope:('dim_0', 'dim_1'):['res']:a0ec169326c22a22ea29",
 'slope|rand-float32-4x5|res-list|0|dask2': "dask:slope:('dim_0', 'dim_1'):['res']:a0ec169326c22a22ea29",
 'slope|rand-float32-4x5|res-list|0|np': "numpy:slope:('dim_0', 'dim_1'):['res']:a0ec169326c22a22ea29",
 'slope|rand-float32-4x5|res1|0|dask0': "dask:slope:('dim_0', 'dim_1'):['res']:4e432768588a403ca478",
 'slope|rand-float32-4x5|res1|0|dask2': "dask:slope:('dim_0', 'dim_1'):['res']:4e432768588a403ca478",
 'slope|rand-float32-4x5|res1|0|np': "numpy:slope:('dim_0', 'dim_1'):['res']:4e432768588a403ca478",
 'slope|rand-float32-5x1|coords|0|np': 'EXC:ZeroDivisionError',
 'slope|rand-float32-5x1|nocoords|0|np': 'EXC:ZeroDivisionError',
 'slope|rand-float32-5x1|res-float-xy|0|np': "numpy:slope:('dim_0', 'dim_1'):['res']:b7b3eb8c49ab9b0981d2",
 'slope|rand-float32-5x1|res-int-xy|0|np': "numpy:slope:('dim_0', 'dim_1'):['res']:b7b3eb8c49ab9b0981d2",
 'slope|rand-float32-5x1|res-list|0|np': "numpy:slope:('dim_0', 'dim_1'):['res']:b7b3eb8c49ab9b0981d2",
 'slope|rand-float32-5x1|res1|0|np': "numpy:slope:('dim_0', 'dim_1'):['res']:b7b3eb8c49ab9b0981d2",
 'slope|rand-float32-7x11|coords|0|dask1': "dask:slope:('y', 'x'):[]:1e77f047060e86c50a80",
 'slope|rand-float32-7x11|coords|0|dask3': "dask:slope:('y', 'x'):[]:1e77f047060e86c50a80",
 'slope|rand-float32-7x11|coords|0|np': "numpy:slope:('y', 'x'):[]:1e77f047060e86c50a80",
 'slope|rand-float32-7x11|nocoords|0|dask1': "dask:slope:('dim_0', 'dim_1'):[]:69381f3592043ba8f0e8",
 'slope|rand-float32-7x11|nocoords|0|dask3': "dask:slope:('dim_0', 'dim_1'):[]:69381f3592043ba8f0e8",
 'slope|rand-float32-7x11|nocoords|0|np': "numpy:slope:('dim_0', 'dim_1'):[]:69381f3592043ba8f0e8",
 'slope|rand-float32-7x11|res-float-xy|0|dask1': "dask:slope:('dim_0', 'dim_1'):['res']:06c717d52c3048c3da41",
 'slope|rand-float32-7x11|res-float-xy|0|dask3': "dask:slope:('dim_0', 'dim_1'):['res']:06c717d52c3048c3da41",
 'slope|rand-float32-7x11|res-float-xy|0|np': "numpy:slope:('dim_0', 'dim_1'):['res']:06c717d52c3048c3da41",
 'slope|rand-float32-7x11|res-int-xy|0|dask1': "dask:slope:('dim_0', 'dim_1'):['res']:b724c37d30cf974c882a",
 'slope|rand-float32-7x11|res-int-xy|0|dask3': "dask:slope:('dim_0', 'dim_1'):['res']:b724c37d30cf974c882a",
 'slope|rand-float32-7x11|res-int-xy|0|np': "numpy:slope:('dim_0', 'dim_1'):['res']:b724c37d30cf974c882a",
 'slope|rand-float32-7x11|res-list|0|dask1': "dask:slope:('dim_0', 'dim_1'):['res']:b2120404847787b77bd4",
 'slope|rand-float32-7x11|res-list|0|dask3': "dask:slope:('dim_0', 'dim_1'):['res']:b2120404847787b77bd4",
 'slope|rand-float32-7x11|res-list|0|np': "numpy:slope:('dim_0', 'dim_1'):['res']:b2120404847787b77bd4",
 'slope|rand-float32-7x11|res1|0|dask1': "dask:slope:('dim_0', 'dim_1'):['res']:69381f3592043ba8f0e8",
 'slope|rand-float32-7x11|res1|0|dask3': "dask:slope:('dim_0', 'dim_1'):['res']:69381f3592043ba8f0e8",
 'slope|rand-float32-7x11|res1|0|np': "numpy:slope:('dim_0', 'dim_1'):['res']:69381f3592043ba8f0e8",
 'slope|rand-float64-13x8|coords|0|dask1': "dask:slope:('y', 'x'):[]:eb12b5283e3256aa8d28",
 'slope|rand-float64-13x8|coords|0|dask3': "dask:slope:('y', 'x'):[]:eb12b5283e3256aa8d28",
 'slope|rand-float64-13x8|coords|0|np': "numpy:slope:('y', 'x'):[]:eb12b5283e3256aa8d28",
 'slope|rand-float64-13x8|nocoords|0|dask1': "dask:slope:('dim_0', 'dim_1'):[]:5da34438f1d52a71798d",
 'slope|rand-float64-13x8|nocoords|0|dask3': "dask:slope:('dim_0', 'dim_1'):[]:5da34438f1d52a71798d",
 'slope|rand-float64-13x8|nocoords|0|np': "numpy:slope:('dim_0', 'dim_1'):[]:5da34438f1d52a71798d",
 'slope|rand-float64-13x8|res-float-xy|0|dask1': "dask:slope:('dim_0', 'dim_1'):['res']:5bc644387fdadb1c921a",
 'slope|rand-float64-13x8|res-float-xy|0|dask3': "dask:slope:('dim_0', 'dim_1'):['res']:5bc644387fdadb1c921a",
 'slope|rand-float64-13x8|res-float-xy|0|np': "numpy:slope:('dim_0', 'dim_1'):['res']:5bc644387fdadb1c921a",
 'slope|rand-float64-13x8|res-int-xy|0|dask1': "dask:slope:('dim_0', 'dim_1'):['res']:f3a0059f60adbf5ca264",
 'slope|rand-float64-13x8|res-int-xy|0|dask3': "dask:slope:('dim_0', 'dim_1'):['res']:f3a0059f60adbf5ca264",
 'slope|rand-float64-13x8|res-int-xy|0|np': "numpy:slope:('dim_0', 'dim_1'):['res']:f3a0059f60adbf5ca264",
 'slope|rand-float64-13x8|res-list|0|dask1': "dask:slope:('dim_0', 'dim_1'):['res']:67c946d721c30938abd2",
 'slope|rand-float64-13x8|res-list|0|dask3': "dask:slope:('dim_0', 'dim_1'):['res']:67c946d721c30938abd2",
 'slope|rand-float64-13x8|res-list|0|np': "numpy:slope:('dim_0', 'dim_1'):['res']:67c946d721c30938abd2",
 'slope|rand-float64-13x8|res1|0|dask1': "dask:slope:('dim_0', 'dim_1'):['res']:5da34438f1d52a71798d",
 'slope|rand-float64-13x8|res1|0|dask3': "dask:slope:('dim_0', 'dim_1'):['res']:5da34438f1d52a71798d",
 'slope|rand-float64-13x8|res1|0|np': "numpy:slope:('dim_0', 'dim_1'):['res']:5da34438f1d52a71798d",
 'slope|rand-float64-1x5|coords|0|np': 'EXC:ZeroDivisionError',
 'slope|rand-float64-1x5|nocoords|0|np': 'EXC:ZeroDivisionError',
 'slope|rand-float64-1x5|res-float-xy|0|np': "numpy:slope:('dim_0', 'dim_1'):['res']:c5e61fa68aaa5fc3c79c",
 'slope|rand-float64-1x5|res-int-xy|0|np': "numpy:slope:('dim_0', 'dim_1'):['res']:c5e61fa68aaa5fc3c79c",
 'slope|rand-float64-1x5|res-list|0|np': "numpy:slope:('dim_0', 'dim_1'):['res']:c5e61fa68aaa5fc3c79c",
 'slope|rand-float64-1x5|res1|0|np': "numpy:slope:('dim_0', 'dim_1'):['res']:c5e61fa68aaa5fc3c79c",
 'slope|rand-float64-20x31|coords|0|dask0': "dask:slope:('y', 'x'):[]:d3cbab61bbb06eb571fa",
 'slope|rand-float64-20x31|coords|0|dask2': "dask:slope:('y', 'x'):[]:d3cbab61bbb06eb571fa",
 'slope|rand-float64-20x31|coords|0|np': "numpy:slope:('y', 'x'):[]:d3cbab61bbb06eb571fa",
 'slope|rand-float64-20x31|nocoords|0|dask0': "dask:slope:('dim_0', 'dim_1'):[]:4bc31baceda0d06b07e6",
 'slope|rand-float64-20x31|nocoords|0|dask2': "dask:slope:('dim_0', 'dim_1'):[]:4bc31baceda0d06b07e6",
 'slope|rand-float64-20x31|nocoords|0|np': "numpy:slope:('dim_0', 'dim_1'):[]:4bc31baceda0d06b07e6",
 'slope|rand-float64-20x31|res-float-xy|0|dask0': "dask:slope:('dim_0', 'dim_1'):['res']:dd70f9ed9fc610a504ff",
 'slope|rand-float64-20x31|res-float-xy|0|dask2': "dask:slope:('dim_0', 'dim_1'):['res']:dd70f9ed9fc610a504ff",
 'slope|rand-float64-20x31|res-float-xy|0|np': "numpy:slope:('dim_0', 'dim_1'):['res']:dd70f9ed9fc610a504ff",
 'slope|rand-float64-20x31|res-int-xy|0|dask0': "dask:slope:('dim_0', 'dim_1'):['res']:48927f71e27cf4d9f771",
 'slope|rand-float64-20x31|res-int-xy|0|dask2': "dask:slope:('dim_0', 'dim_1'):['res']:48927f71e27cf4d9f771",
 'slope|rand-float64-20x31|res-int-xy|0|np': "numpy:slope:('dim_0', 'dim_1'):['res']:48927f71e27cf4d9f771",
 'slope|rand-float64-20x31|res-list|0|dask0': "dask:slope:('dim_0', 'dim_1'):['res']:12cb90b3f34feb1fc420",
 'slope|rand-float64-20x31|res-list|0|dask2': "dask:slope:('dim_0', 'dim_1'):['res']:12cb90b3f34feb1fc420",
 'slope|rand-float64-20x31|res-list|0|np': "numpy:slope:('dim_0', 'dim_1'):['res']:12cb90b3f34feb1fc420",
 'slope|rand-float64-20x31|res1|0|dask0': "dask:slope:('dim_0', 'dim_1'):['res']:4bc31baceda0d06b07e6",
 'slope|rand-float64-20x31|res1|0|dask2': "dask:slope:('dim_0', 'dim_1'):['res']:4bc31baceda0d06b07e6",
 'slope|rand-float64-20x31|res1|0|np': "numpy:slope:('dim_0', 'dim_1'):['res']:4bc31baceda0d06b07e6",
 'slope|rand-float64-2x2|coords|0|dask0': "dask:slope:('y', 'x'):[]:10ed4916970c06e68e5a",
 'slope|rand-float64-2x2|coords|0|dask2': "dask:slope:('y', 'x'):[]:10ed4916970c06e68e5a",
 'slope|rand-float64-2x2|coords|0|np': "numpy:slope:('y', 'x'):[]:10ed4916970c06e68e5a",
 'slope|rand-float64-2x2|nocoords|0|dask0': "dask:slope:('dim_0', 'dim_1'):[]:10ed4916970c06e68e5a",
 'slope|rand-float64-2x2|nocoords|0|dask2': "dask:slope:('dim_0', 'dim_1'):[]:10ed4916970c06e68e5a",
 'slope|rand-float64-2x2|nocoords|0|np': "numpy:slope:('dim_0', 'dim_1'):[]:10ed4916970c06e68e5a",
 'slope|rand-float64-2x2|res-float-xy|0|dask0': "dask:slope:('dim_0', 'dim_1'):['res']:10ed4916970c06e68e5a",
 'slope|rand-float64-2x2|res-float-xy|0|dask2': "dask:slope:('dim_0', 'dim_1'):['res']:10ed4916970c06e68e5a",
 'slope|rand-float64-2x2|res-float-xy|0|np': "numpy:slope:('dim_0', 'dim_1'):['res']:10ed4916970c06e68e5a",
 'slope|rand-float64-2x2|res-int-xy|0|dask0': "dask:slope:('dim_0', 'dim_1'):['res']:10ed4916970c06e68e5a",
 'slope|rand-float64-2x2|res-int-xy|0|dask2': "dask:slope:('dim_0', 'dim_1'):['res']:10ed4916970c06e68e5a",
 'slope|rand-float64-2x2|res-int-xy|0|np': "numpy:slope:('dim_0', 'dim_1'):['res']:10ed4916970c06e68e5a",
 'slope|rand-float64-2x2|res-list|0|dask0': "dask:slope:('dim_0', 'dim_1'):['res']:10ed4916970c06e68e5a",
 'slope|rand-float64-2x2|res-list|0|dask2': "dask:slope:('dim_0', 'dim_1'):['res']:10ed4916970c06e68e5a",
 'slope|rand-float64-2x2|res-list|0|np': "numpy:slope:('dim_0', 'dim_1'):['res']:10ed4916970c06e68e5a",
 'slope|rand-float64-2x2|res1|0|dask0': "dask:slope:('dim_0', 'dim_1'):['res']:10ed4916970c06e68e5a",
 'slope|rand-float64-2x2|res1|0|dask2': "dask:slope:('dim_0', 'dim_1'):['res']:10ed4916970c06e68e5a",
 'slope|rand-float64-2x2|res1|0|np': "numpy:slope:('dim_0', 'dim_1'):['res']:10ed4916970c06e68e5a",
 'slope|rand-float64-3x3|coords|0|dask0': "dask:slope:('y', 'x'):[]:5a9a4742652a971acbec",
 'slope|rand-float64-3x3|coords|0|dask2': "dask:slope:('y', 'x'):[]:5a9a4742652a971acbec",
 'slope|rand-float64-3x3|coords|0|np': "numpy:slope:('y', 'x'):[]:5a9a4742652a971acbec",
 'slope|rand-float64-3x3|nocoords|0|dask0': "dask:slope:('dim_0', 'dim_1'):[]:c62b939ce61b05103317",
 'slope|rand-float64-3x3|nocoords|0|dask2': "dask:slope:('dim_0', 'dim_1'):[]:c62b939ce61b05103317",
 'slope|rand-float64-3x3|nocoords|0|np': "numpy:slope:('dim_0', 'dim_1'):[]:c62b939ce61b05103317",
 'slope|rand-float64-3x3|res-float-xy|0|dask0': "dask:slope:('dim_0', 'dim_1'):['res']:2993faa330b9f68a8bfc",
 'slope|rand-float64-3x3|res-float-xy|0|dask2': "dask:slope:('dim_0', 'dim_1'):['res']:2993faa330b9f68a8bfc",
 'slope|rand-float64-3x3|res-float-xy|0|np': "numpy:slope:('dim_0', 'dim_1'):['res']:2993faa330b9f68a8bfc",
 'slope|rand-float64-3x3|res-int-xy|0|dask0': "dask:slope:('dim_0', 'dim_1'):['res']:242de07e80aeef2f0513",
 'slope|rand-float64-3x3|res-int-xy|0|dask2': "dask:slope:('dim_0', 'dim_1'):['res']:242de07e80aeef2f0513",
 'slope|rand-float64-3x3|res-int-xy|0|np': "numpy:slope:('dim_0', 'dim_1'):['res']:242de07e80aeef2f0513",
 'slope|rand-float64-3x3|res-list|0|dask0': "dask:slope:('dim_0', 'dim_1'):['res']:01b697d3f1ae814887bf",
 'slope|rand-float64-3x3|res-list|0|dask2': "dask:slope:('dim_0', 'dim_1'):['res']:01b697d3f1ae814887bf",
 'slope|rand-float64-3x3|res-list|0|np': "numpy:slope:('dim_0', 'dim_1'):['res']:01b697d3f1ae814887bf",
 'slope|rand-float64-3x3|res1|0|dask0': "dask:slope:('dim_0', 'dim_1'):['res']:c62b939ce61b05103317",
 'slope|rand-float64-3x3|res1|0|dask2': "dask:slope:('dim_0', 'dim_1'):['res']:c62b939ce61b05103317",
 'slope|rand-float64-3x3|res1|0|np': "numpy:slope:('dim_0', 'dim_1'):['res']:c62b939ce61b05103317",
 'slope|rand-float64-4x5|coords|0|dask0': "dask:slope:('y', 'x'):[]:9a544fe61ab60a87c0b6",
 'slope|rand-float64-4x5|coords|0|dask2': "dask:slope:('y', 'x'):[]:9a544fe61ab60a87c0b6",
 'slope|rand-float64-4x5|coords|0|np': "numpy:slope:('y', 'x'):[]:9a544fe61ab60a87c0b6",
 'slope|rand-float64-4x5|nocoords|0|dask0': "dask:slope:('dim_0', 'dim_1'):[]:ef210ed033c2d269f903",
 'slope|rand-float64-4x5|nocoords|0|dask2': "dask:slope:('dim_0', 'dim_1'):[]:ef210ed033c2d269f903",
 'slope|rand-float64-4x5|nocoords|0|np': "numpy:slope:('dim_0', 'dim_1'):[]:ef210ed033c2d269f903",
 'slope|rand-float64-4x5|res-float-xy|0|dask0': "dask:slope:('dim_0', 'dim_1'):['res']:3f1f724850fb617abe07",
 'slope|rand-float64-4x5|res-float-xy|0|dask2': "dask:slope:('dim_0', 'dim_1'):['res']:3f1f724850fb617abe07",
 'slope|rand-float64-4x5|res-float-xy|0|np': "numpy:slope:('dim_0', 'dim_1'):['res']:3f1f724850fb617abe07",
 'slope|rand-float64-4x5|res-int-xy|0|dask0': "dask:slope:('dim_0', 'dim_1'):['res']:0127c57a88db8effc267",
 'slope|rand-float64-4x5|res-int-xy|0|dask2': "dask:slope:('dim_0', 'dim_1'):['res']:0127c57a88db8effc267",
 'slope|rand-float64-4x5|res-int-xy|0|np': "numpy:slope:('dim_0', 'dim_1'):['res']:0127c57a88db8effc267",
 'slope|rand-float64-4x5|res-list|0|dask0': "dask:slope:('dim_0', 'dim_1'):['res']:e870ffc085c31ea13a05",
 'slope|rand-float64-4x5|res-list|0|dask2': "dask:slope:('dim_0', 'dim_1'):['res']:e870ffc085c31ea13a05",
 'slope|rand-float64-4x5|res-list|0|np': "numpy:slope:('dim_0', 'dim_1'):['res']:e870ffc085c31ea13a05",
 'slope|rand-float64-4x5|res1|0|dask0': "dask:slope:('dim_0', 'dim_1'):['res']:ef210ed033c2d269f903",
 'slope|rand-float64-4x5|res1|0|dask2': "dask:slope:('dim_0', 'dim_1'):['res']:ef210ed033c2d269f903",
 'slope|rand-float64-4x5|res1|0|np': "numpy:slope:('dim_0', 'dim_1'):['res']:ef210ed033c2d269f903",
 'slope|rand-float64-5x1|coords|0|np': 'EXC:ZeroDivisionError',
 'slope|rand-float64-5x1|nocoords|0|np': 'EXC:ZeroDivisionError',
 'slope|rand-float64-5x1|res-float-xy|0|np': "numpy:slope:('dim_0', 'dim_1'):['res']:b7b3eb8c49ab9b0981d2",
 'slope|rand-float64-5x1|res-int-xy|0|np': "numpy:slope:('dim_0', 'dim_1'):['res']:b7b3eb8c49ab9b0981d2",
 'slope|rand-float64-5x1|res-list|0|np': "numpy:slope:('dim_0', 'dim_1'):['res']:b7b3eb8c49ab9b0981d2",
 'slope|rand-float64-5x1|res1|0|np': "numpy:slope:('dim_0', 'dim_1'):['res']:b7b3eb8c49ab9b0981d2",
 'slope|rand-float64-7x11|coords|0|dask1': "dask:slope:('y', 'x'):[]:4cc08264b5c9d97b1bd3",
 'slope|rand-float64-7x11|coords|0|dask3': "dask:slope:('y', 'x'):[]:4cc08264b5c9d97b1bd3",
 'slope|rand-float64-7x11|coords|0|np': "numpy:slope:('y', 'x'):[]:4cc08264b5c9d97b1bd3",
 'slope|rand-float64-7x11|nocoords|0|dask1': "dask:slope:('dim_0', 'dim_1'):[]:86e8215fb58b8ab45a67",
 'slope|rand-float64-7x11|nocoords|0|dask3': "dask:slope:('dim_0', 'dim_1'):[]:86e8215fb58b8ab45a67",
 'slope|rand-float64-7x11|nocoords|0|np': "numpy:slope:('dim_0', 'dim_1'):[]:86e8215fb58b8ab45a67",
 'slope|rand-float64-7x11|res-float-xy|0|dask1': "dask:slope:('dim_0', 'dim_1'):['res']:df59388042b97a33f6eb",
 'slope|rand-float64-7x11|res-float-xy|0|dask3': "dask:slope:('dim_0', 'dim_1'):['res']:df59388042b97a33f6eb",
 'slope|rand-float64-7x11|res-float-xy|0|np': "numpy:slope:('dim_0', 'dim_1'):['res']:df59388042b97a33f6eb",
 'slope|rand-float64-7x11|res-int-xy|0|dask1': "dask:slope:('dim_0', 'dim_1'):['res']:df4500d222c1729a1f0c",
 'slope|rand-float64-7x11|res-int-xy|0|dask3': "dask:slope:('dim_0', 'dim_1'):['res']:df4500d222c1729a1f0c",
 'slope|rand-float64-7x11|res-int-xy|0|np': "numpy:slope:('dim_0', 'dim_1'):['res']:df4500d222c1729a1f0c",
 'slope|rand-float64-7x11|res-list|0|dask1': "dask:slope:('dim_0', 'dim_1'):['res']:20acfc92bc2e70cd65dd",
 'slope|rand-float64-7x11|res-list|0|dask3': "dask:slope:('dim_0', 'dim_1'):['res']:20acfc92bc2e70cd65dd",
 'slope|rand-float64-7x11|res-list|0|np': "numpy:slope:('dim_0', 'dim_1'):['res']:20acfc92bc2e70cd65dd",
 'slope|rand-float64-7x11|res1|0|dask1': "dask:slope:('dim_0', 'dim_1'):['res']:86e8215fb58b8ab45a67",
 'slope|rand-float64-7x11|res1|0|dask3': "dask:slope:('dim_0', 'dim_1'):['res']:86e8215fb58b8ab45a67",
 'slope|rand-float64-7x11|res1|0|np': "numpy:slope:('dim_0', 'dim_1'):['res']:86e8215fb58b8ab45a67",
 'slope|rand-int16-13x8|coords|0|dask1': "dask:slope:('y', 'x'):[]:a9537ebcc444a5ddd218",
 'slope|rand-int16-13x8|coords|0|dask3': "dask:slope:('y', 'x'):[]:a9537ebcc444a5ddd218",
 'slope|rand-int16-13x8|coords|0|np': "numpy:slope:('y', 'x'):[]:a9537ebcc444a5ddd218",
 'slope|rand-int16-13x8|nocoords|0|dask1': "dask:slope:('dim_0', 'dim_1'):[]:5969bebef0947accc174",
 'slope|rand-int16-13x8|nocoords|0|dask3': "dask:slope:('dim_0', 'dim_1'):[]:5969bebef0947accc174",
 'slope|rand-int16-13x8|nocoords|0|np': "numpy:slope:('dim_0', 'dim_1'):[]:5969bebef0947accc174",
 'slope|rand-int16-13x8|res-float-xy|0|dask1': "dask:slope:('dim_0', 'dim_1'):['res']:36d2a3441f410c9cbbed",
 'slope|rand-int16-13x8|res-float-xy|0|dask3': "dask:slope:('dim_0', 'dim_1'):['res']:36d2a3441f410c9cbbed",
 'slope|rand-int16-13x8|res-float-xy|0|np': "numpy:slope:('dim_0', 'dim_1'):['res']:36d2a3441f410c9cbbed",
 'slope|rand-int16-13x8|res-int-xy|0|dask1': "dask:slope:('dim_0', 'dim_1'):['res']:d320d9043146d17c60d6",
 'slope|rand-int16-13x8|res-int-xy|0|dask3': "dask:slope:('dim_0', 'dim_1'):['res']:d320d9043146d17c60d6",
 'slope|rand-int16-13x8|res-int-xy|0|np': "numpy:slope:('dim_0', 'dim_1'):['res']:d320d9043146d17c60d6",
 'slope|rand-int16-13x8|res-list|0|dask1': "dask:slope:('dim_0', 'dim_1'):['res']:0f2880bdaf0a5d8e5412",
 'slope|rand-int16-13x8|res-list|0|dask3': "dask:slope:('dim_0', 'dim_1'):['res']:0f2880bdaf0a5d8e5412",
 'slope|rand-int16-13x8|res-list|0|np': "numpy:slope:('dim_0', 'dim_1'):['res']:0f2880bdaf0a5d8e5412",
 'slope|rand-int16-13x8|res1|0|dask1': "dask:slope:('dim_0', 'dim_1'):['res']:5969bebef0947accc174",
 'slope|rand-int16-13x8|res1|0|dask3': "dask:slope:('dim_0', 'dim_1'):['res']:5969bebef0947accc174",
 'slope|rand-int16-13x8|res1|0|np': "numpy:slope:('dim_0', 'dim_1'):['res']:5969bebef0947accc174",
 'slope|rand-int16-1x5|coords|0|np': 'EXC:ZeroDivisionError',
 'slope|rand-int16-1x5|nocoords|0|np': 'EXC:ZeroDivisionError',
 'slope|rand-int16-1x5|res-float-xy|0|np': "numpy:slope:('dim_0', 'dim_1'):['res']:c5e61fa68aaa5fc3c79c",
 'slope|rand-int16-1x5|res-int-xy|0|np': "numpy:slope:('dim_0', 'dim_1'):['res']:c5e61fa68aaa5fc3c79c",
 'slope|rand-int16-1x5|res-list|0|np': "numpy:slope:('dim_0', 'dim_1'):['res']:c5e61fa68aaa5fc3c79c",
 'slope|rand-int16-1x5|res1|0|np': "numpy:slope:('dim_0', 'dim_1'):['res']:c5e61fa68aaa5fc3c79c",
 'slope|rand-int16-20x31|coords|0|dask0': "dask:slope:('y', 'x'):[]:829f17e52d90fd76bcbd",
 'slope|rand-int16-20x31|coords|0|dask2': "dask:slope:('y', 'x'):[]:829f17e52d90fd76bcbd",
 'slope|rand-int16-20x31|coords|0|np': "numpy:slope:('y', 'x'):[]:829f17e52d90fd76bcbd",
 'slope|rand-int16-20x31|nocoords|0|dask0': "dask:slope:('dim_0', 'dim_1'):[]:4da79612a67854aea4ca",
 'slope|rand-int16-20x31|nocoords|0|dask2': "dask:slope:('dim_0', 'dim_1'):[]:4da79612a67854aea4ca",
 'slope|rand-int16-20x31|nocoords|0|np': "numpy:slope:('dim_0', 'dim_1'):[]:4da79612a67854aea4ca",
 'slope|rand-int16-20x31|res-float-xy|0|dask0': "dask:slope:('dim_0', 'dim_1'):['res']:7881ad075caa15b83af8",
 'slope|rand-int16-20x31|res-float-xy|0|dask2': "dask:slope:('dim_0', 'dim_1'):['res']:7881ad075caa15b83af8",
 'slope|rand-int16-20x31|res-float-xy|0|np': "numpy:slope:('dim_0', 'dim_1'):['res']:7881ad075caa15b83af8",
 'slope|rand-int16-20x31|res-int-xy|0|dask0': "dask:slope:('dim_0', 'dim_1'):['res']:a72103924a824cfecb32",
 'slope|rand-int16-20x31|res-int-xy|0|dask2': "dask:slope:('dim_0', 'dim_1'):['res']:a72103924a824cfecb32",
 'slope|rand-int16-20x31|res-int-xy|0|np': "numpy:slope:('dim_0', 'dim_1'):['res']:a72103924a824cfecb32",
 'slope|rand-int16-20x31|res-list|0|dask0': "dask:slope:('dim_0', 'dim_1'):['res']:32000276f320dc49c1bb",
 'slope|rand-int16-20x31|res-list|0|dask2': "dask:slope:('dim_0', 'dim_1'):['res']:32000276f320dc49c1bb",
 'slope|rand-int16-20x31|res-list|0|np': "numpy:slope:('dim_0', 'dim_1'):['res']:32000276f320dc49c1bb",
 'slope|rand-int16-20x31|res1|0|dask0': "dask:slope:('dim_0', 'dim_1'):['res']:4da79612a67854aea4ca",
 'slope|rand-int16-20x31|res1|0|dask2': "dask:slope:('dim_0', 'dim_1'):['res']:4da79612a67854aea4ca",
 'slope|rand-int16-20x31|res1|0|np': "numpy:slope:('dim_0', 'dim_1'):['res']:4da79612a67854aea4ca",
 'slope|rand-int16-2x2|coords|0|dask0': "dask:slope:('y', 'x'):[]:10ed4916970c06e68e5a",
 'slope|rand-int16-2x2|coords|0|dask2': "dask:slope:('y', 'x'):[]:10ed4916970c06e68e5a",
 'slope|rand-int16-2x2|coords|0|np': "numpy:slope:('y', 'x'):[]:10ed4916970c06e68e5a",
 'slope|rand-int16-2x2|nocoords|0|dask0': "dask:slope:('dim_0', 'dim_1'):[]:10ed4916970c06e68e5a",
 'slope|rand-int16-2x2|nocoords|0|dask2': "dask:slope:('dim_0', 'dim_1'):[]:10ed4916970c06e68e5a",
 'slope|rand-int16-2x2|nocoords|0|np': "numpy:slope:('dim_0', 'dim_1'):[]:10ed4916970c06e68e5a",
 'slope|rand-int16-2x2|res-float-xy|0|dask0': "dask:slope:('dim_0', 'dim_1'):['res']:10ed4916970c06e68e5a",
 'slope|rand-int16-2x2|res-float-xy|0|dask2': "dask:slope:('dim_0', 'dim_1'):['res']:10ed4916970c06e68e5a",
 'slope|rand-int16-2x2|res-float-xy|0|np': "numpy:slope:('dim_0', 'dim_1'):['res']:10ed4916970c06e68e5a",
 'slope|rand-int16-2x2|res-int-xy|0|dask0': "dask:slope:('dim_0', 'dim_1'):['res']:10ed4916970c06e68e5a",
 'slope|rand-int16-2x2|res-int-xy|0|dask2': "dask:slope:('dim_0', 'dim_1'):['res']:10ed4916970c06e68e5a",
 'slope|rand-int16-2x2|res-int-xy|0|np': "numpy:slope:('dim_0', 'dim_1'):['res']:10ed4916970c06e68e5a",
 'slope|rand-int16-2x2|res-list|0|dask0': "dask:slope:('dim_0', 'dim_1'):['res']:10ed4916970c06e68e5a",
 'slope|rand-int16-2x2|res-list|0|dask2': "dask:slope:('dim_0', 'dim_1'):['res']:10ed4916970c06e68e5a",
 'slope|rand-int16-2x2|res-list|0|np': "numpy:slope:('dim_0', 'dim_1'):['res']:10ed4916970c06e68e5a",
 'slope|rand-int16-2x2|res1|0|dask0': "dask:slope:('dim_0', 'dim_1'):['res']:10ed4916970c06e68e5a",
 'slope|rand-int16-2x2|res1|0|dask2': "dask:slope:('dim_0', 'dim_1'):['res']:10ed4916970c06e68e5a",
 'slope|rand-int16-2x2|res1|0|np': "numpy:slope:('dim_0', 'dim_1'):['res']:10ed4916970c06e68e5a",
 'slope|rand-int16-3x3|coords|0|dask0': "dask:slope:('y', 'x'):[]:e20d8afe371494141771",
 'slope|rand-int16-3x3|coords|0|dask2': "dask:slope:('y', 'x'):[]:e20d8afe371494141771",
 'slope|rand-int16-3x3|coords|0|np': "numpy:slope:('y', 'x'):[]:e20d8afe371494141771",
 'slope|rand-int16-3x3|nocoords|0|dask0': "dask:slope:('dim_0', 'dim_1'):[]:5238cdabdce0a92c81ac",
 'slope|rand-int16-3x3|nocoords|0|dask2': "dask:slope:('dim_0', 'dim_1'):[]:5238cdabdce0a92c81ac",
 'slope|rand-int16-3x3|nocoords|0|np': "numpy:slope:('dim_0', 'dim_1'):[]:5238cdabdce0a92c81ac",
 'slope|rand-int16-3x3|res-float-xy|0|dask0': "dask:slope:('dim_0', 'dim_1'):['res']:f3571d67695f059563d5",
 'slope|rand-int16-3x3|res-float-xy|0|dask2': "dask:slope:('dim_0', 'dim_1'):['res']:f3571d67695f059563d5",
 'slope|rand-int16-3x3|res-float-xy|0|np': "numpy:slope:('dim_0', 'dim_1'):['res']:f3571d67695f059563d5",
 'slope|rand-int16-3x3|res-int-xy|0|dask0': "dask:slope:('dim_0', 'dim_1'):['res']:d13b821b70f7c597bddf",
 'slope|rand-int16-3x3|res-int-xy|0|dask2': "dask:slope:('dim_0', 'dim_1'):['res']:d13b821b70f7c597bddf",
 'slope|rand-int16-3x3|res-int-xy|0|np': "numpy:slope:('dim_0', 'dim_1'):['res']:d13b821b70f7c597bddf",
 'slope|rand-int16-3x3|res-list|0|dask0': "dask:slope:('dim_0', 'dim_1'):['res']:8071f267dfb86b6841b6",
 'slope|rand-int16-3x3|res-list|0|dask2': "dask:slope:('dim_0', 'dim_1'):['res']:8071f267dfb86b6841b6",
 'slope|rand-int16-3x3|res-list|0|np': "numpy:slope:('dim_0', 'dim_1'):['res']:8071f267dfb86b6841b6",
 'slope|rand-int16-3x3|res1|0|dask0': "dask:slope:('dim_0', 'dim_1'):['res']:5238cdabdce0a92c81ac",
 'slope|rand-int16-3x3|res1|0|dask2': "dask:slope:('dim_0', 'dim_1'):['res']:5238cdabdce0a92c81ac",
 'slope|rand-int16-3x3|res1|0|np': "numpy:slope:('dim_0', 'dim_1'):['res']:5238cdabdce0a92c81ac",
 'slope|rand-int16-4x5|coords|0|dask0': "dask:slope:('y', 'x'):[]:7e561ebe3c92011d1554",
 'slope|rand-int16-4x5|coords|0|dask2': "dask:slope:('y', 'x'):[]:7e561ebe3c92011d1554",
 'slope|rand-int16-4x5|coords|0|np': "numpy:slope:('y', 'x'):[]:7e561ebe3c92011d1554",
 'slope|rand-int16-4x5|nocoords|0|dask0': "dask:slope:('dim_0', 'dim_1'):[]:34c51ef1912492b6b444",
 'slope|rand-int16-4x5|nocoords|0|dask2': "dask:slope:('dim_0', 'dim_1'):[]:34c51ef1912492b6b444",
 'slope|rand-int16-4x5|nocoords|0|np': "numpy:slope:('dim_0', 'dim_1'):[]:34c51ef1912492b6b444",
 'slope|rand-int16-4x5|res-float-xy|0|dask0': "dask:slope:('dim_0', 'dim_1'):['res']:b6986083468234998be8",
 'slope|rand-int16-4x5|res-float-xy|0|dask2': "dask:slope:('dim_0', 'dim_1'):['res']:b6986083468234998be8",
 'slope|rand-int16-4x5|res-float-xy|0|np': "numpy:slope:('dim_0', 'dim_1'):['res']:b6986083468234998be8",
 'slope|rand-int16-4x5|res-int-xy|0|dask0': "dask:slope:('dim_0', 'dim_1'):['res']:6db60fe2a5b67ba6f3c5",
 'slope|rand-int16-4x5|res-int-xy|0|dask2': "dask:slope:('dim_0', 'dim_1'):['res']:6db60fe2a5b67ba6f3c5",
 'slope|rand-int16-4x5|res-int-xy|0|np': "numpy:slope:('dim_0', 'dim_1'):['res']:6db60fe2a5b67ba6f3c5",
 'slope|rand-int16-4x5|res-list|0|dask0': "dask:slope:('dim_0', 'dim_1'):['res']:2931518d0689fb844233",
 'slope|rand-int16-4x5|res-list|0|dask2': "dask:slope:('dim_0', 'dim_1'):['res']:2931518d0689fb844233",
 'slope|rand-int16-4x5|res-list|0|np': "numpy:slope:('dim_0', 'dim_1'):['res']:2931518d0689fb844233",
 'slope|rand-int16-4x5|res1|0|dask0': "dask:slope:('dim_0', 'dim_1'):['res']:34c51ef1912492b6b444",
 'slope|rand-int16-4x5|res1|0|dask2': "dask:slope:('dim_0', 'dim_1'):['res']:34c51ef1912492b6b444",
 'slope|rand-int16-4x5|res1|0|np': "numpy:slope:('dim_0', 'dim_1'):['res']:34c51ef1912492b6b444",
 'slope|rand-int16-5x1|coords|0|np': 'EXC:ZeroDivisionError',
 'slope|rand-int16-5x1|nocoords|0|np': 'EXC:ZeroDivisionError',
 'slope|rand-int16-5x1|res-float-xy|0|np': "numpy:slope:('dim_0', 'dim_1'):['res']:b7b3eb8c49ab9b0981d2",
 'slope|rand-int16-5x1|res-int-xy|0|np': "numpy:slope:('dim_0', 'dim_1'):['res']:b7b3eb8c49ab9b0981d2",
 'slope|rand-int16-5x1|res-list|0|np': "numpy:slope:('dim_0', 'dim_1'):['res']:b7b3eb8c49ab9b0981d2",
 'slope|rand-int16-5x1|res1|0|np': "numpy:slope:('dim_0', 'dim_1'):['res']:b7b3eb8c49ab9b0981d2",
 'slope|rand-int16-7x11|coords|0|dask1': "dask:slope:('y', 'x'):[]:9adc041d6efb1d953d57",
 'slope|rand-int16-7x11|coords|0|dask3': "dask:slope:('y', 'x'):[]:9adc041d6efb1d953d57",
 'slope|rand-int16-7x11|coords|0|np': "numpy:slope:('y', 'x'):[]:9adc041d6efb1d953d57",
 'slope|rand-int16-7x11|nocoords|0|dask1': "dask:slope:('dim_0', 'dim_1'):[]:65bda31c2d8643c0c6b9",
 'slope|rand-int16-7x11|nocoords|0|dask3': "dask:slope:('dim_0', 'dim_1'):[]:65bda31c2d8643c0c6b9",
 'slope|rand-int16-7x11|nocoords|0|np': "numpy:slope:('dim_0', 'dim_1'):[]:65bda31c2d8643c0c6b9",
 'slope|rand-int16-7x11|res-float-xy|0|dask1': "dask:slope:('dim_0', 'dim_1'):['res']:21cd9611940a6dece945",
 'slope|rand-int16-7x11|res-float-xy|0|dask3': "dask:slope:('dim_0', 'dim_1'):['res']:21cd9611940a6dece945",
 'slope|rand-int16-7x11|res-float-xy|0|np': "numpy:slope:('dim_0', 'dim_1'):['res']:21cd9611940a6dece945",
 'slope|rand-int16-7x11|res-int-xy|0|dask1': "dask:slope:('dim_0', 'dim_1'):['res']:b69e5e3777147d9a3eb1",
 'slope|rand-int16-7x11|res-int-xy|0|dask3': "dask:slope:('dim_0', 'dim_1'):['res']:b69e5e3777147d9a3eb1",
 'slope|rand-int16-7x11|res-int-xy|0|np': "numpy:slope:('dim_0', 'dim_1'):['res']:b69e5e3777147d9a3eb1",
 'slope|rand-int16-7x11|res-list|0|dask1': "dask:slope:('dim_0', 'dim_1'):['res']:dd907c54f70422585319",
 'slope|rand-int16-7x11|res-list|0|dask3': "dask:slope:('dim_0', 'dim_1'):['res']:dd907c54f70422585319",
 'slope|rand-int16-7x11|res-list|0|np': "numpy:slope:('dim_0', 'dim_1'):['res']:dd907c54f70422585319",
 'slope|rand-int16-7x11|res1|0|dask1': "dask:slope:('dim_0', 'dim_1'):['res']:65bda31c2d8643c0c6b9",
 'slope|rand-int16-7x11|res1|0|dask3': "dask:slope:('dim_0', 'dim_1'):['res']:65bda31c2d8643c0c6b9",
 'slope|rand-int16-7x11|res1|0|np': "numpy:slope:('dim_0', 'dim_1'):['res']:65bda31c2d8643c0c6b9",
 'slope|rand-int32-13x8|coords|0|dask1': "dask:slope:('y', 'x'):[]:e29e18fa825198f8d146",
 'slope|rand-int32-13x8|coords|0|dask3': "dask:slope:('y', 'x'):[]:e29e18fa825198f8d146",
 'slope|rand-int32-13x8|coords|0|np': "numpy:slope:('y', 'x'):[]:e29e18fa825198f8d146",
 'slope|rand-int32-13x8|nocoords|0|dask1': "dask:slope:('dim_0', 'dim_1'):[]:e73e2b22b002ca359bd8",
 'slope|rand-int32-13x8|nocoords|0|dask3': "dask:slope:('dim_0', 'dim_1'):[]:e73e2b22b002ca359bd8",
 'slope|rand-int32-13x8|nocoords|0|np': "numpy:slope:('dim_0', 'dim_1'):[]:e73e2b22b002ca359bd8",
 'slope|rand-int32-13x8|res-float-xy|0|dask1': "dask:slope:('dim_0', 'dim_1'):['res']:8b31f9d0180c294cd468",
 'slope|rand-int32-13x8|res-float-xy|0|dask3': "dask:slope:('dim_0', 'dim_1'):['res']:8b31f9d0180c294cd468",
 'slope|rand-int32-13x8|res-float-xy|0|np': "numpy:slope:('dim_0', 'dim_1'):['res']:8b31f9d0180c294cd468",
 'slope|rand-int32-13x8|res-int-xy|0|dask1': "dask:slope:('dim_0', 'dim_1'):['res']:2d693d08d447956c5c53",
 'slope|rand-int32-13x8|res-int-xy|0|dask3': "dask:slope:('dim_0', 'dim_1'):['res']:2d693d08d447956c5c53",
 'slope|rand-int32-13x8|res-int-xy|0|np': "numpy:slope:('dim_0', 'dim_1'):['res']:2d693d08d447956c5c53",
 'slope|rand-int32-13x8|res-list|0|dask1': "dask:slope:('dim_0', 'dim_1'):['res']:3b53168a28c7728e6f73",
 'slope|rand-int32-13x8|res-list|0|dask3': "dask:slope:('dim_0', 'dim_1'):['res']:3b53168a28c7728e6f73",
 'slope|rand-int32-13x8|res-list|0|np': "numpy:slope:('dim_0', 'dim_1'):['res']:3b53168a28c7728e6f73",
 'slope|rand-int32-13x8|res1|0|dask1': "dask:slope:('dim_0', 'dim_1'):['res']:e73e2b22b002ca359bd8",
 'slope|rand-int32-13x8|res1|0|dask3': "dask:slope:('dim_0', 'dim_1'):['res']:e73e2b22b002ca359bd8",
 'slope|rand-int32-13x8|res1|0|np': "numpy:slope:('dim_0', 'dim_1'):['res']:e73e2b22b002ca359bd8",
 'slope|rand-int32-1x5|coords|0|np': 'EXC:ZeroDivisionError',
 'slope|rand-int32-1x5|nocoords|0|np': 'EXC:ZeroDivisionError',
 'slope|rand-int32-1x5|res-float-xy|0|np': "numpy:slope:('dim_0', 'dim_1'):['res']:c5e61fa68aaa5fc3c79c",
 'slope|rand-int32-1x5|res-int-xy|0|np': "numpy:slope:('dim_0', 'dim_1'):['res']:c5e61fa68aaa5fc3c79c",
 'slope|rand-int32-1x5|res-list|0|np': "numpy:slope:('dim_0', 'dim_1'):['res']:c5e61fa68aaa5fc3c79c",
 'slope|rand-int32-1x5|res1|0|np': "numpy:slope:('dim_0', 'dim_1'):['res']:c5e61fa68aaa5fc3c79c",
 'slope|rand-int32-20x31|coords|0|dask0': "dask:slope:('y', 'x'):[]:1833fac4194d8d137306",
 'slope|rand-int32-20x31|coords|0|dask2': "dask:slope:('y', 'x'):[]:1833fac4194d8d137306",
 'slope|rand-int32-20x31|coords|0|np': "numpy:slope:('y', 'x'):[]:1833fac4194d8d137306",
 'slope|rand-int32-20x31|nocoords|0|dask0': "dask:slope:('dim_0', 'dim_1'):[]:f8e854a4314c665ec020",
 'slope|rand-int32-20x31|nocoords|0|dask2': "dask:slope:('dim_0', 'dim_1'):[]:f8e854a4314c665ec020",
 'slope|rand-int32-20x31|nocoords|0|np': "numpy:slope:('dim_0', 'dim_1'):[]:f8e854a4314c665ec020",
 'slope|rand-int32-20x31|res-float-xy|0|dask0': "dask:slope:('dim_0', 'dim_1'):['res']:bebdc1a78fb3411f0bda",
 'slope|rand-int32-20x31|res-float-xy|0|dask2': "dask:slope:('dim_0', 'dim_1'):['res']:bebdc1a78fb3411f0bda",
 'slope|rand-int32-20x31|res-float-xy|0|np': "numpy:slope:('dim_0', 'dim_1'):['res']:bebdc1a78fb3411f0bda",
 'slope|rand-int32-20x31|res-int-xy|0|dask0': "dask:slope:('dim_0', 'dim_1'):['res']:99ac95ce104938d3b60a",
 'slope|rand-int32-20x31|res-int-xy|0|dask2': "dask:slope:('dim_0', 'dim_1'):['res']:99ac95ce104938d3b60a",
 'slope|rand-int32-20x31|res-int-xy|0|np': "numpy:slope:('dim_0', 'dim_1'):['res']:99ac95ce104938d3b60a",
 'slope|rand-int32-20x31|res-list|0|dask0': "dask:slope:('dim_0', 'dim_1'):['res']:08c8110d51800f451e2b",
 'slope|rand-int32-20x31|res-list|0|dask2': "dask:slope:('dim_0', 'dim_1'):['res']:08c8110d51800f451e2b",
 'slope|rand-int32-20x31|res-list|0|np': "numpy:slope:('dim_0', 'dim_1'):['res']:08c8110d51800f451e2b",
 'slope|rand-int32-20x31|res1|0|dask0': "dask:slope:('dim_0', 'dim_1'):['res']:f8e854a4314c665ec020",
 'slope|rand-int32-20x31|res1|0|dask2': "dask:slope:('dim_0', 'dim_1'):['res']:f8e854a4314c665ec020",
 'slope|rand-int32-20x31|res1|0|np': "numpy:slope:('dim_0', 'dim_1'):['res']:f8e854a4314c665ec020",
 'slope|rand-int32-2x2|coords|0|dask0': "dask:slope:('y', 'x'):[]:10ed4916970c06e68e5a",
 'slope|rand-int32-2x2|coords|0|dask2': "dask:slope:('y', 'x'):[]:10ed4916970c06e68e5a",
 'slope|rand-int32-2x2|coords|0|np': "numpy:slope:('y', 'x'):[]:10ed4916970c06e68e5a",
 'slope|rand-int32-2x2|nocoords|0|dask0': "dask:slope:('dim_0', 'dim_1'):[]:10ed4916970c06e68e5a",
 'slope|rand-int32-2x2|nocoords|0|dask2': "dask:slope:('dim_0', 'dim_1'):[]:10ed4916970c06e68e5a",
 'slope|rand-int32-2x2|nocoords|0|np': "numpy:slope:('dim_0', 'dim_1'):[]:10ed4916970c06e68e5a",
 'slope|rand-int32-2x2|res-float-xy|0|dask0': "dask:slope:('dim_0', 'dim_1'):['res']:10ed4916970c06e68e5a",
 'slope|rand-int32-2x2|res-float-xy|0|dask2': "dask:slope:('dim_0', 'dim_1'):['res']:10ed4916970c06e68e5a",
 'slope|rand-int32-2x2|res-float-xy|0|np': "numpy:slope:('dim_0', 'dim_1'):['res']:10ed4916970c06e68e5a",
 'slope|rand-int32-2x2|res-int-xy|0|dask0': "dask:slope:('dim_0', 'dim_1'):['res']:10ed4916970c06e68e5a",
 'slope|rand-int32-2x2|res-int-xy|0|dask2': "dask:slope:('dim_0', 'dim_1'):['res']:10ed4916970c06e68e5a",
 'slope|rand-int32-2x2|res-int-xy|0|np': "numpy:slope:('dim_0', 'dim_1'):['res']:10ed4916970c06e68e5a",
 'slope|rand-int32-2x2|res-list|0|dask0': "dask:slope:('dim_0', 'dim_1'):['res']:10ed4916970c06e68e5a",
 'slope|rand-int32-2x2|res-list|0|dask2': "dask:slope:('dim_0', 'dim_1'):['res']:10ed4916970c06e68e5a",
 'slope|rand-int32-2x2|res-list|0|np': "numpy:slope:('dim_0', 'dim_1'):['res']:10ed4916970c06e68e5a",
 'slope|rand-int32-2x2|res1|0|dask0': "dask:slope:('dim_0', 'dim_1'):['res']:10ed4916970c06e68e5a",
 'slope|rand-int32-2x2|res1|0|dask2': "dask:slope:('dim_0', 'dim_1'):['res']:10ed4916970c06e68e5a",
 'slope|rand-int32-2x2|res1|0|np': "numpy:slope:('dim_0', 'dim_1'):['res']:10ed4916970c06e68e5a",
 'slope|rand-int32-3x3|coords|0|dask0': "dask:slope:('y', 'x'):[]:0c74aa253f397e5ae18e",
 'slope|rand-int32-3x3|coords|0|dask2': "dask:slope:('y', 'x'):[]:0c74aa253f397e5ae18e",
 'slope|rand-int32-3x3|coords|0|np': "numpy:slope:('y', 'x'):[]:0c74aa253f397e5ae18e",
 'slope|rand-int32-3x3|nocoords|0|dask0': "dask:slope:('dim_0', 'dim_1'):[]:9cdce45f13d315a6d2ea",
 'slope|rand-int32-3x3|nocoords|0|dask2': "dask:slope:('dim_0', 'dim_1'):[]:9cdce45f13d315a6d2ea",
 'slope|rand-int32-3x3|nocoords|0|np': "numpy:slope:('dim_0', 'dim_1'):[]:9cdce45f13d315a6d2ea",
 'slope|rand-int32-3x3|res-float-xy|0|dask0': "dask:slope:('dim_0', 'dim_1'):['res']:85426d0a5a71a6c5404f",
 'slope|rand-int32-3x3|res-float-xy|0|dask2': "dask:slope:('dim_0', 'dim_1'):['res']:85426d0a5a71a6c5404f",
 'slope|rand-int32-3x3|res-float-xy|0|np': "numpy:slope:('dim_0', 'dim_1'):['res']:85426d0a5a71a6c5404f",
 'slope|rand-int32-3x3|res-int-xy|0|dask0': "dask:slope:('dim_0', 'dim_1'):['res']:546419df2e425a2ed29b",
 'slope|rand-int32-3x3|res-int-xy|0|dask2': "dask:slope:('dim_0', 'dim_1'):['res']:546419df2e425a2ed29b",
 'slope|rand-int32-3x3|res-int-xy|0|np': "numpy:slope:('dim_0', 'dim_1'):['res']:546419df2e425a2ed29b",
 'slope|rand-int32-3x3|res-list|0|dask0': "dask:slope:('dim_0', 'dim_1'):['res']:e9afb1bbe2708eccc8a2",
 'slope|rand-int32-3x3|res-list|0|dask2': "dask:slope:('dim_0', 'dim_1'):['res']:e9afb1bbe2708eccc8a2",
 'slope|rand-int32-3x3|res-list|0|np': "numpy:slope:('dim_0', 'dim_1'):['res']:e9afb1bbe2708eccc8a2",
 'slope|rand-int32-3x3|res1|0|dask0': "dask:slope:('dim_0', 'dim_1'):['res']:9cdce45f13d315a6d2ea",
 'slope|rand-int32-3x3|res1|0|dask2': "dask:slope:('dim_0', 'dim_1'):['res']:9cdce45f13d315a6d2ea",
 'slope|rand-int32-3x3|res1|0|np': "numpy:slope:('dim_0', 'dim_1'):['res']:9cdce45f13d315a6d2ea",
 'slope|rand-int32-4x5|coords|0|dask0': "dask:slope:('y', 'x'):[]:cec6aee12b23dd01e12d",
 'slope|rand-int32-4x5|coords|0|dask2': "dask:slope:('y', 'x'):[]:cec6aee12b23dd01e12d",
 'slope|rand-int32-4x5|coords|0|np': "numpy:slope:('y', 'x'):[]:cec6aee12b23dd01e12d",
 'slope|rand-int32-4x5|nocoords|0|dask0': "dask:slope:('dim_0', 'dim_1'):[]:b53e39d811a97d18f990",
 'slope|rand-int32-4x5|nocoords|0|dask2': "dask:slope:('dim_0', 'dim_1'):[]:b53e39d811a97d18f990",
 'slope|rand-int32-4x5|nocoords|0|np': "numpy:slope:('dim_0', 'dim_1'):[]:b53e39d811a97d18f990",
 'slope|rand-int32-4x5|res-float-xy|0|dask0': "dask:slope:('dim_0', 'dim_1'):['res']:82d43b941f9530b0b398",
 'slope|rand-int32-4x5|res-float-xy|0|dask2': "dask:slope:('dim_0', 'dim_1'):['res']:82d43b941f9530b0b398",
 'slope|rand-int32-4x5|res-float-xy|0|np': "numpy:slope:('dim_0', 'dim_1'):['res']:82d43b941f9530b0b398",
 'slope|rand-int32-4x5|res-int-xy|0|dask0': "dask:slope:('dim_0', 'dim_1'):['res']:cf3b1d34ac019e3dc2bf",
 'slope|rand-int32-4x5|res-int-xy|0|dask2': "dask:slope:('dim_0', 'dim_1'):['res']:cf3b1d34ac019e3dc2bf",
 'slope|rand-int32-4x5|res-int-xy|0|np': "numpy:slope:('dim_0', 'dim_1'):['res']:cf3b1d34ac019e3dc2bf",
 'slope|rand-int32-4x5|res-list|0|dask0': "dask:slope:('dim_0', 'dim_1'):['res']:476c895f14ef971dc325",
 'slope|rand-int32-4x5|res-list|0|dask2': "dask:slope:('dim_0', 'dim_1'):['res']:476c895f14ef971dc325",
 'slope|rand-int32-4x5|res-list|0|np': "numpy:slope:('dim_0', 'dim_1'):['res']:476c895f14ef971dc325",
 'slope|rand-int32-4x5|res1|0|dask0': "dask:slope:('dim_0', 'dim_1'):['res']:b53e39d811a97d18f990",
 'slope|rand-int32-4x5|res1|0|dask2': "dask:slope:('dim_0', 'dim_1'):['res']:b53e39d811a97d18f990",
 'slope|rand-int32-4x5|res1|0|np': "numpy:slope:('dim_0', 'dim_1'):['res']:b53e39d811a97d18f990",
 'slope|rand-int32-5x1|coords|0|np': 'EXC:ZeroDivisionError',
 'slope|rand-int32-5x1|nocoords|0|np': 'EXC:ZeroDivisionError',
 'slope|rand-int32-5x1|res-float-xy|0|np': "numpy:slope:('dim_0', 'dim_1'):['res']:b7b3eb8c49ab9b0981d2",
 'slope|rand-int32-5x1|res-int-xy|0|np': "numpy:slope:('dim_0', 'dim_1'):['res']:b7b3eb8c49ab9b0981d2",
 'slope|rand-int32-5x1|res-list|0|np': "numpy:slope:('dim_0', 'dim_1'):['res']:b7b3eb8c49ab9b0981d2",
 'slope|rand-int32-5x1|res1|0|np': "numpy:slope:('dim_0', 'dim_1'):['res']:b7b3eb8c49ab9b0981d2",
 'slope|rand-int32-7x11|coords|0|dask1': "dask:slope:('y', 'x'):[]:ebbd7e63d0bbdc48773c",
 'slope|rand-int32-7x11|coords|0|dask3': "dask:slope:('y', 'x'):[]:ebbd7e63d0bbdc48773c",
 'slope|rand-int32-7x11|coords|0|np': "numpy:slope:('y', 'x'):[]:ebbd7e63d0bbdc48773c",
 'slope|rand-int32-7x11|nocoords|0|dask1': "dask:slope:('dim_0', 'dim_1'):[]:e55a0d6c07e2a8b2078f",
 'slope|rand-int32-7x11|nocoords|0|dask3': "dask:slope:('dim_0', 'dim_1'):[]:e55a0d6c07e2a8b2078f",
 'slope|rand-int32-7x11|nocoords|0|np': "numpy:slope:('dim_0', 'dim_1'):[]:e55a0d6c07e2a8b2078f",
 'slope|rand-int32-7x11|res-float-xy|0|dask1': "dask:slope:('dim_0', 'dim_1'):['res']:74cdee6a47a29b17f746",
 'slope|rand-int32-7x11|res-float-xy|0|dask3': "dask:slope:('dim_0', 'dim_1'):['res']:74cdee6a47a29b17f746",
 'slope|rand-int32-7x11|res-float-xy|0|np': "numpy:slope:('dim_0', 'dim_1'):['res']:74cdee6a47a29b17f746",
 'slope|rand-int32-7x11|res-int-xy|0|dask1': "dask:slope:('dim_0', 'dim_1'):['res']:35f0accef3786ee7c3dd",
 'slope|rand-int32-7x11|res-int-xy|0|dask3': "dask:slope:('dim_0', 'dim_1'):['res']:35f0accef3786ee7c3dd",
 'slope|rand-int32-7x11|res-int-xy|0|np': "numpy:slope:('dim_0', 'dim_1'):['res']:35f0accef3786ee7c3dd",
 'slope|rand-int32-7x11|res-list|0|dask1': "dask:slope:('dim_0', 'dim_1'):['res']:17af3ae8235c22a29aaf",
 'slope|rand-int32-7x11|res-list|0|dask3': "dask:slope:('dim_0', 'dim_1'):['res']:17af3ae8235c22a29aaf",
 'slope|rand-int32-7x11|res-list|0|np': "numpy:slope:('dim_0', 'dim_1'):['res']:17af3ae8235c22a29aaf",
 'slope|rand-int32-7x11|res1|0|dask1': "dask:slope:('dim_0', 'dim_1'):['res']:e55a0d6c07e2a8b2078f",
 'slope|rand-int32-7x11|res1|0|dask3': "dask:slope:('dim_0', 'dim_1'):['res']:e55a0d6c07e2a8b2078f",
 'slope|rand-int32-7x11|res1|0|np': "numpy:slope:('dim_0', 'dim_1'):['res']:e55a0d6c07e2a8b2078f",
 'slope|rand-int64-13x8|coords|0|dask1': "dask:slope:('y', 'x'):[]:d5604871b65e0170aab5",
 'slope|rand-int64-13x8|coords|0|dask3': "dask:slope:('y', 'x'):[]:d5604871b65e0170aab5",
 'slope|rand-int64-13x8|coords|0|np': "numpy:slope:('y', 'x'):[]:d5604871b65e0170aab5",
 'slope|rand-int64-13x8|nocoords|0|dask1': "dask:slope:('dim_0', 'dim_1'):[]:01ce292731f88c719940",
 'slope|rand-int64-13x8|nocoords|0|dask3': "dask:slope:('dim_0', 'dim_1'):[]:01ce292731f88c719940",
 'slope|rand-int64-13x8|nocoords|0|np': "numpy:slope:('dim_0', 'dim_1'):[]:01ce292731f88c719940",
 'slope|rand-int64-13x8|res-float-xy|0|dask1': "dask:slope:('dim_0', 'dim_1'):['res']:71aa18c7e6ad9a4365e8",
 'slope|rand-int64-13x8|res-float-xy|0|dask3': "dask:slope:('dim_0', 'dim_1'):['res']:71aa18c7e6ad9a4365e8",
 'slope|rand-int64-13x8|res-float-xy|0|np': "numpy:slope:('dim_0', 'dim_1'):['res']:71aa18c7e6ad9a4365e8",
 'slope|rand-int64-13x8|res-int-xy|0|dask1': "dask:slope:('dim_0', 'dim_1'):['res']:9e1411285254d5a1b3ee",
 'slope|rand-int64-13x8|res-int-xy|0|dask3': "dask:slope:('dim_0', 'dim_1'):['res']:9e1411285254d5a1b3ee",
 'slope|rand-int64-13x8|res-int-xy|0|np': "numpy:slope:('dim_0', 'dim_1'):['res']:9e1411285254d5a1b3ee",
 'slope|rand-int64-13x8|res-list|0|dask1': "dask:slope:('dim_0', 'dim_1'):['res']:683c9b0514aab50c0ed3",
 'slope|rand-int64-13x8|res-list|0|dask3': "dask:slope:('dim_0', 'dim_1'):['res']:683c9b0514aab50c0ed3",
 'slope|rand-int64-13x8|res-list|0|np': "numpy:slope:('dim_0', 'dim_1'):['res']:683c9b0514aab50c0ed3",
 'slope|rand-int64-13x8|res1|0|dask1': "dask:slope:('dim_0', 'dim_1'):['res']:01ce292731f88c719940",
 'slope|rand-int64-13x8|res1|0|dask3': "dask:slope:('dim_0', 'dim_1'):['res']:01ce292731f88c719940",
 'slope|rand-int64-13x8|res1|0|np': "numpy:slope:('dim_0', 'dim_1'):['res']:01ce292731f88c719940",
 'slope|rand-int64-1x5|coords|0|np': 'EXC:ZeroDivisionError',
 'slope|rand-int64-1x5|nocoords|0|np': 'EXC:ZeroDivisionError',
 'slope|rand-int64-1x5|res-float-xy|0|np': "numpy:slope:('dim_0', 'dim_1'):['res']:c5e61fa68aaa5fc3c79c",
 'slope|rand-int64-1x5|res-int-xy|0|np': "numpy:slope:('dim_0', 'dim_1'):['res']:c5e61fa68aaa5fc3c79c",
 'slope|rand-int64-1x5|res-list|0|np': "numpy:slope:('dim_0', 'dim_1'):['res']:c5e61fa68aaa5fc3c79c",
 'slope|rand-int64-1x5|res1|0|np': "numpy:slope:('dim_0', 'dim_1'):['res']:c5e61fa68aaa5fc3c79c",
 'slope|rand-int64-20x31|coords|0|dask0': "dask:slope:('y', 'x'):[]:f15fc49c425737f516b7",
 'slope|rand-int64-20x31|coords|0|dask2': "dask:slope:('y', 'x'):[]:f15fc49c425737f516b7",
 'slope|rand-int64-20x31|coords|0|np': "numpy:slope:('y', 'x'):[]:f15fc49c425737f516b7",
 'slope|rand-int64-20x31|nocoords|0|dask0': "dask:slope:('dim_0', 'dim_1'):[]:17ff7f463b30ae900c0f",
 'slope|rand-int64-20x31|nocoords|0|dask2': "dask:slope:('dim_0', 'dim_1'):[]:17ff7f463b30ae900c0f",
 'slope|rand-int64-20x31|nocoords|0|np': "numpy:slope:('dim_0', 'dim_1'):[]:17ff7f463b30ae900c0f",
 'slope|rand-int64-20x31|res-float-xy|0|dask0': "dask:slope:('dim_0', 'dim_1'):['res']:89087957c4748295eab6",
 'slope|rand-int64-20x31|res-float-xy|0|dask2': "dask:slope:('dim_0', 'dim_1'):['res']:89087957c4748295eab6",
 'slope|rand-int64-20x31|res-float-xy|0|np': "numpy:slope:('dim_0', 'dim_1'):['res']:89087957c4748295eab6",
 'slope|rand-int64-20x31|res-int-xy|0|dask0': "dask:slope:('dim_0', 'dim_1'):['res']:0d10a9894785c26844f3",
 'slope|rand-int64-20x31|res-int-xy|0|dask2': "dask:slope:('dim_0', 'dim_1'):['res']:0d10a9894785c26844f3",
 'slope|rand-int64-20x31|res-int-xy|0|np': "numpy:slope:('dim_0', 'dim_1'):['res']:0d10a9894785c26844f3",
 'slope|rand-int64-20x31|res-list|0|dask0': "dask:slope:('dim_0', 'dim_1'):['res']:e20177b7494b35e68942",
 'slope|rand-int64-20x31|res-list|0|dask2': "dask:slope:('dim_0', 'dim_1'):['res']:e20177b7494b35e68942",
 'slope|rand-int64-20x31|res-list|0|np': "numpy:slope:('dim_0', 'dim_1'):['res']:e20177b7494b35e68942",
 'slope|rand-int64-20x31|res1|0|dask0': "dask:slope:('dim_0', 'dim_1'):['res']:17ff7f463b30ae900c0f",
 'slope|rand-int64-20x31|res1|0|dask2': "dask:slope:('dim_0', 'dim_1'):['res']:17ff7f463b30ae900c0f",
 'slope|rand-int64-20x31|res1|0|np': "numpy:slope:('dim_0', 'dim_1'):['res']:17ff7f463b30ae900c0f",
 'slope|rand-int64-2x2|coords|0|dask0': "dask:slope:('y', 'x'):[]:10ed4916970c06e68e5a",
 'slope|rand-int64-2x2|coords|0|dask2': "dask:slope:('y', 'x'):[]:10ed4916970c06e68e5a",
 'slope|rand-int64-2x2|coords|0|np': "numpy:slope:('y', 'x'):[]:10ed4916970c06e68e5a",
 'slope|rand-int64-2x2|nocoords|0|dask0': "dask:slope:('dim_0', 'dim_1'):[]:10ed4916970c06e68e5a",
 'slope|rand-int64-2x2|nocoords|0|dask2': "dask:slope:('dim_0', 'dim_1'):[]:10ed4916970c06e68e5a",
 'slope|rand-int64-2x2|nocoords|0|np': "numpy:slope:('dim_0', 'dim_1'):[]:10ed4916970c06e68e5a",
 'slope|rand-int64-2x2|res-float-xy|0|dask0': "dask:slope:('dim_0', 'dim_1'):['res']:10ed4916970c06e68e5a",
 'slope|rand-int64-2x2|res-float-xy|0|dask2': "dask:slope:('dim_0', 'dim_1'):['res']:10ed4916970c06e68e5a",
 'slope|rand-int64-2x2|res-float-xy|0|np': "numpy:slope:('dim_0', 'dim_1'):['res']:10ed4916970c06e68e5a",
 'slope|rand-int64-2x2|res-int-xy|0|dask0': "dask:slope:('dim_0', 'dim_1'):['res']:10ed4916970c06e68e5a",
 'slope|rand-int64-2x2|res-int-xy|0|dask2': "dask:slope:('dim_0', 'dim_1'):['res']:10ed4916970c06e68e5a",
 'slope|rand-int64-2x2|res-int-xy|0|np': "numpy:slope:('dim_0', 'dim_1'):['res']:10ed4916970c06e68e5a",
 'slope|rand-int64-2x2|res-list|0|dask0': "dask:slope:('dim_0', 'dim_1'):['res']:10ed4916970c06e68e5a",
 'slope|rand-int64-2x2|res-list|0|dask2': "dask:slope:('dim_0', 'dim_1'):['res']:10ed4916970c06e68e5a",
 'slope|rand-int64-2x2|res-list|0|np': "numpy:slope:('dim_0', 'dim_1'):['res']:10ed4916970c06e68e5a",
 'slope|rand-int64-2x2|res1|0|dask0': "dask:slope:('dim_0', 'dim_1'):['res']:10ed4916970c06e68e5a",
 'slope|rand-int64-2x2|res1|0|dask2': "dask:slope:('dim_0', 'dim_1'):['res']:10ed4916970c06e68e5a",
 'slope|rand-int64-2x2|res1|0|np': "numpy:slope:('dim_0', 'dim_1'):['res']:10ed4916970c06e68e5a",
 'slope|rand-int64-3x3|coords|0|dask0': "dask:slope:('y', 'x'):[]:561935ae5877a3920f3d",
 'slope|rand-int64-3x3|coords|0|dask2': "dask:slope:('y', 'x'):[]:561935ae5877a3920f3d",
 'slope|rand-int64-3x3|coords|0|np': "numpy:slope:('y', 'x'):[]:561935ae5877a3920f3d",
 'slope|rand-int64-3x3|nocoords|0|dask0': "dask:slope:('dim_0', 'dim_1'):[]:7370223e3624838ed4c0",
 'slope|rand-int64-3x3|nocoords|0|dask2': "dask:slope:('dim_0', 'dim_1'):[]:7370223e3624838ed4c0",
 'slope|rand-int64-3x3|nocoords|0|np': "numpy:slope:('dim_0', 'dim_1'):[]:7370223e3624838ed4c0",
 'slope|rand-int64-3x3|res-float-xy|0|dask0': "dask:slope:('dim_0', 'dim_1'):['res']:c3d918bc72476bdd90ee",
 'slope|rand-int64-3x3|res-float-xy|0|dask2': "dask:slope:('dim_0', 'dim_1'):['res']:c3d918bc72476bdd90ee",
 'slope|rand-int64-3x3|res-float-xy|0|np': "numpy:slope:('dim_0', 'dim_1'):['res']:c3d918bc72476bdd90ee",
 'slope|rand-int64-3x3|res-int-xy|0|dask0': "dask:slope:('dim_0', 'dim_1'):['res']:ccc420477a501c1be84e",
 'slope|rand-int64-3x3|res-int-xy|0|dask2': "dask:slope:('dim_0', 'dim_1'):['res']:ccc420477a501c1be84e",
 'slope|rand-int64-3x3|res-int-xy|0|np': "numpy:slope:('dim_0', 'dim_1'):['res']:ccc420477a501c1be84e",
 'slope|rand-int64-3x3|res-list|0|dask0': "dask:slope:('dim_0', 'dim_1'):['res']:ea04acbf228db11ea03c",
 'slope|rand-int64-3x3|res-list|0|dask2': "dask:slope:('dim_0', 'dim_1'):['res']:ea04acbf228db11ea03c",
 'slope|rand-int64-3x3|res-list|0|np': "numpy:slope:('dim_0', 'dim_1'):['res']:ea04acbf228db11ea03c",
 'slope|rand-int64-3x3|res1|0|dask0': "dask:slope:('dim_0', 'dim_1'):['res']:7370223e3624838ed4c0",
 'slope|rand-int64-3x3|res1|0|dask2': "dask:slope:('dim_0', 'dim_1'):['res']:7370223e3624838ed4c0",
 'slope|rand-int64-3x3|res1|0|np': "numpy:slope:('dim_0', 'dim_1'):['res']:7370223e3624838ed4c0",
 'slope|rand-int64-4x5|coords|0|dask0': "dask:slope:('y', 'x'):[]:a791316e00709aa87b49",
 'slope|rand-int64-4x5|coords|0|dask2': "dask:slope:('y', 'x'):[]:a791316e00709aa87b49",
 'slope|rand-int64-4x5|coords|0|np': "numpy:slope:('y', 'x'):[]:a791316e00709aa87b49",
 'slope|rand-int64-4x5|nocoords|0|dask0': "dask:slope:('dim_0', 'dim_1'):[]:b4096f96c94c1feb8c56",
 'slope|rand-int64-4x5|nocoords|0|dask2': "dask:slope:('dim_0', 'dim_1'):[]:b4096f96c94c1feb8c56",
 'slope|rand-int64-4x5|nocoords|0|np': "numpy:slope:('dim_0', 'dim_1'):[]:b4096f96c94c1feb8c56",
 'slope|rand-int64-4x5|res-float-xy|0|dask0': "dask:slope:('dim_0', 'dim_1'):['res']:49c1a685bd805a5ebac1",
 'slope|rand-int64-4x5|res-float-xy|0|dask2': "dask:slope:('dim_0', 'dim_1'):['res']:49c1a685bd805a5ebac1",
 'slope|rand-int64-4x5|res-float-xy|0|np': "numpy:slope:('dim_0', 'dim_1'):['res']:49c1a685bd805a5ebac1",
 'slope|rand-int64-4x5|res-int-xy|0|dask0': "dask:slope:('dim_0', 'dim_1'):['res']:1ece02efd95e646522dc",
 'slope|rand-int64-4x5|res-int-xy|0|dask2': "dask:slope:('dim_0', 'dim_1'):['res']:1ece02efd95e646522dc",
 'slope|rand-int64-4x5|res-int-xy|0|np': "numpy:slope:('dim_0', 'dim_1'):['res']:1ece02efd95e646522dc",
 'slope|rand-int64-4x5|res-list|0|dask0': "dask:slope:('dim_0', 'dim_1'):['res']:b0955a49c8177c314278",
 'slope|rand-int64-4x5|res-list|0|dask2': "dask:slope:('dim_0', 'dim_1'):['res']:b0955a49c8177c314278",
 'slope|rand-int64-4x5|res-list|0|np': "numpy:slope:('dim_0', 'dim_1'):['res']:b0955a49c8177c314278",
 'slope|rand-int64-4x5|res1|0|dask0': "dask:slope:('dim_0', 'dim_1'):['res']:b4096f96c94c1feb8c56",
 'slope|rand-int64-4x5|res1|0|dask2': "dask:slope:('dim_0', 'dim_1'):['res']:b4096f96c94c1feb8c56",
 'slope|rand-int64-4x5|res1|0|np': "numpy:slope:('dim_0', 'dim_1'):['res']:b4096f96c94c1feb8c56",
 'slope|rand-int64-5x1|coords|0|np': 'EXC:ZeroDivisionError',
 'slope|rand-int64-5x1|nocoords|0|np': 'EXC:ZeroDivisionError',
 'slope|rand-int64-5x1|res-float-xy|0|np': "numpy:slope:('dim_0', 'dim_1'):['res']:b7b3eb8c49ab9b0981d2",
 'slope|rand-int64-5x1|res-int-xy|0|np': "numpy:slope:('dim_0', 'dim_1'):['res']:b7b3eb8c49ab9b0981d2",
 'slope|rand-int64-5x1|res-list|0|np': "numpy:slope:('dim_0', 'dim_1'):['res']:b7b3eb8c49ab9b0981d2",
 'slope|rand-int64-5x1|res1|0|np': "numpy:slope:('dim_0', 'dim_1'):['res']:b7b3eb8c49ab9b0981d2",
 'slope|rand-int64-7x11|coords|0|dask1': "dask:slope:('y', 'x'):[]:df2e25df5d0018ddff70",
 'slope|rand-int64-7x11|coords|0|dask3': "dask:slope:('y', 'x'):[]:df2e25df5d0018ddff70",
 'slope|rand-int64-7x11|coords|0|np': "numpy:slope:('y', 'x'):[]:df2e25df5d0018ddff70",
 'slope|rand-int64-7x11|nocoords|0|dask1': "dask:slope:('dim_0', 'dim_1'):[]:3979f92a1fcadf7e01a9",
 'slope|rand-int64-7x11|nocoords|0|dask3': "dask:slope:('dim_0', 'dim_1'):[]:3979f92a1fcadf7e01a9",
 'slope|rand-int64-7x11|nocoords|0|np': "numpy:slope:('dim_0', 'dim_1'):[]:3979f92a1fcadf7e01a9",
 'slope|rand-int64-7x11|res-float-xy|0|dask1': "dask:slope:('dim_0', 'dim_1'):['res']:06362b1b68bd95d06431",
 'slope|rand-int64-7x11|res-float-xy|0|dask3': "dask:slope:('dim_0', 'dim_1'):['res']:06362b1b68bd95d06431",
 'slope|rand-int64-7x11|res-float-xy|0|np': "numpy:slope:('dim_0', 'dim_1'):['res']:06362b1b68bd95d06431",
 'slope|rand-int64-7x11|res-int-xy|0|dask1': "dask:slope:('dim_0', 'dim_1'):['res']:3dd5bf24a18adfa8f8f3",
 'slope|rand-int64-7x11|res-int-xy|0|dask3': "dask:slope:('dim_0', 'dim_1'):['res']:3dd5bf24a18adfa8f8f3",
 'slope|rand-int64-7x11|res-int-xy|0|np': "numpy:slope:('dim_0', 'dim_1'):['res']:3dd5bf24a18adfa8f8f3",
 'slope|rand-int64-7x11|res-list|0|dask1': "dask:slope:('dim_0', 'dim_1'):['res']:4a0735303a3c906108d3",
 'slope|rand-int64-7x11|res-list|0|dask3': "dask:slope:('dim_0', 'dim_1'):['res']:4a0735303a3c906108d3",
 'slope|rand-int64-7x11|res-list|0|np': "numpy:slope:('dim_0', 'dim_1'):['res']:4a0735303a3c906108d3",
 'slope|rand-int64-7x11|res1|0|dask1': "dask:slope:('dim_0', 'dim_1'):['res']:3979f92a1fcadf7e01a9",
 'slope|rand-int64-7x11|res1|0|dask3': "dask:slope:('dim_0', 'dim_1'):['res']:3979f92a1fcadf7e01a9",
 'slope|rand-int64-7x11|res1|0|np': "numpy:slope:('dim_0', 'dim_1'):['res']:3979f92a1fcadf7e01a9",
 'slope|rand-uint8-13x8|coords|0|dask1': "dask:slope:('y', 'x'):[]:a3dd9e38032a735c46e8",
 'slope|rand-uint8-13x8|coords|0|dask3': "dask:slope:('y', 'x'):[]:a3dd9e38032a735c46e8",
 'slope|rand-uint8-13x8|coords|0|np': "numpy:slope:('y', 'x'):[]:a3dd9e38032a735c46e8",
 'slope|rand-uint8-13x8|nocoords|0|dask1': "dask:slope:('dim_0', 'dim_1'):[]:24bb39dd0395009b5081",
 'slope|rand-uint8-13x8|nocoords|0|dask3': "dask:slope:('dim_0', 'dim_1'):[]:24bb39dd0395009b5081",
 'slope|rand-uint8-13x8|nocoords|0|np': "numpy:slope:('dim_0', 'dim_1'):[]:24bb39dd0395009b5081",
 'slope|rand-uint8-13x8|res-float-xy|0|dask1': "dask:slope:('dim_0', 'dim_1'):['res']:8ab5da39cef8268fc732",
 'slope|rand-uint8-13x8|res-float-xy|0|dask3': "dask:slope:('dim_0', 'dim_1'):['res']:8ab5da39cef8268fc732",
 'slope|rand-uint8-13x8|res-float-xy|0|np': "numpy:slope:('dim_0', 'dim_1'):['res']:8ab5da39cef8268fc732",
 'slope|rand-uint8-13x8|res-int-xy|0|dask1': "dask:slope:('dim_0', 'dim_1'):['res']:24222c2d73d032d84a04",
 'slope|rand-uint8-13x8|res-int-xy|0|dask3': "dask:slope:('dim_0', 'dim_1'):['res']:24222c2d73d032d84a04",
 'slope|rand-uint8-13x8|res-int-xy|0|np': "numpy:slope:('dim_0', 'dim_1'):['res']:24222c2d73d032d84a04",
 'slope|rand-uint8-13x8|res-list|0|dask1': "dask:slope:('dim_0', 'dim_1'):['res']:5d94384ef528e7ecb4b4",
 'slope|rand-uint8-13x8|res-list|0|dask3': "dask:slope:('dim_0', 'dim_1'):['res']:5d94384ef528e7ecb4b4",
 'slope|rand-uint8-13x8|res-list|0|np': "numpy:slope:('dim_0', 'dim_1'):['res']:5d94384ef528e7ecb4b4",
 'slope|rand-uint8-13x8|res1|0|dask1': "dask:slope:('dim_0', 'dim_1'):['res']:24bb39dd0395009b5081",
 'slope|rand-uint8-13x8|res1|0|dask3': "dask:slope:('dim_0', 'dim_1'):['res']:24bb39dd0395009b5081",
 'slope|rand-uint8-13x8|res1|0|np': "numpy:slope:('dim_0', 'dim_1'):['res']:24bb39dd0395009b5081",
 'slope|rand-uint8-1x5|coords|0|np': 'EXC:ZeroDivisionError',
 'slope|rand-uint8-1x5|nocoords|0|np': 'EXC:ZeroDivisionError',
 'slope|rand-uint8-1x5|res-float-xy|0|np': "numpy:slope:('dim_0', 'dim_1'):['res']:c5e61fa68aaa5fc3c79c",
 'slope|rand-uint8-1x5|res-int-xy|0|np': "numpy:slope:('dim_0', 'dim_1'):['res']:c5e61fa68aaa5fc3c79c",
 'slope|rand-uint8-1x5|res-list|0|np': "numpy:slope:('dim_0', 'dim_1'):['res']:c5e61fa68aaa5fc3c79c",
 'slope|rand-uint8-1x5|res1|0|np': "numpy:slope:('dim_0', 'dim_1'):['res']:c5e61fa68aaa5fc3c79c",
 'slope|rand-uint8-20x31|coords|0|dask0': "dask:slope:('y', 'x'):[]:a7c1b1010d7fbece6a06",
 'slope|rand-uint8-20x31|coords|0|dask2': "dask:slope:('y', 'x'):[]:a7c1b1010d7fbece6a06",
 'slope|rand-uint8-20x31|coords|0|np': "numpy:slope:('y', 'x'):[]:a7c1b1010d7fbece6a06",
 'slope|rand-uint8-20x31|nocoords|0|dask0': "dask:slope:('dim_0', 'dim_1'):[]:84a7557ddb429ddfb487",
 'slope|rand-uint8-20x31|nocoords|0|dask2': "dask:slope:('dim_0', 'dim_1'):[]:84a7557ddb429ddfb487",
 'slope|rand-uint8-20x31|nocoords|0|np': "numpy:slope:('dim_0', 'dim_1'):[]:84a7557ddb429ddfb487",
 'slope|rand-uint8-20x31|res-float-xy|0|dask0': "dask:slope:('dim_0', 'dim_1'):['res']:38261fc049743776940c",
 'slope|rand-uint8-20x31|res-float-xy|0|dask2': "dask:slope:('dim_0', 'dim_1'):['res']:38261fc049743776940c",
 'slope|rand-uint8-20x31|res-float-xy|0|np': "numpy:slope:('dim_0', 'dim_1'):['res']:38261fc049743776940c",
 'slope|rand-uint8-20x31|res-int-xy|0|dask0': "dask:slope:('dim_0', 'dim_1'):['res']:dd6e5048b56d17c4bf2c",
 'slope|rand-uint8-20x31|res-int-xy|0|dask2': "dask:slope:('dim_0', 'dim_1'):['res']:dd6e5048b56d17c4bf2c",
 'slope|rand-uint8-20x31|res-int-xy|0|np': "numpy:slope:('dim_0', 'dim_1'):['res']:dd6e5048b56d17c4bf2c",
 'slope|rand-uint8-20x31|res-list|0|dask0': "dask:slope:('dim_0', 'dim_1'):['res']:9228e98c1dfea9ac9ed2",
 'slope|rand-uint8-20x31|res-list|0|dask2': "dask:slope:('dim_0', 'dim_1'):['res']:9228e98c1dfea9ac9ed2",
 'slope|rand-uint8-20x31|res-list|0|np': "numpy:slope:('dim_0', 'dim_1'):['res']:9228e98c1dfea9ac9ed2",
 'slope|rand-uint8-20x31|res1|0|dask0': "dask:slope:('dim_0', 'dim_1'):['res']:84a7557ddb429ddfb487",
 'slope|rand-uint8-20x31|res1|0|dask2': "dask:slope:('dim_0', 'dim_1'):['res']:84a7557ddb429ddfb487",
 'slope|rand-uint8-20x31|res1|0|np': "numpy:slope:('dim_0', 'dim_1'):['res']:84a7557ddb429ddfb487",
 'slope|rand-uint8-2x2|coords|0|dask0': "dask:slope:('y', 'x'):[]:10ed4916970c06e68e5a",
 'slope|rand-uint8-2x2|coords|0|dask2': "dask:slope:('y', 'x'):[]:10ed4916970c06e68e5a",
 'slope|rand-uint8-2x2|coords|0|np': "numpy:slope:('y', 'x'):[]:10ed4916970c06e68e5a",
 'slope|rand-uint8-2x2|nocoords|0|dask0': "dask:slope:('dim_0', 'dim_1'):[]:10ed4916970c06e68e5a",
 'slope|rand-uint8-2x2|nocoords|0|dask2': "dask:slope:('dim_0', 'dim_1'):[]:10ed4916970c06e68e5a",
 'slope|rand-uint8-2x2|nocoords|0|np': "numpy:slope:('dim_0', 'dim_1'):[]:10ed4916970c06e68e5a",
 'slope|rand-uint8-2x2|res-float-xy|0|dask0': "dask:slope:('dim_0', 'dim_1'):['res']:10ed4916970c06e68e5a",
 'slope|rand-uint8-2x2|res-float-xy|0|dask2': "dask:slope:('dim_0', 'dim_1'):['res']:10ed4916970c06e68e5a",
 'slope|rand-uint8-2x2|res-float-xy|0|np': "numpy:slope:('dim_0', 'dim_1'):['res']:10ed4916970c06e68e5a",
 'slope|rand-uint8-2x2|res-int-xy|0|dask0': "dask:slope:('dim_0', 'dim_1'):['res']:10ed4916970c06e68e5a",
 'slope|rand-uint8-2x2|res-int-xy|0|dask2': "dask:slope:('dim_0', 'dim_1'):['res']:10ed4916970c06e68e5a",
 'slope|rand-uint8-2x2|res-int-xy|0|np': "numpy:slope:('dim_0', 'dim_1'):['res']:10ed4916970c06e68e5a",
 'slope|rand-uint8-2x2|res-list|0|dask0': "dask:slope:('dim_0', 'dim_1'):['res']:10ed4916970c06e68e5a",
 'slope|rand-uint8-2x2|res-list|0|dask2': "dask:slope:('dim_0', 'dim_1'):['res']:10ed4916970c06e68e5a",
 'slope|rand-uint8-2x2|res-list|0|np': "numpy:slope:('dim_0', 'dim_1'):['res']:10ed4916970c06e68e5a",
 'slope|rand-uint8-2x2|res1|0|dask0': "dask:slope:('dim_0', 'dim_1'):['res']:10ed4916970c06e68e5a",
 'slope|rand-uint8-2x2|res1|0|dask2': "dask:slope:('dim_0', 'dim_1'):['res']:10ed4916970c06e68e5a",
 'slope|rand-uint8-2x2|res1|0|np': "numpy:slope:('dim_0', 'dim_1'):['res']:10ed4916970c06e68e5a",
 'slope|rand-uint8-3x3|coords|0|dask0': "dask:slope:('y', 'x'):[]:ee51db2b1173e26c3d15",
 'slope|rand-uint8-3x3|coords|0|dask2': "dask:slope:('y', 'x'):[]:ee51db2b1173e26c3d15",
 'slope|rand-uint8-3x3|coords|0|np': "numpy:slope:('y', 'x'):[]:ee51db2b1173e26c3d15",
 'slope|rand-uint8-3x3|nocoords|0|dask0': "dask:slope:('dim_0', 'dim_1'):[]:929a02624420cbea7979",
 'slope|rand-uint8-3x3|nocoords|0|dask2': "dask:slope:('dim_0', 'dim_1'):[]:929a02624420cbea7979",
 'slope|rand-uint8-3x3|nocoords|0|np': "numpy:slope:('dim_0', 'dim_1'):[]:929a02624420cbea7979",
 'slope|rand-uint8-3x3|res-float-xy|0|dask0': "dask:slope:('dim_0', 'dim_1'):['res']:60666c6072bcbefbd280",
 'slope|rand-uint8-3x3|res-float-xy|0|dask2': "dask:slope:('dim_0', 'dim_1'):['res']:60666c6072bcbefbd280",
 'slope|rand-uint8-3x3|res-float-xy|0|np': "numpy:slope:('dim_0', 'dim_1'):['res']:60666c6072bcbefbd280",
 'slope|rand-uint8-3x3|res-int-xy|0|dask0': "dask:slope:('dim_0', 'dim_1'):['res']:f264494ca012f281bd2c",
 'slope|rand-uint8-3x3|res-int-xy|0|dask2': "dask:slope:('dim_0', 'dim_1'):['res']:f264494ca012f281bd2c",
 'slope|rand-uint8-3x3|res-int-xy|0|np': "numpy:slope:('dim_0', 'dim_1'):['res']:f264494ca012f281bd2c",
 'slope|rand-uint8-3x3|res-list|0|dask0': "dask:slope:('dim_0', 'dim_1'):['res']:ecfec94fe203f48af59c",
 'slope|rand-uint8-3x3|res-list|0|dask2': "dask:slope:('dim_0', 'dim_1'):['res']:ecfec94fe203f48af59c",
 'slope|rand-uint8-3x3|res-list|0|np': "numpy:slope:('dim_0', 'dim_1'):['res']:ecfec94fe203f48af59c",
 'slope|rand-uint8-3x3|res1|0|dask0': "dask:slope:('dim_0', 'dim_1'):['res']:929a02624420cbea7979",
 'slope|rand-uint8-3x3|res1|0|dask2': "dask:slope:('dim_0', 'dim_1'):['res']:929a02624420cbea7979",
 'slope|rand-uint8-3x3|res1|0|np': "numpy:slope:('dim_0', 'dim_1'):['res']:929a02624420cbea7979",
 'slope|rand-uint8-4x5|coords|0|dask0': "dask:slope:('y', 'x'):[]:07a64895fefdc78c3aca",
 'slope|rand-uint8-4x5|coords|0|dask2': "dask:slope:('y', 'x'):[]:07a64895fefdc78c3aca",
 'slope|rand-uint8-4x5|coords|0|np': "numpy:slope:('y', 'x'):[]:07a64895fefdc78c3aca",
 'slope|rand-uint8-4x5|nocoords|0|dask0': "dask:slope:('dim_0', 'dim_1'):[]:c0e8722fd19a9f009315",
 'slope|rand-uint8-4x5|nocoords|0|dask2': "dask:slope:('dim_0', 'dim_1'):[]:c0e8722fd19a9f009315",
 'slope|rand-uint8-4x5|nocoords|0|np': "numpy:slope:('dim_0', 'dim_1'):[]:c0e8722fd19a9f009315",
 'slope|rand-uint8-4x5|res-float-xy|0|dask0': "dask:slope:('dim_0', 'dim_1'):['res']:5b5f51b9f980365d914a",
 'slope|rand-uint8-4x5|res-float-xy|0|dask2': "dask:slope:('dim_0', 'dim_1'):['res']:5b5f51b9f980365d914a",
 'slope|rand-uint8-4x5|res-float-xy|0|np': "numpy:slope:('dim_0', 'dim_1'):['res']:5b5f51b9f980365d914a",
 'slope|rand-uint8-4x5|res-int-xy|0|dask0': "dask:slope:('dim_0', 'dim_1'):['res']:6b0106e77c581b9e9d64",
 'slope|rand-uint8-4x5|res-int-xy|0|dask2': "dask:slope:('dim_0', 'dim_1'):['res']:6b0106e77c581b9e9d64",
 'slope|rand-uint8-4x5|res-int-xy|0|np': "numpy:slope:('dim_0', 'dim_1'):['res']:6b0106e77c581b9e9d64",
 'slope|rand-uint8-4x5|res-list|0|dask0': "dask:slope:('dim_0', 'dim_1'):['res']:390ba0c340687038812b",
 'slope|rand-uint8-4x5|res-list|0|dask2': "dask:slope:('dim_0', 'dim_1'):['res']:390ba0c340687038812b",
 'slope|rand-uint8-4x5|res-list|0|np': "numpy:slope:('dim_0', 'dim_1'):['res']:390ba0c340687038812b",
 'slope|rand-uint8-4x5|res1|0|dask0': "dask:slope:('dim_0', 'dim_1'):['res']:c0e8722fd19a9f009315",
 'slope|rand-uint8-4x5|res1|0|dask2': "dask:slope:('dim_0', 'dim_1'):['res']:c0e8722fd19a9f009315",
 'slope|rand-uint8-4x5|res1|0|np': "numpy:slope:('dim_0', 'dim_1'):['res']:c0e8722fd19a9f009315",
 'slope|rand-uint8-5x1|coords|0|np': 'EXC:ZeroDivisionError',
 'slope|rand-uint8-5x1|nocoords|0|np': 'EXC:ZeroDivisionError',
 'slope|rand-uint8-5x1|res-float-xy|0|np': "numpy:slope:('dim_0', 'dim_1'):['res']:b7b3eb8c49ab9b0981d2",
 'slope|rand-uint8-5x1|res-int-xy|0|np': "numpy:slope:('dim_0', 'dim_1'):['res']:b7b3eb8c49ab9b0981d2",
 'slope|rand-uint8-5x1|res-list|0|np': "numpy:slope:('dim_0', 'dim_1'):['res']:b7b3eb8c49ab9b0981d2",
 'slope|rand-uint8-5x1|res1|0|np': "numpy:slope:('dim_0', 'dim_1'):['res']:b7b3eb8c49ab9b0981d2",
 'slope|rand-uint8-7x11|coords|0|dask1': "dask:slope:('y', 'x'):[]:ecef69c0762938c055f9",
 'slope|rand-uint8-7x11|coords|0|dask3': "dask:slope:('y', 'x'):[]:ecef69c0762938c055f9",
 'slope|rand-uint8-7x11|coords|0|np': "numpy:slope:('y', 'x'):[]:ecef69c0762938c055f9",
 'slope|rand-uint8-7x11|nocoords|0|dask1': "dask:slope:('dim_0', 'dim_1'):[]:00267485012576baea00",
 'slope|rand-uint8-7x11|nocoords|0|dask3': "dask:slope:('dim_0', 'dim_1'):[]:00267485012576baea00",
 'slope|rand-uint8-7x11|nocoords|0|np': "numpy:slope:('dim_0', 'dim_1'):[]:00267485012576baea00",
 'slope|rand-uint8-7x11|res-float-xy|0|dask1': "dask:slope:('dim_0', 'dim_1'):['res']:5c15d09aeacda28dd36c",
 'slope|rand-uint8-7x11|res-float-xy|0|dask3': "dask:slope:('dim_0', 'dim_1'):['res']:5c15d09aeacda28dd36c",
 'slope|rand-uint8-7x11|res-float-xy|0|np': "numpy:slope:('dim_0', 'dim_1'):['res']:5c15d09aeacda28dd36c",
 'slope|rand-uint8-7x11|res-int-xy|0|dask1': "dask:slope:('dim_0', 'dim_1'):['res']:c8e97b73531c8ae6969b",
 'slope|rand-uint8-7x11|res-int-xy|0|dask3': "dask:slope:('dim_0', 'dim_1'):['res']:c8e97b73531c8ae6969b",
 'slope|rand-uint8-7x11|res-int-xy|0|np': "numpy:slope:('dim_0', 'dim_1'):['res']:c8e97b73531c8ae6969b",
 'slope|rand-uint8-7x11|res-list|0|dask1': "dask:slope:('dim_0', 'dim_1'):['res']:fb8c5b1edd648e337773",
 'slope|rand-uint8-7x11|res-list|0|dask3': "dask:slope:('dim_0', 'dim_1'):['res']:fb8c5b1edd648e337773",
 'slope|rand-uint8-7x11|res-list|0|np': "numpy:slope:('dim_0', 'dim_1'):['res']:fb8c5b1edd648e337773",
 'slope|rand-uint8-7x11|res1|0|dask1': "dask:slope:('dim_0', 'dim_1'):['res']:00267485012576baea00",
 'slope|rand-uint8-7x11|res1|0|dask3': "dask:slope:('dim_0', 'dim_1'):['res']:00267485012576baea00",
 'slope|rand-uint8-7x11|res1|0|np': "numpy:slope:('dim_0', 'dim_1'):['res']:00267485012576baea00",
 'slope|saddle|coords|0|dask0': "dask:slope:('y', 'x'):[]:3a3adf809dc070fa044f",
 'slope|saddle|coords|0|dask2': "dask:slope:('y', 'x'):[]:3a3adf809dc070fa044f",
 'slope|saddle|coords|0|np': "numpy:slope:('y', 'x'):[]:3a3adf809dc070fa044f",
 'slope|saddle|nocoords|0|dask0': "dask:slope:('dim_0', 'dim_1'):[]:23ac11bc071c379ce858",
 'slope|saddle|nocoords|0|dask2': "dask:slope:('dim_0', 'dim_1'):[]:23ac11bc071c379ce858",
 'slope|saddle|nocoords|0|np': "numpy:slope:('dim_0', 'dim_1'):[]:23ac11bc071c379ce858",
 'slope|saddle|res-float-xy|0|dask0': "dask:slope:('dim_0', 'dim_1'):['res']:63f0836cffd6bdcb5ee0",
 'slope|saddle|res-float-xy|0|dask2': "dask:slope:('dim_0', 'dim_1'):['res']:63f0836cffd6bdcb5ee0",
 'slope|saddle|res-float-xy|0|np': "numpy:slope:('dim_0', 'dim_1'):['res']:63f0836cffd6bdcb5ee0",
 'slope|saddle|res-int-xy|0|dask0': "dask:slope:('dim_0', 'dim_1'):['res']:b4a889e016a2eaa5f071",
 'slope|saddle|res-int-xy|0|dask2': "dask:slope:('dim_0', 'dim_1'):['res']:b4a889e016a2eaa5f071",
 'slope|saddle|res-int-xy|0|np': "numpy:slope:('dim_0', 'dim_1'):['res']:b4a889e016a2eaa5f071",
 'slope|saddle|res-list|0|dask0': "dask:slope:('dim_0', 'dim_1'):['res']:813e8f3addd86f64cbc2",
 'slope|saddle|res-list|0|dask2': "dask:slope:('dim_0', 'dim_1'):['res']:813e8f3addd86f64cbc2",
 'slope|saddle|res-list|0|np': "numpy:slope:('dim_0', 'dim_1'):['res']:813e8f3addd86f64cbc2",
 'slope|saddle|res1|0|dask0': "dask:slope:('dim_0', 'dim_1'):['res']:23ac11bc071c379ce858",
 'slope|saddle|res1|0|dask2': "dask:slope:('dim_0', 'dim_1'):['res']:23ac11bc071c379ce858",
 'slope|saddle|res1|0|np': "numpy:slope:('dim_0', 'dim_1'):['res']:23ac11bc071c379ce858",
 'slope|steps|coords|0|dask1': "dask:slope:('y', 'x'):[]:36fd931be92cebd6f91c",
 'slope|steps|coords|0|dask3': "dask:slope:('y', 'x'):[]:36fd931be92cebd6f91c",
 'slope|steps|coords|0|np': "numpy:slope:('y', 'x'):[]:36fd931be92cebd6f91c",
 'slope|steps|nocoords|0|dask1': "dask:slope:('dim_0', 'dim_1'):[]:87f7d021a0fdfe8c6160",
 'slope|steps|nocoords|0|dask3': "dask:slope:('dim_0', 'dim_1'):[]:87f7d021a0fdfe8c6160",
 'slope|steps|nocoords|0|np': "numpy:slope:('dim_0', 'dim_1'):[]:87f7d021a0fdfe8c6160",
 'slope|steps|res-float-xy|0|dask1': "dask:slope:('dim_0', 'dim_1'):['res']:b20d7eef77728cf0b2e8",
 'slope|steps|res-float-xy|0|dask3': "dask:slope:('dim_0', 'dim_1'):['res']:b20d7eef77728cf0b2e8",
 'slope|steps|res-float-xy|0|np': "numpy:slope:('dim_0', 'dim_1'):['res']:b20d7eef77728cf0b2e8",
 'slope|steps|res-int-xy|0|dask1': "dask:slope:('dim_0', 'dim_1'):['res']:fd59777e817519849c69",
 'slope|steps|res-int-xy|0|dask3': "dask:slope:('dim_0', 'dim_1'):['res']:fd59777e817519849c69",
 'slope|steps|res-int-xy|0|np': "numpy:slope:('dim_0', 'dim_1'):['res']:fd59777e817519849c69",
 'slope|steps|res-list|0|dask1': "dask:slope:('dim_0', 'dim_1'):['res']:f7b5d59168ae80e789bb",
 'slope|steps|res-list|0|dask3': "dask:slope:('dim_0', 'dim_1'):['res']:f7b5d59168ae80e789bb",
 'slope|steps|res-list|0|np': "numpy:slope:('dim_0', 'dim_1'):['res']:f7b5d59168ae80e789bb",
 'slope|steps|res1|0|dask1': "dask:slope:('dim_0', 'dim_1'):['res']:87f7d021a0fdfe8c6160",
 'slope|steps|res1|0|dask3': "dask:slope:('dim_0', 'dim_1'):['res']:87f7d021a0fdfe8c6160",
 'slope|steps|res1|0|np': "numpy:slope:('dim_0', 'dim_1'):['res']:87f7d021a0fdfe8c6160"}  # @@EXPECTED@@


def main():
    results, ref_failures = collect()
    if '--record' in sys.argv:
        import pprint
        print('EXPECTED = ' + pprint.pformat(results, width=200))
        print('# ref failures:', ref_failures, file=sys.stderr)
        return 0
    bad = [k for k in sorted(set(results) | set(EXPECTED)) if results.get(k) != EXPECTED.get(k)]
    n_ok = sum(1 for v in results.values() if not v.startswith('EXC:'))
    print('xrspatial from', xrspatial.__file__)
    print('%d cases (%d computed, %d recorded exceptions), %d digest mismatches, '
          '%d reference mismatches' % (len(results), n_ok, len(results) - n_ok,
                                       len(bad), len(ref_failures)))
    for k in bad[:20]:
        print('  DIGEST MISMATCH', k, results.get(k), '!=', EXPECTED.get(k))
    for k in ref_failures[:20]:
        print('  REFERENCE MISMATCH', k)
    return 1 if (bad or ref_failures) else 0


if __name__ == '__main__':
    sys.exit(main())
