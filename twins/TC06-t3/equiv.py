"""Differential test for property C06 (proximity / allocation / direction).

Runs the three public functions on a deterministic battery of rasters
(several dtypes, NaN/inf cells, odd shapes, ascending / descending and
non-square coordinates, all three metrics, bounded / unbounded max_distance,
numpy and dask backends) and compares a digest of every result (dtype, shape
and raw bytes, NaNs canonicalised) with the digest recorded from the
UNMODIFIED tree.  Exit status 0 iff everything is bit-identical.

Usage:
    cd <worktree> && PYTHONPATH=<worktree> /venv/bin/python equiv.py
    ... equiv.py --record     # print a fresh EXPECTED table (baseline tree)
"""
import hashlib
import sys
import warnings

import dask.array as da
import numpy as np
import xarray as xr

import xrspatial
from xrspatial import allocation, direction, proximity

warnings.filterwarnings("ignore")

FUNCS = (("prox", proximity), ("alloc", allocation), ("dir", direction))


def make_raster(data, xs, ys, chunks=None):
    data = data.copy()
    if chunks is not None:
        data = da.from_array(data, chunks=chunks)
    r = xr.DataArray(data, dims=["y", "x"], attrs={"res": 1, "k": "v"})
    r["y"] = ys
    r["x"] = xs
    return r


def digest(arr):
    arr = np.asarray(arr)
    if arr.dtype.kind == "f":
        arr = np.where(np.isnan(arr), np.array(np.nan, dtype=arr.dtype), arr)
        arr = arr.astype(arr.dtype, copy=False)
    h = hashlib.sha256()
    h.update(str(arr.dtype).encode())
    h.update(str(arr.shape).encode())
    h.update(np.ascontiguousarray(arr).tobytes())
    return h.hexdigest()[:20]


def build_cases():
    rng = np.random.RandomState(20240606)
    cases = []

    def coords(n, start, step):
        return start + step * np.arange(n, dtype=np.float64)

    def add(name, data, xs, ys, chunks=None, **kw):
        cases.append((name, data, xs, ys, chunks, kw))

    # --- random sparse float64 rasters, several shapes, asc/desc coords ----
    for shape in [(1, 1), (1, 7), (6, 1), (5, 5), (7, 11), (13, 4)]:
        h, w = shape
        d = (rng.rand(h, w) < 0.2) * rng.randint(1, 5, size=shape)
        d = d.astype(np.float64)
        add("f64_%dx%d_desc" % shape, d, coords(w, 0, 1), coords(h, h - 1, -1))
        add("f64_%dx%d_asc_nonsq" % shape, d, coords(w, 10, 0.5),
            coords(h, -3, 2.0), distance_metric="MANHATTAN")

    # --- dtypes ------------------------------------------------------------
    base = (rng.rand(8, 9) < 0.15) * rng.randint(1, 4, size=(8, 9))
    for dt in (np.float32, np.int32, np.int64, np.uint8, np.bool_):
        add("dtype_%s" % np.dtype(dt).name, base.astype(dt),
            coords(9, 0, 1), coords(8, 7, -1))
        add("dtype_%s_tv_md" % np.dtype(dt).name, base.astype(dt),
            coords(9, 0, 2), coords(8, 0, 3), target_values=[1, 3],
            max_distance=6.5)
    add("dtype_complex", base.astype(np.complex128), coords(9, 0, 1),
        coords(8, 7, -1))

    # --- NaN / inf cells, no targets, all targets ----------------------------
    d = base.astype(np.float64)
    d[0, 0] = np.nan
    d[3, 4] = np.nan
    d[7, 8] = np.inf
    d[2, 2] = -np.inf
    d[5, 1] = -2.5
    add("nan_inf_default", d, coords(9, 0, 1), coords(8, 7, -1))
    add("nan_inf_tv", d, coords(9, 0, 1), coords(8, 7, -1),
        target_values=[-2.5, 2.0])
    add("nan_as_target_value", d, coords(9, 0, 1), coords(8, 7, -1),
        target_values=[np.nan])
    add("inf_as_target_value", d, coords(9, 0, 1), coords(8, 7, -1),
        target_values=[np.inf], max_distance=4)
    add("no_targets", np.zeros((4, 6)), coords(6, 0, 1), coords(4, 3, -1))
    add("all_targets", np.ones((4, 6)), coords(6, 0, 1), coords(4, 3, -1))
    add("all_nan", np.full((3, 5), np.nan), coords(5, 0, 1), coords(3, 2, -1))

    # --- max_distance variants ------------------------------------------------
    d = np.zeros((9, 10))
    d[1, 2] = 1
    d[6, 8] = 2
    d[8, 0] = 3
    for md in (0, 1, 2.5, 3, 100.0, None, np.inf):
        add("maxdist_%s" % md, d, coords(10, 0, 1), coords(9, 8, -1),
            max_distance=md)
    add("maxdist_2_manhattan", d, coords(10, 0, 1), coords(9, 8, -1),
        max_distance=2, distance_metric="MANHATTAN")
    add("maxdist_3_nonsq_asc", d, coords(10, 5, 0.25), coords(9, 1, 1.5),
        max_distance=3)

    # --- metrics -----------------------------------------------------------------
    d = (rng.rand(6, 8) < 0.12) * rng.randint(1, 6, size=(6, 8)).astype(float)
    d[0, 0] = 4
    lon = coords(8, -170, 45)
    lat = coords(6, 80, -30)
    add("gc_unbounded", d, lon, lat, distance_metric="GREAT_CIRCLE")
    add("gc_bounded", d, lon, lat, distance_metric="GREAT_CIRCLE",
        max_distance=4.0e6)
    add("gc_asc_lat", d, lon[::-1].copy(), lat[::-1].copy(),
        distance_metric="GREAT_CIRCLE", target_values=[4])
    add("gc_out_of_range", d, coords(8, 100, 45), lat,
        distance_metric="GREAT_CIRCLE")
    add("manhattan", d, coords(8, 0, 1), coords(6, 5, -1),
        distance_metric="MANHATTAN")
    add("unknown_metric", d, coords(8, 0, 1), coords(6, 5, -1),
        distance_metric="FOO")
    add("single_target", np.pad(np.ones((1, 1)), ((4, 2), (3, 6))),
        coords(10, -4, 1.5), coords(7, 12, -0.5))
    add("int_coords", d, np.arange(8), np.arange(6)[::-1])

    # --- dask ----------------------------------------------------------------------
    d = (rng.rand(10, 12) < 0.1) * rng.randint(1, 4, size=(10, 12)).astype(float)
    d[4, 5] = np.nan
    d[9, 11] = 2
    for chunks in [(3, 4), (5, 12), (10, 12), (4, 5)]:
        add("dask_unbounded_%dx%d" % chunks, d, coords(12, 0, 1),
            coords(10, 9, -1), chunks=chunks)
        add("dask_md2_%dx%d" % chunks, d, coords(12, 0, 1),
            coords(10, 9, -1), chunks=chunks, max_distance=2)
    add("dask_md3_nonsq_tv", d, coords(12, 0, 0.5), coords(10, 0, 2.0),
        chunks=(4, 4), max_distance=3, target_values=[2, 3])
    add("dask_md_manhattan", d, coords(12, 0, 1), coords(10, 9, -1),
        chunks=(3, 5), max_distance=3, distance_metric="MANHATTAN")
    add("dask_f32_md", d.astype(np.float32),
        coords(12, 0, 1), coords(10, 9, -1), chunks=(5, 5), max_distance=1.5)
    di = np.nan_to_num(d).astype(np.int32)
    add("dask_i32_md4", di, coords(12, 0, 1), coords(10, 9, -1),
        chunks=(6, 7), max_distance=4)
    add("dask_gc", d[:6, :8], lon, lat, chunks=(3, 4),
        distance_metric="GREAT_CIRCLE", max_distance=3.0e6)
    add("dask_gc_unbounded", d[:6, :8], lon, lat, chunks=(3, 4),
        distance_metric="GREAT_CIRCLE")
    add("dask_gc_tiny_cells", d[:6, :8], coords(8, 10, 0.01),
        coords(6, 45, -0.01), chunks=(3, 4),
        distance_metric="GREAT_CIRCLE", max_distance=1500.0)

    # --- wrong dims -> error ----------------------------------------------------------
    cases.append(("bad_dims", None, None, None, None, {}))
    return cases


def run_case(case):
    name, data, xs, ys, chunks, kw = case
    out = {}
    for fname, func in FUNCS:
        key = "%s/%s" % (name, fname)
        try:
            if data is None:
                r = xr.DataArray(np.eye(3), dims=["lat", "lon"])
                res = func(r)
            else:
                r = make_raster(data, xs, ys, chunks)
                res = func(r, **kw)
                is_dask = isinstance(res.data, da.Array)
                if is_dask != (chunks is not None):
                    out[key] = "BACKEND-MISMATCH"
                    continue
                vals = res.values
                meta = "%s|%s|%s|%s" % (
                    res.dims, sorted(res.attrs.items()),
                    digest(res["x"].values), digest(res["y"].values))
                out[key] = digest(vals) + ":" + hashlib.sha256(
                    meta.encode()).hexdigest()[:8]
                continue
            out[key] = "NOEXC"
        except Exception as e:  # recorded: error class must be preserved too
            out[key] = "EXC:" + type(e).__name__
    return out


EXPECTED = {
    'f64_1x1_desc/prox': '3d8106d92e9af40a7249:deb95912',
    'f64_1x1_desc/alloc': '3d8106d92e9af40a7249:deb95912',
    'f64_1x1_desc/dir': '3d8106d92e9af40a7249:deb95912',
    'f64_1x1_asc_nonsq/prox': '3d8106d92e9af40a7249:97cc2acc',
    'f64_1x1_asc_nonsq/alloc': '3d8106d92e9af40a7249:97cc2acc',
    'f64_1x1_asc_nonsq/dir': '3d8106d92e9af40a7249:97cc2acc',
    'f64_1x7_desc/prox': 'bb5a22f629e7c857dc2a:7afc35f1',
    'f64_1x7_desc/alloc': '67f95166a865c44df562:7afc35f1',
    'f64_1x7_desc/dir': '2f220059232045be178e:7afc35f1',
    'f64_1x7_asc_nonsq/prox': '52b474b9f4e12f91e5cf:48da2f24',
    'f64_1x7_asc_nonsq/alloc': '67f95166a865c44df562:48da2f24',
    'f64_1x7_asc_nonsq/dir': '2f220059232045be178e:48da2f24',
    'f64_6x1_desc/prox': 'f591713244d2c064edd3:bed28be8',
    'f64_6x1_desc/alloc': '9bb42320ddad6776cd1a:bed28be8',
    'f64_6x1_desc/dir': 'd25aa4c8d4baef670b5a:bed28be8',
    'f64_6x1_asc_nonsq/prox': '4ef5bb8e1066897a2e60:8cfbc8ca',
    'f64_6x1_asc_nonsq/alloc': '9bb42320ddad6776cd1a:8cfbc8ca',
    'f64_6x1_asc_nonsq/dir': 'e9b4524caf66606d049a:8cfbc8ca',
    'f64_5x5_desc/prox': '98c818ab5b5bbac7ff7d:5e03daf7',
    'f64_5x5_desc/alloc': '512d948b5c9f37dfc3a5:5e03daf7',
    'f64_5x5_desc/dir': 'f74939e10621b8fd7d2e:5e03daf7',
    'f64_5x5_asc_nonsq/prox': '73c3b3b2ead62be610a5:eeab844e',
    'f64_5x5_asc_nonsq/alloc': '761ef14737cf91484abf:eeab844e',
    'f64_5x5_asc_nonsq/dir': '92f830d5cc83723635f8:eeab844e',
    'f64_7x11_desc/prox': 'ff70a579c7544331c90f:e20e8280',
    'f64_7x11_desc/alloc': '24975ae87217eab5c30f:e20e8280',
    'f64_7x11_desc/dir': '81a3874a80ac3c6d01d1:e20e8280',
    'f64_7x11_asc_nonsq/prox': '10ec6ef28774d1592fd1:e3cbecbc',
    'f64_7x11_asc_nonsq/alloc': 'd57af6cd075e67f2ab7e:e3cbecbc',
    'f64_7x11_asc_nonsq/dir': 'dcbc3f28bf066858c05c:e3cbecbc',
    'f64_13x4_desc/prox': '02e8889131e234d600d2:a099c220',
    'f64_13x4_desc/alloc': '2d6a2424f778af4d9e74:a099c220',
    'f64_13x4_desc/dir': '8401cd34dac3ee2d8287:a099c220',
    'f64_13x4_asc_nonsq/prox': '35bc9ece86765ff26149:be8efd27',
    'f64_13x4_asc_nonsq/alloc': '067b6ca0a88afe22de40:be8efd27',
    'f64_13x4_asc_nonsq/dir': 'ae78f74d692df22192c5:be8efd27',
    'dtype_float32/prox': '6dc0056ac0c705ffd00e:6d78989f',
    'dtype_float32/alloc': '3c6bcafa2c4b9e4ec6cb:6d78989f',
    'dtype_float32/dir': '58515a450b0e03a1bd57:6d78989f',
    'dtype_float32_tv_md/prox': '7f95e3b20053284585c0:4a68868f',
    'dtype_float32_tv_md/alloc': 'ec651d45790ed515e305:4a68868f',
    'dtype_float32_tv_md/dir': '3154f08f942093942616:4a68868f',
    'dtype_int32/prox': '6dc0056ac0c705ffd00e:6d78989f',
    'dtype_int32/alloc': '3c6bcafa2c4b9e4ec6cb:6d78989f',
    'dtype_int32/dir': '58515a450b0e03a1bd57:6d78989f',
    'dtype_int32_tv_md/prox': '7f95e3b20053284585c0:4a68868f',
    'dtype_int32_tv_md/alloc': 'ec651d45790ed515e305:4a68868f',
    'dtype_int32_tv_md/dir': '3154f08f942093942616:4a68868f',
    'dtype_int64/prox': '6dc0056ac0c705ffd00e:6d78989f',
    'dtype_int64/alloc': '3c6bcafa2c4b9e4ec6cb:6d78989f',
    'dtype_int64/dir': '58515a450b0e03a1bd57:6d78989f',
    'dtype_int64_tv_md/prox': '7f95e3b20053284585c0:4a68868f',
    'dtype_int64_tv_md/alloc': 'ec651d45790ed515e305:4a68868f',
    'dtype_int64_tv_md/dir': '3154f08f942093942616:4a68868f',
    'dtype_uint8/prox': '6dc0056ac0c705ffd00e:6d78989f',
    'dtype_uint8/alloc': '3c6bcafa2c4b9e4ec6cb:6d78989f',
    'dtype_uint8/dir': '58515a450b0e03a1bd57:6d78989f',
    'dtype_uint8_tv_md/prox': '7f95e3b20053284585c0:4a68868f',
    'dtype_uint8_tv_md/alloc': 'ec651d45790ed515e305:4a68868f',
    'dtype_uint8_tv_md/dir': '3154f08f942093942616:4a68868f',
    'dtype_bool/prox': '6dc0056ac0c705ffd00e:6d78989f',
    'dtype_bool/alloc': 'c60f08456d2e0ce56073:6d78989f',
    'dtype_bool/dir': '58515a450b0e03a1bd57:6d78989f',
    'dtype_bool_tv_md/prox': '77af2ca6fb9fc6430557:4a68868f',
    'dtype_bool_tv_md/alloc': 'f891ee6809380dfc3047:4a68868f',
    'dtype_bool_tv_md/dir': '9d9ddd0d98ddf4e14fb5:4a68868f',
    'dtype_complex/prox': '6dc0056ac0c705ffd00e:6d78989f',
    'dtype_complex/alloc': 'EXC:TypingError',
    'dtype_complex/dir': '58515a450b0e03a1bd57:6d78989f',
    'nan_inf_default/prox': '66f38375a51e785519f8:6d78989f',
    'nan_inf_default/alloc': 'd6ed16fe3e98da7e0f42:6d78989f',
    'nan_inf_default/dir': 'c4de5f1c348994161111:6d78989f',
    'nan_inf_tv/prox': '566a8f2ed15e9ae3bbf5:6d78989f',
    'nan_inf_tv/alloc': 'f9de80886a6d20a96db1:6d78989f',
    'nan_inf_tv/dir': '9427e3624b2b0810da0f:6d78989f',
    'nan_as_target_value/prox': 'd78e600be5f4a1947311:6d78989f',
    'nan_as_target_value/alloc': 'd78e600be5f4a1947311:6d78989f',
    'nan_as_target_value/dir': 'd78e600be5f4a1947311:6d78989f',
    'inf_as_target_value/prox': 'b21924b1113dc7c9f23b:6d78989f',
    'inf_as_target_value/alloc': 'ecc8e0ce6eaf6763eb60:6d78989f',
    'inf_as_target_value/dir': '346b52adeb97b509b5c2:6d78989f',
    'no_targets/prox': '45c88fac68a438dbde36:805d3faf',
    'no_targets/alloc': '45c88fac68a438dbde36:805d3faf',
    'no_targets/dir': '45c88fac68a438dbde36:805d3faf',
    'all_targets/prox': '1cd7a75ecbc8454b21a2:805d3faf',
    'all_targets/alloc': '31fa40284f17bf76c6c0:805d3faf',
    'all_targets/dir': '1cd7a75ecbc8454b21a2:805d3faf',
    'all_nan/prox': 'c9a99aa8a6a7edff8859:f58cb2d4',
    'all_nan/alloc': 'c9a99aa8a6a7edff8859:f58cb2d4',
    'all_nan/dir': 'c9a99aa8a6a7edff8859:f58cb2d4',
    'maxdist_0/prox': '10060c3b5e3096ee7eb6:fed7005e',
    'maxdist_0/alloc': '5a90e83885360bd210b1:fed7005e',
    'maxdist_0/dir': '10060c3b5e3096ee7eb6:fed7005e',
    'maxdist_1/prox': 'b49dea6b609655936f47:fed7005e',
    'maxdist_1/alloc': '2e784d8a08f39fdbad78:fed7005e',
    'maxdist_1/dir': '9adeb887e659eadd6d3b:fed7005e',
    'maxdist_2.5/prox': 'c2cd065a3758654ea381:fed7005e',
    'maxdist_2.5/alloc': 'b442ce55cd3650c5ab3b:fed7005e',
    'maxdist_2.5/dir': '9f21b725902449d2529e:fed7005e',
    'maxdist_3/prox': 'aa049fce5dfea905a82c:fed7005e',
    'maxdist_3/alloc': '8ef740bbc3435240c73c:fed7005e',
    'maxdist_3/dir': '40ab2eb36eb59fca6941:fed7005e',
    'maxdist_100.0/prox': '59364b25b92a33b8b477:fed7005e',
    'maxdist_100.0/alloc': 'c894596773a49b6e376f:fed7005e',
    'maxdist_100.0/dir': 'ee459a0b059ab4df1bf0:fed7005e',
    'maxdist_None/prox': '59364b25b92a33b8b477:fed7005e',
    'maxdist_None/alloc': 'c894596773a49b6e376f:fed7005e',
    'maxdist_None/dir': 'ee459a0b059ab4df1bf0:fed7005e',
    'maxdist_inf/prox': '59364b25b92a33b8b477:fed7005e',
    'maxdist_inf/alloc': 'c894596773a49b6e376f:fed7005e',
    'maxdist_inf/dir': 'ee459a0b059ab4df1bf0:fed7005e',
    'maxdist_2_manhattan/prox': 'dc73b0ffb09693395ee0:fed7005e',
    'maxdist_2_manhattan/alloc': 'a71154b8c258fa5b0f80:fed7005e',
    'maxdist_2_manhattan/dir': '328c0fc0c6b687d0f6de:fed7005e',
    'maxdist_3_nonsq_asc/prox': '17b907baf76c3ccc60ac:bc4e1e9e',
    'maxdist_3_nonsq_asc/alloc': '9270f425a564b3a1ab45:bc4e1e9e',
    'maxdist_3_nonsq_asc/dir': '45e90e3c0f7a834f4c49:bc4e1e9e',
    'gc_unbounded/prox': '1d06ec17e44e19a4ef1b:0fe298fb',
    'gc_unbounded/alloc': '9bbdab83ea12c55ab44b:0fe298fb',
    'gc_unbounded/dir': '012123d53f1610b565ad:0fe298fb',
    'gc_bounded/prox': 'd32bdf397acb246d4bfb:0fe298fb',
    'gc_bounded/alloc': '1ced4fed6bf9746048cf:0fe298fb',
    'gc_bounded/dir': '5c760011d7f7d3080b21:0fe298fb',
    'gc_asc_lat/prox': '09380f8d377e0bb390e6:91e6c5a9',
    'gc_asc_lat/alloc': '391f9921623ea7404c6a:91e6c5a9',
    'gc_asc_lat/dir': '4d0b43d3009362b63e50:91e6c5a9',
    'gc_out_of_range/prox': 'EXC:ValueError',
    'gc_out_of_range/alloc': 'EXC:ValueError',
    'gc_out_of_range/dir': 'EXC:ValueError',
    'manhattan/prox': '3d9556876bb07eb1d3ff:a9da82c0',
    'manhattan/alloc': 'b61be8a9397bfbec9a21:a9da82c0',
    'manhattan/dir': 'c738864c167fc60967a1:a9da82c0',
    'unknown_metric/prox': '0d6505027db263c0d0d3:a9da82c0',
    'unknown_metric/alloc': '113ead5a9c93efb69889:a9da82c0',
    'unknown_metric/dir': 'ac888290dccec2bd0174:a9da82c0',
    'single_target/prox': '444b8934191c554ddec5:057d4d39',
    'single_target/alloc': '3b456de81fa11994483b:057d4d39',
    'single_target/dir': 'c317ab6645ca742bcfde:057d4d39',
    'int_coords/prox': '0d6505027db263c0d0d3:ed248af0',
    'int_coords/alloc': '113ead5a9c93efb69889:ed248af0',
    'int_coords/dir': 'ac888290dccec2bd0174:ed248af0',
    'dask_unbounded_3x4/prox': 'd843df3efe7c25cbf620:3d2ce351',
    'dask_unbounded_3x4/alloc': 'b7db047b59ec10e12194:3d2ce351',
    'dask_unbounded_3x4/dir': '65b748025dd9147ae161:3d2ce351',
    'dask_md2_3x4/prox': 'f8062fbb822b6d217b8e:3d2ce351',
    'dask_md2_3x4/alloc': 'b343170de831b96c26d8:3d2ce351',
    'dask_md2_3x4/dir': '293170fb78c69b6945ae:3d2ce351',
    'dask_unbounded_5x12/prox': 'd843df3efe7c25cbf620:3d2ce351',
    'dask_unbounded_5x12/alloc': 'b7db047b59ec10e12194:3d2ce351',
    'dask_unbounded_5x12/dir': '65b748025dd9147ae161:3d2ce351',
    'dask_md2_5x12/prox': 'f8062fbb822b6d217b8e:3d2ce351',
    'dask_md2_5x12/alloc': 'b343170de831b96c26d8:3d2ce351',
    'dask_md2_5x12/dir': '293170fb78c69b6945ae:3d2ce351',
    'dask_unbounded_10x12/prox': 'd843df3efe7c25cbf620:3d2ce351',
    'dask_unbounded_10x12/alloc': 'b7db047b59ec10e12194:3d2ce351',
    'dask_unbounded_10x12/dir': '65b748025dd9147ae161:3d2ce351',
    'dask_md2_10x12/prox': 'f8062fbb822b6d217b8e:3d2ce351',
    'dask_md2_10x12/alloc': 'b343170de831b96c26d8:3d2ce351',
    'dask_md2_10x12/dir': '293170fb78c69b6945ae:3d2ce351',
    'dask_unbounded_4x5/prox': 'd843df3efe7c25cbf620:3d2ce351',
    'dask_unbounded_4x5/alloc': 'b7db047b59ec10e12194:3d2ce351',
    'dask_unbounded_4x5/dir': '65b748025dd9147ae161:3d2ce351',
    'dask_md2_4x5/prox': 'f8062fbb822b6d217b8e:3d2ce351',
    'dask_md2_4x5/alloc': 'b343170de831b96c26d8:3d2ce351',
    'dask_md2_4x5/dir': '293170fb78c69b6945ae:3d2ce351',
    'dask_md3_nonsq_tv/prox': 'eea85a3ce93a6ef973fc:a70bc98e',
    'dask_md3_nonsq_tv/alloc': '5d08f66cbf054cab8a37:a70bc98e',
    'dask_md3_nonsq_tv/dir': '3b54bdcd9d971739e867:a70bc98e',
    'dask_md_manhattan/prox': 'bef1fe84fb594ff833c1:3d2ce351',
    'dask_md_manhattan/alloc': 'dc17091efd8614353db3:3d2ce351',
    'dask_md_manhattan/dir': '6d20154709f914522b43:3d2ce351',
    'dask_f32_md/prox': '33642078553682a08146:3d2ce351',
    'dask_f32_md/alloc': '0c3fae4d7d106327bd9e:3d2ce351',
    'dask_f32_md/dir': 'f581c251cfb81ca93e17:3d2ce351',
    'dask_i32_md4/prox': 'd843df3efe7c25cbf620:3d2ce351',
    'dask_i32_md4/alloc': 'b7db047b59ec10e12194:3d2ce351',
    'dask_i32_md4/dir': '65b748025dd9147ae161:3d2ce351',
    'dask_gc/prox': 'EXC:ValueError',
    'dask_gc/alloc': 'EXC:ValueError',
    'dask_gc/dir': 'EXC:ValueError',
    'dask_gc_unbounded/prox': 'c5a6c650b0c94d9f0df4:0fe298fb',
    'dask_gc_unbounded/alloc': '9592f154daf8916f7824:0fe298fb',
    'dask_gc_unbounded/dir': 'b9f4877e5addcff98e4d:0fe298fb',
    'dask_gc_tiny_cells/prox': 'EXC:ValueError',
    'dask_gc_tiny_cells/alloc': 'EXC:ValueError',
    'dask_gc_tiny_cells/dir': 'EXC:ValueError',
    'bad_dims/prox': 'EXC:ValueError',
    'bad_dims/alloc': 'EXC:ValueError',
    'bad_dims/dir': 'EXC:ValueError',
}


def main():
    print("xrspatial from", xrspatial.__file__)
    got = {}
    for case in build_cases():
        got.update(run_case(case))
    if "--record" in sys.argv:
        for k in got:
            print("    %r: %r," % (k, got[k]))
        return 0
    bad = 0
    for k, v in got.items():
        if EXPECTED.get(k) != v:
            bad += 1
            print("MISMATCH", k, "expected", EXPECTED.get(k), "got", v)
    missing = set(EXPECTED) - set(got)
    if missing:
        bad += len(missing)
        print("MISSING", sorted(missing))
    n_exc = sum(1 for v in got.values() if v.startswith("EXC"))
    print("%d results compared (%d of them recorded exceptions), %d mismatches"
          % (len(got), n_exc, bad))
    return 1 if bad else 0


if __name__ == "__main__":
    sys.exit(main())
