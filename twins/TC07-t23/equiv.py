"""Differential test for proximity / allocation / direction (property C07).

Runs the three public functions on NumPy- and Dask-backed rasters (several
dtypes, NaN / inf cells, odd shapes, several chunkings, metrics, max_distance
values incl. fractions of a cell, ints, None and inf) and compares a digest of
every outcome (dtype, shape, raw bytes, or the exception type + message) with
the digests recorded from the UNMODIFIED tree (EXPECTED below).

usage:  python equiv.py            -> exit 0 if identical, 1 otherwise
        python equiv.py --record   -> print the EXPECTED dict
"""
import hashlib
import json
import sys
import warnings

import dask
import dask.array as da
import numpy as np
import xarray as xr

import xrspatial
from xrspatial import allocation, direction, proximity

warnings.filterwarnings("ignore")

FUNCS = {"prox": proximity, "alloc": allocation, "dir": direction}


def make_raster(shape, dtype, seed, xstep=1.0, ystep=-1.0, x0=0.0, y0=0.0,
                density=0.15, nan=True, dims=("y", "x")):
    rs = np.random.RandomState(seed)
    h, w = shape
    data = np.zeros(shape, dtype=np.float64)
    mask = rs.rand(h, w) < density
    data[mask] = rs.randint(1, 4, size=mask.sum())
    data = data.astype(dtype)
    if nan and np.issubdtype(np.dtype(dtype), np.floating):
        m2 = rs.rand(h, w) < 0.08
        data[m2] = np.nan
        if h * w > 6:
            data.flat[(seed * 7) % (h * w)] = np.inf
            data.flat[(seed * 11 + 3) % (h * w)] = -np.inf
    r = xr.DataArray(data, dims=dims, name="r", attrs={"res": 1, "k": "v"})
    r[dims[0]] = y0 + np.arange(h) * ystep
    r[dims[1]] = x0 + np.arange(w) * xstep
    return r


def digest(arr):
    arr = np.ascontiguousarray(arr)
    hsh = hashlib.sha256()
    hsh.update(str(arr.dtype).encode())
    hsh.update(str(arr.shape).encode())
    hsh.update(arr.tobytes())
    return hsh.hexdigest()[:20]


def run(fname, raster, chunks, kwargs, scheduler="synchronous"):
    f = FUNCS[fname]
    try:
        if chunks is None:
            out = f(raster, **kwargs)
            assert isinstance(out.data, np.ndarray)
            vals = out.data
        else:
            r = raster.copy()
            r.data = da.from_array(raster.data, chunks=chunks)
            out = f(r, **kwargs)
            assert isinstance(out.data, da.Array)
            with dask.config.set(scheduler=scheduler):
                vals = out.data.compute()
        meta = (tuple(out.dims), dict(out.attrs) == dict(raster.attrs),
                sorted(out.coords),
                all(np.array_equal(out[c].values, raster[c].values)
                    for c in raster.coords))
        return "ok:" + digest(vals) + ":" + hashlib.sha256(
            repr(meta).encode()).hexdigest()[:8]
    except Exception as e:  # outcome includes the error
        return "err:%s:%s" % (type(e).__name__, str(e)[:120])


def cases():
    out = []
    # (label, raster-kwargs, list of chunkings, list of kwargs)
    grids = [
        ("f64_7x9", dict(shape=(7, 9), dtype="float64", seed=1),
         [None, (3, 4), (7, 2), ((3, 4), (5, 4))]),
        ("f32_10x13", dict(shape=(10, 13), dtype="float32", seed=2,
                           xstep=0.5, ystep=-0.5, x0=-3.0, y0=2.0),
         [None, (4, 5), (10, 13), (3, 13)]),
        ("i32_9x8", dict(shape=(9, 8), dtype="int32", seed=3,
                         xstep=2.5, ystep=2.5), [None, (3, 3), (5, 8)]),
        ("u8_6x6", dict(shape=(6, 6), dtype="uint8", seed=4, density=0.1),
         [None, (2, 3)]),
        ("i64_1x8", dict(shape=(1, 8), dtype="int64", seed=5), [None, (1, 3)]),
        ("f64_6x1", dict(shape=(6, 1), dtype="float64", seed=6),
         [None, (2, 1)]),
        ("f64_sparse_12x12", dict(shape=(12, 12), dtype="float64", seed=7,
                                  density=0.03, nan=False),
         [None, (4, 4), (5, 7), (12, 3)]),
    ]
    kws = [
        dict(),
        dict(max_distance=1.0),
        dict(max_distance=1.5),
        dict(max_distance=0.4),
        dict(max_distance=2),
        dict(max_distance=3.7, distance_metric="MANHATTAN"),
        dict(max_distance=2.0, target_values=[2, 3]),
        dict(target_values=[1]),
        dict(max_distance=None),
        dict(max_distance=1e9, distance_metric="FOO"),
    ]
    for label, rk, chunkings in grids:
        raster = make_raster(**rk)
        for ki, kw in enumerate(kws):
            # keep the run time bounded: every grid sees every kwargs set, but
            # the chunkings / functions rotate
            for ci, ch in enumerate(chunkings):
                for fi, fname in enumerate(FUNCS):
                    if ch is not None and (ki + ci + fi) % 3 != 0:
                        continue
                    if ch is None and (ki + fi) % 2 != 0 and ki > 3:
                        continue
                    out.append(("%s|%s|%s|%s" % (label, fname, ch, sorted(
                        kw.items())), fname, raster, ch, kw, "synchronous"))
    # great circle on a lon/lat grid, threaded scheduler
    gc = make_raster(shape=(8, 10), dtype="float64", seed=8, xstep=0.25,
                     ystep=-0.25, x0=10.0, y0=50.0)
    for fname in FUNCS:
        for ch in (None, (3, 4), (8, 5)):
            for md in (np.inf, 30000.0, 60000.0):
                kw = dict(distance_metric="GREAT_CIRCLE", max_distance=md)
                out.append(("gc|%s|%s|%s" % (fname, ch, md), fname, gc, ch, kw,
                            "threads"))
    # out-of-range lon -> error raised from inside the kernel
    bad = make_raster(shape=(4, 5), dtype="float64", seed=9, x0=178.0)
    out.append(("gc_bad|prox", "prox", bad, None,
                dict(distance_metric="GREAT_CIRCLE"), "synchronous"))
    # wrong dim names -> ValueError with its message; custom dim names
    lonlat = make_raster(shape=(5, 6), dtype="float64", seed=10,
                         dims=("lat", "lon"))
    for fname in FUNCS:
        out.append(("dims_bad|%s" % fname, fname, lonlat, None, dict(),
                    "synchronous"))
        out.append(("dims_ok|%s" % fname, fname, lonlat, None,
                    dict(x="lon", y="lat", max_distance=2.0), "synchronous"))
        out.append(("dims_ok_dask|%s" % fname, fname, lonlat, (2, 3),
                    dict(x="lon", y="lat", max_distance=2.0), "synchronous"))
        out.append(("dims_swapped|%s" % fname, fname, lonlat, None,
                    dict(x="lat", y="lon"), "synchronous"))
    # hand-made tie / halo-edge layout: targets exactly at distance 2 and 3
    tie = np.zeros((9, 11), dtype=np.float64)
    tie[4, 2] = 1
    tie[4, 8] = 2
    tie[0, 5] = 3
    tie[8, 5] = 4
    tie[2, 0] = np.nan
    t = xr.DataArray(tie, dims=("y", "x"), attrs={"a": 1})
    t["y"] = np.arange(9)[::-1]
    t["x"] = np.arange(11)
    for fname in FUNCS:
        for ch in (None, (3, 3), (4, 6), (9, 2)):
            for md in (2.0, 2.99, 3.0, 4, np.inf):
                out.append(("tie|%s|%s|%s" % (fname, ch, md), fname, t, ch,
                            dict(max_distance=md), "synchronous"))
    return out


EXPECTED = {
    'dims_bad|alloc':
        'err:ValueError:raster.coords should be named as coordinates:(y, x)',
    'dims_bad|dir':
        'err:ValueError:raster.coords should be named as coordinates:(y, x)',
    'dims_bad|prox':
        'err:ValueError:raster.coords should be named as coordinates:(y, x)',
    'dims_ok_dask|alloc':
        'ok:c728c241dbd45bede7a5:2a157cbb',
    'dims_ok_dask|dir':
        'ok:33a7c74d783469aa3aab:2a157cbb',
    'dims_ok_dask|prox':
        'ok:791239485b102c7d3d07:2a157cbb',
    'dims_ok|alloc':
        'ok:c728c241dbd45bede7a5:2a157cbb',
    'dims_ok|dir':
        'ok:33a7c74d783469aa3aab:2a157cbb',
    'dims_ok|prox':
        'ok:791239485b102c7d3d07:2a157cbb',
    'dims_swapped|alloc':
        'err:ValueError:raster.coords should be named as coordinates:(lon, lat)',
    'dims_swapped|dir':
        'err:ValueError:raster.coords should be named as coordinates:(lon, lat)',
    'dims_swapped|prox':
        'err:ValueError:raster.coords should be named as coordinates:(lon, lat)',
    "f32_10x13|alloc|(10, 13)|[('distance_metric', 'FOO'), ('max_distance', 1000000000.0)]":
        'ok:d25eedc97b77b79d0b3a:b3c1e4bc',
    "f32_10x13|alloc|(10, 13)|[('max_distance', 0.4)]":
        'ok:78b07f168ab683ce0e26:b3c1e4bc',
    "f32_10x13|alloc|(10, 13)|[('max_distance', 2.0), ('target_values', [2, 3])]":
        'ok:945fe08f96489f5eb084:b3c1e4bc',
    'f32_10x13|alloc|(10, 13)|[]':
        'ok:d25eedc97b77b79d0b3a:b3c1e4bc',
    "f32_10x13|alloc|(3, 13)|[('distance_metric', 'MANHATTAN'), ('max_distance', 3.7)]":
        'ok:0b0cbb2dc33a2bfa9223:b3c1e4bc',
    "f32_10x13|alloc|(3, 13)|[('max_distance', 1.5)]":
        'ok:d25eedc97b77b79d0b3a:b3c1e4bc',
    "f32_10x13|alloc|(3, 13)|[('max_distance', None)]":
        'ok:d25eedc97b77b79d0b3a:b3c1e4bc',
    "f32_10x13|alloc|(4, 5)|[('max_distance', 1.0)]":
        'ok:785344996713924ddf00:b3c1e4bc',
    "f32_10x13|alloc|(4, 5)|[('max_distance', 2)]":
        'ok:e907aec91be1bb8b9eb4:b3c1e4bc',
    "f32_10x13|alloc|(4, 5)|[('target_values', [1])]":
        'ok:e92c13d182c70b7140f0:b3c1e4bc',
    "f32_10x13|alloc|None|[('distance_metric', 'FOO'), ('max_distance', 1000000000.0)]":
        'ok:d25eedc97b77b79d0b3a:b3c1e4bc',
    "f32_10x13|alloc|None|[('distance_metric', 'MANHATTAN'), ('max_distance', 3.7)]":
        'ok:0b0cbb2dc33a2bfa9223:b3c1e4bc',
    "f32_10x13|alloc|None|[('max_distance', 0.4)]":
        'ok:78b07f168ab683ce0e26:b3c1e4bc',
    "f32_10x13|alloc|None|[('max_distance', 1.0)]":
        'ok:2250d27f6d09e6cef7d0:b3c1e4bc',
    "f32_10x13|alloc|None|[('max_distance', 1.5)]":
        'ok:d25eedc97b77b79d0b3a:b3c1e4bc',
    "f32_10x13|alloc|None|[('target_values', [1])]":
        'ok:e92c13d182c70b7140f0:b3c1e4bc',
    'f32_10x13|alloc|None|[]':
        'ok:d25eedc97b77b79d0b3a:b3c1e4bc',
    "f32_10x13|dir|(10, 13)|[('distance_metric', 'MANHATTAN'), ('max_distance', 3.7)]":
        'ok:0da952f6efb7994c2d5d:b3c1e4bc',
    "f32_10x13|dir|(10, 13)|[('max_distance', 1.5)]":
        'ok:a5631f145eba0ace3f21:b3c1e4bc',
    "f32_10x13|dir|(10, 13)|[('max_distance', None)]":
        'ok:a5631f145eba0ace3f21:b3c1e4bc',
    "f32_10x13|dir|(3, 13)|[('max_distance', 1.0)]":
        'ok:7c9523e7798e4b90b723:b3c1e4bc',
    "f32_10x13|dir|(3, 13)|[('max_distance', 2)]":
        'ok:a5631f145eba0ace3f21:b3c1e4bc',
    "f32_10x13|dir|(3, 13)|[('target_values', [1])]":
        'ok:dacc005e2f8308e36a17:b3c1e4bc',
    "f32_10x13|dir|(4, 5)|[('distance_metric', 'FOO'), ('max_distance', 1000000000.0)]":
        'ok:a5631f145eba0ace3f21:b3c1e4bc',
    "f32_10x13|dir|(4, 5)|[('max_distance', 0.4)]":
        'ok:84b5532340efe243beca:b3c1e4bc',
    "f32_10x13|dir|(4, 5)|[('max_distance', 2.0), ('target_values', [2, 3])]":
        'ok:54fc0bcf776df7b71329:b3c1e4bc',
    'f32_10x13|dir|(4, 5)|[]':
        'ok:a5631f145eba0ace3f21:b3c1e4bc',
    "f32_10x13|dir|None|[('max_distance', 0.4)]":
        'ok:84b5532340efe243beca:b3c1e4bc',
    "f32_10x13|dir|None|[('max_distance', 1.0)]":
        'ok:50f2593214f17c1ad02c:b3c1e4bc',
    "f32_10x13|dir|None|[('max_distance', 1.5)]":
        'ok:a5631f145eba0ace3f21:b3c1e4bc',
    "f32_10x13|dir|None|[('max_distance', 2)]":
        'ok:a5631f145eba0ace3f21:b3c1e4bc',
    "f32_10x13|dir|None|[('max_distance', 2.0), ('target_values', [2, 3])]":
        'ok:9e3a34e612e54b84fc7e:b3c1e4bc',
    "f32_10x13|dir|None|[('max_distance', None)]":
        'ok:a5631f145eba0ace3f21:b3c1e4bc',
    'f32_10x13|dir|None|[]':
        'ok:a5631f145eba0ace3f21:b3c1e4bc',
    "f32_10x13|prox|(10, 13)|[('max_distance', 1.0)]":
        'ok:f595dbae165470de8122:b3c1e4bc',
    "f32_10x13|prox|(10, 13)|[('max_distance', 2)]":
        'ok:3eda82a4f6365aefd1f2:b3c1e4bc',
    "f32_10x13|prox|(10, 13)|[('target_values', [1])]":
        'ok:54a786c9e7b60e78b0e5:b3c1e4bc',
    "f32_10x13|prox|(3, 13)|[('distance_metric', 'FOO'), ('max_distance', 1000000000.0)]":
        'ok:3eda82a4f6365aefd1f2:b3c1e4bc',
    "f32_10x13|prox|(3, 13)|[('max_distance', 0.4)]":
        'ok:84b5532340efe243beca:b3c1e4bc',
    "f32_10x13|prox|(3, 13)|[('max_distance', 2.0), ('target_values', [2, 3])]":
        'ok:455aebaea6c67e38ebc7:b3c1e4bc',
    'f32_10x13|prox|(3, 13)|[]':
        'ok:3eda82a4f6365aefd1f2:b3c1e4bc',
    "f32_10x13|prox|(4, 5)|[('distance_metric', 'MANHATTAN'), ('max_distance', 3.7)]":
        'ok:2c1ceba75601407ad5de:b3c1e4bc',
    "f32_10x13|prox|(4, 5)|[('max_distance', 1.5)]":
        'ok:90336bf59c71d250342a:b3c1e4bc',
    "f32_10x13|prox|(4, 5)|[('max_distance', None)]":
        'ok:3eda82a4f6365aefd1f2:b3c1e4bc',
    "f32_10x13|prox|None|[('max_distance', 0.4)]":
        'ok:84b5532340efe243beca:b3c1e4bc',
    "f32_10x13|prox|None|[('max_distance', 1.0)]":
        'ok:f595dbae165470de8122:b3c1e4bc',
    "f32_10x13|prox|None|[('max_distance', 1.5)]":
        'ok:3eda82a4f6365aefd1f2:b3c1e4bc',
    "f32_10x13|prox|None|[('max_distance', 2)]":
        'ok:3eda82a4f6365aefd1f2:b3c1e4bc',
    "f32_10x13|prox|None|[('max_distance', 2.0), ('target_values', [2, 3])]":
        'ok:455aebaea6c67e38ebc7:b3c1e4bc',
    "f32_10x13|prox|None|[('max_distance', None)]":
        'ok:3eda82a4f6365aefd1f2:b3c1e4bc',
    'f32_10x13|prox|None|[]':
        'ok:3eda82a4f6365aefd1f2:b3c1e4bc',
    "f64_6x1|alloc|(2, 1)|[('max_distance', 1.0)]":
        'ok:e896a6caa337304971df:b3c1e4bc',
    "f64_6x1|alloc|(2, 1)|[('max_distance', 2)]":
        'err:ValueError:The overlapping depth 2 is larger than your array 1.',
    "f64_6x1|alloc|(2, 1)|[('target_values', [1])]":
        'ok:b0beda72bcdda20b98d3:b3c1e4bc',
    "f64_6x1|alloc|None|[('distance_metric', 'FOO'), ('max_distance', 1000000000.0)]":
        'ok:7c918f6744118be39f5f:b3c1e4bc',
    "f64_6x1|alloc|None|[('distance_metric', 'MANHATTAN'), ('max_distance', 3.7)]":
        'ok:7c918f6744118be39f5f:b3c1e4bc',
    "f64_6x1|alloc|None|[('max_distance', 0.4)]":
        'ok:7914a32fbd79139091ef:b3c1e4bc',
    "f64_6x1|alloc|None|[('max_distance', 1.0)]":
        'ok:e896a6caa337304971df:b3c1e4bc',
    "f64_6x1|alloc|None|[('max_distance', 1.5)]":
        'ok:e896a6caa337304971df:b3c1e4bc',
    "f64_6x1|alloc|None|[('target_values', [1])]":
        'ok:b0beda72bcdda20b98d3:b3c1e4bc',
    'f64_6x1|alloc|None|[]':
        'ok:7c918f6744118be39f5f:b3c1e4bc',
    "f64_6x1|dir|(2, 1)|[('distance_metric', 'FOO'), ('max_distance', 1000000000.0)]":
        'ok:811c727f03ce1e199d4e:b3c1e4bc',
    "f64_6x1|dir|(2, 1)|[('max_distance', 0.4)]":
        'ok:5e40002b58f4f2eb3948:b3c1e4bc',
    "f64_6x1|dir|(2, 1)|[('max_distance', 2.0), ('target_values', [2, 3])]":
        'err:ValueError:The overlapping depth 2 is larger than your array 1.',
    'f64_6x1|dir|(2, 1)|[]':
        'ok:811c727f03ce1e199d4e:b3c1e4bc',
    "f64_6x1|dir|None|[('max_distance', 0.4)]":
        'ok:5e40002b58f4f2eb3948:b3c1e4bc',
    "f64_6x1|dir|None|[('max_distance', 1.0)]":
        'ok:6954fad06b318e66056c:b3c1e4bc',
    "f64_6x1|dir|None|[('max_distance', 1.5)]":
        'ok:6954fad06b318e66056c:b3c1e4bc',
    "f64_6x1|dir|None|[('max_distance', 2)]":
        'ok:c6aa52715a4212ef58b8:b3c1e4bc',
    "f64_6x1|dir|None|[('max_distance', 2.0), ('target_values', [2, 3])]":
        'ok:c6aa52715a4212ef58b8:b3c1e4bc',
    "f64_6x1|dir|None|[('max_distance', None)]":
        'ok:811c727f03ce1e199d4e:b3c1e4bc',
    'f64_6x1|dir|None|[]':
        'ok:811c727f03ce1e199d4e:b3c1e4bc',
    "f64_6x1|prox|(2, 1)|[('distance_metric', 'MANHATTAN'), ('max_distance', 3.7)]":
        'err:ValueError:The overlapping depth 4 is larger than your array 1.',
    "f64_6x1|prox|(2, 1)|[('max_distance', 1.5)]":
        'err:ValueError:The overlapping depth 2 is larger than your array 1.',
    "f64_6x1|prox|(2, 1)|[('max_distance', None)]":
        'ok:05ba7f3e26b7026f78ce:b3c1e4bc',
    "f64_6x1|prox|None|[('max_distance', 0.4)]":
        'ok:5e40002b58f4f2eb3948:b3c1e4bc',
    "f64_6x1|prox|None|[('max_distance', 1.0)]":
        'ok:00ee3835da92c0132953:b3c1e4bc',
    "f64_6x1|prox|None|[('max_distance', 1.5)]":
        'ok:00ee3835da92c0132953:b3c1e4bc',
    "f64_6x1|prox|None|[('max_distance', 2)]":
        'ok:5757c025a6eb97b6fc97:b3c1e4bc',
    "f64_6x1|prox|None|[('max_distance', 2.0), ('target_values', [2, 3])]":
        'ok:5757c025a6eb97b6fc97:b3c1e4bc',
    "f64_6x1|prox|None|[('max_distance', None)]":
        'ok:05ba7f3e26b7026f78ce:b3c1e4bc',
    'f64_6x1|prox|None|[]':
        'ok:05ba7f3e26b7026f78ce:b3c1e4bc',
    "f64_7x9|alloc|((3, 4), (5, 4))|[('distance_metric', 'MANHATTAN'), ('max_distance', 3.7)]":
        'ok:e946291abaf75db538db:b3c1e4bc',
    "f64_7x9|alloc|((3, 4), (5, 4))|[('max_distance', 1.5)]":
        'ok:eba090a8d6384b0990fc:b3c1e4bc',
    "f64_7x9|alloc|((3, 4), (5, 4))|[('max_distance', None)]":
        'ok:11777a73f39e734162ba:b3c1e4bc',
    "f64_7x9|alloc|(3, 4)|[('max_distance', 1.0)]":
        'ok:412b9f5f914f6de2e904:b3c1e4bc',
    "f64_7x9|alloc|(3, 4)|[('max_distance', 2)]":
        'ok:0c79a25095e4908832cd:b3c1e4bc',
    "f64_7x9|alloc|(3, 4)|[('target_values', [1])]":
        'ok:8d04d14934d17d09ed20:b3c1e4bc',
    "f64_7x9|alloc|(7, 2)|[('distance_metric', 'FOO'), ('max_distance', 1000000000.0)]":
        'ok:11777a73f39e734162ba:b3c1e4bc',
    "f64_7x9|alloc|(7, 2)|[('max_distance', 0.4)]":
        'ok:9bf9e09bf1b53c20d4a3:b3c1e4bc',
    "f64_7x9|alloc|(7, 2)|[('max_distance', 2.0), ('target_values', [2, 3])]":
        'ok:e166eb279fcee82d9ce1:b3c1e4bc',
    'f64_7x9|alloc|(7, 2)|[]':
        'ok:11777a73f39e734162ba:b3c1e4bc',
    "f64_7x9|alloc|None|[('distance_metric', 'FOO'), ('max_distance', 1000000000.0)]":
        'ok:11777a73f39e734162ba:b3c1e4bc',
    "f64_7x9|alloc|None|[('distance_metric', 'MANHATTAN'), ('max_distance', 3.7)]":
        'ok:e946291abaf75db538db:b3c1e4bc',
    "f64_7x9|alloc|None|[('max_distance', 0.4)]":
        'ok:9bf9e09bf1b53c20d4a3:b3c1e4bc',
    "f64_7x9|alloc|None|[('max_distance', 1.0)]":
        'ok:412b9f5f914f6de2e904:b3c1e4bc',
    "f64_7x9|alloc|None|[('max_distance', 1.5)]":
        'ok:eba090a8d6384b0990fc:b3c1e4bc',
    "f64_7x9|alloc|None|[('target_values', [1])]":
        'ok:8d04d14934d17d09ed20:b3c1e4bc',
    'f64_7x9|alloc|None|[]':
        'ok:11777a73f39e734162ba:b3c1e4bc',
    "f64_7x9|dir|((3, 4), (5, 4))|[('max_distance', 1.0)]":
        'ok:82d27aaab8e545c7be99:b3c1e4bc',
    "f64_7x9|dir|((3, 4), (5, 4))|[('max_distance', 2)]":
        'ok:e65f584884082708246e:b3c1e4bc',
    "f64_7x9|dir|((3, 4), (5, 4))|[('target_values', [1])]":
        'ok:7559d1944eb7f2b75bff:b3c1e4bc',
    "f64_7x9|dir|(3, 4)|[('distance_metric', 'FOO'), ('max_distance', 1000000000.0)]":
        'ok:18cb9c0742b3bd5dc418:b3c1e4bc',
    "f64_7x9|dir|(3, 4)|[('max_distance', 0.4)]":
        'ok:6b58bd74b92a3d7c7632:b3c1e4bc',
    "f64_7x9|dir|(3, 4)|[('max_distance', 2.0), ('target_values', [2, 3])]":
        'ok:b6919f40c2531c5bdf0e:b3c1e4bc',
    'f64_7x9|dir|(3, 4)|[]':
        'ok:18cb9c0742b3bd5dc418:b3c1e4bc',
    "f64_7x9|dir|(7, 2)|[('distance_metric', 'MANHATTAN'), ('max_distance', 3.7)]":
        'ok:732b4350ba71d07ad7a1:b3c1e4bc',
    "f64_7x9|dir|(7, 2)|[('max_distance', 1.5)]":
        'ok:02d93bb8946f40739d7f:b3c1e4bc',
    "f64_7x9|dir|(7, 2)|[('max_distance', None)]":
        'ok:18cb9c0742b3bd5dc418:b3c1e4bc',
    "f64_7x9|dir|None|[('max_distance', 0.4)]":
        'ok:6b58bd74b92a3d7c7632:b3c1e4bc',
    "f64_7x9|dir|None|[('max_distance', 1.0)]":
        'ok:82d27aaab8e545c7be99:b3c1e4bc',
    "f64_7x9|dir|None|[('max_distance', 1.5)]":
        'ok:02d93bb8946f40739d7f:b3c1e4bc',
    "f64_7x9|dir|None|[('max_distance', 2)]":
        'ok:e65f584884082708246e:b3c1e4bc',
    "f64_7x9|dir|None|[('max_distance', 2.0), ('target_values', [2, 3])]":
        'ok:b6919f40c2531c5bdf0e:b3c1e4bc',
    "f64_7x9|dir|None|[('max_distance', None)]":
        'ok:18cb9c0742b3bd5dc418:b3c1e4bc',
    'f64_7x9|dir|None|[]':
        'ok:18cb9c0742b3bd5dc418:b3c1e4bc',
    "f64_7x9|prox|((3, 4), (5, 4))|[('distance_metric', 'FOO'), ('max_distance', 1000000000.0)]":
        'ok:1d058c0a6724af868d27:b3c1e4bc',
    "f64_7x9|prox|((3, 4), (5, 4))|[('max_distance', 0.4)]":
        'ok:6b58bd74b92a3d7c7632:b3c1e4bc',
    "f64_7x9|prox|((3, 4), (5, 4))|[('max_distance', 2.0), ('target_values', [2, 3])]":
        'ok:92fd1a9d6095c20bd938:b3c1e4bc',
    'f64_7x9|prox|((3, 4), (5, 4))|[]':
        'ok:1d058c0a6724af868d27:b3c1e4bc',
    "f64_7x9|prox|(3, 4)|[('distance_metric', 'MANHATTAN'), ('max_distance', 3.7)]":
        'ok:51a5f28cbc2032387009:b3c1e4bc',
    "f64_7x9|prox|(3, 4)|[('max_distance', 1.5)]":
        'ok:0c2002e1f08f9b0d08e8:b3c1e4bc',
    "f64_7x9|prox|(3, 4)|[('max_distance', None)]":
        'ok:1d058c0a6724af868d27:b3c1e4bc',
    "f64_7x9|prox|(7, 2)|[('max_distance', 1.0)]":
        'ok:021a7164cd41bc12a19c:b3c1e4bc',
    "f64_7x9|prox|(7, 2)|[('max_distance', 2)]":
        'ok:51c14c465de520d8d7a8:b3c1e4bc',
    "f64_7x9|prox|(7, 2)|[('target_values', [1])]":
        'ok:3767c7eb4ee4bbca3b6b:b3c1e4bc',
    "f64_7x9|prox|None|[('max_distance', 0.4)]":
        'ok:6b58bd74b92a3d7c7632:b3c1e4bc',
    "f64_7x9|prox|None|[('max_distance', 1.0)]":
        'ok:021a7164cd41bc12a19c:b3c1e4bc',
    "f64_7x9|prox|None|[('max_distance', 1.5)]":
        'ok:0c2002e1f08f9b0d08e8:b3c1e4bc',
    "f64_7x9|prox|None|[('max_distance', 2)]":
        'ok:51c14c465de520d8d7a8:b3c1e4bc',
    "f64_7x9|prox|None|[('max_distance', 2.0), ('target_values', [2, 3])]":
        'ok:92fd1a9d6095c20bd938:b3c1e4bc',
    "f64_7x9|prox|None|[('max_distance', None)]":
        'ok:1d058c0a6724af868d27:b3c1e4bc',
    'f64_7x9|prox|None|[]':
        'ok:1d058c0a6724af868d27:b3c1e4bc',
    "f64_sparse_12x12|alloc|(12, 3)|[('distance_metric', 'MANHATTAN'), ('max_distance', 3.7)]":
        'ok:8bb0468c9a5086a89954:b3c1e4bc',
    "f64_sparse_12x12|alloc|(12, 3)|[('max_distance', 1.5)]":
        'ok:e760de93b6b9b090384e:b3c1e4bc',
    "f64_sparse_12x12|alloc|(12, 3)|[('max_distance', None)]":
        'ok:0175240006e2ce2ee959:b3c1e4bc',
    "f64_sparse_12x12|alloc|(4, 4)|[('max_distance', 1.0)]":
        'ok:a59614f0eb89df6e091b:b3c1e4bc',
    "f64_sparse_12x12|alloc|(4, 4)|[('max_distance', 2)]":
        'ok:9b1b8e1814023bac513a:b3c1e4bc',
    "f64_sparse_12x12|alloc|(4, 4)|[('target_values', [1])]":
        'ok:b6dfec94c2cb7041b104:b3c1e4bc',
    "f64_sparse_12x12|alloc|(5, 7)|[('distance_metric', 'FOO'), ('max_distance', 1000000000.0)]":
        'ok:0175240006e2ce2ee959:b3c1e4bc',
    "f64_sparse_12x12|alloc|(5, 7)|[('max_distance', 0.4)]":
        'ok:0efc314c978ef04aad63:b3c1e4bc',
    "f64_sparse_12x12|alloc|(5, 7)|[('max_distance', 2.0), ('target_values', [2, 3])]":
        'ok:4ec86f0946283f85ac12:b3c1e4bc',
    'f64_sparse_12x12|alloc|(5, 7)|[]':
        'ok:0175240006e2ce2ee959:b3c1e4bc',
    "f64_sparse_12x12|alloc|None|[('distance_metric', 'FOO'), ('max_distance', 1000000000.0)]":
        'ok:0175240006e2ce2ee959:b3c1e4bc',
    "f64_sparse_12x12|alloc|None|[('distance_metric', 'MANHATTAN'), ('max_distance', 3.7)]":
        'ok:8bb0468c9a5086a89954:b3c1e4bc',
    "f64_sparse_12x12|alloc|None|[('max_distance', 0.4)]":
        'ok:0efc314c978ef04aad63:b3c1e4bc',
    "f64_sparse_12x12|alloc|None|[('max_distance', 1.0)]":
        'ok:a59614f0eb89df6e091b:b3c1e4bc',
    "f64_sparse_12x12|alloc|None|[('max_distance', 1.5)]":
        'ok:e760de93b6b9b090384e:b3c1e4bc',
    "f64_sparse_12x12|alloc|None|[('target_values', [1])]":
        'ok:b6dfec94c2cb7041b104:b3c1e4bc',
    'f64_sparse_12x12|alloc|None|[]':
        'ok:0175240006e2ce2ee959:b3c1e4bc',
    "f64_sparse_12x12|dir|(12, 3)|[('max_distance', 1.0)]":
        'ok:6d87fd66f5e75251d26d:b3c1e4bc',
    "f64_sparse_12x12|dir|(12, 3)|[('max_distance', 2)]":
        'ok:739a2e52ca859adc1b0a:b3c1e4bc',
    "f64_sparse_12x12|dir|(12, 3)|[('target_values', [1])]":
        'ok:fda7b60fd4eff21abedd:b3c1e4bc',
    "f64_sparse_12x12|dir|(4, 4)|[('distance_metric', 'FOO'), ('max_distance', 1000000000.0)]":
        'ok:395392e0159e7b092fdf:b3c1e4bc',
    "f64_sparse_12x12|dir|(4, 4)|[('max_distance', 0.4)]":
        'ok:9da4350cf0fb27c52f6c:b3c1e4bc',
    "f64_sparse_12x12|dir|(4, 4)|[('max_distance', 2.0), ('target_values', [2, 3])]":
        'ok:0c08155cc1306cb01656:b3c1e4bc',
    'f64_sparse_12x12|dir|(4, 4)|[]':
        'ok:395392e0159e7b092fdf:b3c1e4bc',
    "f64_sparse_12x12|dir|(5, 7)|[('distance_metric', 'MANHATTAN'), ('max_distance', 3.7)]":
        'ok:583329f2105b5d2f0674:b3c1e4bc',
    "f64_sparse_12x12|dir|(5, 7)|[('max_distance', 1.5)]":
        'ok:66ef13d17700382a5bd9:b3c1e4bc',
    "f64_sparse_12x12|dir|(5, 7)|[('max_distance', None)]":
        'ok:395392e0159e7b092fdf:b3c1e4bc',
    "f64_sparse_12x12|dir|None|[('max_distance', 0.4)]":
        'ok:9da4350cf0fb27c52f6c:b3c1e4bc',
    "f64_sparse_12x12|dir|None|[('max_distance', 1.0)]":
        'ok:6d87fd66f5e75251d26d:b3c1e4bc',
    "f64_sparse_12x12|dir|None|[('max_distance', 1.5)]":
        'ok:66ef13d17700382a5bd9:b3c1e4bc',
    "f64_sparse_12x12|dir|None|[('max_distance', 2)]":
        'ok:739a2e52ca859adc1b0a:b3c1e4bc',
    "f64_sparse_12x12|dir|None|[('max_distance', 2.0), ('target_values', [2, 3])]":
        'ok:0c08155cc1306cb01656:b3c1e4bc',
    "f64_sparse_12x12|dir|None|[('max_distance', None)]":
        'ok:395392e0159e7b092fdf:b3c1e4bc',
    'f64_sparse_12x12|dir|None|[]':
        'ok:395392e0159e7b092fdf:b3c1e4bc',
    "f64_sparse_12x12|prox|(12, 3)|[('distance_metric', 'FOO'), ('max_distance', 1000000000.0)]":
        'ok:adef751449ee852269ae:b3c1e4bc',
    "f64_sparse_12x12|prox|(12, 3)|[('max_distance', 0.4)]":
        'ok:9da4350cf0fb27c52f6c:b3c1e4bc',
    "f64_sparse_12x12|prox|(12, 3)|[('max_distance', 2.0), ('target_values', [2, 3])]":
        'ok:52b9433a1496c10d024f:b3c1e4bc',
    'f64_sparse_12x12|prox|(12, 3)|[]':
        'ok:adef751449ee852269ae:b3c1e4bc',
    "f64_sparse_12x12|prox|(4, 4)|[('distance_metric', 'MANHATTAN'), ('max_distance', 3.7)]":
        'ok:cd3c0a347d934c790c4f:b3c1e4bc',
    "f64_sparse_12x12|prox|(4, 4)|[('max_distance', 1.5)]":
        'ok:8151fb1d60f4e8b41d3a:b3c1e4bc',
    "f64_sparse_12x12|prox|(4, 4)|[('max_distance', None)]":
        'ok:adef751449ee852269ae:b3c1e4bc',
    "f64_sparse_12x12|prox|(5, 7)|[('max_distance', 1.0)]":
        'ok:bd06fc28a35c6dc13cc9:b3c1e4bc',
    "f64_sparse_12x12|prox|(5, 7)|[('max_distance', 2)]":
        'ok:bde7416b351b5943cd9b:b3c1e4bc',
    "f64_sparse_12x12|prox|(5, 7)|[('target_values', [1])]":
        'ok:2ee1cad3279758b8d3d0:b3c1e4bc',
    "f64_sparse_12x12|prox|None|[('max_distance', 0.4)]":
        'ok:9da4350cf0fb27c52f6c:b3c1e4bc',
    "f64_sparse_12x12|prox|None|[('max_distance', 1.0)]":
        'ok:bd06fc28a35c6dc13cc9:b3c1e4bc',
    "f64_sparse_12x12|prox|None|[('max_distance', 1.5)]":
        'ok:8151fb1d60f4e8b41d3a:b3c1e4bc',
    "f64_sparse_12x12|prox|None|[('max_distance', 2)]":
        'ok:bde7416b351b5943cd9b:b3c1e4bc',
    "f64_sparse_12x12|prox|None|[('max_distance', 2.0), ('target_values', [2, 3])]":
        'ok:52b9433a1496c10d024f:b3c1e4bc',
    "f64_sparse_12x12|prox|None|[('max_distance', None)]":
        'ok:adef751449ee852269ae:b3c1e4bc',
    'f64_sparse_12x12|prox|None|[]':
        'ok:adef751449ee852269ae:b3c1e4bc',
    'gc_bad|prox':
        'err:ValueError:Invalid x-coordinate of the second point.Must be in the range [-180, 180]',
    'gc|alloc|(3, 4)|30000.0':
        'err:ValueError:The overlapping depth 30000 is larger than your array 8.',
    'gc|alloc|(3, 4)|60000.0':
        'err:ValueError:The overlapping depth 60000 is larger than your array 8.',
    'gc|alloc|(3, 4)|inf':
        'ok:55f9b7cbdb5823ab029b:b3c1e4bc',
    'gc|alloc|(8, 5)|30000.0':
        'err:ValueError:The overlapping depth 30000 is larger than your array 8.',
    'gc|alloc|(8, 5)|60000.0':
        'err:ValueError:The overlapping depth 60000 is larger than your array 8.',
    'gc|alloc|(8, 5)|inf':
        'ok:55f9b7cbdb5823ab029b:b3c1e4bc',
    'gc|alloc|None|30000.0':
        'ok:8df413872af758203687:b3c1e4bc',
    'gc|alloc|None|60000.0':
        'ok:6e9deebb9fb28a394554:b3c1e4bc',
    'gc|alloc|None|inf':
        'ok:55f9b7cbdb5823ab029b:b3c1e4bc',
    'gc|dir|(3, 4)|30000.0':
        'err:ValueError:The overlapping depth 30000 is larger than your array 8.',
    'gc|dir|(3, 4)|60000.0':
        'err:ValueError:The overlapping depth 60000 is larger than your array 8.',
    'gc|dir|(3, 4)|inf':
        'ok:40e849f8de773157ecd4:b3c1e4bc',
    'gc|dir|(8, 5)|30000.0':
        'err:ValueError:The overlapping depth 30000 is larger than your array 8.',
    'gc|dir|(8, 5)|60000.0':
        'err:ValueError:The overlapping depth 60000 is larger than your array 8.',
    'gc|dir|(8, 5)|inf':
        'ok:40e849f8de773157ecd4:b3c1e4bc',
    'gc|dir|None|30000.0':
        'ok:5cd3de10d0ab46ee311c:b3c1e4bc',
    'gc|dir|None|60000.0':
        'ok:d60107b897d914b96d12:b3c1e4bc',
    'gc|dir|None|inf':
        'ok:40e849f8de773157ecd4:b3c1e4bc',
    'gc|prox|(3, 4)|30000.0':
        'err:ValueError:The overlapping depth 30000 is larger than your array 8.',
    'gc|prox|(3, 4)|60000.0':
        'err:ValueError:The overlapping depth 60000 is larger than your array 8.',
    'gc|prox|(3, 4)|inf':
        'ok:60c3d7234c8d463f8fc4:b3c1e4bc',
    'gc|prox|(8, 5)|30000.0':
        'err:ValueError:The overlapping depth 30000 is larger than your array 8.',
    'gc|prox|(8, 5)|60000.0':
        'err:ValueError:The overlapping depth 60000 is larger than your array 8.',
    'gc|prox|(8, 5)|inf':
        'ok:60c3d7234c8d463f8fc4:b3c1e4bc',
    'gc|prox|None|30000.0':
        'ok:2d02206bb47c4c998180:b3c1e4bc',
    'gc|prox|None|60000.0':
        'ok:ab3057550929cc0595ce:b3c1e4bc',
    'gc|prox|None|inf':
        'ok:60c3d7234c8d463f8fc4:b3c1e4bc',
    "i32_9x8|alloc|(3, 3)|[('max_distance', 1.0)]":
        'ok:36461276dc656b2a43f8:b3c1e4bc',
    "i32_9x8|alloc|(3, 3)|[('max_distance', 2)]":
        'ok:36461276dc656b2a43f8:b3c1e4bc',
    "i32_9x8|alloc|(3, 3)|[('target_values', [1])]":
        'ok:4513ad0d8cbc5970829d:b3c1e4bc',
    "i32_9x8|alloc|(5, 8)|[('distance_metric', 'FOO'), ('max_distance', 1000000000.0)]":
        'ok:e800b410de0b098f3b65:b3c1e4bc',
    "i32_9x8|alloc|(5, 8)|[('max_distance', 0.4)]":
        'ok:36461276dc656b2a43f8:b3c1e4bc',
    "i32_9x8|alloc|(5, 8)|[('max_distance', 2.0), ('target_values', [2, 3])]":
        'ok:adf1865415d9efcc3803:b3c1e4bc',
    'i32_9x8|alloc|(5, 8)|[]':
        'ok:e800b410de0b098f3b65:b3c1e4bc',
    "i32_9x8|alloc|None|[('distance_metric', 'FOO'), ('max_distance', 1000000000.0)]":
        'ok:e800b410de0b098f3b65:b3c1e4bc',
    "i32_9x8|alloc|None|[('distance_metric', 'MANHATTAN'), ('max_distance', 3.7)]":
        'ok:dceb0d7ace07e563b84f:b3c1e4bc',
    "i32_9x8|alloc|None|[('max_distance', 0.4)]":
        'ok:36461276dc656b2a43f8:b3c1e4bc',
    "i32_9x8|alloc|None|[('max_distance', 1.0)]":
        'ok:36461276dc656b2a43f8:b3c1e4bc',
    "i32_9x8|alloc|None|[('max_distance', 1.5)]":
        'ok:36461276dc656b2a43f8:b3c1e4bc',
    "i32_9x8|alloc|None|[('target_values', [1])]":
        'ok:4513ad0d8cbc5970829d:b3c1e4bc',
    'i32_9x8|alloc|None|[]':
        'ok:e800b410de0b098f3b65:b3c1e4bc',
    "i32_9x8|dir|(3, 3)|[('distance_metric', 'FOO'), ('max_distance', 1000000000.0)]":
        'ok:43e83a73f23a18303ea6:b3c1e4bc',
    "i32_9x8|dir|(3, 3)|[('max_distance', 0.4)]":
        'ok:9cfade618d9d16fda490:b3c1e4bc',
    "i32_9x8|dir|(3, 3)|[('max_distance', 2.0), ('target_values', [2, 3])]":
        'ok:dd226e9170a5fd86f417:b3c1e4bc',
    'i32_9x8|dir|(3, 3)|[]':
        'ok:43e83a73f23a18303ea6:b3c1e4bc',
    "i32_9x8|dir|(5, 8)|[('distance_metric', 'MANHATTAN'), ('max_distance', 3.7)]":
        'ok:7222d3454ce1f2f93b4f:b3c1e4bc',
    "i32_9x8|dir|(5, 8)|[('max_distance', 1.5)]":
        'ok:9cfade618d9d16fda490:b3c1e4bc',
    "i32_9x8|dir|(5, 8)|[('max_distance', None)]":
        'ok:43e83a73f23a18303ea6:b3c1e4bc',
    "i32_9x8|dir|None|[('max_distance', 0.4)]":
        'ok:9cfade618d9d16fda490:b3c1e4bc',
    "i32_9x8|dir|None|[('max_distance', 1.0)]":
        'ok:9cfade618d9d16fda490:b3c1e4bc',
    "i32_9x8|dir|None|[('max_distance', 1.5)]":
        'ok:9cfade618d9d16fda490:b3c1e4bc',
    "i32_9x8|dir|None|[('max_distance', 2)]":
        'ok:9cfade618d9d16fda490:b3c1e4bc',
    "i32_9x8|dir|None|[('max_distance', 2.0), ('target_values', [2, 3])]":
        'ok:dd226e9170a5fd86f417:b3c1e4bc',
    "i32_9x8|dir|None|[('max_distance', None)]":
        'ok:43e83a73f23a18303ea6:b3c1e4bc',
    'i32_9x8|dir|None|[]':
        'ok:43e83a73f23a18303ea6:b3c1e4bc',
    "i32_9x8|prox|(3, 3)|[('distance_metric', 'MANHATTAN'), ('max_distance', 3.7)]":
        'ok:fdc318f0383af3cd4565:b3c1e4bc',
    "i32_9x8|prox|(3, 3)|[('max_distance', 1.5)]":
        'ok:9cfade618d9d16fda490:b3c1e4bc',
    "i32_9x8|prox|(3, 3)|[('max_distance', None)]":
        'ok:cd428b3f7cefd07e3007:b3c1e4bc',
    "i32_9x8|prox|(5, 8)|[('max_distance', 1.0)]":
        'ok:9cfade618d9d16fda490:b3c1e4bc',
    "i32_9x8|prox|(5, 8)|[('max_distance', 2)]":
        'ok:9cfade618d9d16fda490:b3c1e4bc',
    "i32_9x8|prox|(5, 8)|[('target_values', [1])]":
        'ok:5089a9eb0846e77855f7:b3c1e4bc',
    "i32_9x8|prox|None|[('max_distance', 0.4)]":
        'ok:9cfade618d9d16fda490:b3c1e4bc',
    "i32_9x8|prox|None|[('max_distance', 1.0)]":
        'ok:9cfade618d9d16fda490:b3c1e4bc',
    "i32_9x8|prox|None|[('max_distance', 1.5)]":
        'ok:9cfade618d9d16fda490:b3c1e4bc',
    "i32_9x8|prox|None|[('max_distance', 2)]":
        'ok:9cfade618d9d16fda490:b3c1e4bc',
    "i32_9x8|prox|None|[('max_distance', 2.0), ('target_values', [2, 3])]":
        'ok:dd226e9170a5fd86f417:b3c1e4bc',
    "i32_9x8|prox|None|[('max_distance', None)]":
        'ok:cd428b3f7cefd07e3007:b3c1e4bc',
    'i32_9x8|prox|None|[]':
        'ok:cd428b3f7cefd07e3007:b3c1e4bc',
    "i64_1x8|alloc|(1, 3)|[('max_distance', 1.0)]":
        'ok:025b015a19e07b77fa94:b3c1e4bc',
    "i64_1x8|alloc|(1, 3)|[('max_distance', 2)]":
        'err:ValueError:The overlapping depth 2 is larger than your array 1.',
    "i64_1x8|alloc|(1, 3)|[('target_values', [1])]":
        'ok:025b015a19e07b77fa94:b3c1e4bc',
    "i64_1x8|alloc|None|[('distance_metric', 'FOO'), ('max_distance', 1000000000.0)]":
        'ok:025b015a19e07b77fa94:b3c1e4bc',
    "i64_1x8|alloc|None|[('distance_metric', 'MANHATTAN'), ('max_distance', 3.7)]":
        'ok:025b015a19e07b77fa94:b3c1e4bc',
    "i64_1x8|alloc|None|[('max_distance', 0.4)]":
        'ok:025b015a19e07b77fa94:b3c1e4bc',
    "i64_1x8|alloc|None|[('max_distance', 1.0)]":
        'ok:025b015a19e07b77fa94:b3c1e4bc',
    "i64_1x8|alloc|None|[('max_distance', 1.5)]":
        'ok:025b015a19e07b77fa94:b3c1e4bc',
    "i64_1x8|alloc|None|[('target_values', [1])]":
        'ok:025b015a19e07b77fa94:b3c1e4bc',
    'i64_1x8|alloc|None|[]':
        'ok:025b015a19e07b77fa94:b3c1e4bc',
    "i64_1x8|dir|(1, 3)|[('distance_metric', 'FOO'), ('max_distance', 1000000000.0)]":
        'ok:025b015a19e07b77fa94:b3c1e4bc',
    "i64_1x8|dir|(1, 3)|[('max_distance', 0.4)]":
        'ok:025b015a19e07b77fa94:b3c1e4bc',
    "i64_1x8|dir|(1, 3)|[('max_distance', 2.0), ('target_values', [2, 3])]":
        'err:ValueError:The overlapping depth 2 is larger than your array 1.',
    'i64_1x8|dir|(1, 3)|[]':
        'ok:025b015a19e07b77fa94:b3c1e4bc',
    "i64_1x8|dir|None|[('max_distance', 0.4)]":
        'ok:025b015a19e07b77fa94:b3c1e4bc',
    "i64_1x8|dir|None|[('max_distance', 1.0)]":
        'ok:025b015a19e07b77fa94:b3c1e4bc',
    "i64_1x8|dir|None|[('max_distance', 1.5)]":
        'ok:025b015a19e07b77fa94:b3c1e4bc',
    "i64_1x8|dir|None|[('max_distance', 2)]":
        'ok:025b015a19e07b77fa94:b3c1e4bc',
    "i64_1x8|dir|None|[('max_distance', 2.0), ('target_values', [2, 3])]":
        'ok:025b015a19e07b77fa94:b3c1e4bc',
    "i64_1x8|dir|None|[('max_distance', None)]":
        'ok:025b015a19e07b77fa94:b3c1e4bc',
    'i64_1x8|dir|None|[]':
        'ok:025b015a19e07b77fa94:b3c1e4bc',
    "i64_1x8|prox|(1, 3)|[('distance_metric', 'MANHATTAN'), ('max_distance', 3.7)]":
        'err:ValueError:The overlapping depth 4 is larger than your array 1.',
    "i64_1x8|prox|(1, 3)|[('max_distance', 1.5)]":
        'err:ValueError:The overlapping depth 2 is larger than your array 1.',
    "i64_1x8|prox|(1, 3)|[('max_distance', None)]":
        'ok:025b015a19e07b77fa94:b3c1e4bc',
    "i64_1x8|prox|None|[('max_distance', 0.4)]":
        'ok:025b015a19e07b77fa94:b3c1e4bc',
    "i64_1x8|prox|None|[('max_distance', 1.0)]":
        'ok:025b015a19e07b77fa94:b3c1e4bc',
    "i64_1x8|prox|None|[('max_distance', 1.5)]":
        'ok:025b015a19e07b77fa94:b3c1e4bc',
    "i64_1x8|prox|None|[('max_distance', 2)]":
        'ok:025b015a19e07b77fa94:b3c1e4bc',
    "i64_1x8|prox|None|[('max_distance', 2.0), ('target_values', [2, 3])]":
        'ok:025b015a19e07b77fa94:b3c1e4bc',
    "i64_1x8|prox|None|[('max_distance', None)]":
        'ok:025b015a19e07b77fa94:b3c1e4bc',
    'i64_1x8|prox|None|[]':
        'ok:025b015a19e07b77fa94:b3c1e4bc',
    'tie|alloc|(3, 3)|2.0':
        'ok:603ab6a0a952e956b809:b3c1e4bc',
    'tie|alloc|(3, 3)|2.99':
        'ok:7b1a28f5c638b22410ae:b3c1e4bc',
    'tie|alloc|(3, 3)|3.0':
        'ok:b38973d69b119270f65e:b3c1e4bc',
    'tie|alloc|(3, 3)|4':
        'ok:2ad05ecb1c165c3c9834:b3c1e4bc',
    'tie|alloc|(3, 3)|inf':
        'ok:32f36a8cd0d2d70424a8:b3c1e4bc',
    'tie|alloc|(4, 6)|2.0':
        'ok:603ab6a0a952e956b809:b3c1e4bc',
    'tie|alloc|(4, 6)|2.99':
        'ok:7b1a28f5c638b22410ae:b3c1e4bc',
    'tie|alloc|(4, 6)|3.0':
        'ok:b38973d69b119270f65e:b3c1e4bc',
    'tie|alloc|(4, 6)|4':
        'ok:2ad05ecb1c165c3c9834:b3c1e4bc',
    'tie|alloc|(4, 6)|inf':
        'ok:32f36a8cd0d2d70424a8:b3c1e4bc',
    'tie|alloc|(9, 2)|2.0':
        'ok:603ab6a0a952e956b809:b3c1e4bc',
    'tie|alloc|(9, 2)|2.99':
        'ok:7b1a28f5c638b22410ae:b3c1e4bc',
    'tie|alloc|(9, 2)|3.0':
        'ok:b38973d69b119270f65e:b3c1e4bc',
    'tie|alloc|(9, 2)|4':
        'ok:2ad05ecb1c165c3c9834:b3c1e4bc',
    'tie|alloc|(9, 2)|inf':
        'ok:32f36a8cd0d2d70424a8:b3c1e4bc',
    'tie|alloc|None|2.0':
        'ok:603ab6a0a952e956b809:b3c1e4bc',
    'tie|alloc|None|2.99':
        'ok:7b1a28f5c638b22410ae:b3c1e4bc',
    'tie|alloc|None|3.0':
        'ok:b38973d69b119270f65e:b3c1e4bc',
    'tie|alloc|None|4':
        'ok:2ad05ecb1c165c3c9834:b3c1e4bc',
    'tie|alloc|None|inf':
        'ok:32f36a8cd0d2d70424a8:b3c1e4bc',
    'tie|dir|(3, 3)|2.0':
        'ok:4c798098118597e005f1:b3c1e4bc',
    'tie|dir|(3, 3)|2.99':
        'ok:507ef765b4cfa5cb9e2f:b3c1e4bc',
    'tie|dir|(3, 3)|3.0':
        'ok:560c7b3cde2b86036783:b3c1e4bc',
    'tie|dir|(3, 3)|4':
        'ok:bea0e28b555bef7a4256:b3c1e4bc',
    'tie|dir|(3, 3)|inf':
        'ok:bf0b9993a26ceaf7b4af:b3c1e4bc',
    'tie|dir|(4, 6)|2.0':
        'ok:4c798098118597e005f1:b3c1e4bc',
    'tie|dir|(4, 6)|2.99':
        'ok:507ef765b4cfa5cb9e2f:b3c1e4bc',
    'tie|dir|(4, 6)|3.0':
        'ok:560c7b3cde2b86036783:b3c1e4bc',
    'tie|dir|(4, 6)|4':
        'ok:bea0e28b555bef7a4256:b3c1e4bc',
    'tie|dir|(4, 6)|inf':
        'ok:bf0b9993a26ceaf7b4af:b3c1e4bc',
    'tie|dir|(9, 2)|2.0':
        'ok:4c798098118597e005f1:b3c1e4bc',
    'tie|dir|(9, 2)|2.99':
        'ok:507ef765b4cfa5cb9e2f:b3c1e4bc',
    'tie|dir|(9, 2)|3.0':
        'ok:560c7b3cde2b86036783:b3c1e4bc',
    'tie|dir|(9, 2)|4':
        'ok:bea0e28b555bef7a4256:b3c1e4bc',
    'tie|dir|(9, 2)|inf':
        'ok:bf0b9993a26ceaf7b4af:b3c1e4bc',
    'tie|dir|None|2.0':
        'ok:4c798098118597e005f1:b3c1e4bc',
    'tie|dir|None|2.99':
        'ok:507ef765b4cfa5cb9e2f:b3c1e4bc',
    'tie|dir|None|3.0':
        'ok:560c7b3cde2b86036783:b3c1e4bc',
    'tie|dir|None|4':
        'ok:bea0e28b555bef7a4256:b3c1e4bc',
    'tie|dir|None|inf':
        'ok:bf0b9993a26ceaf7b4af:b3c1e4bc',
    'tie|prox|(3, 3)|2.0':
        'ok:6dbbf7448aaa798cadd0:b3c1e4bc',
    'tie|prox|(3, 3)|2.99':
        'ok:3246b9ff9a6194cea87d:b3c1e4bc',
    'tie|prox|(3, 3)|3.0':
        'ok:60634f3edba9fe13375e:b3c1e4bc',
    'tie|prox|(3, 3)|4':
        'ok:a0415dd548bcff90f765:b3c1e4bc',
    'tie|prox|(3, 3)|inf':
        'ok:f7b04596999115158e23:b3c1e4bc',
    'tie|prox|(4, 6)|2.0':
        'ok:6dbbf7448aaa798cadd0:b3c1e4bc',
    'tie|prox|(4, 6)|2.99':
        'ok:3246b9ff9a6194cea87d:b3c1e4bc',
    'tie|prox|(4, 6)|3.0':
        'ok:60634f3edba9fe13375e:b3c1e4bc',
    'tie|prox|(4, 6)|4':
        'ok:a0415dd548bcff90f765:b3c1e4bc',
    'tie|prox|(4, 6)|inf':
        'ok:f7b04596999115158e23:b3c1e4bc',
    'tie|prox|(9, 2)|2.0':
        'ok:6dbbf7448aaa798cadd0:b3c1e4bc',
    'tie|prox|(9, 2)|2.99':
        'ok:3246b9ff9a6194cea87d:b3c1e4bc',
    'tie|prox|(9, 2)|3.0':
        'ok:60634f3edba9fe13375e:b3c1e4bc',
    'tie|prox|(9, 2)|4':
        'ok:a0415dd548bcff90f765:b3c1e4bc',
    'tie|prox|(9, 2)|inf':
        'ok:f7b04596999115158e23:b3c1e4bc',
    'tie|prox|None|2.0':
        'ok:6dbbf7448aaa798cadd0:b3c1e4bc',
    'tie|prox|None|2.99':
        'ok:3246b9ff9a6194cea87d:b3c1e4bc',
    'tie|prox|None|3.0':
        'ok:60634f3edba9fe13375e:b3c1e4bc',
    'tie|prox|None|4':
        'ok:a0415dd548bcff90f765:b3c1e4bc',
    'tie|prox|None|inf':
        'ok:f7b04596999115158e23:b3c1e4bc',
    "u8_6x6|alloc|(2, 3)|[('max_distance', 1.0)]":
        'ok:69f34f2a75c967a93a5a:b3c1e4bc',
    "u8_6x6|alloc|(2, 3)|[('max_distance', 2)]":
        'ok:149ba6913c893d942f5c:b3c1e4bc',
    "u8_6x6|alloc|(2, 3)|[('target_values', [1])]":
        'ok:4115ced3322293c98549:b3c1e4bc',
    "u8_6x6|alloc|None|[('distance_metric', 'FOO'), ('max_distance', 1000000000.0)]":
        'ok:bb16b620e60b9afc58e3:b3c1e4bc',
    "u8_6x6|alloc|None|[('distance_metric', 'MANHATTAN'), ('max_distance', 3.7)]":
        'ok:aa82fc9f53109e028a1c:b3c1e4bc',
    "u8_6x6|alloc|None|[('max_distance', 0.4)]":
        'ok:45622e8d3be8f3dba152:b3c1e4bc',
    "u8_6x6|alloc|None|[('max_distance', 1.0)]":
        'ok:69f34f2a75c967a93a5a:b3c1e4bc',
    "u8_6x6|alloc|None|[('max_distance', 1.5)]":
        'ok:48768b1fcf60a1ee19c8:b3c1e4bc',
    "u8_6x6|alloc|None|[('target_values', [1])]":
        'ok:4115ced3322293c98549:b3c1e4bc',
    'u8_6x6|alloc|None|[]':
        'ok:bb16b620e60b9afc58e3:b3c1e4bc',
    "u8_6x6|dir|(2, 3)|[('distance_metric', 'FOO'), ('max_distance', 1000000000.0)]":
        'ok:e9947d342a335ad27b87:b3c1e4bc',
    "u8_6x6|dir|(2, 3)|[('max_distance', 0.4)]":
        'ok:ae165a781b462003cef5:b3c1e4bc',
    "u8_6x6|dir|(2, 3)|[('max_distance', 2.0), ('target_values', [2, 3])]":
        'ok:99546740df158cbaa428:b3c1e4bc',
    'u8_6x6|dir|(2, 3)|[]':
        'ok:e9947d342a335ad27b87:b3c1e4bc',
    "u8_6x6|dir|None|[('max_distance', 0.4)]":
        'ok:ae165a781b462003cef5:b3c1e4bc',
    "u8_6x6|dir|None|[('max_distance', 1.0)]":
        'ok:c8cff13e6d652e9ba073:b3c1e4bc',
    "u8_6x6|dir|None|[('max_distance', 1.5)]":
        'ok:5147087a107187d2de47:b3c1e4bc',
    "u8_6x6|dir|None|[('max_distance', 2)]":
        'ok:99546740df158cbaa428:b3c1e4bc',
    "u8_6x6|dir|None|[('max_distance', 2.0), ('target_values', [2, 3])]":
        'ok:99546740df158cbaa428:b3c1e4bc',
    "u8_6x6|dir|None|[('max_distance', None)]":
        'ok:e9947d342a335ad27b87:b3c1e4bc',
    'u8_6x6|dir|None|[]':
        'ok:e9947d342a335ad27b87:b3c1e4bc',
    "u8_6x6|prox|(2, 3)|[('distance_metric', 'MANHATTAN'), ('max_distance', 3.7)]":
        'ok:2e387a13b7e5544396a0:b3c1e4bc',
    "u8_6x6|prox|(2, 3)|[('max_distance', 1.5)]":
        'ok:154aa7d356923e9b5f29:b3c1e4bc',
    "u8_6x6|prox|(2, 3)|[('max_distance', None)]":
        'ok:92fb549b27c3120d9ff2:b3c1e4bc',
    "u8_6x6|prox|None|[('max_distance', 0.4)]":
        'ok:ae165a781b462003cef5:b3c1e4bc',
    "u8_6x6|prox|None|[('max_distance', 1.0)]":
        'ok:590d1653fa370e4b648d:b3c1e4bc',
    "u8_6x6|prox|None|[('max_distance', 1.5)]":
        'ok:154aa7d356923e9b5f29:b3c1e4bc',
    "u8_6x6|prox|None|[('max_distance', 2)]":
        'ok:7d7ae67ef6419a7689f1:b3c1e4bc',
    "u8_6x6|prox|None|[('max_distance', 2.0), ('target_values', [2, 3])]":
        'ok:7d7ae67ef6419a7689f1:b3c1e4bc',
    "u8_6x6|prox|None|[('max_distance', None)]":
        'ok:92fb549b27c3120d9ff2:b3c1e4bc',
    'u8_6x6|prox|None|[]':
        'ok:92fb549b27c3120d9ff2:b3c1e4bc',
}


def main():
    assert "/tmp/t5/TC07/" in xrspatial.__file__, xrspatial.__file__
    _p = sys.modules["xrspatial.proximity"]
    print("testing", _p.__file__, "sha256",
          hashlib.sha256(open(_p.__file__, "rb").read()).hexdigest()[:12],
          flush=True)
    got = {}
    for label, fname, raster, ch, kw, sched in cases():
        assert label not in got, label
        got[label] = run(fname, raster, ch, kw, sched)
    if "--record" in sys.argv:
        print(json.dumps(got, indent=0, sort_keys=True))
        return 0
    bad = 0
    if set(got) != set(EXPECTED):
        print("case set differs")
        bad += 1
    for k in sorted(got):
        if got[k] != EXPECTED.get(k):
            bad += 1
            print("MISMATCH", k, got[k], EXPECTED.get(k))
    n_ok = sum(v.startswith("ok:") for v in got.values())
    print("%d cases (%d ok outcomes, %d error outcomes), %d mismatches"
          % (len(got), n_ok, len(got) - n_ok, bad))
    return 1 if bad else 0


if __name__ == "__main__":
    sys.exit(main())
