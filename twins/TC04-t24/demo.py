"""Demo for C04: crosstab vs. an independent brute-force oracle."""
import itertools
import sys

import numpy as np
import xarray as xr
import dask.array as da

from xrspatial.zonal import crosstab

FAIL = []


def check(cond, msg):
    if not cond:
        FAIL.append(msg)
        print("FAIL:", msg)


def valid(v, nodata):
    return np.isfinite(v) and not (nodata is not None and v == nodata)


def oracle_2d(zones, values, zone_ids, cat_ids, nodata, agg):
    H, W = zones.shape
    all_z = sorted({float(zones[i, j]) for i in range(H) for j in range(W)
                    if np.isfinite(zones[i, j])})
    all_c = sorted({float(values[i, j]) for i in range(H) for j in range(W)
                    if valid(values[i, j], nodata)})
    rows = all_z if zone_ids is None else [z for z in all_z if z in zone_ids]
    cols = all_c if cat_ids is None else [c for c in cat_ids if c in all_c]
    table = []
    for z in rows:
        cells = [values[i, j] for i in range(H) for j in range(W)
                 if zones[i, j] == z and valid(values[i, j], nodata)]
        row = []
        for c in cols:
            n = sum(1 for v in cells if v == c)
            if agg == 'percentage':
                row.append(np.nan if len(cells) == 0 else
                           np.float32(n) / np.float32(len(cells)) * 100)
            else:
                row.append(n)
        table.append(row)
    return rows, cols, table


def compare(df, rows, cols, table, tag):
    check(list(df.columns) == ['zone'] + list(cols), f"{tag}: columns {list(df.columns)} vs {cols}")
    check([float(z) for z in df['zone']] == [float(z) for z in rows], f"{tag}: zones")
    if len(cols) and len(rows):
        got = df[list(cols)].to_numpy(dtype=float)
        exp = np.array(table, dtype=float).reshape(len(rows), len(cols))
        check(got.shape == exp.shape and np.allclose(got, exp, equal_nan=True, rtol=1e-6),
              f"{tag}: table\n{got}\nvs\n{exp}")


def run_2d(zones, values, nodata, chunks, tag):
    zx = xr.DataArray(zones, dims=['y', 'x'])
    vx = xr.DataArray(values, dims=['y', 'x'])
    zd = xr.DataArray(da.from_array(zones, chunks=chunks), dims=['y', 'x'])
    vd = xr.DataArray(da.from_array(values, chunks=chunks), dims=['y', 'x'])
    all_z = sorted(set(zones[np.isfinite(zones)].tolist()))
    all_c = sorted({v for v in values.ravel().tolist() if valid(v, nodata)})
    zsel = [None, list(reversed(all_z)), all_z[::2] + [999], [all_z[-1], all_z[0]]]
    csel = [None, list(reversed(all_c)), all_c[1:][::-1] + [-777], all_c[:1]]
    for zi, ci, agg in itertools.product(zsel, csel, ['count', 'percentage']):
        rows, cols, table = oracle_2d(zones, values, zi, ci, nodata, agg)
        kw = dict(zone_ids=zi, cat_ids=ci, nodata_values=nodata, agg=agg)
        df = crosstab(zx, vx, **kw)
        compare(df, rows, cols, table, f"{tag} numpy z={zi} c={ci} {agg}")
        if agg == 'percentage' and len(cols) == len(all_c):
            s = df[list(cols)].to_numpy(dtype=float).sum(axis=1)
            check(np.all(np.isnan(s) | np.isclose(s, 100)), f"{tag}: rows sum to 100: {s}")
        ddf = crosstab(zd, vd, **kw).compute()
        compare(ddf, rows, cols, table, f"{tag} dask z={zi} c={ci} {agg}")


def run_3d(zones, values, nodata, tag):
    layers = ['a', 'b', 'c'][:values.shape[0]]
    zx = xr.DataArray(zones, dims=['y', 'x'])
    vx = xr.DataArray(values, dims=['lyr', 'y', 'x'], coords={'lyr': layers})
    funcs = {
        'min': np.min, 'max': np.max, 'mean': np.mean, 'sum': np.sum,
        'std': np.std, 'var': np.var, 'count': len,
    }
    all_z = sorted(set(zones[np.isfinite(zones)].tolist()))
    for agg, f in funcs.items():
        for zi, ci in [(None, None), (all_z[::-1][:2], ['c', 'a']), ([all_z[1]], ['b', 'zz'])]:
            df = crosstab(zx, vx, zone_ids=zi, cat_ids=ci, layer=0,
                          nodata_values=nodata, agg=agg)
            rows = all_z if zi is None else [z for z in all_z if z in zi]
            cols = layers if ci is None else [c for c in ci if c in layers]
            table = []
            for z in rows:
                r = []
                for c in cols:
                    lay = values[layers.index(c)]
                    cells = np.array([lay[i, j] for i in range(zones.shape[0])
                                      for j in range(zones.shape[1])
                                      if zones[i, j] == z and valid(lay[i, j], nodata)])
                    r.append(f(cells) if len(cells) or agg == 'count' else np.nan)
                table.append(r)
            compare(df, rows, cols, table, f"{tag} 3d {agg} z={zi} c={ci}")


rng = np.random.default_rng(4)

# 1. non-square float zones with NaN / inf zones, float values with NaN, inf, nodata, ties
z1 = rng.choice([1.0, 2.5, 7.0, -3.0, np.nan], size=(5, 9))
z1[0, 0] = np.inf
z1[4, 8] = -np.inf
v1 = rng.choice([0.0, 1.0, 1.0, 4.0, -2.0, np.nan, np.inf, -9999.0], size=(5, 9))
run_2d(z1, v1, -9999.0, (2, 4), "float")

# 2. integer zones/values, tall shape, nodata=0 (default-like), a zone with only nodata cells
z2 = rng.integers(0, 4, size=(11, 3)).astype(np.int32)
v2 = rng.integers(0, 3, size=(11, 3)).astype(np.int64)
z2[:2, :] = 8
v2[:2, :] = 0
run_2d(z2, v2, 0, (4, 2), "int")

# 3. uint8 values, single row, nodata None
z3 = np.array([[3, 3, 1, 1, 1, 2, 2]], dtype=np.int16)
v3 = np.array([[5, 5, 5, 9, 200, 200, 5]], dtype=np.uint8)
run_2d(z3, v3, None, (1, 3), "uint8")

# 4. float32 values, single column
z4 = np.array([[1], [2], [1], [2], [4]], dtype=np.float32)
v4 = np.array([[1.5], [np.nan], [1.5], [2.5], [np.nan]], dtype=np.float32)
run_2d(z4, v4, 2.5, (2, 1), "f32")

# 5. 3-D values
z5 = rng.choice([1.0, 2.0, 5.0, np.nan], size=(4, 7))
z5[0, :3] = [1.0, 2.0, 5.0]
v5 = rng.choice([0.5, 2.0, 2.0, -1.0, np.nan, -9999.0], size=(3, 4, 7))
v5[:, 0, :3] = 3.0
run_3d(z5, v5, -9999.0, "3d-float")
v6 = rng.integers(1, 6, size=(2, 4, 7)).astype(np.int32)
run_3d(z5, v6, 3, "3d-int")

if FAIL:
    print(f"{len(FAIL)} mismatches")
    sys.exit(1)
print("OK: crosstab agrees with brute-force oracle")
