"""Differential test for a_star_search (property C14).

Runs the public function `xrspatial.a_star_search` on a deterministic battery
of inputs and compares
  (a) a sha256 digest of every result (values bit-for-bit, dtype, shape,
      memory layout, coords, attrs, warnings, exception type + message)
      against digests recorded from the UNMODIFIED tree, and
  (b) the goal cost / all-NaN outcome against an independent Dijkstra oracle
      written here in plain Python.

usage:  python equiv.py            -> exit 0 if identical, 1 otherwise
        python equiv.py --record   -> print the digests of the current tree
"""
import hashlib
import heapq
import math
import sys
import warnings

import numpy as np
import xarray as xr

import xrspatial
from xrspatial import a_star_search
import xrspatial.pathfinding as pf

VARIANT = "t10"

# recorded from the unmodified tree
EXPECTED = {
    'exhaustive_2x3': '9d6d5893550c36597e342e7988e305e8660f134da7bdb0f9282ea48c5441f15a',  # noqa
    'random_3x3_4x4': 'c376710b3c810b68db747cb81e431ca5a8956c5e9ea4a77e5163373b68de2e70',  # noqa
    'dtypes_nans_shapes': 'a489c19c65cdc8fe70b5ac40b5b59f1143849c392979eeae1f1e24488adab5a1',  # noqa
    'coordinates': 'e05cbfe3772d733a6d78df961633964b01325ff2ac5548bdfbf1a4f2bb6d6de2',  # noqa
    'errors_and_misc': '02c121a5572deb16f2ebcc0c5fa3d0f3fab50a2157b52b15b948c073ce5cd771',  # noqa
}


# --------------------------------------------------------------------------
def make_raster(data, ys=None, xs=None, dims=('y', 'x'), attrs=None):
    h, w = data.shape
    if ys is None:
        ys = np.arange(h, dtype=np.float64)
    if xs is None:
        xs = np.arange(w, dtype=np.float64)
    agg = xr.DataArray(data, dims=list(dims),
                       coords={dims[0]: ys, dims[1]: xs},
                       attrs=attrs or {})
    return agg


def run_case(h, agg, start, goal, **kw):
    """Run one call, feed everything observable into hash `h`;
    return ndarray result or None."""
    with warnings.catch_warnings(record=True) as wlist:
        warnings.simplefilter("always")
        try:
            out = a_star_search(agg, start, goal, **kw)
        except Exception as e:  # noqa
            h.update(("EXC:%s:%s|" % (type(e).__name__,
                                      str(e)[:60])).encode())
            return None
    msgs = sorted("%s:%s" % (w.category.__name__, str(w.message))
                  for w in wlist
                  if 'xrspatial' in str(w.filename) or True)
    # keep only the library's own warnings (Start/End at non crossable)
    msgs = [m for m in msgs if 'crossable' in m]
    h.update(("W:%s|" % ";".join(msgs)).encode())
    assert isinstance(out, xr.DataArray)
    arr = out.data
    h.update(("T:%s:%s:%s:%s:%s|" % (type(arr).__name__, arr.dtype.str,
                                     arr.shape, arr.flags.c_contiguous,
                                     arr.flags.f_contiguous)).encode())
    h.update(np.ascontiguousarray(arr).tobytes())
    h.update(("D:%s|" % (out.dims,)).encode())
    for d in out.dims:
        h.update(np.ascontiguousarray(out.coords[d].data).tobytes())
    h.update(("A:%s|" % sorted(out.attrs.items())).encode())
    return np.asarray(arr)


# -------------------------------------------------------------- oracle ----
def crossable(v, barriers):
    if isinstance(v, float) and math.isnan(v):
        return False
    return not any(v == b for b in barriers)


def dijkstra(data, barriers, s, g, connectivity):
    hh, ww = data.shape
    ok = [[crossable(data[i, j].item(), barriers) for j in range(ww)]
          for i in range(hh)]
    if not ok[s[0]][s[1]] or not ok[g[0]][g[1]]:
        return None
    if connectivity == 8:
        nb = [(a, b) for a in (-1, 0, 1) for b in (-1, 0, 1) if a or b]
    else:
        nb = [(-1, 0), (1, 0), (0, -1), (0, 1)]
    dist = {s: 0.0}
    pq = [(0.0, s)]
    while pq:
        d, c = heapq.heappop(pq)
        if d > dist.get(c, math.inf):
            continue
        if c == g:
            return d
        for a, b in nb:
            n = (c[0] + a, c[1] + b)
            if 0 <= n[0] < hh and 0 <= n[1] < ww and ok[n[0]][n[1]]:
                nd = d + math.sqrt(a * a + b * b)
                if nd < dist.get(n, math.inf) - 1e-12:
                    dist[n] = nd
                    heapq.heappush(pq, (nd, n))
    return None


def nearest(data, barriers, p):
    # snapping: nearest crossable cell, first in row-major order on ties
    if crossable(data[p].item(), barriers):
        return p
    best, bd = None, math.inf
    for i in range(data.shape[0]):
        for j in range(data.shape[1]):
            if crossable(data[i, j].item(), barriers):
                d = math.sqrt((j - p[1]) ** 2 + (i - p[0]) ** 2)
                if d < bd:
                    bd, best = d, (i, j)
    return best


def check_oracle(res, data, barriers, s, g, connectivity, snap_s, snap_g):
    """independent validation of property C14 for pixel-space start/goal"""
    if snap_s:
        s = nearest(data, barriers, s)
    if snap_g:
        g = nearest(data, barriers, g)
    if s is None or g is None:
        return bool(np.isnan(res).all())
    want = dijkstra(data, barriers, s, g, connectivity)
    if want is None:
        return bool(np.isnan(res).all())
    if np.isnan(res[g]) or abs(res[g] - want) > 1e-9 or res[s] != 0:
        return False
    # chain check
    cells = [tuple(c) for c in np.argwhere(~np.isnan(res))]
    cells.sort(key=lambda c: res[c])
    if cells[0] != s or cells[-1] != g:
        return False
    for a, b in zip(cells, cells[1:]):
        dy, dx = abs(a[0] - b[0]), abs(a[1] - b[1])
        if max(dy, dx) != 1 or (connectivity == 4 and dy + dx != 1):
            return False
        if abs(res[b] - res[a] - math.sqrt(dy * dy + dx * dx)) > 1e-9:
            return False
    for c in cells:
        if not crossable(data[c].item(), barriers):
            return False
    return True


# -------------------------------------------------------------- groups ----
ORACLE_FAILS = []


def group_exhaustive_2x3():
    h = hashlib.sha256()
    H, W = 2, 3
    cells = [(i, j) for i in range(H) for j in range(W)]
    for bits in range(2 ** (H * W)):
        data = np.array([(bits >> k) & 1 for k in range(H * W)],
                        dtype=np.int64).reshape(H, W)
        agg = make_raster(data)
        for s in cells:
            for g in cells:
                for conn in (4, 8):
                    for ss, sg in ((False, False), (True, False),
                                   (False, True), (True, True)):
                        res = run_case(h, agg, (float(s[0]), float(s[1])),
                                       (float(g[0]), float(g[1])),
                                       barriers=[1], connectivity=conn,
                                       snap_start=ss, snap_goal=sg)
                        if res is None or not check_oracle(
                                res, data, [1], s, g, conn, ss, sg):
                            ORACLE_FAILS.append(('2x3', bits, s, g, conn,
                                                 ss, sg))
    return h.hexdigest()


def group_random_3x3_4x4():
    h = hashlib.sha256()
    rng = np.random.RandomState(14)
    for it in range(2500):
        H, W = (3, 3) if it % 2 == 0 else (4, 4)
        data = (rng.rand(H, W) < rng.choice([0.2, 0.4, 0.6])).astype(
            np.int32)
        s = (rng.randint(H), rng.randint(W))
        g = (rng.randint(H), rng.randint(W))
        conn = int(rng.choice([4, 8]))
        ss, sg = bool(rng.randint(2)), bool(rng.randint(2))
        agg = make_raster(data)
        res = run_case(h, agg, s, g, barriers=[1], connectivity=conn,
                       snap_start=ss, snap_goal=sg)
        if res is None or not check_oracle(res, data, [1], s, g, conn,
                                           ss, sg):
            ORACLE_FAILS.append(('rnd', it))
    return h.hexdigest()


def group_dtypes_nans_shapes():
    h = hashlib.sha256()
    rng = np.random.RandomState(1414)
    shapes = [(1, 1), (1, 7), (6, 1), (2, 2), (5, 4), (7, 9), (12, 5),
              (3, 11)]
    dtypes = [np.uint8, np.int16, np.int32, np.int64, np.float32,
              np.float64]
    for shape in shapes:
        for dt in dtypes:
            for rep in range(3):
                base = rng.randint(0, 4, size=shape)
                data = base.astype(dt)
                if np.issubdtype(dt, np.floating):
                    data[rng.rand(*shape) < 0.15] = np.nan
                for order in ('C', 'F'):
                    d = np.asarray(data, order=order)
                    attrs = {'k': rep}
                    if rep == 0:
                        attrs['res'] = (1.0, 1.0)
                    agg = make_raster(d, attrs=attrs)
                    s = (rng.randint(shape[0]), rng.randint(shape[1]))
                    g = (rng.randint(shape[0]), rng.randint(shape[1]))
                    for barriers in ([], [0], [0, 3], [1.0, 2.0],
                                     np.array([2], dtype=np.int32)):
                        for conn in (4, 8):
                            ss = bool(rng.randint(2))
                            sg = bool(rng.randint(2))
                            res = run_case(h, agg, s, g, barriers=barriers,
                                           connectivity=conn,
                                           snap_start=ss, snap_goal=sg)
                            bl = [float(b) for b in np.asarray(barriers)]
                            if res is None:
                                # 1-wide rasters without a 'res' attribute
                                # raise ZeroDivisionError (recorded)
                                if 1 not in shape or rep == 0:
                                    ORACLE_FAILS.append(('dt-exc', shape))
                                continue
                            if not check_oracle(
                                    res, d, bl, s, g, conn, ss, sg):
                                ORACLE_FAILS.append(('dt', shape, dt, rep,
                                                     order))
    # non-contiguous view as the surface
    big = rng.randint(0, 3, size=(10, 12)).astype(np.float64)
    view = big[::2, 1::3]
    agg = make_raster(view)
    for conn in (4, 8):
        run_case(h, agg, (0, 0), (4, 3), barriers=[0], connectivity=conn,
                 snap_start=True, snap_goal=True)
    return h.hexdigest()


def group_coordinates():
    h = hashlib.sha256()
    rng = np.random.RandomState(7)
    for it in range(400):
        H, W = rng.randint(2, 7), rng.randint(2, 7)
        data = rng.randint(0, 3, size=(H, W)).astype(np.float64)
        if it % 3 == 0:
            data[rng.rand(H, W) < 0.1] = np.nan
        sy = rng.choice([1.0, 0.1, 0.3, 2.5, 30.0, 1 / 3.0])
        sx = rng.choice([1.0, 0.1, 0.7, 2.5, 0.25, 1 / 7.0])
        oy, ox = rng.choice([0.0, -3.3, 100.05, 1e6]), rng.choice(
            [0.0, 7.7, -0.45])
        ys = oy + sy * np.arange(H)
        xs = ox + sx * np.arange(W)
        if rng.randint(2):
            ys = ys[::-1].copy()
        if rng.randint(2):
            xs = xs[::-1].copy()
        dims = ('lat', 'lon') if it % 2 else ('y', 'x')
        attrs = {}
        if it % 5 == 0:
            attrs = {'res': (float(sx), float(sy))}
        elif it % 7 == 0:
            attrs = {'res': 1.0, 'name': 'n'}
        agg = make_raster(data, ys, xs, dims=dims, attrs=attrs)
        pi, pj = rng.randint(H), rng.randint(W)
        qi, qj = rng.randint(H), rng.randint(W)
        # own coordinates and points displaced by < half a cell
        for fy, fx in ((0.0, 0.0), (0.3, -0.4), (-0.49, 0.49)):
            start = (ys[pi] + fy * sy, xs[pj] + fx * sx)
            goal = (ys[qi] - fy * sy, xs[qj] - fx * sx)
            kw = dict(barriers=[0], connectivity=int(rng.choice([4, 8])),
                      snap_start=bool(rng.randint(2)),
                      snap_goal=bool(rng.randint(2)))
            if dims == ('lat', 'lon'):
                kw.update(x='lon', y='lat')
            res = run_case(h, agg, start, goal, **kw)
            if fy == 0.0 and res is not None and attrs.get('res') != 1.0:
                if not check_oracle(res, data, [0.0], (pi, pj), (qi, qj),
                                    kw['connectivity'], kw['snap_start'],
                                    kw['snap_goal']):
                    ORACLE_FAILS.append(('coord', it))
        # list / ndarray / DataArray-scalar point types
        run_case(h, agg, [ys[pi], xs[pj]], np.array([ys[qi], xs[qj]]),
                 barriers=[0], x=dims[1], y=dims[0])
        run_case(h, agg, (agg[dims[0]][pi], agg[dims[1]][pj]),
                 (agg[dims[0]][qi], agg[dims[1]][qj]),
                 barriers=[], x=dims[1], y=dims[0])
    return h.hexdigest()


def group_errors_and_misc():
    h = hashlib.sha256()
    data = np.arange(12, dtype=np.float64).reshape(3, 4)
    agg = make_raster(data)
    # outside start / goal, wrong dims, wrong connectivity, 3D, 1D
    run_case(h, agg, (5, 0), (0, 0))
    run_case(h, agg, (0, 0), (0, 9))
    run_case(h, agg, (0, 9), (7, 0))
    run_case(h, agg, (-0.4, -0.4), (2.4, 3.4))
    run_case(h, agg, (0, 0), (2.6, 3))
    run_case(h, agg, (0, 0), (1, 1), x='lon', y='lat')
    run_case(h, agg, (0, 0), (1, 1), connectivity=5)
    run_case(h, agg, (0, 9), (1, 1), connectivity=6)
    run_case(h, xr.DataArray(np.zeros((2, 2, 2)), dims=['b', 'y', 'x']),
             (0, 0), (1, 1))
    run_case(h, xr.DataArray(np.zeros(3), dims=['x']), (0, 0), (1, 1))
    run_case(h, agg.T, (0, 0), (1, 1))
    # everything is a barrier, with and without snapping
    for ss in (False, True):
        for sg in (False, True):
            run_case(h, make_raster(np.ones((3, 3))), (0, 0), (2, 2),
                     barriers=[1], snap_start=ss, snap_goal=sg)
            run_case(h, make_raster(np.full((3, 3), np.nan)), (0, 0),
                     (2, 2), snap_start=ss, snap_goal=sg)
    # start == goal
    for conn in (4, 8):
        run_case(h, agg, (1, 1), (1, 1), connectivity=conn)
        run_case(h, agg, (1, 1), (1, 1), barriers=[5.0], connectivity=conn)
    # positional call form
    run_case(h, agg, (0, 0), (2, 3), barriers=[5, 6], x='x', y='y',
             connectivity=4, snap_start=False, snap_goal=True)
    # the doc example
    ex = xr.DataArray(np.array([[0, 1, 0, 0], [1, 1, 0, 0], [0, 1, 2, 2],
                                [1, 0, 2, 0], [0, 2, 2, 2]]),
                      dims=['lat', 'lon'])
    ex['lon'] = np.linspace(0, 3, 4)
    ex['lat'] = np.linspace(4, 0, 5)
    out = a_star_search(ex, (3, 0), (0, 1), [0], 'lon', 'lat')
    h.update(out.data.tobytes())
    # a bigger maze with many equal-cost routes (tie-breaking is observable)
    rng = np.random.RandomState(99)
    for it in range(30):
        maze = (rng.rand(15, 17) < 0.25).astype(np.int64)
        for conn in (4, 8):
            run_case(h, make_raster(maze), (0, 0), (14, 16), barriers=[1],
                     connectivity=conn, snap_start=True, snap_goal=True)
    open_field = np.zeros((9, 13))
    for conn in (4, 8):
        for s, g in (((0, 0), (8, 12)), ((8, 12), (0, 0)), ((4, 0), (4, 12)),
                     ((0, 12), (8, 0)), ((8, 3), (0, 9))):
            run_case(h, make_raster(open_field), s, g, connectivity=conn)
    # dask-backed surface: whatever happens must keep happening
    try:
        import dask.array as da
        dagg = make_raster(da.from_array(data, chunks=(2, 2)))
        run_case(h, dagg, (0, 0), (2, 3))
        run_case(h, dagg, (0, 9), (2, 3))
        run_case(h, dagg, (0, 0), (2, 3), snap_start=True)
    except ImportError:
        pass
    return h.hexdigest()


def extra_checks():
    """structure checks specific to the refactoring, valid on both trees"""
    ok = True
    # helpers stay reachable from xrspatial.pathfinding under their names
    for name in ('_is_not_crossable', '_distance', '_heuristic', '_find_nearest_pixel',
                 '_reconstruct_path', '_neighborhood_structure',
                 '_a_star_search', 'a_star_search', 'NONE'):
        if not hasattr(pf, name):
            print("missing in xrspatial.pathfinding:", name)
            ok = False
    if pf.NONE != -1:
        ok = False
    ys8, xs8 = pf._neighborhood_structure(8)
    ys4, xs4 = pf._neighborhood_structure(4)
    ysd, xsd = pf._neighborhood_structure()
    want = (np.array([-1, 0, 1, -1, 1, -1, 0, 1]),
            np.array([-1, -1, -1, 0, 0, 1, 1, 1]),
            np.array([0, -1, 1, 0]), np.array([-1, 0, 0, 1]))
    for got, w in zip((ys8, xs8, ys4, xs4), want):
        if got.dtype != w.dtype or got.shape != w.shape or \
                not (got == w).all():
            print("neighbourhood structure differs", got, w)
            ok = False
    if not ((ysd == ys8).all() and (xsd == xs8).all()):
        ok = False
    # snapping helper directly
    d = np.array([[1., 1., 0.], [1., np.nan, 0.], [0., 1., 1.]])
    b = np.array([1.0])
    got = [tuple(int(v) for v in pf._find_nearest_pixel(i, j, d, b))
           for i in range(3) for j in range(3)]
    want = [(0, 2), (0, 2), (0, 2), (2, 0), (1, 2), (1, 2), (2, 0), (2, 0),
            (1, 2)]
    if got != want:
        print("snap differs", got)
        ok = False
    if tuple(pf._find_nearest_pixel(1, 1, np.ones((2, 2)), b)) != (-1, -1):
        ok = False
    # pixel lookup directly
    r = make_raster(np.zeros((4, 5)), ys=10 - 0.1 * np.arange(4),
                    xs=3 + 0.3 * np.arange(5))
    get_pixel_id = getattr(pf, '_get_pixel_id', None) or \
        getattr(pf, '_cell_index_of_point')
    is_inside = getattr(pf, '_is_inside', None) or \
        getattr(pf, '_index_in_bounds')
    for (py, px), w in (((0, 0), True), ((3, 4), True), ((4, 0), False),
                        ((0, 5), False), ((-1, 2), False), ((2, -1), False),
                        ((-1, -1), False), ((4, 5), False)):
        if bool(is_inside(py, px, 4, 5)) is not w:
            print("inside differs", py, px)
            ok = False
    got = [get_pixel_id((r.y.data[i], r.x.data[j]), r)
           for i in range(4) for j in range(5)]
    if got != [(i, j) for i in range(4) for j in range(5)]:
        print("pixel id differs", got)
        ok = False
    if get_pixel_id((9.84, 3.46), r, 'x', 'y') != (2, 2):
        ok = False
    return ok


GROUPS = [
    ('exhaustive_2x3', group_exhaustive_2x3),
    ('random_3x3_4x4', group_random_3x3_4x4),
    ('dtypes_nans_shapes', group_dtypes_nans_shapes),
    ('coordinates', group_coordinates),
    ('errors_and_misc', group_errors_and_misc),
]


def main():
    record = '--record' in sys.argv
    print("xrspatial from", xrspatial.__file__, "variant", VARIANT)
    bad = 0
    for name, fn in GROUPS:
        dig = fn()
        if record:
            print("    %r: %r," % (name, dig))
        elif EXPECTED.get(name) != dig:
            print("MISMATCH in group", name, dig)
            bad += 1
        else:
            print("ok", name)
    if ORACLE_FAILS:
        print("oracle failures:", len(ORACLE_FAILS), ORACLE_FAILS[:5])
        bad += 1
    if not extra_checks():
        print("extra checks failed")
        bad += 1
    if record:
        return 0
    print("IDENTICAL" if not bad else "DIFFERENT")
    return 1 if bad else 0


if __name__ == '__main__':
    sys.exit(main())
