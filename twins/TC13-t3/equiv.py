"""Differential test for C13 refactoring (spectral indices / true_color).

Usage:  cd <worktree> && PYTHONPATH=<worktree> python equiv.py [--record]

Runs the affected public functions of xrspatial.multispectral on a
deterministic family of inputs (several dtypes, NaN, zeros, equal bands, odd
shapes, numpy and dask with awkward chunking) and checks

  1. sha256 digests (dtype + shape + raw bytes) against values recorded from
     the UNMODIFIED tree (embedded below in RECORDED),
  2. an independent numpy evaluation of the published band formulas
     (bit-exact, NaN-aware),
  3. dask result == numpy result bit-for-bit, output type/name/coords/attrs.

Exit 0 if everything is identical, 1 otherwise.
"""
import hashlib
import sys
import warnings

import dask.array as da
import numpy as np
import xarray as xr

import xrspatial
from xrspatial import multispectral as ms

AFFECTED = ['true_color']

RECORDED = {'true_color/0|float32/13x11|da': '746f98374bfbdc3800ae',
 'true_color/0|float32/13x11|np': '746f98374bfbdc3800ae',
 'true_color/0|float32/1x1|da': 'a6ab1aa09ccdbd2abc49',
 'true_color/0|float32/1x1|np': 'a6ab1aa09ccdbd2abc49',
 'true_color/0|float32/1x7|da': '2c519cbf9058462d2f55',
 'true_color/0|float32/1x7|np': '2c519cbf9058462d2f55',
 'true_color/0|float32/3x5|da': '8e6ce9bd3777ded6e733',
 'true_color/0|float32/3x5|np': '8e6ce9bd3777ded6e733',
 'true_color/0|float32/7x4|da': '9eefde78ede2386e5d11',
 'true_color/0|float32/7x4|np': '9eefde78ede2386e5d11',
 'true_color/0|float64/13x11|da': '6541222efdd9966b94b2',
 'true_color/0|float64/13x11|np': '6541222efdd9966b94b2',
 'true_color/0|float64/1x1|da': 'a6ab1aa09ccdbd2abc49',
 'true_color/0|float64/1x1|np': 'a6ab1aa09ccdbd2abc49',
 'true_color/0|float64/1x7|da': 'da67ae3ff991a7fa4024',
 'true_color/0|float64/1x7|np': 'da67ae3ff991a7fa4024',
 'true_color/0|float64/3x5|da': 'd9a5ea835927f10c36cf',
 'true_color/0|float64/3x5|np': 'd9a5ea835927f10c36cf',
 'true_color/0|float64/7x4|da': 'e6c6c3a5119b49989315',
 'true_color/0|float64/7x4|np': 'e6c6c3a5119b49989315',
 'true_color/0|int32/13x11|da': 'd9f2cbb427bd7e807645',
 'true_color/0|int32/13x11|np': 'd9f2cbb427bd7e807645',
 'true_color/0|int32/1x1|da': 'a6ab1aa09ccdbd2abc49',
 'true_color/0|int32/1x1|np': 'a6ab1aa09ccdbd2abc49',
 'true_color/0|int32/1x7|da': 'dfc4bcdfdca97c2ab1da',
 'true_color/0|int32/1x7|np': 'dfc4bcdfdca97c2ab1da',
 'true_color/0|int32/3x5|da': '1506ccca16c959580fdf',
 'true_color/0|int32/3x5|np': '1506ccca16c959580fdf',
 'true_color/0|int32/7x4|da': '38f3dfaf574bec687375',
 'true_color/0|int32/7x4|np': '38f3dfaf574bec687375',
 'true_color/0|int64/13x11|da': '8585bb9838b2fdecf6b0',
 'true_color/0|int64/13x11|np': '8585bb9838b2fdecf6b0',
 'true_color/0|int64/1x1|da': 'a6ab1aa09ccdbd2abc49',
 'true_color/0|int64/1x1|np': 'a6ab1aa09ccdbd2abc49',
 'true_color/0|int64/1x7|da': 'ece4e294e9f268b07cd4',
 'true_color/0|int64/1x7|np': 'ece4e294e9f268b07cd4',
 'true_color/0|int64/3x5|da': 'ea80fef03980eb8b4254',
 'true_color/0|int64/3x5|np': 'ea80fef03980eb8b4254',
 'true_color/0|int64/7x4|da': '4a4d1d6f05967ceddf97',
 'true_color/0|int64/7x4|np': '4a4d1d6f05967ceddf97',
 'true_color/0|uint16/13x11|da': '8af00000e842bf3bb61a',
 'true_color/0|uint16/13x11|np': '8af00000e842bf3bb61a',
 'true_color/0|uint16/1x1|da': 'a6ab1aa09ccdbd2abc49',
 'true_color/0|uint16/1x1|np': 'a6ab1aa09ccdbd2abc49',
 'true_color/0|uint16/1x7|da': 'a5af65b598105b95bf98',
 'true_color/0|uint16/1x7|np': 'a5af65b598105b95bf98',
 'true_color/0|uint16/3x5|da': '7bbfe4fe360e1c494b03',
 'true_color/0|uint16/3x5|np': '7bbfe4fe360e1c494b03',
 'true_color/0|uint16/7x4|da': '669edf3645e9f7f64b4c',
 'true_color/0|uint16/7x4|np': '669edf3645e9f7f64b4c',
 'true_color/0|uint8/13x11|da': 'b240e737375670fec758',
 'true_color/0|uint8/13x11|np': 'b240e737375670fec758',
 'true_color/0|uint8/1x1|da': 'a6ab1aa09ccdbd2abc49',
 'true_color/0|uint8/1x1|np': 'a6ab1aa09ccdbd2abc49',
 'true_color/0|uint8/1x7|da': 'a81b05895ae9d908fbbd',
 'true_color/0|uint8/1x7|np': 'a81b05895ae9d908fbbd',
 'true_color/0|uint8/3x5|da': 'd963e7bcae455e674f70',
 'true_color/0|uint8/3x5|np': 'd963e7bcae455e674f70',
 'true_color/0|uint8/7x4|da': '7d8b0ca48e039ab385a4',
 'true_color/0|uint8/7x4|np': '7d8b0ca48e039ab385a4',
 'true_color/1|float32/13x11|da': '746f98374bfbdc3800ae',
 'true_color/1|float32/13x11|np': '746f98374bfbdc3800ae',
 'true_color/1|float32/1x1|da': 'a6ab1aa09ccdbd2abc49',
 'true_color/1|float32/1x1|np': 'a6ab1aa09ccdbd2abc49',
 'true_color/1|float32/1x7|da': '2c519cbf9058462d2f55',
 'true_color/1|float32/1x7|np': '2c519cbf9058462d2f55',
 'true_color/1|float32/3x5|da': '8e6ce9bd3777ded6e733',
 'true_color/1|float32/3x5|np': '8e6ce9bd3777ded6e733',
 'true_color/1|float32/7x4|da': '9eefde78ede2386e5d11',
 'true_color/1|float32/7x4|np': '9eefde78ede2386e5d11',
 'true_color/1|float64/13x11|da': '6541222efdd9966b94b2',
 'true_color/1|float64/13x11|np': '6541222efdd9966b94b2',
 'true_color/1|float64/1x1|da': 'a6ab1aa09ccdbd2abc49',
 'true_color/1|float64/1x1|np': 'a6ab1aa09ccdbd2abc49',
 'true_color/1|float64/1x7|da': 'da67ae3ff991a7fa4024',
 'true_color/1|float64/1x7|np': 'da67ae3ff991a7fa4024',
 'true_color/1|float64/3x5|da': 'd9a5ea835927f10c36cf',
 'true_color/1|float64/3x5|np': 'd9a5ea835927f10c36cf',
 'true_color/1|float64/7x4|da': 'e6c6c3a5119b49989315',
 'true_color/1|float64/7x4|np': 'e6c6c3a5119b49989315',
 'true_color/1|int32/13x11|da': 'd9f2cbb427bd7e807645',
 'true_color/1|int32/13x11|np': 'd9f2cbb427bd7e807645',
 'true_color/1|int32/1x1|da': 'a6ab1aa09ccdbd2abc49',
 'true_color/1|int32/1x1|np': 'a6ab1aa09ccdbd2abc49',
 'true_color/1|int32/1x7|da': 'dfc4bcdfdca97c2ab1da',
 'true_color/1|int32/1x7|np': 'dfc4bcdfdca97c2ab1da',
 'true_color/1|int32/3x5|da': '1506ccca16c959580fdf',
 'true_color/1|int32/3x5|np': '1506ccca16c959580fdf',
 'true_color/1|int32/7x4|da': '38f3dfaf574bec687375',
 'true_color/1|int32/7x4|np': '38f3dfaf574bec687375',
 'true_color/1|int64/13x11|da': '8585bb9838b2fdecf6b0',
 'true_color/1|int64/13x11|np': '8585bb9838b2fdecf6b0',
 'true_color/1|int64/1x1|da': 'a6ab1aa09ccdbd2abc49',
 'true_color/1|int64/1x1|np': 'a6ab1aa09ccdbd2abc49',
 'true_color/1|int64/1x7|da': 'ece4e294e9f268b07cd4',
 'true_color/1|int64/1x7|np': 'ece4e294e9f268b07cd4',
 'true_color/1|int64/3x5|da': 'ea80fef03980eb8b4254',
 'true_color/1|int64/3x5|np': 'ea80fef03980eb8b4254',
 'true_color/1|int64/7x4|da': '4a4d1d6f05967ceddf97',
 'true_color/1|int64/7x4|np': '4a4d1d6f05967ceddf97',
 'true_color/1|uint16/13x11|da': '8af00000e842bf3bb61a',
 'true_color/1|uint16/13x11|np': '8af00000e842bf3bb61a',
 'true_color/1|uint16/1x1|da': 'a6ab1aa09ccdbd2abc49',
 'true_color/1|uint16/1x1|np': 'a6ab1aa09ccdbd2abc49',
 'true_color/1|uint16/1x7|da': 'a5af65b598105b95bf98',
 'true_color/1|uint16/1x7|np': 'a5af65b598105b95bf98',
 'true_color/1|uint16/3x5|da': '7bbfe4fe360e1c494b03',
 'true_color/1|uint16/3x5|np': '7bbfe4fe360e1c494b03',
 'true_color/1|uint16/7x4|da': '669edf3645e9f7f64b4c',
 'true_color/1|uint16/7x4|np': '669edf3645e9f7f64b4c',
 'true_color/1|uint8/13x11|da': 'b240e737375670fec758',
 'true_color/1|uint8/13x11|np': 'b240e737375670fec758',
 'true_color/1|uint8/1x1|da': 'a6ab1aa09ccdbd2abc49',
 'true_color/1|uint8/1x1|np': 'a6ab1aa09ccdbd2abc49',
 'true_color/1|uint8/1x7|da': 'a81b05895ae9d908fbbd',
 'true_color/1|uint8/1x7|np': 'a81b05895ae9d908fbbd',
 'true_color/1|uint8/3x5|da': 'd963e7bcae455e674f70',
 'true_color/1|uint8/3x5|np': 'd963e7bcae455e674f70',
 'true_color/1|uint8/7x4|da': '7d8b0ca48e039ab385a4',
 'true_color/1|uint8/7x4|np': '7d8b0ca48e039ab385a4',
 'true_color/2|float32/13x11|da': '53781653e7c0e99967ac',
 'true_color/2|float32/13x11|np': '53781653e7c0e99967ac',
 'true_color/2|float32/1x1|da': 'a6ab1aa09ccdbd2abc49',
 'true_color/2|float32/1x1|np': 'a6ab1aa09ccdbd2abc49',
 'true_color/2|float32/1x7|da': '8798101a4f3aa943494f',
 'true_color/2|float32/1x7|np': '8798101a4f3aa943494f',
 'true_color/2|float32/3x5|da': '009c4594dd176d3b5d15',
 'true_color/2|float32/3x5|np': '009c4594dd176d3b5d15',
 'true_color/2|float32/7x4|da': '35793134db7bdf3b6059',
 'true_color/2|float32/7x4|np': '35793134db7bdf3b6059',
 'true_color/2|float64/13x11|da': '0d4aa7eba4bbc6cfb866',
 'true_color/2|float64/13x11|np': '0d4aa7eba4bbc6cfb866',
 'true_color/2|float64/1x1|da': 'a6ab1aa09ccdbd2abc49',
 'true_color/2|float64/1x1|np': 'a6ab1aa09ccdbd2abc49',
 'true_color/2|float64/1x7|da': 'b1917973c11f3f94b45f',
 'true_color/2|float64/1x7|np': 'b1917973c11f3f94b45f',
 'true_color/2|float64/3x5|da': '611e8e46447450e6d0cc',
 'true_color/2|float64/3x5|np': '611e8e46447450e6d0cc',
 'true_color/2|float64/7x4|da': 'f1f749cc514ce1bdc532',
 'true_color/2|float64/7x4|np': 'f1f749cc514ce1bdc532',
 'true_color/2|int32/13x11|da': '8c5a671668b3116d7465',
 'true_color/2|int32/13x11|np': '8c5a671668b3116d7465',
 'true_color/2|int32/1x1|da': 'a6ab1aa09ccdbd2abc49',
 'true_color/2|int32/1x1|np': 'a6ab1aa09ccdbd2abc49',
 'true_color/2|int32/1x7|da': '23f422a4bf6e524711f9',
 'true_color/2|int32/1x7|np': '23f422a4bf6e524711f9',
 'true_color/2|int32/3x5|da': 'ef4de4e911173a12f690',
 'true_color/2|int32/3x5|np': 'ef4de4e911173a12f690',
 'true_color/2|int32/7x4|da': '5dee74939b59c598402f',
 'true_color/2|int32/7x4|np': '5dee74939b59c598402f',
 'true_color/2|int64/13x11|da': '5a5809a86ece66260ea7',
 'true_color/2|int64/13x11|np': '5a5809a86ece66260ea7',
 'true_color/2|int64/1x1|da': 'a6ab1aa09ccdbd2abc49',
 'true_color/2|int64/1x1|np': 'a6ab1aa09ccdbd2abc49',
 'true_color/2|int64/1x7|da': 'edaa98f072fed8497543',
 'true_color/2|int64/1x7|np': 'edaa98f072fed8497543',
 'true_color/2|int64/3x5|da': '81987c6a930453a1c09b',
 'true_color/2|int64/3x5|np': '81987c6a930453a1c09b',
 'true_color/2|int64/7x4|da': '53c86036f8244a4d6b7e',
 'true_color/2|int64/7x4|np': '53c86036f8244a4d6b7e',
 'true_color/2|uint16/13x11|da': 'bd58076e970d32a16358',
 'true_color/2|uint16/13x11|np': 'bd58076e970d32a16358',
 'true_color/2|uint16/1x1|da': 'a6ab1aa09ccdbd2abc49',
 'true_color/2|uint16/1x1|np': 'a6ab1aa09ccdbd2abc49',
 'true_color/2|uint16/1x7|da': '21db80074fe7ceba82bb',
 'true_color/2|uint16/1x7|np': '21db80074fe7ceba82bb',
 'true_color/2|uint16/3x5|da': '0b1754f71cc6c8a4b046',
 'true_color/2|uint16/3x5|np': '0b1754f71cc6c8a4b046',
 'true_color/2|uint16/7x4|da': 'fd24554fe3e764d4a4bc',
 'true_color/2|uint16/7x4|np': 'fd24554fe3e764d4a4bc',
 'true_color/2|uint8/13x11|da': '47740ea992a7f98ab888',
 'true_color/2|uint8/13x11|np': '47740ea992a7f98ab888',
 'true_color/2|uint8/1x1|da': 'a6ab1aa09ccdbd2abc49',
 'true_color/2|uint8/1x1|np': 'a6ab1aa09ccdbd2abc49',
 'true_color/2|uint8/1x7|da': '5d9cb0946e1e9ea34e0f',
 'true_color/2|uint8/1x7|np': '5d9cb0946e1e9ea34e0f',
 'true_color/2|uint8/3x5|da': '151a29a69146d7151fc7',
 'true_color/2|uint8/3x5|np': '151a29a69146d7151fc7',
 'true_color/2|uint8/7x4|da': 'd02b02d6f68a2291da26',
 'true_color/2|uint8/7x4|np': 'd02b02d6f68a2291da26',
 'true_color/3|float32/13x11|da': 'e8fdda94bb944376f247',
 'true_color/3|float32/13x11|np': 'e8fdda94bb944376f247',
 'true_color/3|float32/1x1|da': 'a6ab1aa09ccdbd2abc49',
 'true_color/3|float32/1x1|np': 'a6ab1aa09ccdbd2abc49',
 'true_color/3|float32/1x7|da': '75b3b1cf179e99de1771',
 'true_color/3|float32/1x7|np': '75b3b1cf179e99de1771',
 'true_color/3|float32/3x5|da': 'bcf7876294891ef55f70',
 'true_color/3|float32/3x5|np': 'bcf7876294891ef55f70',
 'true_color/3|float32/7x4|da': 'adea1ce1327fafb5af26',
 'true_color/3|float32/7x4|np': 'adea1ce1327fafb5af26',
 'true_color/3|float64/13x11|da': 'f82eae76c721c775e6ae',
 'true_color/3|float64/13x11|np': 'f82eae76c721c775e6ae',
 'true_color/3|float64/1x1|da': 'a6ab1aa09ccdbd2abc49',
 'true_color/3|float64/1x1|np': 'a6ab1aa09ccdbd2abc49',
 'true_color/3|float64/1x7|da': '1dbb454423a6158acdab',
 'true_color/3|float64/1x7|np': '1dbb454423a6158acdab',
 'true_color/3|float64/3x5|da': 'cc3567f049341ee2e185',
 'true_color/3|float64/3x5|np': 'cc3567f049341ee2e185',
 'true_color/3|float64/7x4|da': '918471cb8a2889d97667',
 'true_color/3|float64/7x4|np': '918471cb8a2889d97667',
 'true_color/3|int32/13x11|da': '20592c799218a08d77b5',
 'true_color/3|int32/13x11|np': '20592c799218a08d77b5',
 'true_color/3|int32/1x1|da': 'f8790b091027ae22f94c',
 'true_color/3|int32/1x1|np': 'f8790b091027ae22f94c',
 'true_color/3|int32/1x7|da': 'ec1ab782e7b050d68a15',
 'true_color/3|int32/1x7|np': 'ec1ab782e7b050d68a15',
 'true_color/3|int32/3x5|da': 'f6911fd1892b29af5f92',
 'true_color/3|int32/3x5|np': 'f6911fd1892b29af5f92',
 'true_color/3|int32/7x4|da': '24a1dde0ed7e6a1422c4',
 'true_color/3|int32/7x4|np': '24a1dde0ed7e6a1422c4',
 'true_color/3|int64/13x11|da': 'e795bf7fc535938ec936',
 'true_color/3|int64/13x11|np': 'e795bf7fc535938ec936',
 'true_color/3|int64/1x1|da': 'f8790b091027ae22f94c',
 'true_color/3|int64/1x1|np': 'f8790b091027ae22f94c',
 'true_color/3|int64/1x7|da': 'b19f403c6b59e710879e',
 'true_color/3|int64/1x7|np': 'b19f403c6b59e710879e',
 'true_color/3|int64/3x5|da': '2d5ae2b402c031cf7e11',
 'true_color/3|int64/3x5|np': '2d5ae2b402c031cf7e11',
 'true_color/3|int64/7x4|da': '5656af3eb2cb7908f362',
 'true_color/3|int64/7x4|np': '5656af3eb2cb7908f362',
 'true_color/3|uint16/13x11|da': '125d373c76d2cdd8f1e8',
 'true_color/3|uint16/13x11|np': '125d373c76d2cdd8f1e8',
 'true_color/3|uint16/1x1|da': 'f8790b091027ae22f94c',
 'true_color/3|uint16/1x1|np': 'f8790b091027ae22f94c',
 'true_color/3|uint16/1x7|da': 'fe32b0a12500d38254cd',
 'true_color/3|uint16/1x7|np': 'fe32b0a12500d38254cd',
 'true_color/3|uint16/3x5|da': 'f833c9aed29df8fa7a69',
 'true_color/3|uint16/3x5|np': 'f833c9aed29df8fa7a69',
 'true_color/3|uint16/7x4|da': 'c71879a06df87556d785',
 'true_color/3|uint16/7x4|np': 'c71879a06df87556d785',
 'true_color/3|uint8/13x11|da': '2bcbe42a5fe36b263706',
 'true_color/3|uint8/13x11|np': '2bcbe42a5fe36b263706',
 'true_color/3|uint8/1x1|da': 'f8790b091027ae22f94c',
 'true_color/3|uint8/1x1|np': 'f8790b091027ae22f94c',
 'true_color/3|uint8/1x7|da': 'f3b863bee5f5be2decc1',
 'true_color/3|uint8/1x7|np': 'f3b863bee5f5be2decc1',
 'true_color/3|uint8/3x5|da': 'e7ea802a12dd372d9ad4',
 'true_color/3|uint8/3x5|np': 'e7ea802a12dd372d9ad4',
 'true_color/3|uint8/7x4|da': 'aaf1c6ff8c928c872ec4',
 'true_color/3|uint8/7x4|np': 'aaf1c6ff8c928c872ec4'}

DTYPES = ['uint8', 'uint16', 'int32', 'int64', 'float32', 'float64']
SHAPES = [(1, 1), (1, 7), (3, 5), (7, 4), (13, 11)]
CHUNKS = {(1, 1): (1, 1), (1, 7): (1, 3), (3, 5): (2, 3), (7, 4): (3, 3), (13, 11): (5, 4)}


def make_bands(dtype, shape, seed, n=3):
    """n band arrays of given dtype/shape with zeros, equal cells and NaNs."""
    rs = np.random.RandomState(seed)
    size = shape[0] * shape[1]
    bands = []
    for k in range(n):
        if dtype.startswith('float'):
            a = rs.uniform(0, 3000, size=shape)
            if k == 1 and seed % 2:
                a = rs.uniform(-5, 5, size=shape)       # negative values too
        elif dtype == 'uint8':
            a = rs.randint(0, 256, size=shape)
        else:
            a = rs.randint(0, 6000, size=shape)
        bands.append(a.astype(dtype))
    flat = [b.reshape(-1) for b in bands]
    # zero cells in all bands -> zero denominators
    idx = rs.choice(size, max(1, size // 6), replace=False)
    for f in flat:
        f[idx] = 0
    # equal cells across bands (nir == red etc.)
    idx = rs.choice(size, max(1, size // 6), replace=False)
    for f in flat[1:]:
        f[idx] = flat[0][idx]
    if dtype.startswith('float'):
        for k, f in enumerate(flat):
            idx = rs.choice(size, max(1, size // 8), replace=False)
            f[idx] = np.nan
        # opposite-sign cells: a + b == 0 with a != 0
        idx = rs.choice(size, max(1, size // 8), replace=False)
        flat[1][idx] = -flat[0][idx]
    return [f.reshape(shape) for f in flat]


def to_agg(arr, backend, chunks):
    h, w = arr.shape
    data = arr if backend == 'numpy' else da.from_array(arr, chunks=chunks)
    return xr.DataArray(data, dims=['y', 'x'],
                        coords={'y': np.arange(h)[::-1] * 10.0, 'x': np.arange(w) * 10.0},
                        attrs={'res': (10.0, 10.0), 'tag': 'band'})


def digest(a):
    a = np.ascontiguousarray(a)
    h = hashlib.sha256()
    h.update(str(a.dtype).encode())
    h.update(str(a.shape).encode())
    h.update(a.tobytes())
    return h.hexdigest()[:20]


# ---------------------------------------------------------------- references
f4 = np.float32
f8 = np.float64


def _guard(num, den):
    """num/den where den != 0 (NaN den passes the test -> NaN), NaN elsewhere; f4 out."""
    out = np.full(num.shape, np.nan, dtype=f4)
    with np.errstate(all='ignore'):
        m = den != 0
        out[m] = (num[m] / den[m]).astype(f4)
    return out


def ref_norm(a, b):
    a = a.astype(f4); b = b.astype(f4)
    return _guard(a - b, a + b)


def ref_arvi(nir, red, blue):
    nir = nir.astype(f4).astype(f8); red = red.astype(f4).astype(f8); blue = blue.astype(f4).astype(f8)
    return _guard(nir - 2.0 * red + blue, nir + 2.0 * red + blue)


def ref_evi(nir, red, blue, c1, c2, L, G):
    nir = nir.astype(f4); red = red.astype(f4); blue = blue.astype(f4)
    num = (nir - red).astype(f8)
    den = nir.astype(f8) + f8(c1) * red.astype(f8) - f8(c2) * blue.astype(f8) + f8(L)
    out = np.full(nir.shape, np.nan, dtype=f4)
    with np.errstate(all='ignore'):
        m = den != 0
        out[m] = (f8(G) * (num[m] / den[m])).astype(f4)
    return out


def ref_gci(nir, green):
    nir = nir.astype(f4); green = green.astype(f4)
    out = np.full(nir.shape, np.nan, dtype=f4)
    with np.errstate(all='ignore'):
        m = green != 0
        out[m] = ((nir[m] / green[m]).astype(f8) - 1).astype(f4)
    return out


def ref_savi(nir, red, L):
    nir = nir.astype(f4); red = red.astype(f4)
    num = (nir - red).astype(f8)
    den = ((nir + red).astype(f8) + f8(L)) * (1.0 + f8(L))
    return _guard(num, den)


def ref_sipi(nir, red, blue):
    nir = nir.astype(f4); red = red.astype(f4); blue = blue.astype(f4)
    return _guard(nir - blue, nir - red)


def ref_ebbi(red, swir, tir):
    red = red.astype(f4); swir = swir.astype(f4); tir = tir.astype(f4)
    with np.errstate(all='ignore'):
        den = 10 * np.sqrt(swir + tir).astype(f8)
    return _guard((swir - red).astype(f8), den)


def same(a, b):
    return a.dtype == b.dtype and a.shape == b.shape and np.array_equal(a, b, equal_nan=True) \
        and np.array_equal(np.signbit(a), np.signbit(b))


# ---------------------------------------------------------------- cases
EVI_PARAMS = [(6.0, 7.5, 1.0, 2.5), (0.0, 0.0, 0.0, 0.0), (1, 2, -1.0, 1), (2.5, 0.5, 0.5, 3.0),
              (6.0, 7.5, -0.25, 0.5)]
SAVI_PARAMS = [1.0, 0.0, -1.0, 0.5, -0.5, 1, 0, 0.3]


def index_cases():
    """yield (case_id, func_name, callable(aggs)->DataArray, ref(arrs)->ndarray, nbands)"""
    two = {'nbr': ms.nbr, 'nbr2': ms.nbr2, 'ndvi': ms.ndvi, 'ndmi': ms.ndmi}
    for nm, fn in two.items():
        yield nm, nm, (lambda ag, fn=fn: fn(ag[0], ag[1])), (lambda ar: ref_norm(ar[0], ar[1]))
        yield nm + '/swap', nm, (lambda ag, fn=fn: fn(ag[1], ag[0], name='zz')), \
            (lambda ar: ref_norm(ar[1], ar[0]))
    yield 'arvi', 'arvi', (lambda ag: ms.arvi(ag[0], ag[1], ag[2])), (lambda ar: ref_arvi(*ar))
    yield 'sipi', 'sipi', (lambda ag: ms.sipi(ag[0], ag[1], ag[2])), (lambda ar: ref_sipi(*ar))
    yield 'ebbi', 'ebbi', (lambda ag: ms.ebbi(ag[0], ag[1], ag[2])), (lambda ar: ref_ebbi(*ar))
    yield 'gci', 'gci', (lambda ag: ms.gci(ag[0], ag[1])), (lambda ar: ref_gci(ar[0], ar[1]))
    for p in EVI_PARAMS:
        yield 'evi/%r' % (p,), 'evi', \
            (lambda ag, p=p: ms.evi(ag[0], ag[1], ag[2], c1=p[0], c2=p[1], soil_factor=p[2], gain=p[3])), \
            (lambda ar, p=p: ref_evi(ar[0], ar[1], ar[2], *p))
    for L in SAVI_PARAMS:
        yield 'savi/%r' % (L,), 'savi', (lambda ag, L=L: ms.savi(ag[0], ag[1], soil_factor=L)), \
            (lambda ar, L=L: ref_savi(ar[0], ar[1], L))


TC_PARAMS = [dict(), dict(nodata=0), dict(nodata=100.5, c=5.0, th=0.3), dict(nodata=-1, c=20.0, th=0.0)]


def main():
    record = '--record' in sys.argv
    print('xrspatial from', xrspatial.__file__)
    got = {}
    fails = []

    def check(cond, msg):
        if not cond:
            fails.append(msg)

    seed = 0
    for dtype in DTYPES:
        for shape in SHAPES:
            seed += 1
            arrs = make_bands(dtype, shape, seed)
            aggs_np = [to_agg(a, 'numpy', None) for a in arrs]

            def fresh_dask():
                # bands deliberately chunked differently (validate_arrays rechunks)
                return [to_agg(a, 'dask', CHUNKS[shape] if k != 1 else shape)
                        for k, a in enumerate(arrs)]
            tag = '%s/%dx%d' % (dtype, shape[0], shape[1])

            for cid, fname, call, ref in index_cases():
                if fname not in AFFECTED:
                    continue
                key = '%s|%s' % (cid, tag)
                r_np = call(aggs_np)
                r_da = call(fresh_dask())
                check(isinstance(r_np.data, np.ndarray), key + ': numpy backend type')
                check(isinstance(r_da.data, da.Array), key + ': dask backend type')
                v_np = r_np.data
                v_da = r_da.data.compute()
                check(v_np.dtype == np.float32, key + ': dtype %s' % v_np.dtype)
                check(not np.isinf(v_np).any(), key + ': inf in output')
                check(same(v_np, v_da), key + ': dask != numpy')
                check(same(v_np, ref(arrs)), key + ': != independent formula')
                for r in (r_np, r_da):
                    first = aggs_np[1] if cid.endswith('/swap') else aggs_np[0]
                    check(r.name == ('zz' if cid.endswith('/swap') else fname), key + ': name')
                    check(r.dims == first.dims and r.attrs == first.attrs, key + ': dims/attrs')
                    check(all(np.array_equal(r[c].values, first[c].values) for c in ('y', 'x')),
                          key + ': coords')
                got[key] = digest(v_np)

            if 'true_color' in AFFECTED:
                for i, kw in enumerate(TC_PARAMS):
                    key = 'true_color/%d|%s' % (i, tag)
                    with warnings.catch_warnings():
                        warnings.simplefilter('ignore')
                        r_np = ms.true_color(*aggs_np, **kw)
                        r_da = ms.true_color(*fresh_dask(), **kw)
                        v_np = np.asarray(r_np.data)
                        v_da = np.asarray(r_da.data.compute())
                    check(isinstance(r_np.data, np.ndarray), key + ': numpy backend type')
                    check(isinstance(r_da.data, da.Array), key + ': dask backend type')
                    check(v_np.dtype == np.uint8 and v_da.dtype == np.uint8, key + ': dtype')
                    check(v_np.shape == shape + (4,) and v_da.shape == shape + (4,), key + ': shape')
                    nodata = kw.get('nodata', 1)
                    red = arrs[0]
                    with np.errstate(all='ignore'):
                        exp_alpha = np.where(np.isnan(red.astype('f8')) | (red <= nodata), 0, 255)
                    check(np.array_equal(v_np[..., 3], exp_alpha), key + ': alpha numpy')
                    check(np.array_equal(v_da[..., 3], exp_alpha), key + ': alpha dask')
                    for r in (r_np, r_da):
                        check(r.name == 'true_color' and r.dims == ('y', 'x', 'band'), key + ': name/dims')
                        check(r.attrs == aggs_np[0].attrs, key + ': attrs')
                        check(list(r['band'].values) == [0, 1, 2, 3], key + ': band coord')
                        check(np.array_equal(r['y'].values, aggs_np[0]['y'].values), key + ': y')
                    got[key + '|np'] = digest(v_np)
                    got[key + '|da'] = digest(v_da)

    # error paths / validation must be unchanged
    a = to_agg(np.ones((3, 4), 'f4'), 'numpy', None)
    b = to_agg(np.ones((4, 3), 'f4'), 'numpy', None)
    d = to_agg(np.ones((3, 4), 'f4'), 'dask', (2, 2))

    def raises(exc, fn, *args, **kw):
        try:
            fn(*args, **kw)
        except exc:
            return True
        except Exception as e:  # noqa
            return False
        return False

    if 'ndvi' in AFFECTED:
        for fn in (ms.ndvi, ms.ndmi, ms.nbr, ms.nbr2):
            check(raises(ValueError, fn, a, b), fn.__name__ + ': shape mismatch must raise ValueError')
            check(raises(ValueError, fn, a, d), fn.__name__ + ': mixed backends must raise ValueError')
    if 'savi' in AFFECTED:
        check(raises(ValueError, ms.savi, a, a, soil_factor=1.5), 'savi soil_factor range')
        check(raises(ValueError, ms.savi, a, b), 'savi shape mismatch')
    if 'arvi' in AFFECTED:
        check(raises(ValueError, ms.arvi, a, a, b), 'arvi shape mismatch')

    if record:
        import pprint
        print('RECORDED = ' + pprint.pformat(got, width=110))
        return 0

    if set(got) != set(RECORDED):
        fails.append('case set differs from recorded: %d vs %d' % (len(got), len(RECORDED)))
    for k in sorted(got):
        if RECORDED.get(k) != got[k]:
            fails.append('%s: digest %s != recorded %s' % (k, got[k], RECORDED.get(k)))

    print('%d cases, %d failures' % (len(got), len(fails)))
    for f in fails[:40]:
        print('FAIL', f)
    return 1 if fails else 0


if __name__ == '__main__':
    sys.exit(main())
