"""Differential test for property C12 (classifiers). Oracles for binary/reclassify are independent pure-python
implementations; the data-driven classifiers are compared with digests recorded from the unmodified tree.
Run: cd <worktree> && PYTHONPATH=<worktree> python equiv.py   (exit 0 == identical)"""
import contextlib
import hashlib
import io
import itertools
import os
import sys
import warnings

import dask
import dask.array as da
import numpy as np
import xarray as xr

import xrspatial
from xrspatial.classify import (binary, equal_interval, natural_breaks,
                                quantile, reclassify)

dask.config.set(scheduler='synchronous')

FAILS = []


def check(cond, msg):
    if not cond:
        FAILS.append(msg)
        print('FAIL:', msg)


def digest(arr):
    arr = np.ascontiguousarray(arr)
    h = hashlib.sha256()
    h.update(str(arr.dtype).encode())
    h.update(str(arr.shape).encode())
    h.update(arr.tobytes())
    return h.hexdigest()[:16]


def make_rasters():
    rng = np.random.RandomState(20240612)
    out = {}
    a = rng.uniform(-50, 50, (13, 17))
    a[0, 0] = np.nan
    a[3, 5] = np.inf
    a[7, 2] = -np.inf
    a[12, 16] = np.nan
    out['f64_rand'] = a
    out['f32_rand'] = a.astype(np.float32)
    t = rng.randint(0, 6, (9, 11)).astype(np.float64)       # many ties
    t[2, 2] = np.nan
    t[8, 10] = np.inf
    out['f64_ties'] = t
    out['f32_ties'] = t.astype(np.float32)
    out['i32'] = rng.randint(-20, 20, (7, 5)).astype(np.int32)
    out['i64'] = rng.randint(0, 1000, (6, 8)).astype(np.int64)
    # values not representable in float32
    out['f64_big'] = (16777216.0 + np.arange(35, dtype=np.float64).reshape(5, 7) * 0.5
                      + 1e-3)
    out['f64_tiny'] = 1.0 + np.arange(12, dtype=np.float64).reshape(3, 4) * 1e-12
    out['f64_1x1'] = np.array([[3.5]])
    out['f64_1x7'] = np.array([[1., 2., np.nan, 4., 4., 9., np.inf]])
    out['f32_5x1'] = np.array([[5.], [1.], [np.nan], [2.], [2.]], dtype=np.float32)
    out['f64_ramp'] = np.arange(40, dtype=np.float64).reshape(5, 8)
    return out


def to_xr(arr, backend, chunks=(4, 3)):
    data = arr
    if backend == 'dask':
        data = da.from_array(arr, chunks=chunks)
    h, w = arr.shape
    return xr.DataArray(data, dims=['y', 'x'],
                        coords={'y': np.arange(h) * 2.0, 'x': np.arange(w) + 10.0},
                        attrs={'res': (2.0, 1.0), 'tag': 'T'})


def run(func, agg, *args, **kwargs):
    """Run a public function; return a description of everything observable."""
    buf = io.StringIO()
    try:
        with warnings.catch_warnings(record=True) as wlist, contextlib.redirect_stdout(buf):
            warnings.simplefilter('always')
            res = func(agg, *args, **kwargs)
            lazy_dtype = str(res.data.dtype)
            is_dask = isinstance(res.data, da.Array)
            chunks = res.data.chunks if is_dask else None
            vals = res.compute().data if is_dask else res.data
        msgs = sorted(str(w.message) for w in wlist
                      if 'xrspatial' in str(w.filename) or 'natural_breaks' in str(w.message))
        meta_ok = (res.dims == agg.dims and res.attrs == agg.attrs
                   and list(res.coords) == list(agg.coords)
                   and all(np.array_equal(res.coords[c].values, agg.coords[c].values)
                           for c in agg.coords))
        return {'ok': True, 'vals': np.asarray(vals), 'lazy_dtype': lazy_dtype,
                'is_dask': is_dask, 'chunks': chunks, 'name': res.name,
                'meta_ok': meta_ok, 'stdout': buf.getvalue(), 'warn': msgs}
    except Exception as e:  # noqa
        return {'ok': False, 'exc': type(e).__name__ + ':' + str(e)[:80]}


def summary(r):
    if not r['ok']:
        return 'EXC ' + r['exc']
    return '|'.join([digest(r['vals']), r['lazy_dtype'], str(r['is_dask']), str(r['chunks']),
                     str(r['name']), str(r['meta_ok']),
                     hashlib.sha256((r['stdout'] + '#'.join(r['warn'])).encode()).hexdigest()[:8]])


# ---------------------------------------------------------------- oracles
def oracle_binary(arr, values):
    out = np.full(arr.shape, np.nan, dtype=arr.dtype if arr.dtype.kind == 'f' else None)
    for idx in np.ndindex(arr.shape):
        v = arr[idx]
        if any(v == u for u in values):
            out[idx] = 1
        elif np.isfinite(v):
            out[idx] = 0
    return out


def oracle_reclassify(arr, bins, new_values):
    out = np.full(arr.shape, np.nan, dtype=np.float32)
    for idx in np.ndindex(arr.shape):
        v = arr[idx]
        if not np.isfinite(v):
            continue
        for b, nv in zip(bins, new_values):
            if v <= b:
                out[idx] = nv
                break
    return out


def same(a, b):
    return a.dtype == b.dtype and a.shape == b.shape and np.array_equal(a, b, equal_nan=True)


def main(expected):
    assert os.path.realpath(xrspatial.__file__).startswith(os.path.realpath(os.getcwd())), \
        xrspatial.__file__
    rasters = make_rasters()
    got = {}

    # ---- binary: oracle on float rasters, recorded digest on everything
    value_sets = [[1, 2, 3], [0.0], [], [4.0, 16777216.001, -7], [np.nan, 2.0]]
    for (rn, arr), (vi, values), backend in itertools.product(
            rasters.items(), enumerate(value_sets), ['numpy', 'dask']):
        r = run(binary, to_xr(arr, backend), values)
        got['binary/%s/%d/%s' % (rn, vi, backend)] = summary(r)
        if arr.dtype.kind == 'f' and len(values) > 0:
            check(r['ok'] and same(r['vals'], oracle_binary(arr, values)),
                  'binary oracle %s %d %s' % (rn, vi, backend))

    # ---- reclassify: exhaustive position-vs-bins for every bin count up to 6
    for n in range(1, 7):
        bins = [float(2 * i + 1) for i in range(n)]          # 1,3,5,...
        new_values = [10 * i + 7 for i in range(n)]
        probe = []
        for b in bins:
            probe += [b - 1.0, b - 1e-9, b, b + 1e-9]
        probe += [bins[-1] + 1.0, -1e30, 1e30, np.nan, np.inf, -np.inf]
        while len(probe) % 5:
            probe.append(np.nan)
        for dt in (np.float64, np.float32):
            arr = np.array(probe, dtype=dt).reshape(-1, 5)
            for backend in ('numpy', 'dask'):
                for bb in (bins, bins[:-1] + [np.inf]):
                    r = run(reclassify, to_xr(arr, backend, chunks=(2, 3)), bb, new_values)
                    key = 'reclass_ex/%d/%s/%s/%s' % (n, np.dtype(dt).name, backend, bb[-1])
                    got[key] = summary(r)
                    check(r['ok'] and same(r['vals'], oracle_reclassify(arr, bb, new_values)),
                          'reclassify oracle ' + key)
    bin_sets = [([10, 15, np.inf], [1, 2, 3]),
                ([-10.5, 0, 0.5, 3, 40], [5, 4, 3, 2, 1]),
                ([2.0, 2.0, 4.0], [0.5, 1.5, 2.5]),            # repeated edge
                ([16777217.0, 16777225.25, 16777230.0], [0, 1, 2]),
                ([3], [9])]
    for (rn, arr), (bi, (bins, nv)), backend in itertools.product(
            rasters.items(), enumerate(bin_sets), ['numpy', 'dask']):
        r = run(reclassify, to_xr(arr, backend), bins, nv)
        key = 'reclass/%s/%d/%s' % (rn, bi, backend)
        got[key] = summary(r)
        check(r['ok'] and same(r['vals'], oracle_reclassify(arr, bins, nv)),
              'reclassify oracle ' + key)
    r = run(reclassify, to_xr(rasters['f64_ramp'], 'numpy'), [1, 2], [1])
    got['reclass/mismatch'] = summary(r)
    r = run(reclassify, to_xr(rasters['f64_ramp'], 'numpy'), [1, 2], [1, 2], name='foo')
    got['reclass/name'] = summary(r)

    # ---- data driven classifiers: recorded from the unmodified tree
    for (rn, arr), k in itertools.product(rasters.items(), [2, 3, 4, 5, 7]):
        for backend in ('numpy', 'dask'):
            agg = to_xr(arr, backend)
            got['quantile/%s/%d/%s' % (rn, k, backend)] = summary(run(quantile, agg, k))
            got['equal_interval/%s/%d/%s' % (rn, k, backend)] = summary(
                run(equal_interval, agg, k))
        agg = to_xr(arr, 'numpy')
        got['natural_breaks/%s/%d' % (rn, k)] = summary(run(natural_breaks, agg, k=k))
        got['natural_breaks_s/%s/%d' % (rn, k)] = summary(
            run(natural_breaks, agg, num_sample=11, k=k))
        got['natural_breaks_n/%s/%d' % (rn, k)] = summary(
            run(natural_breaks, agg, num_sample=None, k=k, name='nb'))
    agg = to_xr(rasters['f64_rand'], 'dask')
    got['natural_breaks/dask'] = summary(run(natural_breaks, agg))
    got['defaults/q'] = summary(run(quantile, to_xr(rasters['f64_rand'], 'numpy')))
    got['defaults/e'] = summary(run(equal_interval, to_xr(rasters['f64_rand'], 'numpy'),
                                    name='ei'))
    got['defaults/b'] = summary(run(binary, to_xr(rasters['f64_rand'], 'numpy'), [1], name='bb'))

    # ---- sanity of the property itself on the data-driven outputs (numpy backend)
    for rn, arr in rasters.items():
        if arr.dtype.kind != 'f':
            continue
        for k in (2, 3, 5):
            for f, kw in ((quantile, {}), (equal_interval, {}), (natural_breaks, {})):
                r = run(f, to_xr(arr, 'numpy'), k=k, **kw)
                if not r['ok']:
                    continue
                v = r['vals']
                fin = np.isfinite(arr)
                check(np.all(np.isnan(v[~fin])), 'nonfinite->NaN %s %s' % (f.__name__, rn))
                check(not np.any(np.isnan(v[fin])), 'finite labelled %s %s' % (f.__name__, rn))
                c = v[fin]
                check(np.all((c >= 0) & (c <= k - 1) & (c == np.round(c))),
                      'range %s %s' % (f.__name__, rn))
                o = np.argsort(arr[fin], kind='stable')
                check(np.all(np.diff(c[o]) >= 0), 'monotone %s %s' % (f.__name__, rn))

    if '--record' in sys.argv:
        print('EXPECTED = {')
        for kk in sorted(got):
            print('    %r: %r,' % (kk, got[kk]))
        print('}')
        return 0 if not FAILS else 1

    check(set(got) == set(expected), 'key sets differ')
    for kk in sorted(got):
        check(expected.get(kk) == got[kk], 'recorded value differs: %s: %s != %s'
              % (kk, got[kk], expected.get(kk)))
    print('%d cases, %d failures' % (len(got), len(FAILS)))
    return 0 if not FAILS else 1


EXPECTED = {
    'binary/f32_5x1/0/dask': '515ee7b8d4af9b0b|float32|True|((4, 1), (1,))|binary|True|e3b0c442',
    'binary/f32_5x1/0/numpy': '515ee7b8d4af9b0b|float32|False|None|binary|True|e3b0c442',
    'binary/f32_5x1/1/dask': 'd3be72caf29d964d|float32|True|((4, 1), (1,))|binary|True|e3b0c442',
    'binary/f32_5x1/1/numpy': 'd3be72caf29d964d|float32|False|None|binary|True|e3b0c442',
    'binary/f32_5x1/2/dask': 'd3be72caf29d964d|float32|True|((4, 1), (1,))|binary|True|e3b0c442',
    'binary/f32_5x1/2/numpy': 'd3be72caf29d964d|float32|False|None|binary|True|e3b0c442',
    'binary/f32_5x1/3/dask': 'd3be72caf29d964d|float32|True|((4, 1), (1,))|binary|True|e3b0c442',
    'binary/f32_5x1/3/numpy': 'd3be72caf29d964d|float32|False|None|binary|True|e3b0c442',
    'binary/f32_5x1/4/dask': 'd468da63572e81b0|float32|True|((4, 1), (1,))|binary|True|e3b0c442',
    'binary/f32_5x1/4/numpy': 'd468da63572e81b0|float32|False|None|binary|True|e3b0c442',
    'binary/f32_rand/0/dask': 'c041a72f70bf80ed|float32|True|((4, 4, 4, 1), (3, 3, 3, 3, 3, 2))|binary|True|e3b0c442',
    'binary/f32_rand/0/numpy': 'c041a72f70bf80ed|float32|False|None|binary|True|e3b0c442',
    'binary/f32_rand/1/dask': 'c041a72f70bf80ed|float32|True|((4, 4, 4, 1), (3, 3, 3, 3, 3, 2))|binary|True|e3b0c442',
    'binary/f32_rand/1/numpy': 'c041a72f70bf80ed|float32|False|None|binary|True|e3b0c442',
    'binary/f32_rand/2/dask': 'c041a72f70bf80ed|float32|True|((4, 4, 4, 1), (3, 3, 3, 3, 3, 2))|binary|True|e3b0c442',
    'binary/f32_rand/2/numpy': 'c041a72f70bf80ed|float32|False|None|binary|True|e3b0c442',
    'binary/f32_rand/3/dask': 'c041a72f70bf80ed|float32|True|((4, 4, 4, 1), (3, 3, 3, 3, 3, 2))|binary|True|e3b0c442',
    'binary/f32_rand/3/numpy': 'c041a72f70bf80ed|float32|False|None|binary|True|e3b0c442',
    'binary/f32_rand/4/dask': 'c041a72f70bf80ed|float32|True|((4, 4, 4, 1), (3, 3, 3, 3, 3, 2))|binary|True|e3b0c442',
    'binary/f32_rand/4/numpy': 'c041a72f70bf80ed|float32|False|None|binary|True|e3b0c442',
    'binary/f32_ties/0/dask': 'b21155b7556f4af8|float32|True|((4, 4, 1), (3, 3, 3, 2))|binary|True|e3b0c442',
    'binary/f32_ties/0/numpy': 'b21155b7556f4af8|float32|False|None|binary|True|e3b0c442',
    'binary/f32_ties/1/dask': 'c457de66ade86600|float32|True|((4, 4, 1), (3, 3, 3, 2))|binary|True|e3b0c442',
    'binary/f32_ties/1/numpy': 'c457de66ade86600|float32|False|None|binary|True|e3b0c442',
    'binary/f32_ties/2/dask': '5352ea9c086477e4|float32|True|((4, 4, 1), (3, 3, 3, 2))|binary|True|e3b0c442',
    'binary/f32_ties/2/numpy': '5352ea9c086477e4|float32|False|None|binary|True|e3b0c442',
    'binary/f32_ties/3/dask': '4d98027d0244cea0|float32|True|((4, 4, 1), (3, 3, 3, 2))|binary|True|e3b0c442',
    'binary/f32_ties/3/numpy': '4d98027d0244cea0|float32|False|None|binary|True|e3b0c442',
    'binary/f32_ties/4/dask': '523d37acb69d8ecf|float32|True|((4, 4, 1), (3, 3, 3, 2))|binary|True|e3b0c442',
    'binary/f32_ties/4/numpy': '523d37acb69d8ecf|float32|False|None|binary|True|e3b0c442',
    'binary/f64_1x1/0/dask': 'e56288798f789d09|float64|True|((1,), (1,))|binary|True|e3b0c442',
    'binary/f64_1x1/0/numpy': 'e56288798f789d09|float64|False|None|binary|True|e3b0c442',
    'binary/f64_1x1/1/dask': 'e56288798f789d09|float64|True|((1,), (1,))|binary|True|e3b0c442',
    'binary/f64_1x1/1/numpy': 'e56288798f789d09|float64|False|None|binary|True|e3b0c442',
    'binary/f64_1x1/2/dask': 'e56288798f789d09|float64|True|((1,), (1,))|binary|True|e3b0c442',
    'binary/f64_1x1/2/numpy': 'e56288798f789d09|float64|False|None|binary|True|e3b0c442',
    'binary/f64_1x1/3/dask': 'e56288798f789d09|float64|True|((1,), (1,))|binary|True|e3b0c442',
    'binary/f64_1x1/3/numpy': 'e56288798f789d09|float64|False|None|binary|True|e3b0c442',
    'binary/f64_1x1/4/dask': 'e56288798f789d09|float64|True|((1,), (1,))|binary|True|e3b0c442',
    'binary/f64_1x1/4/numpy': 'e56288798f789d09|float64|False|None|binary|True|e3b0c442',
    'binary/f64_1x7/0/dask': '695d853fe4093f80|float64|True|((1,), (3, 3, 1))|binary|True|e3b0c442',
    'binary/f64_1x7/0/numpy': '695d853fe4093f80|float64|False|None|binary|True|e3b0c442',
    'binary/f64_1x7/1/dask': 'ce63b1443d57326b|float64|True|((1,), (3, 3, 1))|binary|True|e3b0c442',
    'binary/f64_1x7/1/numpy': 'ce63b1443d57326b|float64|False|None|binary|True|e3b0c442',
    'binary/f64_1x7/2/dask': 'ce63b1443d57326b|float64|True|((1,), (3, 3, 1))|binary|True|e3b0c442',
    'binary/f64_1x7/2/numpy': 'ce63b1443d57326b|float64|False|None|binary|True|e3b0c442',
    'binary/f64_1x7/3/dask': '6ea960c097fc0789|float64|True|((1,), (3, 3, 1))|binary|True|e3b0c442',
    'binary/f64_1x7/3/numpy': '6ea960c097fc0789|float64|False|None|binary|True|e3b0c442',
    'binary/f64_1x7/4/dask': 'b700822a9818f34f|float64|True|((1,), (3, 3, 1))|binary|True|e3b0c442',
    'binary/f64_1x7/4/numpy': 'b700822a9818f34f|float64|False|None|binary|True|e3b0c442',
    'binary/f64_big/0/dask': 'bab07c2737dee6fd|float64|True|((4, 1), (3, 3, 1))|binary|True|e3b0c442',
    'binary/f64_big/0/numpy': 'bab07c2737dee6fd|float64|False|None|binary|True|e3b0c442',
    'binary/f64_big/1/dask': 'bab07c2737dee6fd|float64|True|((4, 1), (3, 3, 1))|binary|True|e3b0c442',
    'binary/f64_big/1/numpy': 'bab07c2737dee6fd|float64|False|None|binary|True|e3b0c442',
    'binary/f64_big/2/dask': 'bab07c2737dee6fd|float64|True|((4, 1), (3, 3, 1))|binary|True|e3b0c442',
    'binary/f64_big/2/numpy': 'bab07c2737dee6fd|float64|False|None|binary|True|e3b0c442',
    'binary/f64_big/3/dask': 'ad4f3cbe3e55ee5f|float64|True|((4, 1), (3, 3, 1))|binary|True|e3b0c442',
    'binary/f64_big/3/numpy': 'ad4f3cbe3e55ee5f|float64|False|None|binary|True|e3b0c442',
    'binary/f64_big/4/dask': 'bab07c2737dee6fd|float64|True|((4, 1), (3, 3, 1))|binary|True|e3b0c442',
    'binary/f64_big/4/numpy': 'bab07c2737dee6fd|float64|False|None|binary|True|e3b0c442',
    'binary/f64_ramp/0/dask': '3ebd32f725078baf|float64|True|((4, 1), (3, 3, 2))|binary|True|e3b0c442',
    'binary/f64_ramp/0/numpy': '3ebd32f725078baf|float64|False|None|binary|True|e3b0c442',
    'binary/f64_ramp/1/dask': 'cf334bd38e010d57|float64|True|((4, 1), (3, 3, 2))|binary|True|e3b0c442',
    'binary/f64_ramp/1/numpy': 'cf334bd38e010d57|float64|False|None|binary|True|e3b0c442',
    'binary/f64_ramp/2/dask': '36f8287be4f7a8e6|float64|True|((4, 1), (3, 3, 2))|binary|True|e3b0c442',
    'binary/f64_ramp/2/numpy': '36f8287be4f7a8e6|float64|False|None|binary|True|e3b0c442',
    'binary/f64_ramp/3/dask': 'e25b00a663de1026|float64|True|((4, 1), (3, 3, 2))|binary|True|e3b0c442',
    'binary/f64_ramp/3/numpy': 'e25b00a663de1026|float64|False|None|binary|True|e3b0c442',
    'binary/f64_ramp/4/dask': '063958d6ef940ba9|float64|True|((4, 1), (3, 3, 2))|binary|True|e3b0c442',
    'binary/f64_ramp/4/numpy': '063958d6ef940ba9|float64|False|None|binary|True|e3b0c442',
    'binary/f64_rand/0/dask': 'ea32ec46bdab2cf3|float64|True|((4, 4, 4, 1), (3, 3, 3, 3, 3, 2))|binary|True|e3b0c442',
    'binary/f64_rand/0/numpy': 'ea32ec46bdab2cf3|float64|False|None|binary|True|e3b0c442',
    'binary/f64_rand/1/dask': 'ea32ec46bdab2cf3|float64|True|((4, 4, 4, 1), (3, 3, 3, 3, 3, 2))|binary|True|e3b0c442',
    'binary/f64_rand/1/numpy': 'ea32ec46bdab2cf3|float64|False|None|binary|True|e3b0c442',
    'binary/f64_rand/2/dask': 'ea32ec46bdab2cf3|float64|True|((4, 4, 4, 1), (3, 3, 3, 3, 3, 2))|binary|True|e3b0c442',
    'binary/f64_rand/2/numpy': 'ea32ec46bdab2cf3|float64|False|None|binary|True|e3b0c442',
    'binary/f64_rand/3/dask': 'ea32ec46bdab2cf3|float64|True|((4, 4, 4, 1), (3, 3, 3, 3, 3, 2))|binary|True|e3b0c442',
    'binary/f64_rand/3/numpy': 'ea32ec46bdab2cf3|float64|False|None|binary|True|e3b0c442',
    'binary/f64_rand/4/dask': 'ea32ec46bdab2cf3|float64|True|((4, 4, 4, 1), (3, 3, 3, 3, 3, 2))|binary|True|e3b0c442',
    'binary/f64_rand/4/numpy': 'ea32ec46bdab2cf3|float64|False|None|binary|True|e3b0c442',
    'binary/f64_ties/0/dask': '662d617ca74a5f61|float64|True|((4, 4, 1), (3, 3, 3, 2))|binary|True|e3b0c442',
    'binary/f64_ties/0/numpy': '662d617ca74a5f61|float64|False|None|binary|True|e3b0c442',
    'binary/f64_ties/1/dask': '74638cf2e3fe36bd|float64|True|((4, 4, 1), (3, 3, 3, 2))|binary|True|e3b0c442',
    'binary/f64_ties/1/numpy': '74638cf2e3fe36bd|float64|False|None|binary|True|e3b0c442',
    'binary/f64_ties/2/dask': '4a081c4064983546|float64|True|((4, 4, 1), (3, 3, 3, 2))|binary|True|e3b0c442',
    'binary/f64_ties/2/numpy': '4a081c4064983546|float64|False|None|binary|True|e3b0c442',
    'binary/f64_ties/3/dask': 'dfbc8c7383444e97|float64|True|((4, 4, 1), (3, 3, 3, 2))|binary|True|e3b0c442',
    'binary/f64_ties/3/numpy': 'dfbc8c7383444e97|float64|False|None|binary|True|e3b0c442',
    'binary/f64_ties/4/dask': '31a837b7d986b4d6|float64|True|((4, 4, 1), (3, 3, 3, 2))|binary|True|e3b0c442',
    'binary/f64_ties/4/numpy': '31a837b7d986b4d6|float64|False|None|binary|True|e3b0c442',
    'binary/f64_tiny/0/dask': '638ddc38df334e3a|float64|True|((3,), (3, 1))|binary|True|e3b0c442',
    'binary/f64_tiny/0/numpy': '638ddc38df334e3a|float64|False|None|binary|True|e3b0c442',
    'binary/f64_tiny/1/dask': '24603eb2cff4ffd1|float64|True|((3,), (3, 1))|binary|True|e3b0c442',
    'binary/f64_tiny/1/numpy': '24603eb2cff4ffd1|float64|False|None|binary|True|e3b0c442',
    'binary/f64_tiny/2/dask': '24603eb2cff4ffd1|float64|True|((3,), (3, 1))|binary|True|e3b0c442',
    'binary/f64_tiny/2/numpy': '24603eb2cff4ffd1|float64|False|None|binary|True|e3b0c442',
    'binary/f64_tiny/3/dask': '24603eb2cff4ffd1|float64|True|((3,), (3, 1))|binary|True|e3b0c442',
    'binary/f64_tiny/3/numpy': '24603eb2cff4ffd1|float64|False|None|binary|True|e3b0c442',
    'binary/f64_tiny/4/dask': '24603eb2cff4ffd1|float64|True|((3,), (3, 1))|binary|True|e3b0c442',
    'binary/f64_tiny/4/numpy': '24603eb2cff4ffd1|float64|False|None|binary|True|e3b0c442',
    'binary/i32/0/dask': 'a396c1acebc5eff2|int32|True|((4, 3), (3, 2))|binary|True|e3b0c442',
    'binary/i32/0/numpy': 'a396c1acebc5eff2|int32|False|None|binary|True|e3b0c442',
    'binary/i32/1/dask': '3084cfd40dbfb0bf|int32|True|((4, 3), (3, 2))|binary|True|e3b0c442',
    'binary/i32/1/numpy': '3084cfd40dbfb0bf|int32|False|None|binary|True|e3b0c442',
    'binary/i32/2/dask': '3084cfd40dbfb0bf|int32|True|((4, 3), (3, 2))|binary|True|e3b0c442',
    'binary/i32/2/numpy': '3084cfd40dbfb0bf|int32|False|None|binary|True|e3b0c442',
    'binary/i32/3/dask': '9ccb6890d5353580|int32|True|((4, 3), (3, 2))|binary|True|e3b0c442',
    'binary/i32/3/numpy': '9ccb6890d5353580|int32|False|None|binary|True|e3b0c442',
    'binary/i32/4/dask': '131281e6708dd6b7|int32|True|((4, 3), (3, 2))|binary|True|e3b0c442',
    'binary/i32/4/numpy': '131281e6708dd6b7|int32|False|None|binary|True|e3b0c442',
    'binary/i64/0/dask': '81b3d3ecaa3e700a|int64|True|((4, 2), (3, 3, 2))|binary|True|e3b0c442',
    'binary/i64/0/numpy': '81b3d3ecaa3e700a|int64|False|None|binary|True|e3b0c442',
    'binary/i64/1/dask': '81b3d3ecaa3e700a|int64|True|((4, 2), (3, 3, 2))|binary|True|e3b0c442',
    'binary/i64/1/numpy': '81b3d3ecaa3e700a|int64|False|None|binary|True|e3b0c442',
    'binary/i64/2/dask': '81b3d3ecaa3e700a|int64|True|((4, 2), (3, 3, 2))|binary|True|e3b0c442',
    'binary/i64/2/numpy': '81b3d3ecaa3e700a|int64|False|None|binary|True|e3b0c442',
    'binary/i64/3/dask': '81b3d3ecaa3e700a|int64|True|((4, 2), (3, 3, 2))|binary|True|e3b0c442',
    'binary/i64/3/numpy': '81b3d3ecaa3e700a|int64|False|None|binary|True|e3b0c442',
    'binary/i64/4/dask': '81b3d3ecaa3e700a|int64|True|((4, 2), (3, 3, 2))|binary|True|e3b0c442',
    'binary/i64/4/numpy': '81b3d3ecaa3e700a|int64|False|None|binary|True|e3b0c442',
    'defaults/b': 'ea32ec46bdab2cf3|float64|False|None|bb|True|e3b0c442',
    'defaults/e': '6f744b5c72d67575|float32|False|None|ei|True|e3b0c442',
    'defaults/q': '142a5cd7a1a3aec3|float32|False|None|quantile|True|e3b0c442',
    'equal_interval/f32_5x1/2/dask': '3e0d606e51a22827|float32|True|((4, 1), (1,))|equal_interval|True|e3b0c442',
    'equal_interval/f32_5x1/2/numpy': '3e0d606e51a22827|float32|False|None|equal_interval|True|e3b0c442',
    'equal_interval/f32_5x1/3/dask': '73fa0508461bb2d6|float32|True|((4, 1), (1,))|equal_interval|True|e3b0c442',
    'equal_interval/f32_5x1/3/numpy': '73fa0508461bb2d6|float32|False|None|equal_interval|True|e3b0c442',
    'equal_interval/f32_5x1/4/dask': '3a2c666f8298944c|float32|True|((4, 1), (1,))|equal_interval|True|e3b0c442',
    'equal_interval/f32_5x1/4/numpy': '3a2c666f8298944c|float32|False|None|equal_interval|True|e3b0c442',
    'equal_interval/f32_5x1/5/dask': '51c77c071dcbeeef|float32|True|((4, 1), (1,))|equal_interval|True|e3b0c442',
    'equal_interval/f32_5x1/5/numpy': '51c77c071dcbeeef|float32|False|None|equal_interval|True|e3b0c442',
    'equal_interval/f32_5x1/7/dask': '355651376877d538|float32|True|((4, 1), (1,))|equal_interval|True|e3b0c442',
    'equal_interval/f32_5x1/7/numpy': '355651376877d538|float32|False|None|equal_interval|True|e3b0c442',
    'equal_interval/f32_rand/2/dask': '4edc69fb5ab94f68|float32|True|((4, 4, 4, 1), (3, 3, 3, 3, 3, 2))|equal_interval|True|e3b0c442',
    'equal_interval/f32_rand/2/numpy': '4edc69fb5ab94f68|float32|False|None|equal_interval|True|e3b0c442',
    'equal_interval/f32_rand/3/dask': 'dd41fa7ac30db241|float32|True|((4, 4, 4, 1), (3, 3, 3, 3, 3, 2))|equal_interval|True|e3b0c442',
    'equal_interval/f32_rand/3/numpy': 'dd41fa7ac30db241|float32|False|None|equal_interval|True|e3b0c442',
    'equal_interval/f32_rand/4/dask': 'f6afc0bd053df88c|float32|True|((4, 4, 4, 1), (3, 3, 3, 3, 3, 2))|equal_interval|True|e3b0c442',
    'equal_interval/f32_rand/4/numpy': 'f6afc0bd053df88c|float32|False|None|equal_interval|True|e3b0c442',
    'equal_interval/f32_rand/5/dask': '6f744b5c72d67575|float32|True|((4, 4, 4, 1), (3, 3, 3, 3, 3, 2))|equal_interval|True|e3b0c442',
    'equal_interval/f32_rand/5/numpy': '6f744b5c72d67575|float32|False|None|equal_interval|True|e3b0c442',
    'equal_interval/f32_rand/7/dask': '022b110a8a89a5ed|float32|True|((4, 4, 4, 1), (3, 3, 3, 3, 3, 2))|equal_interval|True|e3b0c442',
    'equal_interval/f32_rand/7/numpy': '022b110a8a89a5ed|float32|False|None|equal_interval|True|e3b0c442',
    'equal_interval/f32_ties/2/dask': '38c8260e736f300a|float32|True|((4, 4, 1), (3, 3, 3, 2))|equal_interval|True|e3b0c442',
    'equal_interval/f32_ties/2/numpy': '38c8260e736f300a|float32|False|None|equal_interval|True|e3b0c442',
    'equal_interval/f32_ties/3/dask': '9cc360342ae26208|float32|True|((4, 4, 1), (3, 3, 3, 2))|equal_interval|True|e3b0c442',
    'equal_interval/f32_ties/3/numpy': '9cc360342ae26208|float32|False|None|equal_interval|True|e3b0c442',
    'equal_interval/f32_ties/4/dask': 'daacedb66ff2b358|float32|True|((4, 4, 1), (3, 3, 3, 2))|equal_interval|True|e3b0c442',
    'equal_interval/f32_ties/4/numpy': 'daacedb66ff2b358|float32|False|None|equal_interval|True|e3b0c442',
    'equal_interval/f32_ties/5/dask': 'baf4c5fec32485c6|float32|True|((4, 4, 1), (3, 3, 3, 2))|equal_interval|True|e3b0c442',
    'equal_interval/f32_ties/5/numpy': 'baf4c5fec32485c6|float32|False|None|equal_interval|True|e3b0c442',
    'equal_interval/f32_ties/7/dask': '9e2526a19e0d6a8e|float32|True|((4, 4, 1), (3, 3, 3, 2))|equal_interval|True|e3b0c442',
    'equal_interval/f32_ties/7/numpy': '9e2526a19e0d6a8e|float32|False|None|equal_interval|True|e3b0c442',
    'equal_interval/f64_1x1/2/dask': '5d73d8bac17f2753|float32|True|((1,), (1,))|equal_interval|True|e3b0c442',
    'equal_interval/f64_1x1/2/numpy': 'EXC ValueError:arange: cannot compute length',
    'equal_interval/f64_1x1/3/dask': '5d73d8bac17f2753|float32|True|((1,), (1,))|equal_interval|True|e3b0c442',
    'equal_interval/f64_1x1/3/numpy': 'EXC ValueError:arange: cannot compute length',
    'equal_interval/f64_1x1/4/dask': '5d73d8bac17f2753|float32|True|((1,), (1,))|equal_interval|True|e3b0c442',
    'equal_interval/f64_1x1/4/numpy': 'EXC ValueError:arange: cannot compute length',
    'equal_interval/f64_1x1/5/dask': '5d73d8bac17f2753|float32|True|((1,), (1,))|equal_interval|True|e3b0c442',
    'equal_interval/f64_1x1/5/numpy': 'EXC ValueError:arange: cannot compute length',
    'equal_interval/f64_1x1/7/dask': '5d73d8bac17f2753|float32|True|((1,), (1,))|equal_interval|True|e3b0c442',
    'equal_interval/f64_1x1/7/numpy': 'EXC ValueError:arange: cannot compute length',
    'equal_interval/f64_1x7/2/dask': '7dd0003d4b62fb90|float32|True|((1,), (3, 3, 1))|equal_interval|True|e3b0c442',
    'equal_interval/f64_1x7/2/numpy': '7dd0003d4b62fb90|float32|False|None|equal_interval|True|e3b0c442',
    'equal_interval/f64_1x7/3/dask': '4675e79bf7e96b90|float32|True|((1,), (3, 3, 1))|equal_interval|True|e3b0c442',
    'equal_interval/f64_1x7/3/numpy': '4675e79bf7e96b90|float32|False|None|equal_interval|True|e3b0c442',
    'equal_interval/f64_1x7/4/dask': '3a7c96d7d9dace7d|float32|True|((1,), (3, 3, 1))|equal_interval|True|e3b0c442',
    'equal_interval/f64_1x7/4/numpy': '3a7c96d7d9dace7d|float32|False|None|equal_interval|True|e3b0c442',
    'equal_interval/f64_1x7/5/dask': '6a8eb4f04176fe8c|float32|True|((1,), (3, 3, 1))|equal_interval|True|e3b0c442',
    'equal_interval/f64_1x7/5/numpy': '6a8eb4f04176fe8c|float32|False|None|equal_interval|True|e3b0c442',
    'equal_interval/f64_1x7/7/dask': '8144e6e9537e2b76|float32|True|((1,), (3, 3, 1))|equal_interval|True|e3b0c442',
    'equal_interval/f64_1x7/7/numpy': '8144e6e9537e2b76|float32|False|None|equal_interval|True|e3b0c442',
    'equal_interval/f64_big/2/dask': 'eaeb99e2f2caab24|float32|True|((4, 1), (3, 3, 1))|equal_interval|True|e3b0c442',
    'equal_interval/f64_big/2/numpy': 'eaeb99e2f2caab24|float32|False|None|equal_interval|True|e3b0c442',
    'equal_interval/f64_big/3/dask': '209f5024c532ba66|float32|True|((4, 1), (3, 3, 1))|equal_interval|True|e3b0c442',
    'equal_interval/f64_big/3/numpy': '209f5024c532ba66|float32|False|None|equal_interval|True|e3b0c442',
    'equal_interval/f64_big/4/dask': '117d0a302e1a23ea|float32|True|((4, 1), (3, 3, 1))|equal_interval|True|e3b0c442',
    'equal_interval/f64_big/4/numpy': '117d0a302e1a23ea|float32|False|None|equal_interval|True|e3b0c442',
    'equal_interval/f64_big/5/dask': '37332d4697fb017d|float32|True|((4, 1), (3, 3, 1))|equal_interval|True|e3b0c442',
    'equal_interval/f64_big/5/numpy': '37332d4697fb017d|float32|False|None|equal_interval|True|e3b0c442',
    'equal_interval/f64_big/7/dask': '11acbb14549d699f|float32|True|((4, 1), (3, 3, 1))|equal_interval|True|e3b0c442',
    'equal_interval/f64_big/7/numpy': '11acbb14549d699f|float32|False|None|equal_interval|True|e3b0c442',
    'equal_interval/f64_ramp/2/dask': '546827ff558241cd|float32|True|((4, 1), (3, 3, 2))|equal_interval|True|e3b0c442',
    'equal_interval/f64_ramp/2/numpy': '546827ff558241cd|float32|False|None|equal_interval|True|e3b0c442',
    'equal_interval/f64_ramp/3/dask': '7e4cd246ebc6a2b8|float32|True|((4, 1), (3, 3, 2))|equal_interval|True|e3b0c442',
    'equal_interval/f64_ramp/3/numpy': '7e4cd246ebc6a2b8|float32|False|None|equal_interval|True|e3b0c442',
    'equal_interval/f64_ramp/4/dask': '5dd1c7cb8f433d61|float32|True|((4, 1), (3, 3, 2))|equal_interval|True|e3b0c442',
    'equal_interval/f64_ramp/4/numpy': '5dd1c7cb8f433d61|float32|False|None|equal_interval|True|e3b0c442',
    'equal_interval/f64_ramp/5/dask': 'eb92afb22cd03305|float32|True|((4, 1), (3, 3, 2))|equal_interval|True|e3b0c442',
    'equal_interval/f64_ramp/5/numpy': 'eb92afb22cd03305|float32|False|None|equal_interval|True|e3b0c442',
    'equal_interval/f64_ramp/7/dask': 'bc140164af5a6219|float32|True|((4, 1), (3, 3, 2))|equal_interval|True|e3b0c442',
    'equal_interval/f64_ramp/7/numpy': 'bc140164af5a6219|float32|False|None|equal_interval|True|e3b0c442',
    'equal_interval/f64_rand/2/dask': '4edc69fb5ab94f68|float32|True|((4, 4, 4, 1), (3, 3, 3, 3, 3, 2))|equal_interval|True|e3b0c442',
    'equal_interval/f64_rand/2/numpy': '4edc69fb5ab94f68|float32|False|None|equal_interval|True|e3b0c442',
    'equal_interval/f64_rand/3/dask': 'dd41fa7ac30db241|float32|True|((4, 4, 4, 1), (3, 3, 3, 3, 3, 2))|equal_interval|True|e3b0c442',
    'equal_interval/f64_rand/3/numpy': 'dd41fa7ac30db241|float32|False|None|equal_interval|True|e3b0c442',
    'equal_interval/f64_rand/4/dask': 'f6afc0bd053df88c|float32|True|((4, 4, 4, 1), (3, 3, 3, 3, 3, 2))|equal_interval|True|e3b0c442',
    'equal_interval/f64_rand/4/numpy': 'f6afc0bd053df88c|float32|False|None|equal_interval|True|e3b0c442',
    'equal_interval/f64_rand/5/dask': '6f744b5c72d67575|float32|True|((4, 4, 4, 1), (3, 3, 3, 3, 3, 2))|equal_interval|True|e3b0c442',
    'equal_interval/f64_rand/5/numpy': '6f744b5c72d67575|float32|False|None|equal_interval|True|e3b0c442',
    'equal_interval/f64_rand/7/dask': '022b110a8a89a5ed|float32|True|((4, 4, 4, 1), (3, 3, 3, 3, 3, 2))|equal_interval|True|e3b0c442',
    'equal_interval/f64_rand/7/numpy': '022b110a8a89a5ed|float32|False|None|equal_interval|True|e3b0c442',
    'equal_interval/f64_ties/2/dask': '38c8260e736f300a|float32|True|((4, 4, 1), (3, 3, 3, 2))|equal_interval|True|e3b0c442',
    'equal_interval/f64_ties/2/numpy': '38c8260e736f300a|float32|False|None|equal_interval|True|e3b0c442',
    'equal_interval/f64_ties/3/dask': '9cc360342ae26208|float32|True|((4, 4, 1), (3, 3, 3, 2))|equal_interval|True|e3b0c442',
    'equal_interval/f64_ties/3/numpy': '9cc360342ae26208|float32|False|None|equal_interval|True|e3b0c442',
    'equal_interval/f64_ties/4/dask': 'daacedb66ff2b358|float32|True|((4, 4, 1), (3, 3, 3, 2))|equal_interval|True|e3b0c442',
    'equal_interval/f64_ties/4/numpy': 'daacedb66ff2b358|float32|False|None|equal_interval|True|e3b0c442',
    'equal_interval/f64_ties/5/dask': 'baf4c5fec32485c6|float32|True|((4, 4, 1), (3, 3, 3, 2))|equal_interval|True|e3b0c442',
    'equal_interval/f64_ties/5/numpy': 'baf4c5fec32485c6|float32|False|None|equal_interval|True|e3b0c442',
    'equal_interval/f64_ties/7/dask': '9e2526a19e0d6a8e|float32|True|((4, 4, 1), (3, 3, 3, 2))|equal_interval|True|e3b0c442',
    'equal_interval/f64_ties/7/numpy': '9e2526a19e0d6a8e|float32|False|None|equal_interval|True|e3b0c442',
    'equal_interval/f64_tiny/2/dask': '0b0e3ba93d42d95a|float32|True|((3,), (3, 1))|equal_interval|True|e3b0c442',
    'equal_interval/f64_tiny/2/numpy': '0b0e3ba93d42d95a|float32|False|None|equal_interval|True|e3b0c442',
    'equal_interval/f64_tiny/3/dask': '1210950ba3a565d9|float32|True|((3,), (3, 1))|equal_interval|True|e3b0c442',
    'equal_interval/f64_tiny/3/numpy': '1210950ba3a565d9|float32|False|None|equal_interval|True|e3b0c442',
    'equal_interval/f64_tiny/4/dask': 'b044ae55fb5731d8|float32|True|((3,), (3, 1))|equal_interval|True|e3b0c442',
    'equal_interval/f64_tiny/4/numpy': 'b044ae55fb5731d8|float32|False|None|equal_interval|True|e3b0c442',
    'equal_interval/f64_tiny/5/dask': 'a199fa21dc1a1db5|float32|True|((3,), (3, 1))|equal_interval|True|e3b0c442',
    'equal_interval/f64_tiny/5/numpy': 'a199fa21dc1a1db5|float32|False|None|equal_interval|True|e3b0c442',
    'equal_interval/f64_tiny/7/dask': 'a367bd4ec6a0cbfa|float32|True|((3,), (3, 1))|equal_interval|True|e3b0c442',
    'equal_interval/f64_tiny/7/numpy': 'a367bd4ec6a0cbfa|float32|False|None|equal_interval|True|e3b0c442',
    'equal_interval/i32/2/dask': '1f4011e83ebce122|float32|True|((4, 3), (3, 2))|equal_interval|True|e3b0c442',
    'equal_interval/i32/2/numpy': '1f4011e83ebce122|float32|False|None|equal_interval|True|e3b0c442',
    'equal_interval/i32/3/dask': 'ad2a56400f619f5f|float32|True|((4, 3), (3, 2))|equal_interval|True|e3b0c442',
    'equal_interval/i32/3/numpy': 'ad2a56400f619f5f|float32|False|None|equal_interval|True|e3b0c442',
    'equal_interval/i32/4/dask': '0551c08858190974|float32|True|((4, 3), (3, 2))|equal_interval|True|e3b0c442',
    'equal_interval/i32/4/numpy': '0551c08858190974|float32|False|None|equal_interval|True|e3b0c442',
    'equal_interval/i32/5/dask': '9580a98bce7f7b66|float32|True|((4, 3), (3, 2))|equal_interval|True|e3b0c442',
    'equal_interval/i32/5/numpy': '9580a98bce7f7b66|float32|False|None|equal_interval|True|e3b0c442',
    'equal_interval/i32/7/dask': '44bfdfbe1199563d|float32|True|((4, 3), (3, 2))|equal_interval|True|e3b0c442',
    'equal_interval/i32/7/numpy': '44bfdfbe1199563d|float32|False|None|equal_interval|True|e3b0c442',
    'equal_interval/i64/2/dask': '519565f86ac53b3e|float32|True|((4, 2), (3, 3, 2))|equal_interval|True|e3b0c442',
    'equal_interval/i64/2/numpy': '519565f86ac53b3e|float32|False|None|equal_interval|True|e3b0c442',
    'equal_interval/i64/3/dask': 'a631177147c6fa96|float32|True|((4, 2), (3, 3, 2))|equal_interval|True|e3b0c442',
    'equal_interval/i64/3/numpy': 'a631177147c6fa96|float32|False|None|equal_interval|True|e3b0c442',
    'equal_interval/i64/4/dask': '0793a21baa93f335|float32|True|((4, 2), (3, 3, 2))|equal_interval|True|e3b0c442',
    'equal_interval/i64/4/numpy': '0793a21baa93f335|float32|False|None|equal_interval|True|e3b0c442',
    'equal_interval/i64/5/dask': 'b9d7b918cd141fd1|float32|True|((4, 2), (3, 3, 2))|equal_interval|True|e3b0c442',
    'equal_interval/i64/5/numpy': 'b9d7b918cd141fd1|float32|False|None|equal_interval|True|e3b0c442',
    'equal_interval/i64/7/dask': 'c9f66caef75fb856|float32|True|((4, 2), (3, 3, 2))|equal_interval|True|e3b0c442',
    'equal_interval/i64/7/numpy': 'c9f66caef75fb856|float32|False|None|equal_interval|True|e3b0c442',
    'natural_breaks/dask': 'EXC NotImplementedError:natural_breaks() does not support dask with numpy backed DataArray.',
    'natural_breaks/f32_5x1/2': '3e0d606e51a22827|float32|False|None|natural_breaks|True|e3b0c442',
    'natural_breaks/f32_5x1/3': '85b34a8c16e8b51f|float32|False|None|natural_breaks|True|e3b0c442',
    'natural_breaks/f32_5x1/4': '85b34a8c16e8b51f|float32|False|None|natural_breaks|True|cc828063',
    'natural_breaks/f32_5x1/5': '85b34a8c16e8b51f|float32|False|None|natural_breaks|True|bc353490',
    'natural_breaks/f32_5x1/7': '85b34a8c16e8b51f|float32|False|None|natural_breaks|True|ce4ed63b',
    'natural_breaks/f32_rand/2': '9cbe40da4f1fdacb|float32|False|None|natural_breaks|True|e3b0c442',
    'natural_breaks/f32_rand/3': 'efc7cd496138e448|float32|False|None|natural_breaks|True|e3b0c442',
    'natural_breaks/f32_rand/4': 'e583441afeb73708|float32|False|None|natural_breaks|True|e3b0c442',
    'natural_breaks/f32_rand/5': '619a6ce1b60f4e75|float32|False|None|natural_breaks|True|e3b0c442',
    'natural_breaks/f32_rand/7': '8b317e9bc39c6f76|float32|False|None|natural_breaks|True|e3b0c442',
    'natural_breaks/f32_ties/2': '38c8260e736f300a|float32|False|None|natural_breaks|True|e3b0c442',
    'natural_breaks/f32_ties/3': '9cc360342ae26208|float32|False|None|natural_breaks|True|e3b0c442',
    'natural_breaks/f32_ties/4': 'e8f0866dea64e226|float32|False|None|natural_breaks|True|e3b0c442',
    'natural_breaks/f32_ties/5': 'a7a481790d6d5ed4|float32|False|None|natural_breaks|True|e3b0c442',
    'natural_breaks/f32_ties/7': '4a7b289627e0e975|float32|False|None|natural_breaks|True|5c396ff8',
    'natural_breaks/f64_1x1/2': '5d73d8bac17f2753|float32|False|None|natural_breaks|True|e78cd8a1',
    'natural_breaks/f64_1x1/3': '5d73d8bac17f2753|float32|False|None|natural_breaks|True|d33b6ae5',
    'natural_breaks/f64_1x1/4': '5d73d8bac17f2753|float32|False|None|natural_breaks|True|30420618',
    'natural_breaks/f64_1x1/5': '5d73d8bac17f2753|float32|False|None|natural_breaks|True|159379ce',
    'natural_breaks/f64_1x1/7': '5d73d8bac17f2753|float32|False|None|natural_breaks|True|3de78a15',
    'natural_breaks/f64_1x7/2': '7dd0003d4b62fb90|float32|False|None|natural_breaks|True|e3b0c442',
    'natural_breaks/f64_1x7/3': '4675e79bf7e96b90|float32|False|None|natural_breaks|True|e3b0c442',
    'natural_breaks/f64_1x7/4': 'e8b0167871c00262|float32|False|None|natural_breaks|True|e3b0c442',
    'natural_breaks/f64_1x7/5': 'e8b0167871c00262|float32|False|None|natural_breaks|True|809d3bcc',
    'natural_breaks/f64_1x7/7': 'e8b0167871c00262|float32|False|None|natural_breaks|True|592366a4',
    'natural_breaks/f64_big/2': 'eaeb99e2f2caab24|float32|False|None|natural_breaks|True|e3b0c442',
    'natural_breaks/f64_big/3': '2b7a6d6c53f0f97c|float32|False|None|natural_breaks|True|e3b0c442',
    'natural_breaks/f64_big/4': 'bcd6245124ce8d24|float32|False|None|natural_breaks|True|e3b0c442',
    'natural_breaks/f64_big/5': '7543f315d0696562|float32|False|None|natural_breaks|True|e3b0c442',
    'natural_breaks/f64_big/7': '30860f8b97b67f7d|float32|False|None|natural_breaks|True|e3b0c442',
    'natural_breaks/f64_ramp/2': '546827ff558241cd|float32|False|None|natural_breaks|True|e3b0c442',
    'natural_breaks/f64_ramp/3': '0a0995c62d5f7e9a|float32|False|None|natural_breaks|True|e3b0c442',
    'natural_breaks/f64_ramp/4': '5dd1c7cb8f433d61|float32|False|None|natural_breaks|True|e3b0c442',
    'natural_breaks/f64_ramp/5': 'eb92afb22cd03305|float32|False|None|natural_breaks|True|e3b0c442',
    'natural_breaks/f64_ramp/7': '8db1226bbe21baeb|float32|False|None|natural_breaks|True|e3b0c442',
    'natural_breaks/f64_rand/2': '9cbe40da4f1fdacb|float32|False|None|natural_breaks|True|e3b0c442',
    'natural_breaks/f64_rand/3': 'efc7cd496138e448|float32|False|None|natural_breaks|True|e3b0c442',
    'natural_breaks/f64_rand/4': 'e583441afeb73708|float32|False|None|natural_breaks|True|e3b0c442',
    'natural_breaks/f64_rand/5': '619a6ce1b60f4e75|float32|False|None|natural_breaks|True|e3b0c442',
    'natural_breaks/f64_rand/7': '8b317e9bc39c6f76|float32|False|None|natural_breaks|True|e3b0c442',
    'natural_breaks/f64_ties/2': '38c8260e736f300a|float32|False|None|natural_breaks|True|e3b0c442',
    'natural_breaks/f64_ties/3': '9cc360342ae26208|float32|False|None|natural_breaks|True|e3b0c442',
    'natural_breaks/f64_ties/4': 'e8f0866dea64e226|float32|False|None|natural_breaks|True|e3b0c442',
    'natural_breaks/f64_ties/5': 'a7a481790d6d5ed4|float32|False|None|natural_breaks|True|e3b0c442',
    'natural_breaks/f64_ties/7': '4a7b289627e0e975|float32|False|None|natural_breaks|True|5c396ff8',
    'natural_breaks/f64_tiny/2': 'a347e0388caf023e|float32|False|None|natural_breaks|True|e3b0c442',
    'natural_breaks/f64_tiny/3': 'fd04be91b2b25054|float32|False|None|natural_breaks|True|e3b0c442',
    'natural_breaks/f64_tiny/4': '02c7ad131efe2849|float32|False|None|natural_breaks|True|e3b0c442',
    'natural_breaks/f64_tiny/5': '1ea8f59bef4f91a9|float32|False|None|natural_breaks|True|e3b0c442',
    'natural_breaks/f64_tiny/7': '24104b557d722d9f|float32|False|None|natural_breaks|True|e3b0c442',
    'natural_breaks/i32/2': '1f4011e83ebce122|float32|False|None|natural_breaks|True|e3b0c442',
    'natural_breaks/i32/3': '963b4ad7c29b8a99|float32|False|None|natural_breaks|True|e3b0c442',
    'natural_breaks/i32/4': '0551c08858190974|float32|False|None|natural_breaks|True|e3b0c442',
    'natural_breaks/i32/5': '6ea322dc03a0b81d|float32|False|None|natural_breaks|True|e3b0c442',
    'natural_breaks/i32/7': '3ff8e9b05e062f9a|float32|False|None|natural_breaks|True|e3b0c442',
    'natural_breaks/i64/2': '519565f86ac53b3e|float32|False|None|natural_breaks|True|e3b0c442',
    'natural_breaks/i64/3': '44f3e4a2de14bcfd|float32|False|None|natural_breaks|True|e3b0c442',
    'natural_breaks/i64/4': '0ea5986dc25ff0b4|float32|False|None|natural_breaks|True|e3b0c442',
    'natural_breaks/i64/5': 'c20d72dcc5181571|float32|False|None|natural_breaks|True|e3b0c442',
    'natural_breaks/i64/7': 'd22aec21edf50b55|float32|False|None|natural_breaks|True|e3b0c442',
    'natural_breaks_n/f32_5x1/2': '3e0d606e51a22827|float32|False|None|nb|True|e3b0c442',
    'natural_breaks_n/f32_5x1/3': '85b34a8c16e8b51f|float32|False|None|nb|True|e3b0c442',
    'natural_breaks_n/f32_5x1/4': '85b34a8c16e8b51f|float32|False|None|nb|True|cc828063',
    'natural_breaks_n/f32_5x1/5': '85b34a8c16e8b51f|float32|False|None|nb|True|bc353490',
    'natural_breaks_n/f32_5x1/7': '85b34a8c16e8b51f|float32|False|None|nb|True|ce4ed63b',
    'natural_breaks_n/f32_rand/2': '9cbe40da4f1fdacb|float32|False|None|nb|True|e3b0c442',
    'natural_breaks_n/f32_rand/3': 'efc7cd496138e448|float32|False|None|nb|True|e3b0c442',
    'natural_breaks_n/f32_rand/4': 'e583441afeb73708|float32|False|None|nb|True|e3b0c442',
    'natural_breaks_n/f32_rand/5': '619a6ce1b60f4e75|float32|False|None|nb|True|e3b0c442',
    'natural_breaks_n/f32_rand/7': '8b317e9bc39c6f76|float32|False|None|nb|True|e3b0c442',
    'natural_breaks_n/f32_ties/2': '38c8260e736f300a|float32|False|None|nb|True|e3b0c442',
    'natural_breaks_n/f32_ties/3': '9cc360342ae26208|float32|False|None|nb|True|e3b0c442',
    'natural_breaks_n/f32_ties/4': 'e8f0866dea64e226|float32|False|None|nb|True|e3b0c442',
    'natural_breaks_n/f32_ties/5': 'a7a481790d6d5ed4|float32|False|None|nb|True|e3b0c442',
    'natural_breaks_n/f32_ties/7': '4a7b289627e0e975|float32|False|None|nb|True|5c396ff8',
    'natural_breaks_n/f64_1x1/2': '5d73d8bac17f2753|float32|False|None|nb|True|e78cd8a1',
    'natural_breaks_n/f64_1x1/3': '5d73d8bac17f2753|float32|False|None|nb|True|d33b6ae5',
    'natural_breaks_n/f64_1x1/4': '5d73d8bac17f2753|float32|False|None|nb|True|30420618',
    'natural_breaks_n/f64_1x1/5': '5d73d8bac17f2753|float32|False|None|nb|True|159379ce',
    'natural_breaks_n/f64_1x1/7': '5d73d8bac17f2753|float32|False|None|nb|True|3de78a15',
    'natural_breaks_n/f64_1x7/2': '7dd0003d4b62fb90|float32|False|None|nb|True|e3b0c442',
    'natural_breaks_n/f64_1x7/3': '4675e79bf7e96b90|float32|False|None|nb|True|e3b0c442',
    'natural_breaks_n/f64_1x7/4': 'e8b0167871c00262|float32|False|None|nb|True|e3b0c442',
    'natural_breaks_n/f64_1x7/5': 'e8b0167871c00262|float32|False|None|nb|True|809d3bcc',
    'natural_breaks_n/f64_1x7/7': 'e8b0167871c00262|float32|False|None|nb|True|592366a4',
    'natural_breaks_n/f64_big/2': 'eaeb99e2f2caab24|float32|False|None|nb|True|e3b0c442',
    'natural_breaks_n/f64_big/3': '2b7a6d6c53f0f97c|float32|False|None|nb|True|e3b0c442',
    'natural_breaks_n/f64_big/4': 'bcd6245124ce8d24|float32|False|None|nb|True|e3b0c442',
    'natural_breaks_n/f64_big/5': '7543f315d0696562|float32|False|None|nb|True|e3b0c442',
    'natural_breaks_n/f64_big/7': '30860f8b97b67f7d|float32|False|None|nb|True|e3b0c442',
    'natural_breaks_n/f64_ramp/2': '546827ff558241cd|float32|False|None|nb|True|e3b0c442',
    'natural_breaks_n/f64_ramp/3': '0a0995c62d5f7e9a|float32|False|None|nb|True|e3b0c442',
    'natural_breaks_n/f64_ramp/4': '5dd1c7cb8f433d61|float32|False|None|nb|True|e3b0c442',
    'natural_breaks_n/f64_ramp/5': 'eb92afb22cd03305|float32|False|None|nb|True|e3b0c442',
    'natural_breaks_n/f64_ramp/7': '8db1226bbe21baeb|float32|False|None|nb|True|e3b0c442',
    'natural_breaks_n/f64_rand/2': '9cbe40da4f1fdacb|float32|False|None|nb|True|e3b0c442',
    'natural_breaks_n/f64_rand/3': 'efc7cd496138e448|float32|False|None|nb|True|e3b0c442',
    'natural_breaks_n/f64_rand/4': 'e583441afeb73708|float32|False|None|nb|True|e3b0c442',
    'natural_breaks_n/f64_rand/5': '619a6ce1b60f4e75|float32|False|None|nb|True|e3b0c442',
    'natural_breaks_n/f64_rand/7': '8b317e9bc39c6f76|float32|False|None|nb|True|e3b0c442',
    'natural_breaks_n/f64_ties/2': '38c8260e736f300a|float32|False|None|nb|True|e3b0c442',
    'natural_breaks_n/f64_ties/3': '9cc360342ae26208|float32|False|None|nb|True|e3b0c442',
    'natural_breaks_n/f64_ties/4': 'e8f0866dea64e226|float32|False|None|nb|True|e3b0c442',
    'natural_breaks_n/f64_ties/5': 'a7a481790d6d5ed4|float32|False|None|nb|True|e3b0c442',
    'natural_breaks_n/f64_ties/7': '4a7b289627e0e975|float32|False|None|nb|True|5c396ff8',
    'natural_breaks_n/f64_tiny/2': 'a347e0388caf023e|float32|False|None|nb|True|e3b0c442',
    'natural_breaks_n/f64_tiny/3': 'fd04be91b2b25054|float32|False|None|nb|True|e3b0c442',
    'natural_breaks_n/f64_tiny/4': '02c7ad131efe2849|float32|False|None|nb|True|e3b0c442',
    'natural_breaks_n/f64_tiny/5': '1ea8f59bef4f91a9|float32|False|None|nb|True|e3b0c442',
    'natural_breaks_n/f64_tiny/7': '24104b557d722d9f|float32|False|None|nb|True|e3b0c442',
    'natural_breaks_n/i32/2': '1f4011e83ebce122|float32|False|None|nb|True|e3b0c442',
    'natural_breaks_n/i32/3': '963b4ad7c29b8a99|float32|False|None|nb|True|e3b0c442',
    'natural_breaks_n/i32/4': '0551c08858190974|float32|False|None|nb|True|e3b0c442',
    'natural_breaks_n/i32/5': '6ea322dc03a0b81d|float32|False|None|nb|True|e3b0c442',
    'natural_breaks_n/i32/7': '3ff8e9b05e062f9a|float32|False|None|nb|True|e3b0c442',
    'natural_breaks_n/i64/2': '519565f86ac53b3e|float32|False|None|nb|True|e3b0c442',
    'natural_breaks_n/i64/3': '44f3e4a2de14bcfd|float32|False|None|nb|True|e3b0c442',
    'natural_breaks_n/i64/4': '0ea5986dc25ff0b4|float32|False|None|nb|True|e3b0c442',
    'natural_breaks_n/i64/5': 'c20d72dcc5181571|float32|False|None|nb|True|e3b0c442',
    'natural_breaks_n/i64/7': 'd22aec21edf50b55|float32|False|None|nb|True|e3b0c442',
    'natural_breaks_s/f32_5x1/2': '3e0d606e51a22827|float32|False|None|natural_breaks|True|e3b0c442',
    'natural_breaks_s/f32_5x1/3': '85b34a8c16e8b51f|float32|False|None|natural_breaks|True|e3b0c442',
    'natural_breaks_s/f32_5x1/4': '85b34a8c16e8b51f|float32|False|None|natural_breaks|True|cc828063',
    'natural_breaks_s/f32_5x1/5': '85b34a8c16e8b51f|float32|False|None|natural_breaks|True|bc353490',
    'natural_breaks_s/f32_5x1/7': '85b34a8c16e8b51f|float32|False|None|natural_breaks|True|ce4ed63b',
    'natural_breaks_s/f32_rand/2': 'ec90e5e4ef8ef14c|float32|False|None|natural_breaks|True|e3b0c442',
    'natural_breaks_s/f32_rand/3': '4f0259c487d77fbf|float32|False|None|natural_breaks|True|e3b0c442',
    'natural_breaks_s/f32_rand/4': '2084ddd019d83bc5|float32|False|None|natural_breaks|True|e3b0c442',
    'natural_breaks_s/f32_rand/5': 'f54ec89f3ed27576|float32|False|None|natural_breaks|True|e3b0c442',
    'natural_breaks_s/f32_rand/7': '20459176dcd536ff|float32|False|None|natural_breaks|True|e3b0c442',
    'natural_breaks_s/f32_ties/2': '38c8260e736f300a|float32|False|None|natural_breaks|True|e3b0c442',
    'natural_breaks_s/f32_ties/3': '9cc360342ae26208|float32|False|None|natural_breaks|True|e3b0c442',
    'natural_breaks_s/f32_ties/4': '0fe58d745275c60e|float32|False|None|natural_breaks|True|e3b0c442',
    'natural_breaks_s/f32_ties/5': '69d5b9dbb62c3ba3|float32|False|None|natural_breaks|True|e3b0c442',
    'natural_breaks_s/f32_ties/7': '4a7b289627e0e975|float32|False|None|natural_breaks|True|5c396ff8',
    'natural_breaks_s/f64_1x1/2': '5d73d8bac17f2753|float32|False|None|natural_breaks|True|e78cd8a1',
    'natural_breaks_s/f64_1x1/3': '5d73d8bac17f2753|float32|False|None|natural_breaks|True|d33b6ae5',
    'natural_breaks_s/f64_1x1/4': '5d73d8bac17f2753|float32|False|None|natural_breaks|True|30420618',
    'natural_breaks_s/f64_1x1/5': '5d73d8bac17f2753|float32|False|None|natural_breaks|True|159379ce',
    'natural_breaks_s/f64_1x1/7': '5d73d8bac17f2753|float32|False|None|natural_breaks|True|3de78a15',
    'natural_breaks_s/f64_1x7/2': '7dd0003d4b62fb90|float32|False|None|natural_breaks|True|e3b0c442',
    'natural_breaks_s/f64_1x7/3': '4675e79bf7e96b90|float32|False|None|natural_breaks|True|e3b0c442',
    'natural_breaks_s/f64_1x7/4': 'e8b0167871c00262|float32|False|None|natural_breaks|True|e3b0c442',
    'natural_breaks_s/f64_1x7/5': 'e8b0167871c00262|float32|False|None|natural_breaks|True|809d3bcc',
    'natural_breaks_s/f64_1x7/7': 'e8b0167871c00262|float32|False|None|natural_breaks|True|592366a4',
    'natural_breaks_s/f64_big/2': 'c086ea58066cea1d|float32|False|None|natural_breaks|True|e3b0c442',
    'natural_breaks_s/f64_big/3': '9018c770f250f25f|float32|False|None|natural_breaks|True|e3b0c442',
    'natural_breaks_s/f64_big/4': 'a4405f3e2f25f4e8|float32|False|None|natural_breaks|True|e3b0c442',
    'natural_breaks_s/f64_big/5': '0d34a69325286c36|float32|False|None|natural_breaks|True|e3b0c442',
    'natural_breaks_s/f64_big/7': '03bff877304da32c|float32|False|None|natural_breaks|True|e3b0c442',
    'natural_breaks_s/f64_ramp/2': '692f793e92609304|float32|False|None|natural_breaks|True|e3b0c442',
    'natural_breaks_s/f64_ramp/3': '29af7425b44053a0|float32|False|None|natural_breaks|True|e3b0c442',
    'natural_breaks_s/f64_ramp/4': 'baac592a4271c8c5|float32|False|None|natural_breaks|True|e3b0c442',
    'natural_breaks_s/f64_ramp/5': 'b4ccd1fb363ae586|float32|False|None|natural_breaks|True|e3b0c442',
    'natural_breaks_s/f64_ramp/7': '99043f47f0ea8c3d|float32|False|None|natural_breaks|True|e3b0c442',
    'natural_breaks_s/f64_rand/2': 'ec90e5e4ef8ef14c|float32|False|None|natural_breaks|True|e3b0c442',
    'natural_breaks_s/f64_rand/3': '4f0259c487d77fbf|float32|False|None|natural_breaks|True|e3b0c442',
    'natural_breaks_s/f64_rand/4': '2084ddd019d83bc5|float32|False|None|natural_breaks|True|e3b0c442',
    'natural_breaks_s/f64_rand/5': 'f54ec89f3ed27576|float32|False|None|natural_breaks|True|e3b0c442',
    'natural_breaks_s/f64_rand/7': '20459176dcd536ff|float32|False|None|natural_breaks|True|e3b0c442',
    'natural_breaks_s/f64_ties/2': '38c8260e736f300a|float32|False|None|natural_breaks|True|e3b0c442',
    'natural_breaks_s/f64_ties/3': '9cc360342ae26208|float32|False|None|natural_breaks|True|e3b0c442',
    'natural_breaks_s/f64_ties/4': '0fe58d745275c60e|float32|False|None|natural_breaks|True|e3b0c442',
    'natural_breaks_s/f64_ties/5': '69d5b9dbb62c3ba3|float32|False|None|natural_breaks|True|e3b0c442',
    'natural_breaks_s/f64_ties/7': '4a7b289627e0e975|float32|False|None|natural_breaks|True|5c396ff8',
    'natural_breaks_s/f64_tiny/2': 'a347e0388caf023e|float32|False|None|natural_breaks|True|e3b0c442',
    'natural_breaks_s/f64_tiny/3': 'fd04be91b2b25054|float32|False|None|natural_breaks|True|e3b0c442',
    'natural_breaks_s/f64_tiny/4': '02c7ad131efe2849|float32|False|None|natural_breaks|True|e3b0c442',
    'natural_breaks_s/f64_tiny/5': '1ea8f59bef4f91a9|float32|False|None|natural_breaks|True|e3b0c442',
    'natural_breaks_s/f64_tiny/7': '24104b557d722d9f|float32|False|None|natural_breaks|True|e3b0c442',
    'natural_breaks_s/i32/2': '6d78fadab08a6c4a|float32|False|None|natural_breaks|True|e3b0c442',
    'natural_breaks_s/i32/3': '5f9b9530ccd4fd47|float32|False|None|natural_breaks|True|e3b0c442',
    'natural_breaks_s/i32/4': 'c68922d06aa2b9b9|float32|False|None|natural_breaks|True|e3b0c442',
    'natural_breaks_s/i32/5': '6303286724184088|float32|False|None|natural_breaks|True|e3b0c442',
    'natural_breaks_s/i32/7': 'ae1bbb393d1a6392|float32|False|None|natural_breaks|True|e3b0c442',
    'natural_breaks_s/i64/2': '6f680d44b7b12b25|float32|False|None|natural_breaks|True|e3b0c442',
    'natural_breaks_s/i64/3': 'acf5611b9ef481c3|float32|False|None|natural_breaks|True|e3b0c442',
    'natural_breaks_s/i64/4': '58a5c43ab06d1180|float32|False|None|natural_breaks|True|e3b0c442',
    'natural_breaks_s/i64/5': '9f0fa5f7ff8e4ff9|float32|False|None|natural_breaks|True|e3b0c442',
    'natural_breaks_s/i64/7': '0c26f26ef3f8153a|float32|False|None|natural_breaks|True|e3b0c442',
    'quantile/f32_5x1/2/dask': '3e0d606e51a22827|float32|True|((4, 1), (1,))|quantile|True|e3b0c442',
    'quantile/f32_5x1/2/numpy': '3e0d606e51a22827|float32|False|None|quantile|True|e3b0c442',
    'quantile/f32_5x1/3/dask': '73fa0508461bb2d6|float32|True|((4, 1), (1,))|quantile|True|e3b0c442',
    'quantile/f32_5x1/3/numpy': '3e0d606e51a22827|float32|False|None|quantile|True|34050782',
    'quantile/f32_5x1/4/dask': '9590befb9f26960b|float32|True|((4, 1), (1,))|quantile|True|e3b0c442',
    'quantile/f32_5x1/4/numpy': '9590befb9f26960b|float32|False|None|quantile|True|e3b0c442',
    'quantile/f32_5x1/5/dask': '51c77c071dcbeeef|float32|True|((4, 1), (1,))|quantile|True|e3b0c442',
    'quantile/f32_5x1/5/numpy': '9590befb9f26960b|float32|False|None|quantile|True|a44edd30',
    'quantile/f32_5x1/7/dask': 'cf35858c08d54214|float32|True|((4, 1), (1,))|quantile|True|e3b0c442',
    'quantile/f32_5x1/7/numpy': 'c3ce0fbb57f2b9ec|float32|False|None|quantile|True|064e0297',
    'quantile/f32_rand/2/dask': '7494183e8c4ef5e6|float32|True|((4, 4, 4, 1), (3, 3, 3, 3, 3, 2))|quantile|True|e3b0c442',
    'quantile/f32_rand/2/numpy': '65195981a0545594|float32|False|None|quantile|True|e3b0c442',
    'quantile/f32_rand/3/dask': 'ab8f0db26c3b9beb|float32|True|((4, 4, 4, 1), (3, 3, 3, 3, 3, 2))|quantile|True|e3b0c442',
    'quantile/f32_rand/3/numpy': 'de68754b73087d55|float32|False|None|quantile|True|e3b0c442',
    'quantile/f32_rand/4/dask': 'd27a2708efa8b23b|float32|True|((4, 4, 4, 1), (3, 3, 3, 3, 3, 2))|quantile|True|e3b0c442',
    'quantile/f32_rand/4/numpy': '142a5cd7a1a3aec3|float32|False|None|quantile|True|e3b0c442',
    'quantile/f32_rand/5/dask': '749a423859556d73|float32|True|((4, 4, 4, 1), (3, 3, 3, 3, 3, 2))|quantile|True|e3b0c442',
    'quantile/f32_rand/5/numpy': 'e38beeefbac8de35|float32|False|None|quantile|True|e3b0c442',
    'quantile/f32_rand/7/dask': 'bee6eed3fd76b941|float32|True|((4, 4, 4, 1), (3, 3, 3, 3, 3, 2))|quantile|True|e3b0c442',
    'quantile/f32_rand/7/numpy': '7b838f3c50e05b8b|float32|False|None|quantile|True|e3b0c442',
    'quantile/f32_ties/2/dask': '38aa6a0927b775e6|float32|True|((4, 4, 1), (3, 3, 3, 2))|quantile|True|e3b0c442',
    'quantile/f32_ties/2/numpy': '55d8c402c664f865|float32|False|None|quantile|True|e3b0c442',
    'quantile/f32_ties/3/dask': '22656ee66db0232c|float32|True|((4, 4, 1), (3, 3, 3, 2))|quantile|True|e3b0c442',
    'quantile/f32_ties/3/numpy': '22656ee66db0232c|float32|False|None|quantile|True|e3b0c442',
    'quantile/f32_ties/4/dask': 'e485fd421960335c|float32|True|((4, 4, 1), (3, 3, 3, 2))|quantile|True|e3b0c442',
    'quantile/f32_ties/4/numpy': '1da2a949969fbf1a|float32|False|None|quantile|True|e3b0c442',
    'quantile/f32_ties/5/dask': '9cd15e0c78ebe723|float32|True|((4, 4, 1), (3, 3, 3, 2))|quantile|True|e3b0c442',
    'quantile/f32_ties/5/numpy': '30e0024fabbe5d20|float32|False|None|quantile|True|a44edd30',
    'quantile/f32_ties/7/dask': '88c41563dc7b8ced|float32|True|((4, 4, 1), (3, 3, 3, 2))|quantile|True|e3b0c442',
    'quantile/f32_ties/7/numpy': '4a7b289627e0e975|float32|False|None|quantile|True|064e0297',
    'quantile/f64_1x1/2/dask': '5d73d8bac17f2753|float32|True|((1,), (1,))|quantile|True|e3b0c442',
    'quantile/f64_1x1/2/numpy': '5d73d8bac17f2753|float32|False|None|quantile|True|07148b24',
    'quantile/f64_1x1/3/dask': '5d73d8bac17f2753|float32|True|((1,), (1,))|quantile|True|e3b0c442',
    'quantile/f64_1x1/3/numpy': '5d73d8bac17f2753|float32|False|None|quantile|True|07148b24',
    'quantile/f64_1x1/4/dask': '5d73d8bac17f2753|float32|True|((1,), (1,))|quantile|True|e3b0c442',
    'quantile/f64_1x1/4/numpy': '5d73d8bac17f2753|float32|False|None|quantile|True|07148b24',
    'quantile/f64_1x1/5/dask': '5d73d8bac17f2753|float32|True|((1,), (1,))|quantile|True|e3b0c442',
    'quantile/f64_1x1/5/numpy': '5d73d8bac17f2753|float32|False|None|quantile|True|07148b24',
    'quantile/f64_1x1/7/dask': '5d73d8bac17f2753|float32|True|((1,), (1,))|quantile|True|e3b0c442',
    'quantile/f64_1x1/7/numpy': '5d73d8bac17f2753|float32|False|None|quantile|True|07148b24',
    'quantile/f64_1x7/2/dask': '7dd0003d4b62fb90|float32|True|((1,), (3, 3, 1))|quantile|True|e3b0c442',
    'quantile/f64_1x7/2/numpy': '7dd0003d4b62fb90|float32|False|None|quantile|True|e3b0c442',
    'quantile/f64_1x7/3/dask': 'cf844d92f7b6d665|float32|True|((1,), (3, 3, 1))|quantile|True|e3b0c442',
    'quantile/f64_1x7/3/numpy': '4675e79bf7e96b90|float32|False|None|quantile|True|e3b0c442',
    'quantile/f64_1x7/4/dask': '34a00cb6f4381d02|float32|True|((1,), (3, 3, 1))|quantile|True|e3b0c442',
    'quantile/f64_1x7/4/numpy': '4675e79bf7e96b90|float32|False|None|quantile|True|4b1e89f7',
    'quantile/f64_1x7/5/dask': '34a00cb6f4381d02|float32|True|((1,), (3, 3, 1))|quantile|True|e3b0c442',
    'quantile/f64_1x7/5/numpy': 'ccc095ed2c9167bd|float32|False|None|quantile|True|e3b0c442',
    'quantile/f64_1x7/7/dask': '940b6496eeaf1ddf|float32|True|((1,), (3, 3, 1))|quantile|True|e3b0c442',
    'quantile/f64_1x7/7/numpy': 'cf0b185ee540c148|float32|False|None|quantile|True|064e0297',
    'quantile/f64_big/2/dask': 'eaeb99e2f2caab24|float32|True|((4, 1), (3, 3, 1))|quantile|True|e3b0c442',
    'quantile/f64_big/2/numpy': 'eaeb99e2f2caab24|float32|False|None|quantile|True|e3b0c442',
    'quantile/f64_big/3/dask': '947e4523ef799b03|float32|True|((4, 1), (3, 3, 1))|quantile|True|e3b0c442',
    'quantile/f64_big/3/numpy': '209f5024c532ba66|float32|False|None|quantile|True|e3b0c442',
    'quantile/f64_big/4/dask': '117d0a302e1a23ea|float32|True|((4, 1), (3, 3, 1))|quantile|True|e3b0c442',
    'quantile/f64_big/4/numpy': '117d0a302e1a23ea|float32|False|None|quantile|True|e3b0c442',
    'quantile/f64_big/5/dask': '8aaf2aa03a28badd|float32|True|((4, 1), (3, 3, 1))|quantile|True|e3b0c442',
    'quantile/f64_big/5/numpy': '37332d4697fb017d|float32|False|None|quantile|True|e3b0c442',
    'quantile/f64_big/7/dask': '11acbb14549d699f|float32|True|((4, 1), (3, 3, 1))|quantile|True|e3b0c442',
    'quantile/f64_big/7/numpy': '11acbb14549d699f|float32|False|None|quantile|True|e3b0c442',
    'quantile/f64_ramp/2/dask': '546827ff558241cd|float32|True|((4, 1), (3, 3, 2))|quantile|True|e3b0c442',
    'quantile/f64_ramp/2/numpy': '546827ff558241cd|float32|False|None|quantile|True|e3b0c442',
    'quantile/f64_ramp/3/dask': '991bb65350ee3bc8|float32|True|((4, 1), (3, 3, 2))|quantile|True|e3b0c442',
    'quantile/f64_ramp/3/numpy': '7e4cd246ebc6a2b8|float32|False|None|quantile|True|e3b0c442',
    'quantile/f64_ramp/4/dask': '5dd1c7cb8f433d61|float32|True|((4, 1), (3, 3, 2))|quantile|True|e3b0c442',
    'quantile/f64_ramp/4/numpy': '5dd1c7cb8f433d61|float32|False|None|quantile|True|e3b0c442',
    'quantile/f64_ramp/5/dask': '85bfe17af096bfd2|float32|True|((4, 1), (3, 3, 2))|quantile|True|e3b0c442',
    'quantile/f64_ramp/5/numpy': 'eb92afb22cd03305|float32|False|None|quantile|True|e3b0c442',
    'quantile/f64_ramp/7/dask': '4ec6455a2eac570d|float32|True|((4, 1), (3, 3, 2))|quantile|True|e3b0c442',
    'quantile/f64_ramp/7/numpy': 'bc140164af5a6219|float32|False|None|quantile|True|e3b0c442',
    'quantile/f64_rand/2/dask': '7494183e8c4ef5e6|float32|True|((4, 4, 4, 1), (3, 3, 3, 3, 3, 2))|quantile|True|e3b0c442',
    'quantile/f64_rand/2/numpy': '65195981a0545594|float32|False|None|quantile|True|e3b0c442',
    'quantile/f64_rand/3/dask': 'ab8f0db26c3b9beb|float32|True|((4, 4, 4, 1), (3, 3, 3, 3, 3, 2))|quantile|True|e3b0c442',
    'quantile/f64_rand/3/numpy': 'de68754b73087d55|float32|False|None|quantile|True|e3b0c442',
    'quantile/f64_rand/4/dask': 'd27a2708efa8b23b|float32|True|((4, 4, 4, 1), (3, 3, 3, 3, 3, 2))|quantile|True|e3b0c442',
    'quantile/f64_rand/4/numpy': '142a5cd7a1a3aec3|float32|False|None|quantile|True|e3b0c442',
    'quantile/f64_rand/5/dask': '749a423859556d73|float32|True|((4, 4, 4, 1), (3, 3, 3, 3, 3, 2))|quantile|True|e3b0c442',
    'quantile/f64_rand/5/numpy': 'e38beeefbac8de35|float32|False|None|quantile|True|e3b0c442',
    'quantile/f64_rand/7/dask': 'bee6eed3fd76b941|float32|True|((4, 4, 4, 1), (3, 3, 3, 3, 3, 2))|quantile|True|e3b0c442',
    'quantile/f64_rand/7/numpy': '7b838f3c50e05b8b|float32|False|None|quantile|True|e3b0c442',
    'quantile/f64_ties/2/dask': '38aa6a0927b775e6|float32|True|((4, 4, 1), (3, 3, 3, 2))|quantile|True|e3b0c442',
    'quantile/f64_ties/2/numpy': '55d8c402c664f865|float32|False|None|quantile|True|e3b0c442',
    'quantile/f64_ties/3/dask': '22656ee66db0232c|float32|True|((4, 4, 1), (3, 3, 3, 2))|quantile|True|e3b0c442',
    'quantile/f64_ties/3/numpy': '22656ee66db0232c|float32|False|None|quantile|True|e3b0c442',
    'quantile/f64_ties/4/dask': 'e485fd421960335c|float32|True|((4, 4, 1), (3, 3, 3, 2))|quantile|True|e3b0c442',
    'quantile/f64_ties/4/numpy': '1da2a949969fbf1a|float32|False|None|quantile|True|e3b0c442',
    'quantile/f64_ties/5/dask': '9cd15e0c78ebe723|float32|True|((4, 4, 1), (3, 3, 3, 2))|quantile|True|e3b0c442',
    'quantile/f64_ties/5/numpy': '30e0024fabbe5d20|float32|False|None|quantile|True|a44edd30',
    'quantile/f64_ties/7/dask': '88c41563dc7b8ced|float32|True|((4, 4, 1), (3, 3, 3, 2))|quantile|True|e3b0c442',
    'quantile/f64_ties/7/numpy': '4a7b289627e0e975|float32|False|None|quantile|True|064e0297',
    'quantile/f64_tiny/2/dask': '0b0e3ba93d42d95a|float32|True|((3,), (3, 1))|quantile|True|e3b0c442',
    'quantile/f64_tiny/2/numpy': '0b0e3ba93d42d95a|float32|False|None|quantile|True|e3b0c442',
    'quantile/f64_tiny/3/dask': 'c6fe4bb7e1d58ceb|float32|True|((3,), (3, 1))|quantile|True|e3b0c442',
    'quantile/f64_tiny/3/numpy': '1210950ba3a565d9|float32|False|None|quantile|True|e3b0c442',
    'quantile/f64_tiny/4/dask': 'b044ae55fb5731d8|float32|True|((3,), (3, 1))|quantile|True|e3b0c442',
    'quantile/f64_tiny/4/numpy': 'b044ae55fb5731d8|float32|False|None|quantile|True|e3b0c442',
    'quantile/f64_tiny/5/dask': '230ef0433a2bf1e2|float32|True|((3,), (3, 1))|quantile|True|e3b0c442',
    'quantile/f64_tiny/5/numpy': 'a199fa21dc1a1db5|float32|False|None|quantile|True|e3b0c442',
    'quantile/f64_tiny/7/dask': '48968f7fb30c4c49|float32|True|((3,), (3, 1))|quantile|True|e3b0c442',
    'quantile/f64_tiny/7/numpy': 'a367bd4ec6a0cbfa|float32|False|None|quantile|True|e3b0c442',
    'quantile/i32/2/dask': '214e7fb1dc76e859|float32|True|((4, 3), (3, 2))|quantile|True|e3b0c442',
    'quantile/i32/2/numpy': 'c045da9934e10ec9|float32|False|None|quantile|True|e3b0c442',
    'quantile/i32/3/dask': '9b22c7dabc360279|float32|True|((4, 3), (3, 2))|quantile|True|e3b0c442',
    'quantile/i32/3/numpy': 'a8281b31a6291675|float32|False|None|quantile|True|e3b0c442',
    'quantile/i32/4/dask': 'ec27edb68f0638d4|float32|True|((4, 3), (3, 2))|quantile|True|e3b0c442',
    'quantile/i32/4/numpy': 'e28a1fc2f5a0e841|float32|False|None|quantile|True|e3b0c442',
    'quantile/i32/5/dask': 'd16200dd64ba1b21|float32|True|((4, 3), (3, 2))|quantile|True|e3b0c442',
    'quantile/i32/5/numpy': 'd5cd8af9a4c46c45|float32|False|None|quantile|True|e3b0c442',
    'quantile/i32/7/dask': '969cac6f4c066963|float32|True|((4, 3), (3, 2))|quantile|True|e3b0c442',
    'quantile/i32/7/numpy': '874f2cdbfaf6d8a6|float32|False|None|quantile|True|e3b0c442',
    'quantile/i64/2/dask': '9c56412c8dc95345|float32|True|((4, 2), (3, 3, 2))|quantile|True|e3b0c442',
    'quantile/i64/2/numpy': '73d4d930cd8d484a|float32|False|None|quantile|True|e3b0c442',
    'quantile/i64/3/dask': 'ec32ee525168d71b|float32|True|((4, 2), (3, 3, 2))|quantile|True|e3b0c442',
    'quantile/i64/3/numpy': 'c2c0727bca178d2a|float32|False|None|quantile|True|e3b0c442',
    'quantile/i64/4/dask': '3438282170515c11|float32|True|((4, 2), (3, 3, 2))|quantile|True|e3b0c442',
    'quantile/i64/4/numpy': 'eb62a5cd40c20ed8|float32|False|None|quantile|True|e3b0c442',
    'quantile/i64/5/dask': 'b6b40eeb48cbd129|float32|True|((4, 2), (3, 3, 2))|quantile|True|e3b0c442',
    'quantile/i64/5/numpy': 'a9f6ae7614fbce02|float32|False|None|quantile|True|e3b0c442',
    'quantile/i64/7/dask': 'ec51b59d2ad87e39|float32|True|((4, 2), (3, 3, 2))|quantile|True|e3b0c442',
    'quantile/i64/7/numpy': '2cd27d03da6eb036|float32|False|None|quantile|True|e3b0c442',
    'reclass/f32_5x1/0/dask': '9881ada867987938|float32|True|((4, 1), (1,))|reclassify|True|e3b0c442',
    'reclass/f32_5x1/0/numpy': '9881ada867987938|float32|False|None|reclassify|True|e3b0c442',
    'reclass/f32_5x1/1/dask': '07fe5fa08bcfc6e3|float32|True|((4, 1), (1,))|reclassify|True|e3b0c442',
    'reclass/f32_5x1/1/numpy': '07fe5fa08bcfc6e3|float32|False|None|reclassify|True|e3b0c442',
    'reclass/f32_5x1/2/dask': '543c21c47ec38e5f|float32|True|((4, 1), (1,))|reclassify|True|e3b0c442',
    'reclass/f32_5x1/2/numpy': '543c21c47ec38e5f|float32|False|None|reclassify|True|e3b0c442',
    'reclass/f32_5x1/3/dask': 'd3be72caf29d964d|float32|True|((4, 1), (1,))|reclassify|True|e3b0c442',
    'reclass/f32_5x1/3/numpy': 'd3be72caf29d964d|float32|False|None|reclassify|True|e3b0c442',
    'reclass/f32_5x1/4/dask': 'b77a8a5487bb9ea2|float32|True|((4, 1), (1,))|reclassify|True|e3b0c442',
    'reclass/f32_5x1/4/numpy': 'b77a8a5487bb9ea2|float32|False|None|reclassify|True|e3b0c442',
    'reclass/f32_rand/0/dask': '951dac41dfca6ce8|float32|True|((4, 4, 4, 1), (3, 3, 3, 3, 3, 2))|reclassify|True|e3b0c442',
    'reclass/f32_rand/0/numpy': '951dac41dfca6ce8|float32|False|None|reclassify|True|e3b0c442',
    'reclass/f32_rand/1/dask': '2ff1b7201ea9326c|float32|True|((4, 4, 4, 1), (3, 3, 3, 3, 3, 2))|reclassify|True|e3b0c442',
    'reclass/f32_rand/1/numpy': '2ff1b7201ea9326c|float32|False|None|reclassify|True|e3b0c442',
    'reclass/f32_rand/2/dask': 'fe6c7408940eb3ea|float32|True|((4, 4, 4, 1), (3, 3, 3, 3, 3, 2))|reclassify|True|e3b0c442',
    'reclass/f32_rand/2/numpy': 'fe6c7408940eb3ea|float32|False|None|reclassify|True|e3b0c442',
    'reclass/f32_rand/3/dask': 'c041a72f70bf80ed|float32|True|((4, 4, 4, 1), (3, 3, 3, 3, 3, 2))|reclassify|True|e3b0c442',
    'reclass/f32_rand/3/numpy': 'c041a72f70bf80ed|float32|False|None|reclassify|True|e3b0c442',
    'reclass/f32_rand/4/dask': '9f3e66fd86b086d8|float32|True|((4, 4, 4, 1), (3, 3, 3, 3, 3, 2))|reclassify|True|e3b0c442',
    'reclass/f32_rand/4/numpy': '9f3e66fd86b086d8|float32|False|None|reclassify|True|e3b0c442',
    'reclass/f32_ties/0/dask': 'da8bf4c593e938e2|float32|True|((4, 4, 1), (3, 3, 3, 2))|reclassify|True|e3b0c442',
    'reclass/f32_ties/0/numpy': 'da8bf4c593e938e2|float32|False|None|reclassify|True|e3b0c442',
    'reclass/f32_ties/1/dask': '90b2106ce83d550a|float32|True|((4, 4, 1), (3, 3, 3, 2))|reclassify|True|e3b0c442',
    'reclass/f32_ties/1/numpy': '90b2106ce83d550a|float32|False|None|reclassify|True|e3b0c442',
    'reclass/f32_ties/2/dask': '174618b7ad27182c|float32|True|((4, 4, 1), (3, 3, 3, 2))|reclassify|True|e3b0c442',
    'reclass/f32_ties/2/numpy': '174618b7ad27182c|float32|False|None|reclassify|True|e3b0c442',
    'reclass/f32_ties/3/dask': '5352ea9c086477e4|float32|True|((4, 4, 1), (3, 3, 3, 2))|reclassify|True|e3b0c442',
    'reclass/f32_ties/3/numpy': '5352ea9c086477e4|float32|False|None|reclassify|True|e3b0c442',
    'reclass/f32_ties/4/dask': 'ebc0081f09d02bc6|float32|True|((4, 4, 1), (3, 3, 3, 2))|reclassify|True|e3b0c442',
    'reclass/f32_ties/4/numpy': 'ebc0081f09d02bc6|float32|False|None|reclassify|True|e3b0c442',
    'reclass/f64_1x1/0/dask': '864e69e570f0d91c|float32|True|((1,), (1,))|reclassify|True|e3b0c442',
    'reclass/f64_1x1/0/numpy': '864e69e570f0d91c|float32|False|None|reclassify|True|e3b0c442',
    'reclass/f64_1x1/1/dask': '864e69e570f0d91c|float32|True|((1,), (1,))|reclassify|True|e3b0c442',
    'reclass/f64_1x1/1/numpy': '864e69e570f0d91c|float32|False|None|reclassify|True|e3b0c442',
    'reclass/f64_1x1/2/dask': '8e9600dd33014f13|float32|True|((1,), (1,))|reclassify|True|e3b0c442',
    'reclass/f64_1x1/2/numpy': '8e9600dd33014f13|float32|False|None|reclassify|True|e3b0c442',
    'reclass/f64_1x1/3/dask': '5d73d8bac17f2753|float32|True|((1,), (1,))|reclassify|True|e3b0c442',
    'reclass/f64_1x1/3/numpy': '5d73d8bac17f2753|float32|False|None|reclassify|True|e3b0c442',
    'reclass/f64_1x1/4/dask': '3d8106d92e9af40a|float32|True|((1,), (1,))|reclassify|True|e3b0c442',
    'reclass/f64_1x1/4/numpy': '3d8106d92e9af40a|float32|False|None|reclassify|True|e3b0c442',
    'reclass/f64_1x7/0/dask': '0a040cfb91c22915|float32|True|((1,), (3, 3, 1))|reclassify|True|e3b0c442',
    'reclass/f64_1x7/0/numpy': '0a040cfb91c22915|float32|False|None|reclassify|True|e3b0c442',
    'reclass/f64_1x7/1/dask': '626847a93e167aef|float32|True|((1,), (3, 3, 1))|reclassify|True|e3b0c442',
    'reclass/f64_1x7/1/numpy': '626847a93e167aef|float32|False|None|reclassify|True|e3b0c442',
    'reclass/f64_1x7/2/dask': '7a2075eab019510c|float32|True|((1,), (3, 3, 1))|reclassify|True|e3b0c442',
    'reclass/f64_1x7/2/numpy': '7a2075eab019510c|float32|False|None|reclassify|True|e3b0c442',
    'reclass/f64_1x7/3/dask': 'b29778da894038f4|float32|True|((1,), (3, 3, 1))|reclassify|True|e3b0c442',
    'reclass/f64_1x7/3/numpy': 'b29778da894038f4|float32|False|None|reclassify|True|e3b0c442',
    'reclass/f64_1x7/4/dask': 'cac95680dddb5063|float32|True|((1,), (3, 3, 1))|reclassify|True|e3b0c442',
    'reclass/f64_1x7/4/numpy': 'cac95680dddb5063|float32|False|None|reclassify|True|e3b0c442',
    'reclass/f64_big/0/dask': 'bddfb4631dd6909e|float32|True|((4, 1), (3, 3, 1))|reclassify|True|e3b0c442',
    'reclass/f64_big/0/numpy': 'bddfb4631dd6909e|float32|False|None|reclassify|True|e3b0c442',
    'reclass/f64_big/1/dask': 'a02fa31843f73a07|float32|True|((4, 1), (3, 3, 1))|reclassify|True|e3b0c442',
    'reclass/f64_big/1/numpy': 'a02fa31843f73a07|float32|False|None|reclassify|True|e3b0c442',
    'reclass/f64_big/2/dask': 'a02fa31843f73a07|float32|True|((4, 1), (3, 3, 1))|reclassify|True|e3b0c442',
    'reclass/f64_big/2/numpy': 'a02fa31843f73a07|float32|False|None|reclassify|True|e3b0c442',
    'reclass/f64_big/3/dask': 'd400ecf80459b595|float32|True|((4, 1), (3, 3, 1))|reclassify|True|e3b0c442',
    'reclass/f64_big/3/numpy': 'd400ecf80459b595|float32|False|None|reclassify|True|e3b0c442',
    'reclass/f64_big/4/dask': 'a02fa31843f73a07|float32|True|((4, 1), (3, 3, 1))|reclassify|True|e3b0c442',
    'reclass/f64_big/4/numpy': 'a02fa31843f73a07|float32|False|None|reclassify|True|e3b0c442',
    'reclass/f64_ramp/0/dask': '5648800b9d5a4a91|float32|True|((4, 1), (3, 3, 2))|reclassify|True|e3b0c442',
    'reclass/f64_ramp/0/numpy': '5648800b9d5a4a91|float32|False|None|reclassify|True|e3b0c442',
    'reclass/f64_ramp/1/dask': '70077d89ae186a51|float32|True|((4, 1), (3, 3, 2))|reclassify|True|e3b0c442',
    'reclass/f64_ramp/1/numpy': '70077d89ae186a51|float32|False|None|reclassify|True|e3b0c442',
    'reclass/f64_ramp/2/dask': 'fb9ef93c19fb7cbe|float32|True|((4, 1), (3, 3, 2))|reclassify|True|e3b0c442',
    'reclass/f64_ramp/2/numpy': 'fb9ef93c19fb7cbe|float32|False|None|reclassify|True|e3b0c442',
    'reclass/f64_ramp/3/dask': '6147d1b5eb5046e9|float32|True|((4, 1), (3, 3, 2))|reclassify|True|e3b0c442',
    'reclass/f64_ramp/3/numpy': '6147d1b5eb5046e9|float32|False|None|reclassify|True|e3b0c442',
    'reclass/f64_ramp/4/dask': 'd7ab397d06d304d6|float32|True|((4, 1), (3, 3, 2))|reclassify|True|e3b0c442',
    'reclass/f64_ramp/4/numpy': 'd7ab397d06d304d6|float32|False|None|reclassify|True|e3b0c442',
    'reclass/f64_rand/0/dask': '951dac41dfca6ce8|float32|True|((4, 4, 4, 1), (3, 3, 3, 3, 3, 2))|reclassify|True|e3b0c442',
    'reclass/f64_rand/0/numpy': '951dac41dfca6ce8|float32|False|None|reclassify|True|e3b0c442',
    'reclass/f64_rand/1/dask': '2ff1b7201ea9326c|float32|True|((4, 4, 4, 1), (3, 3, 3, 3, 3, 2))|reclassify|True|e3b0c442',
    'reclass/f64_rand/1/numpy': '2ff1b7201ea9326c|float32|False|None|reclassify|True|e3b0c442',
    'reclass/f64_rand/2/dask': 'fe6c7408940eb3ea|float32|True|((4, 4, 4, 1), (3, 3, 3, 3, 3, 2))|reclassify|True|e3b0c442',
    'reclass/f64_rand/2/numpy': 'fe6c7408940eb3ea|float32|False|None|reclassify|True|e3b0c442',
    'reclass/f64_rand/3/dask': 'c041a72f70bf80ed|float32|True|((4, 4, 4, 1), (3, 3, 3, 3, 3, 2))|reclassify|True|e3b0c442',
    'reclass/f64_rand/3/numpy': 'c041a72f70bf80ed|float32|False|None|reclassify|True|e3b0c442',
    'reclass/f64_rand/4/dask': '9f3e66fd86b086d8|float32|True|((4, 4, 4, 1), (3, 3, 3, 3, 3, 2))|reclassify|True|e3b0c442',
    'reclass/f64_rand/4/numpy': '9f3e66fd86b086d8|float32|False|None|reclassify|True|e3b0c442',
    'reclass/f64_ties/0/dask': 'da8bf4c593e938e2|float32|True|((4, 4, 1), (3, 3, 3, 2))|reclassify|True|e3b0c442',
    'reclass/f64_ties/0/numpy': 'da8bf4c593e938e2|float32|False|None|reclassify|True|e3b0c442',
    'reclass/f64_ties/1/dask': '90b2106ce83d550a|float32|True|((4, 4, 1), (3, 3, 3, 2))|reclassify|True|e3b0c442',
    'reclass/f64_ties/1/numpy': '90b2106ce83d550a|float32|False|None|reclassify|True|e3b0c442',
    'reclass/f64_ties/2/dask': '174618b7ad27182c|float32|True|((4, 4, 1), (3, 3, 3, 2))|reclassify|True|e3b0c442',
    'reclass/f64_ties/2/numpy': '174618b7ad27182c|float32|False|None|reclassify|True|e3b0c442',
    'reclass/f64_ties/3/dask': '5352ea9c086477e4|float32|True|((4, 4, 1), (3, 3, 3, 2))|reclassify|True|e3b0c442',
    'reclass/f64_ties/3/numpy': '5352ea9c086477e4|float32|False|None|reclassify|True|e3b0c442',
    'reclass/f64_ties/4/dask': 'ebc0081f09d02bc6|float32|True|((4, 4, 1), (3, 3, 3, 2))|reclassify|True|e3b0c442',
    'reclass/f64_ties/4/numpy': 'ebc0081f09d02bc6|float32|False|None|reclassify|True|e3b0c442',
    'reclass/f64_tiny/0/dask': 'e033bceec5c343b5|float32|True|((3,), (3, 1))|reclassify|True|e3b0c442',
    'reclass/f64_tiny/0/numpy': 'e033bceec5c343b5|float32|False|None|reclassify|True|e3b0c442',
    'reclass/f64_tiny/1/dask': '4420eeeaebd9265d|float32|True|((3,), (3, 1))|reclassify|True|e3b0c442',
    'reclass/f64_tiny/1/numpy': '4420eeeaebd9265d|float32|False|None|reclassify|True|e3b0c442',
    'reclass/f64_tiny/2/dask': 'c44eb977b18b51b8|float32|True|((3,), (3, 1))|reclassify|True|e3b0c442',
    'reclass/f64_tiny/2/numpy': 'c44eb977b18b51b8|float32|False|None|reclassify|True|e3b0c442',
    'reclass/f64_tiny/3/dask': 'fd04be91b2b25054|float32|True|((3,), (3, 1))|reclassify|True|e3b0c442',
    'reclass/f64_tiny/3/numpy': 'fd04be91b2b25054|float32|False|None|reclassify|True|e3b0c442',
    'reclass/f64_tiny/4/dask': '6899f2ace6a8f82f|float32|True|((3,), (3, 1))|reclassify|True|e3b0c442',
    'reclass/f64_tiny/4/numpy': '6899f2ace6a8f82f|float32|False|None|reclassify|True|e3b0c442',
    'reclass/i32/0/dask': '132cc334723e1a26|float32|True|((4, 3), (3, 2))|reclassify|True|e3b0c442',
    'reclass/i32/0/numpy': '132cc334723e1a26|float32|False|None|reclassify|True|e3b0c442',
    'reclass/i32/1/dask': '066ebba06243637c|float32|True|((4, 3), (3, 2))|reclassify|True|e3b0c442',
    'reclass/i32/1/numpy': '066ebba06243637c|float32|False|None|reclassify|True|e3b0c442',
    'reclass/i32/2/dask': '982f81c219e057ac|float32|True|((4, 3), (3, 2))|reclassify|True|e3b0c442',
    'reclass/i32/2/numpy': '982f81c219e057ac|float32|False|None|reclassify|True|e3b0c442',
    'reclass/i32/3/dask': '476b805a73cbf589|float32|True|((4, 3), (3, 2))|reclassify|True|e3b0c442',
    'reclass/i32/3/numpy': '476b805a73cbf589|float32|False|None|reclassify|True|e3b0c442',
    'reclass/i32/4/dask': '6c80607b11e71c88|float32|True|((4, 3), (3, 2))|reclassify|True|e3b0c442',
    'reclass/i32/4/numpy': '6c80607b11e71c88|float32|False|None|reclassify|True|e3b0c442',
    'reclass/i64/0/dask': '101328b8c7983a14|float32|True|((4, 2), (3, 3, 2))|reclassify|True|e3b0c442',
    'reclass/i64/0/numpy': '101328b8c7983a14|float32|False|None|reclassify|True|e3b0c442',
    'reclass/i64/1/dask': '2a137cf8fbd7ab5b|float32|True|((4, 2), (3, 3, 2))|reclassify|True|e3b0c442',
    'reclass/i64/1/numpy': '2a137cf8fbd7ab5b|float32|False|None|reclassify|True|e3b0c442',
    'reclass/i64/2/dask': '3afd02ee57becdf3|float32|True|((4, 2), (3, 3, 2))|reclassify|True|e3b0c442',
    'reclass/i64/2/numpy': '3afd02ee57becdf3|float32|False|None|reclassify|True|e3b0c442',
    'reclass/i64/3/dask': 'ed0899b9c610dd2e|float32|True|((4, 2), (3, 3, 2))|reclassify|True|e3b0c442',
    'reclass/i64/3/numpy': 'ed0899b9c610dd2e|float32|False|None|reclassify|True|e3b0c442',
    'reclass/i64/4/dask': '3afd02ee57becdf3|float32|True|((4, 2), (3, 3, 2))|reclassify|True|e3b0c442',
    'reclass/i64/4/numpy': '3afd02ee57becdf3|float32|False|None|reclassify|True|e3b0c442',
    'reclass/mismatch': 'EXC ValueError:bins and new_values mismatch. Should have same length.',
    'reclass/name': '3d6404b311ed1ac8|float32|False|None|foo|True|e3b0c442',
    'reclass_ex/1/float32/dask/1.0': '0ea734be4885cd1e|float32|True|((2,), (3, 2))|reclassify|True|e3b0c442',
    'reclass_ex/1/float32/dask/inf': 'c9a674ebfb752ac4|float32|True|((2,), (3, 2))|reclassify|True|e3b0c442',
    'reclass_ex/1/float32/numpy/1.0': '0ea734be4885cd1e|float32|False|None|reclassify|True|e3b0c442',
    'reclass_ex/1/float32/numpy/inf': 'c9a674ebfb752ac4|float32|False|None|reclassify|True|e3b0c442',
    'reclass_ex/1/float64/dask/1.0': 'ec1fd5ed9771ea97|float32|True|((2,), (3, 2))|reclassify|True|e3b0c442',
    'reclass_ex/1/float64/dask/inf': 'c9a674ebfb752ac4|float32|True|((2,), (3, 2))|reclassify|True|e3b0c442',
    'reclass_ex/1/float64/numpy/1.0': 'ec1fd5ed9771ea97|float32|False|None|reclassify|True|e3b0c442',
    'reclass_ex/1/float64/numpy/inf': 'c9a674ebfb752ac4|float32|False|None|reclassify|True|e3b0c442',
    'reclass_ex/2/float32/dask/3.0': '383b3773630624ae|float32|True|((2, 1), (3, 2))|reclassify|True|e3b0c442',
    'reclass_ex/2/float32/dask/inf': 'a4f4581632c9e73e|float32|True|((2, 1), (3, 2))|reclassify|True|e3b0c442',
    'reclass_ex/2/float32/numpy/3.0': '383b3773630624ae|float32|False|None|reclassify|True|e3b0c442',
    'reclass_ex/2/float32/numpy/inf': 'a4f4581632c9e73e|float32|False|None|reclassify|True|e3b0c442',
    'reclass_ex/2/float64/dask/3.0': 'af3516c34aa66d22|float32|True|((2, 1), (3, 2))|reclassify|True|e3b0c442',
    'reclass_ex/2/float64/dask/inf': '480ce90054ed0175|float32|True|((2, 1), (3, 2))|reclassify|True|e3b0c442',
    'reclass_ex/2/float64/numpy/3.0': 'af3516c34aa66d22|float32|False|None|reclassify|True|e3b0c442',
    'reclass_ex/2/float64/numpy/inf': '480ce90054ed0175|float32|False|None|reclassify|True|e3b0c442',
    'reclass_ex/3/float32/dask/5.0': 'cb309feda56cb840|float32|True|((2, 2), (3, 2))|reclassify|True|e3b0c442',
    'reclass_ex/3/float32/dask/inf': 'f43ea173db7cd97f|float32|True|((2, 2), (3, 2))|reclassify|True|e3b0c442',
    'reclass_ex/3/float32/numpy/5.0': 'cb309feda56cb840|float32|False|None|reclassify|True|e3b0c442',
    'reclass_ex/3/float32/numpy/inf': 'f43ea173db7cd97f|float32|False|None|reclassify|True|e3b0c442',
    'reclass_ex/3/float64/dask/5.0': 'fc10f2dee089cd2b|float32|True|((2, 2), (3, 2))|reclassify|True|e3b0c442',
    'reclass_ex/3/float64/dask/inf': 'bd06ff4ad64b9401|float32|True|((2, 2), (3, 2))|reclassify|True|e3b0c442',
    'reclass_ex/3/float64/numpy/5.0': 'fc10f2dee089cd2b|float32|False|None|reclassify|True|e3b0c442',
    'reclass_ex/3/float64/numpy/inf': 'bd06ff4ad64b9401|float32|False|None|reclassify|True|e3b0c442',
    'reclass_ex/4/float32/dask/7.0': 'fb4dc2c81eed60d7|float32|True|((2, 2, 1), (3, 2))|reclassify|True|e3b0c442',
    'reclass_ex/4/float32/dask/inf': '5efcdaf688cdfc61|float32|True|((2, 2, 1), (3, 2))|reclassify|True|e3b0c442',
    'reclass_ex/4/float32/numpy/7.0': 'fb4dc2c81eed60d7|float32|False|None|reclassify|True|e3b0c442',
    'reclass_ex/4/float32/numpy/inf': '5efcdaf688cdfc61|float32|False|None|reclassify|True|e3b0c442',
    'reclass_ex/4/float64/dask/7.0': '300b3ae406804b89|float32|True|((2, 2, 1), (3, 2))|reclassify|True|e3b0c442',
    'reclass_ex/4/float64/dask/inf': 'adcb148dcc787e05|float32|True|((2, 2, 1), (3, 2))|reclassify|True|e3b0c442',
    'reclass_ex/4/float64/numpy/7.0': '300b3ae406804b89|float32|False|None|reclassify|True|e3b0c442',
    'reclass_ex/4/float64/numpy/inf': 'adcb148dcc787e05|float32|False|None|reclassify|True|e3b0c442',
    'reclass_ex/5/float32/dask/9.0': 'ae7d6053db0d50f4|float32|True|((2, 2, 2), (3, 2))|reclassify|True|e3b0c442',
    'reclass_ex/5/float32/dask/inf': '73146b939d741020|float32|True|((2, 2, 2), (3, 2))|reclassify|True|e3b0c442',
    'reclass_ex/5/float32/numpy/9.0': 'ae7d6053db0d50f4|float32|False|None|reclassify|True|e3b0c442',
    'reclass_ex/5/float32/numpy/inf': '73146b939d741020|float32|False|None|reclassify|True|e3b0c442',
    'reclass_ex/5/float64/dask/9.0': 'db362b785bfecd25|float32|True|((2, 2, 2), (3, 2))|reclassify|True|e3b0c442',
    'reclass_ex/5/float64/dask/inf': '16a9a6bf3df1d34f|float32|True|((2, 2, 2), (3, 2))|reclassify|True|e3b0c442',
    'reclass_ex/5/float64/numpy/9.0': 'db362b785bfecd25|float32|False|None|reclassify|True|e3b0c442',
    'reclass_ex/5/float64/numpy/inf': '16a9a6bf3df1d34f|float32|False|None|reclassify|True|e3b0c442',
    'reclass_ex/6/float32/dask/11.0': '6548dad177f9cb1c|float32|True|((2, 2, 2), (3, 2))|reclassify|True|e3b0c442',
    'reclass_ex/6/float32/dask/inf': '1a92a79427df3a4c|float32|True|((2, 2, 2), (3, 2))|reclassify|True|e3b0c442',
    'reclass_ex/6/float32/numpy/11.0': '6548dad177f9cb1c|float32|False|None|reclassify|True|e3b0c442',
    'reclass_ex/6/float32/numpy/inf': '1a92a79427df3a4c|float32|False|None|reclassify|True|e3b0c442',
    'reclass_ex/6/float64/dask/11.0': 'a91f364c03164833|float32|True|((2, 2, 2), (3, 2))|reclassify|True|e3b0c442',
    'reclass_ex/6/float64/dask/inf': 'c9b5f61d3d85c9bb|float32|True|((2, 2, 2), (3, 2))|reclassify|True|e3b0c442',
    'reclass_ex/6/float64/numpy/11.0': 'a91f364c03164833|float32|False|None|reclassify|True|e3b0c442',
    'reclass_ex/6/float64/numpy/inf': 'c9b5f61d3d85c9bb|float32|False|None|reclassify|True|e3b0c442',
}


if __name__ == '__main__':
    sys.exit(main(EXPECTED))
