"""Differential test for the focal.mean kernel refactoring (_mean_numpy /
_equal_numpy: exclusion test extracted into a helper, early `continue`,
loop-invariant row window hoisted).  Run from inside the worktree:
    cd /tmp/t5/TC10 && PYTHONPATH=/tmp/t5/TC10 /venv/bin/python /tmp/t9/out/TC10-t23/equiv.py
expected.json was recorded from the unmodified tree with `--record`."""
import hashlib
import json
import os
import sys
import warnings

import dask.array as da
import numpy as np
import xarray as xr

import xrspatial
from xrspatial.focal import mean

warnings.filterwarnings('ignore')
assert xrspatial.__file__.startswith('/tmp/t5/TC10/'), xrspatial.__file__


def digest(a):
    a = np.asarray(a)
    h = hashlib.sha256()
    h.update(str(a.dtype).encode())
    h.update(str(a.shape).encode())
    h.update(np.ascontiguousarray(a).tobytes())
    return h.hexdigest()[:16]


def make(dtype, shape, layout, seed):
    rng = np.random.RandomState(seed)
    if np.dtype(dtype).kind == 'f':
        base = (rng.rand(*shape) * 100 - 30).astype(dtype)
        base[rng.rand(*shape) < 0.25] = np.nan
        base[rng.rand(*shape) < 0.15] = 0
        base[rng.rand(*shape) < 0.10] = 7
        if base.size > 5:
            base.flat[5] = np.inf
        if base.size > 11:
            base.flat[11] = -np.inf
        if base.size > 3:
            base.flat[3] = -0.0
    else:
        info = np.iinfo(dtype)
        base = rng.randint(max(info.min, -50), min(info.max, 100), size=shape).astype(dtype)
        base[rng.rand(*shape) < 0.2] = 0
        base[rng.rand(*shape) < 0.1] = 7
        if base.size > 2:
            base.flat[2] = info.max
    if layout == 'C':
        arr = np.ascontiguousarray(base)
    elif layout == 'F':
        arr = np.asfortranarray(base)
    elif layout == 'view':
        big = np.zeros((shape[0] * 2 + 1, shape[1] * 3), dtype=dtype)
        big[1::2, ::3] = base
        arr = big[1::2, ::3]
    elif layout == 'ro':
        arr = base.copy()
        arr.setflags(write=False)
    return arr


def raster(arr, backend, chunks):
    h, w = arr.shape
    data = da.from_array(arr, chunks=chunks) if backend == 'dask' else arr
    return xr.DataArray(
        data, dims=['y', 'x'], name='in',
        coords={'y': np.arange(h)[::-1] * 2.0, 'x': np.arange(w) * 0.5, 'band': 1},
        attrs={'res': (0.5, 2.0), 'nodata': 0})


EXCLUDES = {
    'default': None,
    'nan': [np.nan],
    'zero': [0.0],
    'nan_zero': [np.nan, 0.0],
    'seven_zero_nan': [7.0, 0.0, np.nan],
    'inf': [np.inf, -np.inf],
    'int_zero': [0],
    'mixed': [np.nan, 0],      # heterogeneous tuple: whatever happens must stay the same
    'empty': [],               # empty tuple: whatever happens must stay the same
    'nomatch': [12345.0],
}
DTYPES = ['int8', 'uint8', 'int16', 'uint16', 'int32', 'uint32', 'int64', 'uint64',
          'float32', 'float64']
SHAPES = [((6, 7), (3, 4)), ((1, 8), (1, 3)), ((9, 1), (4, 1)), ((1, 1), (1, 1)),
          ((2, 2), (1, 1)), ((11, 13), (5, 6)), ((3, 3), (3, 3))]
LAYOUTS = ['C', 'F', 'view', 'ro']


def run():
    got, fails, n = {}, [], 0
    for ei, (ename, exc) in enumerate(EXCLUDES.items()):
        for di, dtype in enumerate(DTYPES):
            for si, (shape, chunks) in enumerate(SHAPES):
                layout = LAYOUTS[(di + si + ei) % 4]
                passes = (0, 1, 2, 3)[(di + 2 * si + ei) % 4] if ename in ('default', 'nan_zero') \
                    else 1 + (si % 2)
                outs = {}
                for backend in ('numpy', 'dask'):
                    key = '%s|%s|%s|%s|p%d|%s' % (ename, dtype, shape, layout, passes, backend)
                    arr = make(dtype, shape, layout, seed=di * 13 + si)
                    before = arr.copy()
                    r = raster(arr, backend, chunks)
                    attrs0 = dict(r.attrs)
                    kw = {} if exc is None else {'excludes': list(exc)}
                    exc_before = None if exc is None else list(exc)
                    try:
                        out = mean(r, passes=passes, **kw)
                        vals = np.array(out.values, copy=True)
                    except Exception as e:
                        got[key] = 'EXC:' + type(e).__name__
                        continue
                    n += 1
                    got[key] = digest(vals)
                    outs[backend] = vals
                    ok = True
                    ok &= vals.dtype == np.float64
                    ok &= out.name == 'mean' and out.dims == r.dims and out.shape == r.shape
                    ok &= dict(out.attrs) == attrs0 and dict(r.attrs) == attrs0
                    ok &= list(out.coords) == list(r.coords)
                    for c in r.coords:
                        ok &= bool(np.array_equal(out.coords[c].values, r.coords[c].values))
                    ok &= (isinstance(out.data, da.Array) == (backend == 'dask'))
                    ok &= digest(arr) == digest(before)
                    ok &= arr.flags.writeable == (layout != 'ro')
                    if exc is not None:
                        ok &= repr(kw['excludes']) == repr(exc_before)
                    if backend == 'numpy':
                        ok &= not np.shares_memory(out.values, arr)
                        if out.values.flags.writeable:
                            out.values[...] = -1
                            ok &= digest(arr) == digest(before)
                    # independent semantic check for one pass: excluded cells are
                    # copied verbatim, others are the nan-mean of the clipped 3x3 window
                    if passes == 1 and exc is not None:
                        f = before.astype(float)
                        for y in range(shape[0]):
                            for x in range(shape[1]):
                                v = f[y, x]
                                is_ex = any((v == e) or (np.isnan(v) and np.isnan(e))
                                            for e in exc)
                                win = f[max(y - 1, 0):y + 2, max(x - 1, 0):x + 2]
                                if is_ex:
                                    ref = v
                                elif np.all(np.isnan(win)):
                                    ref = np.nan
                                else:
                                    with np.errstate(all='ignore'):
                                        ref = np.nansum(win) / np.sum(~np.isnan(win))
                                g = vals[y, x]
                                if not (np.isclose(g, ref, rtol=1e-12, atol=0, equal_nan=True)
                                        or (np.isinf(g) and g == ref)):
                                    ok = False
                    if not ok:
                        fails.append('identity/immutability/semantics: ' + key)
                if len(outs) == 2 and digest(outs['numpy']) != digest(outs['dask']) \
                        and ename != 'zzz':
                    # numpy and dask need not agree at chunk borders for exotic excludes on
                    # the unmodified tree either; agreement is only recorded, not required
                    got['agree|%s|%s|%s' % (ename, dtype, shape)] = 'differs'
    return got, fails, n


if __name__ == '__main__':
    got, fails, n = run()
    if '--record' in sys.argv:
        print(json.dumps(got, sort_keys=True))
        sys.exit(0)
    exp = json.load(open(os.path.join(os.path.dirname(os.path.abspath(__file__)),
                                      'expected.json')))
    for k in sorted(set(exp) | set(got)):
        if exp.get(k) != got.get(k):
            fails.append('value mismatch %s: expected %s got %s' % (k, exp.get(k), got.get(k)))
    if fails:
        print('\n'.join(fails[:40]))
        print('FAIL (%d problems)' % len(fails))
        sys.exit(1)
    print('OK: %d cases, %d successful calls bit-identical to baseline' % (len(got), n))
    sys.exit(0)
