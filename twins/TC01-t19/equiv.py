"""Differential test for the true_color refactoring (C01-t19).

Runs xrspatial.multispectral.true_color on numpy and dask rasters (several
dtypes, NaN / nodata cells, odd shapes, many chunkings, two schedulers) and
compares sha256 digests (dtype + shape + raw bytes) of every result with the
digests recorded from the unmodified tree.  Also checks dask == numpy cell for
cell and that the dask result stays lazy.  Exit 0 iff everything is identical.

    python equiv.py            # check
    python equiv.py --record   # print the EXPECTED table (run on the unmodified tree)
"""
import hashlib
import sys
import warnings

import dask
import dask.array as da
import numpy as np
import xarray as xr

import xrspatial
from xrspatial.multispectral import true_color

warnings.simplefilter('ignore')

EXPECTED = {
    'da|(1, 9)|float32|p0|c0|sync': '6cf188447dd53f2314fbdbaa',
    'da|(1, 9)|float32|p0|c0|thr3': '6cf188447dd53f2314fbdbaa',
    'da|(1, 9)|float32|p0|c1|sync': '6cf188447dd53f2314fbdbaa',
    'da|(1, 9)|float32|p0|c1|thr3': '6cf188447dd53f2314fbdbaa',
    'da|(1, 9)|float32|p0|c2|sync': '6cf188447dd53f2314fbdbaa',
    'da|(1, 9)|float32|p0|c2|thr3': '6cf188447dd53f2314fbdbaa',
    'da|(1, 9)|float32|p1|c0|sync': 'e5c9d74d79cc7de7d9ea8430',
    'da|(1, 9)|float32|p1|c0|thr3': 'e5c9d74d79cc7de7d9ea8430',
    'da|(1, 9)|float32|p1|c1|sync': 'e5c9d74d79cc7de7d9ea8430',
    'da|(1, 9)|float32|p1|c1|thr3': 'e5c9d74d79cc7de7d9ea8430',
    'da|(1, 9)|float32|p1|c2|sync': 'e5c9d74d79cc7de7d9ea8430',
    'da|(1, 9)|float32|p1|c2|thr3': 'e5c9d74d79cc7de7d9ea8430',
    'da|(1, 9)|float32|p2|c0|sync': 'ce290e65241b37fd8d572528',
    'da|(1, 9)|float32|p2|c0|thr3': 'ce290e65241b37fd8d572528',
    'da|(1, 9)|float32|p2|c1|sync': 'ce290e65241b37fd8d572528',
    'da|(1, 9)|float32|p2|c1|thr3': 'ce290e65241b37fd8d572528',
    'da|(1, 9)|float32|p2|c2|sync': 'ce290e65241b37fd8d572528',
    'da|(1, 9)|float32|p2|c2|thr3': 'ce290e65241b37fd8d572528',
    'da|(1, 9)|float64|p0|c0|sync': '6cf188447dd53f2314fbdbaa',
    'da|(1, 9)|float64|p0|c0|thr3': '6cf188447dd53f2314fbdbaa',
    'da|(1, 9)|float64|p0|c1|sync': '6cf188447dd53f2314fbdbaa',
    'da|(1, 9)|float64|p0|c1|thr3': '6cf188447dd53f2314fbdbaa',
    'da|(1, 9)|float64|p0|c2|sync': '6cf188447dd53f2314fbdbaa',
    'da|(1, 9)|float64|p0|c2|thr3': '6cf188447dd53f2314fbdbaa',
    'da|(1, 9)|float64|p1|c0|sync': 'e5c9d74d79cc7de7d9ea8430',
    'da|(1, 9)|float64|p1|c0|thr3': 'e5c9d74d79cc7de7d9ea8430',
    'da|(1, 9)|float64|p1|c1|sync': 'e5c9d74d79cc7de7d9ea8430',
    'da|(1, 9)|float64|p1|c1|thr3': 'e5c9d74d79cc7de7d9ea8430',
    'da|(1, 9)|float64|p1|c2|sync': 'e5c9d74d79cc7de7d9ea8430',
    'da|(1, 9)|float64|p1|c2|thr3': 'e5c9d74d79cc7de7d9ea8430',
    'da|(1, 9)|float64|p2|c0|sync': 'ce290e65241b37fd8d572528',
    'da|(1, 9)|float64|p2|c0|thr3': 'ce290e65241b37fd8d572528',
    'da|(1, 9)|float64|p2|c1|sync': 'ce290e65241b37fd8d572528',
    'da|(1, 9)|float64|p2|c1|thr3': 'ce290e65241b37fd8d572528',
    'da|(1, 9)|float64|p2|c2|sync': 'ce290e65241b37fd8d572528',
    'da|(1, 9)|float64|p2|c2|thr3': 'ce290e65241b37fd8d572528',
    'da|(1, 9)|int16|p0|c0|sync': '0b494f7dbaea0aaa0dedd80a',
    'da|(1, 9)|int16|p0|c0|thr3': '0b494f7dbaea0aaa0dedd80a',
    'da|(1, 9)|int16|p0|c1|sync': '0b494f7dbaea0aaa0dedd80a',
    'da|(1, 9)|int16|p0|c1|thr3': '0b494f7dbaea0aaa0dedd80a',
    'da|(1, 9)|int16|p0|c2|sync': '0b494f7dbaea0aaa0dedd80a',
    'da|(1, 9)|int16|p0|c2|thr3': '0b494f7dbaea0aaa0dedd80a',
    'da|(1, 9)|int16|p1|c0|sync': '6d2b17bbea06235234c38ddf',
    'da|(1, 9)|int16|p1|c0|thr3': '6d2b17bbea06235234c38ddf',
    'da|(1, 9)|int16|p1|c1|sync': '6d2b17bbea06235234c38ddf',
    'da|(1, 9)|int16|p1|c1|thr3': '6d2b17bbea06235234c38ddf',
    'da|(1, 9)|int16|p1|c2|sync': '6d2b17bbea06235234c38ddf',
    'da|(1, 9)|int16|p1|c2|thr3': '6d2b17bbea06235234c38ddf',
    'da|(1, 9)|int16|p2|c0|sync': '2808dc981f2bbc642d3d507a',
    'da|(1, 9)|int16|p2|c0|thr3': '2808dc981f2bbc642d3d507a',
    'da|(1, 9)|int16|p2|c1|sync': '2808dc981f2bbc642d3d507a',
    'da|(1, 9)|int16|p2|c1|thr3': '2808dc981f2bbc642d3d507a',
    'da|(1, 9)|int16|p2|c2|sync': '2808dc981f2bbc642d3d507a',
    'da|(1, 9)|int16|p2|c2|thr3': '2808dc981f2bbc642d3d507a',
    'da|(1, 9)|int64|p0|c0|sync': '0b494f7dbaea0aaa0dedd80a',
    'da|(1, 9)|int64|p0|c0|thr3': '0b494f7dbaea0aaa0dedd80a',
    'da|(1, 9)|int64|p0|c1|sync': '0b494f7dbaea0aaa0dedd80a',
    'da|(1, 9)|int64|p0|c1|thr3': '0b494f7dbaea0aaa0dedd80a',
    'da|(1, 9)|int64|p0|c2|sync': '0b494f7dbaea0aaa0dedd80a',
    'da|(1, 9)|int64|p0|c2|thr3': '0b494f7dbaea0aaa0dedd80a',
    'da|(1, 9)|int64|p1|c0|sync': '6d2b17bbea06235234c38ddf',
    'da|(1, 9)|int64|p1|c0|thr3': '6d2b17bbea06235234c38ddf',
    'da|(1, 9)|int64|p1|c1|sync': '6d2b17bbea06235234c38ddf',
    'da|(1, 9)|int64|p1|c1|thr3': '6d2b17bbea06235234c38ddf',
    'da|(1, 9)|int64|p1|c2|sync': '6d2b17bbea06235234c38ddf',
    'da|(1, 9)|int64|p1|c2|thr3': '6d2b17bbea06235234c38ddf',
    'da|(1, 9)|int64|p2|c0|sync': '2808dc981f2bbc642d3d507a',
    'da|(1, 9)|int64|p2|c0|thr3': '2808dc981f2bbc642d3d507a',
    'da|(1, 9)|int64|p2|c1|sync': '2808dc981f2bbc642d3d507a',
    'da|(1, 9)|int64|p2|c1|thr3': '2808dc981f2bbc642d3d507a',
    'da|(1, 9)|int64|p2|c2|sync': '2808dc981f2bbc642d3d507a',
    'da|(1, 9)|int64|p2|c2|thr3': '2808dc981f2bbc642d3d507a',
    'da|(1, 9)|uint16|p0|c0|sync': '0b494f7dbaea0aaa0dedd80a',
    'da|(1, 9)|uint16|p0|c0|thr3': '0b494f7dbaea0aaa0dedd80a',
    'da|(1, 9)|uint16|p0|c1|sync': '0b494f7dbaea0aaa0dedd80a',
    'da|(1, 9)|uint16|p0|c1|thr3': '0b494f7dbaea0aaa0dedd80a',
    'da|(1, 9)|uint16|p0|c2|sync': '0b494f7dbaea0aaa0dedd80a',
    'da|(1, 9)|uint16|p0|c2|thr3': '0b494f7dbaea0aaa0dedd80a',
    'da|(1, 9)|uint16|p1|c0|sync': '6d2b17bbea06235234c38ddf',
    'da|(1, 9)|uint16|p1|c0|thr3': '6d2b17bbea06235234c38ddf',
    'da|(1, 9)|uint16|p1|c1|sync': '6d2b17bbea06235234c38ddf',
    'da|(1, 9)|uint16|p1|c1|thr3': '6d2b17bbea06235234c38ddf',
    'da|(1, 9)|uint16|p1|c2|sync': '6d2b17bbea06235234c38ddf',
    'da|(1, 9)|uint16|p1|c2|thr3': '6d2b17bbea06235234c38ddf',
    'da|(1, 9)|uint16|p2|c0|sync': '2808dc981f2bbc642d3d507a',
    'da|(1, 9)|uint16|p2|c0|thr3': '2808dc981f2bbc642d3d507a',
    'da|(1, 9)|uint16|p2|c1|sync': '2808dc981f2bbc642d3d507a',
    'da|(1, 9)|uint16|p2|c1|thr3': '2808dc981f2bbc642d3d507a',
    'da|(1, 9)|uint16|p2|c2|sync': '2808dc981f2bbc642d3d507a',
    'da|(1, 9)|uint16|p2|c2|thr3': '2808dc981f2bbc642d3d507a',
    'da|(3, 1)|float32|p0|c0|sync': '96cd3c11c9d8d25276ab4767',
    'da|(3, 1)|float32|p0|c0|thr3': '96cd3c11c9d8d25276ab4767',
    'da|(3, 1)|float32|p0|c1|sync': '96cd3c11c9d8d25276ab4767',
    'da|(3, 1)|float32|p0|c1|thr3': '96cd3c11c9d8d25276ab4767',
    'da|(3, 1)|float32|p1|c0|sync': 'bc31d8b8f8ef7d6d0865ed08',
    'da|(3, 1)|float32|p1|c0|thr3': 'bc31d8b8f8ef7d6d0865ed08',
    'da|(3, 1)|float32|p1|c1|sync': 'bc31d8b8f8ef7d6d0865ed08',
    'da|(3, 1)|float32|p1|c1|thr3': 'bc31d8b8f8ef7d6d0865ed08',
    'da|(3, 1)|float32|p2|c0|sync': 'af58e8099b32d85669593a99',
    'da|(3, 1)|float32|p2|c0|thr3': 'af58e8099b32d85669593a99',
    'da|(3, 1)|float32|p2|c1|sync': 'af58e8099b32d85669593a99',
    'da|(3, 1)|float32|p2|c1|thr3': 'af58e8099b32d85669593a99',
    'da|(3, 1)|float64|p0|c0|sync': '96cd3c11c9d8d25276ab4767',
    'da|(3, 1)|float64|p0|c0|thr3': '96cd3c11c9d8d25276ab4767',
    'da|(3, 1)|float64|p0|c1|sync': '96cd3c11c9d8d25276ab4767',
    'da|(3, 1)|float64|p0|c1|thr3': '96cd3c11c9d8d25276ab4767',
    'da|(3, 1)|float64|p1|c0|sync': 'bc31d8b8f8ef7d6d0865ed08',
    'da|(3, 1)|float64|p1|c0|thr3': 'bc31d8b8f8ef7d6d0865ed08',
    'da|(3, 1)|float64|p1|c1|sync': 'bc31d8b8f8ef7d6d0865ed08',
    'da|(3, 1)|float64|p1|c1|thr3': 'bc31d8b8f8ef7d6d0865ed08',
    'da|(3, 1)|float64|p2|c0|sync': 'af58e8099b32d85669593a99',
    'da|(3, 1)|float64|p2|c0|thr3': 'af58e8099b32d85669593a99',
    'da|(3, 1)|float64|p2|c1|sync': 'af58e8099b32d85669593a99',
    'da|(3, 1)|float64|p2|c1|thr3': 'af58e8099b32d85669593a99',
    'da|(3, 1)|int16|p0|c0|sync': '26fee174caba17f406953b30',
    'da|(3, 1)|int16|p0|c0|thr3': '26fee174caba17f406953b30',
    'da|(3, 1)|int16|p0|c1|sync': '26fee174caba17f406953b30',
    'da|(3, 1)|int16|p0|c1|thr3': '26fee174caba17f406953b30',
    'da|(3, 1)|int16|p1|c0|sync': 'c4db173d096ebd78d44e44a0',
    'da|(3, 1)|int16|p1|c0|thr3': 'c4db173d096ebd78d44e44a0',
    'da|(3, 1)|int16|p1|c1|sync': 'c4db173d096ebd78d44e44a0',
    'da|(3, 1)|int16|p1|c1|thr3': 'c4db173d096ebd78d44e44a0',
    'da|(3, 1)|int16|p2|c0|sync': '987997f33cdcd1cb2d628b91',
    'da|(3, 1)|int16|p2|c0|thr3': '987997f33cdcd1cb2d628b91',
    'da|(3, 1)|int16|p2|c1|sync': '987997f33cdcd1cb2d628b91',
    'da|(3, 1)|int16|p2|c1|thr3': '987997f33cdcd1cb2d628b91',
    'da|(3, 1)|int64|p0|c0|sync': '26fee174caba17f406953b30',
    'da|(3, 1)|int64|p0|c0|thr3': '26fee174caba17f406953b30',
    'da|(3, 1)|int64|p0|c1|sync': '26fee174caba17f406953b30',
    'da|(3, 1)|int64|p0|c1|thr3': '26fee174caba17f406953b30',
    'da|(3, 1)|int64|p1|c0|sync': 'c4db173d096ebd78d44e44a0',
    'da|(3, 1)|int64|p1|c0|thr3': 'c4db173d096ebd78d44e44a0',
    'da|(3, 1)|int64|p1|c1|sync': 'c4db173d096ebd78d44e44a0',
    'da|(3, 1)|int64|p1|c1|thr3': 'c4db173d096ebd78d44e44a0',
    'da|(3, 1)|int64|p2|c0|sync': '987997f33cdcd1cb2d628b91',
    'da|(3, 1)|int64|p2|c0|thr3': '987997f33cdcd1cb2d628b91',
    'da|(3, 1)|int64|p2|c1|sync': '987997f33cdcd1cb2d628b91',
    'da|(3, 1)|int64|p2|c1|thr3': '987997f33cdcd1cb2d628b91',
    'da|(3, 1)|uint16|p0|c0|sync': '26fee174caba17f406953b30',
    'da|(3, 1)|uint16|p0|c0|thr3': '26fee174caba17f406953b30',
    'da|(3, 1)|uint16|p0|c1|sync': '26fee174caba17f406953b30',
    'da|(3, 1)|uint16|p0|c1|thr3': '26fee174caba17f406953b30',
    'da|(3, 1)|uint16|p1|c0|sync': 'c4db173d096ebd78d44e44a0',
    'da|(3, 1)|uint16|p1|c0|thr3': 'c4db173d096ebd78d44e44a0',
    'da|(3, 1)|uint16|p1|c1|sync': 'c4db173d096ebd78d44e44a0',
    'da|(3, 1)|uint16|p1|c1|thr3': 'c4db173d096ebd78d44e44a0',
    'da|(3, 1)|uint16|p2|c0|sync': '987997f33cdcd1cb2d628b91',
    'da|(3, 1)|uint16|p2|c0|thr3': '987997f33cdcd1cb2d628b91',
    'da|(3, 1)|uint16|p2|c1|sync': '987997f33cdcd1cb2d628b91',
    'da|(3, 1)|uint16|p2|c1|thr3': '987997f33cdcd1cb2d628b91',
    'da|(5, 7)|float32|p0|c0|sync': '211bd83c960cc76e4acb2bb9',
    'da|(5, 7)|float32|p0|c0|thr3': '211bd83c960cc76e4acb2bb9',
    'da|(5, 7)|float32|p0|c1|sync': '211bd83c960cc76e4acb2bb9',
    'da|(5, 7)|float32|p0|c1|thr3': '211bd83c960cc76e4acb2bb9',
    'da|(5, 7)|float32|p0|c2|sync': '211bd83c960cc76e4acb2bb9',
    'da|(5, 7)|float32|p0|c2|thr3': '211bd83c960cc76e4acb2bb9',
    'da|(5, 7)|float32|p0|c3|sync': '211bd83c960cc76e4acb2bb9',
    'da|(5, 7)|float32|p0|c3|thr3': '211bd83c960cc76e4acb2bb9',
    'da|(5, 7)|float32|p0|c4|sync': '211bd83c960cc76e4acb2bb9',
    'da|(5, 7)|float32|p0|c4|thr3': '211bd83c960cc76e4acb2bb9',
    'da|(5, 7)|float32|p0|c5|sync': '211bd83c960cc76e4acb2bb9',
    'da|(5, 7)|float32|p0|c5|thr3': '211bd83c960cc76e4acb2bb9',
    'da|(5, 7)|float32|p1|c0|sync': '29ab21d5ff16336bcbe3ca89',
    'da|(5, 7)|float32|p1|c0|thr3': '29ab21d5ff16336bcbe3ca89',
    'da|(5, 7)|float32|p1|c1|sync': '29ab21d5ff16336bcbe3ca89',
    'da|(5, 7)|float32|p1|c1|thr3': '29ab21d5ff16336bcbe3ca89',
    'da|(5, 7)|float32|p1|c2|sync': '29ab21d5ff16336bcbe3ca89',
    'da|(5, 7)|float32|p1|c2|thr3': '29ab21d5ff16336bcbe3ca89',
    'da|(5, 7)|float32|p1|c3|sync': '29ab21d5ff16336bcbe3ca89',
    'da|(5, 7)|float32|p1|c3|thr3': '29ab21d5ff16336bcbe3ca89',
    'da|(5, 7)|float32|p1|c4|sync': '29ab21d5ff16336bcbe3ca89',
    'da|(5, 7)|float32|p1|c4|thr3': '29ab21d5ff16336bcbe3ca89',
    'da|(5, 7)|float32|p1|c5|sync': '29ab21d5ff16336bcbe3ca89',
    'da|(5, 7)|float32|p1|c5|thr3': '29ab21d5ff16336bcbe3ca89',
    'da|(5, 7)|float32|p2|c0|sync': '98f1f0b278ddea2a2c343b4b',
    'da|(5, 7)|float32|p2|c0|thr3': '98f1f0b278ddea2a2c343b4b',
    'da|(5, 7)|float32|p2|c1|sync': '98f1f0b278ddea2a2c343b4b',
    'da|(5, 7)|float32|p2|c1|thr3': '98f1f0b278ddea2a2c343b4b',
    'da|(5, 7)|float32|p2|c2|sync': '98f1f0b278ddea2a2c343b4b',
    'da|(5, 7)|float32|p2|c2|thr3': '98f1f0b278ddea2a2c343b4b',
    'da|(5, 7)|float32|p2|c3|sync': '98f1f0b278ddea2a2c343b4b',
    'da|(5, 7)|float32|p2|c3|thr3': '98f1f0b278ddea2a2c343b4b',
    'da|(5, 7)|float32|p2|c4|sync': '98f1f0b278ddea2a2c343b4b',
    'da|(5, 7)|float32|p2|c4|thr3': '98f1f0b278ddea2a2c343b4b',
    'da|(5, 7)|float32|p2|c5|sync': '98f1f0b278ddea2a2c343b4b',
    'da|(5, 7)|float32|p2|c5|thr3': '98f1f0b278ddea2a2c343b4b',
    'da|(5, 7)|float64|p0|c0|sync': '211bd83c960cc76e4acb2bb9',
    'da|(5, 7)|float64|p0|c0|thr3': '211bd83c960cc76e4acb2bb9',
    'da|(5, 7)|float64|p0|c1|sync': '211bd83c960cc76e4acb2bb9',
    'da|(5, 7)|float64|p0|c1|thr3': '211bd83c960cc76e4acb2bb9',
    'da|(5, 7)|float64|p0|c2|sync': '211bd83c960cc76e4acb2bb9',
    'da|(5, 7)|float64|p0|c2|thr3': '211bd83c960cc76e4acb2bb9',
    'da|(5, 7)|float64|p0|c3|sync': '211bd83c960cc76e4acb2bb9',
    'da|(5, 7)|float64|p0|c3|thr3': '211bd83c960cc76e4acb2bb9',
    'da|(5, 7)|float64|p0|c4|sync': '211bd83c960cc76e4acb2bb9',
    'da|(5, 7)|float64|p0|c4|thr3': '211bd83c960cc76e4acb2bb9',
    'da|(5, 7)|float64|p0|c5|sync': '211bd83c960cc76e4acb2bb9',
    'da|(5, 7)|float64|p0|c5|thr3': '211bd83c960cc76e4acb2bb9',
    'da|(5, 7)|float64|p1|c0|sync': '29ab21d5ff16336bcbe3ca89',
    'da|(5, 7)|float64|p1|c0|thr3': '29ab21d5ff16336bcbe3ca89',
    'da|(5, 7)|float64|p1|c1|sync': '29ab21d5ff16336bcbe3ca89',
    'da|(5, 7)|float64|p1|c1|thr3': '29ab21d5ff16336bcbe3ca89',
    'da|(5, 7)|float64|p1|c2|sync': '29ab21d5ff16336bcbe3ca89',
    'da|(5, 7)|float64|p1|c2|thr3': '29ab21d5ff16336bcbe3ca89',
    'da|(5, 7)|float64|p1|c3|sync': '29ab21d5ff16336bcbe3ca89',
    'da|(5, 7)|float64|p1|c3|thr3': '29ab21d5ff16336bcbe3ca89',
    'da|(5, 7)|float64|p1|c4|sync': '29ab21d5ff16336bcbe3ca89',
    'da|(5, 7)|float64|p1|c4|thr3': '29ab21d5ff16336bcbe3ca89',
    'da|(5, 7)|float64|p1|c5|sync': '29ab21d5ff16336bcbe3ca89',
    'da|(5, 7)|float64|p1|c5|thr3': '29ab21d5ff16336bcbe3ca89',
    'da|(5, 7)|float64|p2|c0|sync': '98f1f0b278ddea2a2c343b4b',
    'da|(5, 7)|float64|p2|c0|thr3': '98f1f0b278ddea2a2c343b4b',
    'da|(5, 7)|float64|p2|c1|sync': '98f1f0b278ddea2a2c343b4b',
    'da|(5, 7)|float64|p2|c1|thr3': '98f1f0b278ddea2a2c343b4b',
    'da|(5, 7)|float64|p2|c2|sync': '98f1f0b278ddea2a2c343b4b',
    'da|(5, 7)|float64|p2|c2|thr3': '98f1f0b278ddea2a2c343b4b',
    'da|(5, 7)|float64|p2|c3|sync': '98f1f0b278ddea2a2c343b4b',
    'da|(5, 7)|float64|p2|c3|thr3': '98f1f0b278ddea2a2c343b4b',
    'da|(5, 7)|float64|p2|c4|sync': '98f1f0b278ddea2a2c343b4b',
    'da|(5, 7)|float64|p2|c4|thr3': '98f1f0b278ddea2a2c343b4b',
    'da|(5, 7)|float64|p2|c5|sync': '98f1f0b278ddea2a2c343b4b',
    'da|(5, 7)|float64|p2|c5|thr3': '98f1f0b278ddea2a2c343b4b',
    'da|(5, 7)|int16|p0|c0|sync': '2b1825ba2a4a82d3a81bc35f',
    'da|(5, 7)|int16|p0|c0|thr3': '2b1825ba2a4a82d3a81bc35f',
    'da|(5, 7)|int16|p0|c1|sync': '2b1825ba2a4a82d3a81bc35f',
    'da|(5, 7)|int16|p0|c1|thr3': '2b1825ba2a4a82d3a81bc35f',
    'da|(5, 7)|int16|p0|c2|sync': '2b1825ba2a4a82d3a81bc35f',
    'da|(5, 7)|int16|p0|c2|thr3': '2b1825ba2a4a82d3a81bc35f',
    'da|(5, 7)|int16|p0|c3|sync': '2b1825ba2a4a82d3a81bc35f',
    'da|(5, 7)|int16|p0|c3|thr3': '2b1825ba2a4a82d3a81bc35f',
    'da|(5, 7)|int16|p0|c4|sync': '2b1825ba2a4a82d3a81bc35f',
    'da|(5, 7)|int16|p0|c4|thr3': '2b1825ba2a4a82d3a81bc35f',
    'da|(5, 7)|int16|p0|c5|sync': '2b1825ba2a4a82d3a81bc35f',
    'da|(5, 7)|int16|p0|c5|thr3': '2b1825ba2a4a82d3a81bc35f',
    'da|(5, 7)|int16|p1|c0|sync': 'a90d6b1d97930557c6f4770b',
    'da|(5, 7)|int16|p1|c0|thr3': 'a90d6b1d97930557c6f4770b',
    'da|(5, 7)|int16|p1|c1|sync': 'a90d6b1d97930557c6f4770b',
    'da|(5, 7)|int16|p1|c1|thr3': 'a90d6b1d97930557c6f4770b',
    'da|(5, 7)|int16|p1|c2|sync': 'a90d6b1d97930557c6f4770b',
    'da|(5, 7)|int16|p1|c2|thr3': 'a90d6b1d97930557c6f4770b',
    'da|(5, 7)|int16|p1|c3|sync': 'a90d6b1d97930557c6f4770b',
    'da|(5, 7)|int16|p1|c3|thr3': 'a90d6b1d97930557c6f4770b',
    'da|(5, 7)|int16|p1|c4|sync': 'a90d6b1d97930557c6f4770b',
    'da|(5, 7)|int16|p1|c4|thr3': 'a90d6b1d97930557c6f4770b',
    'da|(5, 7)|int16|p1|c5|sync': 'a90d6b1d97930557c6f4770b',
    'da|(5, 7)|int16|p1|c5|thr3': 'a90d6b1d97930557c6f4770b',
    'da|(5, 7)|int16|p2|c0|sync': 'bb5f18c11addf1e26c2c9730',
    'da|(5, 7)|int16|p2|c0|thr3': 'bb5f18c11addf1e26c2c9730',
    'da|(5, 7)|int16|p2|c1|sync': 'bb5f18c11addf1e26c2c9730',
    'da|(5, 7)|int16|p2|c1|thr3': 'bb5f18c11addf1e26c2c9730',
    'da|(5, 7)|int16|p2|c2|sync': 'bb5f18c11addf1e26c2c9730',
    'da|(5, 7)|int16|p2|c2|thr3': 'bb5f18c11addf1e26c2c9730',
    'da|(5, 7)|int16|p2|c3|sync': 'bb5f18c11addf1e26c2c9730',
    'da|(5, 7)|int16|p2|c3|thr3': 'bb5f18c11addf1e26c2c9730',
    'da|(5, 7)|int16|p2|c4|sync': 'bb5f18c11addf1e26c2c9730',
    'da|(5, 7)|int16|p2|c4|thr3': 'bb5f18c11addf1e26c2c9730',
    'da|(5, 7)|int16|p2|c5|sync': 'bb5f18c11addf1e26c2c9730',
    'da|(5, 7)|int16|p2|c5|thr3': 'bb5f18c11addf1e26c2c9730',
    'da|(5, 7)|int64|p0|c0|sync': '2b1825ba2a4a82d3a81bc35f',
    'da|(5, 7)|int64|p0|c0|thr3': '2b1825ba2a4a82d3a81bc35f',
    'da|(5, 7)|int64|p0|c1|sync': '2b1825ba2a4a82d3a81bc35f',
    'da|(5, 7)|int64|p0|c1|thr3': '2b1825ba2a4a82d3a81bc35f',
    'da|(5, 7)|int64|p0|c2|sync': '2b1825ba2a4a82d3a81bc35f',
    'da|(5, 7)|int64|p0|c2|thr3': '2b1825ba2a4a82d3a81bc35f',
    'da|(5, 7)|int64|p0|c3|sync': '2b1825ba2a4a82d3a81bc35f',
    'da|(5, 7)|int64|p0|c3|thr3': '2b1825ba2a4a82d3a81bc35f',
    'da|(5, 7)|int64|p0|c4|sync': '2b1825ba2a4a82d3a81bc35f',
    'da|(5, 7)|int64|p0|c4|thr3': '2b1825ba2a4a82d3a81bc35f',
    'da|(5, 7)|int64|p0|c5|sync': '2b1825ba2a4a82d3a81bc35f',
    'da|(5, 7)|int64|p0|c5|thr3': '2b1825ba2a4a82d3a81bc35f',
    'da|(5, 7)|int64|p1|c0|sync': 'a90d6b1d97930557c6f4770b',
    'da|(5, 7)|int64|p1|c0|thr3': 'a90d6b1d97930557c6f4770b',
    'da|(5, 7)|int64|p1|c1|sync': 'a90d6b1d97930557c6f4770b',
    'da|(5, 7)|int64|p1|c1|thr3': 'a90d6b1d97930557c6f4770b',
    'da|(5, 7)|int64|p1|c2|sync': 'a90d6b1d97930557c6f4770b',
    'da|(5, 7)|int64|p1|c2|thr3': 'a90d6b1d97930557c6f4770b',
    'da|(5, 7)|int64|p1|c3|sync': 'a90d6b1d97930557c6f4770b',
    'da|(5, 7)|int64|p1|c3|thr3': 'a90d6b1d97930557c6f4770b',
    'da|(5, 7)|int64|p1|c4|sync': 'a90d6b1d97930557c6f4770b',
    'da|(5, 7)|int64|p1|c4|thr3': 'a90d6b1d97930557c6f4770b',
    'da|(5, 7)|int64|p1|c5|sync': 'a90d6b1d97930557c6f4770b',
    'da|(5, 7)|int64|p1|c5|thr3': 'a90d6b1d97930557c6f4770b',
    'da|(5, 7)|int64|p2|c0|sync': 'bb5f18c11addf1e26c2c9730',
    'da|(5, 7)|int64|p2|c0|thr3': 'bb5f18c11addf1e26c2c9730',
    'da|(5, 7)|int64|p2|c1|sync': 'bb5f18c11addf1e26c2c9730',
    'da|(5, 7)|int64|p2|c1|thr3': 'bb5f18c11addf1e26c2c9730',
    'da|(5, 7)|int64|p2|c2|sync': 'bb5f18c11addf1e26c2c9730',
    'da|(5, 7)|int64|p2|c2|thr3': 'bb5f18c11addf1e26c2c9730',
    'da|(5, 7)|int64|p2|c3|sync': 'bb5f18c11addf1e26c2c9730',
    'da|(5, 7)|int64|p2|c3|thr3': 'bb5f18c11addf1e26c2c9730',
    'da|(5, 7)|int64|p2|c4|sync': 'bb5f18c11addf1e26c2c9730',
    'da|(5, 7)|int64|p2|c4|thr3': 'bb5f18c11addf1e26c2c9730',
    'da|(5, 7)|int64|p2|c5|sync': 'bb5f18c11addf1e26c2c9730',
    'da|(5, 7)|int64|p2|c5|thr3': 'bb5f18c11addf1e26c2c9730',
    'da|(5, 7)|uint16|p0|c0|sync': '2b1825ba2a4a82d3a81bc35f',
    'da|(5, 7)|uint16|p0|c0|thr3': '2b1825ba2a4a82d3a81bc35f',
    'da|(5, 7)|uint16|p0|c1|sync': '2b1825ba2a4a82d3a81bc35f',
    'da|(5, 7)|uint16|p0|c1|thr3': '2b1825ba2a4a82d3a81bc35f',
    'da|(5, 7)|uint16|p0|c2|sync': '2b1825ba2a4a82d3a81bc35f',
    'da|(5, 7)|uint16|p0|c2|thr3': '2b1825ba2a4a82d3a81bc35f',
    'da|(5, 7)|uint16|p0|c3|sync': '2b1825ba2a4a82d3a81bc35f',
    'da|(5, 7)|uint16|p0|c3|thr3': '2b1825ba2a4a82d3a81bc35f',
    'da|(5, 7)|uint16|p0|c4|sync': '2b1825ba2a4a82d3a81bc35f',
    'da|(5, 7)|uint16|p0|c4|thr3': '2b1825ba2a4a82d3a81bc35f',
    'da|(5, 7)|uint16|p0|c5|sync': '2b1825ba2a4a82d3a81bc35f',
    'da|(5, 7)|uint16|p0|c5|thr3': '2b1825ba2a4a82d3a81bc35f',
    'da|(5, 7)|uint16|p1|c0|sync': 'a90d6b1d97930557c6f4770b',
    'da|(5, 7)|uint16|p1|c0|thr3': 'a90d6b1d97930557c6f4770b',
    'da|(5, 7)|uint16|p1|c1|sync': 'a90d6b1d97930557c6f4770b',
    'da|(5, 7)|uint16|p1|c1|thr3': 'a90d6b1d97930557c6f4770b',
    'da|(5, 7)|uint16|p1|c2|sync': 'a90d6b1d97930557c6f4770b',
    'da|(5, 7)|uint16|p1|c2|thr3': 'a90d6b1d97930557c6f4770b',
    'da|(5, 7)|uint16|p1|c3|sync': 'a90d6b1d97930557c6f4770b',
    'da|(5, 7)|uint16|p1|c3|thr3': 'a90d6b1d97930557c6f4770b',
    'da|(5, 7)|uint16|p1|c4|sync': 'a90d6b1d97930557c6f4770b',
    'da|(5, 7)|uint16|p1|c4|thr3': 'a90d6b1d97930557c6f4770b',
    'da|(5, 7)|uint16|p1|c5|sync': 'a90d6b1d97930557c6f4770b',
    'da|(5, 7)|uint16|p1|c5|thr3': 'a90d6b1d97930557c6f4770b',
    'da|(5, 7)|uint16|p2|c0|sync': 'bb5f18c11addf1e26c2c9730',
    'da|(5, 7)|uint16|p2|c0|thr3': 'bb5f18c11addf1e26c2c9730',
    'da|(5, 7)|uint16|p2|c1|sync': 'bb5f18c11addf1e26c2c9730',
    'da|(5, 7)|uint16|p2|c1|thr3': 'bb5f18c11addf1e26c2c9730',
    'da|(5, 7)|uint16|p2|c2|sync': 'bb5f18c11addf1e26c2c9730',
    'da|(5, 7)|uint16|p2|c2|thr3': 'bb5f18c11addf1e26c2c9730',
    'da|(5, 7)|uint16|p2|c3|sync': 'bb5f18c11addf1e26c2c9730',
    'da|(5, 7)|uint16|p2|c3|thr3': 'bb5f18c11addf1e26c2c9730',
    'da|(5, 7)|uint16|p2|c4|sync': 'bb5f18c11addf1e26c2c9730',
    'da|(5, 7)|uint16|p2|c4|thr3': 'bb5f18c11addf1e26c2c9730',
    'da|(5, 7)|uint16|p2|c5|sync': 'bb5f18c11addf1e26c2c9730',
    'da|(5, 7)|uint16|p2|c5|thr3': 'bb5f18c11addf1e26c2c9730',
    'da|(6, 4)|float32|p0|c0|sync': '49ae881553e80cead6282c29',
    'da|(6, 4)|float32|p0|c0|thr3': '49ae881553e80cead6282c29',
    'da|(6, 4)|float32|p0|c1|sync': '49ae881553e80cead6282c29',
    'da|(6, 4)|float32|p0|c1|thr3': '49ae881553e80cead6282c29',
    'da|(6, 4)|float32|p0|c2|sync': '49ae881553e80cead6282c29',
    'da|(6, 4)|float32|p0|c2|thr3': '49ae881553e80cead6282c29',
    'da|(6, 4)|float32|p0|c3|sync': '49ae881553e80cead6282c29',
    'da|(6, 4)|float32|p0|c3|thr3': '49ae881553e80cead6282c29',
    'da|(6, 4)|float32|p1|c0|sync': '7cd43a025de588637ec429f2',
    'da|(6, 4)|float32|p1|c0|thr3': '7cd43a025de588637ec429f2',
    'da|(6, 4)|float32|p1|c1|sync': '7cd43a025de588637ec429f2',
    'da|(6, 4)|float32|p1|c1|thr3': '7cd43a025de588637ec429f2',
    'da|(6, 4)|float32|p1|c2|sync': '7cd43a025de588637ec429f2',
    'da|(6, 4)|float32|p1|c2|thr3': '7cd43a025de588637ec429f2',
    'da|(6, 4)|float32|p1|c3|sync': '7cd43a025de588637ec429f2',
    'da|(6, 4)|float32|p1|c3|thr3': '7cd43a025de588637ec429f2',
    'da|(6, 4)|float32|p2|c0|sync': 'e957af8af1f8c557fd0faf38',
    'da|(6, 4)|float32|p2|c0|thr3': 'e957af8af1f8c557fd0faf38',
    'da|(6, 4)|float32|p2|c1|sync': 'e957af8af1f8c557fd0faf38',
    'da|(6, 4)|float32|p2|c1|thr3': 'e957af8af1f8c557fd0faf38',
    'da|(6, 4)|float32|p2|c2|sync': 'e957af8af1f8c557fd0faf38',
    'da|(6, 4)|float32|p2|c2|thr3': 'e957af8af1f8c557fd0faf38',
    'da|(6, 4)|float32|p2|c3|sync': 'e957af8af1f8c557fd0faf38',
    'da|(6, 4)|float32|p2|c3|thr3': 'e957af8af1f8c557fd0faf38',
    'da|(6, 4)|float64|p0|c0|sync': '49ae881553e80cead6282c29',
    'da|(6, 4)|float64|p0|c0|thr3': '49ae881553e80cead6282c29',
    'da|(6, 4)|float64|p0|c1|sync': '49ae881553e80cead6282c29',
    'da|(6, 4)|float64|p0|c1|thr3': '49ae881553e80cead6282c29',
    'da|(6, 4)|float64|p0|c2|sync': '49ae881553e80cead6282c29',
    'da|(6, 4)|float64|p0|c2|thr3': '49ae881553e80cead6282c29',
    'da|(6, 4)|float64|p0|c3|sync': '49ae881553e80cead6282c29',
    'da|(6, 4)|float64|p0|c3|thr3': '49ae881553e80cead6282c29',
    'da|(6, 4)|float64|p1|c0|sync': '7cd43a025de588637ec429f2',
    'da|(6, 4)|float64|p1|c0|thr3': '7cd43a025de588637ec429f2',
    'da|(6, 4)|float64|p1|c1|sync': '7cd43a025de588637ec429f2',
    'da|(6, 4)|float64|p1|c1|thr3': '7cd43a025de588637ec429f2',
    'da|(6, 4)|float64|p1|c2|sync': '7cd43a025de588637ec429f2',
    'da|(6, 4)|float64|p1|c2|thr3': '7cd43a025de588637ec429f2',
    'da|(6, 4)|float64|p1|c3|sync': '7cd43a025de588637ec429f2',
    'da|(6, 4)|float64|p1|c3|thr3': '7cd43a025de588637ec429f2',
    'da|(6, 4)|float64|p2|c0|sync': 'e957af8af1f8c557fd0faf38',
    'da|(6, 4)|float64|p2|c0|thr3': 'e957af8af1f8c557fd0faf38',
    'da|(6, 4)|float64|p2|c1|sync': 'e957af8af1f8c557fd0faf38',
    'da|(6, 4)|float64|p2|c1|thr3': 'e957af8af1f8c557fd0faf38',
    'da|(6, 4)|float64|p2|c2|sync': 'e957af8af1f8c557fd0faf38',
    'da|(6, 4)|float64|p2|c2|thr3': 'e957af8af1f8c557fd0faf38',
    'da|(6, 4)|float64|p2|c3|sync': 'e957af8af1f8c557fd0faf38',
    'da|(6, 4)|float64|p2|c3|thr3': 'e957af8af1f8c557fd0faf38',
    'da|(6, 4)|int16|p0|c0|sync': '882524304e6d2f0dbfdb612c',
    'da|(6, 4)|int16|p0|c0|thr3': '882524304e6d2f0dbfdb612c',
    'da|(6, 4)|int16|p0|c1|sync': '882524304e6d2f0dbfdb612c',
    'da|(6, 4)|int16|p0|c1|thr3': '882524304e6d2f0dbfdb612c',
    'da|(6, 4)|int16|p0|c2|sync': '882524304e6d2f0dbfdb612c',
    'da|(6, 4)|int16|p0|c2|thr3': '882524304e6d2f0dbfdb612c',
    'da|(6, 4)|int16|p0|c3|sync': '882524304e6d2f0dbfdb612c',
    'da|(6, 4)|int16|p0|c3|thr3': '882524304e6d2f0dbfdb612c',
    'da|(6, 4)|int16|p1|c0|sync': 'ba2a0a48a4560dbc3bad9d85',
    'da|(6, 4)|int16|p1|c0|thr3': 'ba2a0a48a4560dbc3bad9d85',
    'da|(6, 4)|int16|p1|c1|sync': 'ba2a0a48a4560dbc3bad9d85',
    'da|(6, 4)|int16|p1|c1|thr3': 'ba2a0a48a4560dbc3bad9d85',
    'da|(6, 4)|int16|p1|c2|sync': 'ba2a0a48a4560dbc3bad9d85',
    'da|(6, 4)|int16|p1|c2|thr3': 'ba2a0a48a4560dbc3bad9d85',
    'da|(6, 4)|int16|p1|c3|sync': 'ba2a0a48a4560dbc3bad9d85',
    'da|(6, 4)|int16|p1|c3|thr3': 'ba2a0a48a4560dbc3bad9d85',
    'da|(6, 4)|int16|p2|c0|sync': '363e26652929541f8554d46f',
    'da|(6, 4)|int16|p2|c0|thr3': '363e26652929541f8554d46f',
    'da|(6, 4)|int16|p2|c1|sync': '363e26652929541f8554d46f',
    'da|(6, 4)|int16|p2|c1|thr3': '363e26652929541f8554d46f',
    'da|(6, 4)|int16|p2|c2|sync': '363e26652929541f8554d46f',
    'da|(6, 4)|int16|p2|c2|thr3': '363e26652929541f8554d46f',
    'da|(6, 4)|int16|p2|c3|sync': '363e26652929541f8554d46f',
    'da|(6, 4)|int16|p2|c3|thr3': '363e26652929541f8554d46f',
    'da|(6, 4)|int64|p0|c0|sync': '882524304e6d2f0dbfdb612c',
    'da|(6, 4)|int64|p0|c0|thr3': '882524304e6d2f0dbfdb612c',
    'da|(6, 4)|int64|p0|c1|sync': '882524304e6d2f0dbfdb612c',
    'da|(6, 4)|int64|p0|c1|thr3': '882524304e6d2f0dbfdb612c',
    'da|(6, 4)|int64|p0|c2|sync': '882524304e6d2f0dbfdb612c',
    'da|(6, 4)|int64|p0|c2|thr3': '882524304e6d2f0dbfdb612c',
    'da|(6, 4)|int64|p0|c3|sync': '882524304e6d2f0dbfdb612c',
    'da|(6, 4)|int64|p0|c3|thr3': '882524304e6d2f0dbfdb612c',
    'da|(6, 4)|int64|p1|c0|sync': 'ba2a0a48a4560dbc3bad9d85',
    'da|(6, 4)|int64|p1|c0|thr3': 'ba2a0a48a4560dbc3bad9d85',
    'da|(6, 4)|int64|p1|c1|sync': 'ba2a0a48a4560dbc3bad9d85',
    'da|(6, 4)|int64|p1|c1|thr3': 'ba2a0a48a4560dbc3bad9d85',
    'da|(6, 4)|int64|p1|c2|sync': 'ba2a0a48a4560dbc3bad9d85',
    'da|(6, 4)|int64|p1|c2|thr3': 'ba2a0a48a4560dbc3bad9d85',
    'da|(6, 4)|int64|p1|c3|sync': 'ba2a0a48a4560dbc3bad9d85',
    'da|(6, 4)|int64|p1|c3|thr3': 'ba2a0a48a4560dbc3bad9d85',
    'da|(6, 4)|int64|p2|c0|sync': '363e26652929541f8554d46f',
    'da|(6, 4)|int64|p2|c0|thr3': '363e26652929541f8554d46f',
    'da|(6, 4)|int64|p2|c1|sync': '363e26652929541f8554d46f',
    'da|(6, 4)|int64|p2|c1|thr3': '363e26652929541f8554d46f',
    'da|(6, 4)|int64|p2|c2|sync': '363e26652929541f8554d46f',
    'da|(6, 4)|int64|p2|c2|thr3': '363e26652929541f8554d46f',
    'da|(6, 4)|int64|p2|c3|sync': '363e26652929541f8554d46f',
    'da|(6, 4)|int64|p2|c3|thr3': '363e26652929541f8554d46f',
    'da|(6, 4)|uint16|p0|c0|sync': '882524304e6d2f0dbfdb612c',
    'da|(6, 4)|uint16|p0|c0|thr3': '882524304e6d2f0dbfdb612c',
    'da|(6, 4)|uint16|p0|c1|sync': '882524304e6d2f0dbfdb612c',
    'da|(6, 4)|uint16|p0|c1|thr3': '882524304e6d2f0dbfdb612c',
    'da|(6, 4)|uint16|p0|c2|sync': '882524304e6d2f0dbfdb612c',
    'da|(6, 4)|uint16|p0|c2|thr3': '882524304e6d2f0dbfdb612c',
    'da|(6, 4)|uint16|p0|c3|sync': '882524304e6d2f0dbfdb612c',
    'da|(6, 4)|uint16|p0|c3|thr3': '882524304e6d2f0dbfdb612c',
    'da|(6, 4)|uint16|p1|c0|sync': 'ba2a0a48a4560dbc3bad9d85',
    'da|(6, 4)|uint16|p1|c0|thr3': 'ba2a0a48a4560dbc3bad9d85',
    'da|(6, 4)|uint16|p1|c1|sync': 'ba2a0a48a4560dbc3bad9d85',
    'da|(6, 4)|uint16|p1|c1|thr3': 'ba2a0a48a4560dbc3bad9d85',
    'da|(6, 4)|uint16|p1|c2|sync': 'ba2a0a48a4560dbc3bad9d85',
    'da|(6, 4)|uint16|p1|c2|thr3': 'ba2a0a48a4560dbc3bad9d85',
    'da|(6, 4)|uint16|p1|c3|sync': 'ba2a0a48a4560dbc3bad9d85',
    'da|(6, 4)|uint16|p1|c3|thr3': 'ba2a0a48a4560dbc3bad9d85',
    'da|(6, 4)|uint16|p2|c0|sync': '363e26652929541f8554d46f',
    'da|(6, 4)|uint16|p2|c0|thr3': '363e26652929541f8554d46f',
    'da|(6, 4)|uint16|p2|c1|sync': '363e26652929541f8554d46f',
    'da|(6, 4)|uint16|p2|c1|thr3': '363e26652929541f8554d46f',
    'da|(6, 4)|uint16|p2|c2|sync': '363e26652929541f8554d46f',
    'da|(6, 4)|uint16|p2|c2|thr3': '363e26652929541f8554d46f',
    'da|(6, 4)|uint16|p2|c3|sync': '363e26652929541f8554d46f',
    'da|(6, 4)|uint16|p2|c3|thr3': '363e26652929541f8554d46f',
    'da|allnan': '4a52eae2ce3c3becd4ae32f4',
    'da|const': '4399e41998ad7829ab0e297a',
    'np|(1, 9)|float32|p0': '6cf188447dd53f2314fbdbaa',
    'np|(1, 9)|float32|p1': 'e5c9d74d79cc7de7d9ea8430',
    'np|(1, 9)|float32|p2': 'ce290e65241b37fd8d572528',
    'np|(1, 9)|float64|p0': '6cf188447dd53f2314fbdbaa',
    'np|(1, 9)|float64|p1': 'e5c9d74d79cc7de7d9ea8430',
    'np|(1, 9)|float64|p2': 'ce290e65241b37fd8d572528',
    'np|(1, 9)|int16|p0': '0b494f7dbaea0aaa0dedd80a',
    'np|(1, 9)|int16|p1': '6d2b17bbea06235234c38ddf',
    'np|(1, 9)|int16|p2': '2808dc981f2bbc642d3d507a',
    'np|(1, 9)|int64|p0': '0b494f7dbaea0aaa0dedd80a',
    'np|(1, 9)|int64|p1': '6d2b17bbea06235234c38ddf',
    'np|(1, 9)|int64|p2': '2808dc981f2bbc642d3d507a',
    'np|(1, 9)|uint16|p0': '0b494f7dbaea0aaa0dedd80a',
    'np|(1, 9)|uint16|p1': '6d2b17bbea06235234c38ddf',
    'np|(1, 9)|uint16|p2': '2808dc981f2bbc642d3d507a',
    'np|(3, 1)|float32|p0': '96cd3c11c9d8d25276ab4767',
    'np|(3, 1)|float32|p1': 'bc31d8b8f8ef7d6d0865ed08',
    'np|(3, 1)|float32|p2': 'af58e8099b32d85669593a99',
    'np|(3, 1)|float64|p0': '96cd3c11c9d8d25276ab4767',
    'np|(3, 1)|float64|p1': 'bc31d8b8f8ef7d6d0865ed08',
    'np|(3, 1)|float64|p2': 'af58e8099b32d85669593a99',
    'np|(3, 1)|int16|p0': '26fee174caba17f406953b30',
    'np|(3, 1)|int16|p1': 'c4db173d096ebd78d44e44a0',
    'np|(3, 1)|int16|p2': '987997f33cdcd1cb2d628b91',
    'np|(3, 1)|int64|p0': '26fee174caba17f406953b30',
    'np|(3, 1)|int64|p1': 'c4db173d096ebd78d44e44a0',
    'np|(3, 1)|int64|p2': '987997f33cdcd1cb2d628b91',
    'np|(3, 1)|uint16|p0': '26fee174caba17f406953b30',
    'np|(3, 1)|uint16|p1': 'c4db173d096ebd78d44e44a0',
    'np|(3, 1)|uint16|p2': '987997f33cdcd1cb2d628b91',
    'np|(5, 7)|float32|p0': '211bd83c960cc76e4acb2bb9',
    'np|(5, 7)|float32|p1': '29ab21d5ff16336bcbe3ca89',
    'np|(5, 7)|float32|p2': '98f1f0b278ddea2a2c343b4b',
    'np|(5, 7)|float64|p0': '211bd83c960cc76e4acb2bb9',
    'np|(5, 7)|float64|p1': '29ab21d5ff16336bcbe3ca89',
    'np|(5, 7)|float64|p2': '98f1f0b278ddea2a2c343b4b',
    'np|(5, 7)|int16|p0': '2b1825ba2a4a82d3a81bc35f',
    'np|(5, 7)|int16|p1': 'a90d6b1d97930557c6f4770b',
    'np|(5, 7)|int16|p2': 'bb5f18c11addf1e26c2c9730',
    'np|(5, 7)|int64|p0': '2b1825ba2a4a82d3a81bc35f',
    'np|(5, 7)|int64|p1': 'a90d6b1d97930557c6f4770b',
    'np|(5, 7)|int64|p2': 'bb5f18c11addf1e26c2c9730',
    'np|(5, 7)|uint16|p0': '2b1825ba2a4a82d3a81bc35f',
    'np|(5, 7)|uint16|p1': 'a90d6b1d97930557c6f4770b',
    'np|(5, 7)|uint16|p2': 'bb5f18c11addf1e26c2c9730',
    'np|(6, 4)|float32|p0': '49ae881553e80cead6282c29',
    'np|(6, 4)|float32|p1': '7cd43a025de588637ec429f2',
    'np|(6, 4)|float32|p2': 'e957af8af1f8c557fd0faf38',
    'np|(6, 4)|float64|p0': '49ae881553e80cead6282c29',
    'np|(6, 4)|float64|p1': '7cd43a025de588637ec429f2',
    'np|(6, 4)|float64|p2': 'e957af8af1f8c557fd0faf38',
    'np|(6, 4)|int16|p0': '882524304e6d2f0dbfdb612c',
    'np|(6, 4)|int16|p1': 'ba2a0a48a4560dbc3bad9d85',
    'np|(6, 4)|int16|p2': '363e26652929541f8554d46f',
    'np|(6, 4)|int64|p0': '882524304e6d2f0dbfdb612c',
    'np|(6, 4)|int64|p1': 'ba2a0a48a4560dbc3bad9d85',
    'np|(6, 4)|int64|p2': '363e26652929541f8554d46f',
    'np|(6, 4)|uint16|p0': '882524304e6d2f0dbfdb612c',
    'np|(6, 4)|uint16|p1': 'ba2a0a48a4560dbc3bad9d85',
    'np|(6, 4)|uint16|p2': '363e26652929541f8554d46f',
    'np|allnan': '4a52eae2ce3c3becd4ae32f4',
    'np|const': '4399e41998ad7829ab0e297a',
}


def digest(a):
    a = np.ascontiguousarray(a)
    h = hashlib.sha256()
    h.update(str(a.dtype).encode())
    h.update(str(a.shape).encode())
    h.update(a.tobytes())
    return h.hexdigest()[:24]


def band(shape, dtype, seed, nans=True):
    rng = np.random.RandomState(seed)
    h, w = shape
    if np.issubdtype(dtype, np.integer):
        data = rng.randint(0, 3000, size=shape).astype(dtype)
        data.flat[:: 5] = 1          # nodata cells
        data.flat[1:: 7] = 0
    else:
        data = (rng.rand(h, w) * 3000).astype(dtype)
        data.flat[:: 5] = 1
        if nans:
            data.flat[2:: 6] = np.nan
            if data.size > 3:
                data.flat[3] = -4.5
    return data


def wrap(data, chunks=None):
    h, w = data.shape
    if chunks is not None:
        data = da.from_array(data, chunks=chunks)
    return xr.DataArray(data, dims=['y', 'x'],
                        coords={'y': np.arange(h)[::-1] * 2.0, 'x': np.arange(w) * 3.0},
                        attrs={'res': (3.0, 2.0), 'k': 'v'})


CHUNKINGS = {
    (5, 7): [(5, 7), (1, 1), (2, 3), ((1, 4), (3, 1, 3)), (5, 1), (1, 7)],
    (6, 4): [(6, 4), (1, 1), (4, 3), ((2, 1, 3), (1, 3))],
    (1, 9): [(1, 9), (1, 1), (1, 4)],
    (3, 1): [(3, 1), (1, 1)],
}
DTYPES = [np.float32, np.float64, np.int16, np.uint16, np.int64]
PARAMS = [dict(), dict(nodata=0, c=7.5, th=0.2), dict(nodata=100.0, c=12.0, th=0.05)]


def run():
    results = {}
    problems = []
    for shape, chunkings in CHUNKINGS.items():
        for dt in DTYPES:
            rgb = [band(shape, dt, seed) for seed in (1, 2, 3)]
            for pi, params in enumerate(PARAMS):
                key = 'np|%s|%s|p%d' % (shape, np.dtype(dt).name, pi)
                out_np = true_color(*[wrap(x) for x in rgb], **params)
                if not isinstance(out_np.data, np.ndarray):
                    problems.append(key + ': not numpy backed')
                if out_np.dims != ('y', 'x', 'band') or out_np.name != 'true_color':
                    problems.append(key + ': dims/name')
                if not out_np.data.flags['C_CONTIGUOUS']:
                    problems.append(key + ': layout')
                results[key] = digest(out_np.data)
                for ci, chunks in enumerate(chunkings):
                    out_da = true_color(*[wrap(x, chunks) for x in rgb], **params)
                    if not isinstance(out_da.data, da.Array):
                        problems.append(key + ': dask result not lazy')
                        continue
                    for sched, kw in (('sync', dict(scheduler='synchronous')),
                                      ('thr3', dict(scheduler='threads', num_workers=3))):
                        with dask.config.set(**kw):
                            got = out_da.data.compute()
                        dkey = 'da|%s|%s|p%d|c%d|%s' % (shape, np.dtype(dt).name, pi, ci, sched)
                        results[dkey] = digest(got)
                        if got.dtype != out_np.data.dtype or got.shape != out_np.shape \
                                or not np.array_equal(got, out_np.data):
                            problems.append(dkey + ': dask != numpy')
    # constant band (range == 0) and all-NaN band
    const = np.full((4, 5), 7.0, dtype=np.float32)
    allnan = np.full((4, 5), np.nan, dtype=np.float64)
    other = band((4, 5), np.float32, 9)
    for name, trio in (('const', (const, other, other)), ('allnan', (other, allnan, const))):
        results['np|' + name] = digest(true_color(*[wrap(x) for x in trio]).data)
        results['da|' + name] = digest(
            true_color(*[wrap(x, (3, 2)) for x in trio]).data.compute(scheduler='synchronous'))
    return results, problems


def main():
    assert xrspatial.__file__.startswith('/tmp/t5/TC01/'), xrspatial.__file__
    results, problems = run()
    if '--record' in sys.argv:
        print('EXPECTED = {')
        for k in sorted(results):
            print('    %r: %r,' % (k, results[k]))
        print('}')
        return 0
    if set(results) != set(EXPECTED):
        problems.append('case set differs from the recorded one')
    for k, v in results.items():
        if EXPECTED.get(k) != v:
            problems.append('%s: digest %s != recorded %s' % (k, v, EXPECTED.get(k)))
    for p in problems[:40]:
        print('FAIL', p)
    print('%d cases, %d problems' % (len(results), len(problems)))
    return 1 if problems else 0


if __name__ == '__main__':
    sys.exit(main())
