"""Differential test for xrspatial.local (property C17).

Runs every public local operator on a deterministic family of datasets
(2..6 layers, ints/floats, ties, NaN, odd shapes, numpy and dask backed) and

  1. compares each result against an independent vectorised numpy oracle, and
  2. compares a sha256 digest of (dtype, shape, bytes, attrs) of every result
     against digests recorded from the unmodified tree.

Exit 0 when everything is identical, 1 otherwise.
`python equiv.py --record` prints the digest table instead of checking it.
"""
import hashlib
import sys

import numpy as np
import xarray as xr

try:
    import dask.array as da
except Exception:  # pragma: no cover
    da = None

import xrspatial
from xrspatial import local as L

EXPECTED = {
    'numpy/(1, 1)/int32/n2/v0': '57e370d7c6b6f88b',
    'numpy/(1, 1)/int32/n2/v1': '57e370d7c6b6f88b',
    'numpy/(1, 1)/int32/n3/v0': 'a2dbc794f2adec49',
    'numpy/(1, 1)/int32/n3/v1': '4b1ffbae2220f9a7',
    'numpy/(1, 1)/int32/n3/v2': 'aad1697e5ad4f136',
    'numpy/(1, 1)/int32/n4/v0': '6049844472da65d8',
    'numpy/(1, 1)/int32/n4/v1': '1da076eb801a7ad7',
    'numpy/(1, 1)/int32/n4/v2': 'c45380a06b095199',
    'numpy/(1, 1)/int32/n5/v0': 'd6d8fbbfb2c6e55f',
    'numpy/(1, 1)/int32/n5/v1': '8801afefb1e4fc3d',
    'numpy/(1, 1)/int32/n5/v2': 'e53da47f977c31e1',
    'numpy/(1, 1)/int32/n6/v0': '53a3f92ae020b547',
    'numpy/(1, 1)/int32/n6/v1': 'd081d45477b9a2ed',
    'numpy/(1, 1)/int32/n6/v2': '903acf3cb13b2ec8',
    'numpy/(1, 1)/int64/n2/v0': '75ceaac6c47a7014',
    'numpy/(1, 1)/int64/n2/v1': '18941ec1a0df2d38',
    'numpy/(1, 1)/int64/n3/v0': 'b27822fc23ae8f2a',
    'numpy/(1, 1)/int64/n3/v1': '27ac2bb62bc9adad',
    'numpy/(1, 1)/int64/n3/v2': '93100c1a82572ba4',
    'numpy/(1, 1)/int64/n4/v0': '6644a77b4435753c',
    'numpy/(1, 1)/int64/n4/v1': 'a2a642613ef28e32',
    'numpy/(1, 1)/int64/n4/v2': '4b129aa1351bae36',
    'numpy/(1, 1)/int64/n5/v0': '3b5b0f7debef3083',
    'numpy/(1, 1)/int64/n5/v1': '6fe6c1c77985543b',
    'numpy/(1, 1)/int64/n5/v2': '8d2d20d7adca04a8',
    'numpy/(1, 1)/int64/n6/v0': 'bab7fa1ffc54629b',
    'numpy/(1, 1)/int64/n6/v1': '3741bc09ccb35714',
    'numpy/(1, 1)/int64/n6/v2': 'ebdec92c5a8b2adb',
    'numpy/(1, 1)/float32/n2/v0': 'fd1de9389b6cbfbd',
    'numpy/(1, 1)/float32/n2/v1': 'fd1de9389b6cbfbd',
    'numpy/(1, 1)/float32/n3/v0': 'f84662d472a703a4',
    'numpy/(1, 1)/float32/n3/v1': 'f7cea343ef5749ff',
    'numpy/(1, 1)/float32/n3/v2': '171cb2108d4897a5',
    'numpy/(1, 1)/float32/n4/v0': '7f0a9b75d106f317',
    'numpy/(1, 1)/float32/n4/v1': '21760771e63b3d7b',
    'numpy/(1, 1)/float32/n4/v2': '2c7f15c60c3ac2cd',
    'numpy/(1, 1)/float32/n5/v0': 'f49ed555c0a2500e',
    'numpy/(1, 1)/float32/n5/v1': '27cf130bfa9861e7',
    'numpy/(1, 1)/float32/n5/v2': 'c499ba82a0b3764a',
    'numpy/(1, 1)/float32/n6/v0': '97e5bd045167cc90',
    'numpy/(1, 1)/float32/n6/v1': '13974fb64219dce7',
    'numpy/(1, 1)/float32/n6/v2': '390e9be3e8ad4dd1',
    'numpy/(1, 1)/float64/n2/v0': '8d5bc861c2276786',
    'numpy/(1, 1)/float64/n2/v1': '8d5bc861c2276786',
    'numpy/(1, 1)/float64/n3/v0': 'c022db2741125e33',
    'numpy/(1, 1)/float64/n3/v1': '5f0c2fa7839ff3a7',
    'numpy/(1, 1)/float64/n3/v2': 'e1775d15097b7176',
    'numpy/(1, 1)/float64/n4/v0': 'bb908d249e750bda',
    'numpy/(1, 1)/float64/n4/v1': 'ceca05e0f4e9d116',
    'numpy/(1, 1)/float64/n4/v2': '533616a9dd83503d',
    'numpy/(1, 1)/float64/n5/v0': '81ef3e069b256e29',
    'numpy/(1, 1)/float64/n5/v1': '3c8a0f4548e140eb',
    'numpy/(1, 1)/float64/n5/v2': '8b77b2ae0865c267',
    'numpy/(1, 1)/float64/n6/v0': 'cb9e1344e8d9af34',
    'numpy/(1, 1)/float64/n6/v1': '5731ccd412eb1a6c',
    'numpy/(1, 1)/float64/n6/v2': 'aa116a156fcf42f9',
    'numpy/(1, 1)/nanfloat64/n2/v0': '9bb10b9c83fa746d',
    'numpy/(1, 1)/nanfloat64/n2/v1': '9bb10b9c83fa746d',
    'numpy/(1, 1)/nanfloat64/n3/v0': '2b0545d824cdf9be',
    'numpy/(1, 1)/nanfloat64/n3/v1': '2b0545d824cdf9be',
    'numpy/(1, 1)/nanfloat64/n3/v2': 'ad6cf8f78d920192',
    'numpy/(1, 1)/nanfloat64/n4/v0': '9bb10b9c83fa746d',
    'numpy/(1, 1)/nanfloat64/n4/v1': '9bb10b9c83fa746d',
    'numpy/(1, 1)/nanfloat64/n4/v2': '9bb10b9c83fa746d',
    'numpy/(1, 1)/nanfloat64/n5/v0': '9bb10b9c83fa746d',
    'numpy/(1, 1)/nanfloat64/n5/v1': '9bb10b9c83fa746d',
    'numpy/(1, 1)/nanfloat64/n5/v2': 'b912fd38a22750f5',
    'numpy/(1, 1)/nanfloat64/n6/v0': '9bb10b9c83fa746d',
    'numpy/(1, 1)/nanfloat64/n6/v1': '9bb10b9c83fa746d',
    'numpy/(1, 1)/nanfloat64/n6/v2': '9bb10b9c83fa746d',
    'numpy/(1, 1)/nanfloat32/n2/v0': '9bb10b9c83fa746d',
    'numpy/(1, 1)/nanfloat32/n2/v1': '9bb10b9c83fa746d',
    'numpy/(1, 1)/nanfloat32/n3/v0': 'e8f49e76ed96eca4',
    'numpy/(1, 1)/nanfloat32/n3/v1': 'c3f235b4533d9123',
    'numpy/(1, 1)/nanfloat32/n3/v2': 'e336888ab8c9230d',
    'numpy/(1, 1)/nanfloat32/n4/v0': '9bb10b9c83fa746d',
    'numpy/(1, 1)/nanfloat32/n4/v1': '9bb10b9c83fa746d',
    'numpy/(1, 1)/nanfloat32/n4/v2': '9bb10b9c83fa746d',
    'numpy/(1, 1)/nanfloat32/n5/v0': '9bb10b9c83fa746d',
    'numpy/(1, 1)/nanfloat32/n5/v1': '9bb10b9c83fa746d',
    'numpy/(1, 1)/nanfloat32/n5/v2': '9bb10b9c83fa746d',
    'numpy/(1, 1)/nanfloat32/n6/v0': 'c0d3c0e3357f4672',
    'numpy/(1, 1)/nanfloat32/n6/v1': '5a66fba130b13545',
    'numpy/(1, 1)/nanfloat32/n6/v2': 'b4d77a45805a97e5',
    'numpy/(1, 1)/mixed/n2/v0': '8e64993c80866c47',
    'numpy/(1, 1)/mixed/n2/v1': '7e1b1897c0c02edb',
    'numpy/(1, 1)/mixed/n3/v0': 'ec137eedb8f0e467',
    'numpy/(1, 1)/mixed/n3/v1': '5a71ea2a0e71e419',
    'numpy/(1, 1)/mixed/n3/v2': 'f96d6f95816cb640',
    'numpy/(1, 1)/mixed/n4/v0': '9bb10b9c83fa746d',
    'numpy/(1, 1)/mixed/n4/v1': '9bb10b9c83fa746d',
    'numpy/(1, 1)/mixed/n4/v2': '9bb10b9c83fa746d',
    'numpy/(1, 1)/mixed/n5/v0': 'c3e57f82508b124d',
    'numpy/(1, 1)/mixed/n5/v1': 'f5040c858c4cf43b',
    'numpy/(1, 1)/mixed/n5/v2': '1a8085f445cf19f2',
    'numpy/(1, 1)/mixed/n6/v0': '9bb10b9c83fa746d',
    'numpy/(1, 1)/mixed/n6/v1': '9bb10b9c83fa746d',
    'numpy/(1, 1)/mixed/n6/v2': '9bb10b9c83fa746d',
    'numpy/(1, 5)/int32/n2/v0': 'bbada5580e6b4b36',
    'numpy/(1, 5)/int32/n2/v1': 'c916457563efc184',
    'numpy/(1, 5)/int32/n3/v0': '23f39453f360b739',
    'numpy/(1, 5)/int32/n3/v1': '0b08186795ae8ee7',
    'numpy/(1, 5)/int32/n3/v2': '950937c600e71342',
    'numpy/(1, 5)/int32/n4/v0': '58494310faf10d5a',
    'numpy/(1, 5)/int32/n4/v1': '0a3cc02805c2bbc1',
    'numpy/(1, 5)/int32/n4/v2': '39a07209e9c8ab71',
    'numpy/(1, 5)/int32/n5/v0': '4b7df2c487b5cda7',
    'numpy/(1, 5)/int32/n5/v1': '0a7de859d56debc3',
    'numpy/(1, 5)/int32/n5/v2': 'e7e322ca250df930',
    'numpy/(1, 5)/int32/n6/v0': 'e2d79f0e9b080b2e',
    'numpy/(1, 5)/int32/n6/v1': 'ab2c7b6f50a31ec9',
    'numpy/(1, 5)/int32/n6/v2': '9f1e94011db67bc6',
    'numpy/(1, 5)/int64/n2/v0': 'e36d8c393c0d2239',
    'numpy/(1, 5)/int64/n2/v1': 'd0d242d93dfd8fd6',
    'numpy/(1, 5)/int64/n3/v0': '266a082ab736e606',
    'numpy/(1, 5)/int64/n3/v1': '5e3ed06fe5bdf86c',
    'numpy/(1, 5)/int64/n3/v2': '1a3cf321d9ded4fc',
    'numpy/(1, 5)/int64/n4/v0': 'b0e63734d5a8178e',
    'numpy/(1, 5)/int64/n4/v1': '5558c4f70f1fffea',
    'numpy/(1, 5)/int64/n4/v2': '269b5820e1f58823',
    'numpy/(1, 5)/int64/n5/v0': '11b55f1d3059fca5',
    'numpy/(1, 5)/int64/n5/v1': '7a9880261196027c',
    'numpy/(1, 5)/int64/n5/v2': '1aa4ec8826f6a6be',
    'numpy/(1, 5)/int64/n6/v0': 'c9b27e9f2c806e74',
    'numpy/(1, 5)/int64/n6/v1': '21ba67d4c3344e19',
    'numpy/(1, 5)/int64/n6/v2': 'f07d07550b7974f4',
    'numpy/(1, 5)/float32/n2/v0': '65eda02ab7eb75e4',
    'numpy/(1, 5)/float32/n2/v1': '6f5e1dc0739bba00',
    'numpy/(1, 5)/float32/n3/v0': '2a5c10f6ec8e9eb2',
    'numpy/(1, 5)/float32/n3/v1': 'c2fc09561e0320f9',
    'numpy/(1, 5)/float32/n3/v2': 'a996ac77d24bd8a1',
    'numpy/(1, 5)/float32/n4/v0': '9927cf8aeadd441c',
    'numpy/(1, 5)/float32/n4/v1': '6f624bd6c94879c8',
    'numpy/(1, 5)/float32/n4/v2': 'ab6148b67ae2dcdc',
    'numpy/(1, 5)/float32/n5/v0': '29c60c05bc42c368',
    'numpy/(1, 5)/float32/n5/v1': 'a2aef1e66a7129c8',
    'numpy/(1, 5)/float32/n5/v2': 'd04a010753436cd9',
    'numpy/(1, 5)/float32/n6/v0': 'e7d665239a0cf8ab',
    'numpy/(1, 5)/float32/n6/v1': '2cc24d41b19bbdd2',
    'numpy/(1, 5)/float32/n6/v2': '2378fbe472419601',
    'numpy/(1, 5)/float64/n2/v0': '842ac849a1053f90',
    'numpy/(1, 5)/float64/n2/v1': '6fc18acaf30c9f22',
    'numpy/(1, 5)/float64/n3/v0': 'd5c58087cf6743bd',
    'numpy/(1, 5)/float64/n3/v1': '8ee13b389f618c40',
    'numpy/(1, 5)/float64/n3/v2': 'd9da44695639bfd6',
    'numpy/(1, 5)/float64/n4/v0': 'b85f3e80be5018d8',
    'numpy/(1, 5)/float64/n4/v1': '456e45f0c840224b',
    'numpy/(1, 5)/float64/n4/v2': 'c18eb07f6c5e52b1',
    'numpy/(1, 5)/float64/n5/v0': 'b915448f6b58b834',
    'numpy/(1, 5)/float64/n5/v1': '5b59c892ad427ad3',
    'numpy/(1, 5)/float64/n5/v2': '2f7427b8241dd3ae',
    'numpy/(1, 5)/float64/n6/v0': '9210b7e578d6c047',
    'numpy/(1, 5)/float64/n6/v1': 'a318a236f9a85e6a',
    'numpy/(1, 5)/float64/n6/v2': '779cdc2482645dfd',
    'numpy/(1, 5)/nanfloat64/n2/v0': '70b48815bc120163',
    'numpy/(1, 5)/nanfloat64/n2/v1': '98af3c081e96ea71',
    'numpy/(1, 5)/nanfloat64/n3/v0': '2b9c6b536b8403c5',
    'numpy/(1, 5)/nanfloat64/n3/v1': '08c2721dbc784679',
    'numpy/(1, 5)/nanfloat64/n3/v2': 'a3f8c5839c5c88e4',
    'numpy/(1, 5)/nanfloat64/n4/v0': 'f3c0dcea006c269e',
    'numpy/(1, 5)/nanfloat64/n4/v1': '7b6d20133575d196',
    'numpy/(1, 5)/nanfloat64/n4/v2': '7a7b1c380e92cd48',
    'numpy/(1, 5)/nanfloat64/n5/v0': 'bd17c7117e3b6d68',
    'numpy/(1, 5)/nanfloat64/n5/v1': '75eba5ca494211d4',
    'numpy/(1, 5)/nanfloat64/n5/v2': 'a771a079cd3d6c87',
    'numpy/(1, 5)/nanfloat64/n6/v0': 'cbed8bdff483ddcc',
    'numpy/(1, 5)/nanfloat64/n6/v1': '42d0f59ab534d12f',
    'numpy/(1, 5)/nanfloat64/n6/v2': '811414d5bd2080c5',
    'numpy/(1, 5)/nanfloat32/n2/v0': '69d441ba6aafe677',
    'numpy/(1, 5)/nanfloat32/n2/v1': '20d95c7b22b73258',
    'numpy/(1, 5)/nanfloat32/n3/v0': '1cea3ca2cda25b89',
    'numpy/(1, 5)/nanfloat32/n3/v1': '949e4841dbc4b8fe',
    'numpy/(1, 5)/nanfloat32/n3/v2': '39c9135b4178e705',
    'numpy/(1, 5)/nanfloat32/n4/v0': '32941fcfa7848feb',
    'numpy/(1, 5)/nanfloat32/n4/v1': '32941fcfa7848feb',
    'numpy/(1, 5)/nanfloat32/n4/v2': '5e70ad5b298c519e',
    'numpy/(1, 5)/nanfloat32/n5/v0': 'fe7b386ffd210e9a',
    'numpy/(1, 5)/nanfloat32/n5/v1': '4b9238181c4f6b14',
    'numpy/(1, 5)/nanfloat32/n5/v2': '30ca5287c6817294',
    'numpy/(1, 5)/nanfloat32/n6/v0': '764cbcff0e147836',
    'numpy/(1, 5)/nanfloat32/n6/v1': '7d40325f385d5ef4',
    'numpy/(1, 5)/nanfloat32/n6/v2': 'e1e618928b9bd48c',
    'numpy/(1, 5)/mixed/n2/v0': '7f6242dbcbcf8a64',
    'numpy/(1, 5)/mixed/n2/v1': 'ff33738d515678ed',
    'numpy/(1, 5)/mixed/n3/v0': 'fceeb4ae5918c587',
    'numpy/(1, 5)/mixed/n3/v1': 'e20fec99fc670095',
    'numpy/(1, 5)/mixed/n3/v2': '20e3a60dffdf6e0f',
    'numpy/(1, 5)/mixed/n4/v0': '85d5801284e02d44',
    'numpy/(1, 5)/mixed/n4/v1': '74398f6e685857af',
    'numpy/(1, 5)/mixed/n4/v2': 'd1ef21ad84c14ae2',
    'numpy/(1, 5)/mixed/n5/v0': '37886e4620e2a76d',
    'numpy/(1, 5)/mixed/n5/v1': '3a85a382654141da',
    'numpy/(1, 5)/mixed/n5/v2': 'fd29a0ec288da263',
    'numpy/(1, 5)/mixed/n6/v0': '488034ece3ac1c02',
    'numpy/(1, 5)/mixed/n6/v1': 'e2388dae5635da77',
    'numpy/(1, 5)/mixed/n6/v2': 'cd9aa92fa3390c62',
    'numpy/(5, 1)/int32/n2/v0': '94efaeed9a98818b',
    'numpy/(5, 1)/int32/n2/v1': '770838cb7320181b',
    'numpy/(5, 1)/int32/n3/v0': '28ca17e77b1cc573',
    'numpy/(5, 1)/int32/n3/v1': '05331ebf5f1714ca',
    'numpy/(5, 1)/int32/n3/v2': 'a154e1907a187a4e',
    'numpy/(5, 1)/int32/n4/v0': '9b6806813c0c77c0',
    'numpy/(5, 1)/int32/n4/v1': 'd9981e24b938f245',
    'numpy/(5, 1)/int32/n4/v2': '4e8d6708dd1c76d0',
    'numpy/(5, 1)/int32/n5/v0': '658cf3b7e1c5e7ef',
    'numpy/(5, 1)/int32/n5/v1': '71e29db6a19e8bcf',
    'numpy/(5, 1)/int32/n5/v2': '881bae842f11a7f2',
    'numpy/(5, 1)/int32/n6/v0': '014187d58279bee6',
    'numpy/(5, 1)/int32/n6/v1': 'f03b1e87f2b1d192',
    'numpy/(5, 1)/int32/n6/v2': '35a52c58f2902e30',
    'numpy/(5, 1)/int64/n2/v0': '2d21357bf90649f9',
    'numpy/(5, 1)/int64/n2/v1': '04890f8aeb4ebaa4',
    'numpy/(5, 1)/int64/n3/v0': '58747fa25e85133f',
    'numpy/(5, 1)/int64/n3/v1': '24476990d8c22fa7',
    'numpy/(5, 1)/int64/n3/v2': 'df6bd6ae52d6ce4c',
    'numpy/(5, 1)/int64/n4/v0': '4cad729adc96038d',
    'numpy/(5, 1)/int64/n4/v1': '0438948ea4044b0f',
    'numpy/(5, 1)/int64/n4/v2': '9a758edac65ebc67',
    'numpy/(5, 1)/int64/n5/v0': '6bcb6888ebf0279b',
    'numpy/(5, 1)/int64/n5/v1': '676175a01b7e5e2c',
    'numpy/(5, 1)/int64/n5/v2': '1ccc947456123d1f',
    'numpy/(5, 1)/int64/n6/v0': 'f2fc89e0153bb029',
    'numpy/(5, 1)/int64/n6/v1': 'e8c809887c69f3f3',
    'numpy/(5, 1)/int64/n6/v2': 'dc7a0f05e3bb56de',
    'numpy/(5, 1)/float32/n2/v0': '7714b5bedbe04d30',
    'numpy/(5, 1)/float32/n2/v1': '4a23d63417c23455',
    'numpy/(5, 1)/float32/n3/v0': 'c6c9ed2dd5503544',
    'numpy/(5, 1)/float32/n3/v1': '2a88cc71257c1a8d',
    'numpy/(5, 1)/float32/n3/v2': 'd762ee051c7b29b3',
    'numpy/(5, 1)/float32/n4/v0': 'be4c5514be6444e1',
    'numpy/(5, 1)/float32/n4/v1': 'a329e342e5d38989',
    'numpy/(5, 1)/float32/n4/v2': '47d4f1bed09cf49c',
    'numpy/(5, 1)/float32/n5/v0': 'ed2f6751869a9055',
    'numpy/(5, 1)/float32/n5/v1': 'dcb10958a0ded145',
    'numpy/(5, 1)/float32/n5/v2': 'f1e800a3da56ec1f',
    'numpy/(5, 1)/float32/n6/v0': '9b377322987f2f55',
    'numpy/(5, 1)/float32/n6/v1': '3a31ee4ebcc5042a',
    'numpy/(5, 1)/float32/n6/v2': 'c95f2e5d6de8cc4b',
    'numpy/(5, 1)/float64/n2/v0': '08f6c66a4fd2f4ae',
    'numpy/(5, 1)/float64/n2/v1': '9f648278484a6941',
    'numpy/(5, 1)/float64/n3/v0': 'c99d11cb61a080bd',
    'numpy/(5, 1)/float64/n3/v1': '945615ab1652f16d',
    'numpy/(5, 1)/float64/n3/v2': 'de620936bb722bf4',
    'numpy/(5, 1)/float64/n4/v0': 'ed461e69df950078',
    'numpy/(5, 1)/float64/n4/v1': '6b6837a82a840678',
    'numpy/(5, 1)/float64/n4/v2': '2ed7380bf79e16cf',
    'numpy/(5, 1)/float64/n5/v0': 'a73bc77ee3599bfd',
    'numpy/(5, 1)/float64/n5/v1': '4b3b2fa0f8f8171e',
    'numpy/(5, 1)/float64/n5/v2': '1f75c1012d699d22',
    'numpy/(5, 1)/float64/n6/v0': 'b1597d3a28b6c1e7',
    'numpy/(5, 1)/float64/n6/v1': '8d39af8d9b1da4ee',
    'numpy/(5, 1)/float64/n6/v2': '588bf8f74dcdbf44',
    'numpy/(5, 1)/nanfloat64/n2/v0': 'a32b1d1e07b3cd7e',
    'numpy/(5, 1)/nanfloat64/n2/v1': '730a5715a2bab8f4',
    'numpy/(5, 1)/nanfloat64/n3/v0': 'c6faf88f6a6f306c',
    'numpy/(5, 1)/nanfloat64/n3/v1': '585471d8881b60cf',
    'numpy/(5, 1)/nanfloat64/n3/v2': '85a512dd8a542028',
    'numpy/(5, 1)/nanfloat64/n4/v0': 'eaf30b12e506c858',
    'numpy/(5, 1)/nanfloat64/n4/v1': 'db690e21fc3a5c59',
    'numpy/(5, 1)/nanfloat64/n4/v2': '629845085777cb6c',
    'numpy/(5, 1)/nanfloat64/n5/v0': 'be4626c130df9f27',
    'numpy/(5, 1)/nanfloat64/n5/v1': '8e9c386d4458c7cd',
    'numpy/(5, 1)/nanfloat64/n5/v2': '138beb6f5df8095a',
    'numpy/(5, 1)/nanfloat64/n6/v0': 'f1cb780d46ca02e3',
    'numpy/(5, 1)/nanfloat64/n6/v1': 'bc941202fae2cf8c',
    'numpy/(5, 1)/nanfloat64/n6/v2': '9d3187a92ff2c91d',
    'numpy/(5, 1)/nanfloat32/n2/v0': 'da5c33a4d9f2ba7e',
    'numpy/(5, 1)/nanfloat32/n2/v1': '9b7de5d0a5cc8c53',
    'numpy/(5, 1)/nanfloat32/n3/v0': '6c909848eb7a578b',
    'numpy/(5, 1)/nanfloat32/n3/v1': '0ff4693e36c74db3',
    'numpy/(5, 1)/nanfloat32/n3/v2': '31d2f61d191f67ba',
    'numpy/(5, 1)/nanfloat32/n4/v0': '4282872460df27ef',
    'numpy/(5, 1)/nanfloat32/n4/v1': 'a3e43ca36d3fe21a',
    'numpy/(5, 1)/nanfloat32/n4/v2': 'd91e14b45bc9e877',
    'numpy/(5, 1)/nanfloat32/n5/v0': 'e0ffa063bd943abf',
    'numpy/(5, 1)/nanfloat32/n5/v1': '4cc651b659e7ddf8',
    'numpy/(5, 1)/nanfloat32/n5/v2': 'd1b63899f024cf94',
    'numpy/(5, 1)/nanfloat32/n6/v0': '389e8210e120c43d',
    'numpy/(5, 1)/nanfloat32/n6/v1': '61e4d2f9fc70e073',
    'numpy/(5, 1)/nanfloat32/n6/v2': '7384b9dcee48494a',
    'numpy/(5, 1)/mixed/n2/v0': 'f9385e38f174dca9',
    'numpy/(5, 1)/mixed/n2/v1': 'd73fd877b495da06',
    'numpy/(5, 1)/mixed/n3/v0': 'efc6a4d57fea9ea8',
    'numpy/(5, 1)/mixed/n3/v1': '9e77092bb0186899',
    'numpy/(5, 1)/mixed/n3/v2': 'b7aa06aefc1a5914',
    'numpy/(5, 1)/mixed/n4/v0': 'c2fa6495ed064628',
    'numpy/(5, 1)/mixed/n4/v1': 'd0bd76e64c53b1b9',
    'numpy/(5, 1)/mixed/n4/v2': '23aee16886b8f5e8',
    'numpy/(5, 1)/mixed/n5/v0': '5c9088e460f13375',
    'numpy/(5, 1)/mixed/n5/v1': 'ec0489bbd778f9ed',
    'numpy/(5, 1)/mixed/n5/v2': 'c77d1af52bafc061',
    'numpy/(5, 1)/mixed/n6/v0': '0a93f4149d3038dc',
    'numpy/(5, 1)/mixed/n6/v1': 'f15a161dcd27c51e',
    'numpy/(5, 1)/mixed/n6/v2': '6a93b4f783d35ca6',
    'numpy/(3, 4)/int32/n2/v0': '2bb2909dd623eebf',
    'numpy/(3, 4)/int32/n2/v1': '4d255b1ad178e28d',
    'numpy/(3, 4)/int32/n3/v0': 'b5b94849d90fa244',
    'numpy/(3, 4)/int32/n3/v1': 'c3eeae0a64778c22',
    'numpy/(3, 4)/int32/n3/v2': 'f92cd4f51ebd281f',
    'numpy/(3, 4)/int32/n4/v0': '0c44a97f060c75ea',
    'numpy/(3, 4)/int32/n4/v1': 'e34e58068a0ac983',
    'numpy/(3, 4)/int32/n4/v2': '771d4096efaf3dc2',
    'numpy/(3, 4)/int32/n5/v0': '09a63da5e745c6eb',
    'numpy/(3, 4)/int32/n5/v1': '577672ad5151822e',
    'numpy/(3, 4)/int32/n5/v2': 'd5ce478c33b13a78',
    'numpy/(3, 4)/int32/n6/v0': '15234656d483bfb7',
    'numpy/(3, 4)/int32/n6/v1': '5b2196af02477453',
    'numpy/(3, 4)/int32/n6/v2': '61a6addd1ef2e1d8',
    'numpy/(3, 4)/int64/n2/v0': '22a6c9ec9e6ced97',
    'numpy/(3, 4)/int64/n2/v1': 'b3dd97e2836c5e82',
    'numpy/(3, 4)/int64/n3/v0': 'e5888b666e91f057',
    'numpy/(3, 4)/int64/n3/v1': '2ac1075dfee35bfc',
    'numpy/(3, 4)/int64/n3/v2': '69b74a78911465b9',
    'numpy/(3, 4)/int64/n4/v0': '1f72433dc4457b67',
    'numpy/(3, 4)/int64/n4/v1': 'd246d97266ed8275',
    'numpy/(3, 4)/int64/n4/v2': '5c6b66e4d1011d2b',
    'numpy/(3, 4)/int64/n5/v0': '075e270aea44c7de',
    'numpy/(3, 4)/int64/n5/v1': '48acfadb71178a22',
    'numpy/(3, 4)/int64/n5/v2': 'daed57f106bde8a9',
    'numpy/(3, 4)/int64/n6/v0': '9b6a6b75fa42f10d',
    'numpy/(3, 4)/int64/n6/v1': 'b8751c8f3c36fdb0',
    'numpy/(3, 4)/int64/n6/v2': 'dbf6bea18c660998',
    'numpy/(3, 4)/float32/n2/v0': '2c6ea928f55f92be',
    'numpy/(3, 4)/float32/n2/v1': 'daf1fb6eb1c7119c',
    'numpy/(3, 4)/float32/n3/v0': 'a5afaa6ba270d2d7',
    'numpy/(3, 4)/float32/n3/v1': '5b7e2cf362693fb2',
    'numpy/(3, 4)/float32/n3/v2': '064a5435448303af',
    'numpy/(3, 4)/float32/n4/v0': '3ef4a261c64c635e',
    'numpy/(3, 4)/float32/n4/v1': '6409247fdf2c9874',
    'numpy/(3, 4)/float32/n4/v2': '23a0398c5c99dd55',
    'numpy/(3, 4)/float32/n5/v0': '2073da1a99f6d5e7',
    'numpy/(3, 4)/float32/n5/v1': '39cbdad7b3905780',
    'numpy/(3, 4)/float32/n5/v2': 'b67c2987a567041b',
    'numpy/(3, 4)/float32/n6/v0': '478437ecac13b9d5',
    'numpy/(3, 4)/float32/n6/v1': '58023d3dd00c9a89',
    'numpy/(3, 4)/float32/n6/v2': 'a75d663c0f8e290a',
    'numpy/(3, 4)/float64/n2/v0': 'f7c8657a5450fa07',
    'numpy/(3, 4)/float64/n2/v1': 'de625b7ed1b841b2',
    'numpy/(3, 4)/float64/n3/v0': 'e826306b7dc5d72f',
    'numpy/(3, 4)/float64/n3/v1': '681aaa293da7255c',
    'numpy/(3, 4)/float64/n3/v2': '0603adb18488eddd',
    'numpy/(3, 4)/float64/n4/v0': 'bd5c21a584e5b4a7',
    'numpy/(3, 4)/float64/n4/v1': '30c0dd6d476d8177',
    'numpy/(3, 4)/float64/n4/v2': '85fa33c648f059d3',
    'numpy/(3, 4)/float64/n5/v0': '5f0182111c305214',
    'numpy/(3, 4)/float64/n5/v1': 'e9e273d6fff57559',
    'numpy/(3, 4)/float64/n5/v2': '539e59422a0c7073',
    'numpy/(3, 4)/float64/n6/v0': 'b0c8a06102a8e123',
    'numpy/(3, 4)/float64/n6/v1': '86b58fea3da1f9a9',
    'numpy/(3, 4)/float64/n6/v2': 'ee0a24b9c177ebf2',
    'numpy/(3, 4)/nanfloat64/n2/v0': '9ec5d6b1f80db95c',
    'numpy/(3, 4)/nanfloat64/n2/v1': 'cc039d670069af37',
    'numpy/(3, 4)/nanfloat64/n3/v0': '597037568998361b',
    'numpy/(3, 4)/nanfloat64/n3/v1': '0c375d7142e4c323',
    'numpy/(3, 4)/nanfloat64/n3/v2': 'c9dd9d88216ceb56',
    'numpy/(3, 4)/nanfloat64/n4/v0': '350c3a9ea3bae367',
    'numpy/(3, 4)/nanfloat64/n4/v1': 'dacd14ae0b640084',
    'numpy/(3, 4)/nanfloat64/n4/v2': '10fc79b290595f59',
    'numpy/(3, 4)/nanfloat64/n5/v0': 'b5625a6f8d95d46c',
    'numpy/(3, 4)/nanfloat64/n5/v1': '36bf4aae2001aaa6',
    'numpy/(3, 4)/nanfloat64/n5/v2': '30be5c7e7a681fe3',
    'numpy/(3, 4)/nanfloat64/n6/v0': 'bc854ad32d3c23d4',
    'numpy/(3, 4)/nanfloat64/n6/v1': 'f554d33e53ce9ff7',
    'numpy/(3, 4)/nanfloat64/n6/v2': 'ea3ebb8c70161792',
    'numpy/(3, 4)/nanfloat32/n2/v0': '72f5626ce1efb15d',
    'numpy/(3, 4)/nanfloat32/n2/v1': '13cfa46ec1cf6deb',
    'numpy/(3, 4)/nanfloat32/n3/v0': 'fd99b86a0facb1d6',
    'numpy/(3, 4)/nanfloat32/n3/v1': '43b9e614016c2e56',
    'numpy/(3, 4)/nanfloat32/n3/v2': 'ad4019202f527e3e',
    'numpy/(3, 4)/nanfloat32/n4/v0': 'ef416f3c2be3324e',
    'numpy/(3, 4)/nanfloat32/n4/v1': '8e0516b88391ab8f',
    'numpy/(3, 4)/nanfloat32/n4/v2': 'b37396907dce102d',
    'numpy/(3, 4)/nanfloat32/n5/v0': '0275b5dd87b30d5a',
    'numpy/(3, 4)/nanfloat32/n5/v1': 'e669470d40f8f964',
    'numpy/(3, 4)/nanfloat32/n5/v2': 'e7285319a0409f6b',
    'numpy/(3, 4)/nanfloat32/n6/v0': 'd21f13544b10d269',
    'numpy/(3, 4)/nanfloat32/n6/v1': '6c63d4fd365932eb',
    'numpy/(3, 4)/nanfloat32/n6/v2': '63b231c70ef87263',
    'numpy/(3, 4)/mixed/n2/v0': '0da29ac3d71f13bd',
    'numpy/(3, 4)/mixed/n2/v1': '6dba698fb79ddded',
    'numpy/(3, 4)/mixed/n3/v0': '384517e6d9b33076',
    'numpy/(3, 4)/mixed/n3/v1': '77347a3ee6e1993f',
    'numpy/(3, 4)/mixed/n3/v2': 'ff78a63d31dd38cf',
    'numpy/(3, 4)/mixed/n4/v0': '3ecdbae1b002510c',
    'numpy/(3, 4)/mixed/n4/v1': '8d982c117c73e919',
    'numpy/(3, 4)/mixed/n4/v2': '827506cf03de5ec7',
    'numpy/(3, 4)/mixed/n5/v0': '47dac7ef876a12ed',
    'numpy/(3, 4)/mixed/n5/v1': 'b8aa8a4bad773979',
    'numpy/(3, 4)/mixed/n5/v2': '2a6d2edf5d09dddc',
    'numpy/(3, 4)/mixed/n6/v0': '12eaf1a9c508a9fd',
    'numpy/(3, 4)/mixed/n6/v1': '3f1a47ee5432a39e',
    'numpy/(3, 4)/mixed/n6/v2': '1cb90868506c61cc',
    'numpy/(7, 3)/int32/n2/v0': '42922d281aa921c1',
    'numpy/(7, 3)/int32/n2/v1': '0b70f04151706f7d',
    'numpy/(7, 3)/int32/n3/v0': '81804583eddaf6d7',
    'numpy/(7, 3)/int32/n3/v1': '3d5693c4275ff16d',
    'numpy/(7, 3)/int32/n3/v2': 'f0272dd3bba99c2f',
    'numpy/(7, 3)/int32/n4/v0': '62ebb8aa6951fa4b',
    'numpy/(7, 3)/int32/n4/v1': '7787e803f177a0b3',
    'numpy/(7, 3)/int32/n4/v2': 'da0be9e85906b871',
    'numpy/(7, 3)/int32/n5/v0': 'fac5e04450b926fe',
    'numpy/(7, 3)/int32/n5/v1': 'b6d917381172b3f0',
    'numpy/(7, 3)/int32/n5/v2': '984b8598948ca900',
    'numpy/(7, 3)/int32/n6/v0': 'ffe3184d0cc946a7',
    'numpy/(7, 3)/int32/n6/v1': '118b00f711eddd32',
    'numpy/(7, 3)/int32/n6/v2': '6813b2759c4486b3',
    'numpy/(7, 3)/int64/n2/v0': 'c5397468d720bfa0',
    'numpy/(7, 3)/int64/n2/v1': '4fc76b99151b871a',
    'numpy/(7, 3)/int64/n3/v0': 'aae7980bc7d43901',
    'numpy/(7, 3)/int64/n3/v1': '3903735ffe9a277f',
    'numpy/(7, 3)/int64/n3/v2': '4d5ebb70357501f4',
    'numpy/(7, 3)/int64/n4/v0': '6d279c6ba14665b9',
    'numpy/(7, 3)/int64/n4/v1': '32d1701991607e5b',
    'numpy/(7, 3)/int64/n4/v2': 'e911c69d320b78d4',
    'numpy/(7, 3)/int64/n5/v0': 'ceed627806878c5f',
    'numpy/(7, 3)/int64/n5/v1': 'b82e88c428b2ff6f',
    'numpy/(7, 3)/int64/n5/v2': '43b440508f5747d5',
    'numpy/(7, 3)/int64/n6/v0': '20fdfc48c52f2160',
    'numpy/(7, 3)/int64/n6/v1': '3d452c376b5fc8ba',
    'numpy/(7, 3)/int64/n6/v2': 'a16cc24a4da05659',
    'numpy/(7, 3)/float32/n2/v0': 'd180975c76c501a0',
    'numpy/(7, 3)/float32/n2/v1': '4f2e343397409ca8',
    'numpy/(7, 3)/float32/n3/v0': '77f4f64ff6ffccf9',
    'numpy/(7, 3)/float32/n3/v1': 'aa69b956fdc77403',
    'numpy/(7, 3)/float32/n3/v2': 'eb139f74ad2bb5c2',
    'numpy/(7, 3)/float32/n4/v0': '07a1c261c4c4d1b7',
    'numpy/(7, 3)/float32/n4/v1': '79274bbafdd76a90',
    'numpy/(7, 3)/float32/n4/v2': '83cfda1b7f6b256f',
    'numpy/(7, 3)/float32/n5/v0': 'f6fc3cb3c9e53cdc',
    'numpy/(7, 3)/float32/n5/v1': '1e56bc9af853c5a9',
    'numpy/(7, 3)/float32/n5/v2': '6eaf44307e0b53db',
    'numpy/(7, 3)/float32/n6/v0': '5f34b3e1ed62944b',
    'numpy/(7, 3)/float32/n6/v1': '8f9add87c0b7f9ed',
    'numpy/(7, 3)/float32/n6/v2': '880f8308a2c36f22',
    'numpy/(7, 3)/float64/n2/v0': 'c1b9d5d63d90b8e2',
    'numpy/(7, 3)/float64/n2/v1': '7869564481d68aab',
    'numpy/(7, 3)/float64/n3/v0': 'c5d1c4acb325a654',
    'numpy/(7, 3)/float64/n3/v1': '5df365bcb5dc59e0',
    'numpy/(7, 3)/float64/n3/v2': '4ef86d260c625447',
    'numpy/(7, 3)/float64/n4/v0': '4840e5323eef7747',
    'numpy/(7, 3)/float64/n4/v1': '210d9b70365ffa2a',
    'numpy/(7, 3)/float64/n4/v2': '6e1b117055571898',
    'numpy/(7, 3)/float64/n5/v0': 'ae2ebc174f543800',
    'numpy/(7, 3)/float64/n5/v1': '2a457a460d4d3bcb',
    'numpy/(7, 3)/float64/n5/v2': '4a23b98677b39cb4',
    'numpy/(7, 3)/float64/n6/v0': '580da7c9a0a743fb',
    'numpy/(7, 3)/float64/n6/v1': '090d558cc5067ac9',
    'numpy/(7, 3)/float64/n6/v2': '1f60717c7cb0af79',
    'numpy/(7, 3)/nanfloat64/n2/v0': '00e19d399cee721f',
    'numpy/(7, 3)/nanfloat64/n2/v1': 'bafebab979016a7d',
    'numpy/(7, 3)/nanfloat64/n3/v0': 'f105c3a98b877f7b',
    'numpy/(7, 3)/nanfloat64/n3/v1': 'c790e5e5fc0543cb',
    'numpy/(7, 3)/nanfloat64/n3/v2': '675599bd7d79f380',
    'numpy/(7, 3)/nanfloat64/n4/v0': '0f310609d27c1ee9',
    'numpy/(7, 3)/nanfloat64/n4/v1': '40a40afaf9fbd9ce',
    'numpy/(7, 3)/nanfloat64/n4/v2': '75b77d7c599d3d88',
    'numpy/(7, 3)/nanfloat64/n5/v0': '0eeb3d4754ee0003',
    'numpy/(7, 3)/nanfloat64/n5/v1': '87f9c4c317728832',
    'numpy/(7, 3)/nanfloat64/n5/v2': 'c5240db78e7cec72',
    'numpy/(7, 3)/nanfloat64/n6/v0': '5259bbca8894e4a6',
    'numpy/(7, 3)/nanfloat64/n6/v1': '32bfd1a791ad45f0',
    'numpy/(7, 3)/nanfloat64/n6/v2': '111009cf51afb9f4',
    'numpy/(7, 3)/nanfloat32/n2/v0': 'b353b94de6261601',
    'numpy/(7, 3)/nanfloat32/n2/v1': '8294e696f2c408cf',
    'numpy/(7, 3)/nanfloat32/n3/v0': 'f84ba69377e97b2b',
    'numpy/(7, 3)/nanfloat32/n3/v1': '4231c5da8a16e34d',
    'numpy/(7, 3)/nanfloat32/n3/v2': '7df426e25647304f',
    'numpy/(7, 3)/nanfloat32/n4/v0': 'd9f48d6e70d2852e',
    'numpy/(7, 3)/nanfloat32/n4/v1': '6080d91b2c72b7fa',
    'numpy/(7, 3)/nanfloat32/n4/v2': 'aed4f2676526b763',
    'numpy/(7, 3)/nanfloat32/n5/v0': '8151e2cbc9837a66',
    'numpy/(7, 3)/nanfloat32/n5/v1': '98496213093eb7dc',
    'numpy/(7, 3)/nanfloat32/n5/v2': 'ce49be97732a9891',
    'numpy/(7, 3)/nanfloat32/n6/v0': '0dd3f883804dfaa2',
    'numpy/(7, 3)/nanfloat32/n6/v1': '84ac06eae9866f3c',
    'numpy/(7, 3)/nanfloat32/n6/v2': '24db72ab24c3714c',
    'numpy/(7, 3)/mixed/n2/v0': '50c02a21dda3ce7b',
    'numpy/(7, 3)/mixed/n2/v1': '0828588a7378d60a',
    'numpy/(7, 3)/mixed/n3/v0': 'd2eacf95bb3abc22',
    'numpy/(7, 3)/mixed/n3/v1': 'b2c5fb00b389d2d5',
    'numpy/(7, 3)/mixed/n3/v2': 'f9532cce83b15a94',
    'numpy/(7, 3)/mixed/n4/v0': 'e8ece27a2f1157ee',
    'numpy/(7, 3)/mixed/n4/v1': '87c19e8d3bbda1ad',
    'numpy/(7, 3)/mixed/n4/v2': 'f5159b0b55483fa2',
    'numpy/(7, 3)/mixed/n5/v0': '26750d5bd3a9e689',
    'numpy/(7, 3)/mixed/n5/v1': 'c867b14884b91bee',
    'numpy/(7, 3)/mixed/n5/v2': '805722144eed21ea',
    'numpy/(7, 3)/mixed/n6/v0': '0d5b5806d96ec3ad',
    'numpy/(7, 3)/mixed/n6/v1': 'aaeea9fa035a91d8',
    'numpy/(7, 3)/mixed/n6/v2': '26b5dccfe5c30c20',
    'numpy/(2, 2)/int32/n2/v0': '083c3a5dd04479b4',
    'numpy/(2, 2)/int32/n2/v1': 'ee8e08186dc637dc',
    'numpy/(2, 2)/int32/n3/v0': '54ffec1fc02cf170',
    'numpy/(2, 2)/int32/n3/v1': '5eb69e89df004980',
    'numpy/(2, 2)/int32/n3/v2': 'cd51ad990e55350b',
    'numpy/(2, 2)/int32/n4/v0': '48ab853d60cd6411',
    'numpy/(2, 2)/int32/n4/v1': 'aa6002cdf8002a76',
    'numpy/(2, 2)/int32/n4/v2': '18f68d9c734b44be',
    'numpy/(2, 2)/int32/n5/v0': '66580c1403037a74',
    'numpy/(2, 2)/int32/n5/v1': '6d77f1844a4ecdd8',
    'numpy/(2, 2)/int32/n5/v2': 'b46ef146328c0a73',
    'numpy/(2, 2)/int32/n6/v0': '031536b71cba35e9',
    'numpy/(2, 2)/int32/n6/v1': '9725d138dc46b13a',
    'numpy/(2, 2)/int32/n6/v2': '7ca0be6afe8f26cf',
    'numpy/(2, 2)/int64/n2/v0': '77617a393fac3514',
    'numpy/(2, 2)/int64/n2/v1': '93a299b6c0532277',
    'numpy/(2, 2)/int64/n3/v0': 'f3f08abaf06c54af',
    'numpy/(2, 2)/int64/n3/v1': 'd6d163d9a1495f16',
    'numpy/(2, 2)/int64/n3/v2': 'a02fa210ea028565',
    'numpy/(2, 2)/int64/n4/v0': '2e5ac9312af08650',
    'numpy/(2, 2)/int64/n4/v1': 'fdaabd4da2cb9447',
    'numpy/(2, 2)/int64/n4/v2': 'b94bfec5f7c0175d',
    'numpy/(2, 2)/int64/n5/v0': 'ec07fb7108499154',
    'numpy/(2, 2)/int64/n5/v1': '1c34a669a7a2b211',
    'numpy/(2, 2)/int64/n5/v2': '7a8f29f3ed4b603a',
    'numpy/(2, 2)/int64/n6/v0': '4dd267512150ad42',
    'numpy/(2, 2)/int64/n6/v1': 'a46bfc489a69b724',
    'numpy/(2, 2)/int64/n6/v2': '1162c51542184ff5',
    'numpy/(2, 2)/float32/n2/v0': '05c99266ff08aaf6',
    'numpy/(2, 2)/float32/n2/v1': '62f993ca0be5e3aa',
    'numpy/(2, 2)/float32/n3/v0': '18fb7e28ad72c4bf',
    'numpy/(2, 2)/float32/n3/v1': 'c8363c0299bdc8ff',
    'numpy/(2, 2)/float32/n3/v2': '01950171d8576399',
    'numpy/(2, 2)/float32/n4/v0': '3ca6d6500cc66c57',
    'numpy/(2, 2)/float32/n4/v1': '9c57f8e2a24877ba',
    'numpy/(2, 2)/float32/n4/v2': '5ff55b65d8d11843',
    'numpy/(2, 2)/float32/n5/v0': '1cb93146d89304f6',
    'numpy/(2, 2)/float32/n5/v1': '80959019c5de15c3',
    'numpy/(2, 2)/float32/n5/v2': 'db43245e60cde34b',
    'numpy/(2, 2)/float32/n6/v0': 'ee13aabc031acd69',
    'numpy/(2, 2)/float32/n6/v1': '85e9f3be881e9db0',
    'numpy/(2, 2)/float32/n6/v2': 'b367e42ff03c3018',
    'numpy/(2, 2)/float64/n2/v0': '968279e7a5dc3af3',
    'numpy/(2, 2)/float64/n2/v1': '26be987d37907fee',
    'numpy/(2, 2)/float64/n3/v0': 'e393ffac283c040d',
    'numpy/(2, 2)/float64/n3/v1': '4ea817e91c8433e7',
    'numpy/(2, 2)/float64/n3/v2': '4841cfa3adb4ade6',
    'numpy/(2, 2)/float64/n4/v0': 'c188b1d796aadf61',
    'numpy/(2, 2)/float64/n4/v1': 'd110b8538f4c3cfa',
    'numpy/(2, 2)/float64/n4/v2': 'fcf66a1f2bc17149',
    'numpy/(2, 2)/float64/n5/v0': '354c873623f4778d',
    'numpy/(2, 2)/float64/n5/v1': '7c84cf57dcc57016',
    'numpy/(2, 2)/float64/n5/v2': '44d329cd76f4866b',
    'numpy/(2, 2)/float64/n6/v0': '8ac2daf4bd0c8819',
    'numpy/(2, 2)/float64/n6/v1': '226eeebffb9a2ba9',
    'numpy/(2, 2)/float64/n6/v2': 'f4badac6f2f554bf',
    'numpy/(2, 2)/nanfloat64/n2/v0': 'da9c9b229d768bde',
    'numpy/(2, 2)/nanfloat64/n2/v1': '4153543e4e33ebd6',
    'numpy/(2, 2)/nanfloat64/n3/v0': '6877cbc76f4e4441',
    'numpy/(2, 2)/nanfloat64/n3/v1': '6c4f31d08b2b2eec',
    'numpy/(2, 2)/nanfloat64/n3/v2': '0d924db01407f8fe',
    'numpy/(2, 2)/nanfloat64/n4/v0': 'ee481f734938b07a',
    'numpy/(2, 2)/nanfloat64/n4/v1': '60de547487b3dc37',
    'numpy/(2, 2)/nanfloat64/n4/v2': '2c43a4f31506542c',
    'numpy/(2, 2)/nanfloat64/n5/v0': 'a59aa06fcca41d82',
    'numpy/(2, 2)/nanfloat64/n5/v1': '8c252be787aeffcb',
    'numpy/(2, 2)/nanfloat64/n5/v2': 'd3565928c9e22004',
    'numpy/(2, 2)/nanfloat64/n6/v0': 'bea416598eff3a14',
    'numpy/(2, 2)/nanfloat64/n6/v1': 'bea416598eff3a14',
    'numpy/(2, 2)/nanfloat64/n6/v2': 'bea416598eff3a14',
    'numpy/(2, 2)/nanfloat32/n2/v0': 'fe1acf372f7d3f0d',
    'numpy/(2, 2)/nanfloat32/n2/v1': '558e93a274687b39',
    'numpy/(2, 2)/nanfloat32/n3/v0': '1324add36e2b6684',
    'numpy/(2, 2)/nanfloat32/n3/v1': '781765b06ca0fc9d',
    'numpy/(2, 2)/nanfloat32/n3/v2': '09151768f3e58028',
    'numpy/(2, 2)/nanfloat32/n4/v0': '15b5d6ee31a40b4e',
    'numpy/(2, 2)/nanfloat32/n4/v1': 'df0a836394fc782d',
    'numpy/(2, 2)/nanfloat32/n4/v2': '82b30da89ece4191',
    'numpy/(2, 2)/nanfloat32/n5/v0': 'fd9a66eef7576ab9',
    'numpy/(2, 2)/nanfloat32/n5/v1': '7dcff27e86d7c3e8',
    'numpy/(2, 2)/nanfloat32/n5/v2': '33b0f122ee661a4f',
    'numpy/(2, 2)/nanfloat32/n6/v0': 'bea416598eff3a14',
    'numpy/(2, 2)/nanfloat32/n6/v1': 'bea416598eff3a14',
    'numpy/(2, 2)/nanfloat32/n6/v2': '332fc696601eee7c',
    'numpy/(2, 2)/mixed/n2/v0': '0e37cbc33bc5ed98',
    'numpy/(2, 2)/mixed/n2/v1': 'ff80c9eaa7bf9229',
    'numpy/(2, 2)/mixed/n3/v0': '9f8d9dee61cf3156',
    'numpy/(2, 2)/mixed/n3/v1': '06c14eb730544e74',
    'numpy/(2, 2)/mixed/n3/v2': 'a722671337008c95',
    'numpy/(2, 2)/mixed/n4/v0': 'a5eb6371322c4ec8',
    'numpy/(2, 2)/mixed/n4/v1': '34ca454136004daa',
    'numpy/(2, 2)/mixed/n4/v2': 'aa52b13cb3ab5e3c',
    'numpy/(2, 2)/mixed/n5/v0': 'eb30f816bedf167b',
    'numpy/(2, 2)/mixed/n5/v1': '991d540bdcf99d7f',
    'numpy/(2, 2)/mixed/n5/v2': '1c8ee5c113c69aa7',
    'numpy/(2, 2)/mixed/n6/v0': 'd9e21edbf0343de7',
    'numpy/(2, 2)/mixed/n6/v1': '9adab13032136381',
    'numpy/(2, 2)/mixed/n6/v2': '2a61cddc56582bad',
    'dask/(3, 4)/int32/n2/v0': '9d8651429f4834df',
    'dask/(3, 4)/int32/n2/v1': 'd9bc4c8c6f05a64c',
    'dask/(3, 4)/int32/n3/v0': '27dffabb8311ad59',
    'dask/(3, 4)/int32/n3/v1': '0519246c206d37f1',
    'dask/(3, 4)/int32/n3/v2': 'fc361746ea46aabf',
    'dask/(3, 4)/int32/n6/v0': 'd85f08829942cb99',
    'dask/(3, 4)/int32/n6/v1': 'daa025bd8ee7a85e',
    'dask/(3, 4)/int32/n6/v2': 'a6d8f19430f28161',
    'dask/(3, 4)/int64/n2/v0': '827e1dd52c681333',
    'dask/(3, 4)/int64/n2/v1': '855397c8b163927f',
    'dask/(3, 4)/int64/n3/v0': '12222d00792ce563',
    'dask/(3, 4)/int64/n3/v1': '5745987ff24c04b7',
    'dask/(3, 4)/int64/n3/v2': '7103dc1c0ba7ea68',
    'dask/(3, 4)/int64/n6/v0': '3331715418bb5685',
    'dask/(3, 4)/int64/n6/v1': 'bacf3b1aaa79c256',
    'dask/(3, 4)/int64/n6/v2': '6b46e51b8310fa15',
    'dask/(3, 4)/float32/n2/v0': 'b753c60a3cf220f2',
    'dask/(3, 4)/float32/n2/v1': '5aea1e64650e0e58',
    'dask/(3, 4)/float32/n3/v0': '1c1cc89d172a4b99',
    'dask/(3, 4)/float32/n3/v1': 'fa622e0f68c74f0f',
    'dask/(3, 4)/float32/n3/v2': '3af7a004144d4b7d',
    'dask/(3, 4)/float32/n6/v0': 'b3d3e08be4a5244e',
    'dask/(3, 4)/float32/n6/v1': '73da89270170fc7a',
    'dask/(3, 4)/float32/n6/v2': 'a5a1423ad795f7f6',
    'dask/(3, 4)/float64/n2/v0': '8652f5d9df980529',
    'dask/(3, 4)/float64/n2/v1': 'bc2fec905c74ddc6',
    'dask/(3, 4)/float64/n3/v0': 'aa6f320c1052b907',
    'dask/(3, 4)/float64/n3/v1': '6e01bf46b198bc6a',
    'dask/(3, 4)/float64/n3/v2': '6ad3f3a235571027',
    'dask/(3, 4)/float64/n6/v0': '09ad13659a15c2fb',
    'dask/(3, 4)/float64/n6/v1': '815a58a4ba87f910',
    'dask/(3, 4)/float64/n6/v2': '09c0b336aa5e5710',
    'dask/(3, 4)/nanfloat64/n2/v0': 'eedb570b46f2e961',
    'dask/(3, 4)/nanfloat64/n2/v1': 'aed680cc485776ed',
    'dask/(3, 4)/nanfloat64/n3/v0': '614cb9f51115d04c',
    'dask/(3, 4)/nanfloat64/n3/v1': 'd6e47425db5f9a8a',
    'dask/(3, 4)/nanfloat64/n3/v2': '5f1804637705f39b',
    'dask/(3, 4)/nanfloat64/n6/v0': '9941d3a7ff3ecbcd',
    'dask/(3, 4)/nanfloat64/n6/v1': '996678778c108e3e',
    'dask/(3, 4)/nanfloat64/n6/v2': '314e936604950c73',
    'dask/(3, 4)/nanfloat32/n2/v0': '887e882cc4835a92',
    'dask/(3, 4)/nanfloat32/n2/v1': 'db3f7aa5ad92729d',
    'dask/(3, 4)/nanfloat32/n3/v0': '977e2901b5e1aa35',
    'dask/(3, 4)/nanfloat32/n3/v1': '4d3d4b5a9e46fee8',
    'dask/(3, 4)/nanfloat32/n3/v2': '5ff61750aed7e417',
    'dask/(3, 4)/nanfloat32/n6/v0': 'e140a2e03d8c190b',
    'dask/(3, 4)/nanfloat32/n6/v1': 'c771fce202a49a00',
    'dask/(3, 4)/nanfloat32/n6/v2': '5dda6edeac70ed5c',
    'dask/(3, 4)/mixed/n2/v0': 'db4db4e4452d34ba',
    'dask/(3, 4)/mixed/n2/v1': '09b710abb27baff6',
    'dask/(3, 4)/mixed/n3/v0': '932be542a69263d9',
    'dask/(3, 4)/mixed/n3/v1': 'd6fe1237ab73a39a',
    'dask/(3, 4)/mixed/n3/v2': '5c404fa2f5ddd5ba',
    'dask/(3, 4)/mixed/n6/v0': '8bc3e35a8227cdc0',
    'dask/(3, 4)/mixed/n6/v1': 'e1ff6bca2faa7100',
    'dask/(3, 4)/mixed/n6/v2': '07c916644f2a06d0',
    'dask/(1, 5)/int32/n2/v0': '91d36843c69888e7',
    'dask/(1, 5)/int32/n2/v1': 'cbfa9604d84e5d16',
    'dask/(1, 5)/int32/n3/v0': '722e227924fe2404',
    'dask/(1, 5)/int32/n3/v1': 'd30d65b95b0ac959',
    'dask/(1, 5)/int32/n3/v2': '4f8d70ab12590286',
    'dask/(1, 5)/int32/n6/v0': 'd39359bb05ccbb32',
    'dask/(1, 5)/int32/n6/v1': 'c2035dada3cc98eb',
    'dask/(1, 5)/int32/n6/v2': 'c5aa3692457bb092',
    'dask/(1, 5)/int64/n2/v0': 'b18b8d920f3f5e64',
    'dask/(1, 5)/int64/n2/v1': '8c8d2a66d51d0b93',
    'dask/(1, 5)/int64/n3/v0': 'cef198847fd7e020',
    'dask/(1, 5)/int64/n3/v1': '20abfb3136e0fb38',
    'dask/(1, 5)/int64/n3/v2': '6411018475bf6ce8',
    'dask/(1, 5)/int64/n6/v0': 'a333b9b832550d76',
    'dask/(1, 5)/int64/n6/v1': 'aa0470b2cca80c8a',
    'dask/(1, 5)/int64/n6/v2': '8168d7867dbba445',
    'dask/(1, 5)/float32/n2/v0': '7c1addc453d58dca',
    'dask/(1, 5)/float32/n2/v1': 'fc962754a6d6cd18',
    'dask/(1, 5)/float32/n3/v0': '5b65cb33616f6b6c',
    'dask/(1, 5)/float32/n3/v1': '70eeaa0c5161bead',
    'dask/(1, 5)/float32/n3/v2': 'aa2273f9561c71d5',
    'dask/(1, 5)/float32/n6/v0': 'b77e0eacc2dc672d',
    'dask/(1, 5)/float32/n6/v1': 'c75c28e4f3059f66',
    'dask/(1, 5)/float32/n6/v2': 'f31b19ba090702d2',
    'dask/(1, 5)/float64/n2/v0': 'bc9c250fa0b83eb9',
    'dask/(1, 5)/float64/n2/v1': '3449b6543f0101ed',
    'dask/(1, 5)/float64/n3/v0': '2800762487b8ab27',
    'dask/(1, 5)/float64/n3/v1': '4a81a0323cbdb10d',
    'dask/(1, 5)/float64/n3/v2': '5dc669408994dd92',
    'dask/(1, 5)/float64/n6/v0': '4fb8b80a9ea6051c',
    'dask/(1, 5)/float64/n6/v1': 'a20d0ab682128a66',
    'dask/(1, 5)/float64/n6/v2': 'e0368ec50faea74f',
    'dask/(1, 5)/nanfloat64/n2/v0': '2e45d16a3714c92c',
    'dask/(1, 5)/nanfloat64/n2/v1': '6fe2e7e2d6334b0f',
    'dask/(1, 5)/nanfloat64/n3/v0': '402d7e5f35d2d39f',
    'dask/(1, 5)/nanfloat64/n3/v1': 'c9af331f80be11bc',
    'dask/(1, 5)/nanfloat64/n3/v2': '8fe613afed7c193a',
    'dask/(1, 5)/nanfloat64/n6/v0': 'a0d0b39f5fd4ab12',
    'dask/(1, 5)/nanfloat64/n6/v1': '41847f6976a6116a',
    'dask/(1, 5)/nanfloat64/n6/v2': 'b8841ed578f62b1c',
    'dask/(1, 5)/nanfloat32/n2/v0': '1a8b4adc78d7d01d',
    'dask/(1, 5)/nanfloat32/n2/v1': '569d4e92f3d222e0',
    'dask/(1, 5)/nanfloat32/n3/v0': '9bae55e784af7f18',
    'dask/(1, 5)/nanfloat32/n3/v1': 'e0179f777149c321',
    'dask/(1, 5)/nanfloat32/n3/v2': '78cefc285dbb5cab',
    'dask/(1, 5)/nanfloat32/n6/v0': '32941fcfa7848feb',
    'dask/(1, 5)/nanfloat32/n6/v1': '32941fcfa7848feb',
    'dask/(1, 5)/nanfloat32/n6/v2': 'c6de5c547633f95f',
    'dask/(1, 5)/mixed/n2/v0': '1d5395bed39bd613',
    'dask/(1, 5)/mixed/n2/v1': '79a05c06bf5ebe91',
    'dask/(1, 5)/mixed/n3/v0': 'aa9001637aeab4db',
    'dask/(1, 5)/mixed/n3/v1': 'efccbe4cda529ede',
    'dask/(1, 5)/mixed/n3/v2': '0e3a79e358b0a16b',
    'dask/(1, 5)/mixed/n6/v0': 'cef95af5d041db1d',
    'dask/(1, 5)/mixed/n6/v1': '64c04ba390253801',
    'dask/(1, 5)/mixed/n6/v2': 'd261c3a755b11807',
    'dask/(5, 1)/int32/n2/v0': '732cb1f64910e2b5',
    'dask/(5, 1)/int32/n2/v1': '4a95809756b4456f',
    'dask/(5, 1)/int32/n3/v0': '56b364e541413640',
    'dask/(5, 1)/int32/n3/v1': '209866897b444bb3',
    'dask/(5, 1)/int32/n3/v2': '34e91418a4a5523c',
    'dask/(5, 1)/int32/n6/v0': '40dbac57e4b7cbdc',
    'dask/(5, 1)/int32/n6/v1': 'aa4df56d552dfaa7',
    'dask/(5, 1)/int32/n6/v2': 'ba13c9b62a96b8b5',
    'dask/(5, 1)/int64/n2/v0': '66926bec6ddfbe1e',
    'dask/(5, 1)/int64/n2/v1': 'c83ccd166205220a',
    'dask/(5, 1)/int64/n3/v0': 'b4aaaf869d35e8c6',
    'dask/(5, 1)/int64/n3/v1': 'd51dc66c0f4c52ac',
    'dask/(5, 1)/int64/n3/v2': 'd1e0ab1a3fae62aa',
    'dask/(5, 1)/int64/n6/v0': '67ea57be0e29cba5',
    'dask/(5, 1)/int64/n6/v1': '6d739dfdccf5d73d',
    'dask/(5, 1)/int64/n6/v2': 'b646c289927b8670',
    'dask/(5, 1)/float32/n2/v0': '95ffba078b30e8f4',
    'dask/(5, 1)/float32/n2/v1': '317c82a3082f27a7',
    'dask/(5, 1)/float32/n3/v0': '56cfd192c852d4f5',
    'dask/(5, 1)/float32/n3/v1': '4a5f56bd052c6d68',
    'dask/(5, 1)/float32/n3/v2': 'c34c50b9fb61403b',
    'dask/(5, 1)/float32/n6/v0': 'e0c55b5671ba687a',
    'dask/(5, 1)/float32/n6/v1': 'c9a3906da6a18139',
    'dask/(5, 1)/float32/n6/v2': '1aea39d748f5afb5',
    'dask/(5, 1)/float64/n2/v0': '3867b072e0056915',
    'dask/(5, 1)/float64/n2/v1': '52b274b2b7ab0719',
    'dask/(5, 1)/float64/n3/v0': 'dd5211c6e962cda1',
    'dask/(5, 1)/float64/n3/v1': '00abd0dcd00fadb0',
    'dask/(5, 1)/float64/n3/v2': '97364d347015d3ff',
    'dask/(5, 1)/float64/n6/v0': '63c849c43cf2ae56',
    'dask/(5, 1)/float64/n6/v1': '14d3e04f7885568b',
    'dask/(5, 1)/float64/n6/v2': '4e8a0c74fc5281f9',
    'dask/(5, 1)/nanfloat64/n2/v0': '07ad1882a78fac99',
    'dask/(5, 1)/nanfloat64/n2/v1': '1cf17fc9820c4a93',
    'dask/(5, 1)/nanfloat64/n3/v0': '3942569402c0fa85',
    'dask/(5, 1)/nanfloat64/n3/v1': 'e7842e69d8f376d7',
    'dask/(5, 1)/nanfloat64/n3/v2': '30d178c2c962993f',
    'dask/(5, 1)/nanfloat64/n6/v0': 'ade2202b1ca59d31',
    'dask/(5, 1)/nanfloat64/n6/v1': 'ade2202b1ca59d31',
    'dask/(5, 1)/nanfloat64/n6/v2': 'ff36712360fbeb40',
    'dask/(5, 1)/nanfloat32/n2/v0': '0b7cbb920ac2d6ea',
    'dask/(5, 1)/nanfloat32/n2/v1': 'c2c8faeb6c8ffc29',
    'dask/(5, 1)/nanfloat32/n3/v0': '925d7196a0b9f368',
    'dask/(5, 1)/nanfloat32/n3/v1': '777f45b21eefc79c',
    'dask/(5, 1)/nanfloat32/n3/v2': '96afca5ddb311409',
    'dask/(5, 1)/nanfloat32/n6/v0': 'fe3262b4edade530',
    'dask/(5, 1)/nanfloat32/n6/v1': '46314b1570cab2b2',
    'dask/(5, 1)/nanfloat32/n6/v2': '5fff382ca5167385',
    'dask/(5, 1)/mixed/n2/v0': 'bab4f06267c39389',
    'dask/(5, 1)/mixed/n2/v1': '4e379269bb779a8b',
    'dask/(5, 1)/mixed/n3/v0': 'df36f1c9cddc94ec',
    'dask/(5, 1)/mixed/n3/v1': 'dcdfd340868b0dcc',
    'dask/(5, 1)/mixed/n3/v2': '2120d86ab70416f4',
    'dask/(5, 1)/mixed/n6/v0': 'cc8f1b3183de00ed',
    'dask/(5, 1)/mixed/n6/v1': 'f0edf6f3d2dfe8de',
    'dask/(5, 1)/mixed/n6/v2': '693efccced56b2f4',
    'def/cell_stats': '7931fad76e7f1ec8',
    'def/cell_stats_kw': '547ab0f5463e39a9',
    'def/combine': '78ac6d610d23784c',
    'def/lowest': '5585770c2fb85b64',
    'def/highest': '3a61cd9b3d533825',
    'def/lesser': '50d543bfe4ab1a1b',
    'def/equal': 'bee8b5abf23954d3',
    'def/greater': 'd07f258b6646f6e3',
    'def/rank': '7ee35782a8fc5313',
    'def/popularity': '0e1cc901c3ae1799',
    'def/input': '42c6014bef51e7a5',
    'err/notds': "TypeError:Expected raster to be a 'xarray.Dataset'. Received 'DataArray' instead.",
    'err/badfunc': "ValueError:foo is not supported. The supported types are '['max', 'mean', 'median', 'min', 'std', 'sum']'.",
    'err/badvars': 'TypeError:Expected data_vars to be a list of string.',
    'err/missing': "ValueError:raster must contain all the variables of data_vars. The variables available are '['a', 'b']'.",
    'err/refin': 'ValueError:ref_var must not be an element of data_vars.',
    'err/refmiss': 'ValueError:raster must contain ref_var.',
    'err/reftype': "TypeError:Expected ref_var to be a 'str'. Received 'int' instead.",
}

SHAPES = [(1, 1), (1, 5), (5, 1), (3, 4), (7, 3), (2, 2)]
DTYPES = ['int32', 'int64', 'float32', 'float64', 'nanfloat64', 'nanfloat32',
          'mixed']
STATS = ['max', 'mean', 'median', 'min', 'std', 'sum']


def make_dataset(rng, shape, n_layers, kind, backend):
    names = ['v%d' % i for i in range(n_layers)]
    layers = {}
    for i, name in enumerate(names):
        # small value range -> lots of ties
        vals = rng.integers(-2, 4, size=shape)
        if kind in ('int32', 'int64'):
            arr = vals.astype(kind)
        elif kind in ('float32', 'float64'):
            arr = (vals * 0.5).astype(kind)
        elif kind in ('nanfloat64', 'nanfloat32'):
            arr = (vals * 0.5).astype(kind[3:])
            mask = rng.random(shape) < 0.2
            arr[mask] = np.nan
        else:  # mixed: alternate int / float layers, NaN in float ones
            if i % 2 == 0:
                arr = vals.astype('int64')
            else:
                arr = (vals * 0.25).astype('float64')
                mask = rng.random(shape) < 0.15
                arr[mask] = np.nan
        layers[name] = arr
    ref = rng.integers(1, n_layers + 1, size=shape).astype('int64')
    layers['ref'] = ref
    # a floating reference layer for the frequency operators
    layers['fref'] = (rng.integers(-2, 4, size=shape) * 0.5)

    def wrap(a):
        if backend == 'dask':
            chunks = tuple(max(1, (s + 1) // 2) for s in a.shape)
            return da.from_array(a, chunks=chunks)
        return a

    ds = xr.Dataset({k: (('y', 'x'), wrap(v)) for k, v in layers.items()})
    return ds, names, layers


def digest(res):
    arr = np.asarray(res.data)
    h = hashlib.sha256()
    h.update(str(arr.dtype).encode())
    h.update(str(arr.shape).encode())
    h.update(np.ascontiguousarray(arr).tobytes())
    h.update(repr(sorted(res.attrs.items())).encode())
    h.update(repr(res.dims).encode())
    return h.hexdigest()[:16]


def same(a, b):
    a = np.asarray(a, dtype=float)
    b = np.asarray(b, dtype=float)
    return a.shape == b.shape and np.array_equal(a, b, equal_nan=True)


class Fail(Exception):
    pass


def check(cond, msg):
    if not cond:
        raise Fail(msg)


def oracle_checks(tag, ds, data_vars, layers, results):
    stack = np.stack([layers[v].astype('float64') for v in data_vars])
    n = stack.shape[0]
    nanmask = np.isnan(stack).any(axis=0)

    def absorb(a):
        a = np.asarray(a, dtype='float64').copy()
        a[nanmask] = np.nan
        return a

    # cell_stats
    for st in STATS:
        got = np.asarray(results['cell_stats_' + st].data, dtype=float)
        with np.errstate(all='ignore'):
            exp = absorb(getattr(np, st)(stack, axis=0))
        check(got.shape == exp.shape, tag + ' cell_stats shape ' + st)
        check(np.allclose(got, exp, rtol=1e-12, atol=1e-12, equal_nan=True),
              tag + ' cell_stats ' + st)
        if st in ('max', 'min', 'median'):
            check(same(got, exp), tag + ' cell_stats exact ' + st)

    # frequencies
    for refname in ('ref', 'fref'):
        ref = layers[refname].astype('float64')
        lt = absorb((ref > stack).sum(axis=0))
        eq = absorb((ref == stack).sum(axis=0))
        gt = absorb((ref < stack).sum(axis=0))
        g_lt = results['lesser_' + refname].data
        g_eq = results['equal_' + refname].data
        g_gt = results['greater_' + refname].data
        check(same(g_lt, lt), tag + ' lesser_frequency ' + refname)
        check(same(g_eq, eq), tag + ' equal_frequency ' + refname)
        check(same(g_gt, gt), tag + ' greater_frequency ' + refname)
        tot = (np.asarray(g_lt, dtype=float) + np.asarray(g_eq, dtype=float)
               + np.asarray(g_gt, dtype=float))
        check(same(tot, absorb(np.full(ref.shape, n))), tag + ' freq sum')
        for g in (g_lt, g_eq, g_gt):
            want = 'float64' if nanmask.any() else 'int64'
            check(str(np.asarray(g).dtype) == want, tag + ' freq dtype')

    # positions
    safe = np.where(np.isnan(stack), 0.0, stack)
    lo = absorb(np.argmin(safe, axis=0) + 1)
    hi = absorb(np.argmax(safe, axis=0) + 1)
    check(same(results['lowest'].data, lo), tag + ' lowest_position')
    check(same(results['highest'].data, hi), tag + ' highest_position')

    # rank
    srt = np.sort(safe, axis=0)
    idx = (layers['ref'] - 1)[None]
    rk = absorb(np.take_along_axis(srt, idx, axis=0)[0])
    check(same(results['rank'].data, rk), tag + ' rank')

    # combine
    comb = results['combine']
    ids = np.asarray(comb.data, dtype=float)
    key = comb.attrs['key']
    check(ids.shape == nanmask.shape, tag + ' combine shape')
    seen = {}
    nxt = 1
    for r in range(ids.shape[0]):
        for c in range(ids.shape[1]):
            if nanmask[r, c]:
                check(np.isnan(ids[r, c]), tag + ' combine nan')
                continue
            tup = tuple(layers[v][r, c].item() for v in data_vars)
            if tup not in seen:
                seen[tup] = nxt
                nxt += 1
            check(ids[r, c] == seen[tup], tag + ' combine id')
    check(list(key.keys()) == list(range(1, nxt)), tag + ' combine key ids')
    check({v: k for k, v in seen.items()} == key, tag + ' combine key')
    for k_id, tup in key.items():
        check(type(k_id) is int and type(tup) is tuple, tag + ' key types')


def run_all(ds, data_vars):
    res = {}
    for st in STATS:
        res['cell_stats_' + st] = L.cell_stats(ds, data_vars, st)
    for refname in ('ref', 'fref'):
        res['lesser_' + refname] = L.lesser_frequency(ds, refname, data_vars)
        res['equal_' + refname] = L.equal_frequency(ds, refname, data_vars)
        res['greater_' + refname] = L.greater_frequency(ds, refname, data_vars)
    res['lowest'] = L.lowest_position(ds, data_vars)
    res['highest'] = L.highest_position(ds, data_vars)
    res['rank'] = L.rank(ds, 'ref', data_vars)
    res['popularity'] = L.popularity(ds, 'ref', data_vars)
    res['combine'] = L.combine(ds, data_vars)
    return res


def default_args_digests(rng):
    """data_vars=None paths (all variables / all but ref_var)."""
    out = {}
    a = rng.integers(0, 3, size=(4, 3)).astype('float64')
    b = rng.integers(0, 3, size=(4, 3)).astype('float64')
    c = rng.integers(1, 3, size=(4, 3)).astype('int64')
    a[1, 1] = np.nan
    ds = xr.Dataset({'a': (('y', 'x'), a), 'b': (('y', 'x'), b),
                     'c': (('y', 'x'), c)})
    out['def/cell_stats'] = digest(L.cell_stats(ds))
    out['def/cell_stats_kw'] = digest(L.cell_stats(raster=ds, func='mean'))
    out['def/combine'] = digest(L.combine(ds))
    out['def/lowest'] = digest(L.lowest_position(ds))
    out['def/highest'] = digest(L.highest_position(ds))
    out['def/lesser'] = digest(L.lesser_frequency(ds, 'c'))
    out['def/equal'] = digest(L.equal_frequency(ds, 'c'))
    out['def/greater'] = digest(L.greater_frequency(ds, 'c'))
    out['def/rank'] = digest(L.rank(ds, 'c'))
    out['def/popularity'] = digest(L.popularity(ds, 'c'))
    # the input dataset must not be modified
    out['def/input'] = hashlib.sha256(
        a.tobytes() + b.tobytes() + c.tobytes()).hexdigest()[:16]
    return out


def error_paths():
    out = {}
    ds = xr.Dataset({'a': (('y', 'x'), np.ones((2, 2))),
                     'b': (('y', 'x'), np.ones((2, 2)))})
    calls = {
        'notds': lambda: L.cell_stats(ds['a']),
        'badfunc': lambda: L.cell_stats(ds, func='foo'),
        'badvars': lambda: L.combine(ds, data_vars=['a', 1]),
        'missing': lambda: L.lowest_position(ds, data_vars=['a', 'z']),
        'refin': lambda: L.lesser_frequency(ds, 'a', data_vars=['a', 'b']),
        'refmiss': lambda: L.rank(ds, 'z'),
        'reftype': lambda: L.greater_frequency(ds, 1),
    }
    for k, f in calls.items():
        try:
            f()
            out['err/' + k] = 'noerror'
        except Exception as e:
            out['err/' + k] = type(e).__name__ + ':' + str(e)
    return out


def main():
    record = '--record' in sys.argv
    print('xrspatial from', xrspatial.__file__)
    rng = np.random.default_rng(1717)
    got = {}
    failures = []
    backends = ['numpy'] + (['dask'] if da is not None else [])
    for backend in backends:
        shapes = SHAPES if backend == 'numpy' else [(3, 4), (1, 5), (5, 1)]
        for shape in shapes:
            for kind in DTYPES:
                for n_layers in range(2, 7):
                    if backend == 'dask' and n_layers not in (2, 3, 6):
                        continue
                    ds, names, layers = make_dataset(
                        rng, shape, n_layers, kind, backend)
                    # full set, reversed order, and a strict subset
                    variants = [names, names[::-1]]
                    if n_layers > 2:
                        variants.append(names[1::2] + names[0:1])
                    for vi, data_vars in enumerate(variants):
                        tag = '%s/%s/%s/n%d/v%d' % (
                            backend, shape, kind, n_layers, vi)
                        # rank needs ref <= number of selected layers
                        lay = dict(layers)
                        lay['ref'] = np.minimum(layers['ref'], len(data_vars))
                        ds2 = ds.copy()
                        refdata = lay['ref']
                        if backend == 'dask':
                            refdata = da.from_array(refdata, chunks=1)
                        ds2['ref'] = (('y', 'x'), refdata)
                        res = run_all(ds2, list(data_vars))
                        try:
                            oracle_checks(tag, ds2, data_vars, lay, res)
                        except Fail as e:
                            failures.append('ORACLE ' + str(e))
                        h = hashlib.sha256()
                        for k in sorted(res):
                            h.update(k.encode())
                            h.update(digest(res[k]).encode())
                        got[tag] = h.hexdigest()[:16]
    got.update(default_args_digests(rng))
    got.update(error_paths())

    if record:
        print('EXPECTED = {')
        for k in got:
            print('    %r: %r,' % (k, got[k]))
        print('}')
        return 0

    for k, v in got.items():
        if k not in EXPECTED:
            failures.append('UNRECORDED ' + k)
        elif EXPECTED[k] != v:
            failures.append('DIGEST MISMATCH %s: %s != %s'
                            % (k, v, EXPECTED[k]))
    for k in EXPECTED:
        if k not in got:
            failures.append('MISSING ' + k)

    if failures:
        for f in failures[:40]:
            print(f)
        print('FAILED: %d differences over %d cases' % (len(failures), len(got)))
        return 1
    print('OK: %d cases identical' % len(got))
    return 0


if __name__ == '__main__':
    sys.exit(main())
